// Recorder and replayer binding the real osmoutils/partialord package (and the
// DAG underneath it) to spec/PartialOrd.tla (extra check X01).
//
// Only the public API is used: NewPartialOrdering, After, Before, Sequence,
// FirstElements, LastElements, TotalOrdering.  A call that panics is a rejected
// call; the object it was made on is thrown away and rebuilt from the calls
// accepted so far (a panic aborts the program that declares an ordering; what a
// recovered object contains is not specified).  The recorder judges nothing.
package partialord

import (
	"encoding/json"
	"fmt"
	"math/rand"
	"os"
	"sort"
	"testing"

	"github.com/osmosis-labs/osmosis/osmoutils/partialord"

	"verif/harness/tracelog"
)

// ---------------------------------------------------------------------------
// the real library behind a recover

type call struct {
	Op string   `json:"op"` // before | after | seq | first | last
	A  string   `json:"a"`
	B  string   `json:"b"`
	S  []string `json:"s"`
}

type answer struct {
	K string   `json:"k"` // ord | panic | buildfail
	O []string `json:"o"`
}

func (a answer) eq(b answer) bool {
	if a.K != b.K || len(a.O) != len(b.O) {
		return false
	}
	for i := range a.O {
		if a.O[i] != b.O[i] {
			return false
		}
	}
	return true
}

var devnull *os.File

// quiet runs f with os.Stdout pointing to /dev/null (TopologicalSort prints the
// whole graph before it panics on a cycle).
func quiet(f func()) {
	if devnull == nil {
		devnull, _ = os.OpenFile(os.DevNull, os.O_WRONLY, 0)
	}
	saved := os.Stdout
	os.Stdout = devnull
	defer func() { os.Stdout = saved }()
	f()
}

func newOrd(names []string) (po *partialord.PartialOrdering, outcome, msg string) {
	outcome = "ok"
	quiet(func() {
		defer func() {
			if r := recover(); r != nil {
				outcome, msg, po = "rej", fmt.Sprint(r), nil
			}
		}()
		in := append([]string{}, names...)
		p := partialord.NewPartialOrdering(in)
		po = &p
	})
	return
}

func apply(po *partialord.PartialOrdering, c call) (outcome, msg string) {
	outcome = "ok"
	quiet(func() {
		defer func() {
			if r := recover(); r != nil {
				outcome, msg = "rej", fmt.Sprint(r)
			}
		}()
		switch c.Op {
		case "before":
			po.Before(c.A, c.B)
		case "after":
			po.After(c.A, c.B)
		case "seq":
			po.Sequence(append([]string{}, c.S...)...)
		case "first":
			po.FirstElements(append([]string{}, c.S...)...)
		case "last":
			po.LastElements(append([]string{}, c.S...)...)
		default:
			panic("harness: unknown op " + c.Op)
		}
	})
	return
}

func total(po *partialord.PartialOrdering) (a answer) {
	a = answer{K: "ord", O: []string{}}
	quiet(func() {
		defer func() {
			if r := recover(); r != nil {
				a = answer{K: "panic", O: []string{}}
			}
		}()
		a.O = append(a.O, po.TotalOrdering()...)
	})
	return
}

// build makes a fresh ordering over names and repeats calls on it; ok is false
// if any of them is rejected this time.
func build(names []string, calls []call) (*partialord.PartialOrdering, bool) {
	po, oc, _ := newOrd(names)
	if oc != "ok" {
		return nil, false
	}
	for _, c := range calls {
		if oc, _ := apply(po, c); oc != "ok" {
			return nil, false
		}
	}
	return po, true
}

func totalOfBuild(names []string, calls []call) answer {
	po, ok := build(names, calls)
	if !ok {
		return answer{K: "buildfail", O: []string{}}
	}
	return total(po)
}

func shuffled(rng *rand.Rand, s []string) []string {
	r := append([]string{}, s...)
	rng.Shuffle(len(r), func(i, j int) { r[i], r[j] = r[j], r[i] })
	return r
}

// sameConstraintsOtherWords rewrites an accepted call list into another one that
// declares the same constraints: every maximal run of pairwise calls (between
// First/Last declarations, which do not commute with them) is split into pairs,
// shuffled, and each pair is expressed as Before, After or a two-name Sequence.
func sameConstraintsOtherWords(rng *rand.Rand, calls []call) []call {
	res := []call{}
	run := [][2]string{}
	flush := func() {
		rng.Shuffle(len(run), func(i, j int) { run[i], run[j] = run[j], run[i] })
		for _, p := range run {
			switch rng.Intn(3) {
			case 0:
				res = append(res, call{Op: "before", A: p[0], B: p[1], S: []string{}})
			case 1:
				res = append(res, call{Op: "after", A: p[1], B: p[0], S: []string{}})
			default:
				res = append(res, call{Op: "seq", S: []string{p[0], p[1]}})
			}
		}
		run = run[:0]
	}
	for _, c := range calls {
		switch c.Op {
		case "before":
			run = append(run, [2]string{c.A, c.B})
		case "after":
			run = append(run, [2]string{c.B, c.A})
		case "seq":
			for i := 0; i+1 < len(c.S); i++ {
				run = append(run, [2]string{c.S[i], c.S[i+1]})
			}
		default:
			flush()
			res = append(res, c)
		}
	}
	flush()
	return res
}

// twins asks the same question in other ways (property P7): the same object
// again, a fresh object with the same calls, fresh objects over the same
// element set listed in another order with the same constraints declared in
// other words.
func twins(rng *rand.Rand, po *partialord.PartialOrdering, names []string, acc []call) []answer {
	res := []answer{total(po), totalOfBuild(names, acc)}
	for i := 0; i < 2; i++ {
		res = append(res, totalOfBuild(shuffled(rng, names), sameConstraintsOtherWords(rng, acc)))
	}
	rev := append([]string{}, names...)
	sort.Sort(sort.Reverse(sort.StringSlice(rev)))
	res = append(res, totalOfBuild(rev, acc))
	return res
}

// probe: would "a before b" still leave an ordering?  (fresh object)
func probe(names []string, acc []call, a, b string) string {
	po, ok := build(names, acc)
	if !ok {
		return "buildfail"
	}
	if oc, _ := apply(po, call{Op: "before", A: a, B: b}); oc != "ok" {
		return "fail"
	}
	if total(po).K != "ord" {
		return "fail"
	}
	return "ok"
}

// ---------------------------------------------------------------------------
// impl -> spec: seeded random histories recorded as ndjson

var pool = []string{"auth", "bank", "crisis", "distr", "epochs", "gov", "ibc", "mint", "staking", "upgrade"}

func pickN(rng *rand.Rand) int {
	switch r := rng.Intn(100); {
	case r < 3:
		return 1
	case r < 11:
		return 2
	case r < 33:
		return 3
	case r < 66:
		return 4
	case r < 95:
		return 5
	default:
		return 6
	}
}

func TestRecord(t *testing.T) {
	out := os.Getenv("VERIF_OUT")
	if out == "" {
		t.Skip("VERIF_OUT not set")
	}
	seed := tracelog.EnvInt("VERIF_SEED", 1)
	nh := int(tracelog.EnvInt("VERIF_HISTORIES", 50))
	maxCalls := int(tracelog.EnvInt("VERIF_CALLS", 12))
	rng := rand.New(rand.NewSource(seed))
	tw, err := tracelog.NewWriter(out)
	if err != nil {
		t.Fatal(err)
	}
	counts := map[string]int{}
	for h := 0; h < nh; h++ {
		n := pickN(rng)
		names := shuffled(rng, pool)[:n]
		strangers := []string{"zzz"}
		for _, p := range pool {
			in := false
			for _, x := range names {
				in = in || x == p
			}
			if !in {
				strangers = append(strangers, p)
			}
		}
		if rng.Intn(100) < 3 && n >= 2 { // a name given twice
			names[rng.Intn(n-1)+1] = names[0]
		}
		mode := rng.Intn(100)          // <60 careful, <85 careless, else app-like
		target := shuffled(rng, names) // the ordering a "careful" user has in mind
		po, oc, msg := newOrd(names)
		tw.Emit(map[string]any{"e": "cfg", "names": names, "o": oc, "msg": msg, "mode": mode, "target": target})
		counts["cfg:"+oc]++
		if oc != "ok" {
			continue
		}
		acc := []call{}
		pos := map[string]int{}
		for i, x := range target {
			pos[x] = i
		}
		pCareful := 0
		switch {
		case mode < 60:
			pCareful = 92
		case mode < 85:
			pCareful = 0
		default:
			pCareful = 100
		}
		emitTotal := func() {
			a := total(po)
			tws := twins(rng, po, names, acc)
			tw.Emit(map[string]any{"e": "total", "r": a, "twins": tws})
			counts["total:"+a.K]++
		}
		emitProbes := func(k int) {
			if n < 2 {
				return
			}
			for i := 0; i < k; i++ {
				a := names[rng.Intn(n)]
				b := names[rng.Intn(n)]
				if a == b {
					continue
				}
				r := probe(names, acc, a, b)
				tw.Emit(map[string]any{"e": "probe", "a": a, "b": b, "r": r})
				counts["probe:"+r]++
			}
		}
		emitTotal()
		anyName := func() string {
			if rng.Intn(100) < 4 {
				return strangers[rng.Intn(len(strangers))]
			}
			return names[rng.Intn(n)]
		}
		pair := func() (string, string) { // "a before b"
			a, b := anyName(), anyName()
			if a == b && rng.Intn(100) < 90 && n >= 2 {
				for a == b {
					b = names[rng.Intn(n)]
				}
			}
			if rng.Intn(100) < pCareful {
				pa, oka := pos[a]
				pb, okb := pos[b]
				if oka && okb && pa > pb {
					a, b = b, a
				}
			}
			return a, b
		}
		decl := func(first bool) []string {
			k := 1 + rng.Intn(3)
			if k > n {
				k = n
			}
			if rng.Intn(100) < 6 {
				k = n // every element
			}
			var s []string
			if rng.Intn(100) < pCareful {
				if first {
					s = append([]string{}, target[:k]...)
				} else {
					s = append([]string{}, target[n-k:]...)
				}
			} else {
				s = shuffled(rng, names)[:k]
			}
			if rng.Intn(100) < 4 && k >= 2 { // a name listed twice
				s[rng.Intn(k-1)+1] = s[0]
			}
			if rng.Intn(100) < 3 {
				s[rng.Intn(k)] = strangers[rng.Intn(len(strangers))]
			}
			return s
		}
		ncalls := 3 + rng.Intn(maxCalls-2)
		doneFirst, doneLast := false, false
		for ci := 0; ci < ncalls; ci++ {
			var c call
			r := rng.Intn(100)
			switch {
			case mode >= 85 && ci == 0:
				c = call{Op: "first", S: decl(true)}
			case mode >= 85 && ci == 1 && rng.Intn(2) == 0:
				c = call{Op: "last", S: decl(false)}
			case r < 28:
				a, b := pair()
				c = call{Op: "before", A: a, B: b, S: []string{}}
			case r < 56:
				a, b := pair()
				c = call{Op: "after", A: b, B: a, S: []string{}}
			case r < 74:
				k := 2 + rng.Intn(3)
				s := []string{}
				if rng.Intn(100) < pCareful { // a subsequence of the target
					idx := rng.Perm(n)
					if k > n {
						k = n
					}
					idx = idx[:k]
					sort.Ints(idx)
					for _, i := range idx {
						s = append(s, target[i])
					}
					if rng.Intn(100) < 3 {
						s[rng.Intn(len(s))] = strangers[rng.Intn(len(strangers))]
					}
				} else {
					for i := 0; i < k; i++ {
						s = append(s, anyName())
					}
				}
				if rng.Intn(100) < 5 {
					s = s[:rng.Intn(2)] // empty or one name
				}
				c = call{Op: "seq", S: s}
			case r < 87:
				if doneFirst && rng.Intn(100) < 70 {
					a, b := pair()
					c = call{Op: "before", A: a, B: b, S: []string{}}
				} else {
					c = call{Op: "first", S: decl(true)}
				}
			default:
				if doneLast && rng.Intn(100) < 70 {
					a, b := pair()
					c = call{Op: "after", A: b, B: a, S: []string{}}
				} else {
					c = call{Op: "last", S: decl(false)}
				}
			}
			if c.S == nil {
				c.S = []string{}
			}
			oc, msg := apply(po, c)
			tw.Emit(map[string]any{"e": c.Op, "a": c.A, "b": c.B, "s": c.S, "o": oc, "msg": msg})
			counts[c.Op+":"+oc]++
			if oc == "ok" {
				acc = append(acc, c)
				doneFirst = doneFirst || c.Op == "first"
				doneLast = doneLast || c.Op == "last"
				emitTotal()
				emitProbes(2)
				if rng.Intn(100) < 10 {
					emitTotal() // asked again without a change in between
				}
			} else {
				var ok bool
				po, ok = build(names, acc)
				if !ok {
					t.Fatalf("history %d: the accepted calls are not accepted again: %v", h, acc)
				}
				if rng.Intn(100) < 30 {
					emitTotal()
				}
			}
		}
	}
	if err := tw.Close(); err != nil {
		t.Fatal(err)
	}
	bz, _ := json.Marshal(counts)
	fmt.Printf("RECORDED events=%d histories=%d counts=%s\n", tw.N, nh, bz)
}

// ---------------------------------------------------------------------------
// spec -> impl: behaviours printed by TLC (MCPartialOrd, Gen) executed on the library

type genStep struct {
	call
	O      string     `json:"o"`
	May    []string   `json:"may"`
	Redund bool       `json:"redund"`
	Cons   [][]string `json:"cons"`
	First  []string   `json:"first"`
	Last   []string   `json:"last"`
	Sat    bool       `json:"sat"`
	Dconf  bool       `json:"dconf"`
}

type behaviour struct {
	Names []string  `json:"names"`
	O     string    `json:"o"`
	Steps []genStep `json:"steps"`
}

type mismatch struct {
	Behaviour int    `json:"behaviour"`
	Step      int    `json:"step"`
	What      string `json:"what"`
	Shape     string `json:"shape"` // non-empty: one of the classified shapes (see bin/checks/x01.py)
	Want      any    `json:"want"`
	Got       any    `json:"got"`
}

func hasDup(s []string) bool {
	seen := map[string]bool{}
	for _, x := range s {
		if seen[x] {
			return true
		}
		seen[x] = true
	}
	return false
}

// satisfies: does the ordering o satisfy what the specification says is in force?
func satisfies(o, names []string, st genStep) string {
	if len(o) != len(names) {
		return "not a permutation of the elements"
	}
	pos := map[string]int{}
	for i, x := range o {
		if _, dup := pos[x]; dup {
			return "not a permutation of the elements"
		}
		pos[x] = i
	}
	for _, x := range names {
		if _, ok := pos[x]; !ok {
			return "not a permutation of the elements"
		}
	}
	for _, c := range st.Cons {
		pa, oka := pos[c[0]]
		pb, okb := pos[c[1]]
		if !oka || !okb || pa >= pb {
			return fmt.Sprintf("pairwise constraint %s before %s is not respected", c[0], c[1])
		}
	}
	if len(st.First) > len(o) || len(st.Last) > len(o) {
		return "declaration longer than the ordering"
	}
	for i, x := range st.First {
		if o[i] != x {
			return "does not begin with the declared first elements"
		}
	}
	for i, x := range st.Last {
		if o[len(o)-len(st.Last)+i] != x {
			return "does not end with the declared last elements"
		}
	}
	return ""
}

func has(set []string, x string) bool {
	for _, y := range set {
		if x == y {
			return true
		}
	}
	return false
}

func TestReplay(t *testing.T) {
	in := os.Getenv("VERIF_IN")
	if in == "" {
		t.Skip("VERIF_IN not set")
	}
	out := tracelog.EnvStr("VERIF_OUT", in+".result")
	bs, err := tracelog.ReadLines[behaviour](in)
	if err != nil {
		t.Fatal(err)
	}
	shard, nshards := 0, 1
	fmt.Sscanf(os.Getenv("VERIF_SHARD"), "%d/%d", &shard, &nshards)
	if nshards < 1 {
		nshards = 1
	}
	rng := rand.New(rand.NewSource(7))
	mm := []mismatch{}
	shapes := map[string]int{}
	shapeSample := map[string]mismatch{}
	divKinds := map[string]int{}
	done, full, diverged, steps, answers, rejections, byFinding := 0, 0, 0, 0, 0, 0, 0
	for bi, b := range bs {
		if bi%nshards != shard {
			continue
		}
		done++
		bad := func(si int, what, shape string, want, got any) {
			m := mismatch{Behaviour: bi, Step: si, What: what, Shape: shape, Want: want, Got: got}
			if shape != "" {
				shapes[shape]++
				if _, ok := shapeSample[shape]; !ok {
					shapeSample[shape] = m
				}
				return
			}
			mm = append(mm, m)
		}
		po, oc, _ := newOrd(b.Names)
		if oc != b.O {
			bad(-1, "NewPartialOrdering outcome", "", b.O, oc)
			continue
		}
		if oc != "ok" {
			full++
			continue
		}
		acc := []call{}
		stop := false
		for si, st := range b.Steps {
			steps++
			c := st.call
			if c.S == nil {
				c.S = []string{}
			}
			oc, msg := apply(po, c)
			if !has(st.May, oc) && oc == "rej" && st.Redund && (c.Op == "before" || c.Op == "after" || c.Op == "seq") {
				// classified shape: re-declaring something directly declared is rejected
				bad(si, "a pairwise call that re-declares a directly declared constraint is rejected although an ordering exists",
					"redundant-rejected", st.May, map[string]any{"o": oc, "msg": msg, "call": c})
				stop = true
				byFinding++
				break
			}
			if !has(st.May, oc) {
				bad(si, "outcome of "+c.Op+" is not one the specification allows", "", st.May, map[string]any{"o": oc, "msg": msg, "call": c})
				stop = true
				break
			}
			if oc != st.O {
				// the specification leaves the choice open and the model chose the other way here:
				// a sibling behaviour follows the library's choice
				diverged++
				divKinds[fmt.Sprintf("%s:model-%s:library-%s", c.Op, st.O, oc)]++
				stop = true
				break
			}
			if oc == "ok" {
				acc = append(acc, c)
			} else {
				rejections++
				var ok bool
				if po, ok = build(b.Names, acc); !ok {
					bad(si, "the accepted calls are not accepted again", "", acc, nil)
					stop = true
					break
				}
			}
			// the projection of the library's state: its answer to TotalOrdering
			a := total(po)
			answers++
			switch {
			case a.K == "ord":
				if why := satisfies(a.O, b.Names, st); why != "" {
					shape := ""
					if st.Dconf {
						shape = "first-last-conflict"
						if hasDup(st.First) || hasDup(st.Last) {
							shape = "decl-duplicate"
						}
						if satisfies(a.O, b.Names, genStep{}) != "" {
							shape = "" // not even a permutation: never tolerated
						}
					}
					bad(si, "TotalOrdering returned an ordering that violates what is in force: "+why, shape,
						map[string]any{"cons": st.Cons, "first": st.First, "last": st.Last, "satisfiable": st.Sat}, a.O)
					if shape == "" {
						stop = true
					}
				} else if !st.Sat {
					bad(si, "harness: ordering satisfies everything although the specification says none exists", "", st, a.O)
					stop = true
				}
			case a.K == "panic" && st.Sat:
				bad(si, "TotalOrdering panicked although an ordering satisfying everything in force exists", "",
					map[string]any{"cons": st.Cons, "first": st.First, "last": st.Last}, "panic")
				stop = true
			}
			if stop {
				break
			}
			for _, tw := range twins(rng, po, b.Names, acc) {
				if !tw.eq(a) {
					bad(si, "TotalOrdering is not a function of the elements and the constraints declared", "", a, tw)
					stop = true
					break
				}
			}
			if stop {
				break
			}
		}
		if !stop {
			full++
		}
		if len(mm) >= 20 {
			break
		}
	}
	samples := []mismatch{}
	for _, m := range shapeSample {
		samples = append(samples, m)
	}
	res := map[string]any{"behaviours": done, "full": full, "diverged": diverged, "steps": steps, "answers": answers,
		"rejections": rejections, "stopped_by_finding": byFinding, "diverged_kinds": divKinds, "mismatches": mm, "shapes": shapes, "shape_samples": samples}
	bz, _ := json.Marshal(res)
	if err := os.WriteFile(out, bz, 0o644); err != nil {
		t.Fatal(err)
	}
	fmt.Printf("REPLAYED behaviours=%d full=%d diverged=%d steps=%d mismatches=%d shapes=%v\n", done, full, diverged, steps, len(mm), shapes)
}
