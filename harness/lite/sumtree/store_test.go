package sumtree

import (
	"bytes"
	"io"
	"sort"

	"cosmossdk.io/store/cachekv"
	storetypes "cosmossdk.io/store/types"
)

// sliceStore is a minimal persistent KVStore (sorted, copy-on-write slice) used for
// the high-volume exhaustive replay, where cosmos-db's MemDB (goroutine + channel
// per iterator) and stacked cachekv layers dominate the run time.  Iterators work on
// the snapshot taken when they were created.  Every 50th replayed behaviour, the
// sample of behaviours logged for TLC and every recorded history (TestRecord) run on
// the cosmos-sdk stores (MemDB behind dbadapter, one cachekv branch per mutation)
// instead, with the same comparisons.
type entry struct{ k, v []byte }

type sliceStore struct{ es []entry }

var _ storetypes.KVStore = (*sliceStore)(nil)

func (s *sliceStore) find(k []byte) (int, bool) {
	i := sort.Search(len(s.es), func(i int) bool { return bytes.Compare(s.es[i].k, k) >= 0 })
	return i, i < len(s.es) && bytes.Equal(s.es[i].k, k)
}

func (s *sliceStore) GetStoreType() storetypes.StoreType { return storetypes.StoreTypeDB }
func (s *sliceStore) CacheWrap() storetypes.CacheWrap    { return cachekv.NewStore(s) }
func (s *sliceStore) CacheWrapWithTrace(io.Writer, storetypes.TraceContext) storetypes.CacheWrap {
	return cachekv.NewStore(s)
}

func (s *sliceStore) Get(k []byte) []byte {
	if i, ok := s.find(k); ok {
		return s.es[i].v
	}
	return nil
}

func (s *sliceStore) Has(k []byte) bool { _, ok := s.find(k); return ok }

func (s *sliceStore) Set(k, v []byte) {
	storetypes.AssertValidKey(k)
	storetypes.AssertValidValue(v)
	i, ok := s.find(k)
	e := entry{append([]byte{}, k...), append([]byte{}, v...)}
	n := make([]entry, 0, len(s.es)+1)
	n = append(n, s.es[:i]...)
	n = append(n, e)
	if ok {
		n = append(n, s.es[i+1:]...)
	} else {
		n = append(n, s.es[i:]...)
	}
	s.es = n
}

func (s *sliceStore) Delete(k []byte) {
	i, ok := s.find(k)
	if !ok {
		return
	}
	n := make([]entry, 0, len(s.es))
	n = append(n, s.es[:i]...)
	n = append(n, s.es[i+1:]...)
	s.es = n
}

func (s *sliceStore) rng(start, end []byte) []entry {
	lo := 0
	if start != nil {
		lo, _ = s.find(start)
	}
	hi := len(s.es)
	if end != nil {
		hi, _ = s.find(end)
	}
	if hi < lo {
		hi = lo
	}
	return s.es[lo:hi]
}

func (s *sliceStore) Iterator(start, end []byte) storetypes.Iterator {
	return &sliceIter{es: s.rng(start, end), start: start, end: end, pos: 0, step: 1}
}

func (s *sliceStore) ReverseIterator(start, end []byte) storetypes.Iterator {
	es := s.rng(start, end)
	return &sliceIter{es: es, start: start, end: end, pos: len(es) - 1, step: -1}
}

func (s *sliceStore) clone() *sliceStore { return &sliceStore{es: s.es} }

type sliceIter struct {
	es         []entry
	start, end []byte
	pos, step  int
	closed     bool
}

func (it *sliceIter) Domain() ([]byte, []byte) { return it.start, it.end }
func (it *sliceIter) Valid() bool               { return !it.closed && it.pos >= 0 && it.pos < len(it.es) }
func (it *sliceIter) Next() {
	if !it.Valid() {
		panic("Next on invalid iterator")
	}
	it.pos += it.step
}
func (it *sliceIter) Key() []byte {
	if !it.Valid() {
		panic("Key on invalid iterator")
	}
	return it.es[it.pos].k
}
func (it *sliceIter) Value() []byte {
	if !it.Valid() {
		panic("Value on invalid iterator")
	}
	return it.es[it.pos].v
}
func (it *sliceIter) Error() error { return nil }
func (it *sliceIter) Close() error { it.closed = true; return nil }
