package sumtree

import (
	"encoding/json"
	"math/rand"
	"fmt"
	"os"
	"sort"
	"sync"
	"testing"

	"verif/harness/tracelog"
)

// TestExplore is a development aid (not used by bin/check): exhaustive DFS over op
// sequences of a small alphabet directly in Go (prefix-sharing through store
// branches), printing the shallowest deviation per class.  VERIF_EXPLORE=1 enables it.
func TestExplore(t *testing.T) {
	if os.Getenv("VERIF_EXPLORE") == "" {
		t.Skip("VERIF_EXPLORE not set")
	}
	depth := int(tracelog.EnvInt("VERIF_DEPTH", 6))
	noRem := os.Getenv("VERIF_NOREM") != ""
	noEmpty := os.Getenv("VERIF_NOEMPTYREM") != ""
	keys := []key{{}, {1}, {2}, {3}, {4}, {5}}
	probe := append([]key{}, keys...)
	probe = append(probe, key{0}, key{2, 0})
	alpha := []op{}
	for _, k := range keys {
		alpha = append(alpha, op{A: "set", K: k, V: 1})
		if !noRem && !(noEmpty && len(k) == 0) {
			alpha = append(alpha, op{A: "rem", K: k})
		}
	}
	type found struct {
		depth int
		text  string
	}
	for m := int(tracelog.EnvInt("VERIF_MLO", 2)); m <= int(tracelog.EnvInt("VERIF_MHI", 4)); m++ {
		var mu sync.Mutex
		seen := map[string]found{}
		n := 0
		var rec func(w *world, ops []op, cur []kv, removed bool)
		rec = func(w *world, ops []op, cur []kv, removed bool) {
			if len(ops) == depth {
				return
			}
			for _, o := range alpha {
				f := w.fork()
				ops2 := append(append([]op{}, ops...), o)
				rem2 := removed || (o.A == "rem" && wantGetPresent(cur, o.K))
				ok, ptxt := f.apply(o)
				cur2 := applyModel(cur, o)
				leaves := f.leaves()
				nodes := f.dump()
				defect, stale := checkStructure(nodes, leaves)
				bad := false
				rep := func(kind, q, shape string, _ []key, want, got any) {
					if q == "subset" && shape == "key-key" {
						return
					}
					cls := fmt.Sprintf("%s|%s|%s|removed=%v|defect=%s|stale=%v", kind, q, shape, rem2, defect, stale)
					if kind == "query-panic" || kind == "mutation-panic" {
						cls += "|" + fmt.Sprint(got)
					}
					mu.Lock()
					if old, okk := seen[cls]; !okk || old.depth > len(ops2) {
						seen[cls] = found{len(ops2), fmt.Sprintf("m=%d depth=%d %s\n   ops=%v\n   want=%v got=%v\n   leaves=%v\n   nodes=%v", m, len(ops2), cls, ops2, want, got, leaves, nodes)}
					}
					mu.Unlock()
				}
				if !ok {
					rep("mutation-panic", o.A, "", nil, "", ptxt)
					bad = true
				}
				if !eqKVs(leaves, cur2) {
					rep("state", o.A, "", nil, cur2, leaves)
					bad = true
				}
				if defect != "" {
					rep("structure", o.A, defect, nil, "", defect)
				}
				f.battery(cur2, probe, rep)
				mu.Lock()
				n++
				mu.Unlock()
				if !bad {
					rec(f, ops2, cur2, rem2)
				}
			}
		}
		var wg sync.WaitGroup
		root := newFastWorld(m)
		cur0 := []kv{{K: key{}, V: 0}}
		for _, o := range alpha {
			wg.Add(1)
			go func(o op) {
				defer wg.Done()
				f := root.fork()
				ok, _ := f.apply(o)
				if !ok {
					return
				}
				c := applyModel(cur0, o)
				rec(f, []op{o}, c, o.A == "rem" && wantGetPresent(cur0, o.K))
			}(o)
		}
		wg.Wait()
		out := []found{}
		for _, f := range seen {
			out = append(out, f)
		}
		sort.Slice(out, func(i, j int) bool {
			if out[i].depth != out[j].depth {
				return out[i].depth < out[j].depth
			}
			return out[i].text < out[j].text
		})
		for _, f := range out {
			fmt.Println(f.text)
		}
		fmt.Printf("m=%d depth<=%d nodes=%d classes=%d\n", m, depth, n, len(seen))
	}
}

func applyModel(st []kv, o op) []kv {
	res := []kv{}
	found := false
	for _, e := range st {
		if cmpKey(e.K, o.K) == 0 {
			found = true
			switch o.A {
			case "set":
				res = append(res, kv{K: e.K, V: o.V})
			case "inc":
				res = append(res, kv{K: e.K, V: e.V + o.V})
			case "dec":
				res = append(res, kv{K: e.K, V: e.V - o.V})
			case "rem":
			case "open":
				res = append(res, e)
			}
		} else {
			res = append(res, e)
		}
	}
	if !found {
		switch o.A {
		case "set", "inc":
			res = append(res, kv{K: o.K, V: o.V})
		case "dec":
			res = append(res, kv{K: o.K, V: -o.V})
		case "open":
			res = append(res, kv{K: key{}, V: 0})
		}
	}
	return sortKVs(res)
}

// TestFuzz is a development aid: random Set/Remove histories, first structural
// defect / mutation panic / state divergence per class, greedily shrunk.
func TestFuzz(t *testing.T) {
	if os.Getenv("VERIF_FUZZ") == "" {
		t.Skip("VERIF_FUZZ not set")
	}
	noEmpty := os.Getenv("VERIF_NOEMPTYREM") != ""
	nk := int(tracelog.EnvInt("VERIF_NKEYS", 10))
	run := func(m int, ops []op) string {
		w := newFastWorld(m)
		cur := []kv{{K: key{}, V: 0}}
		for _, o := range ops {
			ok, ptxt := w.apply(o)
			cur = applyModel(cur, o)
			if !ok {
				return "mutation-panic|" + o.A + "|" + ptxt
			}
			leaves := w.leaves()
			if !eqKVs(leaves, cur) {
				return "state|" + o.A
			}
			if d, _ := checkStructure(w.dump(), leaves); d != "" {
				return "structure|" + o.A + "|" + d
			}
		}
		return ""
	}
	rng := rand.New(rand.NewSource(tracelog.EnvInt("VERIF_SEED", 1)))
	best := map[string][]op{}
	bestM := map[string]int{}
	for it := 0; it < int(tracelog.EnvInt("VERIF_ITERS", 20000)); it++ {
		m := 2 + rng.Intn(5)
		n := 5 + rng.Intn(40)
		ops := []op{}
		for i := 0; i < n; i++ {
			k := key{rng.Intn(nk)}
			if !noEmpty && rng.Intn(12) == 0 {
				k = key{}
			}
			if rng.Intn(5) < 2 {
				ops = append(ops, op{A: "rem", K: k})
			} else if rng.Intn(30) == 0 {
				ops = append(ops, op{A: "open", K: key{}})
			} else {
				ops = append(ops, op{A: "set", K: k, V: 1})
			}
		}
		cls := run(m, ops)
		if cls == "" {
			continue
		}
		// shrink
		for changed := true; changed; {
			changed = false
			for i := 0; i < len(ops); i++ {
				cand := append(append([]op{}, ops[:i]...), ops[i+1:]...)
				if run(m, cand) == cls {
					ops, changed = cand, true
					i--
				}
			}
		}
		key := fmt.Sprintf("m=%d %s", m, cls)
		if old, ok := best[key]; !ok || len(old) > len(ops) {
			best[key], bestM[key] = ops, m
		}
	}
	names := []string{}
	for k := range best {
		names = append(names, k)
	}
	sort.Strings(names)
	for _, k := range names {
		fmt.Printf("%s  (%d ops)\n   %v\n", k, len(best[k]), best[k])
	}
}

// TestShow (development aid): VERIF_SHOW='{"m":2,"ops":[{"a":"set","k":[6],"v":1},...]}' prints the
// node dump and all deviations after every op.
func TestShow(t *testing.T) {
	spec := os.Getenv("VERIF_SHOW")
	if spec == "" {
		t.Skip("VERIF_SHOW not set")
	}
	var in struct {
		M     int   `json:"m"`
		Ops   []op  `json:"ops"`
		Probe []key `json:"probe"`
		Real  bool  `json:"real"`
	}
	if err := json.Unmarshal([]byte(spec), &in); err != nil {
		t.Fatal(err)
	}
	w := newFastWorld(in.M)
	if in.Real {
		w = newWorld(in.M)
	}
	cur := []kv{{K: key{}, V: 0}}
	for _, o := range in.Ops {
		if o.K == nil {
			o.K = key{}
		}
		ok, ptxt := w.apply(o)
		cur = applyModel(cur, o)
		leaves := w.leaves()
		d, stale := checkStructure(w.dump(), leaves)
		fmt.Printf("%v ok=%v %s\n  leaves=%v\n  nodes=%v\n  defect=%q stale=%v\n", o, ok, ptxt, leaves, w.dump(), d, stale)
		probe := in.Probe
		for _, e := range cur {
			probe = append(probe, e.K)
		}
		w.battery(cur, probe, func(kind, q, shape string, eff []key, want, got any) {
			if q == "subset" && shape == "key-key" || q == "total" {
				return
			}
			fmt.Printf("    DEV %s %s %s keys=%v want=%v got=%v\n", kind, q, shape, eff, want, got)
		})
	}
}
