// Recorder binding the real approximate / search functions of osmomath to
// spec/MathFns.tla (property C13).  Every event is ONE call of a public entry
// point on freshly built arguments:
//
//	f   function name          x   raw big arguments (BigDec * 10^36, Dec * 10^18, Int)
//	n   small integer args     ok  returned (no panic, no error)
//	r   raw result             w   witnesses for the specification, which never believes
//	                               them: log2(base) to 60 decimals (verified by TLC through
//	                               certified enclosures) resp. the image of the found input
//	                               (recomputed by TLC)
//
// The recorder judges nothing.  `tag` (input class), `err` and `a2` (argument read
// back after the call) are for statistics / diagnostics only.
package mathfns

import (
	"encoding/json"
	"fmt"
	"math/big"
	"math/rand"
	"os"
	"sort"
	"strings"
	"testing"

	"github.com/osmosis-labs/osmosis/osmomath"

	"verif/harness/tracelog"
)

type BD = osmomath.BigDec
type D = osmomath.Dec

type event struct {
	E   string         `json:"e"`
	F   string         `json:"f"`
	X   []tracelog.Big `json:"x"`
	N   []int          `json:"n"`
	Ok  bool           `json:"ok"`
	R   tracelog.Big   `json:"r"`
	W   []tracelog.Big `json:"w"`
	Err string         `json:"err"`
	Tag string         `json:"tag"`
	A2  tracelog.Big   `json:"a2"`
}

type cfgLine struct {
	E        string       `json:"e"`
	Seed     int64        `json:"seed"`
	Chunk    int          `json:"chunk"`
	PowPrec  tracelog.Big `json:"powprec"`
	MaxLines int          `json:"maxlines"`
}

var (
	one   = big.NewInt(1)
	two   = big.NewInt(2)
	ten   = big.NewInt(10)
	s18   = pow10(18)
	s36   = pow10(36)
	maxBD = new(big.Int).Sub(new(big.Int).Lsh(one, 1144), one)
	// LegacyDec: |value| < 2^256  (raw < 2^256 * 10^18)
	maxDec = new(big.Int).Sub(new(big.Int).Mul(new(big.Int).Lsh(one, 256), s18), one)
)

func pow10(k int) *big.Int { return new(big.Int).Exp(ten, big.NewInt(int64(k)), nil) }
func bi(v int64) *big.Int  { return big.NewInt(v) }
func add(a, b *big.Int) *big.Int {
	return new(big.Int).Add(a, b)
}
func sub(a, b *big.Int) *big.Int { return new(big.Int).Sub(a, b) }
func mul(a, b *big.Int) *big.Int { return new(big.Int).Mul(a, b) }
func neg(a *big.Int) *big.Int    { return new(big.Int).Neg(a) }

func mkBD(raw *big.Int) BD { return osmomath.NewBigDecFromBigIntWithPrec(new(big.Int).Set(raw), osmomath.BigDecPrecision) }
func mkD(raw *big.Int) D   { return osmomath.NewDecFromBigIntWithPrec(new(big.Int).Set(raw), osmomath.DecPrecision) }
func mkI(v *big.Int) osmomath.Int {
	return osmomath.NewIntFromBigInt(new(big.Int).Set(v))
}
func parse(s string, scale *big.Int) *big.Int {
	r, ok := new(big.Rat).SetString(s)
	if !ok {
		panic("bad literal " + s)
	}
	r.Mul(r, new(big.Rat).SetInt(scale))
	if !r.IsInt() {
		panic("literal not on the grid: " + s)
	}
	return new(big.Int).Set(r.Num())
}
func bd(s string) *big.Int  { return parse(s, s36) }
func dec(s string) *big.Int { return parse(s, s18) }

// ---------------------------------------------------------------------------
// witness: round(log2(num/den) * 10^60), num, den > 0 - digit-by-digit binary
// logarithm on a 512-bit fixed-point mantissa, 260 fractional bits (error < 1e-75).
// TLC verifies it (2^(L-1e-45) <= num/den <= 2^(L+1e-45)) before using it.
const wF = 512
const wBits = 260

var w60 = pow10(60)

func log2Witness(num, den *big.Int) *big.Int {
	if num.Sign() <= 0 || den.Sign() <= 0 {
		return big.NewInt(0)
	}
	m := new(big.Int).Lsh(num, 2*wF)
	m.Quo(m, den) // value * 2^(2F), >= 2^(2F) * 1e-80 for everything we feed
	e := m.BitLen() - 1 - 2*wF
	// normalise to [2^F, 2^(F+1))
	if sh := m.BitLen() - 1 - wF; sh > 0 {
		m.Rsh(m, uint(sh))
	} else {
		m.Lsh(m, uint(-sh))
	}
	twoF1 := new(big.Int).Lsh(one, wF+1)
	frac := new(big.Int)
	for i := 0; i < wBits; i++ {
		m.Mul(m, m)
		m.Rsh(m, wF)
		frac.Lsh(frac, 1)
		if m.Cmp(twoF1) >= 0 {
			m.Rsh(m, 1)
			frac.Or(frac, one)
		}
	}
	// L = e + frac / 2^wBits
	l := new(big.Int).Lsh(big.NewInt(int64(e)), wBits)
	l.Add(l, frac)
	l.Mul(l, w60)
	// round to nearest
	half := new(big.Int).Lsh(one, wBits-1)
	l.Add(l, half)
	l.Rsh(l, wBits) // arithmetic shift = floor, also for negatives
	return l
}

// ---------------------------------------------------------------------------
// recording

type rec struct {
	w       *tracelog.Writer
	rng     *rand.Rand
	seed    int64
	chunk   int
	inChunk int
	perChnk int
	sweeps  int
	stats   map[string]int
	extra   map[string]int
	notes   []string
}

func (r *rec) newChunk() {
	r.w.Emit(cfgLine{E: "cfg", Seed: r.seed, Chunk: r.chunk, PowPrec: tracelog.EncBig(osmomath.GetPowPrecision().BigInt()), MaxLines: r.perChnk})
	r.chunk++
	r.inChunk = 0
}

func (r *rec) emit(ev event) {
	if r.inChunk >= r.perChnk {
		r.newChunk()
	}
	ev.E = "op"
	if ev.X == nil {
		ev.X = []tracelog.Big{}
	}
	if ev.N == nil {
		ev.N = []int{}
	}
	if ev.W == nil {
		ev.W = []tracelog.Big{}
	}
	r.w.Emit(ev)
	r.inChunk++
	out := "ok"
	if !ev.Ok {
		out = "failed"
	}
	r.stats[ev.F+":"+out]++
	r.stats["tag:"+ev.F+":"+ev.Tag]++
}

func bigs(xs ...*big.Int) []tracelog.Big {
	out := make([]tracelog.Big, len(xs))
	for i, x := range xs {
		out[i] = tracelog.EncBig(x)
	}
	return out
}

// guard runs f; a panic or a returned error is a loud failure.
func guard(f func() (*big.Int, error)) (res *big.Int, ok bool, msg string) {
	defer func() {
		if p := recover(); p != nil {
			res, ok = big.NewInt(0), false
			msg = fmt.Sprint(p)
			if len(msg) > 100 {
				msg = msg[:100]
			}
		}
	}()
	v, err := f()
	if err != nil {
		return big.NewInt(0), false, err.Error()
	}
	return v, true, ""
}

func (r *rec) call(f, tag string, x []*big.Int, n []int, w []*big.Int, run func() (*big.Int, error)) (*big.Int, bool) {
	res, ok, msg := guard(run)
	ev := event{F: f, X: bigs(x...), N: n, Ok: ok, R: tracelog.EncBig(res), W: bigs(w...), Err: msg, Tag: tag, A2: tracelog.EncBig(bi(0))}
	r.emit(ev)
	return res, ok
}

// ---------------------------------------------------------------------------
// random material

func (r *rec) randBelow(n *big.Int) *big.Int {
	if n.Sign() <= 0 {
		return big.NewInt(0)
	}
	return new(big.Int).Rand(r.rng, n)
}

// log-uniform positive integer with 1..maxBits bits
func (r *rec) randBits(maxBits int) *big.Int {
	b := 1 + r.rng.Intn(maxBits)
	v := new(big.Int).Lsh(one, uint(b-1))
	return v.Add(v, r.randBelow(v))
}

// log-uniform in [lo, hi] (both > 0)
func (r *rec) logUniform(lo, hi *big.Int) *big.Int {
	for {
		b := lo.BitLen() + r.rng.Intn(hi.BitLen()-lo.BitLen()+1)
		v := new(big.Int).Lsh(one, uint(b-1))
		v.Add(v, r.randBelow(v))
		if v.Cmp(lo) >= 0 && v.Cmp(hi) <= 0 {
			return v
		}
	}
}

// a number with few significant decimal digits at the given scale exponent range
func (r *rec) fewDigits(maxDigits, minExp, maxExp int) *big.Int {
	d := 1 + r.rng.Intn(maxDigits)
	v := r.randBelow(pow10(d))
	v.Add(v, one)
	return v.Mul(v, pow10(minExp+r.rng.Intn(maxExp-minExp+1)))
}

func (r *rec) pick(xs []*big.Int) *big.Int { return xs[r.rng.Intn(len(xs))] }

func neighbours(xs ...*big.Int) []*big.Int {
	var out []*big.Int
	for _, x := range xs {
		out = append(out, sub(x, one), new(big.Int).Set(x), add(x, one))
	}
	return out
}

// ---------------------------------------------------------------------------
// Exp2

func (r *rec) exp2(tag string, x *big.Int) {
	r.call("Exp2", tag, []*big.Int{x}, nil, nil, func() (*big.Int, error) {
		return osmomath.Exp2(mkBD(x)).BigInt(), nil
	})
}

func exp2Edges() []*big.Int {
	e := neighbours(bi(0), bd("0.5"), bd("1"), bd("2"), bd("3"), bd("10"), bd("64"), bd("255"), bd("256"), bd("511"), bd("512"))
	for _, s := range []string{"0.000000000000000001", "0.0000000001", "0.00001", "0.0145", "0.3334567", "0.84864288", "0.99999",
		"0.999999999999999999", "0.999999999999999999999999999999999956", "100.3334567", "511.999999999999999999999999999999999999",
		"511.5", "0.25", "0.125", "0.75", "1.5", "17.0625", "500.000000000000000000000000000000000001"} {
		e = append(e, bd(s))
	}
	// outside the domain
	e = append(e, bd("512.5"), bd("513"), bd("1024"), bd("1000000"), neg(bd("1")), neg(bd("0.5")), neg(bd("512")),
		new(big.Int).Set(maxBD), neg(maxBD), pow10(36+30))
	return e
}

func (r *rec) exp2Random() (string, *big.Int) {
	ip := int64(r.rng.Intn(512))
	switch r.rng.Intn(10) {
	case 0:
		ip = 0
	case 1:
		ip = 511
	}
	var fr *big.Int
	tag := "random"
	switch r.rng.Intn(8) {
	case 0: // dyadic fraction m / 2^j, j <= 36 (exactly representable with 36 decimals)
		j := 1 + r.rng.Intn(36)
		m := r.randBelow(new(big.Int).Lsh(one, uint(j)))
		fr = new(big.Int).Quo(mul(m, s36), new(big.Int).Lsh(one, uint(j)))
		tag = "dyadic"
	case 1: // few digits
		fr = r.fewDigits(6, 18, 30)
		fr.Mod(fr, s36)
		tag = "few-digits"
	case 2: // just below / above an integer
		k := r.randBits(60)
		if r.rng.Intn(2) == 0 {
			fr = sub(s36, k)
		} else {
			fr = k
		}
		tag = "near-integer"
	default:
		fr = r.randBelow(s36)
	}
	return tag, add(mul(bi(ip), s36), fr)
}

// ---------------------------------------------------------------------------
// logarithms

func (r *rec) logs(tag string, x *big.Int, which int) {
	names := []string{"LogBase2", "Ln", "TickLog"}
	fs := []func(BD) BD{BD.LogBase2, BD.Ln, BD.TickLog}
	for i := range names {
		if which >= 0 && which != i {
			continue
		}
		f := fs[i]
		r.call(names[i], tag, []*big.Int{x}, nil, nil, func() (*big.Int, error) { return f(mkBD(x)).BigInt(), nil })
	}
}

func (r *rec) customLog(tag string, x, base *big.Int) {
	r.call("CustomBaseLog", tag, []*big.Int{x, base}, nil, []*big.Int{log2Witness(base, s36)}, func() (*big.Int, error) {
		return mkBD(x).CustomBaseLog(mkBD(base)).BigInt(), nil
	})
}

func logEdges() []*big.Int {
	e := neighbours(bi(2), bd("0.5"), bd("1"), bd("2"), bd("4"), bd("10"), bd("1.0001"))
	e = append(e, bi(1), bi(5), bd("0.000000000000000001"), bd("2.718281828459045235360287471352662498"), bd("1.5"), bd("3"),
		bd("0.1"), bd("1000000"), pow10(36+38), pow10(36+100), pow10(36+300), new(big.Int).Set(maxBD), sub(maxBD, one),
		new(big.Int).Rsh(maxBD, 1), bd("1.000000000000000001"), bd("0.999999999999999999"))
	for _, k := range []int{-119, -100, -64, -10, -3, 3, 10, 64, 100, 500, 1000, 1023} {
		var v *big.Int
		if k >= 0 {
			v = mul(new(big.Int).Lsh(one, uint(k)), s36)
		} else {
			v = new(big.Int).Quo(s36, new(big.Int).Lsh(one, uint(-k))) // truncated 2^k
		}
		e = append(e, neighbours(v)...)
	}
	// outside the domain
	e = append(e, bi(0), bi(-1), neg(bd("1")), neg(bd("2")), neg(maxBD))
	return e
}

func (r *rec) logRandom() (string, *big.Int) {
	switch r.rng.Intn(8) {
	case 0:
		return "near-one", add(s36, mul(bi(int64(1-2*r.rng.Intn(2))), r.randBits(110)))
	case 1:
		return "few-digits", r.fewDigits(5, 0, 80)
	case 2: // tick-like prices 1.0001^k are not on the grid; take round numbers of a price range
		return "price", r.fewDigits(12, 18, 48)
	default:
		return "random", r.randBits(1143)
	}
}

func customBases() []*big.Int {
	b := []*big.Int{bd("2"), bd("10"), bd("2.718281828459045235360287471352662498"), bd("1.0001"), bd("0.5"), bd("3"), bd("0.1"),
		bd("1.0000000001"), bd("0.999"), bd("0.00000000000000000001"), pow10(36 + 20), bd("1.5"), bd("7"),
		add(s36, pow10(7)), sub(s36, pow10(7)), add(s36, pow10(6)), sub(s36, pow10(5)), // 1 +- 1e-29, 1e-30, 1e-31
		add(s36, one), sub(s36, one), add(s36, bi(3)), bi(1), new(big.Int).Set(maxBD)}
	// outside the domain
	b = append(b, new(big.Int).Set(s36), bi(0), neg(bd("2")), bi(-1))
	return b
}

// ---------------------------------------------------------------------------
// powers

func (r *rec) pow(tag string, b, e *big.Int) {
	r.call("Pow", tag, []*big.Int{b, e}, nil, []*big.Int{log2Witness(b, s18)}, func() (*big.Int, error) {
		return osmomath.Pow(mkD(b), mkD(e)).BigInt(), nil
	})
}

func (r *rec) powApprox(tag string, b, e, p *big.Int) {
	r.call("PowApprox", tag, []*big.Int{b, e, p}, nil, []*big.Int{log2Witness(b, s18)}, func() (*big.Int, error) {
		return osmomath.PowApprox(mkD(b), mkD(e), mkD(p)).BigInt(), nil
	})
}

func powBases() []*big.Int {
	b := neighbours(dec("0.0001"), dec("0.5"), dec("1"), dec("1.9999"))
	for _, s := range []string{"0.000000000000000001", "0.00001", "0.001", "0.008", "0.01", "0.1", "0.25", "0.3", "0.75", "0.9", "0.99",
		"0.999999", "0.999999999999", "1.000000000001", "1.000001", "1.01", "1.1", "1.25", "1.5", "1.75", "1.9", "1.99", "1.999",
		"1.99999", "1.999999999999999999"} {
		b = append(b, dec(s))
	}
	// outside the domain
	b = append(b, bi(0), bi(-1), neg(dec("0.5")), neg(dec("1.5")), dec("2"), add(dec("2"), one), dec("2.5"), dec("100"))
	return b
}

func powExps() []*big.Int {
	var e []*big.Int
	for _, s := range []string{"0", "0.000000000000000001", "0.000001", "0.1", "0.125", "0.2", "0.25", "0.3", "0.333333333333333333",
		"0.499999999999999999", "0.5", "0.500000000000000001", "0.75", "0.9", "0.999999999999999999", "1", "1.000000000000000001",
		"1.5", "2", "2.5", "3.141592653589793238", "7.25", "10", "50.5", "100", "255", "300"} {
		e = append(e, dec(s))
	}
	// not in the domain of the series (PowApprox: 0 <= exp)
	e = append(e, bi(-1), neg(dec("0.3")), neg(dec("0.5")), neg(dec("1")), neg(dec("1.5")), neg(dec("2.25")))
	return e
}

func (r *rec) powRandom() (string, *big.Int, *big.Int) {
	var b, e *big.Int
	tag := "random"
	switch r.rng.Intn(10) {
	case 0, 1: // near one, both sides
		b = add(s18, mul(bi(int64(1-2*r.rng.Intn(2))), r.randBits(58)))
		tag = "base-near-one"
	case 2, 3: // small bases: the tolerance scales with (1-b)/b
		b = r.logUniform(dec("0.0001"), dec("0.1"))
		tag = "base-small"
	case 4: // close to two
		b = sub(dec("2"), r.logUniform(dec("0.0001"), dec("0.1")))
		tag = "base-near-two"
	case 5:
		if r.rng.Intn(2) == 0 { // slow or no convergence: refusals are legal, numbers must still be right
			b = r.logUniform(bi(1), dec("0.0001"))
		} else {
			b = sub(dec("2"), r.logUniform(bi(1), dec("0.0001")))
		}
		tag = "base-extreme"
	default:
		b = r.logUniform(dec("0.1"), sub(dec("2"), one))
	}
	ip := int64(0)
	switch r.rng.Intn(6) {
	case 0:
		ip = int64(r.rng.Intn(4))
	case 1:
		ip = int64(r.rng.Intn(40))
	case 2:
		ip = int64(r.rng.Intn(300))
	}
	switch r.rng.Intn(4) {
	case 0: // p/q with a small denominator: checked by integer powers alone
		q := []int64{2, 4, 5, 8, 10, 16}[r.rng.Intn(6)]
		p := r.rng.Int63n(q)
		e = add(mul(bi(ip), s18), new(big.Int).Quo(mul(bi(p), s18), bi(q)))
		tag += "/rational"
	case 1:
		e = add(mul(bi(ip), s18), new(big.Int).Mod(r.fewDigits(4, 10, 17), s18))
	default:
		e = add(mul(bi(ip), s18), r.randBelow(s18))
	}
	return tag, b, e
}

func (r *rec) powerInt(tag string, d *big.Int, n uint64, mut bool) {
	name := "PowerInteger"
	if mut {
		name = "PowerIntegerMut"
	}
	r.call(name, tag, []*big.Int{d}, []int{int(n)}, nil, func() (*big.Int, error) {
		if mut {
			return mkBD(d).PowerIntegerMut(n).BigInt(), nil
		}
		return mkBD(d).PowerInteger(n).BigInt(), nil
	})
}

// ---------------------------------------------------------------------------
// square roots

var sqrtDec = []string{"MonotonicSqrt", "MonotonicSqrtMut", "MustMonotonicSqrt"}
var sqrtBD = []string{"MonotonicSqrtBigDec", "MonotonicSqrtBigDecMut", "MustMonotonicSqrtBigDec"}

func (r *rec) sqrt(name, tag string, x *big.Int) {
	r.call(name, tag, []*big.Int{x}, nil, nil, func() (*big.Int, error) {
		switch name {
		case "MonotonicSqrt":
			v, err := osmomath.MonotonicSqrt(mkD(x))
			if err != nil {
				return nil, err
			}
			return v.BigInt(), nil
		case "MonotonicSqrtMut":
			v, err := osmomath.MonotonicSqrtMut(mkD(x))
			if err != nil {
				return nil, err
			}
			return v.BigInt(), nil
		case "MustMonotonicSqrt":
			return osmomath.MustMonotonicSqrt(mkD(x)).BigInt(), nil
		case "MonotonicSqrtBigDec":
			v, err := osmomath.MonotonicSqrtBigDec(mkBD(x))
			if err != nil {
				return nil, err
			}
			return v.BigInt(), nil
		case "MonotonicSqrtBigDecMut":
			v, err := osmomath.MonotonicSqrtBigDecMut(mkBD(x))
			if err != nil {
				return nil, err
			}
			return v.BigInt(), nil
		default:
			return osmomath.MustMonotonicSqrtBigDec(mkBD(x)).BigInt(), nil
		}
	})
}

// a sorted sweep of one family: dense runs of consecutive raw values, runs around the inputs at
// which the least root steps (ceil(k^2 / S) and its neighbours), and random gaps; ascending or descending.
func (r *rec) sqrtSweep(bdFam bool, n int) {
	names, S, max := sqrtDec, s18, maxDec
	if bdFam {
		names, S, max = sqrtBD, s36, maxBD
	}
	var xs []*big.Int
	tag := "sweep"
	r.sweeps++
	switch r.sweeps % 4 {
	case 0: // consecutive raw values from a log-uniform start
		start := r.randBits(max.BitLen() - 8)
		if r.rng.Intn(3) == 0 {
			start = r.randBelow(bi(1000))
		}
		for i := 0; i < n; i++ {
			xs = append(xs, add(start, bi(int64(i))))
		}
		tag = "sweep-dense"
	case 1: // around step points: x = ceil(k^2/S) is the first input whose root is k... for consecutive k
		k := r.randBits(max.BitLen()/2 + S.BitLen()/2 - 8)
		for i := 0; len(xs) < n; i++ {
			kk := add(k, bi(int64(i)))
			q, m := new(big.Int).QuoRem(mul(kk, kk), S, new(big.Int))
			if m.Sign() != 0 {
				q.Add(q, one)
			}
			xs = append(xs, sub(q, one), q, add(q, one))
		}
		tag = "sweep-steps"
	case 2: // perfect squares and neighbours
		m := r.randBits(max.BitLen()/2 - S.BitLen()/2 - 4)
		for i := 0; len(xs) < n; i++ {
			mm := add(m, bi(int64(i)))
			sq := mul(mul(mm, mm), one)
			// value mm^2 * 10^-j: exact roots on the grid
			v := mul(sq, S)
			xs = append(xs, sub(v, one), v, add(v, one))
		}
		tag = "sweep-squares"
	default:
		for i := 0; i < n; i++ {
			xs = append(xs, r.randBits(max.BitLen()-1))
		}
		tag = "sweep-random"
	}
	var ok []*big.Int
	for _, x := range xs {
		if x.Sign() >= 0 && x.Cmp(max) <= 0 {
			ok = append(ok, x)
		}
	}
	sort.Slice(ok, func(i, j int) bool { return ok[i].Cmp(ok[j]) < 0 })
	if r.rng.Intn(3) == 0 {
		for i, j := 0, len(ok)-1; i < j; i, j = i+1, j-1 {
			ok[i], ok[j] = ok[j], ok[i]
		}
		tag += "-desc"
	}
	for _, x := range ok {
		r.sqrt(names[r.rng.Intn(len(names))], tag, x)
	}
}

// ---------------------------------------------------------------------------
// significant figures

func (r *rec) sigfig(tag string, d, t *big.Int) {
	arg := mkD(d)
	res, ok, msg := guard(func() (*big.Int, error) { return osmomath.SigFigRound(arg, mkI(t)).BigInt(), nil })
	after := arg.BigInt()
	ev := event{F: "SigFigRound", X: bigs(d, t), Ok: ok, R: tracelog.EncBig(res), Err: msg, Tag: tag, A2: tracelog.EncBig(after)}
	r.emit(ev)
	if ok && after.Cmp(d) != 0 {
		r.extra["SigFigRound:argument-mutated"]++
		if r.extra["SigFigRound:argument-mutated"] == 1 {
			r.notes = append(r.notes, fmt.Sprintf("SigFigRound(%s e-18, %s) returned %s e-18 and left its ARGUMENT at %s e-18", d, t, res, after))
		}
	}
}

func (r *rec) sigfigRandom() (string, *big.Int, *big.Int) {
	s := r.rng.Intn(19)
	t := pow10(s)
	switch r.rng.Intn(6) {
	case 0: // exact ties at the kept digit: d = (m + 1/2) * 10^-(s+k)
		k := r.rng.Intn(18 - minInt(s, 17))
		if s+k+1 > 18 {
			return "random", r.randBits(90), t
		}
		lo := pow10(maxInt(s-1, 0))
		m := add(lo, r.randBelow(mul(lo, bi(9)))) // s significant digits
		d := add(mul(m, bi(10)), bi(5))
		return "tie", mul(d, pow10(18-(s+k+1))), t
	case 1:
		return "few-digits", r.fewDigits(8, 0, 24), t
	case 2: // just below 0.1 * 10^-k: the digit count changes
		k := r.rng.Intn(17)
		return "decade-edge", add(pow10(17-k), bi(int64(r.rng.Intn(5)-2))), t
	default:
		return "random", r.randBits(100), t
	}
}

func minInt(a, b int) int {
	if a < b {
		return a
	}
	return b
}
func maxInt(a, b int) int {
	if a > b {
		return a
	}
	return b
}

// ---------------------------------------------------------------------------
// error tolerances and binary searches

type tol struct {
	hasAdd, hasMul bool
	add, mul       *big.Int // raw 10^18
	dir            int
}

func (t tol) build() osmomath.ErrTolerance {
	e := osmomath.ErrTolerance{RoundingDir: osmomath.RoundingDirection(t.dir)}
	if t.hasAdd {
		e.AdditiveTolerance = mkD(t.add)
	}
	if t.hasMul {
		e.MultiplicativeTolerance = mkD(t.mul)
	}
	return e
}
func b2i(b bool) int {
	if b {
		return 1
	}
	return 0
}

func (r *rec) randTol(scaleHint *big.Int) tol {
	scaleHint = new(big.Int).Abs(scaleHint)
	t := tol{dir: r.rng.Intn(3), add: bi(0), mul: bi(0)}
	switch r.rng.Intn(4) {
	case 0:
	case 1:
		t.hasAdd = true // exact
	default:
		t.hasAdd = true
		t.add = mul(r.logUniform(bi(1), add(scaleHint, one)), pow10(r.rng.Intn(19)))
	}
	switch r.rng.Intn(4) {
	case 0:
	case 1:
		t.hasMul = true // zero = ignored
	default:
		t.hasMul = true
		t.mul = pow10(r.rng.Intn(18))
		if r.rng.Intn(3) == 0 {
			t.mul = r.fewDigits(3, 0, 15)
		}
	}
	return t
}

// the searched family: c0 + c1 x + c2 floor(x^2 / V) on raw values (V = 1 for Int, 10^36 for BigDec)
type poly struct{ c0, c1, c2 *big.Int }

func (p poly) at(x, v *big.Int) *big.Int {
	sq := mul(x, x)
	sq.Quo(sq, v) // x >= 0 in every search: truncation = floor
	return add(add(p.c0, mul(p.c1, x)), mul(p.c2, sq))
}

func (r *rec) search(tag string, bigdec bool, lo, hi, target *big.Int, t tol, p poly, maxit int) {
	evals := 0
	var img *big.Int
	name := "BinarySearch"
	var run func() (*big.Int, error)
	if bigdec {
		name = "BinarySearchBigDec"
		f := func(x BD) BD {
			evals++
			y := x.MulTruncate(x).MulInt(osmomath.NewBigIntFromBigInt(new(big.Int).Set(p.c2)))
			y = y.Add(x.MulInt(osmomath.NewBigIntFromBigInt(new(big.Int).Set(p.c1)))).Add(mkBD(p.c0))
			img = y.BigInt()
			return y
		}
		run = func() (*big.Int, error) {
			v, err := osmomath.BinarySearchBigDec(f, mkBD(lo), mkBD(hi), mkBD(target), t.build(), maxit)
			if err != nil {
				return nil, err
			}
			return v.BigInt(), nil
		}
	} else {
		f := func(x osmomath.Int) (osmomath.Int, error) {
			evals++
			y := x.Mul(x).Mul(mkI(p.c2)).Add(x.Mul(mkI(p.c1))).Add(mkI(p.c0))
			img = y.BigInt()
			return y, nil
		}
		run = func() (*big.Int, error) {
			v, err := osmomath.BinarySearch(f, mkI(lo), mkI(hi), mkI(target), t.build(), maxit)
			if err != nil {
				return nil, err
			}
			return v.BigInt(), nil
		}
	}
	res, ok, msg := guard(run)
	if img == nil || !ok {
		img = bi(0)
	}
	if ok {
		// the image OF THE RETURNED INPUT (not of the last input the search happened to evaluate)
		evalsBefore := evals
		if bigdec {
			x := osmomath.NewBigDecFromBigIntWithPrec(new(big.Int).Set(res), osmomath.BigDecPrecision)
			y := x.MulTruncate(x).MulInt(osmomath.NewBigIntFromBigInt(new(big.Int).Set(p.c2)))
			y = y.Add(x.MulInt(osmomath.NewBigIntFromBigInt(new(big.Int).Set(p.c1)))).Add(mkBD(p.c0))
			img = y.BigInt()
		} else {
			x := mkI(res)
			img = x.Mul(x).Mul(mkI(p.c2)).Add(x.Mul(mkI(p.c1))).Add(mkI(p.c0)).BigInt()
		}
		evals = evalsBefore
	}
	ev := event{F: name, X: bigs(lo, hi, target, t.add, t.mul, p.c0, p.c1, p.c2),
		N: []int{b2i(t.hasAdd), b2i(t.hasMul), t.dir, maxit, evals}, Ok: ok, R: tracelog.EncBig(res), W: bigs(img), Err: msg, Tag: tag,
		A2: tracelog.EncBig(bi(0))}
	if !ok && !strings.Contains(msg, "hit maximum iterations") {
		ev.Tag = "panic:" + tag
	}
	r.emit(ev)
	out := "failed"
	if ok {
		out = "ok"
	}
	r.stats[fmt.Sprintf("%s:%s:dir%d", name, out, t.dir)]++
	if ok && (t.hasAdd || (t.hasMul && t.mul.Sign() != 0)) && img.Cmp(target) != 0 {
		r.stats[name+":ok:inexact-within-tolerance"]++
	}
}

func (r *rec) searchRandom(bigdec bool) {
	v := one
	maxBits := 100
	if bigdec {
		v = s36
		maxBits = 200
	}
	hi := r.randBits(maxBits)
	lo := bi(0)
	if r.rng.Intn(3) == 0 {
		lo = r.randBelow(hi)
	}
	p := poly{c0: r.randBelow(r.randBits(60)), c1: bi(int64(r.rng.Intn(1000))), c2: bi(int64(r.rng.Intn(4)))}
	if p.c1.Sign() == 0 && p.c2.Sign() == 0 {
		p.c1 = bi(1)
	}
	if r.rng.Intn(4) == 0 {
		p = poly{c0: bi(0), c1: bi(1), c2: bi(0)}
	}
	x0 := add(lo, r.randBelow(add(sub(hi, lo), one)))
	target := p.at(x0, v)
	tag := "hit"
	switch r.rng.Intn(8) {
	case 0: // off the image by a little
		target = add(target, bi(int64(r.rng.Intn(7)-3)))
		tag = "near"
	case 1: // outside the searched range: must end in non-convergence unless the tolerance is wide
		target = add(p.at(hi, v), r.randBits(40))
		tag = "above-range"
	case 2:
		target = sub(p.at(lo, v), r.randBits(40))
		tag = "below-range"
	case 3:
		target = bi(0)
		tag = "zero-target"
	}
	t := r.randTol(new(big.Int).Rsh(target, uint(r.rng.Intn(64))))
	if tag == "hit" && r.rng.Intn(2) == 0 {
		// a tolerance of a fraction of the local slope: several inputs qualify
		t.hasAdd, t.add = true, mul(add(p.c1, one), pow10(18-r.rng.Intn(3)))
	}
	maxit := []int{0, 1, 5, 40, 256, 512}[r.rng.Intn(6)]
	if tag == "hit" {
		maxit = []int{256, 512, 700}[r.rng.Intn(3)]
	}
	r.search(tag, bigdec, lo, hi, target, t, p, maxit)
}

func (r *rec) compare(tag string, kind int, a, b *big.Int, t tol) {
	name := []string{"Compare", "CompareDec", "CompareBigDec"}[kind]
	r.call(name, tag, []*big.Int{a, b, t.add, t.mul}, []int{b2i(t.hasAdd), b2i(t.hasMul), t.dir}, nil, func() (*big.Int, error) {
		e := t.build()
		switch kind {
		case 0:
			return bi(int64(e.Compare(mkI(a), mkI(b)))), nil
		case 1:
			return bi(int64(e.CompareDec(mkD(a), mkD(b)))), nil
		default:
			return bi(int64(e.CompareBigDec(mkBD(a), mkBD(b)))), nil
		}
	})
}

func (r *rec) compareRandom() {
	kind := r.rng.Intn(3)
	a := r.randBits(120)
	if r.rng.Intn(6) == 0 {
		a = r.randBelow(bi(5))
	}
	var b *big.Int
	tag := "random"
	t := r.randTol(new(big.Int).Rsh(a, uint(r.rng.Intn(64))))
	switch r.rng.Intn(5) {
	case 0:
		b = new(big.Int).Set(a)
		tag = "equal"
	case 1:
		b = add(a, bi(int64(r.rng.Intn(9)-4)))
		tag = "adjacent"
	case 2: // right at the multiplicative tolerance
		if t.hasMul && t.mul.Sign() > 0 {
			d := new(big.Int).Quo(mul(a, t.mul), s18)
			b = add(add(a, d), bi(int64(r.rng.Intn(5)-2)))
			tag = "at-mul-tolerance"
		} else {
			b = r.randBits(120)
		}
	default:
		b = add(a, mul(bi(int64(1-2*r.rng.Intn(2))), r.randBelow(add(a, one))))
	}
	if r.rng.Intn(2) == 0 {
		a, b = b, a
	}
	if r.rng.Intn(10) == 0 {
		a, b = neg(a), neg(b)
		tag += "-negative"
	}
	r.compare(tag, kind, a, b, t)
}

func (r *rec) order(tag string, d *big.Int) {
	r.call("OrderOfMagnitude", tag, []*big.Int{d}, nil, nil, func() (*big.Int, error) {
		return bi(int64(osmomath.OrderOfMagnitude(mkD(d)))), nil
	})
}

// ---------------------------------------------------------------------------

func (r *rec) edges() {
	for _, x := range exp2Edges() {
		r.exp2("edge", x)
	}
	for _, x := range logEdges() {
		r.logs("edge", x, -1)
	}
	xs := []*big.Int{bd("8"), bd("0.001"), bi(1), bd("1"), bd("1.0001"), pow10(36 + 50), bi(0), neg(bd("3"))}
	for _, b := range customBases() {
		for _, x := range xs {
			r.customLog("edge", x, b)
		}
	}
	for _, b := range powBases() {
		for _, e := range powExps() {
			r.pow("edge", b, e)
		}
	}
	precs := []*big.Int{dec("0.00000001"), dec("0.000001"), dec("0.001"), dec("0.000000000001"), bi(0), bi(1)}
	for _, b := range append(powBases(), dec("2"), dec("2.5"), dec("3")) {
		for _, e := range []*big.Int{bi(0), bi(1), dec("0.01"), dec("0.3"), dec("0.5"), dec("0.7"), dec("0.999999999999999999"), dec("1"), dec("1.5"), neg(dec("0.5"))} {
			r.powApprox("edge", b, e, precs[0])
		}
		r.powApprox("edge", b, dec("0.3"), precs[r.rng.Intn(len(precs))])
	}
	for _, d := range []*big.Int{bi(0), bi(1), bi(-1), bd("1"), neg(bd("1")), bd("2"), bd("0.5"), bd("1.0001"), bd("10"), neg(bd("10")), bd("0.1"),
		bd("1.5"), bd("1.000000000000000000000000000000000001"), bd("0.999999999999999999999999999999999999"), pow10(36 + 20), pow10(36 + 100)} {
		for _, n := range []uint64{0, 1, 2, 3, 4, 5, 7, 8, 9, 16, 31, 64, 100, 128} {
			r.powerInt("edge", d, n, false)
			r.powerInt("edge", d, n, true)
		}
	}
	for fam, names := range [][]string{sqrtDec, sqrtBD} {
		S := []*big.Int{s18, s36}[fam]
		max := []*big.Int{maxDec, maxBD}[fam]
		vals := []*big.Int{bi(0), bi(1), bi(2), bi(3), bi(4), S, mul(S, bi(2)), mul(S, bi(4)), sub(S, one), add(S, one), new(big.Int).Set(max), sub(max, one),
			new(big.Int).Quo(S, bi(4)), mul(S, pow10(20))}
		sort.Slice(vals, func(i, j int) bool { return vals[i].Cmp(vals[j]) < 0 })
		for _, nm := range names {
			for _, v := range vals {
				r.sqrt(nm, "edge", v)
			}
			for _, v := range []*big.Int{bi(-1), neg(S), neg(max)} {
				r.sqrt(nm, "edge-negative", v)
			}
		}
	}
	for _, d := range []*big.Int{bi(0), bi(1), bi(15), dec("0.099999999999999999"), dec("0.1"), dec("0.100000000000000001"), dec("0.15"), dec("0.25"),
		dec("0.0123456"), dec("1234.5678"), dec("0.999"), dec("0.9999999"), dec("5"), dec("0.5"), dec("0.05"), dec("0.000000000000000015"),
		mul(s18, pow10(30)), neg(dec("1.5")), neg(dec("0.05"))} {
		for _, t := range []*big.Int{bi(1), bi(10), bi(100), pow10(8), pow10(18), pow10(20), pow10(30), bi(0)} {
			r.sigfig("edge", d, t)
		}
	}
	for k := -18; k <= 40; k++ {
		for _, d := range neighbours(pow10(18 + k)) {
			r.order("edge", d)
		}
		// 99.99..95: the division by ten rounds up to the next decade
		if k >= 1 {
			r.order("edge-rounding", sub(pow10(18+k), bi(5)))
			r.order("edge-rounding", sub(pow10(18+k), bi(6)))
		}
	}
	for _, d := range []*big.Int{bi(0), bi(-1), neg(s18), dec("5"), dec("0.5")} {
		r.order("edge", d)
	}
	// searches and comparisons on the smallest cases
	id := poly{bi(0), bi(1), bi(0)}
	for _, t := range []tol{{dir: 0, add: bi(0), mul: bi(0)}, {hasAdd: true, add: bi(0), mul: bi(0)}, {hasAdd: true, add: s18, mul: bi(0), dir: 1},
		{hasAdd: true, add: s18, mul: bi(0), dir: 2}, {hasMul: true, add: bi(0), mul: dec("0.01"), dir: 1}, {hasMul: true, add: bi(0), mul: dec("0.01"), dir: 2}} {
		for _, target := range []int64{0, 1, 7, 50, 99, 100, 101, 1000} {
			for _, maxit := range []int{0, 3, 10, 50} {
				r.search("edge", false, bi(0), bi(100), bi(target), t, id, maxit)
				r.search("edge", true, bi(0), mul(bi(100), s36), mul(bi(target), s36), t, id, maxit)
			}
		}
		for _, a := range []int64{0, 1, 5, 100} {
			for _, b := range []int64{0, 1, 5, 99, 100, 101} {
				for k := 0; k < 3; k++ {
					sc := []*big.Int{one, s18, s36}[k]
					r.compare("edge", k, mul(bi(a), sc), mul(bi(b), sc), t)
				}
			}
		}
	}
}

func (r *rec) randomChunk(n int) {
	share := func(pct int) int { return maxInt(1, n*pct/100) }
	for i := 0; i < share(14); i++ {
		tag, x := r.exp2Random()
		r.exp2(tag, x)
	}
	for i := 0; i < share(16); i++ {
		tag, x := r.logRandom()
		r.logs(tag, x, r.rng.Intn(3))
	}
	bases := customBases()
	for i := 0; i < share(5); i++ {
		tag, x := r.logRandom()
		var b *big.Int
		switch r.rng.Intn(4) {
		case 0:
			b = r.pick(bases[:len(bases)-4])
		case 1:
			b = add(s36, mul(bi(int64(1-2*r.rng.Intn(2))), r.randBits(100)))
		default:
			b = r.logUniform(pow10(6), pow10(66))
		}
		r.customLog(tag, x, b)
	}
	for i := 0; i < share(14); i++ {
		tag, b, e := r.powRandom()
		r.pow(tag, b, e)
	}
	for i := 0; i < share(4); i++ {
		tag, b, e := r.powRandom()
		e = new(big.Int).Mod(e, s18)
		p := []*big.Int{dec("0.00000001"), dec("0.00000001"), dec("0.000001"), dec("0.001")}[r.rng.Intn(4)]
		r.powApprox(tag, b, e, p)
	}
	for i := 0; i < share(4); i++ {
		d := r.logUniform(pow10(26), pow10(46))
		if r.rng.Intn(4) == 0 {
			d = r.randBits(400)
		}
		if r.rng.Intn(2) == 0 {
			d = neg(d)
		}
		n := uint64(r.rng.Intn(66))
		if r.rng.Intn(8) == 0 {
			n = uint64(r.rng.Intn(129))
		}
		r.powerInt("random", d, n, r.rng.Intn(2) == 0)
	}
	for done := 0; done < share(20); {
		k := 20 + r.rng.Intn(30)
		before := r.w.N
		r.sqrtSweep((r.sweeps/4)%2 == 0, k)
		done += r.w.N - before
	}
	for i := 0; i < share(8); i++ {
		tag, d, t := r.sigfigRandom()
		r.sigfig(tag, d, t)
	}
	for i := 0; i < share(6); i++ {
		r.searchRandom(r.rng.Intn(2) == 0)
	}
	for i := 0; i < share(6); i++ {
		r.compareRandom()
	}
	for i := 0; i < share(3); i++ {
		d := r.randBits(150)
		tag := "random"
		if r.rng.Intn(3) == 0 {
			d = add(pow10(r.rng.Intn(45)), bi(int64(r.rng.Intn(21)-10)))
			tag = "decade-edge"
		}
		r.order(tag, d)
	}
}

func TestRecord(t *testing.T) {
	out := tracelog.EnvStr("VERIF_OUT", "")
	if out == "" {
		t.Skip("VERIF_OUT not set")
	}
	seed := tracelog.EnvInt("VERIF_SEED", 1)
	total := int(tracelog.EnvInt("VERIF_EVENTS", 20000))
	chunk := int(tracelog.EnvInt("VERIF_CHUNK", 1000))
	w, err := tracelog.NewWriter(out)
	if err != nil {
		t.Fatal(err)
	}
	r := &rec{w: w, rng: rand.New(rand.NewSource(seed)), seed: seed, perChnk: chunk, stats: map[string]int{}, extra: map[string]int{}}
	r.newChunk()
	if tracelog.EnvInt("VERIF_EDGES", 1) != 0 {
		r.edges()
	}
	for w.N < total {
		r.randomChunk(minInt(chunk, total-w.N+50))
	}
	if err := w.Close(); err != nil {
		t.Fatal(err)
	}
	r.stats["lines"] = w.N
	r.stats["chunks"] = r.chunk
	st := map[string]any{"counts": r.stats, "extra": r.extra, "notes": r.notes}
	bz, _ := json.Marshal(st)
	if err := os.WriteFile(out+".stats.json", bz, 0o644); err != nil {
		t.Fatal(err)
	}
}

