// Recorder and replayer binding the real osmoutils/accum package to
// spec/Accum.tla (property C15).  The accumulator lives in a MemDB-backed
// KVStore; every exported entry point is called directly (no cache context:
// "fails without effect" is a promise of the library itself) under recover.
package accum

import (
	"bytes"
	"encoding/json"
	"fmt"
	"math/big"
	"math/rand"
	"os"
	"sort"
	"testing"

	"cosmossdk.io/store/dbadapter"
	storetypes "cosmossdk.io/store/types"
	dbm "github.com/cosmos/cosmos-db"
	sdk "github.com/cosmos/cosmos-sdk/types"
	"github.com/cosmos/gogoproto/proto"

	"github.com/osmosis-labs/osmosis/osmomath"
	accumpkg "github.com/osmosis-labs/osmosis/osmoutils/accum"

	"verif/harness/tracelog"
)

const accName = "rewards"

// Neighbours: other accumulators kept in the SAME store, as the keepers do (one store holds the accumulators of all
// pools).  Their names and position names are chosen so that accumulator name + position name read the same for
// different (accumulator, position) pairs ("rewards"+"p1" = "rewardsp"+"1" = "reward"+"sp1"): whatever is done to a
// neighbour, the accumulator under test must not move (trace event "nbr": a step that changes nothing).
// (Names with a '|' next to the separator are left out: "a|" + "||" + "b" and "a" + "||" + "|b" are the same key in the
// current code - only "||" inside a name is refused -; no keeper uses such names and the statement is about one
// accumulator, so this is noted in DESIGN.md and not judged.)
var nbrNames = []string{"rewardsp", "reward", "rewards1", "zzz"}

func nbrPos(nbr string, i int) string {
	switch nbr {
	case "rewardsp":
		return fmt.Sprintf("%d", i)
	case "reward":
		return fmt.Sprintf("sp%d", i)
	}
	return fmt.Sprintf("p%d", i)
}

var (
	allDenoms = []string{"uaa", "ubb", "ucc"} // sorted
	e18       = new(big.Int).Exp(big.NewInt(10), big.NewInt(18), nil)
)

// ---------------------------------------------------------------------------
// the world: one accumulator over an in-memory store, and the handles
// (AccumulatorObject values) through which it is used

type world struct {
	store  storetypes.KVStore
	denoms []string
	mode   string // "fresh": GetAccumulator before every call (what the keepers do);
	// "held": one handle for the whole history (the receiver is mutated by every call);
	// "two": two long-lived handles used alternately, refreshed only where the code needs it
	// (value changes, DeletePosition); the share bookkeeping of New/AddTo/RemoveFrom must
	// re-read the total from the store.
	h   [2]*accumpkg.AccumulatorObject
	rng *rand.Rand
	nbr bool // neighbours exist in the store
}

func newWorld(nd int, mode string, rng *rand.Rand) *world {
	w := &world{store: dbadapter.Store{DB: dbm.NewMemDB()}, denoms: allDenoms[:nd], mode: mode, rng: rng}
	if err := accumpkg.MakeAccumulator(w.store, accName); err != nil {
		panic(err)
	}
	w.h[0], w.h[1] = w.get(), w.get()
	return w
}

func (w *world) get() *accumpkg.AccumulatorObject {
	a, err := accumpkg.GetAccumulator(w.store, accName)
	if err != nil {
		panic(err)
	}
	return a
}

// handle returns the AccumulatorObject to use for the next call.
func (w *world) handle(op string) *accumpkg.AccumulatorObject {
	switch w.mode {
	case "held":
		return w.h[0]
	case "two":
		i := w.rng.Intn(2)
		if op == "grow" || op == "delete" {
			w.h[i] = w.get()
		}
		return w.h[i]
	}
	return w.get()
}

func (w *world) after(op string, ok bool) {
	if w.mode == "two" && op == "grow" {
		w.h[0], w.h[1] = w.get(), w.get()
	}
}

func decOf(raw *big.Int) osmomath.Dec { return osmomath.NewDecFromBigIntWithPrec(new(big.Int).Set(raw), 18) }

// coinsOf builds DecCoins from raw amounts per denom (zero entries omitted, sorted by denom).
func (w *world) coinsOf(v []*big.Int) sdk.DecCoins {
	res := sdk.DecCoins{}
	for i, d := range w.denoms {
		if i < len(v) && v[i].Sign() != 0 {
			res = append(res, sdk.DecCoin{Denom: d, Amount: decOf(v[i])})
		}
	}
	return res
}

// vecOf projects DecCoins on the denoms of the world; extra counts what does not fit.
func (w *world) vecOf(c sdk.DecCoins, extra *int) []*big.Int {
	res := make([]*big.Int, len(w.denoms))
	for i := range res {
		res[i] = new(big.Int)
	}
	for _, x := range c {
		k := sort.SearchStrings(w.denoms, x.Denom)
		if k < len(w.denoms) && w.denoms[k] == x.Denom && !x.Amount.IsNil() {
			res[k].Add(res[k], x.Amount.BigInt())
		} else {
			*extra++
		}
	}
	return res
}

type posState struct {
	N      string
	Shares *big.Int
	Snap   []*big.Int
	Unc    []*big.Int
}

type state struct {
	Acc   []*big.Int
	Total *big.Int
	Pos   []posState // sorted by name
	Extra int        // anything in the store that is not the accumulator or one of its positions
}

// a key that belongs to a neighbour and cannot be read as a key of the accumulator under test
func (w *world) isNbrKey(k []byte) bool {
	if bytes.HasPrefix(k, accumpkg.FormatPositionPrefixKey(accName, "")) {
		return false
	}
	for _, n := range nbrNames {
		if bytes.Equal(k, []byte("accum||acc||"+n)) || bytes.HasPrefix(k, accumpkg.FormatPositionPrefixKey(n, "")) {
			return true
		}
	}
	return false
}

// nbrOp does something to a neighbour accumulator (errors are fine: nothing is demanded of the neighbour here)
func (w *world) nbrOp() string {
	n := nbrNames[w.rng.Intn(len(nbrNames))]
	a, err := accumpkg.GetAccumulator(w.store, n)
	if err != nil {
		panic(err)
	}
	pn := nbrPos(n, 1+w.rng.Intn(6))
	sh := osmomath.NewDec(int64(1 + w.rng.Intn(1000)))
	what := []string{"new", "new", "add", "rem", "grow", "claim", "delete", "addunc", "set"}[w.rng.Intn(9)]
	func() {
		defer func() { _ = recover() }()
		g := sdk.NewDecCoins()
		for _, d := range w.denoms {
			g = g.Add(sdk.NewDecCoin(d, osmomath.NewInt(int64(1+w.rng.Intn(50)))))
		}
		switch what {
		case "new":
			_ = a.NewPosition(pn, sh, nil)
		case "add":
			_ = a.AddToPosition(pn, sh)
		case "rem":
			_ = a.RemoveFromPosition(pn, osmomath.NewDec(1))
		case "grow":
			a.AddToAccumulator(g)
		case "claim":
			_, _, _ = a.ClaimRewards(pn)
		case "delete":
			_, _ = a.DeletePosition(pn)
		case "addunc":
			_ = a.AddToUnclaimedRewards(pn, g)
		case "set":
			_ = a.SetPositionIntervalAccumulation(pn, a.GetValue())
		}
	}()
	return n + "/" + what + "/" + pn
}

// project reads the abstract state back from the store (never from a handle).
func (w *world) project() state {
	st := state{Pos: []posState{}}
	a := w.get()
	st.Acc = w.vecOf(a.GetValue(), &st.Extra)
	st.Total = a.GetTotalShares().BigInt()
	prefix := accumpkg.FormatPositionPrefixKey(accName, "")
	accKey := []byte("accum||acc||" + accName)
	it := w.store.Iterator(nil, nil)
	defer it.Close()
	for ; it.Valid(); it.Next() {
		k := it.Key()
		switch {
		case bytes.Equal(k, accKey):
		case w.nbr && w.isNbrKey(k):
		case bytes.HasPrefix(k, prefix):
			var rec accumpkg.Record
			if err := proto.Unmarshal(it.Value(), &rec); err != nil || rec.NumShares.IsNil() {
				st.Extra++
				continue
			}
			st.Pos = append(st.Pos, posState{N: string(k[len(prefix):]), Shares: rec.NumShares.BigInt(),
				Snap: w.vecOf(rec.AccumValuePerShare, &st.Extra), Unc: w.vecOf(rec.UnclaimedRewardsTotal, &st.Extra)})
		default:
			st.Extra++
		}
	}
	sort.Slice(st.Pos, func(i, j int) bool { return st.Pos[i].N < st.Pos[j].N })
	return st
}

type op struct {
	Op string
	N  string
	S  *big.Int   // share amount (signed for upd / updi)
	V  []*big.Int // interval accumulation value
	G  []*big.Int // growth (grow) or rewards (addunc)
}

type result struct {
	Ok    bool
	Err   string
	Panic bool
	Res   []*big.Int // claim: whole coins per denom; delete: raw Dec per denom
	Dust  []*big.Int // claim: raw Dec per denom
}

// apply makes one call of the exported API.
func (w *world) apply(o op) (r result) {
	r.Res, r.Dust = []*big.Int{}, []*big.Int{}
	a := w.handle(o.Op)
	var err error
	func() {
		defer func() {
			if p := recover(); p != nil {
				r.Panic = true
				err = fmt.Errorf("panic: %v", p)
			}
		}()
		s := osmomath.ZeroDec()
		if o.S != nil {
			s = decOf(o.S)
		}
		switch o.Op {
		case "grow":
			a.AddToAccumulator(w.coinsOf(o.G))
		case "new":
			err = a.NewPosition(o.N, s, nil)
		case "newi":
			err = a.NewPositionIntervalAccumulation(o.N, s, w.coinsOf(o.V), nil)
		case "add":
			err = a.AddToPosition(o.N, s)
		case "addi":
			err = a.AddToPositionIntervalAccumulation(o.N, s, w.coinsOf(o.V))
		case "rem":
			err = a.RemoveFromPosition(o.N, s)
		case "remi":
			err = a.RemoveFromPositionIntervalAccumulation(o.N, s, w.coinsOf(o.V))
		case "upd":
			err = a.UpdatePosition(o.N, s)
		case "updi":
			err = a.UpdatePositionIntervalAccumulation(o.N, s, w.coinsOf(o.V))
		case "set":
			err = a.SetPositionIntervalAccumulation(o.N, w.coinsOf(o.V))
		case "addunc":
			err = a.AddToUnclaimedRewards(o.N, w.coinsOf(o.G))
		case "claim":
			var coins sdk.Coins
			var dust sdk.DecCoins
			coins, dust, err = a.ClaimRewards(o.N)
			if err == nil {
				extra := 0
				r.Dust = w.vecOf(dust, &extra)
				r.Res = make([]*big.Int, len(w.denoms))
				for i, d := range w.denoms {
					r.Res[i] = coins.AmountOf(d).BigInt()
				}
				if extra > 0 || len(coins) > len(w.denoms) {
					err = fmt.Errorf("claim paid denoms outside the universe: %s %s", coins, dust)
				}
			}
		case "delete":
			var out sdk.DecCoins
			out, err = a.DeletePosition(o.N)
			if err == nil {
				extra := 0
				r.Res = w.vecOf(out, &extra)
				if extra > 0 {
					err = fmt.Errorf("delete paid denoms outside the universe: %s", out)
				}
			}
		default:
			panic("unknown op " + o.Op)
		}
	}()
	r.Ok = err == nil
	if err != nil {
		r.Err = err.Error()
	}
	w.after(o.Op, r.Ok)
	return r
}

// ---------------------------------------------------------------------------
// wire format of the trace

func encVec(v []*big.Int) []tracelog.Big {
	res := make([]tracelog.Big, len(v))
	for i, x := range v {
		if x == nil {
			x = big.NewInt(-1)
		}
		res[i] = tracelog.EncBig(x)
	}
	return res
}

func encState(st state) map[string]any {
	ps := make([]map[string]any, len(st.Pos))
	for i, p := range st.Pos {
		ps[i] = map[string]any{"n": p.N, "sh": tracelog.EncBig(p.Shares), "snap": encVec(p.Snap), "unc": encVec(p.Unc)}
	}
	return map[string]any{"acc": encVec(st.Acc), "total": tracelog.EncBig(st.Total), "pos": ps, "extra": st.Extra}
}

func encOp(o op, r result, st state) map[string]any {
	s := o.S
	if s == nil {
		s = new(big.Int)
	}
	return map[string]any{"e": "op", "op": o.Op, "n": o.N, "s": tracelog.EncBig(s), "v": encVec(o.V), "g": encVec(o.G),
		"ok": r.Ok, "panic": r.Panic, "err": r.Err, "res": encVec(r.Res), "dust": encVec(r.Dust), "st": encState(st)}
}

// ---------------------------------------------------------------------------
// impl -> spec: seeded random histories

type recorder struct {
	w      *world
	rng    *rand.Rand
	tw     *tracelog.Writer
	names  []string
	values string // magnitude style
	api    string // "plain" | "interval" | "cl"
	out    map[string][]*big.Int // cl style: growth outside each position's range
	counts map[string]int
}

func (r *recorder) do(o op) result {
	res := r.w.apply(o)
	st := r.w.project()
	r.tw.Emit(encOp(o, res, st))
	k := o.Op + ":ok"
	if !res.Ok {
		k = o.Op + ":fail"
	}
	r.counts[k]++
	if res.Panic {
		r.counts["panic"]++
	}
	return res
}

func pow10(k int) *big.Int { return new(big.Int).Exp(big.NewInt(10), big.NewInt(int64(k)), nil) }

// randBelow returns a uniform integer in [0, n] (n >= 0).
func (r *recorder) randUpTo(n *big.Int) *big.Int {
	if n.Sign() <= 0 {
		return new(big.Int)
	}
	return new(big.Int).Rand(r.rng, new(big.Int).Add(n, big.NewInt(1)))
}

// mag returns a random positive integer with a random number of digits in [lo, hi].
func (r *recorder) mag(lo, hi int) *big.Int {
	d := lo + r.rng.Intn(hi-lo+1)
	x := r.randUpTo(pow10(d))
	if x.Sign() == 0 {
		x.SetInt64(1)
	}
	return x
}

func (r *recorder) shareAmount() *big.Int {
	switch r.values {
	case "small": // whole and half shares: products land on exact ties of the 18th decimal
		return new(big.Int).Mul(big.NewInt(int64(1+r.rng.Intn(20))), pow10(17+r.rng.Intn(2)))
	case "dust": // a few raw units of shares: almost everything is rounding
		return r.mag(0, 4)
	case "liq": // liquidity-like
		return r.mag(18, 32)
	}
	return r.mag(0, 30)
}

func (r *recorder) growthAmount() *big.Int {
	switch r.values {
	case "small":
		x := new(big.Int).Mul(big.NewInt(int64(1+r.rng.Intn(30))), pow10(16+r.rng.Intn(3)))
		if r.rng.Intn(3) == 0 {
			x.Add(x, big.NewInt(int64(r.rng.Intn(10)))) // odd last digits: .5 ties with half shares
		}
		return x
	case "dust":
		return r.mag(14, 20)
	case "liq":
		return r.mag(0, 14) // tiny value per unit of liquidity
	}
	return r.mag(0, 24)
}

func (r *recorder) vec(f func() *big.Int) []*big.Int {
	v := make([]*big.Int, len(r.w.denoms))
	for i := range v {
		if r.rng.Intn(4) == 0 {
			v[i] = new(big.Int)
		} else {
			v[i] = f()
		}
	}
	return v
}

func zeros(n int) []*big.Int {
	v := make([]*big.Int, n)
	for i := range v {
		v[i] = new(big.Int)
	}
	return v
}

func vadd(a, b []*big.Int) []*big.Int {
	v := make([]*big.Int, len(a))
	for i := range a {
		v[i] = new(big.Int).Add(a[i], b[i])
	}
	return v
}

func vsub(a, b []*big.Int) []*big.Int {
	v := make([]*big.Int, len(a))
	for i := range a {
		v[i] = new(big.Int).Sub(a[i], b[i])
	}
	return v
}

func (r *recorder) existing(st state) []string {
	res := []string{}
	for _, p := range st.Pos {
		res = append(res, p.N)
	}
	return res
}

func (r *recorder) free(st state) []string {
	have := map[string]bool{}
	for _, p := range st.Pos {
		have[p.N] = true
	}
	res := []string{}
	for _, n := range r.names {
		if !have[n] {
			res = append(res, n)
		}
	}
	return res
}

func find(st state, n string) *posState {
	for i := range st.Pos {
		if st.Pos[i].N == n {
			return &st.Pos[i]
		}
	}
	return nil
}

// intervalValue picks 0 <= v <= acc for the free-form interval style.
func (r *recorder) intervalValue(st state, p *posState) []*big.Int {
	v := make([]*big.Int, len(st.Acc))
	kind := r.rng.Intn(6)
	for i := range v {
		switch {
		case kind == 0:
			v[i] = new(big.Int).Set(st.Acc[i])
		case kind == 1:
			v[i] = new(big.Int)
		case kind == 2 && p != nil:
			v[i] = new(big.Int).Set(p.Snap[i])
		case kind == 3 && p != nil && p.Snap[i].Cmp(st.Acc[i]) <= 0: // between snapshot and now
			v[i] = new(big.Int).Add(p.Snap[i], r.randUpTo(new(big.Int).Sub(st.Acc[i], p.Snap[i])))
		default:
			v[i] = r.randUpTo(st.Acc[i])
		}
	}
	return v
}

// clPrepare is what concentrated-liquidity does before it touches a position: move the
// snapshot (= growth inside at the last update) up by the growth outside now.
func (r *recorder) clPrepare(st state, n string) {
	p := find(st, n)
	r.do(op{Op: "set", N: n, V: vadd(p.Snap, r.outOf(n))})
}

func (r *recorder) outOf(n string) []*big.Int {
	if r.out[n] == nil {
		r.out[n] = zeros(len(r.w.denoms))
	}
	return r.out[n]
}

// safeStep runs one step; if the driver itself trips over a state that the code should never
// have produced, the history ends with a line that no specification step explains.
func (r *recorder) safeStep() (alive bool) {
	defer func() {
		if p := recover(); p != nil {
			r.tw.Emit(map[string]any{"e": "op", "op": "harness-panic", "panic": true, "err": fmt.Sprint(p)})
			r.counts["harness-panic"]++
			alive = false
		}
	}()
	r.step()
	return true
}

func (r *recorder) step() {
	if r.w.nbr && r.rng.Intn(4) == 0 {
		what := r.w.nbrOp()
		r.tw.Emit(map[string]any{"e": "op", "op": "nbr", "n": what, "panic": false, "ok": true, "st": encState(r.w.project())})
		r.counts["nbr"]++
		return
	}
	st := r.w.project()
	ex, fr := r.existing(st), r.free(st)
	nd := len(r.w.denoms)
	pick := r.rng.Intn(100)
	if len(ex) == 0 { // nothing exists: grow, create or fail
		pick = []int{0, 0, 30, 30, 30, 30, 30, 95}[r.rng.Intn(8)]
	}
	switch {
	case pick < 24:
		g := r.vec(r.growthAmount)
		if r.rng.Intn(12) == 0 {
			g = zeros(nd)
		}
		r.do(op{Op: "grow", G: g})
		if r.api == "cl" { // each position is in range, out of range, or partly so for this growth
			for _, n := range r.names {
				if r.out[n] == nil {
					continue
				}
				switch r.rng.Intn(3) {
				case 0:
				case 1:
					r.out[n] = vadd(r.out[n], g)
				case 2:
					part := make([]*big.Int, nd)
					for i := range part {
						part[i] = r.randUpTo(g[i])
					}
					r.out[n] = vadd(r.out[n], part)
				}
			}
		}
	case pick < 36:
		if len(fr) == 0 {
			return
		}
		n := fr[r.rng.Intn(len(fr))]
		s := r.shareAmount()
		if r.rng.Intn(30) == 0 {
			s = new(big.Int)
		}
		switch r.api {
		case "plain":
			r.do(op{Op: "new", N: n, S: s})
		case "interval":
			if r.rng.Intn(3) == 0 {
				r.do(op{Op: "new", N: n, S: s})
			} else {
				r.do(op{Op: "newi", N: n, S: s, V: r.intervalValue(st, nil)})
			}
		case "cl":
			out := make([]*big.Int, nd)
			for i := range out {
				out[i] = r.randUpTo(st.Acc[i])
			}
			r.out[n] = out
			r.do(op{Op: "newi", N: n, S: s, V: vsub(st.Acc, out)})
		}
	case pick < 60:
		if len(ex) == 0 {
			return
		}
		n := ex[r.rng.Intn(len(ex))]
		p := find(st, n)
		s := r.shareAmount()
		kind := []string{"add", "rem", "upd"}[r.rng.Intn(3)]
		if kind == "rem" || kind == "upd" && r.rng.Intn(2) == 0 {
			// remove: a random part, or everything
			if p.Shares.Sign() == 0 {
				kind = "add"
			} else {
				if s.Cmp(p.Shares) > 0 || r.rng.Intn(5) == 0 {
					s = new(big.Int).Set(p.Shares)
				}
				if r.rng.Intn(3) == 0 && p.Shares.Sign() > 0 {
					s = r.randUpTo(new(big.Int).Sub(p.Shares, big.NewInt(1)))
					s.Add(s, big.NewInt(1))
				}
				if kind == "upd" {
					s.Neg(s)
				}
			}
		}
		switch r.api {
		case "plain":
			r.do(op{Op: kind, N: n, S: s})
		case "interval":
			if r.rng.Intn(3) == 0 {
				r.do(op{Op: kind, N: n, S: s})
			} else {
				r.do(op{Op: kind + "i", N: n, S: s, V: r.intervalValue(st, p)})
			}
		case "cl":
			r.clPrepare(st, n)
			st2 := r.w.project()
			r.do(op{Op: kind + "i", N: n, S: s, V: vsub(st2.Acc, r.outOf(n))})
		}
	case pick < 66:
		if len(ex) == 0 || r.api == "plain" && r.rng.Intn(4) != 0 {
			return
		}
		n := ex[r.rng.Intn(len(ex))]
		if r.api == "cl" {
			return // cl only sets the interval value around its own operations
		}
		r.do(op{Op: "set", N: n, V: r.intervalValue(st, find(st, n))})
	case pick < 79:
		if len(ex) == 0 {
			return
		}
		n := ex[r.rng.Intn(len(ex))]
		if r.api == "cl" {
			r.clPrepare(st, n)
			r.do(op{Op: "claim", N: n})
			st2 := r.w.project()
			if find(st2, n) != nil {
				r.do(op{Op: "set", N: n, V: vsub(st2.Acc, r.outOf(n))})
			} else {
				delete(r.out, n)
			}
			return
		}
		r.do(op{Op: "claim", N: n})
	case pick < 84:
		if len(ex) == 0 {
			return
		}
		n := ex[r.rng.Intn(len(ex))]
		if r.api == "cl" {
			r.clPrepare(st, n)
		}
		res := r.do(op{Op: "delete", N: n})
		delete(r.out, n)
		// sometimes hand what was collected to another position (CL position merging)
		st2 := r.w.project()
		if ex2 := r.existing(st2); res.Ok && len(ex2) > 0 && r.rng.Intn(2) == 0 {
			r.do(op{Op: "addunc", N: ex2[r.rng.Intn(len(ex2))], G: res.Res})
		}
	case pick < 88:
		if len(ex) == 0 {
			return
		}
		n := ex[r.rng.Intn(len(ex))]
		g := r.vec(func() *big.Int { return r.mag(0, 40) })
		r.do(op{Op: "addunc", N: n, G: g})
	default:
		r.failing(st, ex, fr)
	}
}

// failing makes a call that the property says must fail without effect.
func (r *recorder) failing(st state, ex, fr []string) {
	nd := len(r.w.denoms)
	shareOps := []string{"add", "addi", "rem", "remi", "upd", "updi"}
	ghost := "nobody"
	if len(fr) > 0 && r.rng.Intn(4) != 0 {
		ghost = fr[r.rng.Intn(len(fr))] // a name that existed before or will exist later
	}
	iv := func(p *posState) []*big.Int {
		if r.api == "cl" && p != nil {
			return vsub(st.Acc, r.outOf(p.N))
		}
		return r.intervalValue(st, p)
	}
	kind := r.rng.Intn(5)
	if len(ex) == 0 {
		kind = 0
	}
	switch kind {
	case 0: // unknown position, every operation
		ops := append([]string{"set", "addunc", "claim", "delete"}, shareOps...)
		o := ops[r.rng.Intn(len(ops))]
		s := r.shareAmount()
		if (o == "upd" || o == "updi") && r.rng.Intn(2) == 0 {
			s.Neg(s)
		}
		r.do(op{Op: o, N: ghost, S: s, V: iv(nil), G: r.vec(func() *big.Int { return r.mag(0, 20) })})
	case 1: // zero shares
		o := shareOps[r.rng.Intn(len(shareOps))]
		p := find(st, ex[r.rng.Intn(len(ex))])
		r.do(op{Op: o, N: p.N, S: new(big.Int), V: iv(p)})
	case 2: // negative shares for add / remove
		o := shareOps[r.rng.Intn(4)]
		p := find(st, ex[r.rng.Intn(len(ex))])
		s := r.shareAmount()
		if r.rng.Intn(2) == 0 && p.Shares.Sign() > 0 {
			s = r.randUpTo(p.Shares)
			if s.Sign() == 0 {
				s.SetInt64(1)
			}
		}
		r.do(op{Op: o, N: p.N, S: s.Neg(s), V: iv(p)})
	default: // remove more than held (by one raw unit, or by a lot)
		o := []string{"rem", "remi", "upd", "updi"}[r.rng.Intn(4)]
		p := find(st, ex[r.rng.Intn(len(ex))])
		s := new(big.Int).Add(p.Shares, big.NewInt(1))
		if r.rng.Intn(2) == 0 {
			s.Add(s, r.shareAmount())
		}
		if o == "upd" || o == "updi" {
			s.Neg(s)
		}
		r.do(op{Op: o, N: p.N, S: s, V: iv(p)})
	}
	_ = nd
}

func TestRecord(t *testing.T) {
	out := os.Getenv("VERIF_OUT")
	if out == "" {
		t.Skip("VERIF_OUT not set")
	}
	seed := tracelog.EnvInt("VERIF_SEED", 1)
	nh := int(tracelog.EnvInt("VERIF_HISTORIES", 20))
	nops := int(tracelog.EnvInt("VERIF_OPS", 150))
	rng := rand.New(rand.NewSource(seed))
	tw, err := tracelog.NewWriter(out)
	if err != nil {
		t.Fatal(err)
	}
	counts := map[string]int{}
	modes := []string{"fresh", "held", "two"}
	apis := []string{"plain", "interval", "cl"}
	values := []string{"small", "wide", "dust", "liq"}
	for h := 0; h < nh; h++ {
		nd := 1 + rng.Intn(3)
		mode, api, val := modes[h%3], apis[(h/3)%3], values[rng.Intn(len(values))]
		w := newWorld(nd, mode, rng)
		if h%2 == 1 { // every second history shares its store with neighbours
			for _, n := range nbrNames {
				if err := accumpkg.MakeAccumulator(w.store, n); err != nil {
					t.Fatal(err)
				}
			}
			w.nbr = true
			counts["history:neighbours"]++
		}
		nn := 2 + rng.Intn(5)
		names := []string{}
		for i := 0; i < nn; i++ {
			if h%4 >= 2 { // position names that are prefixes of one another (the keepers name positions by decimal id: 1, 12, 121)
				names = append(names, []string{"p1", "p12", "p2", "p121", "p3", "p31"}[i])
				continue
			}
			names = append(names, fmt.Sprintf("p%d", i+1))
		}
		r := &recorder{w: w, rng: rng, tw: tw, names: names, values: val, api: api, out: map[string][]*big.Int{}, counts: counts}
		tw.Emit(map[string]any{"e": "cfg", "nd": nd, "mode": mode, "api": api, "values": val, "names": names, "nbr": w.nbr,
			"st": encState(w.project())})
		counts["mode:"+mode]++
		counts["api:"+api]++
		start := tw.N
		for tw.N-start < nops && r.safeStep() {
		}
	}
	if err := tw.Close(); err != nil {
		t.Fatal(err)
	}
	bz, _ := json.Marshal(counts)
	fmt.Printf("RECORDED events=%d histories=%d\nCOUNTS %s\n", tw.N, nh, bz)
}

// ---------------------------------------------------------------------------
// spec -> impl: behaviours printed by TLC (MCAccum, gen cfg) replayed on the real code

type genOp struct {
	Op  string  `json:"op"`
	N   string  `json:"n"`
	S   int64   `json:"s"`
	V   []int64 `json:"v"`
	G   []int64 `json:"g"`
	Ok  bool    `json:"ok"`
	Res []int64 `json:"res"`
}

type genPos struct {
	Shares int64   `json:"shares"`
	Snap   []int64 `json:"snap"`
	Unc    []int64 `json:"unc"`
}

// posMap is a JSON object name -> position; TLC prints the empty function as [].
type posMap map[string]genPos

func (m *posMap) UnmarshalJSON(bz []byte) error {
	*m = posMap{}
	if len(bz) > 0 && bz[0] == '[' {
		return nil
	}
	return json.Unmarshal(bz, (*map[string]genPos)(m))
}

type genState struct {
	Acc   []int64 `json:"acc"`
	Total int64   `json:"total"`
	Pos   posMap  `json:"pos"`
}

type behaviour struct {
	Ops []genOp  `json:"ops"`
	St  genState `json:"st"`
}

type mismatch struct {
	Behaviour int    `json:"behaviour"`
	Mode      string `json:"mode"`
	Step      int    `json:"step"`
	Op        string `json:"op"`
	What      string `json:"what"`
	Want      any    `json:"want"`
	Got       any    `json:"got"`
}

func TestReplay(t *testing.T) {
	in := os.Getenv("VERIF_IN")
	if in == "" {
		t.Skip("VERIF_IN not set")
	}
	out := tracelog.EnvStr("VERIF_OUT", in+".result")
	unit := tracelog.EnvInt("VERIF_UNIT", 2)
	f := new(big.Int).Div(e18, big.NewInt(unit)) // one raw unit of the model in raw units of Dec
	scale := func(k int64) *big.Int { return new(big.Int).Mul(big.NewInt(k), f) }
	scaleV := func(v []int64) []*big.Int {
		res := make([]*big.Int, len(v))
		for i, k := range v {
			res[i] = scale(k)
		}
		return res
	}
	eqV := func(a []*big.Int, b []*big.Int) bool {
		if len(a) != len(b) {
			return false
		}
		for i := range a {
			if a[i].Cmp(b[i]) != 0 {
				return false
			}
		}
		return true
	}
	str := func(v []*big.Int) []string {
		res := []string{}
		for _, x := range v {
			res = append(res, x.String())
		}
		return res
	}
	bs, err := tracelog.ReadLines[behaviour](in)
	if err != nil {
		t.Fatal(err)
	}
	mm := []mismatch{}
	steps := 0
	opCount := map[string]int{}
	rng := rand.New(rand.NewSource(tracelog.EnvInt("VERIF_SEED", 1)))
	modes := []string{"fresh", "held", "two"}
	for bi, b := range bs {
		for _, mode := range modes {
			w := newWorld(len(b.St.Acc), mode, rng)
			bad := func(step int, o, what string, want, got any) {
				mm = append(mm, mismatch{Behaviour: bi, Mode: mode, Step: step, Op: o, What: what, Want: want, Got: got})
			}
			failed := false
			for i, g := range b.Ops {
				steps++
				o := op{Op: g.Op, N: g.N, S: scale(g.S), V: scaleV(g.V), G: scaleV(g.G)}
				r := w.apply(o)
				if i == len(b.Ops)-1 && mode == "fresh" {
					k := g.Op + ":ok"
					if !g.Ok {
						k = g.Op + ":fail"
					}
					opCount[k]++
				}
				if r.Ok != g.Ok {
					bad(i, g.Op, "outcome (ok) of the call", g.Ok, fmt.Sprintf("%v %s", r.Ok, r.Err))
					failed = true
					break
				}
				if g.Ok && g.Op == "claim" {
					want := make([]*big.Int, len(g.Res))
					for k, c := range g.Res {
						want[k] = big.NewInt(c)
					}
					if !eqV(want, r.Res) {
						bad(i, g.Op, "coins paid by the claim", str(want), str(r.Res))
						failed = true
						break
					}
				}
				if g.Ok && g.Op == "delete" && !eqV(scaleV(g.Res), r.Res) {
					bad(i, g.Op, "rewards returned by the deletion", str(scaleV(g.Res)), str(r.Res))
					failed = true
					break
				}
			}
			if failed {
				continue
			}
			// the state after the last call (the earlier ones are the last calls of shorter behaviours)
			st := w.project()
			last := len(b.Ops) - 1
			lo := b.Ops[last].Op
			if st.Extra != 0 {
				bad(last, lo, "unexpected keys / denoms in the store", 0, st.Extra)
			}
			if !eqV(st.Acc, scaleV(b.St.Acc)) {
				bad(last, lo, "accumulator value", str(scaleV(b.St.Acc)), str(st.Acc))
			}
			if st.Total.Cmp(scale(b.St.Total)) != 0 {
				bad(last, lo, "total shares", scale(b.St.Total).String(), st.Total.String())
			}
			if len(st.Pos) != len(b.St.Pos) {
				bad(last, lo, "set of positions", len(b.St.Pos), len(st.Pos))
			}
			for _, p := range st.Pos {
				want, ok := b.St.Pos[p.N]
				if !ok {
					bad(last, lo, "position exists", "absent", p.N)
					continue
				}
				if p.Shares.Cmp(scale(want.Shares)) != 0 {
					bad(last, lo, "shares of "+p.N, scale(want.Shares).String(), p.Shares.String())
				}
				if !eqV(p.Snap, scaleV(want.Snap)) {
					bad(last, lo, "snapshot of "+p.N, str(scaleV(want.Snap)), str(p.Snap))
				}
				if !eqV(p.Unc, scaleV(want.Unc)) {
					bad(last, lo, "unclaimed rewards of "+p.N, str(scaleV(want.Unc)), str(p.Unc))
				}
			}
		}
		if len(mm) >= 20 {
			break
		}
	}
	res := map[string]any{"behaviours": len(bs), "runs": len(bs) * len(modes), "steps": steps, "last_ops": opCount, "mismatches": mm}
	bz, _ := json.Marshal(res)
	if err := os.WriteFile(out, bz, 0o644); err != nil {
		t.Fatal(err)
	}
	fmt.Printf("REPLAYED behaviours=%d steps=%d mismatches=%d\n", len(bs), steps, len(mm))
}
