// Recorder binding the real fixed-point types of osmomath - BigDec (36
// decimals) and Dec = cosmossdk.io/math.LegacyDec (18 decimals) - to
// spec/DecOps.tla (property C12).  Every event is one call of a public method
// on freshly built operands: raw operands before, success flag, raw result,
// raw operands read back after the call.  A mutating form is always recorded
// right after its non-mutating twin on equal operands ("pair").
package decops

import (
	"fmt"
	"math/big"
	"math/rand"
	"testing"

	"github.com/osmosis-labs/osmosis/osmomath"

	"verif/harness/tracelog"
)

// ---------------------------------------------------------------------------
// operands

type kind int

const (
	kNone kind = iota
	kBD
	kDec
	kBigInt
	kSdkInt
	kI64
	kU64
)

type operand struct {
	k   kind
	bd  osmomath.BigDec
	dec osmomath.Dec
	bi  osmomath.BigInt
	si  osmomath.Int
	i64 int64
	u64 uint64
}

var (
	one      = big.NewInt(1)
	ten      = big.NewInt(10)
	scaleBD  = pow10(36)
	scaleDec = pow10(18)
	maxBD    = new(big.Int).Sub(new(big.Int).Lsh(one, 1144), one)
	maxDec   = new(big.Int).Sub(new(big.Int).Mul(new(big.Int).Lsh(one, 256), scaleDec), one)
	maxBig   = new(big.Int).Sub(new(big.Int).Lsh(one, 1024), one)
	maxSdk   = new(big.Int).Sub(new(big.Int).Lsh(one, 256), one)
	maxI64   = new(big.Int).Sub(new(big.Int).Lsh(one, 63), one)
	minI64   = new(big.Int).Neg(new(big.Int).Lsh(one, 63))
	maxU64   = new(big.Int).Sub(new(big.Int).Lsh(one, 64), one)
)

func pow10(k int) *big.Int { return new(big.Int).Exp(ten, big.NewInt(int64(k)), nil) }

func maxOf(k kind) *big.Int {
	switch k {
	case kBD:
		return maxBD
	case kDec:
		return maxDec
	case kBigInt:
		return maxBig
	case kSdkInt:
		return maxSdk
	case kI64:
		return maxI64
	case kU64:
		return maxU64
	}
	return big.NewInt(0)
}

// clampTo forces raw into the representable range of k (operands must be representable values).
func clampTo(k kind, raw *big.Int) *big.Int {
	r := new(big.Int).Set(raw)
	switch k {
	case kNone:
		return big.NewInt(0)
	case kU64:
		r.Abs(r)
		if r.Cmp(maxU64) > 0 {
			r.And(r, maxU64)
		}
		return r
	case kI64:
		if r.Cmp(maxI64) > 0 || r.Cmp(minI64) < 0 {
			neg := r.Sign() < 0
			r.Abs(r)
			r.And(r, maxI64)
			if neg {
				r.Neg(r)
			}
		}
		return r
	}
	m := maxOf(k)
	if r.CmpAbs(m) > 0 {
		neg := r.Sign() < 0
		r.Abs(r)
		r.Rsh(r, uint(r.BitLen()-m.BitLen()+1))
		if neg {
			r.Neg(r)
		}
	}
	return r
}

func mk(k kind, raw *big.Int) *operand {
	o := &operand{k: k}
	switch k {
	case kBD:
		o.bd = osmomath.NewBigDecFromBigIntWithPrec(raw, osmomath.BigDecPrecision)
	case kDec:
		o.dec = osmomath.NewDecFromBigIntWithPrec(raw, osmomath.DecPrecision)
	case kBigInt:
		o.bi = osmomath.NewBigIntFromBigInt(new(big.Int).Set(raw))
	case kSdkInt:
		o.si = osmomath.NewIntFromBigInt(raw)
	case kI64:
		o.i64 = raw.Int64()
	case kU64:
		o.u64 = raw.Uint64()
	}
	return o
}

func (o *operand) raw() *big.Int {
	switch o.k {
	case kBD:
		return o.bd.BigInt()
	case kDec:
		return o.dec.BigInt()
	case kBigInt:
		return o.bi.BigInt()
	case kSdkInt:
		return o.si.BigInt()
	case kI64:
		return big.NewInt(o.i64)
	case kU64:
		return new(big.Int).SetUint64(o.u64)
	}
	return big.NewInt(0)
}

// ---------------------------------------------------------------------------
// the operation table

type fn func(x, y *operand, p uint64) *big.Int

type opDesc struct {
	fam    string // receiver family: "bd" | "dec"
	name   string
	ta, tb kind
	prec   bool
	run    fn
	mut    string // name of the mutating twin, if any
	runMut fn
	grp    string // operand-shaping group
	sc     int    // number of digits of the divisor scale relevant for ties
	isMut  bool   // the operation itself is mutating (no non-mutating form)
}

type BD = osmomath.BigDec
type D = osmomath.Dec

// outBD / outD: the raw value of a result of a NON-mutating form, followed by an in-place update of that
// result object.  If the result shares its big.Int with an operand (aliasing), the operand read back after
// the call (a2 / b2) differs from the operand passed in, which the specification forbids for non-mutating
// forms: a later in-place update of the result must not reach the operands.
func outBD(r BD) *big.Int {
	raw := r.BigInt()
	func() {
		defer func() { _ = recover() }()
		if r.IsNegative() {
			r.AddMut(osmomath.SmallestBigDec())
		} else {
			r.SubMut(osmomath.SmallestBigDec())
		}
	}()
	return raw
}

func outD(r D) *big.Int {
	raw := r.BigInt()
	func() {
		defer func() { _ = recover() }()
		if r.IsNegative() {
			r.AddMut(osmomath.SmallestDec())
		} else {
			r.SubMut(osmomath.SmallestDec())
		}
	}()
	return raw
}

func bdbd(name, grp string, f func(a, b BD) BD, mut string, fm func(a, b BD) BD) opDesc {
	d := opDesc{fam: "bd", name: name, ta: kBD, tb: kBD, grp: grp, sc: 36,
		run: func(x, y *operand, _ uint64) *big.Int { return outBD(f(x.bd, y.bd)) }}
	if fm != nil {
		d.mut = mut
		d.runMut = func(x, y *operand, _ uint64) *big.Int { return fm(x.bd, y.bd).BigInt() }
	}
	return d
}

func bddec(name, grp string, f func(a BD, b D) BD, mut string, fm func(a BD, b D) BD) opDesc {
	d := opDesc{fam: "bd", name: name, ta: kBD, tb: kDec, grp: grp, sc: 18,
		run: func(x, y *operand, _ uint64) *big.Int { return outBD(f(x.bd, y.dec)) }}
	if fm != nil {
		d.mut = mut
		d.runMut = func(x, y *operand, _ uint64) *big.Int { return fm(x.bd, y.dec).BigInt() }
	}
	return d
}

func bdun(name, grp string, f func(a BD) *big.Int, mut string, fm func(a BD) *big.Int) opDesc {
	d := opDesc{fam: "bd", name: name, ta: kBD, tb: kNone, grp: grp, sc: 36,
		run: func(x, _ *operand, _ uint64) *big.Int { return f(x.bd) }}
	if fm != nil {
		d.mut = mut
		d.runMut = func(x, _ *operand, _ uint64) *big.Int { return fm(x.bd) }
	}
	return d
}

func decdec(name, grp string, f func(a, b D) D, mut string, fm func(a, b D) D) opDesc {
	return opDesc{fam: "dec", name: name, ta: kDec, tb: kDec, grp: grp, sc: 18, mut: mut,
		run:    func(x, y *operand, _ uint64) *big.Int { return outD(f(x.dec, y.dec)) },
		runMut: func(x, y *operand, _ uint64) *big.Int { return fm(x.dec, y.dec).BigInt() }}
}

func decun(name, grp string, f func(a D) *big.Int, mut string, fm func(a D) *big.Int) opDesc {
	d := opDesc{fam: "dec", name: name, ta: kDec, tb: kNone, grp: grp, sc: 18,
		run: func(x, _ *operand, _ uint64) *big.Int { return f(x.dec) }}
	if fm != nil {
		d.mut = mut
		d.runMut = func(x, _ *operand, _ uint64) *big.Int { return fm(x.dec) }
	}
	return d
}

func i64(v int64) *big.Int { return big.NewInt(v) }

func divU64(mode osmomath.RoundingDirection) fn {
	return func(x, y *operand, _ uint64) *big.Int {
		r, err := osmomath.DivIntByU64ToBigDec(x.si, y.u64, mode)
		if err != nil {
			panic(err)
		}
		return r.BigInt()
	}
}

func codec(fam, name string, f func(x *operand) (*big.Int, error)) opDesc {
	k := kBD
	sc := 36
	if fam == "dec" {
		k, sc = kDec, 18
	}
	return opDesc{fam: fam, name: name, ta: k, tb: kNone, grp: "codec", sc: sc,
		run: func(x, _ *operand, _ uint64) *big.Int {
			r, err := f(x)
			if err != nil {
				panic(err)
			}
			return r
		}}
}

func table() []opDesc {
	t := []opDesc{
		// ---- BigDec, 36 decimals
		bdbd("Add", "add", BD.Add, "AddMut", BD.AddMut),
		bdbd("Sub", "add", BD.Sub, "SubMut", BD.SubMut),
		bdbd("Mul", "mul", BD.Mul, "MulMut", BD.MulMut),
		bdbd("MulTruncate", "mul", BD.MulTruncate, "", nil),
		bdbd("MulRoundUp", "mul", BD.MulRoundUp, "", nil),
		bddec("MulDec", "mul", BD.MulDec, "MulDecMut", BD.MulDecMut),
		bddec("MulTruncateDec", "mul", BD.MulTruncateDec, "", nil),
		bddec("MulRoundUpDec", "mul", BD.MulRoundUpDec, "", nil),
		{fam: "bd", name: "MulInt", ta: kBD, tb: kBigInt, grp: "mulint", sc: 36,
			run: func(x, y *operand, _ uint64) *big.Int { return outBD(x.bd.MulInt(y.bi)) }},
		{fam: "bd", name: "MulInt64", ta: kBD, tb: kI64, grp: "mulint", sc: 36,
			run: func(x, y *operand, _ uint64) *big.Int { return outBD(x.bd.MulInt64(y.i64)) }},
		bdbd("Quo", "quo", BD.Quo, "QuoMut", BD.QuoMut),
		bdbd("QuoTruncate", "quo", BD.QuoTruncate, "QuoTruncateMut", BD.QuoTruncateMut),
		bdbd("QuoRoundUp", "quo", BD.QuoRoundUp, "QuoRoundUpMut", BD.QuoRoundUpMut),
		bddec("QuoTruncateDec", "quo", BD.QuoTruncateDec, "QuoTruncateDecMut", BD.QuoTruncateDecMut),
		bddec("QuoByDecRoundUp", "quo", BD.QuoByDecRoundUp, "", nil),
		{fam: "bd", name: "QuoRoundUpNextIntMut", ta: kBD, tb: kBD, grp: "quoint", sc: 36, isMut: true,
			run: func(x, y *operand, _ uint64) *big.Int { return x.bd.QuoRoundUpNextIntMut(y.bd).BigInt() }},
		{fam: "bd", name: "QuoRaw", ta: kBD, tb: kI64, grp: "quoraw", sc: 36,
			run: func(x, y *operand, _ uint64) *big.Int { return outBD(x.bd.QuoRaw(y.i64)) }},
		{fam: "bd", name: "QuoInt", ta: kBD, tb: kBigInt, grp: "quoint", sc: 36,
			run: func(x, y *operand, _ uint64) *big.Int { return outBD(x.bd.QuoInt(y.bi)) }},
		{fam: "bd", name: "QuoInt64", ta: kBD, tb: kI64, grp: "quoint", sc: 36,
			run: func(x, y *operand, _ uint64) *big.Int { return outBD(x.bd.QuoInt64(y.i64)) }},
		bdun("Neg", "any", func(a BD) *big.Int { return outBD(a.Neg()) }, "NegMut", func(a BD) *big.Int { return a.NegMut().BigInt() }),
		bdun("Abs", "any", func(a BD) *big.Int { return outBD(a.Abs()) }, "AbsMut", func(a BD) *big.Int { return a.AbsMut().BigInt() }),
		bdun("Ceil", "unit", func(a BD) *big.Int { return outBD(a.Ceil()) }, "CeilMut", func(a BD) *big.Int { return a.CeilMut().BigInt() }),
		bdun("TruncateDec", "unit", func(a BD) *big.Int { return outBD(a.TruncateDec()) }, "", nil),
		bdun("TruncateInt", "unit", func(a BD) *big.Int { return a.TruncateInt().BigInt() }, "", nil),
		bdun("TruncateInt64", "unit64", func(a BD) *big.Int { return i64(a.TruncateInt64()) }, "", nil),
		bdun("RoundInt", "unit", func(a BD) *big.Int { return a.RoundInt().BigInt() }, "", nil),
		bdun("RoundInt64", "unit64", func(a BD) *big.Int { return i64(a.RoundInt64()) }, "", nil),
		bdun("Dec", "conv", func(a BD) *big.Int { return outD(a.Dec()) }, "", nil),
		bdun("DecRoundUp", "conv", func(a BD) *big.Int { return outD(a.DecRoundUp()) }, "", nil),
		{fam: "bd", name: "DecWithPrecision", ta: kBD, tb: kNone, prec: true, grp: "conv", sc: 36,
			run: func(x, _ *operand, p uint64) *big.Int { return outD(x.bd.DecWithPrecision(p)) }},
		{fam: "bd", name: "ChopPrecision", ta: kBD, tb: kNone, prec: true, grp: "conv", sc: 36,
			run:    func(x, _ *operand, p uint64) *big.Int { return outBD((&x.bd).ChopPrecision(p)) },
			mut:    "ChopPrecisionMut",
			runMut: func(x, _ *operand, p uint64) *big.Int { return (&x.bd).ChopPrecisionMut(p).BigInt() }},
		{fam: "bd", name: "BigDecFromDec", ta: kDec, tb: kNone, grp: "any", sc: 18,
			run:    func(x, _ *operand, _ uint64) *big.Int { return outBD(osmomath.BigDecFromDec(x.dec)) },
			mut:    "BigDecFromDecMut",
			runMut: func(x, _ *operand, _ uint64) *big.Int { return osmomath.BigDecFromDecMut(x.dec).BigInt() }},
		{fam: "bd", name: "BigDecFromSDKInt", ta: kSdkInt, tb: kNone, grp: "any", sc: 36,
			run: func(x, _ *operand, _ uint64) *big.Int { return outBD(osmomath.BigDecFromSDKInt(x.si)) }},
		{fam: "bd", name: "NewBigDecFromDecMulDec", ta: kDec, tb: kDec, grp: "any", sc: 18,
			run: func(x, y *operand, _ uint64) *big.Int { return outBD(osmomath.NewBigDecFromDecMulDec(x.dec, y.dec)) }},
		{fam: "bd", name: "DivIntByU64.Up", ta: kSdkInt, tb: kU64, grp: "divu64", sc: 36, run: divU64(osmomath.RoundUp)},
		{fam: "bd", name: "DivIntByU64.Down", ta: kSdkInt, tb: kU64, grp: "divu64", sc: 36, run: divU64(osmomath.RoundDown)},
		{fam: "bd", name: "DivIntByU64.Bankers", ta: kSdkInt, tb: kU64, grp: "divu64", sc: 36, run: divU64(osmomath.RoundBankers)},
		codec("bd", "RT.String", func(x *operand) (*big.Int, error) {
			y, err := osmomath.NewBigDecFromStr(x.bd.String())
			if err != nil {
				return nil, err
			}
			return y.BigInt(), nil
		}),
		codec("bd", "RT.YAML", func(x *operand) (*big.Int, error) {
			v, err := x.bd.MarshalYAML()
			if err != nil {
				return nil, err
			}
			y, err := osmomath.NewBigDecFromStr(v.(string))
			if err != nil {
				return nil, err
			}
			return y.BigInt(), nil
		}),
		codec("bd", "RT.JSON", func(x *operand) (*big.Int, error) {
			bz, err := x.bd.MarshalJSON()
			if err != nil {
				return nil, err
			}
			var y BD
			if err := y.UnmarshalJSON(bz); err != nil {
				return nil, err
			}
			return y.BigInt(), nil
		}),
		codec("bd", "RT.Marshal", func(x *operand) (*big.Int, error) {
			bz, err := x.bd.Marshal()
			if err != nil {
				return nil, err
			}
			var y BD
			if err := y.Unmarshal(bz); err != nil {
				return nil, err
			}
			return y.BigInt(), nil
		}),
		codec("bd", "RT.MarshalTo", func(x *operand) (*big.Int, error) {
			buf := make([]byte, (&x.bd).Size())
			n, err := (&x.bd).MarshalTo(buf)
			if err != nil {
				return nil, err
			}
			var y BD
			if err := y.Unmarshal(buf[:n]); err != nil {
				return nil, err
			}
			return y.BigInt(), nil
		}),
		codec("bd", "RT.Amino", func(x *operand) (*big.Int, error) {
			bz, err := x.bd.MarshalAmino()
			if err != nil {
				return nil, err
			}
			var y BD
			if err := y.UnmarshalAmino(bz); err != nil {
				return nil, err
			}
			return y.BigInt(), nil
		}),

		// ---- Dec (cosmossdk.io/math.LegacyDec), 18 decimals
		decdec("Add", "add", D.Add, "AddMut", D.AddMut),
		decdec("Sub", "add", D.Sub, "SubMut", D.SubMut),
		decdec("Mul", "mul", D.Mul, "MulMut", D.MulMut),
		decdec("MulTruncate", "mul", D.MulTruncate, "MulTruncateMut", D.MulTruncateMut),
		decdec("MulRoundUp", "mul", D.MulRoundUp, "MulRoundUpMut", D.MulRoundUpMut),
		{fam: "dec", name: "MulInt", ta: kDec, tb: kSdkInt, grp: "mulint", sc: 18,
			run:    func(x, y *operand, _ uint64) *big.Int { return x.dec.MulInt(y.si).BigInt() },
			mut:    "MulIntMut",
			runMut: func(x, y *operand, _ uint64) *big.Int { return x.dec.MulIntMut(y.si).BigInt() }},
		{fam: "dec", name: "MulInt64", ta: kDec, tb: kI64, grp: "mulint", sc: 18,
			run:    func(x, y *operand, _ uint64) *big.Int { return x.dec.MulInt64(y.i64).BigInt() },
			mut:    "MulInt64Mut",
			runMut: func(x, y *operand, _ uint64) *big.Int { return x.dec.MulInt64Mut(y.i64).BigInt() }},
		decdec("Quo", "quo", D.Quo, "QuoMut", D.QuoMut),
		decdec("QuoTruncate", "quo", D.QuoTruncate, "QuoTruncateMut", D.QuoTruncateMut),
		decdec("QuoRoundUp", "quo", D.QuoRoundUp, "QuoRoundupMut", D.QuoRoundupMut),
		{fam: "dec", name: "QuoInt", ta: kDec, tb: kSdkInt, grp: "quoint", sc: 18,
			run:    func(x, y *operand, _ uint64) *big.Int { return x.dec.QuoInt(y.si).BigInt() },
			mut:    "QuoIntMut",
			runMut: func(x, y *operand, _ uint64) *big.Int { return x.dec.QuoIntMut(y.si).BigInt() }},
		{fam: "dec", name: "QuoInt64", ta: kDec, tb: kI64, grp: "quoint", sc: 18,
			run:    func(x, y *operand, _ uint64) *big.Int { return x.dec.QuoInt64(y.i64).BigInt() },
			mut:    "QuoInt64Mut",
			runMut: func(x, y *operand, _ uint64) *big.Int { return x.dec.QuoInt64Mut(y.i64).BigInt() }},
		decun("Neg", "any", func(a D) *big.Int { return outD(a.Neg()) }, "NegMut", func(a D) *big.Int { return a.NegMut().BigInt() }),
		decun("Abs", "any", func(a D) *big.Int { return outD(a.Abs()) }, "AbsMut", func(a D) *big.Int { return a.AbsMut().BigInt() }),
		decun("Ceil", "unit", func(a D) *big.Int { return outD(a.Ceil()) }, "", nil),
		decun("TruncateDec", "unit", func(a D) *big.Int { return outD(a.TruncateDec()) }, "", nil),
		decun("TruncateInt", "unit", func(a D) *big.Int { return a.TruncateInt().BigInt() }, "", nil),
		decun("TruncateInt64", "unit64", func(a D) *big.Int { return i64(a.TruncateInt64()) }, "", nil),
		decun("RoundInt", "unit", func(a D) *big.Int { return a.RoundInt().BigInt() }, "", nil),
		decun("RoundInt64", "unit64", func(a D) *big.Int { return i64(a.RoundInt64()) }, "", nil),
		codec("dec", "RT.String", func(x *operand) (*big.Int, error) {
			y, err := osmomath.NewDecFromStr(x.dec.String())
			if err != nil {
				return nil, err
			}
			return y.BigInt(), nil
		}),
		codec("dec", "RT.JSON", func(x *operand) (*big.Int, error) {
			bz, err := x.dec.MarshalJSON()
			if err != nil {
				return nil, err
			}
			y := D{}
			if err := (&y).UnmarshalJSON(bz); err != nil {
				return nil, err
			}
			return y.BigInt(), nil
		}),
		codec("dec", "RT.Marshal", func(x *operand) (*big.Int, error) {
			bz, err := x.dec.Marshal()
			if err != nil {
				return nil, err
			}
			y := D{}
			if err := (&y).Unmarshal(bz); err != nil {
				return nil, err
			}
			return y.BigInt(), nil
		}),
		codec("dec", "RT.MarshalTo", func(x *operand) (*big.Int, error) {
			buf := make([]byte, (&x.dec).Size())
			n, err := (&x.dec).MarshalTo(buf)
			if err != nil {
				return nil, err
			}
			y := D{}
			if err := (&y).Unmarshal(buf[:n]); err != nil {
				return nil, err
			}
			return y.BigInt(), nil
		}),
	}
	return t
}

// ---------------------------------------------------------------------------
// operand generation

type gen struct {
	r    *rand.Rand
	pool map[kind][]*big.Int
}

func (g *gen) bits(n int) *big.Int {
	if n <= 0 {
		return big.NewInt(0)
	}
	x := new(big.Int).Rand(g.r, new(big.Int).Lsh(one, uint(n-1)))
	return x.SetBit(x, n-1, 1) // exactly n bits
}

func (g *gen) odd(maxBits int) *big.Int {
	x := g.bits(1 + g.r.Intn(maxBits))
	return x.SetBit(x, 0, 1)
}

func (g *gen) sign(x *big.Int) *big.Int {
	if g.r.Intn(2) == 0 {
		return x.Neg(x)
	}
	return x
}

func (g *gen) delta(x *big.Int) *big.Int {
	return x.Add(x, big.NewInt(int64(g.r.Intn(3)-1)))
}

// value draws a representable raw value of kind k across the whole magnitude range.
func (g *gen) value(k kind) *big.Int {
	if k == kNone {
		return big.NewInt(0)
	}
	m := maxOf(k)
	mb := m.BitLen()
	if k == kI64 && g.r.Intn(40) == 0 {
		return new(big.Int).Set(minI64)
	}
	var x *big.Int
	switch c := g.r.Intn(100); {
	case c < 8: // around zero: 0, 1, 2, 3 units in the last place
		x = big.NewInt(int64(g.r.Intn(4)))
	case c < 38: // any bit length up to the bound
		x = g.bits(1 + g.r.Intn(mb))
	case c < 52: // powers of ten and their neighbours
		x = g.delta(pow10(g.r.Intn(len(m.String()))))
	case c < 60: // powers of two and their neighbours
		x = g.delta(new(big.Int).Lsh(one, uint(g.r.Intn(mb))))
	case c < 68: // at and just below the bound
		x = new(big.Int).Sub(m, big.NewInt(int64(g.r.Intn(3))))
	case c < 74: // the top binade
		x = g.bits(mb)
	case c < 86: // few significant digits: m * 10^j
		x = new(big.Int).Mul(g.bits(1+g.r.Intn(24)), pow10(g.r.Intn(len(m.String())-7)))
	case c < 92: // odd multiples of 5 * 10^j (halves of every decimal position)
		x = new(big.Int).Mul(g.odd(40), pow10(g.r.Intn(60)))
		x.Mul(x, big.NewInt(5))
		x = g.delta(x)
	default: // a value produced earlier by the real code
		if p := g.pool[k]; len(p) > 0 {
			x = new(big.Int).Set(p[g.r.Intn(len(p))])
		} else {
			x = g.bits(1 + g.r.Intn(mb))
		}
	}
	if k != kU64 {
		x = g.sign(x)
	}
	return clampTo(k, x)
}

func (g *gen) remember(k kind, x *big.Int) {
	if x.CmpAbs(maxOf(k)) > 0 {
		return
	}
	p := g.pool[k]
	if len(p) < 512 {
		g.pool[k] = append(p, new(big.Int).Set(x))
	} else {
		p[g.r.Intn(len(p))] = new(big.Int).Set(x)
	}
}

// shaped draws an operand pair aimed at the interesting inputs of the operation's group:
// exact results, ties, neighbours of ties, results at the overflow bound.
func (g *gen) shaped(d *opDesc) (*big.Int, *big.Int) {
	a, b := g.value(d.ta), g.value(d.tb)
	if g.r.Intn(100) < 45 {
		return a, b
	}
	mA := maxOf(d.ta)
	S := pow10(36)
	if d.fam == "dec" {
		S = pow10(18)
	}
	div := pow10(d.sc) // the scale chopped off by a multiplication
	switch d.grp {
	case "add":
		switch g.r.Intn(3) {
		case 0: // sum exactly at / one beyond the bound
			b = clampTo(d.tb, new(big.Int).Rsh(g.bits(mA.BitLen()), uint(g.r.Intn(mA.BitLen()))))
			a = new(big.Int).Sub(mA, b)
			a = g.delta(a)
			if d.name == "Sub" {
				b.Neg(b)
			}
			if g.r.Intn(2) == 0 {
				a.Neg(a)
				b.Neg(b)
			}
		case 1: // cancellation
			b = new(big.Int).Neg(a)
			b = g.delta(b)
			if d.name == "Sub" {
				b.Neg(b)
			}
		}
	case "mul":
		switch g.r.Intn(6) {
		case 5:
			fallthrough
		case 4: // product of a few units in the last place: exact value between 0 and 3 units, every sign combination
			// (the truncated quotient is 0 or +-1: the rounding decides sign and magnitude of the result)
			au := int64(1 + g.r.Intn(9))
			a = big.NewInt(au)
			b = new(big.Int).Mul(big.NewInt(1+g.r.Int63n(30/au)), new(big.Int).Quo(div, big.NewInt(10))) // a*b/div in 0.1 .. 3.0
			if g.r.Intn(3) == 0 {
				b = g.delta(b)
			}
			if d.ta == d.tb && g.r.Intn(2) == 0 {
				a, b = b, a
			}
			a, b = g.sign(a), g.sign(b)
		case 0, 1: // product on a tie of the chopped scale, or next to it
			i := g.r.Intn(d.sc)
			a = new(big.Int).Mul(g.odd(1+g.r.Intn(200)), pow10(i))
			a.Mul(a, big.NewInt(5))
			b = new(big.Int).Mul(g.odd(1+g.r.Intn(40)), pow10(d.sc-1-i))
			if g.r.Intn(2) == 0 {
				a = g.delta(a)
			} else {
				b = g.delta(b)
			}
			a, b = g.sign(a), g.sign(b)
		case 2: // exact product
			a = new(big.Int).Mul(g.bits(1+g.r.Intn(300)), div)
			a = g.sign(g.delta(a))
		case 3: // product at the overflow bound
			ka := 1 + g.r.Intn(mA.BitLen())
			kb := mA.BitLen() + div.BitLen() - ka + g.r.Intn(4) - 1
			a, b = g.sign(g.bits(ka)), g.sign(g.bits(kb))
		}
	case "mulint":
		if g.r.Intn(2) == 0 {
			ka := 1 + g.r.Intn(mA.BitLen())
			kb := mA.BitLen() - ka + g.r.Intn(3)
			a, b = g.sign(g.bits(ka)), g.sign(g.bits(kb))
		}
	case "quo", "quoraw", "divu64":
		// numerator scale: the raw quotient is a*num/b
		num := S
		if d.tb == kDec && d.fam == "bd" {
			num = pow10(18)
		}
		if d.grp == "quoraw" || d.grp == "divu64" {
			num = big.NewInt(1)
		}
		switch g.r.Intn(8) {
		case 6, 7: // quotient within a few units of the largest representable magnitude: the truncated quotient is
			// the bound itself (or next to it) and the division inexact, so that a round-up lands one beyond it
			bound := maxBD
			if d.fam == "dec" {
				bound = maxDec
			}
			b = new(big.Int).Mul(big.NewInt(int64(1+g.r.Intn(9))), pow10(num.BitLen()*3/10-1-[]int{0, 0, 0, 0, 1, 2}[g.r.Intn(6)])) // short decimals below one (mostly tenths: an integer numerator with truncated quotient = bound exists with probability b)
			if g.r.Intn(3) == 0 {
				b = g.bits(1 + g.r.Intn(70))
			}
			if b.Sign() == 0 {
				b = big.NewInt(7)
			}
			a = new(big.Int).Mul(bound, b)
			a.Quo(a, num)
			a.Add(a, big.NewInt([]int64{1, 1, 1, 0, 2, -1, 3}[g.r.Intn(7)]))
			if g.r.Intn(2) == 0 {
				// aimed: a numerator whose truncated quotient is EXACTLY the bound with a remainder (it exists only for
				// some divisors: a = floor(bound*b/num) + 1 must stay below (bound+1)*b/num)
				for try := 0; try < 40; try++ {
					b2 := new(big.Int).Mul(big.NewInt(int64(1+g.r.Intn(9))), pow10(num.BitLen()*3/10-1-g.r.Intn(3)))
					if try%2 == 1 {
						b2 = g.bits(2 + g.r.Intn(100))
					}
					a2 := new(big.Int).Mul(bound, b2)
					a2.Quo(a2, num)
					a2.Add(a2, one)
					q, r := new(big.Int).QuoRem(new(big.Int).Mul(a2, num), b2, new(big.Int))
					if q.Cmp(bound) == 0 && r.Sign() != 0 {
						a, b = a2, b2
						if g.r.Intn(2) == 0 { // equal signs: the round-up goes beyond the bound
							a.Neg(a)
							b.Neg(b)
						}
						return clampTo(d.ta, a), clampTo(d.tb, b)
					}
				}
			}
		case 0: // exact quotient, or one unit off
			m := g.bits(1 + g.r.Intn(60))
			b = new(big.Int).Mul(m, num)
			a = new(big.Int).Mul(m, g.bits(1+g.r.Intn(400)))
			a = g.delta(a)
		case 1: // quotient exactly half way (b = 2 * 5^i, a = odd * 5^i), or next to it
			i := g.r.Intn(6)
			f := new(big.Int).Exp(big.NewInt(5), big.NewInt(int64(i)), nil)
			b = new(big.Int).Mul(big.NewInt(2), f)
			b.Mul(b, num)
			a = new(big.Int).Mul(g.odd(1+g.r.Intn(300)), f)
			if d.grp == "divu64" { // i * 10^36 / 2^37 = i * 5^36 / 2
				b = new(big.Int).Lsh(one, 37)
				a = g.odd(1 + g.r.Intn(200))
			}
			a = g.delta(a)
		case 2: // quotient less than one unit of the 2P-digit grid above a tie
			b = new(big.Int).Mul(big.NewInt(2), num)
			b.Sub(b, one)
			a = big.NewInt(int64(2*g.r.Intn(3) + 1))
		case 3: // thirds, sevenths ...: always inexact
			b = new(big.Int).Mul(big.NewInt(int64([]int{3, 7, 9, 11, 13}[g.r.Intn(5)])), num)
			a = new(big.Int).Mul(g.bits(1+g.r.Intn(80)), pow10(g.r.Intn(40)))
		case 4: // quotient at the overflow bound
			ka := mA.BitLen() - g.r.Intn(130)
			kb := ka + num.BitLen() - maxBD.BitLen() + g.r.Intn(4) - 1
			if d.fam == "dec" {
				kb = ka + num.BitLen() - maxDec.BitLen() + g.r.Intn(4) - 1
			}
			if kb < 1 {
				kb = 1
			}
			a, b = g.bits(ka), g.bits(kb)
		case 5: // tiny divisor / division by zero
			b = big.NewInt(int64(g.r.Intn(3)))
		}
		a = g.sign(a)
		if d.tb != kU64 {
			b = g.sign(b)
		}
	case "quoint":
		switch g.r.Intn(3) {
		case 0: // exact or one off
			q := g.bits(1 + g.r.Intn(200))
			if b.Sign() == 0 {
				b = big.NewInt(3)
			}
			a = new(big.Int).Mul(q, b)
			a = g.sign(g.delta(a))
		case 1:
			b = big.NewInt(int64(g.r.Intn(4)))
			b = g.sign(b)
		}
	case "codec":
		// the decoders' limits are stated in bits (1024 resp. 256+60), the text they read in decimal digits with
		// a sign and a point: probe both signs between the last power of ten and the bit bound (the longest text
		// a decoder has to accept), at the bound, and at every digit-count edge below it
		lim := maxBig // decoder bound of BigDec
		if d.fam == "dec" {
			lim = maxDec
		}
		top := pow10(len(lim.String()) - 1) // largest power of ten not above the bound
		switch g.r.Intn(4) {
		case 0: // anywhere in [10^(digits-1), bound]
			a = new(big.Int).Rand(g.r, new(big.Int).Add(new(big.Int).Sub(lim, top), one))
			a.Add(a, top)
		case 1: // the bound and its neighbours on the accepted side
			a = new(big.Int).Sub(lim, big.NewInt(int64(g.r.Intn(3))))
		case 2: // the last power of ten and its neighbours
			a = g.delta(new(big.Int).Set(top))
		case 3: // any digit-count edge
			a = g.delta(pow10(g.r.Intn(len(lim.String()))))
		}
		a = g.sign(a)
	case "unit", "unit64", "conv":
		// divisor of the conversion
		dv := S
		if d.grp == "conv" {
			dv = pow10(g.r.Intn(37))
			if d.name == "Dec" || d.name == "DecRoundUp" {
				dv = pow10(18)
			}
		}
		lim := 1100
		if d.grp == "unit64" {
			lim = 66
		}
		if d.fam == "dec" && lim > 250 {
			lim = 250
		}
		m := g.bits(g.r.Intn(lim))
		switch g.r.Intn(3) {
		case 0: // a multiple of the unit, or one off
			a = new(big.Int).Mul(m, dv)
			a = g.delta(a)
		case 1: // half way, or one off
			a = new(big.Int).Mul(m, dv)
			a.Add(a, new(big.Int).Quo(dv, big.NewInt(2)))
			a = g.delta(a)
		case 2: // the int64 edge
			a = new(big.Int).Mul(new(big.Int).Lsh(one, 63), dv)
			a = g.delta(a)
			a.Sub(a, new(big.Int).Mul(big.NewInt(int64(g.r.Intn(2))), dv))
		}
		a = g.sign(a)
	}
	return clampTo(d.ta, a), clampTo(d.tb, b)
}

// ---------------------------------------------------------------------------
// events

type event struct {
	E     string       `json:"e"`
	T     string       `json:"t"`
	Op    string       `json:"op"`
	A     tracelog.Big `json:"a"`
	B     tracelog.Big `json:"b"`
	P     int          `json:"p"`
	Alias bool         `json:"alias"`
	Pair  bool         `json:"pair"`
	Ok    bool         `json:"ok"`
	R     tracelog.Big `json:"r"`
	A2    tracelog.Big `json:"a2"`
	B2    tracelog.Big `json:"b2"`
	Err   string       `json:"err"`
}

type cfgLine struct {
	E    string `json:"e"`
	Seed int64  `json:"seed"`
	At   int    `json:"at"`
}

// invoke runs one form of one operation on fresh operand objects.
func invoke(d *opDesc, f fn, name string, a, b *big.Int, p uint64, alias, pair bool) event {
	x := mk(d.ta, a)
	y := x
	if !alias {
		y = mk(d.tb, b)
	}
	ev := event{E: "op", T: d.fam, Op: name, A: tracelog.EncBig(a), B: tracelog.EncBig(b), P: int(p), Alias: alias, Pair: pair}
	var res *big.Int
	func() {
		defer func() {
			if r := recover(); r != nil {
				ev.Err = fmt.Sprint(r)
				if len(ev.Err) > 80 {
					ev.Err = ev.Err[:80]
				}
			}
		}()
		res = f(x, y, p)
	}()
	if res != nil && ev.Err == "" {
		ev.Ok = true
		ev.R = tracelog.EncBig(res)
	} else {
		ev.R = tracelog.EncBig(big.NewInt(0))
	}
	ev.A2 = tracelog.EncBig(x.raw())
	if d.tb == kNone {
		ev.B2 = tracelog.EncBig(big.NewInt(0))
	} else {
		ev.B2 = tracelog.EncBig(y.raw())
	}
	return ev
}

func resultKind(d *opDesc) kind {
	switch d.name {
	case "TruncateInt", "RoundInt":
		if d.fam == "bd" {
			return kBigInt
		}
		return kSdkInt
	case "TruncateInt64", "RoundInt64":
		return kI64
	case "Dec", "DecRoundUp", "DecWithPrecision":
		return kDec
	}
	if d.fam == "bd" {
		return kBD
	}
	return kDec
}

func TestRecord(t *testing.T) {
	out := tracelog.EnvStr("VERIF_OUT", "")
	if out == "" {
		t.Skip("VERIF_OUT not set")
	}
	seed := tracelog.EnvInt("VERIF_SEED", 1)
	n := int(tracelog.EnvInt("VERIF_EVENTS", 20000))
	chunk := int(tracelog.EnvInt("VERIF_CHUNK", 2000))
	w, err := tracelog.NewWriter(out)
	if err != nil {
		t.Fatal(err)
	}
	g := &gen{r: rand.New(rand.NewSource(seed*7919 + 12)), pool: map[kind][]*big.Int{}}
	ops := table()
	sinceCfg := chunk
	for i := 0; w.N < n; i++ {
		if sinceCfg >= chunk {
			w.Emit(cfgLine{E: "cfg", Seed: seed, At: w.N})
			sinceCfg = 0
		}
		// every operation in turn, so that each gets the same share of the run
		d := &ops[i%len(ops)]
		a, b := g.shaped(d)
		alias := d.ta == d.tb && g.r.Intn(100) < 8
		if alias {
			b = new(big.Int).Set(a)
		}
		var p uint64
		if d.prec {
			p = uint64(g.r.Intn(40))
			if g.r.Intn(4) == 0 {
				p = uint64([]int{0, 17, 18, 19, 35, 36, 37}[g.r.Intn(7)])
			}
		}
		ev := invoke(d, d.run, d.name, a, b, p, alias, false)
		w.Emit(ev)
		sinceCfg++
		if ev.Ok {
			g.remember(resultKind(d), tracelog.DecBig(ev.R))
		}
		if d.runMut != nil {
			w.Emit(invoke(d, d.runMut, d.mut, a, b, p, alias, true))
			sinceCfg++
		}
	}
	if err := w.Close(); err != nil {
		t.Fatal(err)
	}
}
