package decops

import (
	"math/big"
	"testing"

	"github.com/osmosis-labs/osmosis/osmomath"
)

// TestReproC12 prints the minimal reproductions of the C12 findings (docs/findings_c12.json).
// It never fails: the verdict belongs to bin/check C12.  Run with
//
//	cd /verif/harness && GOFLAGS= GOWORK=$PWD/go.work go test -vet=off -tags verif -overlay overlay.json -run TestReproC12 -v ./lite/decops/
func TestReproC12(t *testing.T) {
	bd := osmomath.NewBigDec
	raw := func(i *big.Int) osmomath.BigDec { return osmomath.NewBigDecFromBigIntWithPrec(i, 36) }
	for _, c := range [][2]int64{{7, 3}, {-7, 3}, {7, -3}, {-7, -3}} {
		a, b := bd(c[0]), bd(c[1])
		t.Logf("%d/%d  BigDec.QuoRoundUp=%s QuoRoundUpMut=%s QuoByDecRoundUp=%s QuoRoundUpNextIntMut=%s | Dec.QuoRoundUp=%s",
			c[0], c[1], a.QuoRoundUp(b), a.Clone().QuoRoundUpMut(b), a.QuoByDecRoundUp(b.Dec()),
			a.Clone().QuoRoundUpNextIntMut(b), a.Dec().QuoRoundUp(b.Dec()))
	}
	t.Logf("DecRoundUp(-1.5e-18) = %s (want -0.000000000000000001)", raw(big.NewInt(-1500000000000000000)).DecRoundUp())
	x, y := bd(5), bd(5)
	t.Logf("x.Quo(x) = %s, x.QuoMut(x) = %s, x.QuoTruncateMut(x) = %s", bd(5).Quo(bd(5)), x.QuoMut(x), y.QuoTruncateMut(y))
	d := osmomath.NewDec(5)
	t.Logf("Dec: d.QuoMut(d) = %s", d.QuoMut(d))
	big1 := raw(new(big.Int).Lsh(big.NewInt(1), 1100))
	_, err := osmomath.NewBigDecFromStr(big1.String())
	t.Logf("2^1100 ulp: Add works (bitlen %d); NewBigDecFromStr(String()) -> %v", big1.Add(big1).BigInt().BitLen(), err)
	top := raw(new(big.Int).Sub(new(big.Int).Lsh(big.NewInt(1), 1144), big.NewInt(1)))
	t.Logf("Ceil(2^1144-1 ulp) bitlen = %d (bound 1144); Dec() in valid range: %v", top.Ceil().BigInt().BitLen(), top.Dec().IsInValidRange())
	r, err := osmomath.DivIntByU64ToBigDec(osmomath.NewInt(10), 1<<63, osmomath.RoundDown)
	t.Logf("DivIntByU64ToBigDec(10, 2^63, RoundDown) = %s, %v", r, err)
}
