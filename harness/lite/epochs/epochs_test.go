// Recorder and replayer binding the real x/epochs keeper (and
// osmoutils.ApplyFuncIfNoError underneath it) to spec/Epochs.tla (C17).
package epochs

import (
	"encoding/json"
	"errors"
	"fmt"
	"math/rand"
	"os"
	"sort"
	"testing"
	"time"

	storetypes "cosmossdk.io/store/types"
	"github.com/cosmos/cosmos-sdk/testutil"
	sdk "github.com/cosmos/cosmos-sdk/types"

	epochskeeper "github.com/osmosis-labs/osmosis/x/epochs/keeper"
	"github.com/osmosis-labs/osmosis/x/epochs/types"

	"verif/harness/tracelog"
)

var baseTime = time.Unix(1_700_000_000, 0).UTC()

type conf struct {
	Start []int64 `json:"start"`
	Dur   []int64 `json:"dur"`
	NSubs int     `json:"nsubs"`
	// Nest: how the subscribers are registered - 0: one flat MultiEpochHooks; 1: the first two grouped in an
	// inner MultiEpochHooks ([[s1 s2] s3]); 2: the last two grouped ([s1 [s2 s3]]).  MultiEpochHooks is itself an
	// EpochHooks, so nesting is legal; order of invocation and containment per subscriber must not depend on it.
	Nest int `json:"nest"`
}

type call struct {
	K   string `json:"k"`
	ID  int    `json:"id"`
	N   int64  `json:"n"`
	Sub int    `json:"sub"`
	O   string `json:"o"`
	W   int64  `json:"w"`
}

type epState struct {
	Cur         int64 `json:"cur"`
	CurStart    int64 `json:"curStart"`
	Started     bool  `json:"started"`
	StartHeight int64 `json:"startHeight"`
}

// world is one real keeper with scripted subscribers.
type world struct {
	ctx     sdk.Context
	k       *epochskeeper.Keeper
	unit    time.Duration
	cf      conf
	subKeys []*storetypes.KVStoreKey
	height  int64
	now     int64
	// per block
	script  func(c call) (string, int64) // decides outcome and write for a call
	calls   []call
	tooMany bool
}

type subHook struct {
	w   *world
	idx int // 1-based
}

func (h subHook) GetModuleName() string { return fmt.Sprintf("sub%d", h.idx) }

func (h subHook) run(ctx sdk.Context, kind string, ident string, n int64) error {
	var id int
	fmt.Sscanf(ident, "t%d", &id)
	c := call{K: kind, ID: id, N: n, Sub: h.idx}
	c.O, c.W = h.w.script(c)
	h.w.calls = append(h.w.calls, c)
	// the (possibly partial) write happens before the outcome
	st := ctx.KVStore(h.w.subKeys[h.idx-1])
	cur := int64(0)
	if bz := st.Get([]byte("v")); bz != nil {
		json.Unmarshal(bz, &cur)
	}
	bz, _ := json.Marshal(cur + c.W)
	st.Set([]byte("v"), bz)
	switch c.O {
	case "ok":
		return nil
	case "err":
		return errors.New("scripted error")
	case "panic":
		// the values code panics with: a string, a plain error, a wrapped error, a runtime error, an arbitrary value
		switch (len(h.w.calls) + int(n)) % 5 {
		case 0:
			panic("scripted panic")
		case 1:
			panic(errors.New("scripted panic with an error value"))
		case 2:
			panic(fmt.Errorf("scripted panic: %w", errors.New("wrapped cause")))
		case 3:
			var m map[string]int
			m["x"] = 1 // runtime error: assignment to entry in nil map
		default:
			panic(struct{ a, b int }{1, 2})
		}
	case "oog":
		// both panics the SDK's gas meters raise: limit exceeded, and the consumed counter overflowing
		if len(h.w.calls)%2 == 0 {
			panic(storetypes.ErrorGasOverflow{Descriptor: "scripted gas overflow"})
		}
		panic(storetypes.ErrorOutOfGas{Descriptor: "scripted out of gas"})
	}
	panic("bad outcome " + c.O)
}

func (h subHook) AfterEpochEnd(ctx sdk.Context, ident string, n int64) error {
	return h.run(ctx, "A", ident, n)
}
func (h subHook) BeforeEpochStart(ctx sdk.Context, ident string, n int64) error {
	return h.run(ctx, "B", ident, n)
}

func newWorld(cf conf, unit time.Duration) *world {
	w := &world{cf: cf, unit: unit}
	ek := storetypes.NewKVStoreKey(types.StoreKey)
	keys := []storetypes.StoreKey{ek}
	for i := 0; i < cf.NSubs; i++ {
		sk := storetypes.NewKVStoreKey(fmt.Sprintf("sub%d", i+1))
		w.subKeys = append(w.subKeys, sk)
		keys = append(keys, sk)
	}
	tkey := storetypes.NewTransientStoreKey("transient_test")
	ctx := testutil.DefaultContextWithKeys(
		func() map[string]*storetypes.KVStoreKey {
			m := map[string]*storetypes.KVStoreKey{types.StoreKey: ek}
			for _, sk := range w.subKeys {
				m[sk.Name()] = sk
			}
			return m
		}(),
		map[string]*storetypes.TransientStoreKey{"transient_test": tkey},
		nil,
	)
	w.ctx = ctx.WithBlockHeight(0).WithBlockTime(baseTime)
	w.k = epochskeeper.NewKeeper(ek)
	hooks := []types.EpochHooks{}
	for i := 0; i < cf.NSubs; i++ {
		hooks = append(hooks, subHook{w: w, idx: i + 1})
	}
	switch {
	case cf.Nest == 1 && len(hooks) >= 2:
		hooks = append([]types.EpochHooks{types.NewMultiEpochHooks(hooks[0], hooks[1])}, hooks[2:]...)
	case cf.Nest == 2 && len(hooks) >= 2:
		n := len(hooks)
		hooks = append(append([]types.EpochHooks{}, hooks[:n-2]...), types.NewMultiEpochHooks(hooks[n-2], hooks[n-1]))
	}
	w.k.SetHooks(types.NewMultiEpochHooks(hooks...))
	for i := range cf.Start {
		err := w.k.AddEpochInfo(w.ctx, types.EpochInfo{
			Identifier: fmt.Sprintf("t%d", i+1),
			StartTime:  baseTime.Add(time.Duration(cf.Start[i]) * unit),
			Duration:   time.Duration(cf.Dur[i]) * unit,
		})
		if err != nil {
			panic(err)
		}
	}
	return w
}

func (w *world) epStates() []epState {
	infos := w.k.AllEpochInfos(w.ctx)
	sort.Slice(infos, func(i, j int) bool { return infos[i].Identifier < infos[j].Identifier })
	res := make([]epState, len(infos))
	for i, e := range infos {
		s := epState{Cur: e.CurrentEpoch, Started: e.EpochCountingStarted}
		if e.EpochCountingStarted {
			d := e.CurrentEpochStartTime.Sub(baseTime)
			if d%w.unit != 0 {
				s.CurStart = -999999 // off the integer grid: cannot be right
			} else {
				s.CurStart = int64(d / w.unit)
			}
			s.StartHeight = e.CurrentEpochStartHeight
		}
		res[i] = s
	}
	return res
}

func (w *world) stores() []int64 {
	res := make([]int64, len(w.subKeys))
	for i, sk := range w.subKeys {
		if bz := w.ctx.KVStore(sk).Get([]byte("v")); bz != nil {
			json.Unmarshal(bz, &res[i])
		}
	}
	return res
}

// runBlock executes one block the way baseapp would: on a branch that is
// written unless the begin blocker panics. Returns "end", "abort" (out of gas
// propagated) or "crash" (any other panic escaped).
func (w *world) runBlock(t int64) (outcome string) {
	w.calls = nil
	cc, write := w.ctx.WithBlockHeight(w.height + 1).WithBlockTime(baseTime.Add(time.Duration(t) * w.unit)).CacheContext()
	outcome = "end"
	func() {
		defer func() {
			if r := recover(); r != nil {
				switch r.(type) {
				case storetypes.ErrorOutOfGas, storetypes.ErrorGasOverflow:
					outcome = "abort"
				default:
					outcome = "crash"
				}
			}
		}()
		w.k.BeginBlocker(cc)
	}()
	if outcome == "end" {
		write()
		w.height++
		w.now = t
	}
	return outcome
}

// ---------------------------------------------------------------------------
// impl -> spec: random schedules, recorded as ndjson

func TestRecord(t *testing.T) {
	out := os.Getenv("VERIF_OUT")
	if out == "" {
		t.Skip("VERIF_OUT not set")
	}
	seed := tracelog.EnvInt("VERIF_SEED", 1)
	nh := int(tracelog.EnvInt("VERIF_HISTORIES", 20))
	nb := int(tracelog.EnvInt("VERIF_BLOCKS", 200))
	rng := rand.New(rand.NewSource(seed))
	tw, err := tracelog.NewWriter(out)
	if err != nil {
		t.Fatal(err)
	}
	units := []time.Duration{time.Nanosecond, time.Millisecond, time.Second, time.Hour}
	for h := 0; h < nh; h++ {
		cf := conf{NSubs: 1 + rng.Intn(3), Nest: h % 3}
		nt := 1 + rng.Intn(4)
		for i := 0; i < nt; i++ {
			cf.Start = append(cf.Start, int64(rng.Intn(16))-5)
			cf.Dur = append(cf.Dur, int64(1+rng.Intn(12)))
		}
		unit := units[rng.Intn(len(units))]
		w := newWorld(cf, unit)
		pOK := 40 + rng.Intn(60)
		pOOG := rng.Intn(4)
		w.script = func(c call) (string, int64) {
			r := rng.Intn(100)
			wv := int64(1 + rng.Intn(5))
			switch {
			case r < pOK:
				return "ok", wv
			case r < pOK+pOOG:
				return "oog", wv
			case (r-pOK)%2 == 0:
				return "err", wv
			default:
				return "panic", wv
			}
		}
		tw.Emit(map[string]any{"e": "cfg", "start": cf.Start, "dur": cf.Dur, "nsubs": cf.NSubs, "t0": 0, "h0": 0, "unit": unit.String()})
		now := int64(0)
		style := rng.Intn(3)
		for b := 0; b < nb; b++ {
			var d int64
			switch r := rng.Intn(20); {
			case r < 3:
				d = 0
			case r < 10:
				d = 1
			case r < 14:
				d = int64(rng.Intn(4))
			case r < 17: // land exactly on / just after some timer's epoch end
				i := rng.Intn(nt)
				e := w.epStates()[i]
				target := cf.Start[i]
				if e.Started {
					target = e.CurStart + cf.Dur[i] + int64(rng.Intn(2))
				}
				if target >= now {
					d = target - now
				}
			case r < 19:
				d = int64(rng.Intn(30))
			default: // long downtime: several epochs
				d = int64(20 + rng.Intn(60))
			}
			if style == 0 && d > 3 {
				d = 1 + d%3 // regular-ish chain
			}
			now += d
			tw.Emit(map[string]any{"e": "start", "t": now, "h": w.height + 1})
			oc := w.runBlock(now)
			for _, c := range w.calls {
				tw.Emit(map[string]any{"e": "call", "k": c.K, "id": c.ID, "n": c.N, "sub": c.Sub, "o": c.O, "w": c.W})
			}
			if oc != "end" {
				now -= d // the block did not happen
			}
			tw.Emit(map[string]any{"e": oc, "ep": w.epStates(), "store": w.stores(), "h": w.height})
		}
	}
	if err := tw.Close(); err != nil {
		t.Fatal(err)
	}
	fmt.Printf("RECORDED events=%d histories=%d\n", tw.N, nh)
}

// ---------------------------------------------------------------------------
// spec -> impl: behaviours printed by TLC (GenEpochs.cfg) replayed on the keeper

type genBlock struct {
	T     int64     `json:"t"`
	Calls []call    `json:"calls"`
	End   string    `json:"end"`
	Ep    []epState `json:"ep"`
	Store []int64   `json:"store"`
}

type behaviour struct {
	Conf   conf       `json:"conf"`
	Blocks []genBlock `json:"blocks"`
}

type mismatch struct {
	Behaviour int    `json:"behaviour"`
	Block     int    `json:"block"`
	What      string `json:"what"`
	Want      any    `json:"want"`
	Got       any    `json:"got"`
}

func TestReplay(t *testing.T) {
	in := os.Getenv("VERIF_IN")
	if in == "" {
		t.Skip("VERIF_IN not set")
	}
	out := tracelog.EnvStr("VERIF_OUT", in+".result")
	bs, err := tracelog.ReadLines[behaviour](in)
	if err != nil {
		t.Fatal(err)
	}
	mm := []mismatch{}
	blocks := 0
	shard, nshards := 0, 1
	fmt.Sscanf(os.Getenv("VERIF_SHARD"), "%d/%d", &shard, &nshards)
	if nshards < 1 {
		nshards = 1
	}
	done := 0
	for bi, b := range bs {
		if bi%nshards != shard {
			continue
		}
		done++
		b.Conf.Nest = bi % 3 // the generated behaviours do not say how subscribers are grouped: all three ways
		w := newWorld(b.Conf, time.Second)
		for ki, gb := range b.Blocks {
			blocks++
			pos := 0
			over := false
			w.script = func(c call) (string, int64) {
				if pos >= len(gb.Calls) {
					over = true
					return "ok", 0
				}
				s := gb.Calls[pos]
				pos++
				return s.O, s.W
			}
			oc := w.runBlock(gb.T)
			bad := func(what string, want, got any) {
				mm = append(mm, mismatch{Behaviour: bi, Block: ki, What: what, Want: want, Got: got})
			}
			if over || len(w.calls) != len(gb.Calls) {
				bad("number of subscriber calls", gb.Calls, w.calls)
			} else {
				for i := range w.calls {
					if w.calls[i] != gb.Calls[i] {
						bad("subscriber call", gb.Calls[i], w.calls[i])
						break
					}
				}
			}
			if oc != gb.End {
				bad("block outcome", gb.End, oc)
			}
			got := w.epStates()
			if len(got) != len(gb.Ep) {
				bad("timers", gb.Ep, got)
			} else {
				for i := range got {
					if got[i] != gb.Ep[i] {
						bad("timer state", gb.Ep, got)
						break
					}
				}
			}
			gs := w.stores()
			for i := range gs {
				if i >= len(gb.Store) || gs[i] != gb.Store[i] {
					bad("subscriber stores", gb.Store, gs)
					break
				}
			}
			if len(mm) > 0 && mm[len(mm)-1].Behaviour == bi {
				break // later blocks of this behaviour start from a different state
			}
		}
		if len(mm) >= 20 {
			break
		}
	}
	res := map[string]any{"behaviours": done, "blocks": blocks, "mismatches": mm}
	bz, _ := json.Marshal(res)
	if err := os.WriteFile(out, bz, 0o644); err != nil {
		t.Fatal(err)
	}
	fmt.Printf("REPLAYED behaviours=%d blocks=%d mismatches=%d\n", len(bs), blocks, len(mm))
}
