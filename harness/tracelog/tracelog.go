// Package tracelog holds what every recorder/replayer of the verification
// harness shares: ndjson event output, the BigNum wire format understood by
// spec/lib/BigNum.tla, and the VERIF_* environment conventions.
package tracelog

import (
	"bufio"
	"encoding/json"
	"fmt"
	"math/big"
	"os"
	"strconv"
)

// Big is the wire form of an arbitrary-precision integer:
// sign in {-1,0,1} and little-endian base-10^4 limbs without trailing zeros.
type Big struct {
	S int   `json:"s"`
	M []int `json:"m"`
}

var base = big.NewInt(10000)

// EncBig converts x to the wire form.
func EncBig(x *big.Int) Big {
	b := Big{S: x.Sign(), M: []int{}}
	a := new(big.Int).Abs(x)
	r := new(big.Int)
	for a.Sign() != 0 {
		a.QuoRem(a, base, r)
		b.M = append(b.M, int(r.Int64()))
	}
	return b
}

// DecBig converts the wire form back.
func DecBig(b Big) *big.Int {
	x := new(big.Int)
	for i := len(b.M) - 1; i >= 0; i-- {
		x.Mul(x, base)
		x.Add(x, big.NewInt(int64(b.M[i])))
	}
	if b.S < 0 {
		x.Neg(x)
	}
	return x
}

// EncInt64 is EncBig for machine integers.
func EncInt64(v int64) Big { return EncBig(big.NewInt(v)) }

// Writer emits one JSON object per line.
type Writer struct {
	f *os.File
	w *bufio.Writer
	N int
}

// NewWriter creates (truncates) path.
func NewWriter(path string) (*Writer, error) {
	f, err := os.Create(path)
	if err != nil {
		return nil, err
	}
	return &Writer{f: f, w: bufio.NewWriterSize(f, 1<<20)}, nil
}

// Emit writes one event.
func (w *Writer) Emit(ev any) {
	bz, err := json.Marshal(ev)
	if err != nil {
		panic(fmt.Sprintf("tracelog: cannot marshal event: %v", err))
	}
	w.w.Write(bz)
	w.w.WriteByte('\n')
	w.N++
}

// Close flushes and closes.
func (w *Writer) Close() error {
	if err := w.w.Flush(); err != nil {
		return err
	}
	return w.f.Close()
}

// EnvInt reads an integer environment variable with a default.
func EnvInt(name string, def int64) int64 {
	v := os.Getenv(name)
	if v == "" {
		return def
	}
	n, err := strconv.ParseInt(v, 10, 64)
	if err != nil {
		panic(fmt.Sprintf("bad %s=%q", name, v))
	}
	return n
}

// EnvStr reads a string environment variable with a default.
func EnvStr(name, def string) string {
	if v := os.Getenv(name); v != "" {
		return v
	}
	return def
}

// ReadLines reads a file of one JSON document per line into out (a pointer to a slice).
func ReadLines[T any](path string) ([]T, error) {
	f, err := os.Open(path)
	if err != nil {
		return nil, err
	}
	defer f.Close()
	sc := bufio.NewScanner(f)
	sc.Buffer(make([]byte, 1<<20), 1<<28)
	var res []T
	for sc.Scan() {
		if len(sc.Bytes()) == 0 {
			continue
		}
		var v T
		if err := json.Unmarshal(sc.Bytes(), &v); err != nil {
			return nil, fmt.Errorf("%s: %w", path, err)
		}
		res = append(res, v)
	}
	return res, sc.Err()
}
