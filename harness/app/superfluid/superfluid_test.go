// Recorder binding the real x/superfluid + x/lockup + staking + bank of the full
// OsmosisApp to spec/Superfluid.tla (C11).
//
// TestRecord  impl -> spec: seeded random histories through the real message
// servers (superfluid delegate / undelegate / unbond / undelegate-and-unbond /
// lock-and-delegate / create-full-range-position-and-delegate, lockup lock /
// begin-unlocking / extend), keeper sweeps, pool swaps and whole-app begin
// blockers (epochs tick there: AfterEpochStartBeginBlock).  After every call -
// also the refused ones - the lock records, synthetic locks, intermediary
// accounts and connections, the staking delegation of every intermediary
// account, the stored multipliers, the live pool state and the bank supply of
// the bond denom (raw, offset, with offset) are logged as ndjson for
// spec/trace/TraceSuperfluid.tla.
//
// Validators other than the block signer are jailed (liveness fault, no slash) and released.  Validator slashing,
// governance removal of superfluid assets and the migration / unpool / convert-and-stake messages are not in
// the alphabet.
package superfluid

import (
	"encoding/json"
	"fmt"
	"math/big"
	"math/rand"
	"os"
	"sort"
	"strings"
	"testing"
	"time"

	abci "github.com/cometbft/cometbft/abci/types"
	cmtproto "github.com/cometbft/cometbft/proto/tendermint/types"
	"github.com/cosmos/cosmos-sdk/crypto/keys/secp256k1"
	sdk "github.com/cosmos/cosmos-sdk/types"
	banktestutil "github.com/cosmos/cosmos-sdk/x/bank/testutil"
	slashingtypes "github.com/cosmos/cosmos-sdk/x/slashing/types"
	stakingkeeper "github.com/cosmos/cosmos-sdk/x/staking/keeper"
	stakingtypes "github.com/cosmos/cosmos-sdk/x/staking/types"

	"github.com/osmosis-labs/osmosis/osmomath"
	cl "github.com/osmosis-labs/osmosis/v31/x/concentrated-liquidity"
	clmodel "github.com/osmosis-labs/osmosis/v31/x/concentrated-liquidity/model"
	cltypes "github.com/osmosis-labs/osmosis/v31/x/concentrated-liquidity/types"
	"github.com/osmosis-labs/osmosis/v31/x/gamm/pool-models/balancer"
	gammtypes "github.com/osmosis-labs/osmosis/v31/x/gamm/types"
	lockupmodule "github.com/osmosis-labs/osmosis/v31/x/lockup"
	lockuptypes "github.com/osmosis-labs/osmosis/v31/x/lockup/types"
	sfkeeper "github.com/osmosis-labs/osmosis/v31/x/superfluid/keeper"
	sftypes "github.com/osmosis-labs/osmosis/v31/x/superfluid/types"
	epochtypes "github.com/osmosis-labs/osmosis/x/epochs/types"

	"verif/harness/apphelp"
	"verif/harness/tracelog"
)

var baseTime = time.Unix(1_700_000_000, 0).UTC()

const (
	offGrid  = -999999 // a time / duration / amount that cannot be right
	sfEpoch  = "sfepoch"
	maxLocks = 14
)

var scale18 = new(big.Int).Exp(big.NewInt(10), big.NewInt(18), nil)

// ---------------------------------------------------------------------------
// world

type world struct {
	*apphelp.World
	bond     string
	names    []string
	addrs    []sdk.AccAddress
	byAddr   map[string]string
	vals     []string
	valAddrs []sdk.ValAddress
	byVal    map[string]string // valoper bech32 -> name
	denoms   []string          // lockable share denominations of the history
	unit     map[string]osmomath.Int
	isCL     map[string]bool
	poolID   map[string]uint64
	other    map[string]string // denom -> the non-OSMO token of its pool
	unbond   int64
	epochDur int64
	risk     osmomath.Dec
	creator  sdk.AccAddress
	trader   sdk.AccAddress
	posOf    map[uint64]uint64 // lock id -> concentrated position id
}

func secs(t time.Time) int64 {
	d := t.Sub(baseTime)
	if d%time.Second != 0 {
		return offGrid
	}
	return int64(d / time.Second)
}

func durSecs(d time.Duration) int64 {
	if d%time.Second != 0 {
		return offGrid
	}
	return int64(d / time.Second)
}

func (w *world) addr(name string) sdk.AccAddress {
	for i, n := range w.names {
		if n == name {
			return w.addrs[i]
		}
	}
	panic("unknown owner " + name)
}

func (w *world) name(bech string) string {
	if n, ok := w.byAddr[bech]; ok {
		return n
	}
	return "?" + bech
}

func (w *world) val(name string) sdk.ValAddress {
	for i, n := range w.vals {
		if n == name {
			return w.valAddrs[i]
		}
	}
	// a well-formed address of no validator
	return sdk.ValAddress(apphelp.Acct(9000 + len(name)))
}

func (w *world) valName(bech string) string {
	if n, ok := w.byVal[bech]; ok {
		return n
	}
	return "?" + bech
}

// units converts base units of a share denomination to the history's counted units.
func (w *world) units(denom string, amt osmomath.Int) int64 {
	u, ok := w.unit[denom]
	if !ok {
		return offGrid
	}
	q := amt.Quo(u)
	if !q.Mul(u).Equal(amt) || !q.IsInt64() || q.Int64() > 2_000_000_000 {
		return offGrid
	}
	return q.Int64()
}

func (w *world) coinMap(cs sdk.Coins) map[string]int64 {
	m := map[string]int64{}
	for _, d := range w.denoms {
		m[d] = 0
	}
	for _, c := range cs {
		if _, ok := w.unit[c.Denom]; ok {
			m[c.Denom] = w.units(c.Denom, c.Amount)
		}
	}
	return m
}

func (w *world) base(denom string, n int64) osmomath.Int {
	return w.unit[denom].MulRaw(n)
}

func must(err error) {
	if err != nil {
		panic(err)
	}
}

func (w *world) setupValidator(i int) sdk.ValAddress {
	priv := secp256k1.GenPrivKeyFromSecret([]byte(fmt.Sprintf("verif-validator-%d", i)))
	pub := priv.PubKey()
	va := sdk.ValAddress(pub.Address())
	self := sdk.NewCoin(w.bond, sdk.DefaultPowerReduction)
	w.FundAcc(sdk.AccAddress(va), sdk.NewCoins(self))
	zero := osmomath.ZeroDec()
	msg, err := stakingtypes.NewMsgCreateValidator(va.String(), pub, self, stakingtypes.NewDescription("m", "i", "w", "s", "d"),
		stakingtypes.NewCommissionRates(zero, zero, zero), osmomath.OneInt())
	must(err)
	_, err = stakingkeeper.NewMsgServerImpl(w.App.StakingKeeper).CreateValidator(w.Ctx, msg)
	must(err)
	v, err := w.App.StakingKeeper.GetValidator(w.Ctx, va)
	must(err)
	v = v.UpdateStatus(stakingtypes.Bonded)
	must(w.App.StakingKeeper.SetValidator(w.Ctx, v))
	cons, err := v.GetConsAddr()
	must(err)
	must(w.App.SlashingKeeper.SetValidatorSigningInfo(w.Ctx, cons, slashingtypes.NewValidatorSigningInfo(cons, w.Ctx.BlockHeight(), time.Unix(0, 0), false, 0)))
	return va
}

type config struct {
	Owners   int
	Vals     int
	Gamm     int
	CL       bool
	Unbond   int64
	EpochDur int64
	Risk     string
	UnitExp  []int     // per gamm pool: unit = 10^UnitExp
	PoolOsmo []string  // per gamm pool: OSMO put into the pool
	Fund     [][]int64 // per owner, per gamm pool: units received
	CL0      int64     // initial full-range position of the CL pool (OSMO side)
	CL1      int64
}

func pow10(k int) osmomath.Int {
	return osmomath.NewIntFromBigInt(new(big.Int).Exp(big.NewInt(10), big.NewInt(int64(k)), nil))
}

func randomConfig(rng *rand.Rand) config {
	c := config{Owners: 2 + rng.Intn(3), Vals: 2 + rng.Intn(2), Gamm: 1 + rng.Intn(2), CL: rng.Intn(5) < 3}
	c.Unbond = []int64{40, 100, 250}[rng.Intn(3)]
	c.EpochDur = []int64{30, 60, 120}[rng.Intn(3)]
	c.Risk = []string{"0.5", "0.5", "0.25", "0.05", "0", "0.333333333333333333", "0.9"}[rng.Intn(7)]
	for p := 0; p < c.Gamm; p++ {
		ue := []int{0, 0, 6, 11}[rng.Intn(4)]
		c.UnitExp = append(c.UnitExp, ue)
		// OSMO per counted unit between 10^-3 and 10^2: pool OSMO = r * 10^20 / unit, with random low digits
		e := 17 + rng.Intn(6) - ue // 10^17 .. 10^22 for unit 1
		if e < 4 {
			e = 4
		}
		lead := 1 + rng.Int63n(9_999_999)
		v := new(big.Int).Mul(big.NewInt(lead), new(big.Int).Exp(big.NewInt(10), big.NewInt(int64(e)), nil))
		v.Quo(v, big.NewInt(1_000_000))
		v.Add(v, big.NewInt(1+rng.Int63n(1_000_000)))
		c.PoolOsmo = append(c.PoolOsmo, v.String())
	}
	for o := 0; o < c.Owners; o++ {
		row := []int64{}
		for p := 0; p < c.Gamm; p++ {
			mag := []int64{1_000, 100_000, 10_000_000, 100_000_000}[rng.Intn(4)]
			row = append(row, mag/2+rng.Int63n(mag))
		}
		c.Fund = append(c.Fund, row)
	}
	c.CL0 = 1_000_000 + rng.Int63n(500_000_000)
	c.CL1 = 1_000_000 + rng.Int63n(500_000_000)
	return c
}

func newWorld(t *testing.T, c config) *world {
	w := &world{World: apphelp.New(t), byAddr: map[string]string{}, byVal: map[string]string{}, unit: map[string]osmomath.Int{},
		isCL: map[string]bool{}, poolID: map[string]uint64{}, other: map[string]string{}, unbond: c.Unbond, epochDur: c.EpochDur, posOf: map[uint64]uint64{}}
	w.Ctx = w.Ctx.WithBlockTime(baseTime).WithBlockHeight(1000)
	var err error
	w.bond, err = w.App.StakingKeeper.BondDenom(w.Ctx)
	must(err)
	w.creator, w.trader = apphelp.Acct(100), apphelp.Acct(101)

	sp, err := w.App.StakingKeeper.GetParams(w.Ctx)
	must(err)
	sp.UnbondingTime = time.Duration(c.Unbond) * time.Second
	must(w.App.StakingKeeper.SetParams(w.Ctx, sp))
	w.App.IncentivesKeeper.SetLockableDurations(w.Ctx, append(w.App.IncentivesKeeper.GetLockableDurations(w.Ctx), sp.UnbondingTime))
	ip := w.App.IncentivesKeeper.GetParams(w.Ctx)
	ip.DistrEpochIdentifier = sfEpoch
	ip.MinValueForDistribution = sdk.NewCoin(w.bond, osmomath.NewInt(1)) // as x/superfluid's own test suite: gauges accept the bond denom
	w.App.IncentivesKeeper.SetParams(w.Ctx, ip)
	must(w.App.EpochsKeeper.AddEpochInfo(w.Ctx, epochtypes.EpochInfo{Identifier: sfEpoch, StartTime: baseTime, Duration: time.Duration(c.EpochDur) * time.Second,
		CurrentEpochStartTime: baseTime, CurrentEpochStartHeight: 1000, CurrentEpoch: 1, EpochCountingStarted: true}))
	// the test app's bond denom is not the chain's base denom: register a route for it so that gauges accept it as rewards (mainnet: uosmo itself)
	w.App.ProtoRevKeeper.SetPoolForDenomPair(w.Ctx, "uosmo", w.bond, 1)
	w.risk = osmomath.MustNewDecFromStr(c.Risk)
	w.App.SuperfluidKeeper.SetParams(w.Ctx, sftypes.NewParams(w.risk))

	for i := 0; i < c.Owners; i++ {
		n := fmt.Sprintf("o%d", i+1)
		a := apphelp.Acct(i + 1)
		w.names, w.addrs = append(w.names, n), append(w.addrs, a)
		w.byAddr[a.String()] = n
	}
	for i := 0; i < c.Vals; i++ {
		n := fmt.Sprintf("v%d", i+1)
		va := w.setupValidator(i + 1)
		w.vals, w.valAddrs = append(w.vals, n), append(w.valAddrs, va)
		w.byVal[va.String()] = n
	}
	// classic pools whose shares are superfluid assets
	for p := 0; p < c.Gamm; p++ {
		osmo, ok := osmomath.NewIntFromString(c.PoolOsmo[p])
		if !ok {
			panic("bad pool amount")
		}
		tok := fmt.Sprintf("token%c", 'a'+p)
		tokAmt := osmomath.NewInt(1_000_000_000_000)
		w.FundAcc(w.creator, sdk.NewCoins(sdk.NewCoin(w.bond, osmo), sdk.NewCoin(tok, tokAmt)).Add(w.App.PoolManagerKeeper.GetParams(w.Ctx).PoolCreationFee...))
		fee := []osmomath.Dec{osmomath.NewDecWithPrec(1, 2), osmomath.ZeroDec(), osmomath.NewDecWithPrec(3, 3)}[p%3]
		msg := balancer.NewMsgCreateBalancerPool(w.creator, balancer.PoolParams{SwapFee: fee, ExitFee: osmomath.ZeroDec()},
			[]balancer.PoolAsset{{Weight: osmomath.NewInt(100), Token: sdk.NewCoin(w.bond, osmo)}, {Weight: osmomath.NewInt(100), Token: sdk.NewCoin(tok, tokAmt)}}, "")
		pid, err := w.App.PoolManagerKeeper.CreatePool(w.Ctx, msg)
		must(err)
		d := gammtypes.GetPoolShareDenom(pid)
		must(w.App.SuperfluidKeeper.AddNewSuperfluidAsset(w.Ctx, sftypes.SuperfluidAsset{Denom: d, AssetType: sftypes.SuperfluidAssetTypeLPShare}))
		w.denoms = append(w.denoms, d)
		w.unit[d] = pow10(c.UnitExp[p])
		w.poolID[d] = pid
		w.other[d] = tok
		for o := 0; o < c.Owners; o++ {
			must(w.App.BankKeeper.SendCoins(w.Ctx, w.creator, w.addrs[o], sdk.NewCoins(sdk.NewCoin(d, w.base(d, c.Fund[o][p])))))
		}
		w.FundAcc(w.trader, sdk.NewCoins(sdk.NewCoin(tok, tokAmt.MulRaw(10_000_000)), sdk.NewCoin(w.bond, osmo.MulRaw(100))))
	}
	if c.CL {
		tok := "tokenz"
		w.FundAcc(w.creator, w.App.PoolManagerKeeper.GetParams(w.Ctx).PoolCreationFee)
		spread := osmomath.ZeroDec()
		if c.CL0%2 == 0 {
			spread = osmomath.NewDecWithPrec(3, 3)
		}
		pid, err := w.App.PoolManagerKeeper.CreatePool(w.Ctx, clmodel.NewMsgCreateConcentratedPool(w.creator, w.bond, tok, 100, spread))
		must(err)
		first := sdk.NewCoins(sdk.NewInt64Coin(w.bond, c.CL0), sdk.NewInt64Coin(tok, c.CL1))
		w.FundAcc(w.creator, first)
		_, err = w.App.ConcentratedLiquidityKeeper.CreateFullRangePosition(w.Ctx, pid, w.creator, first)
		must(err)
		d := cltypes.GetConcentratedLockupDenomFromPoolId(pid)
		must(w.App.SuperfluidKeeper.AddNewSuperfluidAsset(w.Ctx, sftypes.SuperfluidAsset{Denom: d, AssetType: sftypes.SuperfluidAssetTypeConcentratedShare}))
		w.denoms = append(w.denoms, d)
		w.unit[d] = osmomath.OneInt()
		w.isCL[d] = true
		w.poolID[d] = pid
		w.other[d] = tok
		for o := 0; o < c.Owners; o++ {
			w.FundAcc(w.addrs[o], sdk.NewCoins(sdk.NewInt64Coin(w.bond, 4_000_000_000), sdk.NewInt64Coin(tok, 4_000_000_000)))
		}
		w.FundAcc(w.trader, sdk.NewCoins(sdk.NewInt64Coin(w.bond, 1_000_000_000_000), sdk.NewInt64Coin(tok, 1_000_000_000_000)))
	}
	return w
}

// ---------------------------------------------------------------------------
// projection of the real state

type lockSt struct {
	ID  uint64           `json:"id"`
	O   string           `json:"o"`
	Dur int64            `json:"dur"`
	End int64            `json:"end"`
	C   map[string]int64 `json:"c"`
	RR  string           `json:"rr"`
}

type stateDoc struct {
	Locks  []lockSt                    `json:"locks"`
	Bal    map[string]map[string]int64 `json:"bal"`
	Mod    map[string]int64            `json:"mod"`
	Now    int64                       `json:"now"`
	LastID uint64                      `json:"lastId"`
}

type synthSt struct {
	ID  uint64 `json:"id"`
	K   string `json:"k"`
	D   string `json:"d"`
	V   string `json:"v"`
	End int64  `json:"end"`
	Dur int64  `json:"dur"`
}

type connSt struct {
	ID uint64 `json:"id"`
	D  string `json:"d"`
	V  string `json:"v"`
}

type iaSt struct {
	D     string       `json:"d"`
	V     string       `json:"v"`
	G     uint64       `json:"g"`
	Deleg tracelog.Big `json:"deleg"`
	Frac  int          `json:"frac"` // 1: the delegation is not a whole number of tokens (exchange rate moved)
	Exp   tracelog.Big `json:"exp"`  // the code's own GetExpectedDelegationAmount
	ExpOK int          `json:"expok"`
	Bal   tracelog.Big `json:"bal"` // bond denom lying in the account itself
	N     int          `json:"n"`   // locks connected
	Rew   tracelog.Big `json:"rew"` // bond denom in the account's gauge (staking rewards moved there at epochs)
}

type poolSt struct {
	Num tracelog.Big `json:"num"`
	Den tracelog.Big `json:"den"`
}

type supplySt struct {
	Raw tracelog.Big `json:"raw"`
	Off tracelog.Big `json:"off"`
	Rep tracelog.Big `json:"rep"` // GetSupplyWithOffset
}

type sfDoc struct {
	Synth  []synthSt               `json:"synth"`
	Conn   []connSt                `json:"conn"`
	IAs    []iaSt                  `json:"ias"`
	Mult   map[string]tracelog.Big `json:"mult"`
	Pool   map[string]poolSt       `json:"pool"`
	Supply supplySt                `json:"supply"`
	VTok   map[string]tracelog.Big `json:"vtok"`  // validator tokens
	ModSF  tracelog.Big            `json:"modsf"` // bond denom held by the superfluid module account
	InvBad int                     `json:"invbad"`
	Epoch  int64                   `json:"epoch"`
}

func (w *world) lockOf(l *lockuptypes.PeriodLock) lockSt {
	s := lockSt{ID: l.ID, O: w.name(l.Owner), Dur: durSecs(l.Duration), C: w.coinMap(l.Coins)}
	if !l.EndTime.Equal(time.Time{}) {
		s.End = secs(l.EndTime)
	}
	if l.RewardReceiverAddress != "" {
		s.RR = w.name(l.RewardReceiverAddress)
	}
	return s
}

func (w *world) project(ctx sdk.Context) stateDoc {
	k := w.App.LockupKeeper
	st := stateDoc{Locks: []lockSt{}, Bal: map[string]map[string]int64{}, Now: secs(ctx.BlockTime()), LastID: k.GetLastLockID(ctx)}
	for id := uint64(1); id <= st.LastID; id++ {
		l, err := k.GetLockByID(ctx, id)
		if err != nil {
			continue
		}
		st.Locks = append(st.Locks, w.lockOf(l))
	}
	for i, n := range w.names {
		st.Bal[n] = w.coinMap(w.App.BankKeeper.GetAllBalances(ctx, w.addrs[i]))
	}
	st.Mod = w.coinMap(k.GetModuleBalance(ctx))
	return st
}

func splitSynth(sd string) (denom, kind, val string) {
	if i := strings.Index(sd, "/superbonding/"); i >= 0 {
		return sd[:i], "B", sd[i+len("/superbonding/"):]
	}
	if i := strings.Index(sd, "/superunbonding/"); i >= 0 {
		return sd[:i], "U", sd[i+len("/superunbonding/"):]
	}
	return sd, "?", ""
}

// poolState: what the next multiplier of denom is made from, as num / den with
// multiplier = num * 10^18 / den.
func (w *world) poolState(ctx sdk.Context, d string) poolSt {
	if !w.isCL[d] {
		p, err := w.App.GAMMKeeper.GetPoolAndPoke(ctx, w.poolID[d])
		must(err)
		return poolSt{Num: apphelp.BigI(p.GetTotalPoolLiquidity(ctx).AmountOf(w.bond)), Den: apphelp.BigI(p.GetTotalShares())}
	}
	pool, err := w.App.ConcentratedLiquidityKeeper.GetConcentratedPoolById(ctx, w.poolID[d])
	must(err)
	liq, err := w.App.ConcentratedLiquidityKeeper.GetFullRangeLiquidityInPool(ctx, w.poolID[d])
	must(err)
	a0, a1, err := cl.CalculateUnderlyingAssetsFromPosition(ctx, clmodel.Position{LowerTick: cltypes.MinInitializedTick, UpperTick: cltypes.MaxTick, Liquidity: liq}, pool)
	must(err)
	osmo := sdk.NewCoins(a0, a1).AmountOf(w.bond)
	// multiplier = osmo / liq = (osmo * 10^18) * 10^18 / raw(liq)
	return poolSt{Num: tracelog.EncBig(new(big.Int).Mul(osmo.BigInt(), scale18)), Den: apphelp.BigD(liq)}
}

func (w *world) projectSF(ctx sdk.Context) sfDoc {
	sk, lk, stk, bk := w.App.SuperfluidKeeper, w.App.LockupKeeper, w.App.StakingKeeper, w.App.BankKeeper
	doc := sfDoc{Synth: []synthSt{}, Conn: []connSt{}, IAs: []iaSt{}, Mult: map[string]tracelog.Big{}, Pool: map[string]poolSt{}, VTok: map[string]tracelog.Big{}}
	for _, s := range lk.GetAllSyntheticLockups(ctx) {
		d, k, v := splitSynth(s.SynthDenom)
		e := synthSt{ID: s.UnderlyingLockId, K: k, D: d, V: w.valName(v), Dur: durSecs(s.Duration)}
		if !s.EndTime.Equal(time.Time{}) {
			e.End = secs(s.EndTime)
		}
		doc.Synth = append(doc.Synth, e)
	}
	nconn := map[string]int{}
	for _, c := range sk.GetAllLockIdIntermediaryAccountConnections(ctx) {
		a, err := sdk.AccAddressFromBech32(c.IntermediaryAccount)
		must(err)
		ia := sk.GetIntermediaryAccount(ctx, a)
		e := connSt{ID: c.LockId, D: ia.Denom, V: w.valName(ia.ValAddr)}
		if ia.Empty() {
			e.D, e.V = "?", "?"+c.IntermediaryAccount
		}
		doc.Conn = append(doc.Conn, e)
		nconn[e.D+"|"+e.V]++
	}
	for _, ia := range sk.GetAllIntermediaryAccounts(ctx) {
		va, err := sdk.ValAddressFromBech32(ia.ValAddr)
		must(err)
		e := iaSt{D: ia.Denom, V: w.valName(ia.ValAddr), G: ia.GaugeId, Deleg: tracelog.EncInt64(0), Exp: tracelog.EncInt64(0)}
		if del, err := stk.GetDelegation(ctx, ia.GetAccAddress(), va); err == nil {
			v, err := stk.GetValidator(ctx, va)
			must(err)
			tok := v.TokensFromShares(del.Shares)
			e.Deleg = apphelp.BigI(tok.TruncateInt())
			if !tok.IsInteger() {
				e.Frac = 1
			}
		}
		func() {
			defer func() { recover() }()
			if x, err := sk.GetExpectedDelegationAmount(ctx, ia); err == nil {
				e.Exp, e.ExpOK = apphelp.BigI(x), 1
			}
		}()
		e.Bal = apphelp.BigI(bk.GetBalance(ctx, ia.GetAccAddress(), w.bond).Amount)
		e.N = nconn[e.D+"|"+e.V]
		e.Rew = tracelog.EncInt64(0)
		if g, err := w.App.IncentivesKeeper.GetGaugeByID(ctx, ia.GaugeId); err == nil {
			e.Rew = apphelp.BigI(g.Coins.AmountOf(w.bond))
		}
		doc.IAs = append(doc.IAs, e)
	}
	sort.Slice(doc.IAs, func(i, j int) bool {
		if doc.IAs[i].D != doc.IAs[j].D {
			return doc.IAs[i].D < doc.IAs[j].D
		}
		return doc.IAs[i].V < doc.IAs[j].V
	})
	for _, d := range w.denoms {
		doc.Mult[d] = apphelp.BigD(sk.GetOsmoEquivalentMultiplier(ctx, d))
		doc.Pool[d] = w.poolState(ctx, d)
	}
	doc.Supply = supplySt{Raw: apphelp.BigI(bk.GetSupply(ctx, w.bond).Amount), Off: apphelp.BigI(bk.GetSupplyOffset(ctx, w.bond)),
		Rep: apphelp.BigI(bk.GetSupplyWithOffset(ctx, w.bond).Amount)}
	for i, n := range w.vals {
		if v, err := stk.GetValidator(ctx, w.valAddrs[i]); err == nil {
			doc.VTok[n] = apphelp.BigI(v.Tokens)
		}
	}
	doc.ModSF = apphelp.BigI(bk.GetBalance(ctx, w.App.AccountKeeper.GetModuleAddress(sftypes.ModuleName), w.bond).Amount)
	func() {
		defer func() {
			if r := recover(); r != nil {
				doc.InvBad = 2
			}
		}()
		if _, broken := sfkeeper.AllInvariants(*sk)(ctx); broken {
			doc.InvBad = 1
		}
	}()
	doc.Epoch = w.App.EpochsKeeper.GetEpochInfo(ctx, sfEpoch).CurrentEpoch
	return doc
}

// ---------------------------------------------------------------------------
// calls

type call struct {
	A   string `json:"a"`
	O   string `json:"o"`
	D   string `json:"d"`
	X   int64  `json:"x"`
	Amt int64  `json:"amt"`
	ID  uint64 `json:"id"`
	V   string `json:"v"`
	Y   int64  `json:"y"` // second amount (CL positions: the non-OSMO side; swaps: direction)
}

type outcome struct {
	OK       bool   `json:"ok"`
	Panicked bool   `json:"panicked,omitempty"`
	Err      string `json:"err,omitempty"`
	RID      uint64 `json:"rid"`
	Tick     bool   `json:"tick"`
}

func fromApp(o apphelp.Outcome) outcome {
	return outcome{OK: o.OK, Panicked: o.Panicked, Err: o.Err}
}

func unpack(res *sdk.Result, into interface{ Unmarshal([]byte) error }) {
	if res == nil || len(res.MsgResponses) == 0 {
		if res != nil && len(res.Data) > 0 {
			must(into.Unmarshal(res.Data))
			return
		}
		panic("no message response")
	}
	must(into.Unmarshal(res.MsgResponses[0].Value))
}

func (w *world) coins(d string, n int64) sdk.Coins {
	if n == 0 {
		return sdk.Coins{}
	}
	return sdk.Coins{sdk.Coin{Denom: d, Amount: w.base(d, n)}}
}

// block: a new block dt seconds later; the whole application's begin blockers run (epochs tick
// there, and superfluid's AfterEpochStartBeginBlock with them).
func (w *world) block(dt int64) outcome {
	before := w.App.EpochsKeeper.GetEpochInfo(w.Ctx, sfEpoch).CurrentEpoch
	nt := w.Ctx.BlockTime().Add(time.Duration(dt) * time.Second)
	v, err := w.App.StakingKeeper.GetValidator(w.Ctx, w.valAddrs[0])
	must(err)
	cons, err := v.GetConsAddr()
	must(err)
	h := w.Ctx.BlockHeight() + 1
	// the distribution module pays fees out every 50th block only: when fees are waiting, this block is the next such one
	if fc := w.App.AccountKeeper.GetModuleAddress("fee_collector"); w.App.BankKeeper.GetBalance(w.Ctx, fc, w.bond).IsPositive() {
		h = (h/50 + 1) * 50
	}
	w.Ctx = w.Ctx.WithBlockTime(nt).WithBlockHeight(h).WithBlockHeader(cmtproto.Header{Height: h, Time: nt}).
		WithVoteInfos([]abci.VoteInfo{{Validator: abci.Validator{Address: cons, Power: 1}, BlockIdFlag: cmtproto.BlockIDFlagCommit}})
	out := fromApp(w.Try(func(ctx sdk.Context) error {
		_, err := w.App.BeginBlocker(ctx)
		return err
	}))
	out.Tick = w.App.EpochsKeeper.GetEpochInfo(w.Ctx, sfEpoch).CurrentEpoch != before
	return out
}

func (w *world) exec(c call) outcome {
	lk := w.App.LockupKeeper
	switch c.A {
	case "lock":
		res, o := w.Msg(lockuptypes.NewMsgLockTokens(w.addr(c.O), time.Duration(c.X)*time.Second, w.coins(c.D, c.Amt)))
		out := fromApp(o)
		if out.OK {
			var r lockuptypes.MsgLockTokensResponse
			unpack(res, &r)
			out.RID = r.ID
		}
		return out
	case "add":
		return fromApp(w.Try(func(ctx sdk.Context) error {
			_, err := lk.AddTokensToLockByID(ctx, c.ID, w.addr(c.O), sdk.NewCoin(c.D, w.base(c.D, c.Amt)))
			return err
		}))
	case "sfdelegate":
		_, o := w.Msg(sftypes.NewMsgSuperfluidDelegate(w.addr(c.O), c.ID, w.val(c.V)))
		return fromApp(o)
	case "sfundelegate":
		_, o := w.Msg(sftypes.NewMsgSuperfluidUndelegate(w.addr(c.O), c.ID))
		return fromApp(o)
	case "sfunbond":
		_, o := w.Msg(sftypes.NewMsgSuperfluidUnbondLock(w.addr(c.O), c.ID))
		return fromApp(o)
	case "sfundelunbond":
		res, o := w.Msg(sftypes.NewMsgSuperfluidUndelegateAndUnbondLock(w.addr(c.O), c.ID, sdk.NewCoin(c.D, w.base(c.D, c.Amt))))
		out := fromApp(o)
		if out.OK {
			var r sftypes.MsgSuperfluidUndelegateAndUnbondLockResponse
			unpack(res, &r)
			out.RID = r.LockId
		}
		return out
	case "locksfdelegate":
		res, o := w.Msg(sftypes.NewMsgLockAndSuperfluidDelegate(w.addr(c.O), w.coins(c.D, c.Amt), w.val(c.V)))
		out := fromApp(o)
		if out.OK {
			var r sftypes.MsgLockAndSuperfluidDelegateResponse
			unpack(res, &r)
			out.RID = r.ID
		}
		return out
	case "clcreate":
		coins := sdk.NewCoins(sdk.NewInt64Coin(w.bond, c.Amt), sdk.NewInt64Coin(w.other[c.D], c.Y))
		res, o := w.Msg(sftypes.NewMsgCreateFullRangePositionAndSuperfluidDelegate(w.addr(c.O), coins, w.val(c.V).String(), w.poolID[c.D]))
		out := fromApp(o)
		if out.OK {
			var r sftypes.MsgCreateFullRangePositionAndSuperfluidDelegateResponse
			unpack(res, &r)
			out.RID = r.LockID
			w.posOf[r.LockID] = r.PositionID
		}
		return out
	case "cladd":
		pos := w.posOf[c.ID]
		if pos == 0 {
			pos = 1 // the pool creator's unlocked position: refused
		}
		res, o := w.Msg(&sftypes.MsgAddToConcentratedLiquiditySuperfluidPosition{PositionId: pos, Sender: w.addr(c.O).String(),
			TokenDesired0: sdk.NewInt64Coin(w.bond, c.Amt), TokenDesired1: sdk.NewInt64Coin(w.other[c.D], c.Y)})
		out := fromApp(o)
		if out.OK {
			var r sftypes.MsgAddToConcentratedLiquiditySuperfluidPositionResponse
			unpack(res, &r)
			out.RID = r.LockId
			w.posOf[r.LockId] = r.PositionId
		}
		return out
	case "begin":
		res, o := w.Msg(lockuptypes.NewMsgBeginUnlocking(w.addr(c.O), c.ID, w.coins(c.D, c.Amt)))
		out := fromApp(o)
		if out.OK {
			var r lockuptypes.MsgBeginUnlockingResponse
			unpack(res, &r)
			out.RID = r.UnlockingLockID
		}
		return out
	case "beginall":
		_, o := w.Msg(lockuptypes.NewMsgBeginUnlockingAll(w.addr(c.O)))
		return fromApp(o)
	case "extend":
		_, o := w.Msg(lockuptypes.NewMsgExtendLockup(w.addr(c.O), c.ID, time.Duration(c.X)*time.Second))
		return fromApp(o)
	case "force": // MsgForceUnlock of the whole lock (owners on the module's parameter list only)
		_, o := w.Msg(lockuptypes.NewMsgForceUnlock(w.addr(c.O), c.ID, sdk.Coins{}))
		return fromApp(o)
	case "unlock":
		return fromApp(w.Try(func(ctx sdk.Context) error { return lk.UnlockMaturedLock(ctx, c.ID) }))
	case "endblock":
		return fromApp(w.Try(func(ctx sdk.Context) error {
			lockupmodule.EndBlocker(ctx.WithBlockHeight(ctx.BlockHeight()/120*120), *lk)
			return nil
		}))
	case "swap":
		in, out := w.other[c.D], w.bond
		if c.Y == 1 {
			in, out = out, in
		}
		// c.Amt > 1: the same swap repeated c.Amt times in one call (a price crash / recovery by orders of
		// magnitude: classic pools refuse more than half a reserve per swap); stops at the first refusal
		return fromApp(w.Try(func(ctx sdk.Context) error {
			for i := int64(0); i == 0 || i < c.Amt; i++ {
				bal := w.App.BankKeeper.GetBalance(ctx, w.trader, in).Amount
				pool, err := w.App.PoolManagerKeeper.GetPool(ctx, w.poolID[c.D])
				if err != nil {
					return err
				}
				pb := w.App.BankKeeper.GetBalance(ctx, pool.GetAddress(), in).Amount
				amt := pb.MulRaw(c.X).QuoRaw(1000) // X per mille of what the pool holds of the token going in
				if amt.GT(bal) {
					amt = bal
				}
				if !amt.IsPositive() {
					if i > 0 {
						return nil
					}
					return fmt.Errorf("nothing to swap")
				}
				_, _, err = w.App.PoolManagerKeeper.SwapExactAmountIn(ctx, w.trader, w.poolID[c.D], sdk.NewCoin(in, amt), out, osmomath.ZeroInt())
				if err != nil {
					if i > 0 {
						return nil
					}
					return err
				}
			}
			return nil
		}))
	case "fund":
		// fees arriving in the fee collector: paid out to validators and their delegators (the intermediary
		// accounts among them) by the distribution module at the next block
		return fromApp(w.Try(func(ctx sdk.Context) error {
			return banktestutil.FundModuleAccount(ctx, w.App.BankKeeper, "fee_collector", sdk.NewCoins(sdk.NewInt64Coin(w.bond, c.Amt)))
		}))
	case "jail", "unjail":
		// the validator is jailed (a liveness fault: no slash) / released.  Nothing the property speaks of moves:
		// locks delegated through it stay delegated, their worth keeps being staked with it
		return fromApp(w.Try(func(ctx sdk.Context) error {
			v, err := w.App.StakingKeeper.GetValidator(ctx, w.val(c.V))
			if err != nil {
				return err
			}
			cons, err := v.GetConsAddr()
			if err != nil {
				return err
			}
			if c.A == "jail" {
				if v.IsJailed() {
					return fmt.Errorf("already jailed")
				}
				return w.App.StakingKeeper.Jail(ctx, cons)
			}
			if !v.IsJailed() {
				return fmt.Errorf("not jailed")
			}
			return w.App.StakingKeeper.Unjail(ctx, cons)
		}))
	case "block":
		return w.block(c.X)
	}
	panic("unknown call " + c.A)
}

// ---------------------------------------------------------------------------
// random histories

type recorder struct {
	w      *world
	rng    *rand.Rand
	tw     *tracelog.Writer
	st     stateDoc
	sf     sfDoc
	script []call // scripted calls still to be issued (crashScript)
}

func (r *recorder) observe(head map[string]any) {
	ctx := r.w.Ctx
	r.st = r.w.project(ctx)
	r.sf = r.w.projectSF(ctx)
	head["st"] = r.st
	head["sf"] = r.sf
	r.tw.Emit(head)
}

func (r *recorder) pick(pred func(l lockSt) bool) (lockSt, bool) {
	c := []lockSt{}
	for _, l := range r.st.Locks {
		if pred == nil || pred(l) {
			c = append(c, l)
		}
	}
	if len(c) == 0 {
		return lockSt{}, false
	}
	return c[r.rng.Intn(len(c))], true
}

func lockDenom(l lockSt) string {
	ks := []string{}
	for d, v := range l.C {
		if v > 0 {
			ks = append(ks, d)
		}
	}
	sort.Strings(ks)
	if len(ks) == 0 {
		return ""
	}
	return ks[0]
}

func (r *recorder) randOwner() string { return r.w.names[r.rng.Intn(len(r.w.names))] }
func (r *recorder) randVal() string   { return r.w.vals[r.rng.Intn(len(r.w.vals))] }
func (r *recorder) gammDenom() string {
	g := []string{}
	for _, d := range r.w.denoms {
		if !r.w.isCL[d] {
			g = append(g, d)
		}
	}
	return g[r.rng.Intn(len(g))]
}
func (r *recorder) clDenom() string {
	for _, d := range r.w.denoms {
		if r.w.isCL[d] {
			return d
		}
	}
	return ""
}

func (r *recorder) connected(id uint64) bool {
	for _, c := range r.sf.Conn {
		if c.ID == id {
			return true
		}
	}
	return false
}

func (r *recorder) marker(id uint64) string {
	for _, s := range r.sf.Synth {
		if s.ID == id {
			return s.K
		}
	}
	return ""
}

// amount: a lock size spread over the magnitudes the owner can afford
func (r *recorder) amount(o, d string) int64 {
	b := r.st.Bal[o][d]
	if b <= 0 {
		return 1
	}
	switch r.rng.Intn(12) {
	case 0:
		return b
	case 1:
		return b + 1 + r.rng.Int63n(5)
	case 2:
		return 1 + r.rng.Int63n(3)
	}
	mags := []int64{10, 1_000, 100_000, 10_000_000, 1_000_000_000}
	m := mags[r.rng.Intn(len(mags))]
	if m > b {
		m = b
	}
	return 1 + r.rng.Int63n(m)
}

func (r *recorder) durations() []int64 {
	u := r.w.unbond
	return []int64{u, u, u, u, u + 1, 2 * u, u / 2, u - 1}
}

func (r *recorder) nextBoundary() int64 {
	e := r.w.App.EpochsKeeper.GetEpochInfo(r.w.Ctx, sfEpoch)
	return secs(e.CurrentEpochStartTime) + r.w.epochDur
}

// crashScript: the price of one superfluid denom falls by orders of magnitude, an epoch refresh sees it
// (small delegations round to zero and are undelegated in full), the price recovers, and the next refresh must
// stake the still-delegated locks again.  Regular random calls are interleaved between the scripted ones.
func (r *recorder) crashScript() []call {
	d := r.w.denoms[r.rng.Intn(len(r.w.denoms))]
	n := []int64{6, 12, 25, 40}[r.rng.Intn(4)]
	x := int64(450)
	if r.w.isCL[d] {
		x = 150
	}
	return []call{{A: "swap", D: d, Y: 0, X: x, Amt: n}, {A: "block", X: -1}, {A: "swap", D: d, Y: 1, X: x, Amt: n}, {A: "block", X: -1},
		{A: "block", X: -1}}
}

func (r *recorder) nextCall() call {
	rng := r.rng
	if len(r.script) > 0 && rng.Intn(3) > 0 {
		c := r.script[0]
		r.script = r.script[1:]
		if c.A == "block" && c.X < 0 { // onto the next epoch boundary
			c.X = r.nextBoundary() - r.st.Now + int64(rng.Intn(3))
			if c.X < 1 {
				c.X = 1
			}
		}
		return c
	}
	free := func(l lockSt) bool { return r.marker(l.ID) == "" && l.End == 0 }
	deleg := func(l lockSt) bool { return r.connected(l.ID) }
	undel := func(l lockSt) bool { return r.marker(l.ID) == "U" }
	x := rng.Intn(100)
	if len(r.st.Locks) >= maxLocks && x < 30 {
		x = 30 + rng.Intn(70)
	}
	hasCL := r.clDenom() != ""
	switch {
	case x < 10: // MsgLockTokens: a new lock, or more tokens into an existing (possibly delegated) one
		o, d := r.randOwner(), r.gammDenom()
		ds := r.durations()
		c := call{A: "lock", O: o, D: d, X: ds[rng.Intn(len(ds))], Amt: r.amount(o, d)}
		if l, ok := r.pick(func(l lockSt) bool { return deleg(l) && !r.w.isCL[lockDenom(l)] }); ok && rng.Intn(2) == 0 { // top up a delegated lock
			c.O, c.D, c.X = l.O, lockDenom(l), l.Dur
			c.Amt = r.amount(c.O, c.D)
		}
		return c
	case x < 14: // keeper AddTokensToLockByID
		l, ok := r.pick(func(l lockSt) bool { return !r.w.isCL[lockDenom(l)] })
		if !ok {
			return call{A: "add", O: r.randOwner(), D: r.gammDenom(), Amt: 1, ID: r.st.LastID + 1}
		}
		c := call{A: "add", O: l.O, D: lockDenom(l), ID: l.ID}
		c.Amt = r.amount(c.O, c.D)
		if rng.Intn(12) == 0 {
			c.O = r.randOwner()
		}
		return c
	case x < 22: // MsgLockAndSuperfluidDelegate
		o, d := r.randOwner(), r.gammDenom()
		c := call{A: "locksfdelegate", O: o, D: d, Amt: r.amount(o, d), V: r.randVal()}
		if rng.Intn(15) == 0 {
			c.V = "nobody"
		}
		return c
	case x < 34: // MsgSuperfluidDelegate
		l, ok := r.pick(free)
		if !ok || rng.Intn(5) == 0 {
			l, ok = r.pick(nil) // delegated already / undelegating / unlocking / too short: refused
		}
		if !ok {
			return call{A: "sfdelegate", O: r.randOwner(), ID: r.st.LastID + 1, V: r.randVal()}
		}
		c := call{A: "sfdelegate", O: l.O, ID: l.ID, V: r.randVal(), D: lockDenom(l)}
		switch rng.Intn(20) {
		case 0:
			c.O = r.randOwner()
		case 1:
			c.V = "nobody"
		}
		return c
	case x < 43: // MsgSuperfluidUndelegate
		l, ok := r.pick(deleg)
		if !ok || rng.Intn(8) == 0 {
			l, ok = r.pick(nil)
		}
		if !ok {
			return call{A: "sfundelegate", O: r.randOwner(), ID: r.st.LastID + 1}
		}
		c := call{A: "sfundelegate", O: l.O, ID: l.ID, D: lockDenom(l)}
		if rng.Intn(15) == 0 {
			c.O = r.randOwner()
		}
		return c
	case x < 50: // MsgSuperfluidUnbondLock
		l, ok := r.pick(func(l lockSt) bool { return undel(l) && l.End == 0 })
		if !ok || rng.Intn(6) == 0 {
			l, ok = r.pick(nil)
		}
		if !ok {
			return call{A: "sfunbond", O: r.randOwner(), ID: r.st.LastID + 1}
		}
		c := call{A: "sfunbond", O: l.O, ID: l.ID, D: lockDenom(l)}
		if rng.Intn(15) == 0 {
			c.O = r.randOwner()
		}
		return c
	case x < 59: // MsgSuperfluidUndelegateAndUnbondLock: part (split) / all / too much / nothing
		l, ok := r.pick(deleg)
		if !ok || rng.Intn(10) == 0 {
			l, ok = r.pick(nil)
		}
		if !ok {
			return call{A: "sfundelunbond", O: r.randOwner(), D: r.gammDenom(), Amt: 1, ID: r.st.LastID + 1}
		}
		d := lockDenom(l)
		c := call{A: "sfundelunbond", O: l.O, D: d, ID: l.ID}
		switch y := rng.Intn(20); {
		case y < 11 && l.C[d] > 1:
			c.Amt = 1 + rng.Int63n(l.C[d]-1)
		case y < 15:
			c.Amt = l.C[d]
		case y == 15:
			c.Amt = l.C[d] + 1
		case y == 16:
			c.Amt = 0
		case y == 17:
			c.O = r.randOwner()
			c.Amt = l.C[d]
		case y == 18 && l.C[d] > 1:
			c.Amt = l.C[d] - 1
		default:
			c.Amt = 1
		}
		return c
	case x < 64 && hasCL: // MsgCreateFullRangePositionAndSuperfluidDelegate / MsgAddToConcentratedLiquiditySuperfluidPosition
		clLock := func(l lockSt) bool { return r.w.isCL[lockDenom(l)] && (deleg(l) || rng.Intn(4) == 0) }
		if l, ok := r.pick(clLock); ok && rng.Intn(5) < 2 {
			// top up the position behind a lock: delegated ones work, undelegating / unlocking ones are refused
			c := call{A: "cladd", O: l.O, D: lockDenom(l), ID: l.ID}
			mag := []int64{100, 10_000, 1_000_000, 20_000_000}[rng.Intn(4)]
			c.Amt, c.Y = 1+rng.Int63n(mag), 1+rng.Int63n(mag)
			if rng.Intn(12) == 0 {
				c.O = r.randOwner()
			}
			return c
		}
		c := call{A: "clcreate", O: r.randOwner(), D: r.clDenom(), V: r.randVal()}
		mag := []int64{100, 10_000, 1_000_000, 50_000_000}[rng.Intn(4)]
		c.Amt = 1 + rng.Int63n(mag)
		c.Y = 1 + rng.Int63n(mag)
		if rng.Intn(15) == 0 {
			c.V = "nobody"
		}
		return c
	case x < 70: // MsgBeginUnlocking on anything: refused while a marker exists
		l, ok := r.pick(func(l lockSt) bool { return l.End == 0 })
		if !ok {
			return call{A: "begin", O: r.randOwner(), D: r.gammDenom(), ID: r.st.LastID + 1}
		}
		d := lockDenom(l)
		c := call{A: "begin", O: l.O, D: d, ID: l.ID}
		if rng.Intn(3) == 0 && l.C[d] > 1 {
			c.Amt = 1 + rng.Int63n(l.C[d]-1)
		}
		return c
	case x < 71:
		return call{A: "beginall", O: r.randOwner()}
	case x < 73: // MsgExtendLockup: refused while a marker exists
		l, ok := r.pick(func(l lockSt) bool { return l.End == 0 })
		if !ok {
			return call{A: "extend", O: r.randOwner(), ID: r.st.LastID + 1, X: 3}
		}
		return call{A: "extend", O: l.O, ID: l.ID, X: l.Dur + 1 + rng.Int63n(20)}
	case x < 77: // keeper UnlockMaturedLock: only on locks without markers, or before maturity (refused)
		l, ok := r.pick(func(l lockSt) bool { return r.marker(l.ID) == "" || l.End == 0 || l.End > r.st.Now })
		if !ok {
			return call{A: "unlock", ID: r.st.LastID + 1}
		}
		return call{A: "unlock", ID: l.ID}
	case x < 82: // lockup EndBlocker: matured markers deleted, matured locks paid out
		return call{A: "endblock"}
	case x < 88: // a swap moves the pool (the stored multiplier does not move)
		d := r.w.denoms[rng.Intn(len(r.w.denoms))]
		c := call{A: "swap", D: d, Y: int64(rng.Intn(2))}
		c.X = []int64{1, 5, 30, 150, 400}[rng.Intn(5)]
		if r.w.isCL[d] && c.X > 150 {
			c.X = 150
		}
		return c
	case x < 90 && rng.Intn(4) == 0: // MsgForceUnlock by the lock's owner: the first owner is on the parameter list, the others are not
		l, ok := r.pick(func(l lockSt) bool { return l.O == r.w.names[0] })
		if !ok || rng.Intn(5) == 0 {
			l, ok = r.pick(nil)
		}
		if ok {
			return call{A: "force", O: l.O, D: lockDenom(l), ID: l.ID}
		}
		return call{A: "fund", Amt: 1 + rng.Int63n(5_000_000)}
	case x < 90: // fees arrive; or a validator other than the block signer is jailed (no slash) / released
		if len(r.w.vals) > 1 && rng.Intn(3) == 0 {
			return call{A: []string{"jail", "jail", "unjail"}[rng.Intn(3)], V: r.w.vals[1+rng.Intn(len(r.w.vals)-1)]}
		}
		return call{A: "fund", Amt: 1 + rng.Int63n(5_000_000)}
	case x < 94: // a block inside the epoch: one second, or right onto the next marker / lock end
		c := call{A: "block", X: 1 + rng.Int63n(5)}
		if rng.Intn(2) == 0 {
			next := int64(-1)
			for _, s := range r.sf.Synth {
				if s.End > r.st.Now && (next < 0 || s.End < next) {
					next = s.End
				}
			}
			for _, l := range r.st.Locks {
				if l.End > r.st.Now && (next < 0 || l.End < next) {
					next = l.End
				}
			}
			if next >= 0 {
				c.X = next - r.st.Now + int64(rng.Intn(3)) - 1
			}
			if c.X < 0 {
				c.X = 0
			}
		}
		return c
	default: // a block that crosses the epoch boundary
		c := call{A: "block", X: r.nextBoundary() - r.st.Now + int64(rng.Intn(4))}
		if c.X < 1 {
			c.X = 1
		}
		return c
	}
}

func TestRecord(t *testing.T) {
	out := os.Getenv("VERIF_OUT")
	if out == "" {
		t.Skip("VERIF_OUT not set")
	}
	seed := tracelog.EnvInt("VERIF_SEED", 1)
	nh := int(tracelog.EnvInt("VERIF_HISTORIES", 4))
	nops := int(tracelog.EnvInt("VERIF_OPS", 150))
	rng := rand.New(rand.NewSource(seed))
	tw, err := tracelog.NewWriter(out)
	if err != nil {
		t.Fatal(err)
	}
	counts := map[string]int{}
	for h := 0; h < nh; h++ {
		cfg := randomConfig(rng)
		w := newWorld(t, cfg)
		r := &recorder{w: w, rng: rng, tw: tw}
		units := map[string]tracelog.Big{}
		cls := []string{}
		for _, d := range w.denoms {
			units[d] = apphelp.BigI(w.unit[d])
			if w.isCL[d] {
				cls = append(cls, d)
				counts["history:cl"]++
			}
		}
		counts[fmt.Sprintf("history:gamm%d", cfg.Gamm)]++
		// the first owner may force-unlock its locks (lockup parameter ForceUnlockAllowedAddresses, set by governance)
		lp := w.App.LockupKeeper.GetParams(w.Ctx)
		lp.ForceUnlockAllowedAddresses = []string{w.addr(w.names[0]).String()}
		w.App.LockupKeeper.SetParams(w.Ctx, lp)
		r.observe(map[string]any{"e": "cfg", "a": "init", "owners": w.names, "vals": w.vals, "denoms": w.denoms, "cl": cls, "allowed": []string{w.names[0]},
			"unbond": w.unbond, "epochdur": w.epochDur, "risk": apphelp.BigD(w.risk), "unit": units, "seed": seed, "h": h, "config": cfg})
		epochs := 0
		zeroed := map[string]bool{}
		jailed := map[string]bool{}
		crashAt := -1
		if h%2 == 1 {
			crashAt = nops/6 + rng.Intn(nops/2+1)
		}
		for i := 0; i < nops; i++ {
			if i == crashAt {
				r.script = r.crashScript()
				counts["history:crash-script"]++
			}
			c := r.nextCall()
			nconnBefore := len(r.sf.Conn)
			o := w.exec(c)
			key := c.A
			if c.A == "block" && o.Tick {
				key = "epoch"
				epochs++
			}
			if !o.OK {
				key += ":refused"
				if strings.Contains(o.Err, "invalid shares amount") || strings.Contains(o.Err, "not enough delegation shares") {
					counts["info:"+c.A+":more-than-staked"]++
				}
			}
			counts[key]++
			if o.OK {
				switch {
				case c.A == "sfundelunbond" && o.RID != c.ID:
					counts["sfundelunbond:split"]++
				case (c.A == "lock" || c.A == "add") && r.connected(c.ID|o.RID):
					counts["topup:delegated"]++
					for _, cn := range r.sf.Conn {
						if cn.ID == c.ID|o.RID && jailed[cn.V] {
							counts["topup:delegated-to-jailed"]++
						}
					}
				case c.A == "jail":
					jailed[c.V] = true
				case c.A == "unjail":
					jailed[c.V] = false
				case c.A == "begin" && o.RID != c.ID:
					counts["begin:split"]++
				}
			} else {
				switch {
				case c.A == "begin" && r.connected(c.ID):
					counts["begin:refused:delegated"]++
				case c.A == "begin" && r.marker(c.ID) == "U":
					counts["begin:refused:undelegating"]++
				case c.A == "unlock" && r.marker(c.ID) == "U":
					counts["unlock:refused:undelegating"]++
				case c.A == "extend" && r.marker(c.ID) != "":
					counts["extend:refused:held"]++
				case c.A == "force" && r.marker(c.ID) == "U" && c.O == w.names[0]:
					counts["force:refused:undelegating"]++
				case c.A == "force" && r.marker(c.ID) == "B" && c.O == w.names[0]:
					counts["force:refused:delegated"]++
				}
			}
			r.observe(map[string]any{"e": "op", "a": c.A, "o": c.O, "d": c.D, "x": c.X, "amt": c.Amt, "id": c.ID, "v": c.V, "y": c.Y,
				"ok": o.OK, "panicked": o.Panicked, "err": o.Err, "rid": o.RID, "tick": o.Tick})
			if c.A == "endblock" && len(r.sf.Conn) != nconnBefore {
				counts["info:endblock-changed-connections"]++
			}
			for _, ia := range r.sf.IAs {
				if ia.Frac != 0 {
					counts["info:fractional-delegation"]++
				}
				// an epoch refresh that left an account carrying locks without any stake (their value rounded to
				// zero), and a later refresh that staked such an account again
				k := ia.D + "|" + ia.V
				if key == "epoch" && ia.N > 0 && ia.Deleg.S == 0 {
					counts["refresh:locks-worth-zero"]++
					zeroed[k] = true
				} else if key == "epoch" && ia.N > 0 && ia.Deleg.S > 0 && zeroed[k] {
					counts["refresh:restaked-from-zero"]++
					delete(zeroed, k)
				} else if ia.N == 0 {
					delete(zeroed, k)
				}
			}
			if r.sf.InvBad != 0 {
				counts["info:module-invariant-broken"]++
			}
		}
		counts[fmt.Sprintf("history:epochs>=%d", min(epochs/5*5, 20))]++
	}
	if err := tw.Close(); err != nil {
		t.Fatal(err)
	}
	bz, _ := json.Marshal(counts)
	fmt.Printf("RECORDED events=%d histories=%d counts=%s\n", tw.N, nh, bz)
}
