package txfees

import (
	"bufio"
	"encoding/json"
	"fmt"
	"math/big"
	"os"
	"reflect"
	"runtime"
	"runtime/pprof"
	"sort"
	"strings"
	"testing"

	"github.com/osmosis-labs/osmosis/osmomath"

	"verif/harness/tracelog"
)

// A behaviour of the bounded model MCTxFees.  Model denominations o (base), f, g, z; a model gas unit is 10^6
// units of gas; a model price p is p / (2 * 10^6) base units per unit of gas; amounts are what they are.
type mCoin struct {
	D string `json:"d"`
	X int64  `json:"x"`
}
type mTx struct {
	Who  []string `json:"who"`
	Fee  []mCoin  `json:"fee"`
	Gas  int64    `json:"gas"`
	Arb  bool     `json:"arb"`
	Sig  string   `json:"sig"`
	Exec string   `json:"exec"`
}
type mFt struct {
	D string `json:"d"`
	P int    `json:"p"`
}
type mState struct {
	Reg  map[string]int              `json:"reg"`
	Bal  map[string]map[string]int64 `json:"bal"`
	Chk  map[string]map[string]int64 `json:"chk"`
	Sent map[string]int              `json:"sent"`
}
type mStep struct {
	E    string  `json:"e"`
	Fts  []mFt   `json:"fts"`
	By   string  `json:"by"`
	OK   bool    `json:"ok"`
	P    int     `json:"p"`
	Q    []int64 `json:"q"`
	Mode string  `json:"mode"`
	Tx   mTx     `json:"tx"`
	Res  string  `json:"res"`
	Coin mCoin   `json:"coin"`
	W    int64   `json:"w"`
	St   mState  `json:"st"`
}
type mQuote struct {
	D string `json:"d"`
	N int64  `json:"n"`
	M int64  `json:"m"`
}
type mPool struct {
	Id     int      `json:"id"`
	Denoms []string `json:"denoms"`
	Q      []mQuote `json:"q"`
}
type mConf struct {
	Denoms  []string `json:"denoms"`
	Payers  []string `json:"payers"`
	Setters []string `json:"setters"`
	Min     int64    `json:"min"`
	Arb     int64    `json:"arb"`
	High    int64    `json:"high"`
	Cmin    int64    `json:"cmin"`
	Hthr    int64    `json:"hthr"`
	MaxGas  int64    `json:"maxgas"`
}
type behaviour struct {
	Family string                      `json:"family"`
	Cf     mConf                       `json:"cf"`
	Bal0   map[string]map[string]int64 `json:"bal0"`
	Pools0 []mPool                     `json:"pools0"`
	Steps  []mStep                     `json:"steps"`
}

type mismatch struct {
	Behaviour int    `json:"behaviour"`
	Step      int    `json:"step"`
	What      string `json:"what"`
	Want      any    `json:"want"`
	Got       any    `json:"got"`
}

var denomOf = map[string]string{"o": "uosmo", "f": "ufa", "g": "ufb", "z": "ufz"}

const (
	gasUnit  = 1_000_000
	resScale = 1_000_000_000
)

func mPrice(p int64) osmomath.Dec {
	return osmomath.NewDec(p).Quo(osmomath.NewDec(2 * gasUnit))
}

type replayer struct {
	*world
	poolOf map[int]*poolT // model id -> real pool
	specId map[uint64]int
	mden   map[string]string // real denom -> model denom
	pend   map[string][]byte // model transaction -> signed bytes of the first CheckTx that let it in
}

func (rp *replayer) realPool(p int) int {
	if p == 0 {
		return 0
	}
	if rp.poolOf[p] == nil {
		return noPool
	}
	return int(rp.poolOf[p].Id)
}

func (rp *replayer) fts(xs []mFt) []ftJ {
	res := []ftJ{}
	for _, x := range xs {
		res = append(res, ftJ{D: denomOf[x.D], P: rp.realPool(x.P)})
	}
	return res
}

func (rp *replayer) tx(t mTx) txJ {
	r := txJ{Who: t.Who, Fee: []coinJ{}, Gas: bigI(t.Gas * gasUnit), Arb: t.Arb, Sig: t.Sig, Exec: t.Exec}
	for _, c := range t.Fee {
		r.Fee = append(r.Fee, coinJ{D: denomOf[c.D], X: bigI(c.X)})
	}
	return r
}

func (rp *replayer) begin(b behaviour, salt string) {
	den := []string{}
	rp.mden = map[string]string{}
	for _, d := range b.Cf.Denoms {
		den = append(den, denomOf[d])
		rp.mden[denomOf[d]] = d
	}
	sort.Strings(den)
	bal := map[string]map[string]*big.Int{}
	for _, a := range b.Cf.Payers {
		bal[a] = map[string]*big.Int{}
		for d, x := range b.Bal0[a] {
			bal[a][denomOf[d]] = big.NewInt(x)
		}
	}
	specs := []poolSpec{}
	for _, p := range b.Pools0 {
		ps := poolSpec{}
		for _, d := range p.Denoms {
			r := int64(1)
			for _, q := range p.Q { // quote n / m of d in base units: base reserve n, reserve of d m
				if d == "o" {
					r = q.N
				} else if q.D == d {
					r = q.M
				}
			}
			ps.Denoms = append(ps.Denoms, denomOf[d])
			ps.Res = append(ps.Res, big.NewInt(r*resScale))
			ps.Weights = append(ps.Weights, 1)
		}
		specs = append(specs, ps)
	}
	rp.world.begin(salt, den, b.Cf.Payers, b.Cf.Setters, bal, specs)
	rp.poolOf, rp.specId = map[int]*poolT{}, map[uint64]int{}
	for i, p := range b.Pools0 {
		rp.poolOf[p.Id] = rp.pools[i]
		rp.specId[rp.pools[i].Id] = p.Id
	}
	rp.pend = map[string][]byte{}
}

// project the real state onto the model's
func (rp *replayer) project() mState {
	s := rp.state(false)
	m := mState{Reg: map[string]int{}, Bal: map[string]map[string]int64{}, Chk: map[string]map[string]int64{}, Sent: s.Sent}
	for _, ft := range s.Reg {
		md, ok := rp.mden[ft.D]
		if !ok {
			md = "?" + ft.D
		}
		switch {
		case ft.P == 0:
			m.Reg[md] = 0
		case rp.specId[uint64(ft.P)] != 0:
			m.Reg[md] = rp.specId[uint64(ft.P)]
		default:
			m.Reg[md] = -ft.P
		}
	}
	conv := func(src map[string]map[string]Big, dst map[string]map[string]int64) {
		for a, f := range src {
			dst[a] = map[string]int64{}
			for d, x := range f {
				v := unbig(x)
				if !v.IsInt64() {
					dst[a][rp.mden[d]] = -1 << 62
				} else {
					dst[a][rp.mden[d]] = v.Int64()
				}
			}
		}
	}
	conv(s.Bal, m.Bal)
	conv(s.Chk, m.Chk)
	return m
}

func TestReplay(t *testing.T) {
	in := os.Getenv("VERIF_IN")
	if in == "" {
		t.Skip("VERIF_IN not set")
	}
	f, err := os.Open(in)
	if err != nil {
		t.Fatal(err)
	}
	defer f.Close()
	sc := bufio.NewScanner(f) // (streamed: a shard decodes only its own behaviours)
	sc.Buffer(make([]byte, 1<<20), 1<<28)
	shard, nsh := 0, 1
	if s := os.Getenv("VERIF_SHARD"); s != "" {
		fmt.Sscanf(s, "%d/%d", &shard, &nsh)
	}
	res := struct {
		Behaviours int            `json:"behaviours"`
		Steps      int            `json:"steps"`
		Kinds      map[string]int `json:"kinds"`
		Mismatches []mismatch     `json:"mismatches"`
		Blocks     int            `json:"blocks"`
	}{Kinds: map[string]int{}, Mismatches: []mismatch{}}
	var rp *replayer
	var fam string
	blocks := 0
	for bi := -1; sc.Scan(); {
		if len(sc.Bytes()) == 0 {
			continue
		}
		bi++
		if bi%nsh != shard {
			continue
		}
		var b behaviour
		if err := json.Unmarshal(sc.Bytes(), &b); err != nil {
			t.Fatalf("%s: behaviour %d: %v", in, bi, err)
		}
		if b.Cf.Hthr != 3 {
			t.Fatalf("the model's high-gas threshold must be 3 model gas units (2.5 * 10^6 in the code), got %d", b.Cf.Hthr)
		}
		// a fresh application every few hundred behaviours: the in-memory database keeps every committed version
		if rp == nil || fam != b.Family || res.Behaviours%int(tracelog.EnvInt("VERIF_FRESH", 500)) == 0 {
			o := optsT{Min: mPrice(b.Cf.Min), Arb: mPrice(b.Cf.Arb), High: mPrice(b.Cf.High), Cmin: mPrice(b.Cf.Cmin),
				MaxGas: uint64(b.Cf.MaxGas * gasUnit), Base: denomOf["o"]}
			if rp != nil {
				blocks += rp.blocks
			}
			rp = &replayer{world: newWorld(t, o)}
			fam = b.Family
		}
		rp.begin(b, fmt.Sprintf("rep-%d", bi))
		res.Behaviours++
		bad := func(si int, what string, want, got any) {
			if len(res.Mismatches) < 20 {
				res.Mismatches = append(res.Mismatches, mismatch{Behaviour: bi, Step: si, What: what, Want: want, Got: got})
			}
		}
	steps:
		for si, st := range b.Steps {
			res.Steps++
			key := st.E
			switch st.E {
			case "gov":
				ok, err := rp.gov(rp.fts(st.Fts))
				if ok != st.OK {
					bad(si, "gov: accepted", st.OK, fmt.Sprint(ok, " ", err))
					break steps
				}
				key += fmt.Sprint(":", ok)
			case "setmsg":
				ok, err := rp.setMsg(st.By, rp.fts(st.Fts))
				if ok != st.OK {
					bad(si, "setmsg: accepted", st.OK, fmt.Sprint(ok, " ", err))
					break steps
				}
				key += fmt.Sprint(":", ok)
			case "trade":
				p := rp.poolOf[st.P]
				r := map[string]*big.Int{}
				for _, d := range p.Denoms {
					if d == rp.o.Base {
						r[d] = big.NewInt(st.Q[0] * resScale)
					} else {
						r[d] = big.NewInt(st.Q[1] * resScale)
					}
				}
				rp.setReserves(p, r)
			case "commit":
				rp.commit()
			case "conv":
				o := rp.convert(coinJ{D: denomOf[st.Coin.D], X: bigI(st.Coin.X)})
				if o.OK != st.OK || (o.OK && unbig(o.W).Int64() != st.W) {
					bad(si, "conv: "+st.Coin.D, fmt.Sprint(st.OK, " ", st.W), fmt.Sprint(o.OK, " ", unbig(o.W), " ", o.Err))
					break steps
				}
				if o.SpOK != st.OK && st.Coin.D != "o" {
					bad(si, "spot price: "+st.Coin.D, st.OK, o.SpOK)
					break steps
				}
				key += fmt.Sprint(":", o.OK)
			case "tx":
				tx := rp.tx(st.Tx)
				var out txOut
				switch st.Mode {
				case "deliver":
					out = rp.deliver(tx)
				case "check":
					var bz []byte
					out, bz = rp.check(tx, false)
					if k, _ := json.Marshal(st.Tx); out.Res == "ok" && rp.pend[string(k)] == nil {
						rp.pend[string(k)] = bz
					}
				case "recheck":
					k, _ := json.Marshal(st.Tx)
					if rp.pend[string(k)] == nil {
						bad(si, "recheck: the transaction was never let into the mempool", "a transaction let in earlier", "none")
						break steps
					}
					out = rp.checkBytes(rp.pend[string(k)], true)
				case "sim":
					out = rp.simulate(tx)
				}
				key += ":" + st.Mode + ":" + out.Res
				if st.Res != "any" && out.Res != st.Res {
					bad(si, fmt.Sprintf("tx %s: outcome (fee %v gas %d arb %v sig %s)", st.Mode, st.Tx.Fee, st.Tx.Gas, st.Tx.Arb, st.Tx.Sig), st.Res, out.Res+" "+out.Log)
					break steps
				}
			default:
				t.Fatalf("unknown step %q", st.E)
			}
			res.Kinds[key]++
			got := rp.project()
			switch {
			case !reflect.DeepEqual(got.Reg, st.St.Reg):
				bad(si, st.E+": registry", st.St.Reg, got.Reg)
				break steps
			case !reflect.DeepEqual(got.Bal, st.St.Bal):
				bad(si, strings.TrimSpace(st.E+" "+st.Mode)+": committed ledgers", st.St.Bal, got.Bal)
				break steps
			case !reflect.DeepEqual(got.Chk, st.St.Chk):
				bad(si, strings.TrimSpace(st.E+" "+st.Mode)+": mempool view of the ledgers", st.St.Chk, got.Chk)
				break steps
			case !reflect.DeepEqual(got.Sent, st.St.Sent):
				bad(si, st.E+": messages executed", st.St.Sent, got.Sent)
				break steps
			}
			// R5 on the real queries, against the model's registry
			q := rp.queries()
			nreg := 0
			for md, p := range st.St.Reg {
				d := denomOf[md]
				if p != 0 {
					nreg++
				}
				if q.Pid[d].OK != (p != 0) || (p != 0 && q.Pid[d].P != rp.realPool(p)) || q.Spot[d].OK != (p != 0) || (p != 0 && q.Spot[d].P != rp.realPool(p)) {
					bad(si, "query DenomPoolId / DenomSpotPrice of "+md, p, fmt.Sprint(q.Pid[d], q.Spot[d]))
					break steps
				}
			}
			if len(q.Fts) != nreg || q.Base != rp.o.Base {
				bad(si, "query FeeTokens / BaseDenom", nreg, fmt.Sprint(q.Fts, q.Base))
				break steps
			}
		}
	}
	if err := sc.Err(); err != nil {
		t.Fatalf("%s: %v", in, err)
	}
	if rp != nil {
		res.Blocks = blocks + rp.blocks
	}
	if hp := os.Getenv("VERIF_HEAP"); hp != "" { // triage of memory growth
		runtime.GC()
		if f, err := os.Create(hp); err == nil {
			pprof.WriteHeapProfile(f)
			f.Close()
		}
	}
	bz, _ := json.Marshal(res)
	if out := os.Getenv("VERIF_OUT"); out != "" {
		if err := os.WriteFile(out, bz, 0o644); err != nil {
			t.Fatal(err)
		}
	}
	fmt.Printf("replayed %d behaviours, %d steps, %d mismatches\n", res.Behaviours, res.Steps, len(res.Mismatches))
}
