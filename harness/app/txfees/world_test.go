// Package txfees binds the real x/txfees module - governance handler and message
// server of the fee-token registry, gRPC queries, ConvertToBaseToken /
// CalcFeeSpotPrice, and the mempool-fee and deduct-fee ante decorators as they are
// wired into the application's baseapp - to spec/TxFees.tla (extra check X07).
//
// Transactions are real signed transactions: CheckTx / RecheckTx through
// BaseApp.CheckTx, block execution through FinalizeBlock(Txs) + Commit, simulation
// through BaseApp.Simulate.  The application is built with its own node options
// (min gas prices, arbitrage / high-gas price, maximum gas) per history.
package txfees

import (
	"encoding/json"
	"fmt"
	"math/big"
	"math/rand"
	"os"
	"path/filepath"
	"sort"
	"strings"
	"testing"
	"time"

	"cosmossdk.io/log"
	abci "github.com/cometbft/cometbft/abci/types"
	cmtproto "github.com/cometbft/cometbft/proto/tendermint/types"
	cosmosdb "github.com/cosmos/cosmos-db"
	"github.com/cosmos/cosmos-sdk/baseapp"
	"github.com/cosmos/cosmos-sdk/crypto/keys/secp256k1"
	cryptotypes "github.com/cosmos/cosmos-sdk/crypto/types"
	sims "github.com/cosmos/cosmos-sdk/testutil/sims"
	sdk "github.com/cosmos/cosmos-sdk/types"
	authtypes "github.com/cosmos/cosmos-sdk/x/auth/types"
	banktypes "github.com/cosmos/cosmos-sdk/x/bank/types"
	"github.com/cosmos/cosmos-sdk/x/crisis"
	distrtypes "github.com/cosmos/cosmos-sdk/x/distribution/types"

	"github.com/osmosis-labs/osmosis/osmomath"
	"github.com/osmosis-labs/osmosis/v31/app"
	"github.com/osmosis-labs/osmosis/v31/x/gamm/pool-models/balancer"
	poolmanagertypes "github.com/osmosis-labs/osmosis/v31/x/poolmanager/types"
	mempool1559 "github.com/osmosis-labs/osmosis/v31/x/txfees/keeper/mempool-1559"
	txfeestypes "github.com/osmosis-labs/osmosis/v31/x/txfees/types"

	"verif/harness/apphelp"
	"verif/harness/tracelog"
)

const (
	chainID   = "osmosis-1"
	execDenom = "exec"
	noPool    = 999_999 // a pool id that never exists
)

type Big = tracelog.Big

func bigOf(x *big.Int) Big     { return tracelog.EncBig(x) }
func bigI(x int64) Big         { return tracelog.EncInt64(x) }
func unbig(b Big) *big.Int     { return tracelog.DecBig(b) }
func decRaw(d osmomath.Dec) Big { return tracelog.EncBig(d.BigInt()) }

// node options and chain minimum of a history
type optsT struct {
	Min, Arb, High, Cmin osmomath.Dec
	MaxGas              uint64
	Base                string
}

type acct struct {
	Name string
	Priv cryptotypes.PrivKey
	Addr sdk.AccAddress
}

type poolT struct {
	Id     uint64 // real id
	Denoms []string
}

type world struct {
	*apphelp.World
	t      *testing.T
	o      optsT
	h      int64
	now    time.Time
	denoms []string
	accts  []*acct
	byName map[string]*acct
	pools  []*poolT
	lp     sdk.AccAddress
	sink   sdk.AccAddress
	sent0  int64
	base0  map[string]map[string]*big.Int // baselines of coll / nn / rest per denom (committed view)
	nonce  int64
	salt   string
	nAcct  int
	blocks int
	inPool [][]byte // what CheckTx let into the application's mempool during this history
}

// newWorld builds an application with the given node options, initialises the chain
// with the given base denomination and commits the first block.
func newWorld(t *testing.T, o optsT) *world {
	dir, err := os.MkdirTemp("", "verif-x07-home")
	if err != nil {
		t.Fatal(err)
	}
	t.Cleanup(func() { os.RemoveAll(dir) })
	txfeestypes.ConsensusMinFee = o.Cmin
	ao := sims.AppOptionsMap{crisis.FlagSkipGenesisInvariants: true,
		"osmosis-mempool.max-gas-wanted-per-tx":         fmt.Sprint(o.MaxGas),
		"osmosis-mempool.arbitrage-min-gas-fee":         o.Arb.String(),
		"osmosis-mempool.min-gas-price-for-high-gas-tx": o.High.String(),
		"osmosis-mempool.adaptive-fee-enabled":          "false",
	}
	// (small node caches: a replay process goes through dozens of applications and thousands of blocks)
	bopts := []func(*baseapp.BaseApp){baseapp.SetChainID(chainID), baseapp.SetIAVLCacheSize(2000)}
	if o.Min.IsPositive() {
		bopts = append(bopts, baseapp.SetMinGasPrices(o.Min.String()+o.Base))
	}
	a := app.NewOsmosisApp(log.NewNopLogger(), cosmosdb.NewMemDB(), nil, true, map[int64]bool{}, dir, 0, ao, app.EmptyWasmOpts, bopts...)
	mempool1559.CurEipState.BackupFilePath = filepath.Join(dir, mempool1559.BackupFilename)
	gs := app.GenesisStateWithValSet(a)
	var txf txfeestypes.GenesisState
	a.AppCodec().MustUnmarshalJSON(gs[txfeestypes.ModuleName], &txf)
	txf.Basedenom = o.Base
	gs[txfeestypes.ModuleName] = a.AppCodec().MustMarshalJSON(&txf)
	bz, err := json.Marshal(gs)
	if err != nil {
		t.Fatal(err)
	}
	w := &world{World: &apphelp.World{}, t: t, o: o, h: 1, now: time.Unix(1_700_000_000, 0).UTC(), byName: map[string]*acct{}}
	w.SetT(t)
	w.App = a
	if _, err := a.InitChain(&abci.RequestInitChain{ConsensusParams: sims.DefaultConsensusParams, AppStateBytes: bz, ChainId: chainID,
		Time: w.now, InitialHeight: 1}); err != nil {
		t.Fatalf("InitChain: %v", err)
	}
	w.block(nil)
	w.lp = apphelp.Acct(901)
	w.sink = apphelp.Acct(902)
	return w
}

// block delivers the transactions through FinalizeBlock and commits.
func (w *world) block(txs [][]byte) []*abci.ExecTxResult {
	r, err := w.App.FinalizeBlock(&abci.RequestFinalizeBlock{Height: w.h, Time: w.now, Txs: txs})
	if err != nil {
		panic(fmt.Sprintf("FinalizeBlock: %v", err))
	}
	if _, err := w.App.Commit(); err != nil {
		panic(err)
	}
	w.h++
	w.now = w.now.Add(time.Millisecond) // (no epoch ends inside a history: what happens to collected fees then is X06's)
	w.blocks++
	w.Ctx = w.App.BaseApp.NewUncachedContext(false, w.header()).WithLogger(log.NewNopLogger())
	if len(r.TxResults) != len(txs) {
		panic("FinalizeBlock returned a different number of results")
	}
	return r.TxResults
}

func (w *world) header() cmtproto.Header {
	return cmtproto.Header{Height: w.h, ChainID: chainID, Time: w.now}
}

// checkCtx reads the node's mempool (check) state.
func (w *world) checkCtx() sdk.Context {
	return w.App.BaseApp.NewContextLegacy(true, w.header()).WithLogger(log.NewNopLogger())
}

// ---------------------------------------------------------------------------
// a history

type poolSpec struct {
	Denoms  []string
	Res     []*big.Int
	Weights []int64
}

// begin starts a history on this application: the registry is emptied, fresh
// accounts and pools are created, the whitelist is set; everything is committed.
func (w *world) begin(salt string, denoms []string, payers []string, setters []string, bal map[string]map[string]*big.Int, pools []poolSpec) {
	w.salt, w.denoms = salt, denoms
	w.accts, w.byName, w.pools = nil, map[string]*acct{}, nil
	// the application's mempool has a capacity: take out what earlier histories on this application left in it
	for _, bz := range w.inPool {
		if tx, err := w.App.GetTxConfig().TxDecoder()(bz); err == nil {
			_ = w.App.BaseApp.Mempool().Remove(tx)
		}
	}
	w.inPool = nil
	st := w.App.TxFeesKeeper.GetFeeTokensStore(w.Ctx)
	var keys [][]byte
	it := st.Iterator(nil, nil)
	for ; it.Valid(); it.Next() {
		keys = append(keys, append([]byte{}, it.Key()...))
	}
	it.Close()
	for _, k := range keys {
		st.Delete(k)
	}
	for _, n := range payers {
		w.nAcct++
		priv := secp256k1.GenPrivKeyFromSecret([]byte(fmt.Sprintf("verif-x07-%s-%s-%d", salt, n, w.nAcct)))
		a := &acct{Name: n, Priv: priv, Addr: sdk.AccAddress(priv.PubKey().Address())}
		coins := sdk.NewCoins(sdk.NewInt64Coin(execDenom, 1_000_000))
		for d, x := range bal[n] {
			if x.Sign() > 0 {
				coins = coins.Add(sdk.NewCoin(d, osmomath.NewIntFromBigInt(x)))
			}
		}
		w.FundAcc(a.Addr, coins)
		w.accts = append(w.accts, a)
		w.byName[n] = a
	}
	fee := w.App.PoolManagerKeeper.GetParams(w.Ctx).PoolCreationFee
	for _, ps := range pools {
		need := sdk.NewCoins(fee...)
		assets := []balancer.PoolAsset{}
		for i, d := range ps.Denoms {
			c := sdk.NewCoin(d, osmomath.NewIntFromBigInt(ps.Res[i]))
			need = need.Add(c)
			assets = append(assets, balancer.PoolAsset{Weight: osmomath.NewInt(ps.Weights[i]), Token: c})
		}
		w.FundAcc(w.lp, need)
		id, err := w.App.PoolManagerKeeper.CreatePool(w.Ctx, balancer.NewMsgCreateBalancerPool(w.lp,
			balancer.PoolParams{SwapFee: osmomath.ZeroDec(), ExitFee: osmomath.ZeroDec()}, assets, ""))
		if err != nil {
			w.t.Fatalf("CreatePool %v: %v", ps.Denoms, err)
		}
		w.pools = append(w.pools, &poolT{Id: id, Denoms: ps.Denoms})
	}
	p := w.App.TxFeesKeeper.GetParams(w.Ctx)
	p.WhitelistedFeeTokenSetters = []string{}
	for _, s := range setters {
		p.WhitelistedFeeTokenSetters = append(p.WhitelistedFeeTokenSetters, w.byName[s].Addr.String())
	}
	w.App.TxFeesKeeper.SetParams(w.Ctx, p)
	w.block(nil)
	w.sent0 = w.App.BankKeeper.GetBalance(w.Ctx, w.sink, execDenom).Amount.Int64()
	w.base0 = nil
	raw := w.ledgers(w.Ctx)
	w.base0 = map[string]map[string]*big.Int{}
	for _, a := range []string{"coll", "nn", "rest"} {
		w.base0[a] = raw[a]
	}
}

// ledgers projects the bank state of one view: payers absolute, collectors and
// "everybody else" relative to the start of the history.
func (w *world) ledgers(ctx sdk.Context) map[string]map[string]*big.Int {
	res := map[string]map[string]*big.Int{"coll": {}, "nn": {}, "rest": {}}
	bk, ak := w.App.BankKeeper, w.App.AccountKeeper
	fc, di, nn := ak.GetModuleAddress(authtypes.FeeCollectorName), ak.GetModuleAddress(distrtypes.ModuleName), ak.GetModuleAddress(txfeestypes.NonNativeTxFeeCollectorName)
	for _, a := range w.accts {
		res[a.Name] = map[string]*big.Int{}
	}
	for _, d := range w.denoms {
		tracked := new(big.Int)
		for _, a := range w.accts {
			x := bk.GetBalance(ctx, a.Addr, d).Amount.BigInt()
			res[a.Name][d] = x
			tracked.Add(tracked, x)
		}
		// the distribution module sweeps the fee collector at the beginning of a block: the two together are "the fee collector"
		c := new(big.Int).Add(bk.GetBalance(ctx, fc, d).Amount.BigInt(), bk.GetBalance(ctx, di, d).Amount.BigInt())
		n := bk.GetBalance(ctx, nn, d).Amount.BigInt()
		tracked.Add(tracked, c).Add(tracked, n)
		rest := new(big.Int).Sub(bk.GetSupply(ctx, d).Amount.BigInt(), tracked)
		if w.base0 != nil {
			c = new(big.Int).Sub(c, w.base0["coll"][d])
			n = new(big.Int).Sub(n, w.base0["nn"][d])
			rest.Sub(rest, w.base0["rest"][d])
		}
		res["coll"][d], res["nn"][d], res["rest"][d] = c, n, rest
	}
	return res
}

// ---------------------------------------------------------------------------
// projection

type ftJ struct {
	D string `json:"d"`
	P int    `json:"p"`
}
type quoteJ struct {
	D string `json:"d"`
	N Big    `json:"n"`
	M Big    `json:"m"`
}
type resJ struct {
	D string `json:"d"`
	R Big    `json:"r"`
	W Big    `json:"w"`
}
type poolJ struct {
	Id     int      `json:"id"`
	Denoms []string `json:"denoms"`
	Q      []quoteJ `json:"q"`
	Res    []resJ   `json:"res"`
}
type stateJ struct {
	Base  string                    `json:"base"`
	Reg   []ftJ                     `json:"reg"`
	Pools []poolJ                   `json:"pools,omitempty"` // only when they changed (and in cfg / trade lines)
	Bal   map[string]map[string]Big `json:"bal"`
	Chk   map[string]map[string]Big `json:"chk"`
	Sent  map[string]int            `json:"sent"`
}

var e18 = new(big.Int).Exp(big.NewInt(10), big.NewInt(18), nil)

func encLedgers(m map[string]map[string]*big.Int) map[string]map[string]Big {
	res := map[string]map[string]Big{}
	for a, f := range m {
		res[a] = map[string]Big{}
		for d, x := range f {
			res[a][d] = bigOf(x)
		}
	}
	return res
}

// registry as stored (raw keeper read), every entry; denominations of the history without an entry as pool 0
func (w *world) registry(ctx sdk.Context) []ftJ {
	res := []ftJ{}
	seen := map[string]bool{}
	for _, ft := range w.App.TxFeesKeeper.GetFeeTokens(ctx) {
		res = append(res, ftJ{D: ft.Denom, P: int(ft.PoolID)})
		seen[ft.Denom] = true
	}
	for _, d := range w.denoms {
		if !seen[d] {
			res = append(res, ftJ{D: d, P: 0})
		}
	}
	sort.Slice(res, func(i, j int) bool { return res[i].D < res[j].D })
	return res
}

func (w *world) poolsJ(ctx sdk.Context) []poolJ {
	res := []poolJ{}
	for _, p := range w.pools {
		pj := poolJ{Id: int(p.Id), Denoms: p.Denoms, Q: []quoteJ{}, Res: []resJ{}}
		pi, err := w.App.GAMMKeeper.GetPoolAndPoke(ctx, p.Id)
		if err != nil {
			panic(err)
		}
		bp := pi.(*balancer.Pool)
		hasBase := false
		for _, as := range bp.PoolAssets {
			pj.Res = append(pj.Res, resJ{D: as.Token.Denom, R: bigOf(as.Token.Amount.BigInt()), W: bigOf(as.Weight.BigInt())})
			if as.Token.Denom == w.o.Base {
				hasBase = true
			}
		}
		if hasBase {
			for _, d := range p.Denoms {
				if d == w.o.Base {
					continue
				}
				// the pool's own answer, asked through the pool manager (not through x/txfees)
				sp, err := w.App.PoolManagerKeeper.RouteCalculateSpotPrice(ctx, p.Id, w.o.Base, d)
				if err != nil {
					panic(fmt.Sprintf("pool %d cannot quote %s: %v", p.Id, d, err))
				}
				pj.Q = append(pj.Q, quoteJ{D: d, N: decRaw(sp.Dec()), M: bigOf(e18)})
			}
		}
		res = append(res, pj)
	}
	return res
}

func (w *world) state(withPools bool) stateJ {
	s := stateJ{Sent: map[string]int{}}
	s.Base, _ = w.App.TxFeesKeeper.GetBaseDenom(w.Ctx)
	s.Reg = w.registry(w.Ctx)
	if withPools {
		s.Pools = w.poolsJ(w.Ctx)
	}
	s.Bal = encLedgers(w.ledgers(w.Ctx))
	s.Chk = encLedgers(w.ledgers(w.checkCtx()))
	for _, a := range w.accts {
		s.Sent[a.Name] = int(1_000_000 - w.App.BankKeeper.GetBalance(w.Ctx, a.Addr, execDenom).Amount.Int64())
	}
	return s
}

// ---------------------------------------------------------------------------
// queries (the registered gRPC service)

type pidJ struct {
	OK bool `json:"ok"`
	P  int  `json:"p"`
}
type spotJ struct {
	OK bool `json:"ok"`
	P  int  `json:"p"`
	V  Big  `json:"v"`
}
type queryJ struct {
	Base string           `json:"base"`
	Fts  []ftJ            `json:"fts"`
	Pid  map[string]pidJ  `json:"pid"`
	Spot map[string]spotJ `json:"spot"`
}

func (w *world) queries() queryJ {
	q := queryJ{Fts: []ftJ{}, Pid: map[string]pidJ{}, Spot: map[string]spotJ{}}
	qh := &baseapp.QueryServiceTestHelper{GRPCQueryRouter: w.App.GRPCQueryRouter(), Ctx: w.Ctx}
	qc := txfeestypes.NewQueryClient(qh)
	if r, err := qc.BaseDenom(w.Ctx, &txfeestypes.QueryBaseDenomRequest{}); err == nil {
		q.Base = r.BaseDenom
	} else {
		q.Base = "error: " + err.Error()
	}
	r, err := qc.FeeTokens(w.Ctx, &txfeestypes.QueryFeeTokensRequest{})
	if err != nil {
		panic("FeeTokens: " + err.Error())
	}
	for _, ft := range r.FeeTokens {
		q.Fts = append(q.Fts, ftJ{D: ft.Denom, P: int(ft.PoolID)})
	}
	for _, d := range w.denoms {
		if r, err := qc.DenomPoolId(w.Ctx, &txfeestypes.QueryDenomPoolIdRequest{Denom: d}); err == nil {
			q.Pid[d] = pidJ{OK: true, P: int(r.PoolID)}
		} else {
			q.Pid[d] = pidJ{}
		}
		if r, err := qc.DenomSpotPrice(w.Ctx, &txfeestypes.QueryDenomSpotPriceRequest{Denom: d}); err == nil {
			q.Spot[d] = spotJ{OK: true, P: int(r.PoolID), V: decRaw(r.SpotPrice)}
		} else {
			q.Spot[d] = spotJ{V: bigI(0)}
		}
	}
	return q
}

// ---------------------------------------------------------------------------
// entry points

// gov: the UpdateFeeTokenProposal content through the governance router's handler, the way the governance
// end blocker runs a passed proposal (on a branch that is written only when the handler succeeds), then the block.
func (w *world) gov(fts []ftJ) (bool, string) {
	p := txfeestypes.NewUpdateFeeTokenProposal("x07", "update fee tokens", w.feeTokens(fts))
	if err := p.ValidateBasic(); err != nil {
		w.block(nil)
		return false, "validate-basic: " + err.Error()
	}
	h := w.App.GovKeeper.LegacyRouter().GetRoute(txfeestypes.RouterKey)
	out := w.Try(func(ctx sdk.Context) error { return h(ctx, &p) })
	w.block(nil)
	return out.OK, out.Err
}

func (w *world) feeTokens(fts []ftJ) []txfeestypes.FeeToken {
	res := []txfeestypes.FeeToken{}
	for _, f := range fts {
		res = append(res, txfeestypes.FeeToken{Denom: f.D, PoolID: uint64(f.P)})
	}
	return res
}

// setMsg: MsgSetFeeTokens through the registered message handler, then the block.
func (w *world) setMsg(by string, fts []ftJ) (bool, string) {
	_, out := w.Msg(&txfeestypes.MsgSetFeeTokens{Sender: w.byName[by].Addr.String(), FeeTokens: w.feeTokens(fts)})
	w.block(nil)
	return out.OK, out.Err
}

// swap: somebody trades against a pool (real swap), then the block.
func (w *world) swap(pool *poolT, in string, amt *big.Int, out string) (bool, string) {
	c := sdk.NewCoin(in, osmomath.NewIntFromBigInt(amt))
	before := w.ledgers(w.Ctx)["rest"]
	w.FundAcc(w.lp, sdk.NewCoins(c))
	o := w.Try(func(ctx sdk.Context) error {
		_, _, err := w.App.PoolManagerKeeper.SwapExactAmountIn(ctx, w.lp, pool.Id, c, out, osmomath.OneInt())
		return err
	})
	w.block(nil)
	// the coins minted for the trader are new supply held by "everybody else": not a change of the tracked ledgers
	w.rebaseRest(before)
	return o.OK, o.Err
}

// setReserves: the pool's reserves are set outright (replay of model prices), then the block.
func (w *world) setReserves(pool *poolT, res map[string]*big.Int) {
	pi, err := w.App.GAMMKeeper.GetPoolAndPoke(w.Ctx, pool.Id)
	if err != nil {
		panic(err)
	}
	bp := pi.(*balancer.Pool)
	before := w.ledgers(w.Ctx)["rest"]
	coins := sdk.NewCoins()
	for d, x := range res {
		coins = coins.Add(sdk.NewCoin(d, osmomath.NewIntFromBigInt(x)))
	}
	w.FundAcc(bp.GetAddress(), coins)
	if err := bp.UpdatePoolAssetBalances(coins); err != nil {
		panic(err)
	}
	if err := w.App.GAMMKeeper.OverwritePoolV15MigrationUnsafe(w.Ctx, bp); err != nil {
		panic(err)
	}
	w.block(nil)
	w.rebaseRest(before)
}

func (w *world) rebaseRest(before map[string]*big.Int) {
	cur := w.ledgers(w.Ctx)["rest"]
	for _, d := range w.denoms {
		w.base0["rest"][d] = new(big.Int).Add(w.base0["rest"][d], new(big.Int).Sub(cur[d], before[d]))
	}
}

type coinJ struct {
	D string `json:"d"`
	X Big    `json:"x"`
}
type txJ struct {
	Who  []string `json:"who"`
	Fee  []coinJ  `json:"fee"`
	Gas  Big      `json:"gas"`
	Arb  bool     `json:"arb"`
	Sig  string   `json:"sig"`
	Exec string   `json:"exec"` // what the messages are built to do once the ante phase is passed: ok | exec
}

// build signs the transaction with the sequence numbers of the given view.
func (w *world) build(view sdk.Context, tx txJ) []byte {
	var msgs []sdk.Msg
	first := w.byName[tx.Who[0]]
	if tx.Arb {
		// two swaps with different tokens in (the arbitrage filter's second rule); they cannot succeed
		var pid uint64
		var other string
		for _, p := range w.pools {
			if len(p.Denoms) == 2 && (p.Denoms[0] == w.o.Base || p.Denoms[1] == w.o.Base) {
				pid = p.Id
				other = p.Denoms[0]
				if other == w.o.Base {
					other = p.Denoms[1]
				}
				break
			}
		}
		huge := osmomath.NewIntFromBigInt(new(big.Int).Exp(big.NewInt(10), big.NewInt(40), nil))
		msgs = append(msgs,
			&poolmanagertypes.MsgSwapExactAmountIn{Sender: first.Addr.String(), Routes: []poolmanagertypes.SwapAmountInRoute{{PoolId: pid, TokenOutDenom: w.o.Base}},
				TokenIn: sdk.NewInt64Coin(other, 1), TokenOutMinAmount: huge},
			&poolmanagertypes.MsgSwapExactAmountIn{Sender: first.Addr.String(), Routes: []poolmanagertypes.SwapAmountInRoute{{PoolId: pid, TokenOutDenom: other}},
				TokenIn: sdk.NewInt64Coin(w.o.Base, 1), TokenOutMinAmount: huge})
	} else {
		for i, n := range tx.Who {
			a := w.byName[n]
			amt := int64(1)
			if tx.Exec == "exec" && i == len(tx.Who)-1 {
				amt = 1_000_000_000_000 // more than anybody holds: the messages fail after the ante phase
			}
			msgs = append(msgs, &banktypes.MsgSend{FromAddress: a.Addr.String(), ToAddress: w.sink.String(), Amount: sdk.NewCoins(sdk.NewInt64Coin(execDenom, amt))})
		}
	}
	fee := sdk.Coins{}
	for _, c := range tx.Fee {
		fee = append(fee, sdk.NewCoin(c.D, osmomath.NewIntFromBigInt(unbig(c.X))))
	}
	fee = fee.Sort()
	var nums, seqs []uint64
	var privs []cryptotypes.PrivKey
	signers := tx.Who
	if tx.Arb {
		signers = tx.Who[:1]
	}
	for i, n := range signers {
		a := w.byName[n]
		acc := w.App.AccountKeeper.GetAccount(view, a.Addr)
		sq := acc.GetSequence()
		if tx.Sig == "bad" && i == 0 {
			sq += 3
		}
		nums, seqs, privs = append(nums, acc.GetAccountNumber()), append(seqs, sq), append(privs, a.Priv)
	}
	w.nonce++
	stx, err := sims.GenSignedMockTx(rand.New(rand.NewSource(w.nonce)), w.App.GetTxConfig(), msgs, fee, unbig(tx.Gas).Uint64(), chainID, nums, seqs, privs...)
	if err != nil {
		panic("sign: " + err.Error())
	}
	bz, err := w.App.GetTxConfig().TxEncoder()(stx)
	if err != nil {
		panic("encode: " + err.Error())
	}
	return bz
}

type txOut struct {
	Res   string `json:"res"` // ok | ante | exec | fail (simulation)
	Code  uint32 `json:"code"`
	Space string `json:"space"`
	Log   string `json:"log"`
	FeeEv bool   `json:"feeev"` // the deduct-fee decorator's event is in the result
}

func hasFeeEvent(evs []abci.Event) bool {
	for _, e := range evs {
		if e.Type == sdk.EventTypeTx {
			for _, a := range e.Attributes {
				if a.Key == sdk.AttributeKeyFee {
					return true
				}
			}
		}
	}
	return false
}

func clip(s string) string {
	if len(s) > 240 {
		return s[:240]
	}
	return s
}

// deliver: a block with this one transaction.
func (w *world) deliver(tx txJ) txOut {
	r := w.block([][]byte{w.build(w.Ctx, tx)})[0]
	o := txOut{Code: r.Code, Space: r.Codespace, Log: clip(r.Log), FeeEv: hasFeeEvent(r.Events)}
	// baseapp returns the events of the ante phase only when the whole ante handler succeeded: the deduct-fee
	// decorator's event tells a failure after the ante phase from a refusal in it
	switch {
	case r.Code == 0:
		o.Res = "ok"
	case o.FeeEv || strings.Contains(r.Log, "failed to execute message"):
		o.Res = "exec"
	default:
		o.Res = "ante"
	}
	return o
}

// check: CheckTx (new) or RecheckTx of the signed bytes against the node's mempool state.
func (w *world) check(tx txJ, recheck bool) (txOut, []byte) {
	bz := w.build(w.checkCtx(), tx)
	return w.checkBytes(bz, recheck), bz
}

func (w *world) checkBytes(bz []byte, recheck bool) txOut {
	typ := abci.CheckTxType_New
	if recheck {
		typ = abci.CheckTxType_Recheck
	}
	r, err := w.App.CheckTx(&abci.RequestCheckTx{Tx: bz, Type: typ})
	if err != nil {
		return txOut{Res: "ante", Log: clip("error: " + err.Error())}
	}
	o := txOut{Code: r.Code, Space: r.Codespace, Log: clip(r.Log), Res: "ante"}
	if r.Code == 0 {
		o.Res = "ok"
		if !recheck {
			w.inPool = append(w.inPool, bz)
		}
	}
	return o
}

// simulate: the simulation entry point of baseapp.
func (w *world) simulate(tx txJ) txOut {
	_, _, err := w.App.BaseApp.Simulate(w.build(w.checkCtx(), tx))
	if err != nil {
		return txOut{Res: "fail", Log: clip(err.Error())}
	}
	return txOut{Res: "ok"}
}

// commit: an empty block.
func (w *world) commit() { w.block(nil) }

type convOut struct {
	OK   bool   `json:"ok"`
	W    Big    `json:"w"`
	Err  string `json:"err"`
	SpOK bool   `json:"spok"`
	Sp   Big    `json:"sp"` // CalcFeeSpotPrice, raw BigDec (36 decimals)
}

// convert: ConvertToBaseToken and CalcFeeSpotPrice of the keeper the ante handler uses.
func (w *world) convert(c coinJ) convOut {
	o := convOut{W: bigI(0), Sp: bigI(0)}
	out := w.Peek(func(ctx sdk.Context) error {
		r, err := w.App.TxFeesKeeper.ConvertToBaseToken(ctx, sdk.NewCoin(c.D, osmomath.NewIntFromBigInt(unbig(c.X))))
		if err != nil {
			return err
		}
		if r.Denom != w.o.Base {
			return fmt.Errorf("converted into %s", r.Denom)
		}
		o.W = bigOf(r.Amount.BigInt())
		return nil
	})
	o.OK, o.Err = out.OK, clip(out.Err)
	out = w.Peek(func(ctx sdk.Context) error {
		sp, err := w.App.TxFeesKeeper.CalcFeeSpotPrice(ctx, c.D)
		if err != nil {
			return err
		}
		o.Sp = bigOf(sp.BigInt())
		return nil
	})
	o.SpOK = out.OK
	return o
}
