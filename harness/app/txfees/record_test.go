package txfees

import (
	"fmt"
	"math/big"
	"math/rand"
	"os"
	"testing"

	sdk "github.com/cosmos/cosmos-sdk/types"

	"github.com/osmosis-labs/osmosis/osmomath"
	txfeestypes "github.com/osmosis-labs/osmosis/v31/x/txfees/types"

	"verif/harness/tracelog"
)

func pick[T any](r *rand.Rand, xs ...T) T { return xs[r.Intn(len(xs))] }

func dec(s string) osmomath.Dec { return osmomath.MustNewDecFromStr(s) }

func randOpts(r *rand.Rand) optsT {
	o := optsT{Base: "uosmo"}
	if r.Intn(10) < 3 {
		o.Base = "ubase"
	}
	o.Cmin = dec(pick(r, "0", "0", "0.01", "0.03", "0.03", "0.03", "0.0025"))
	o.Min = dec(pick(r, "0", "0", "0.0025", "0.03", "0.1", "0.25", "0.011"))
	o.Arb = dec(pick(r, "0", "0", "0.1", "0.5"))
	o.High = dec(pick(r, "0", "0", "0.05", "0.2"))
	o.MaxGas = pick(r, uint64(5_000_000), uint64(30_000_000))
	return o
}

func pow10(k int) *big.Int { return new(big.Int).Exp(big.NewInt(10), big.NewInt(int64(k)), nil) }

func randRes(r *rand.Rand) *big.Int {
	return new(big.Int).Mul(big.NewInt(int64(1000+r.Intn(9000))), pow10(5+r.Intn(6)))
}

type recorder struct {
	*world
	r       *rand.Rand
	out     *tracelog.Writer
	pending []pendingTx
	kinds   map[string]int
}

type pendingTx struct {
	bz  []byte
	tx  txJ
	seq uint64
}

func cfJ(w *world, id int, payers, setters []string) map[string]any {
	return map[string]any{"id": id, "denoms": w.denoms, "payers": payers, "setters": setters,
		"min": decRaw(w.o.Min), "arb": decRaw(w.o.Arb), "high": decRaw(w.o.High), "cmin": decRaw(w.o.Cmin),
		"hthr": bigI(int64(txfeestypes.DefaultHighGasTxThreshold)), "maxgas": bigI(int64(w.o.MaxGas))}
}

func (rc *recorder) emit(ev map[string]any) {
	ev["st"] = rc.state(ev["e"] == "cfg" || ev["e"] == "trade")
	ev["q"] = rc.queries()
	rc.out.Emit(ev)
}

// registered tokens and everything else, in the committed state
func (rc *recorder) allowedDenoms() (ok []string, other []string) {
	ok = []string{rc.o.Base}
	reg := map[string]bool{}
	for _, ft := range rc.App.TxFeesKeeper.GetFeeTokens(rc.Ctx) {
		reg[ft.Denom] = true
	}
	for _, d := range rc.denoms {
		if d == rc.o.Base {
			continue
		}
		if reg[d] {
			ok = append(ok, d)
		} else {
			other = append(other, d)
		}
	}
	return
}

func (rc *recorder) randList(n int) []ftJ {
	fts := []ftJ{}
	for i := 0; i < n; i++ {
		switch k := rc.r.Intn(10); {
		case k < 5: // a pair that can be registered
			p := rc.pools[rc.r.Intn(len(rc.pools))]
			d := p.Denoms[rc.r.Intn(len(p.Denoms))]
			fts = append(fts, ftJ{D: d, P: int(p.Id)})
		case k < 7: // removal
			fts = append(fts, ftJ{D: pick(rc.r, append(append([]string{}, rc.denoms...), "uxx")...), P: 0})
		case k < 8:
			fts = append(fts, ftJ{D: pick(rc.r, rc.denoms...), P: noPool})
		default:
			fts = append(fts, ftJ{D: pick(rc.r, append(append([]string{}, rc.denoms...), "uxx")...), P: int(rc.pools[rc.r.Intn(len(rc.pools))].Id)})
		}
	}
	return fts
}

// price that applies to a transaction in a mode (only to aim the generated fees at the interesting region)
func (rc *recorder) aimPrice(mode string, gas uint64, arb bool) osmomath.Dec {
	p := rc.o.Cmin
	if mode == "deliver" || mode == "sim" {
		return p
	}
	p = osmomath.MaxDec(p, rc.o.Min)
	if gas >= txfeestypes.DefaultHighGasTxThreshold {
		p = osmomath.MaxDec(p, rc.o.High)
	}
	if arb {
		p = osmomath.MaxDec(p, rc.o.Arb)
	}
	return p
}

func (rc *recorder) randTx(mode string) txJ {
	r := rc.r
	names := []string{}
	for _, a := range rc.accts {
		names = append(names, a.Name)
	}
	tx := txJ{Sig: "good", Exec: "ok", Fee: []coinJ{}}
	tx.Who = []string{pick(r, append(names, names[0], names[1])...)}
	if r.Intn(5) == 0 {
		o := pick(r, names...)
		if o != tx.Who[0] {
			tx.Who = append(tx.Who, o)
		}
	}
	gas := pick(r, uint64(300_000), 400_000, 400_000, 1_000_000, 2_499_999, 2_500_000, 3_000_000, 6_000_000)
	if r.Intn(40) == 0 {
		gas = 31_000_000
	}
	tx.Gas = bigI(int64(gas))
	if len(tx.Who) == 1 && r.Intn(8) == 0 {
		tx.Arb, tx.Exec = true, "exec"
	}
	if !tx.Arb && r.Intn(8) == 0 {
		tx.Exec = "exec"
	}
	if mode != "recheck" && r.Intn(16) == 0 {
		tx.Sig = "bad"
	}
	ok, other := rc.allowedDenoms()
	var d string
	if len(other) == 0 || r.Intn(6) > 0 {
		d = pick(r, ok...)
		if len(ok) > 1 && r.Intn(3) > 0 {
			d = pick(r, ok[1:]...) // a registered token rather than the base denomination
		}
	} else {
		d = pick(r, other...)
	}
	if r.Intn(16) == 0 {
		return tx // no fee at all
	}
	// aim at the threshold
	req := osmomath.NewDec(int64(gas)).Mul(rc.aimPrice(mode, gas, tx.Arb)).Ceil().TruncateInt().BigInt()
	x := new(big.Int).Set(req)
	if d != rc.o.Base {
		if sp, err := rc.App.TxFeesKeeper.CalcFeeSpotPrice(rc.Ctx, d); err == nil && sp.IsPositive() {
			// x ~ req / price
			num := new(big.Int).Mul(req, pow10(36))
			x = num.Quo(num, sp.BigInt())
		}
	}
	switch r.Intn(10) {
	case 0:
		x.Sub(x, big.NewInt(2))
	case 1, 2:
		x.Sub(x, big.NewInt(1))
	case 3, 4, 5:
	case 6, 7:
		x.Add(x, big.NewInt(1))
	case 8:
		x.Add(x, big.NewInt(int64(2+r.Intn(50))))
	default:
		x.Mul(x, big.NewInt(2))
	}
	if x.Sign() <= 0 {
		x = big.NewInt(int64(1 + r.Intn(3)))
	}
	tx.Fee = append(tx.Fee, coinJ{D: d, X: bigOf(x)})
	if r.Intn(20) == 0 {
		d2 := pick(r, rc.denoms...)
		if d2 != d {
			tx.Fee = append(tx.Fee, coinJ{D: d2, X: bigI(int64(1 + r.Intn(100000)))})
		}
	}
	return tx
}

func (rc *recorder) emitTx(mode string, tx txJ, out txOut) {
	rc.emit(map[string]any{"e": "tx", "mode": mode, "tx": tx, "res": out.Res, "code": out.Code, "space": out.Space, "log": out.Log, "feeev": out.FeeEv})
}

// scenario: a transaction paying in a registered token exactly what the node asks enters the mempool; then the
// token's market moves / the token is deregistered / re-registered with another pool / nothing happens; the block is
// committed and the node rechecks the transaction.  Every call is a line of the trace like any other.
func (rc *recorder) scenario() bool {
	r := rc.r
	ok, _ := rc.allowedDenoms()
	if len(ok) < 2 {
		return false
	}
	d := pick(r, ok[1:]...)
	gas := pick(r, uint64(400_000), 3_000_000)
	price := rc.aimPrice("check", gas, false)
	if !price.IsPositive() {
		return false
	}
	req := osmomath.NewDec(int64(gas)).Mul(price).Ceil().TruncateInt()
	sp, err := rc.App.TxFeesKeeper.CalcFeeSpotPrice(rc.Ctx, d)
	if err != nil || !sp.IsPositive() {
		return false
	}
	num := new(big.Int).Mul(req.BigInt(), pow10(36))
	x := num.Quo(num, sp.BigInt())
	for i := 0; i < 5; i++ { // the smallest amount the keeper's own conversion finds sufficient
		c, err := rc.App.TxFeesKeeper.ConvertToBaseToken(rc.Ctx, sdk.NewCoin(d, osmomath.NewIntFromBigInt(x)))
		if err == nil && c.Amount.GTE(req) {
			break
		}
		x.Add(x, big.NewInt(1))
	}
	x.Add(x, big.NewInt(int64(r.Intn(2))))
	tx := txJ{Who: []string{"A1"}, Fee: []coinJ{{D: d, X: bigOf(x)}}, Gas: bigI(int64(gas)), Sig: "good", Exec: "ok"}
	a1 := rc.byName["A1"].Addr
	if rc.App.AccountKeeper.GetAccount(rc.checkCtx(), a1).GetSequence() != rc.App.AccountKeeper.GetAccount(rc.Ctx, a1).GetSequence() {
		// earlier transactions of this signer sit in the mempool; the node would recheck them first: start from a clean view
		rc.commit()
		rc.emit(map[string]any{"e": "commit"})
		rc.pending = nil
	}
	out, bz := rc.check(tx, false)
	rc.emitTx("check", tx, out)
	if out.Res != "ok" {
		return true
	}
	ft, _ := rc.App.TxFeesKeeper.GetFeeToken(rc.Ctx, d)
	var pool *poolT
	for _, p := range rc.pools {
		if p.Id == ft.PoolID {
			pool = p
		}
	}
	switch v := r.Intn(5); {
	case v <= 1 && pool != nil: // the token is sold into its pool: its price falls (v = 0) / bought: rises (v = 1)
		in, outD := d, rc.o.Base
		if v == 1 {
			in, outD = rc.o.Base, d
		}
		bal := rc.App.BankKeeper.GetBalance(rc.Ctx, mustPoolAddr(rc.world, pool), in).Amount.BigInt()
		amt := new(big.Int).Quo(bal, big.NewInt(int64(10+r.Intn(30))))
		ok, err := rc.swap(pool, in, amt, outD)
		rc.emit(map[string]any{"e": "trade", "p": int(pool.Id), "ok": ok, "err": clip(err)})
	case v == 2:
		fts := []ftJ{{D: d, P: 0}}
		ok, err := rc.gov(fts)
		rc.emit(map[string]any{"e": "gov", "fts": fts, "ok": ok, "err": clip(err)})
	case v == 3: // another market for the token, if there is one
		fts := []ftJ{}
		for _, p := range rc.pools {
			has := map[string]bool{}
			for _, x := range p.Denoms {
				has[x] = true
			}
			if p.Id != ft.PoolID && has[d] && has[rc.o.Base] {
				fts = append(fts, ftJ{D: d, P: int(p.Id)})
				break
			}
		}
		ok, err := rc.gov(fts)
		rc.emit(map[string]any{"e": "gov", "fts": fts, "ok": ok, "err": clip(err)})
	default:
		rc.commit()
		rc.emit(map[string]any{"e": "commit"})
	}
	out = rc.checkBytes(bz, true)
	rc.kinds["recheck-in-scenario"]++
	rc.emitTx("recheck", tx, out)
	rc.pending = nil
	return true
}

// checkNew: CheckTx of a new transaction; what the node lets in is remembered with the sequence number it was signed with
func (rc *recorder) checkNew(tx txJ) txOut {
	seq := rc.App.AccountKeeper.GetAccount(rc.checkCtx(), rc.byName[tx.Who[0]].Addr).GetSequence()
	out, bz := rc.check(tx, false)
	if out.Res == "ok" && tx.Sig == "good" && len(tx.Who) == 1 {
		rc.pending = append(rc.pending, pendingTx{bz: bz, tx: tx, seq: seq})
	}
	return out
}

func (rc *recorder) step() {
	r := rc.r
	if r.Intn(14) == 0 && rc.scenario() {
		return
	}
	switch k := r.Intn(100); {
	case k < 11:
		fts := rc.randList(r.Intn(4))
		ok, err := rc.gov(fts)
		rc.emit(map[string]any{"e": "gov", "fts": fts, "ok": ok, "err": clip(err)})
	case k < 19:
		by := pick(r, rc.accts...).Name
		fts := rc.randList(1 + r.Intn(2))
		ok, err := rc.setMsg(by, fts)
		rc.emit(map[string]any{"e": "setmsg", "by": by, "fts": fts, "ok": ok, "err": clip(err)})
	case k < 27:
		p := rc.pools[r.Intn(len(rc.pools))]
		i := r.Intn(len(p.Denoms))
		j := (i + 1 + r.Intn(len(p.Denoms)-1)) % len(p.Denoms)
		bal := rc.App.BankKeeper.GetBalance(rc.Ctx, mustPoolAddr(rc.world, p), p.Denoms[i]).Amount.BigInt()
		amt := new(big.Int).Quo(new(big.Int).Mul(bal, big.NewInt(int64(1+r.Intn(30)))), big.NewInt(100))
		if amt.Sign() == 0 {
			amt = big.NewInt(1)
		}
		ok, err := rc.swap(p, p.Denoms[i], amt, p.Denoms[j])
		rc.emit(map[string]any{"e": "trade", "p": int(p.Id), "ok": ok, "err": clip(err)})
	case k < 32:
		rc.commit()
		rc.emit(map[string]any{"e": "commit"})
	case k < 40:
		c := coinJ{D: pick(r, rc.denoms...), X: bigOf(new(big.Int).Mul(big.NewInt(int64(1+r.Intn(9999))), pow10(r.Intn(9))))}
		if r.Intn(3) == 0 {
			c.X = bigI(int64(1 + r.Intn(50)))
		}
		o := rc.convert(c)
		rc.emit(map[string]any{"e": "conv", "coin": c, "ok": o.OK, "w": o.W, "err": o.Err, "spok": o.SpOK, "sp": o.Sp})
	default:
		mode := pick(r, "deliver", "deliver", "deliver", "deliver", "check", "check", "check", "recheck", "recheck", "sim")
		var tx txJ
		var out txOut
		switch mode {
		case "deliver":
			tx = rc.randTx(mode)
			out = rc.deliver(tx)
			rc.pending = nil // sequences moved: what is pending may be stale
		case "check":
			tx = rc.randTx(mode)
			out = rc.checkNew(tx)
		case "recheck":
			// preferably a transaction that is sitting in the mempool since before the last commit
			done := false
			for i, p := range rc.pending {
				acc := rc.App.AccountKeeper.GetAccount(rc.checkCtx(), rc.byName[p.tx.Who[0]].Addr)
				if acc.GetSequence() == p.seq {
					tx = p.tx
					out = rc.checkBytes(p.bz, true)
					rc.pending = append(rc.pending[:i], rc.pending[i+1:]...)
					rc.kinds["recheck-of-pending"]++
					done = true
					break
				}
			}
			if !done { // nothing is pending (only what the node let in can be rechecked): a fresh CheckTx instead
				mode = "check"
				tx = rc.randTx(mode)
				out = rc.checkNew(tx)
			}
		case "sim":
			tx = rc.randTx(mode)
			tx.Sig = "good"
			out = rc.simulate(tx)
		}
		rc.emitTx(mode, tx, out)
	}
}

func mustPoolAddr(w *world, p *poolT) sdk.AccAddress {
	pi, err := w.App.GAMMKeeper.GetPoolAndPoke(w.Ctx, p.Id)
	if err != nil {
		panic(err)
	}
	return pi.GetAddress()
}

func TestRecord(t *testing.T) {
	out := os.Getenv("VERIF_OUT")
	if out == "" {
		t.Skip("VERIF_OUT not set")
	}
	seed := tracelog.EnvInt("VERIF_SEED", 1)
	nh := int(tracelog.EnvInt("VERIF_HISTORIES", 8))
	nops := int(tracelog.EnvInt("VERIF_OPS", 60))
	wr, err := tracelog.NewWriter(out)
	if err != nil {
		t.Fatal(err)
	}
	defer wr.Close()
	kinds := map[string]int{}
	shard, nsh := 0, 1
	if s := os.Getenv("VERIF_SHARD"); s != "" {
		fmt.Sscanf(s, "%d/%d", &shard, &nsh)
	}
	for h := 0; h < nh; h++ {
		if h%nsh != shard {
			continue
		}
		r := rand.New(rand.NewSource(seed*1_000_003 + int64(h)))
		o := randOpts(r)
		w := newWorld(t, o)
		b := o.Base
		denoms := []string{b, "ufa", "ufb", "ufc", "ufz"}
		payers := []string{"A1", "A2", "A3"}
		setters := []string{"A2"}
		rich, mid := pow10(13), pow10(7)
		bal := map[string]map[string]*big.Int{"A1": {}, "A2": {}, "A3": {}}
		for _, d := range denoms {
			bal["A1"][d] = rich
			bal["A2"][d] = new(big.Int).Mul(mid, big.NewInt(int64(1+r.Intn(9))))
			bal["A3"][d] = big.NewInt(int64(r.Intn(30000)))
		}
		w1 := func() int64 { return pick(r, int64(1), 1, 1, 2, 3, 5) }
		pools := []poolSpec{
			{Denoms: []string{b, "ufa"}, Res: []*big.Int{randRes(r), randRes(r)}, Weights: []int64{w1(), w1()}},
			{Denoms: []string{b, "ufb"}, Res: []*big.Int{randRes(r), randRes(r)}, Weights: []int64{w1(), w1()}},
			{Denoms: []string{"ufa", "ufb"}, Res: []*big.Int{randRes(r), randRes(r)}, Weights: []int64{1, 1}},
			{Denoms: []string{b, "ufa"}, Res: []*big.Int{randRes(r), randRes(r)}, Weights: []int64{w1(), w1()}},
			{Denoms: []string{b, "ufc", "ufa"}, Res: []*big.Int{randRes(r), randRes(r), randRes(r)}, Weights: []int64{w1(), w1(), w1()}},
		}
		w.begin(fmt.Sprintf("rec-%d-%d", seed, h), denoms, payers, setters, bal, pools)
		rc := &recorder{world: w, r: r, out: wr, kinds: kinds}
		rc.emit(map[string]any{"e": "cfg", "id": h, "cf": cfJ(w, h, payers, setters)})
		if r.Intn(4) > 0 { // most chains start with some fee tokens
			fts := []ftJ{{D: "ufa", P: int(w.pools[pick(r, 0, 3, 4)].Id)}}
			if r.Intn(2) == 0 {
				fts = append(fts, ftJ{D: "ufb", P: int(w.pools[1].Id)})
			}
			if r.Intn(3) == 0 {
				fts = append(fts, ftJ{D: "ufc", P: int(w.pools[4].Id)})
			}
			ok, err := rc.gov(fts)
			rc.emit(map[string]any{"e": "gov", "fts": fts, "ok": ok, "err": clip(err)})
		}
		for i := 0; i < nops; i++ {
			rc.step()
		}
	}
	fmt.Printf("recorded %d events of %d histories; %v\n", wr.N, nh, kinds)
}
