package gamm

import (
	"fmt"
	"os"
	"testing"

	sdk "github.com/cosmos/cosmos-sdk/types"

	"github.com/osmosis-labs/osmosis/osmomath"
	gammtypes "github.com/osmosis-labs/osmosis/v31/x/gamm/types"
	pmtypes "github.com/osmosis-labs/osmosis/v31/x/poolmanager/types"

	"verif/harness/app/gammworld"
)

// TestReproDrain: minimal reproduction of the C02 finding "a balancer swap that pays out the
// whole reserve of an asset leaves the pool record unchanged for that asset".
// Run with VERIF_REPRO=1.
func TestReproDrain(t *testing.T) {
	if os.Getenv("VERIF_REPRO") == "" {
		t.Skip("VERIF_REPRO not set")
	}
	w := gammworld.New(t)
	w.SetPoolCreationFee(sdk.NewCoins())
	w.AddActors(2, 1, sdk.NewCoins(sdk.NewCoin("aaa", gammworld.Pow10(12)), sdk.NewCoin("bbb", gammworld.Pow10(12))))
	id, _, o := w.CreateBalancer(w.Actors[0], gammworld.BalancerSpec{SpreadFactor: osmomath.ZeroDec(), ExitFee: osmomath.ZeroDec(),
		Assets: []gammworld.BalancerAsset{{Denom: "aaa", Amount: osmomath.NewInt(1000), Weight: 1000}, {Denom: "bbb", Amount: osmomath.NewInt(5000), Weight: 1}}})
	if !o.OK {
		t.Fatal(o.Err)
	}
	show := func(tag string) {
		v, _ := w.Pool(w.Ctx, id)
		fmt.Printf("%s: pool reports %s ; bank holds %s\n", tag, v.Reserves, w.Balances(v.Addr))
	}
	show("before")
	res, o := w.Msg(&pmtypes.MsgSwapExactAmountIn{Sender: w.Actors[1].String(), Routes: []pmtypes.SwapAmountInRoute{{PoolId: id, TokenOutDenom: "bbb"}},
		TokenIn: sdk.NewCoin("aaa", osmomath.NewInt(1000)), TokenOutMinAmount: osmomath.OneInt()})
	fmt.Printf("swap 1000aaa -> bbb: ok=%v err=%q legs=%v\n", o.OK, o.Err, gammworld.SwapLegs(res))
	show("after ")
	// the LP can no longer leave
	res2, o2 := w.Msg(&gammtypes.MsgExitPool{Sender: w.Actors[0].String(), PoolId: id, ShareInAmount: gammworld.Pow10(19)})
	_ = res2
	fmt.Printf("exit 10%% of the shares: ok=%v err=%q\n", o2.OK, o2.Err)
}
