// Recorder and replayer binding the real x/mint keeper (epoch hook
// AfterEpochEnd, DistributeMintedCoin, the pool-incentives AfterDistributeMintedCoin
// hook behind it) on a full app to spec/Mint.tla (C18).
package mint

import (
	"encoding/json"
	"fmt"
	"math/big"
	"math/rand"
	"os"
	"sort"
	"testing"

	"cosmossdk.io/log"
	sdk "github.com/cosmos/cosmos-sdk/types"
	authtypes "github.com/cosmos/cosmos-sdk/x/auth/types"
	distrtypes "github.com/cosmos/cosmos-sdk/x/distribution/types"

	"github.com/osmosis-labs/osmosis/osmomath"
	appparams "github.com/osmosis-labs/osmosis/v31/app/params"
	incentivestypes "github.com/osmosis-labs/osmosis/v31/x/incentives/types"
	minttypes "github.com/osmosis-labs/osmosis/v31/x/mint/types"
	pitypes "github.com/osmosis-labs/osmosis/v31/x/pool-incentives/types"

	"verif/harness/apphelp"
	"verif/harness/tracelog"
)

// world: one app, the mint denom, the distinct developer reward receiver accounts.
type world struct {
	*apphelp.World
	den    string
	rcv    []sdk.AccAddress
	gauges []uint64 // perpetual gauges of a balancer pool (created on demand)
}

func newWorld(t *testing.T) *world {
	w := &world{World: apphelp.New(t)}
	w.Ctx = w.Ctx.WithLogger(log.NewNopLogger())
	// as on the real chain, the mint denom is the base coin unit (gauges accept it without a route)
	w.den = appparams.BaseCoinUnit
	w.App.PoolIncentivesKeeper.SetParams(w.Ctx, pitypes.Params{MintedDenom: w.den})
	return w
}

func (w *world) modBal(name string) osmomath.Int {
	return w.App.BankKeeper.GetBalance(w.Ctx, w.App.AccountKeeper.GetModuleAddress(name), w.den).Amount
}

// the community pool proper (fee pool of x/distribution), integer part; ok=false when it has a fraction
func (w *world) community() (osmomath.Int, bool) {
	fp, err := w.App.DistrKeeper.FeePool.Get(w.Ctx)
	if err != nil {
		panic(err)
	}
	d := fp.CommunityPool.AmountOf(w.den)
	return d.TruncateInt(), d.Equal(d.TruncateDec())
}

type ledgers struct {
	Mint tracelog.Big `json:"mint"`
	Fee  tracelog.Big `json:"fee"`
	Pool tracelog.Big `json:"pool"`
	Inc  tracelog.Big `json:"inc"`
	Comm tracelog.Big `json:"comm"`
	Vest tracelog.Big `json:"vest"`
}

// state is the projection of the real state onto the variables of Mint.tla.
type state struct {
	Prov    tracelog.Big   `json:"prov"` // raw Dec (scaled by 10^18)
	LastRed int64          `json:"lastRed"`
	Bal     ledgers        `json:"bal"`
	Rcv     []tracelog.Big `json:"rcv"`
	Supply  tracelog.Big   `json:"supply"` // GetSupplyWithOffset
	Offset  tracelog.Big   `json:"offset"` // GetSupplyOffset
	Raw     tracelog.Big   `json:"raw"`    // GetSupply
	Distr   tracelog.Big   `json:"distr"`  // bank balance of the distribution module account
}

func (w *world) state() state {
	g := w.App.MintKeeper.ExportGenesis(w.Ctx)
	comm, whole := w.community()
	if !whole {
		panic("community pool holds a fractional amount of the mint denom: projection does not apply")
	}
	s := state{
		Prov: apphelp.BigD(g.Minter.EpochProvisions), LastRed: g.ReductionStartedEpoch,
		Bal: ledgers{
			Mint: apphelp.BigI(w.modBal(minttypes.ModuleName)),
			Fee:  apphelp.BigI(w.modBal(authtypes.FeeCollectorName)),
			Pool: apphelp.BigI(w.modBal(pitypes.ModuleName)),
			Inc:  apphelp.BigI(w.modBal(incentivestypes.ModuleName)),
			Comm: apphelp.BigI(comm),
			Vest: apphelp.BigI(w.modBal(minttypes.DeveloperVestingModuleAcctName)),
		},
		Rcv:    []tracelog.Big{},
		Supply: apphelp.BigI(w.App.BankKeeper.GetSupplyWithOffset(w.Ctx, w.den).Amount),
		Offset: apphelp.BigI(w.App.BankKeeper.GetSupplyOffset(w.Ctx, w.den)),
		Raw:    apphelp.BigI(w.App.BankKeeper.GetSupply(w.Ctx, w.den).Amount),
		Distr:  apphelp.BigI(w.modBal(distrtypes.ModuleName)),
	}
	for _, a := range w.rcv {
		s.Rcv = append(s.Rcv, apphelp.BigI(w.App.BankKeeper.GetBalance(w.Ctx, a, w.den).Amount))
	}
	return s
}

// setVesting brings the developer vesting account to the given balance the way
// genesis funds it: coins minted into the account, excluded from the reported
// supply through the supply offset (and the reverse to lower it).
func (w *world) setVesting(target osmomath.Int) {
	cur := w.modBal(minttypes.DeveloperVestingModuleAcctName)
	bk := w.App.BankKeeper
	switch {
	case target.GT(cur):
		d := target.Sub(cur)
		if err := bk.MintCoins(w.Ctx, minttypes.DeveloperVestingModuleAcctName, sdk.NewCoins(sdk.NewCoin(w.den, d))); err != nil {
			panic(err)
		}
		bk.AddSupplyOffset(w.Ctx, w.den, d.Neg())
	case target.LT(cur):
		d := cur.Sub(target)
		cs := sdk.NewCoins(sdk.NewCoin(w.den, d))
		if err := bk.SendCoinsFromModuleToModule(w.Ctx, minttypes.DeveloperVestingModuleAcctName, minttypes.ModuleName, cs); err != nil {
			panic(err)
		}
		if err := bk.BurnCoins(w.Ctx, minttypes.ModuleName, cs); err != nil {
			panic(err)
		}
		bk.AddSupplyOffset(w.Ctx, w.den, d)
	}
}

// setPoolIncentives configures what the pool-incentives hook does with its share:
// "none": no distribution records (all to the community pool); "zero": a record list of total weight zero (same); "gauges": records for
// real gauges only; "mixed": gauge 0 (= community pool) and real gauges.
func (w *world) setPoolIncentives(kind string, weights []int64) {
	if kind != "none" && kind != "zero" && len(w.gauges) == 0 {
		pid := w.PrepareBalancerPool()
		for _, d := range w.App.PoolIncentivesKeeper.GetLockableDurations(w.Ctx) {
			g, err := w.App.PoolIncentivesKeeper.GetPoolGaugeId(w.Ctx, pid, d)
			if err != nil {
				panic(err)
			}
			w.gauges = append(w.gauges, g)
		}
		sort.Slice(w.gauges, func(i, j int) bool { return w.gauges[i] < w.gauges[j] })
	}
	recs := []pitypes.DistrRecord{}
	switch kind {
	case "none":
	case "zero": // records exist, their weights are all zero (how governance says "no incentivised pool"): all to the community pool
		recs = append(recs, pitypes.DistrRecord{GaugeId: 0, Weight: osmomath.ZeroInt()})
	case "gauges":
		for i, g := range w.gauges {
			if i < len(weights) && weights[i] > 0 {
				recs = append(recs, pitypes.DistrRecord{GaugeId: g, Weight: osmomath.NewInt(weights[i])})
			}
		}
	case "mixed":
		recs = append(recs, pitypes.DistrRecord{GaugeId: 0, Weight: osmomath.NewInt(weights[0])})
		for i, g := range w.gauges {
			if i+1 < len(weights) && weights[i+1] > 0 {
				recs = append(recs, pitypes.DistrRecord{GaugeId: g, Weight: osmomath.NewInt(weights[i+1])})
			}
		}
	}
	if err := w.App.PoolIncentivesKeeper.ReplaceDistrRecords(w.Ctx, recs...); err != nil {
		panic(err)
	}
}

// install sets parameters, minter and last reduction epoch through the module's genesis entry point.
func (w *world) install(p minttypes.Params, lastRed int64) {
	p.MintDenom = w.den
	if err := p.Validate(); err != nil {
		panic(fmt.Sprintf("generated invalid params: %v", err))
	}
	w.App.MintKeeper.InitGenesis(w.Ctx, &minttypes.GenesisState{
		Minter: minttypes.Minter{EpochProvisions: p.GenesisEpochProvisions}, Params: p, ReductionStartedEpoch: lastRed})
}

func (w *world) epochEnd(ident string, n int64) apphelp.Outcome {
	return w.Try(func(ctx sdk.Context) error { return w.App.MintKeeper.AfterEpochEnd(ctx, ident, n) })
}

// ---------------------------------------------------------------------------
// random parameter sets

var ten = big.NewInt(10)

func pow10(k int) *big.Int { return new(big.Int).Exp(ten, big.NewInt(int64(k)), nil) }

func decRaw(x *big.Int) osmomath.Dec { return osmomath.NewDecFromBigIntWithPrec(x, 18) }

// randBelow returns a uniform integer in [0, n], n < 10^19
func randUpTo(rng *rand.Rand, n *big.Int) *big.Int {
	return new(big.Int).Rand(rng, new(big.Int).Add(n, big.NewInt(1)))
}

// split returns k non-negative raw Decs summing to exactly 1, on a grid of 10^-g,
// with zeros allowed (allowZero) or every part positive.
func split(rng *rand.Rand, k int, g int, allowZero bool) []*big.Int {
	units := pow10(g)
	scale := pow10(18 - g)
	for {
		cuts := make([]*big.Int, 0, k+1)
		cuts = append(cuts, big.NewInt(0))
		for i := 0; i < k-1; i++ {
			c := randUpTo(rng, units)
			if allowZero && rng.Intn(6) == 0 { // coinciding cuts: zero parts
				c = new(big.Int).Set(cuts[rng.Intn(len(cuts))])
			}
			cuts = append(cuts, c)
		}
		cuts = append(cuts, units)
		sort.Slice(cuts, func(i, j int) bool { return cuts[i].Cmp(cuts[j]) < 0 })
		parts := make([]*big.Int, k)
		ok := true
		for i := 0; i < k; i++ {
			parts[i] = new(big.Int).Mul(new(big.Int).Sub(cuts[i+1], cuts[i]), scale)
			if !allowZero && parts[i].Sign() == 0 {
				ok = false
			}
		}
		if ok {
			rng.Shuffle(k, func(i, j int) { parts[i], parts[j] = parts[j], parts[i] })
			return parts
		}
	}
}

var grids = []int{1, 1, 2, 2, 3, 6, 18, 18}

type recvEntry struct {
	W  tracelog.Big `json:"w"`
	To int          `json:"to"`
}

type history struct {
	params  minttypes.Params
	base    int64 // last epoch before the first one driven
	lastRed int64
	recv    []recvEntry
	nrcv    int
	pi      string
	piW     []int64
	vest    osmomath.Int
	epochs  int
}

// hi (the history index) cycles through the dimensions every run must cover: what
// pool-incentives does with its share (hi%5), where the history begins relative to the start epoch
// (hi%3), the shape of the receiver list (hi%7), an underfunded vesting account (hi%8 == 5).
func genHistory(rng *rand.Rand, w *world, hi, minEpochs, maxEpochs int) history {
	h := history{}
	h.epochs = minEpochs + rng.Intn(maxEpochs-minEpochs+1)
	p := w.App.MintKeeper.GetParams(w.Ctx)
	p.EpochIdentifier = []string{"week", "day", "hour"}[rng.Intn(3)]

	// proportions
	var pr []*big.Int
	switch rng.Intn(8) {
	case 0: // everything to one recipient
		pr = []*big.Int{pow10(18), big.NewInt(0), big.NewInt(0), big.NewInt(0)}
		rng.Shuffle(4, func(i, j int) { pr[i], pr[j] = pr[j], pr[i] })
	case 1: // the defaults
		pr = []*big.Int{p.DistributionProportions.Staking.BigInt(), p.DistributionProportions.PoolIncentives.BigInt(),
			p.DistributionProportions.DeveloperRewards.BigInt(), p.DistributionProportions.CommunityPool.BigInt()}
	default:
		pr = split(rng, 4, grids[rng.Intn(len(grids))], true)
	}
	p.DistributionProportions = minttypes.DistributionProportions{Staking: decRaw(pr[0]), PoolIncentives: decRaw(pr[1]),
		DeveloperRewards: decRaw(pr[2]), CommunityPool: decRaw(pr[3])}

	// reduction factor in [0,1]
	switch rng.Intn(10) {
	case 0:
		p.ReductionFactor = osmomath.OneDec()
	case 1:
		p.ReductionFactor = osmomath.NewDec(2).Quo(osmomath.NewDec(3))
	case 2:
		p.ReductionFactor = osmomath.NewDecWithPrec(5, 1)
	case 3:
		p.ReductionFactor = osmomath.NewDecWithPrec(int64(rng.Intn(101)), 2)
	case 4:
		if rng.Intn(3) == 0 {
			p.ReductionFactor = osmomath.ZeroDec()
		} else {
			p.ReductionFactor = osmomath.NewDecWithPrec(int64(90+rng.Intn(10)), 2)
		}
	default:
		p.ReductionFactor = decRaw(randUpTo(rng, pow10(18)))
	}

	// reduction period: several reductions within the history, sometimes none
	maxP := h.epochs / 3
	if maxP < 2 {
		maxP = 2
	}
	switch rng.Intn(10) {
	case 0:
		p.ReductionPeriodInEpochs = 1
	case 1:
		p.ReductionPeriodInEpochs = int64(h.epochs + rng.Intn(100))
	case 2, 3, 4:
		p.ReductionPeriodInEpochs = int64(1 + rng.Intn(6))
	default:
		p.ReductionPeriodInEpochs = int64(1 + rng.Intn(maxP))
	}
	period := p.ReductionPeriodInEpochs

	// where the history begins relative to the start epoch
	switch rng.Intn(3) {
	case 0:
		h.base = 0
	case 1:
		h.base = int64(rng.Intn(40))
	default:
		h.base = int64(rng.Intn(2_000_000))
	}
	switch hi % 3 {
	case 0: // the chain default: start epoch 0, never seen by the hook (epochs count from 1)
		p.MintingRewardsDistributionStartEpoch = 0
		h.base = int64(rng.Intn(int(period))) // consistent with lastRed = 0
		h.lastRed = 0
	case 1: // the history begins after the start epoch, in the middle of a reduction period
		back := int64(rng.Intn(int(period)))
		if back > h.base {
			back = h.base
		}
		h.lastRed = h.base - back
		p.MintingRewardsDistributionStartEpoch = int64(rng.Int63n(h.lastRed + 1))
	default: // the history begins before (or at) the start epoch
		p.MintingRewardsDistributionStartEpoch = h.base + 1 + int64(rng.Intn(1+h.epochs/4))
		if rng.Intn(2) == 0 {
			h.lastRed = int64(rng.Int63n(h.base + 1))
		}
	}

	// initial provision in [1, 10^13], log-uniform, with or without a fractional part
	d := rng.Intn(14)
	ip := new(big.Int).Add(pow10(d), randUpTo(rng, new(big.Int).Mul(pow10(d), big.NewInt(9))))
	if ip.Cmp(pow10(13)) > 0 || rng.Intn(40) == 0 {
		ip = pow10(13)
	}
	raw := new(big.Int).Mul(ip, pow10(18))
	if rng.Intn(4) != 0 && ip.Cmp(pow10(13)) < 0 {
		raw.Add(raw, randUpTo(rng, new(big.Int).Sub(pow10(18), big.NewInt(1))))
	}
	p.GenesisEpochProvisions = decRaw(raw)

	if hi%8 == 1 { // a quickly decaying schedule: the provision falls below one coin, nothing is minted any more
		p.ReductionFactor = osmomath.NewDecWithPrec(5, 1)
		p.ReductionPeriodInEpochs = int64(1 + rng.Intn(3))
		if st, per := p.MintingRewardsDistributionStartEpoch, p.ReductionPeriodInEpochs; st <= h.base &&
			!(h.lastRed > h.base-per && h.lastRed <= h.base) {
			// the history begins after the start epoch: keep it inside the current (now shorter) reduction period
			span := per
			if h.base-st+1 < span {
				span = h.base - st + 1
			}
			h.lastRed = h.base - rng.Int63n(span)
		}
		raw = new(big.Int).Add(new(big.Int).Mul(big.NewInt(int64(1+rng.Intn(9))), pow10(18)), randUpTo(rng, pow10(17)))
		ip = new(big.Int).Quo(raw, pow10(18))
		p.GenesisEpochProvisions = decRaw(raw)
	}

	// developer reward receivers
	p.WeightedDeveloperRewardsReceivers = []minttypes.WeightedAddress{}
	h.recv = []recvEntry{}
	nEntries := 0
	switch hi % 7 {
	case 0:
		nEntries = 0
	case 1:
		nEntries = 1
	case 2, 3:
		nEntries = 2
	case 4:
		nEntries = 3
	default:
		nEntries = 2 + rng.Intn(15)
	}
	if nEntries > 0 {
		g := grids[rng.Intn(len(grids))]
		for pow10(g).Cmp(big.NewInt(int64(nEntries))) < 0 {
			g++
		}
		var ws []*big.Int
		if rng.Intn(5) == 0 && nEntries > 1 { // equal weights, the last one absorbs the difference
			ws = make([]*big.Int, nEntries)
			each := new(big.Int).Quo(pow10(18), big.NewInt(int64(nEntries)))
			sum := big.NewInt(0)
			for i := 0; i < nEntries-1; i++ {
				ws[i] = each
				sum.Add(sum, each)
			}
			ws[nEntries-1] = new(big.Int).Sub(pow10(18), sum)
		} else {
			ws = split(rng, nEntries, g, false)
		}
		pEmpty := []int{0, 20, 20, 50, 100}[rng.Intn(5)]
		for i := 0; i < nEntries; i++ {
			to := 0
			addr := ""
			if rng.Intn(100) >= pEmpty && !(hi%7 == 2 && i == 0) { // hi%7 == 2: the first entry has the empty address
				if h.nrcv > 0 && rng.Intn(8) == 0 { // the same account listed twice
					to = 1 + rng.Intn(h.nrcv)
				} else {
					h.nrcv++
					to = h.nrcv
				}
				addr = apphelp.Acct(to).String()
			}
			p.WeightedDeveloperRewardsReceivers = append(p.WeightedDeveloperRewardsReceivers,
				minttypes.WeightedAddress{Address: addr, Weight: decRaw(ws[i])})
			h.recv = append(h.recv, recvEntry{W: tracelog.EncBig(ws[i]), To: to})
		}
	}

	// what pool-incentives does with its share
	h.pi = []string{"none", "gauges", "mixed", "gauges", "zero"}[hi%5]
	for i := 0; i < 4; i++ {
		h.piW = append(h.piW, int64(rng.Intn(1000)))
	}
	h.piW[0]++
	h.piW[1]++

	// developer vesting account: funded for the whole history, or (1 in 8) running dry part-way
	need := new(big.Int).Mul(ip, big.NewInt(int64(h.epochs)))
	h.vest = osmomath.NewIntFromBigInt(new(big.Int).Add(need, randUpTo(rng, pow10(15))))
	if hi%8 == 5 {
		devPerEpoch := new(big.Int).Quo(new(big.Int).Mul(ip, pr[2]), pow10(18))
		if devPerEpoch.Sign() == 0 { // make sure there is a developer share to run out of
			pr = []*big.Int{pow10(17), pow10(17), new(big.Int).Mul(big.NewInt(7), pow10(17)), pow10(17)}
			p.DistributionProportions = minttypes.DistributionProportions{Staking: decRaw(pr[0]), PoolIncentives: decRaw(pr[1]),
				DeveloperRewards: decRaw(pr[2]), CommunityPool: decRaw(pr[3])}
			raw.Add(raw, new(big.Int).Mul(big.NewInt(10), pow10(18)))
			p.GenesisEpochProvisions = decRaw(raw)
			devPerEpoch = big.NewInt(7)
		}
		k := rng.Intn(h.epochs)
		if hi%16 == 5 { // constant provision, dry within the first half: failures are certain
			p.ReductionFactor = osmomath.OneDec()
			k = rng.Intn(1 + h.epochs/2)
		}
		h.vest = osmomath.NewIntFromBigInt(new(big.Int).Mul(devPerEpoch, big.NewInt(int64(k))))
	}
	h.params = p
	return h
}

func confEvent(id int, h history, st state) map[string]any {
	p := h.params
	return map[string]any{"e": "cfg", "id": id,
		"start": p.MintingRewardsDistributionStartEpoch, "period": p.ReductionPeriodInEpochs,
		"factor": apphelp.BigD(p.ReductionFactor),
		"ps":     apphelp.BigD(p.DistributionProportions.Staking), "pp": apphelp.BigD(p.DistributionProportions.PoolIncentives),
		"pd": apphelp.BigD(p.DistributionProportions.DeveloperRewards), "pc": apphelp.BigD(p.DistributionProportions.CommunityPool),
		"recv": h.recv, "nrcv": h.nrcv, "pi": h.pi, "ident": p.EpochIdentifier,
		"epoch": h.base, "st": st}
}

// ---------------------------------------------------------------------------
// impl -> spec: random parameter sets x consecutive real epoch ends, recorded as ndjson

func TestRecord(t *testing.T) {
	out := os.Getenv("VERIF_OUT")
	if out == "" {
		t.Skip("VERIF_OUT not set")
	}
	seed := tracelog.EnvInt("VERIF_SEED", 1)
	nh := int(tracelog.EnvInt("VERIF_HISTORIES", 8))
	minE := int(tracelog.EnvInt("VERIF_MIN_EPOCHS", 50))
	maxE := int(tracelog.EnvInt("VERIF_MAX_EPOCHS", 120))
	rng := rand.New(rand.NewSource(seed*7919 + 18))
	tw, err := tracelog.NewWriter(out)
	if err != nil {
		t.Fatal(err)
	}
	epochs, fails, others := 0, 0, 0
	for hi := 0; hi < nh; hi++ {
		w := newWorld(t)
		h := genHistory(rng, w, hi, minE, maxE)
		for i := 1; i <= h.nrcv; i++ {
			w.rcv = append(w.rcv, apphelp.Acct(i))
		}
		w.setPoolIncentives(h.pi, h.piW)
		w.setVesting(h.vest)
		w.install(h.params, h.lastRed)
		tw.Emit(confEvent(hi+1, h, w.state()))
		for i := 1; i <= h.epochs; i++ {
			n := h.base + int64(i)
			if rng.Intn(25) == 0 { // a signal of some other epoch timer
				id := "verif-other"
				if rng.Intn(2) == 0 {
					id = map[string]string{"week": "day", "day": "hour", "hour": "week"}[h.params.EpochIdentifier]
				}
				oc := w.epochEnd(id, n)
				tw.Emit(map[string]any{"e": "other", "ident": id, "n": n, "ok": oc.OK, "err": oc.Err, "st": w.state()})
				others++
			}
			oc := w.epochEnd(h.params.EpochIdentifier, n)
			tw.Emit(map[string]any{"e": "epoch", "n": n, "ok": oc.OK, "panicked": oc.Panicked, "err": oc.Err, "st": w.state()})
			epochs++
			if !oc.OK {
				fails++
			}
		}
	}
	if err := tw.Close(); err != nil {
		t.Fatal(err)
	}
	fmt.Printf("RECORDED events=%d histories=%d epochs=%d failed=%d other=%d\n", tw.N, nh, epochs, fails, others)
}

// ---------------------------------------------------------------------------
// spec -> impl: behaviours of the bounded model (scale 10^2, all reductions exact)
// executed on the real keeper and compared after every epoch

type genLedgers struct {
	Mint, Fee, Pool, Inc, Comm, Vest int64
}

func (g *genLedgers) UnmarshalJSON(b []byte) error {
	var m map[string]int64
	if err := json.Unmarshal(b, &m); err != nil {
		return err
	}
	*g = genLedgers{m["mint"], m["fee"], m["pool"], m["inc"], m["comm"], m["vest"]}
	return nil
}

type genStep struct {
	N       int64      `json:"n"`
	Kind    string     `json:"kind"` // init | skip | end | fail
	Prov    int64      `json:"prov"`
	LastRed int64      `json:"lastRed"`
	Bal     genLedgers `json:"bal"`
	Rcv     []int64    `json:"rcv"`
	Supply  int64      `json:"supply"`
	Offset  int64      `json:"offset"`
	Dust    int64      `json:"dust"` // developer rounding remainder the specification sends to the community pool
	Dev     int64      `json:"dev"`  // developer share of the epoch
}

type genConf struct {
	Start  int64 `json:"start"`
	Period int64 `json:"period"`
	Factor int64 `json:"factor"`
	Ps     int64 `json:"ps"`
	Pp     int64 `json:"pp"`
	Pd     int64 `json:"pd"`
	Pc     int64 `json:"pc"`
	Recv   []struct {
		W  int64 `json:"w"`
		To int   `json:"to"`
	} `json:"recv"`
	Nrcv int    `json:"nrcv"`
	Pi   string `json:"pi"`
}

type behaviour struct {
	Conf  genConf   `json:"conf"`
	Steps []genStep `json:"steps"`
}

type mismatch struct {
	Behaviour int    `json:"behaviour"`
	Step      int    `json:"step"`
	What      string `json:"what"`
	Want      any    `json:"want"`
	Got       any    `json:"got"`
}

func dec2(v int64) osmomath.Dec { return osmomath.NewDecWithPrec(v, 2) }

func i64(x osmomath.Int) int64 { return x.Int64() }

func TestReplay(t *testing.T) {
	in := os.Getenv("VERIF_IN")
	if in == "" {
		t.Skip("VERIF_IN not set")
	}
	out := tracelog.EnvStr("VERIF_OUT", in+".result")
	bs, err := tracelog.ReadLines[behaviour](in)
	if err != nil {
		t.Fatal(err)
	}
	mm := []mismatch{}
	steps, dustEpochs, reductions, failsSeen, diverged := 0, 0, 0, 0, 0
	var dustExample any
	var w *world
	for bi, b := range bs {
		if bi%4000 == 0 {
			w = newWorld(t)
			w.rcv = []sdk.AccAddress{apphelp.Acct(1), apphelp.Acct(2)}
		}
		w.Ctx = w.Ctx.WithEventManager(sdk.NewEventManager())
		c := b.Conf
		p := w.App.MintKeeper.GetParams(w.Ctx)
		init := b.Steps[0]
		p.GenesisEpochProvisions = dec2(init.Prov)
		p.ReductionFactor = dec2(c.Factor)
		p.ReductionPeriodInEpochs = c.Period
		p.MintingRewardsDistributionStartEpoch = c.Start
		p.DistributionProportions = minttypes.DistributionProportions{Staking: dec2(c.Ps), PoolIncentives: dec2(c.Pp),
			DeveloperRewards: dec2(c.Pd), CommunityPool: dec2(c.Pc)}
		p.WeightedDeveloperRewardsReceivers = []minttypes.WeightedAddress{}
		for _, r := range c.Recv {
			addr := ""
			if r.To > 0 {
				addr = apphelp.Acct(r.To).String()
			}
			p.WeightedDeveloperRewardsReceivers = append(p.WeightedDeveloperRewardsReceivers, minttypes.WeightedAddress{Address: addr, Weight: dec2(r.W)})
		}
		w.setPoolIncentives(c.Pi, []int64{1, 0, 0, 0})
		w.setVesting(osmomath.NewInt(init.Bal.Vest))
		w.install(p, init.LastRed)
		// the pool-incentives account must start empty as in the model
		if pb := w.modBal(pitypes.ModuleName); !pb.IsZero() {
			if err := w.App.BankKeeper.SendCoinsFromModuleToModule(w.Ctx, pitypes.ModuleName, distrtypes.ModuleName, sdk.NewCoins(sdk.NewCoin(w.den, pb))); err != nil {
				t.Fatal(err)
			}
		}
		base := w.snapshot()
		known := int64(0) // cumulative developer rounding remainder the code left in the vesting account
		bad := func(si int, what string, want, got any) {
			mm = append(mm, mismatch{Behaviour: bi, Step: si, What: what, Want: want, Got: got})
		}
		for si := 1; si < len(b.Steps); si++ {
			s := b.Steps[si]
			steps++
			oc := w.epochEnd(p.EpochIdentifier, s.N)
			if oc.OK != (s.Kind != "fail") {
				// The remainders the code has kept in the vesting account (the known deviation) can make the real
				// account cover a developer share the model's account cannot: from here on the behaviour is not the
				// model's any more.  Anything else is a mismatch.
				prevVest := b.Steps[si-1].Bal.Vest
				if s.Kind == "fail" && known > 0 && prevVest < s.Dev && s.Dev <= prevVest+known {
					diverged++
				} else {
					bad(si, "outcome", s.Kind, oc)
				}
				break
			}
			if s.Kind == "fail" {
				failsSeen++
			}
			if s.LastRed == s.N && s.N != c.Start {
				reductions++
			}
			cur := w.snapshot()
			g := w.App.MintKeeper.ExportGenesis(w.Ctx)
			if !g.Minter.EpochProvisions.Equal(dec2(s.Prov)) {
				bad(si, "provision", dec2(s.Prov).String(), g.Minter.EpochProvisions.String())
			}
			if g.ReductionStartedEpoch != s.LastRed {
				bad(si, "last reduction epoch", s.LastRed, g.ReductionStartedEpoch)
			}
			// deltas of the real ledgers against deltas of the model's
			d := func(i int) int64 { return cur[i] - base[i] }
			kept := d(5) - (s.Bal.Vest - init.Bal.Vest) - known
			if kept != 0 {
				if s.Dust > 0 && kept == s.Dust {
					known += kept
					dustEpochs++
					if dustExample == nil {
						dustExample = map[string]any{"behaviour": bi, "step": si, "epoch": s.N, "conf": c, "kept_in_vesting": kept}
					}
				} else {
					bad(si, "developer vesting account", s.Bal.Vest-init.Bal.Vest+known, d(5))
				}
			}
			cmp := func(what string, want, got int64) {
				if want != got {
					bad(si, what, want, got)
				}
			}
			cmp("mint account", s.Bal.Mint-init.Bal.Mint, d(0))
			if cur[0] != 0 {
				bad(si, "mint account not empty", 0, cur[0])
			}
			cmp("fee collector", s.Bal.Fee-init.Bal.Fee, d(1))
			cmp("pool-incentives account", s.Bal.Pool-init.Bal.Pool, d(2))
			cmp("incentives account", s.Bal.Inc-init.Bal.Inc, d(3))
			cmp("community pool", s.Bal.Comm-init.Bal.Comm-known, d(4))
			cmp("reported supply", s.Supply-init.Supply-known, d(6))
			cmp("supply offset", s.Offset-init.Offset-known, d(7))
			for k := range s.Rcv {
				cmp(fmt.Sprintf("receiver %d", k+1), s.Rcv[k]-init.Rcv[k], d(8+k))
			}
			if len(mm) > 0 && mm[len(mm)-1].Behaviour == bi {
				break
			}
		}
		if len(mm) >= 20 {
			break
		}
	}
	res := map[string]any{"behaviours": len(bs), "steps": steps, "mismatches": mm, "dust_epochs": dustEpochs,
		"reductions": reductions, "fails": failsSeen, "diverged_after_known": diverged}
	if dustExample != nil {
		res["dust_example"] = dustExample
	}
	bz, _ := json.Marshal(res)
	if err := os.WriteFile(out, bz, 0o644); err != nil {
		t.Fatal(err)
	}
	fmt.Printf("REPLAYED behaviours=%d steps=%d mismatches=%d dust_epochs=%d\n", len(bs), steps, len(mm), dustEpochs)
}

// snapshot: mint, fee, pool, inc, comm, vest, supply, offset, receivers...
func (w *world) snapshot() []int64 {
	comm, _ := w.community()
	r := []int64{i64(w.modBal(minttypes.ModuleName)), i64(w.modBal(authtypes.FeeCollectorName)), i64(w.modBal(pitypes.ModuleName)),
		i64(w.modBal(incentivestypes.ModuleName)), i64(comm), i64(w.modBal(minttypes.DeveloperVestingModuleAcctName)),
		i64(w.App.BankKeeper.GetSupplyWithOffset(w.Ctx, w.den).Amount), i64(w.App.BankKeeper.GetSupplyOffset(w.Ctx, w.den))}
	for _, a := range w.rcv {
		r = append(r, i64(w.App.BankKeeper.GetBalance(w.Ctx, a, w.den).Amount))
	}
	return r
}
