// Recorder and replayer binding the real x/incentives keeper (MsgCreateGauge,
// MsgAddToGauge, the AfterEpochEnd hook) together with the real x/lockup msg
// server on a full OsmosisApp to spec/Incentives.tla (C09).
//
// TestRecord  impl -> spec: seeded random histories of gauge creation, top-ups,
//
//	lock changes, time steps and epoch ends through the real public API; after
//	every call the gauges (by id, with the upcoming / active / finished list each
//	one is found in), the incentives and lockup module accounts, every lock
//	record and every account balance are logged as ndjson for
//	spec/trace/TraceIncentives.tla.
//
// TestReplay  spec -> impl: the behaviours TLC printed for the bounded model
//
//	(spec/mc/MCIncentives.tla; prefix closed) are executed as a tree on nested
//	branches of the real state and compared with the state the specification
//	expects after every action; the calls the specification refuses must fail.
package incentives

import (
	"bufio"
	"encoding/json"
	"fmt"
	"hash/fnv"
	stdbig "math/big"
	"math/rand"
	"os"
	"sort"
	"testing"
	"time"

	"cosmossdk.io/log"
	sdk "github.com/cosmos/cosmos-sdk/types"

	"github.com/osmosis-labs/osmosis/osmomath"
	incentivestypes "github.com/osmosis-labs/osmosis/v31/x/incentives/types"
	lockuptypes "github.com/osmosis-labs/osmosis/v31/x/lockup/types"

	"verif/harness/apphelp"
	"verif/harness/tracelog"
)

var baseTime = time.Unix(1_700_000_000, 0).UTC()

const offGrid = -999999 // a time / duration that is not a whole number of seconds: cannot be right

// ---------------------------------------------------------------------------
// world: one app, named accounts and denominations, valuation pools

type poolSpec struct {
	A, B   string
	RA, RB int64 // reserves
}

type config struct {
	Names     []string
	Denoms    []string
	Fund      map[string]map[string]int64
	MinDenom  string
	MinAmount int64
	Pools     []poolSpec // balancer pools (equal weights, no fee) registered as protorev routes for their pair
	Lockable  []int64    // lockable durations in seconds
	Now       int64
	Big       bool // a "big" history: amounts of foo are counted in units of 10^12 (see bigUnit)
}

// "big" histories.  The specification's integers are TLC's (32 bit), real reward balances of 18-decimals tokens are
// not: in a big history every amount of foo in the log is the real amount divided by bigUnit, and the recorder only
// creates situations in which every amount the code has to compute is a whole number of units:
//   - foo enters gauges in multiples of bigM = lcm(1..12) * lcm(1..6) units,
//   - gauges run over at most 6 epochs, the locks of one denomination hold at most 12 tokens together,
//   - before every epoch end the recorder checks, from the last state it READ (not from anything the code is about
//     to compute), that lcm(1..12) * (remaining epochs) divides the remaining foo of every gauge, and ends the
//     history otherwise.
// Then remaining * lockAmount / (lockSum * remainingEpochs) is a whole number of units for every lock, thresholds
// (a few thousand base units at most) are far below one share, and an amount that is not a whole number of units
// (shown as -1) can only come from a wrong computation.  A gauge of 6..11 * bigM units holds between 2^63 and 2^64
// base units, 12 * bigM and more lie above 2^64.
var bigUnit = new(stdbig.Int).Exp(stdbig.NewInt(10), stdbig.NewInt(12), nil)

const (
	bigLcm12     = 27720
	bigM         = bigLcm12 * 60
	bigMaxGauge  = 60 * bigM // remaining * lock amount (<= 12) stays a native TLC integer
	bigLockUnits = 12
)

func (w *world) toLog(d string, v osmomath.Int) int64 {
	if u := w.unit[d]; u != nil {
		q, r := new(stdbig.Int).QuoRem(v.BigInt(), u, new(stdbig.Int))
		if r.Sign() != 0 || !q.IsInt64() || q.Int64() > 2_000_000_000 {
			return -1
		}
		return q.Int64()
	}
	if !v.IsInt64() || v.Int64() > 2_000_000_000 {
		return -1
	}
	return v.Int64()
}

func (w *world) fromLog(d string, v int64) osmomath.Int {
	if u := w.unit[d]; u != nil {
		return osmomath.NewIntFromBigInt(new(stdbig.Int).Mul(stdbig.NewInt(v), u))
	}
	return osmomath.NewInt(v)
}

type params struct {
	MinAmt    map[string]int64 `json:"minAmt"`    // smallest amount of each denomination worth the configured minimum; -1: not valuable at all
	Creatable []string         `json:"creatable"` // denominations accepted as gauge rewards (route to the base denom)
	FeeDenom  string           `json:"feeDenom"`
	CreateFee int64            `json:"createFee"`
	AddFee    int64            `json:"addFee"`
	Lockable  []int64          `json:"lockable"`
	SpamMax   int64            `json:"spamMax"`    // constants of the code's additional skip rule (distribute.go skipSpamGaugeDistribute)
	SpamFree  string           `json:"spamExempt"` //
	DistrID   string           `json:"distrId"`
	MinDenom  string           `json:"minDenom"`
	MinValue  int64            `json:"minValue"`
}

type world struct {
	*apphelp.World
	names     []string
	addrs     []sdk.AccAddress
	byAddr    map[string]string // bech32 -> name
	denoms    []string
	par       params
	unit      map[string]*stdbig.Int // big histories: denomination -> base units per logged unit
	baseGauge uint64 // gauges up to this id were created by the setup (pool gauges): outside the history
}

func newWorld(t *testing.T, c config) *world {
	w := &world{World: apphelp.New(t), names: c.Names, denoms: c.Denoms, byAddr: map[string]string{}}
	if c.Big {
		w.unit = map[string]*stdbig.Int{"foo": bigUnit}
	}
	w.Ctx = w.Ctx.WithLogger(log.NewNopLogger()).WithBlockTime(baseTime.Add(time.Duration(c.Now) * time.Second)).WithBlockHeight(1000)
	ik := w.App.IncentivesKeeper
	// valuation pools and their routes
	lp := apphelp.Acct(9000)
	_ = lp
	for _, p := range c.Pools {
		id := w.PrepareBalancerPoolWithCoins(sdk.NewCoin(p.A, w.fromLog(p.A, p.RA)), sdk.NewCoin(p.B, w.fromLog(p.B, p.RB)))
		w.App.ProtoRevKeeper.SetPoolForDenomPair(w.Ctx, p.A, p.B, id)
	}
	// as on the real chain, fees are charged in the base coin unit
	if err := w.App.TxFeesKeeper.SetBaseDenom(w.Ctx, "uosmo"); err != nil {
		panic(err)
	}
	pr := ik.GetParams(w.Ctx)
	pr.MinValueForDistribution = sdk.NewCoin(c.MinDenom, osmomath.NewInt(c.MinAmount))
	ik.SetParams(w.Ctx, pr)
	ld := []time.Duration{}
	for _, s := range c.Lockable {
		ld = append(ld, time.Duration(s)*time.Second)
	}
	ik.SetLockableDurations(w.Ctx, ld)
	for i, n := range c.Names {
		a := apphelp.Acct(i + 1)
		if n == "blk" { // a module account that may not receive funds (the gamm module account: holds nothing)
			a = w.App.AccountKeeper.GetModuleAddress("gamm")
			if !w.App.BankKeeper.BlockedAddr(a) {
				panic("the gamm module account is not blocked")
			}
		}
		w.addrs = append(w.addrs, a)
		w.byAddr[a.String()] = n
		cs := sdk.Coins{}
		for _, d := range c.Denoms {
			if v := c.Fund[n][d]; v > 0 {
				cs = cs.Add(sdk.NewCoin(d, w.fromLog(d, v)))
			}
		}
		if !cs.Empty() {
			w.FundAcc(a, cs)
		}
	}
	w.baseGauge = ik.GetLastGaugeID(w.Ctx)
	w.par = w.readParams(c)
	return w
}

// readParams derives what the specification takes as configuration from the app: the fee denom and
// fees, the distribution epoch identifier and, per denomination, the smallest amount worth the
// configured minimum value (through the pool registered for the pair, as a swap of the minimum
// value without fee), -1 when there is no route.
func (w *world) readParams(c config) params {
	ik := w.App.IncentivesKeeper
	fd, err := w.App.TxFeesKeeper.GetBaseDenom(w.Ctx)
	if err != nil {
		panic(err)
	}
	p := params{MinAmt: map[string]int64{}, Creatable: []string{}, FeeDenom: fd,
		CreateFee: incentivestypes.CreateGaugeFee.Int64(), AddFee: incentivestypes.AddToGaugeFee.Int64(),
		Lockable: c.Lockable, SpamMax: 100, SpamFree: "stake", DistrID: ik.GetParams(w.Ctx).DistrEpochIdentifier,
		MinDenom: c.MinDenom, MinValue: c.MinAmount}
	if c.Big {
		p.SpamMax = 0 // 100 base units are less than one unit of foo; the other reward denomination of a big history (stake) is exempt
	}
	minv := ik.GetParams(w.Ctx).MinValueForDistribution
	for _, d := range c.Denoms {
		if d == "uosmo" {
			p.Creatable = append(p.Creatable, d)
		} else if _, err := w.App.ProtoRevKeeper.GetPoolForDenomPairNoOrder(w.Ctx, d, "uosmo"); err == nil {
			p.Creatable = append(p.Creatable, d)
		}
		if d == minv.Denom {
			p.MinAmt[d] = minv.Amount.Int64()
			continue
		}
		pid, err := w.App.ProtoRevKeeper.GetPoolForDenomPairNoOrder(w.Ctx, minv.Denom, d)
		if err != nil {
			p.MinAmt[d] = -1
			continue
		}
		mod, pool, err := w.App.PoolManagerKeeper.GetPoolModuleAndPool(w.Ctx, pid)
		if err != nil {
			panic(err)
		}
		// (a minimum value that buys less than one unit makes the pool calculation fail: every positive
		// amount of such a denomination is worth at least the minimum)
		p.MinAmt[d] = 0
		func() {
			defer func() { _ = recover() }()
			out, err := mod.CalcOutAmtGivenIn(w.Ctx, pool, minv, d, osmomath.ZeroDec())
			if err == nil {
				p.MinAmt[d] = out.Amount.Int64()
				if u := w.unit[d]; u != nil { // the smallest whole number of units that is worth the minimum
					q, r := new(stdbig.Int).QuoRem(out.Amount.BigInt(), u, new(stdbig.Int))
					if r.Sign() != 0 {
						q.Add(q, stdbig.NewInt(1))
					}
					p.MinAmt[d] = q.Int64()
				}
			}
		}()
	}
	return p
}

func (w *world) addr(name string) sdk.AccAddress {
	for i, n := range w.names {
		if n == name {
			return w.addrs[i]
		}
	}
	panic("unknown account " + name)
}

func (w *world) name(bech string) string {
	if n, ok := w.byAddr[bech]; ok {
		return n
	}
	return "?" + bech
}

func secs(t time.Time) int64 {
	d := t.Sub(baseTime)
	if d%time.Second != 0 {
		return offGrid
	}
	return int64(d / time.Second)
}

func durSecs(d time.Duration) int64 {
	if d%time.Second != 0 {
		return offGrid
	}
	return int64(d / time.Second)
}

func (w *world) coinMap(cs sdk.Coins) map[string]int64 {
	m := map[string]int64{}
	for _, d := range w.denoms {
		m[d] = 0
	}
	for _, c := range cs {
		m[c.Denom] = w.toLog(c.Denom, c.Amount) // a denomination outside the history's set shows up as an extra key
	}
	return m
}

// balances of an account restricted to the history's denominations (pool shares etc. are not part of it)
func (w *world) balMap(ctx sdk.Context, a sdk.AccAddress) map[string]int64 {
	m := map[string]int64{}
	for _, d := range w.denoms {
		m[d] = w.toLog(d, w.App.BankKeeper.GetBalance(ctx, a, d).Amount)
	}
	return m
}

func (w *world) coinsOf(m map[string]int64) sdk.Coins {
	cs := sdk.Coins{}
	for _, d := range apphelp.SortedKeys(m) {
		if m[d] != 0 {
			cs = append(cs, sdk.Coin{Denom: d, Amount: w.fromLog(d, m[d])})
		}
	}
	return cs
}

// ---------------------------------------------------------------------------
// projection of the real state

type lockSt struct {
	ID  uint64           `json:"id"`
	O   string           `json:"o"`
	Dur int64            `json:"dur"`
	End int64            `json:"end"`
	C   map[string]int64 `json:"c"`
	RR  string           `json:"rr"`
}

type gaugeSt struct {
	ID     uint64           `json:"id"`
	Perp   bool             `json:"perp"`
	D      string           `json:"d"`
	Dur    int64            `json:"dur"`
	C      map[string]int64 `json:"c"`
	Dist   map[string]int64 `json:"dist"`
	Filled int64            `json:"filled"`
	Num    int64            `json:"num"`
	Start  int64            `json:"start"`
	Status string           `json:"status"` // the one list (upcoming / active / finished) the gauge is referenced from
	Kind   string           `json:"kind"`
}

type stateDoc struct {
	Locks     []lockSt                    `json:"locks"`
	Gauges    []gaugeSt                   `json:"gauges"`
	Bal       map[string]map[string]int64 `json:"bal"`
	Mod       map[string]int64            `json:"mod"` // lockup module account
	Inc       map[string]int64            `json:"inc"` // incentives module account
	Now       int64                       `json:"now"`
	LastID    uint64                      `json:"lastId"`
	LastGauge uint64                      `json:"lastGauge"`
	AllGauges int                         `json:"allGauges"` // number of history gauges the all-gauges iterator returns
}

func (w *world) lockOf(l *lockuptypes.PeriodLock) lockSt {
	s := lockSt{ID: l.ID, O: w.name(l.Owner), Dur: durSecs(l.Duration), C: w.coinMap(l.Coins)}
	if !l.EndTime.Equal(time.Time{}) {
		s.End = secs(l.EndTime)
	}
	if l.RewardReceiverAddress != "" {
		s.RR = w.name(l.RewardReceiverAddress)
	}
	return s
}

func (w *world) project(ctx sdk.Context) stateDoc {
	k := w.App.LockupKeeper
	ik := w.App.IncentivesKeeper
	st := stateDoc{Locks: []lockSt{}, Gauges: []gaugeSt{}, Bal: map[string]map[string]int64{}, Now: secs(ctx.BlockTime()),
		LastID: k.GetLastLockID(ctx), LastGauge: ik.GetLastGaugeID(ctx)}
	for id := uint64(1); id <= st.LastID; id++ {
		l, err := k.GetLockByID(ctx, id)
		if err != nil {
			continue
		}
		st.Locks = append(st.Locks, w.lockOf(l))
	}
	where := map[uint64]string{}
	for _, g := range ik.GetUpcomingGauges(ctx) {
		where[g.Id] += "upcoming"
	}
	for _, g := range ik.GetActiveGauges(ctx) {
		where[g.Id] += "active"
	}
	for _, g := range ik.GetFinishedGauges(ctx) {
		where[g.Id] += "finished"
	}
	for _, g := range ik.GetGauges(ctx) {
		if g.Id > w.baseGauge {
			st.AllGauges++
		}
	}
	for id := w.baseGauge + 1; id <= st.LastGauge; id++ {
		g, err := ik.GetGaugeByID(ctx, id)
		if err != nil {
			continue
		}
		s := gaugeSt{ID: id, Perp: g.IsPerpetual, D: g.DistributeTo.Denom, Dur: durSecs(g.DistributeTo.Duration),
			C: w.coinMap(g.Coins), Dist: w.coinMap(g.DistributedCoins), Filled: int64(g.FilledEpochs), Num: int64(g.NumEpochsPaidOver),
			Start: secs(g.StartTime), Status: where[id], Kind: g.DistributeTo.LockQueryType.String()}
		if s.Status == "" {
			s.Status = "unreferenced"
		}
		st.Gauges = append(st.Gauges, s)
	}
	for i, n := range w.names {
		st.Bal[n] = w.balMap(ctx, w.addrs[i])
	}
	st.Mod = w.balMap(ctx, w.App.AccountKeeper.GetModuleAddress(lockuptypes.ModuleName))
	st.Inc = w.balMap(ctx, w.App.AccountKeeper.GetModuleAddress(incentivestypes.ModuleName))
	return st
}

// ---------------------------------------------------------------------------
// calls

type call struct {
	A     string           `json:"a"`
	O     string           `json:"o"`
	D     string           `json:"d"`
	X     int64            `json:"x"` // duration / time step / epoch number
	Amt   int64            `json:"amt"`
	ID    uint64           `json:"id"`
	R     string           `json:"r"`
	Perp  bool             `json:"perp"`
	C     map[string]int64 `json:"c"` // gauge coins
	Start int64            `json:"start"`
	Num   int64            `json:"num"`
	Ident string           `json:"ident,omitempty"`
}

type outcome struct {
	OK       bool   `json:"ok"`
	Panicked bool   `json:"panicked,omitempty"`
	Err      string `json:"err,omitempty"`
	RID      uint64 `json:"rid"` // id handed out by the code (lock created / added to / lock that starts unlocking / gauge created)
}

// tryOn runs f on a branch of ctx under recover and writes the branch only on success
// (what baseapp does for a transaction and osmoutils.ApplyFuncIfNoError for an epoch hook).
func tryOn(ctx sdk.Context, f func(ctx sdk.Context) error) (out outcome) {
	cc, write := ctx.CacheContext()
	func() {
		defer func() {
			if r := recover(); r != nil {
				out = outcome{OK: false, Panicked: true, Err: fmt.Sprint(r)}
			}
		}()
		if err := f(cc); err != nil {
			out = outcome{OK: false, Err: err.Error()}
			return
		}
		out = outcome{OK: true}
	}()
	if out.OK {
		write()
	}
	return out
}

func (w *world) deliver(ctx sdk.Context, msg sdk.Msg) (*sdk.Result, outcome) {
	if vb, ok := msg.(interface{ ValidateBasic() error }); ok {
		if err := vb.ValidateBasic(); err != nil {
			return nil, outcome{OK: false, Err: "validate-basic: " + err.Error()}
		}
	}
	h := w.App.GetBaseApp().MsgServiceRouter().Handler(msg)
	if h == nil {
		panic(fmt.Sprintf("no handler for %T", msg))
	}
	var res *sdk.Result
	out := tryOn(ctx, func(c sdk.Context) error {
		var err error
		res, err = h(c, msg)
		return err
	})
	return res, out
}

func (w *world) coins(d string, amt int64) sdk.Coins {
	if amt == 0 {
		return sdk.Coins{}
	}
	return sdk.Coins{sdk.Coin{Denom: d, Amount: w.fromLog(d, amt)}}
}

func unpackResponse(res *sdk.Result, into interface{ Unmarshal([]byte) error }) error {
	if res == nil || len(res.MsgResponses) == 0 {
		if res != nil && len(res.Data) > 0 {
			return into.Unmarshal(res.Data)
		}
		return fmt.Errorf("no message response")
	}
	return into.Unmarshal(res.MsgResponses[0].Value)
}

// exec performs one call on ctx.  "advance" is handled by the callers (it changes the context).
func (w *world) exec(ctx sdk.Context, c call) outcome {
	k := w.App.LockupKeeper
	ik := w.App.IncentivesKeeper
	switch c.A {
	case "create":
		before := ik.GetLastGaugeID(ctx)
		msg := incentivestypes.NewMsgCreateGauge(c.Perp, w.addr(c.O),
			lockuptypes.QueryCondition{LockQueryType: lockuptypes.ByDuration, Denom: c.D, Duration: time.Duration(c.X) * time.Second},
			w.coinsOf(c.C), baseTime.Add(time.Duration(c.Start)*time.Second), uint64(c.Num), 0)
		var out outcome
		_, out = w.deliverOn(ctx, msg, func(cc sdk.Context) uint64 { return ik.GetLastGaugeID(cc) })
		if out.OK && out.RID != before+1 {
			out.Err = fmt.Sprintf("gauge id %d after %d", out.RID, before)
		}
		return out
	case "addg":
		_, out := w.deliver(ctx, incentivestypes.NewMsgAddToGauge(w.addr(c.O), c.ID, w.coinsOf(c.C)))
		return out
	case "epoch":
		// the epoch hook as x/epochs runs it: on a branch, dropped on error or panic
		return tryOn(ctx, func(cc sdk.Context) error { return ik.Hooks().AfterEpochEnd(cc, c.Ident, c.X) })
	case "lock":
		res, out := w.deliver(ctx, lockuptypes.NewMsgLockTokens(w.addr(c.O), time.Duration(c.X)*time.Second, w.coins(c.D, c.Amt)))
		if out.OK {
			var r lockuptypes.MsgLockTokensResponse
			if err := unpackResponse(res, &r); err != nil {
				panic(err)
			}
			out.RID = r.ID
		}
		return out
	case "add":
		return tryOn(ctx, func(cc sdk.Context) error {
			_, err := k.AddTokensToLockByID(cc, c.ID, w.addr(c.O), sdk.NewCoin(c.D, osmomath.NewInt(c.Amt)))
			return err
		})
	case "begin":
		res, out := w.deliver(ctx, lockuptypes.NewMsgBeginUnlocking(w.addr(c.O), c.ID, w.coins(c.D, c.Amt)))
		if out.OK {
			var r lockuptypes.MsgBeginUnlockingResponse
			if err := unpackResponse(res, &r); err != nil {
				panic(err)
			}
			out.RID = r.UnlockingLockID
		}
		return out
	case "unlock":
		return tryOn(ctx, func(cc sdk.Context) error { return k.UnlockMaturedLock(cc, c.ID) })
	case "extend":
		_, out := w.deliver(ctx, lockuptypes.NewMsgExtendLockup(w.addr(c.O), c.ID, time.Duration(c.X)*time.Second))
		return out
	case "setrr":
		_, out := w.deliver(ctx, lockuptypes.NewMsgSetRewardReceiverAddress(w.addr(c.O), w.addr(c.R), c.ID))
		return out
	}
	panic("unknown call " + c.A)
}

// deliverOn delivers msg and reads a value from the branch the message ran on (before it is merged)
func (w *world) deliverOn(ctx sdk.Context, msg sdk.Msg, read func(cc sdk.Context) uint64) (*sdk.Result, outcome) {
	if vb, ok := msg.(interface{ ValidateBasic() error }); ok {
		if err := vb.ValidateBasic(); err != nil {
			return nil, outcome{OK: false, Err: "validate-basic: " + err.Error()}
		}
	}
	h := w.App.GetBaseApp().MsgServiceRouter().Handler(msg)
	var res *sdk.Result
	var rid uint64
	out := tryOn(ctx, func(c sdk.Context) error {
		var err error
		res, err = h(c, msg)
		if err == nil {
			rid = read(c)
		}
		return err
	})
	out.RID = rid
	return res, out
}

// ---------------------------------------------------------------------------
// impl -> spec: random histories

type recorder struct {
	kind   string
	w      *world
	rng    *rand.Rand
	tw     *tracelog.Writer
	st     stateDoc
	epochs int64
	counts map[string]int
}

func (r *recorder) pickLock(pred func(l lockSt) bool) (lockSt, bool) {
	c := []lockSt{}
	for _, l := range r.st.Locks {
		if pred == nil || pred(l) {
			c = append(c, l)
		}
	}
	if len(c) == 0 {
		return lockSt{}, false
	}
	return c[r.rng.Intn(len(c))], true
}

func (r *recorder) pickGauge(pred func(g gaugeSt) bool) (gaugeSt, bool) {
	c := []gaugeSt{}
	for _, g := range r.st.Gauges {
		if pred == nil || pred(g) {
			c = append(c, g)
		}
	}
	if len(c) == 0 {
		return gaugeSt{}, false
	}
	return c[r.rng.Intn(len(c))], true
}

func lockDenom(l lockSt) string {
	ks := []string{}
	for d, v := range l.C {
		if v > 0 {
			ks = append(ks, d)
		}
	}
	sort.Strings(ks)
	if len(ks) == 0 {
		return ""
	}
	return ks[0]
}

var lockDenoms = []string{"lpa", "lpb"}
var rewardDenoms = []string{"uosmo", "stake", "foo"}

const maxGaugeCoin = 40000 // remaining * lock amount must stay a native TLC integer
const maxLockAmt = 40000

func (r *recorder) randAcct() string { return r.w.names[r.rng.Intn(len(r.w.names))] }
func (r *recorder) creator() string {
	if r.rng.Intn(12) == 0 {
		return r.randAcct()
	}
	return r.w.names[r.rng.Intn(2)]
}

// reward amounts: a mixture of tiny (around the minimum / the 100-unit rule), medium and large
func (r *recorder) rewardAmt() int64 {
	switch x := r.rng.Intn(10); {
	case x < 3:
		return 1 + int64(r.rng.Intn(220))
	case x < 7:
		return 100 + int64(r.rng.Intn(5000))
	default:
		return 5000 + int64(r.rng.Intn(25000))
	}
}

func (r *recorder) rewardCoins(nmax int) map[string]int64 {
	c := map[string]int64{}
	n := 1 + r.rng.Intn(nmax)
	perm := r.rng.Perm(len(rewardDenoms))
	for i := 0; i < n; i++ {
		c[rewardDenoms[perm[i]]] = r.rewardAmt()
	}
	if r.rng.Intn(40) == 0 {
		c["lpa"] = 5 // no route: refused
	}
	return c
}

// big histories: foo in multiples of bigM units (mostly 6..11 of them: between 2^63 and 2^64 base units), sometimes
// with stake beside it or stake alone; have is what the gauge holds already
func (r *recorder) bigRewardCoins(have int64) map[string]int64 {
	c := map[string]int64{}
	k := int64(1 + r.rng.Intn(14))
	if r.rng.Intn(2) == 0 {
		k = 6 + int64(r.rng.Intn(6))
	}
	if have+k*bigM > bigMaxGauge {
		k = (bigMaxGauge - have) / bigM
	}
	switch x := r.rng.Intn(10); {
	case x < 6:
		c["foo"] = k * bigM
	case x < 9:
		c["foo"], c["stake"] = k*bigM, r.rewardAmt()
	default:
		c["stake"] = r.rewardAmt()
	}
	if c["foo"] <= 0 {
		delete(c, "foo")
	}
	return c
}

// tokens of denomination d held by all locks
func (r *recorder) lockUnits(d string) int64 {
	n := int64(0)
	for _, l := range r.st.Locks {
		n += l.C[d]
	}
	return n
}

// big histories: every share of the coming distribution is a whole number of units whatever the set of qualifying
// locks is (decided on the state last read, see bigUnit)
func (r *recorder) bigExact() bool {
	for _, g := range r.st.Gauges {
		rem := g.C["foo"] - g.Dist["foo"]
		n := int64(1)
		if !g.Perp {
			n = g.Num - g.Filled
		}
		if g.C["foo"] < 0 || g.Dist["foo"] < 0 {
			return true // not a whole number of units already: the line just written shows it
		}
		if rem > 0 && n > 0 && rem%(bigLcm12*n) != 0 {
			return false
		}
	}
	return true
}

func (r *recorder) someDur() int64 {
	if r.rng.Intn(25) == 0 {
		return 4 // not a lockable duration
	}
	return r.w.par.Lockable[r.rng.Intn(len(r.w.par.Lockable))]
}

func (r *recorder) nextCall(force string) call {
	rng := r.rng
	notUnl := func(l lockSt) bool { return l.End == 0 }
	unl := func(l lockSt) bool { return l.End != 0 }
	x := rng.Intn(100)
	if force == "epoch" {
		x = 99
	}
	live := len(r.st.Locks)
	ng := len(r.st.Gauges)
	if ng < 2 && x < 40 && x >= 12 {
		x = rng.Intn(12) // gauges first
	}
	if live > 12 && x >= 26 && x < 46 {
		x = 58 + rng.Intn(14) // keep the lock table at a size TLC handles quickly
	}
	switch {
	case x < 12: // MsgCreateGauge
		if ng >= 6 {
			return r.nextCall("") // enough gauges for one history
		}
		c := call{A: "create", O: r.creator(), D: lockDenoms[rng.Intn(len(lockDenoms))], X: r.someDur(), C: r.rewardCoins(3)}
		if r.kind == "big" {
			c.C = r.bigRewardCoins(0)
		}
		c.Perp = rng.Intn(10) < 3
		c.Num = 1
		if !c.Perp {
			c.Num = 1 + int64(rng.Intn(6))
			switch rng.Intn(6) {
			case 0:
				c.Num = 6 + int64(rng.Intn(7))
			case 1:
				c.Num = 1
			}
			if r.kind == "big" && c.Num > 6 {
				c.Num = 6
			}
		}
		switch rng.Intn(30) {
		case 0:
			c.Num = 0 // refused
		case 1:
			if c.Perp {
				c.Num = 2 // refused
			}
		case 2:
			c.C = map[string]int64{"stake": r.st.Bal[c.O]["stake"] + 1} // overdraft
		}
		c.Start = r.st.Now - 3 + int64(rng.Intn(10))
		return c
	case x < 20: // MsgAddToGauge
		g, ok := r.pickGauge(nil)
		if !ok {
			return call{A: "addg", O: r.creator(), ID: r.st.LastGauge + 1, C: map[string]int64{"stake": 5}}
		}
		c := call{A: "addg", O: r.creator(), ID: g.ID, C: map[string]int64{}}
		n := 1 + rng.Intn(2)
		perm := rng.Perm(len(rewardDenoms))
		for i := 0; i < n; i++ {
			d := rewardDenoms[perm[i]]
			a := r.rewardAmt()
			if g.C[d]+a > maxGaugeCoin {
				a = maxGaugeCoin - g.C[d]
			}
			if a > 0 {
				c.C[d] = a
			}
		}
		if r.kind == "big" {
			c.C = r.bigRewardCoins(g.C["foo"])
		}
		if len(c.C) == 0 {
			return r.nextCall("")
		}
		if rng.Intn(30) == 0 {
			c.ID = r.st.LastGauge + 1
		}
		return c
	case x < 38: // MsgLockTokens
		o, d := r.randAcct(), lockDenoms[rng.Intn(len(lockDenoms))]
		if rng.Intn(3) != 0 && ng > 0 { // mostly the denominations gauges pay for
			d = r.st.Gauges[rng.Intn(ng)].D
		}
		c := call{A: "lock", O: o, D: d, X: r.w.par.Lockable[rng.Intn(len(r.w.par.Lockable))]}
		switch y := rng.Intn(20); {
		case y == 0:
			c.Amt = r.st.Bal[o][d] + 1 // overdraft
		case y < 6:
			c.Amt = 1 + int64(rng.Intn(20))
		default:
			c.Amt = 1 + int64(rng.Intn(3000))
		}
		if r.kind == "big" && c.Amt <= r.st.Bal[o][d] {
			c.Amt = 1 + int64(rng.Intn(2))
			if r.lockUnits(d)+c.Amt > bigLockUnits {
				return r.nextCall("")
			}
		}
		return c
	case x < 42: // keeper AddTokensToLockByID
		l, ok := r.pickLock(nil)
		if !ok {
			return r.nextCall("")
		}
		d := lockDenom(l)
		c := call{A: "add", O: l.O, D: d, ID: l.ID, Amt: 1 + int64(rng.Intn(2000))}
		if r.kind == "big" {
			c.Amt = 1
			if r.lockUnits(d)+c.Amt > bigLockUnits {
				return r.nextCall("")
			}
		}
		if l.C[d]+c.Amt > maxLockAmt {
			return r.nextCall("")
		}
		return c
	case x < 46: // MsgExtendLockup
		l, ok := r.pickLock(notUnl)
		if !ok {
			return r.nextCall("")
		}
		return call{A: "extend", O: l.O, ID: l.ID, X: r.w.par.Lockable[rng.Intn(len(r.w.par.Lockable))]}
	case x < 58: // MsgBeginUnlocking: whole / partial (splits)
		l, ok := r.pickLock(notUnl)
		if !ok || rng.Intn(12) == 0 {
			l, ok = r.pickLock(nil)
		}
		if !ok {
			return r.nextCall("")
		}
		d := lockDenom(l)
		c := call{A: "begin", O: l.O, D: d, ID: l.ID}
		if rng.Intn(3) == 0 && l.C[d] > 1 {
			c.Amt = 1 + int64(rng.Intn(int(l.C[d]-1)))
		}
		return c
	case x < 66: // keeper UnlockMaturedLock
		l, ok := r.pickLock(unl)
		if !ok {
			return r.nextCall("")
		}
		return call{A: "unlock", ID: l.ID}
	case x < 76: // MsgSetRewardReceiverAddress
		l, ok := r.pickLock(nil)
		if !ok {
			return r.nextCall("")
		}
		c := call{A: "setrr", O: l.O, R: r.randAcct(), ID: l.ID}
		if r.kind == "blocked" && rng.Intn(3) != 0 {
			c.R = "blk" // a module account that is not allowed to receive funds
		}
		return c
	case x < 88: // time passes: often exactly to (or one second around) the next gauge start / lock end
		c := call{A: "advance", X: int64(rng.Intn(4))}
		if rng.Intn(2) == 0 {
			next := int64(-1)
			for _, g := range r.st.Gauges {
				if g.Status == "upcoming" && g.Start >= r.st.Now && (next < 0 || g.Start < next) {
					next = g.Start
				}
			}
			if next >= 0 {
				c.X = next - r.st.Now + int64(rng.Intn(3)) - 1
			}
			if c.X < 0 {
				c.X = 0
			}
		}
		return c
	default: // the epoch ends
		c := call{A: "epoch", Ident: r.w.par.DistrID, X: r.epochs + 1}
		if force == "" && rng.Intn(15) == 0 {
			c.Ident = "day"
		}
		return c
	}
}

func (r *recorder) observe(head map[string]any) {
	r.st = r.w.project(r.w.Ctx)
	head["st"] = r.st
	r.tw.Emit(head)
}

func (r *recorder) step(c call) {
	w := r.w
	var o outcome
	if c.A == "advance" {
		w.AdvanceTime(time.Duration(c.X) * time.Second)
		o = outcome{OK: true}
	} else {
		o = w.exec(w.Ctx, c)
	}
	key := c.A
	if !o.OK {
		key += ":refused"
	}
	r.counts[key]++
	if c.A == "epoch" && c.Ident == w.par.DistrID && o.OK {
		r.epochs++
	}
	if c.C == nil {
		c.C = map[string]int64{}
	}
	r.observe(map[string]any{"e": "op", "a": c.A, "o": c.O, "d": c.D, "x": c.X, "amt": c.Amt, "id": c.ID, "r": c.R,
		"perp": c.Perp, "c": w.coinMap(w.coinsOf(c.C)), "start": c.Start, "num": c.Num, "ident": c.Ident,
		"ok": o.OK, "panicked": o.Panicked, "err": o.Err, "rid": o.RID})
}

func randomConfig(rng *rand.Rand, kind string) config {
	names := []string{"a1", "a2", "a3", "a4", "a5", "a6"}
	denoms := []string{"uosmo", "stake", "foo", "lpa", "lpb"}
	fund := map[string]map[string]int64{}
	for i, n := range names {
		fund[n] = map[string]int64{"stake": 150000, "foo": 150000, "lpa": int64(20000 + rng.Intn(30000)), "lpb": int64(20000 + rng.Intn(30000))}
		if i < 2 {
			fund[n]["uosmo"] = 900_000_000
		} else {
			fund[n]["uosmo"] = int64(rng.Intn(3)) * 60_000_000
		}
	}
	ratio := func() (int64, int64) {
		rs := [][2]int64{{1, 1}, {1, 2}, {2, 1}, {3, 1}, {2, 3}}
		x := rs[rng.Intn(len(rs))]
		return x[0] * 1_000_000_000, x[1] * 1_000_000_000
	}
	c := config{Names: names, Denoms: denoms, Fund: fund, MinDenom: "uosmo", Lockable: []int64{1, 2, 3, 5}, Now: 100}
	a, b := ratio()
	c.Pools = append(c.Pools, poolSpec{"uosmo", "stake", a, b})
	a, b = ratio()
	c.Pools = append(c.Pools, poolSpec{"uosmo", "foo", a, b})
	if rng.Intn(3) == 0 {
		c.MinDenom = "stake"
		if rng.Intn(2) == 0 { // otherwise foo has no value at all in terms of the minimum-value denomination
			a, b = ratio()
			c.Pools = append(c.Pools, poolSpec{"stake", "foo", a, b})
		}
	}
	if kind == "blocked" {
		c.Names = append(c.Names, "blk")
	}
	if kind == "big" {
		c.Big = true
		for _, n := range names {
			fund[n]["foo"] = 500_000_000
		}
	}
	switch kind {
	case "above": // every threshold is above the 100 units of the code's additional rule (raised below if a pool makes it smaller)
		c.MinAmount = 110 + int64(rng.Intn(500))
	case "zero": // foo is so valuable that the minimum value buys less than one unit of it
		c.MinAmount = 1 + int64(rng.Intn(20))
		for i := range c.Pools {
			if c.Pools[i].B == "foo" {
				c.Pools[i].RA, c.Pools[i].RB = 1_000_000_000, 10_000_000
			}
		}
	case "nomin": // the minimum-value filter switched off: a zero amount of the base denomination; rewards in
		// the base denomination only (no pools: nothing else is valuable), every positive share is paid
		c.MinDenom, c.MinAmount, c.Pools = "uosmo", 0, nil
	default: // thresholds of a few units
		c.MinAmount = 1 + int64(rng.Intn(25))
	}
	return c
}

// build the world of a history; "above" histories get their minimum value raised until every threshold exceeds
// 100 units, all but the "zero" histories until the minimum value buys at least one unit of every denomination
func buildWorld(t *testing.T, c config, kind string) (*world, config) {
	for {
		w := newWorld(t, c)
		low := false
		for _, v := range w.par.MinAmt {
			if kind == "above" && v >= 0 && v <= 100 {
				low = true
			}
			if kind != "zero" && kind != "nomin" && v == 0 {
				low = true
			}
		}
		if !low {
			return w, c
		}
		c.MinAmount = c.MinAmount*2 + 1
	}
}

func TestRecord(t *testing.T) {
	out := os.Getenv("VERIF_OUT")
	if out == "" {
		t.Skip("VERIF_OUT not set")
	}
	seed := tracelog.EnvInt("VERIF_SEED", 1)
	nh := int(tracelog.EnvInt("VERIF_HISTORIES", 8))
	emin := int(tracelog.EnvInt("VERIF_MIN_EPOCHS", 10))
	emax := int(tracelog.EnvInt("VERIF_MAX_EPOCHS", 40))
	rng := rand.New(rand.NewSource(seed))
	tw, err := tracelog.NewWriter(out)
	if err != nil {
		t.Fatal(err)
	}
	counts := map[string]int{}
	for h := 0; h < nh; h++ {
		kind := "below"
		if h%3 == 2 {
			kind = "above"
		}
		if h%6 == 4 {
			kind = "nomin"
		}
		if h%6 == 3 {
			kind = "big"
		}
		if k := os.Getenv("VERIF_KIND"); k != "" {
			kind = k
		}
		c := randomConfig(rng, kind)
		w, c := buildWorld(t, c, kind)
		r := &recorder{kind: kind, w: w, rng: rng, tw: tw, counts: counts}
		counts["history:"+kind]++
		if c.MinDenom != "uosmo" {
			counts["history:min-denom-not-base"]++
		}
		for _, v := range w.par.MinAmt {
			if v == 0 {
				counts["history:zero-threshold"]++
			}
		}
		if w.par.MinAmt["foo"] < 0 {
			counts["history:foo-not-valuable"]++
		}
		r.observe(map[string]any{"e": "cfg", "a": "init", "names": c.Names, "denoms": c.Denoms, "par": w.par, "seed": seed, "h": h, "kind": kind})
		target := int64(emin + rng.Intn(emax-emin+1))
		failedBefore := counts["epoch:refused"]
		for guard := 0; r.epochs < target && guard < 100*emax; guard++ {
			c := r.nextCall("")
			if kind == "big" && c.A == "epoch" {
				if !r.bigExact() {
					counts["big:ended-before-inexact-share"]++
					break
				}
				for _, g := range r.st.Gauges {
					if rem := g.C["foo"] - g.Dist["foo"]; g.Status == "active" && len(g.C) > 0 && g.C["stake"] == g.Dist["stake"] && g.C["uosmo"] == g.Dist["uosmo"] {
						switch {
						case rem >= 6*bigM && rem < 12*bigM: // 2^63 < 9.97e18 .. 1.83e19 < 2^64
							counts["big:epoch-with-single-denom-gauge-remaining-in-2^63..2^64"]++
						case rem >= 12*bigM:
							counts["big:epoch-with-single-denom-gauge-remaining-above-2^64"]++
						}
					}
				}
			}
			r.step(c)
			if counts["epoch:refused"] > failedBefore && (kind == "zero" || kind == "blocked") {
				break // the hook fails from here on: nothing more to see in this history
			}
		}
	}
	if err := tw.Close(); err != nil {
		t.Fatal(err)
	}
	bz, _ := json.Marshal(counts)
	fmt.Printf("RECORDED events=%d histories=%d counts=%s\n", tw.N, nh, bz)
}

// ---------------------------------------------------------------------------
// spec -> impl: the prefix tree of the behaviours TLC printed

type specLock struct {
	ID  uint64           `json:"id"`
	O   string           `json:"o"`
	Dur int64            `json:"dur"`
	End int64            `json:"end"`
	C   map[string]int64 `json:"c"`
	RR  string           `json:"rr"`
}

type specGauge struct {
	ID     uint64           `json:"id"`
	Perp   bool             `json:"perp"`
	D      string           `json:"d"`
	Dur    int64            `json:"dur"`
	C      map[string]int64 `json:"c"`
	Dist   map[string]int64 `json:"dist"`
	Filled int64            `json:"filled"`
	Num    int64            `json:"num"`
	Start  int64            `json:"start"`
	Status string           `json:"status"`
}

type specState struct {
	Locks     []specLock                  `json:"locks"`
	Gauges    []specGauge                 `json:"gauges"`
	Bal       map[string]map[string]int64 `json:"bal"`
	Mod       map[string]int64            `json:"mod"`
	Inc       map[string]int64            `json:"inc"`
	Now       int64                       `json:"now"`
	LastID    uint64                      `json:"lastId"`
	LastGauge uint64                      `json:"lastGauge"`
}

type specPar struct {
	MinAmt    map[string]int64 `json:"minAmt"`
	Creatable []string         `json:"creatable"`
	FeeDenom  string           `json:"feeDenom"`
	CreateFee int64            `json:"createFee"`
	AddFee    int64            `json:"addFee"`
	Lockable  []int64          `json:"lockable"`
}

type genDoc struct {
	H       []call          `json:"h"`
	St      specState       `json:"st"`
	Dev     []string        `json:"dev"`
	Par     json.RawMessage `json:"par"`
	Refused []call          `json:"refused"`
}

type node struct {
	act      call
	doc      *genDoc
	children []*node
	index    map[string]*node
}

type mismatch struct {
	Path []call `json:"path"`
	What string `json:"what"`
	Want any    `json:"want"`
	Got  any    `json:"got"`
}

type replayer struct {
	w        *world
	mm       []mismatch
	steps    int
	refusals int
	kinds    map[string]int
	devs     map[string]int
	devEx    map[string][]call
}

func (rp *replayer) bad(path []call, what string, want, got any) {
	rp.mm = append(rp.mm, mismatch{Path: append([]call{}, path...), What: what, Want: want, Got: got})
}

func sameJSON(a, b any) bool {
	x, _ := json.Marshal(a)
	y, _ := json.Marshal(b)
	return string(x) == string(y)
}

// compare the real state on ctx with the state the specification expects
func (rp *replayer) compare(ctx sdk.Context, path []call, want specState, idmap map[uint64]uint64) bool {
	w := rp.w
	got := w.project(ctx)
	n0 := len(rp.mm)
	wantLocks := map[uint64]lockSt{}
	for _, l := range want.Locks {
		wantLocks[idmap[l.ID]] = lockSt{ID: idmap[l.ID], O: l.O, Dur: l.Dur, End: l.End, C: l.C, RR: l.RR}
	}
	gotLocks := map[uint64]lockSt{}
	for _, l := range got.Locks {
		gotLocks[l.ID] = l
	}
	if !sameJSON(wantLocks, gotLocks) {
		rp.bad(path, "lock records", wantLocks, gotLocks)
	}
	wantG := map[uint64]gaugeSt{}
	for _, g := range want.Gauges {
		id := g.ID + w.baseGauge
		wantG[id] = gaugeSt{ID: id, Perp: g.Perp, D: g.D, Dur: g.Dur, C: g.C, Dist: g.Dist, Filled: g.Filled, Num: g.Num, Start: g.Start,
			Status: g.Status, Kind: "ByDuration"}
	}
	gotG := map[uint64]gaugeSt{}
	for _, g := range got.Gauges {
		gotG[g.ID] = g
	}
	if !sameJSON(wantG, gotG) {
		rp.bad(path, "gauges", wantG, gotG)
	}
	if got.AllGauges != len(want.Gauges) {
		rp.bad(path, "gauges returned by the all-gauges iterator", len(want.Gauges), got.AllGauges)
	}
	if !sameJSON(want.Bal, got.Bal) {
		rp.bad(path, "account balances", want.Bal, got.Bal)
	}
	if !sameJSON(want.Inc, got.Inc) {
		rp.bad(path, "incentives module account", want.Inc, got.Inc)
	}
	if !sameJSON(want.Mod, got.Mod) {
		rp.bad(path, "lockup module account", want.Mod, got.Mod)
	}
	if want.Now != got.Now {
		rp.bad(path, "time", want.Now, got.Now)
	}
	return len(rp.mm) == n0
}

func (rp *replayer) walk(ctx sdk.Context, n *node, path []call, idmap map[uint64]uint64) {
	if len(rp.mm) >= 20 {
		return
	}
	w := rp.w
	if n.doc != nil {
		if !rp.compare(ctx, path, n.doc.St, idmap) {
			return // what follows starts from a different state
		}
		for _, d := range n.doc.Dev { // the code followed the specification with this named deviation in effect
			rp.devs[d]++
			if len(rp.devEx[d]) == 0 {
				rp.devEx[d] = append([]call{}, path...)
			}
		}
		for _, c := range n.doc.Refused {
			if c.A == "addg" {
				c.ID += w.baseGauge
			}
			cc, _ := ctx.CacheContext()
			o := w.exec(cc, c)
			rp.refusals++
			if o.OK {
				rp.bad(append(append([]call{}, path...), c), "the specification refuses this call, the code accepted it", "refused", o)
			}
		}
	}
	for _, ch := range n.children {
		c := ch.act
		cc, _ := ctx.CacheContext()
		m2 := idmap
		rp.steps++
		rp.kinds[c.A]++
		p2 := append(append([]call{}, path...), ch.act)
		if c.A == "advance" {
			cc = cc.WithBlockTime(cc.BlockTime().Add(time.Duration(c.X) * time.Second)).WithBlockHeight(cc.BlockHeight() + 1)
		} else {
			specID := c.ID
			specNew := uint64(c.X) // begin: id of the lock that starts unlocking
			switch c.A {
			case "create":
			case "addg":
				c.ID += w.baseGauge
			case "epoch":
				c.Ident = w.par.DistrID
			default:
				if real, ok := idmap[c.ID]; ok && c.ID != 0 {
					c.ID = real
				}
			}
			if c.A == "begin" {
				c.X = 0
			}
			o := w.exec(cc, c)
			if !o.OK {
				rp.bad(p2, "the specification performs this call, the code refused it", "ok", o)
				continue
			}
			switch c.A {
			case "create":
				if o.RID != specID+w.baseGauge {
					rp.bad(p2, "gauge id", specID+w.baseGauge, o.RID)
					continue
				}
			case "lock":
				if _, known := idmap[specID]; !known {
					m2 = copyMap(idmap)
					m2[specID] = o.RID
				} else if idmap[specID] != o.RID {
					rp.bad(p2, "lock added to", idmap[specID], o.RID)
					continue
				}
			case "begin":
				if specNew != specID {
					m2 = copyMap(idmap)
					m2[specNew] = o.RID
				} else if o.RID != c.ID {
					rp.bad(p2, "lock that starts unlocking", c.ID, o.RID)
					continue
				}
			}
		}
		rp.walk(cc, ch, p2, m2)
	}
}

func copyMap(m map[uint64]uint64) map[uint64]uint64 {
	r := make(map[uint64]uint64, len(m)+1)
	for k, v := range m {
		r[k] = v
	}
	return r
}

func actKey(c call) string {
	bz, _ := json.Marshal(c)
	return string(bz)
}

func TestReplay(t *testing.T) {
	in := os.Getenv("VERIF_IN")
	if in == "" {
		t.Skip("VERIF_IN not set")
	}
	out := tracelog.EnvStr("VERIF_OUT", in+".result")
	// VERIF_SHARD=i/n: this process keeps only the subtrees whose first k actions hash to i (mod n)
	var si, sn int
	if _, err := fmt.Sscanf(os.Getenv("VERIF_SHARD"), "%d/%d", &si, &sn); err != nil || sn < 1 {
		si, sn = 0, 1
	}
	cut := int(tracelog.EnvInt("VERIF_SHARD_DEPTH", 2))
	f, err := os.Open(in)
	if err != nil {
		t.Fatal(err)
	}
	sc := bufio.NewScanner(f)
	sc.Buffer(make([]byte, 1<<20), 1<<28)
	root := &node{index: map[string]*node{}}
	ndocs := 0
	for sc.Scan() {
		if len(sc.Bytes()) == 0 {
			continue
		}
		d := &genDoc{}
		if err := json.Unmarshal(sc.Bytes(), d); err != nil {
			t.Fatal(err)
		}
		// subtrees below depth `cut` are dealt out by the hash of their first `cut` actions; the states above
		// are walked by every shard (their refusals and deviation counts belong to shard 0)
		if len(d.H) >= cut {
			hh := fnv.New32a()
			for _, a := range d.H[:cut] {
				hh.Write([]byte(actKey(a)))
			}
			if int(hh.Sum32()%uint32(sn)) != si {
				continue
			}
			ndocs++
		} else if si != 0 {
			d.Refused = nil
			d.Dev = nil
		} else {
			ndocs++
		}
		n := root
		for _, a := range d.H {
			key := actKey(a)
			ch, ok := n.index[key]
			if !ok {
				ch = &node{act: a, index: map[string]*node{}}
				n.index[key] = ch
				n.children = append(n.children, ch)
			}
			n = ch
		}
		n.doc = d
	}
	f.Close()
	if err := sc.Err(); err != nil {
		t.Fatal(err)
	}
	if root.doc == nil {
		t.Fatal("no document for the initial state")
	}
	// drop shared shallow states that have nothing below them in this shard
	var prune func(n *node, depth int) bool
	prune = func(n *node, depth int) bool {
		keep := []*node{}
		for _, ch := range n.children {
			if prune(ch, depth+1) {
				keep = append(keep, ch)
			}
		}
		n.children = keep
		return len(keep) > 0 || depth >= cut || si == 0
	}
	prune(root, 0)
	var check func(n *node) int
	check = func(n *node) int {
		c := 1
		if n.doc == nil {
			t.Fatalf("behaviours are not prefix closed at %v", n.act)
		}
		for _, ch := range n.children {
			c += check(ch)
		}
		return c
	}
	nodes := check(root)
	st0 := root.doc.St
	var sp specPar
	if err := json.Unmarshal(root.doc.Par, &sp); err != nil {
		t.Fatal(err)
	}
	names, denoms := []string{}, []string{}
	for n := range st0.Bal {
		names = append(names, n)
	}
	sort.Strings(names)
	for d := range st0.Mod {
		denoms = append(denoms, d)
	}
	sort.Strings(denoms)
	// the configuration the bounded model assumes: minimum value 3 uosmo, stake priced through a deep 1:1 pool
	c := config{Names: names, Denoms: denoms, Fund: st0.Bal, MinDenom: "uosmo", MinAmount: sp.MinAmt["uosmo"],
		Pools: []poolSpec{{"uosmo", "stake", 1_000_000_000, 1_000_000_000}}, Lockable: sp.Lockable, Now: st0.Now}
	w := newWorld(t, c)
	sort.Strings(sp.Creatable)
	got := specPar{MinAmt: w.par.MinAmt, Creatable: append([]string{}, w.par.Creatable...), FeeDenom: w.par.FeeDenom, CreateFee: w.par.CreateFee,
		AddFee: w.par.AddFee, Lockable: w.par.Lockable}
	sort.Strings(got.Creatable)
	if !sameJSON(sp, got) {
		t.Fatalf("the app is not configured as the bounded model assumes: model %+v, app %+v", sp, got)
	}
	rp := &replayer{w: w, kinds: map[string]int{}, mm: []mismatch{}, devs: map[string]int{}, devEx: map[string][]call{}}
	rp.walk(w.Ctx, root, []call{}, map[uint64]uint64{})
	res := map[string]any{"behaviours": ndocs, "nodes": nodes, "steps": rp.steps, "refusals": rp.refusals,
		"kinds": rp.kinds, "mismatches": rp.mm, "deviations": rp.devs, "deviation_examples": rp.devEx}
	bz, _ := json.Marshal(res)
	if err := os.WriteFile(out, bz, 0o644); err != nil {
		t.Fatal(err)
	}
	fmt.Printf("REPLAYED behaviours=%d steps=%d refusals=%d mismatches=%d\n", ndocs, rp.steps, rp.refusals, len(rp.mm))
}

// ---------------------------------------------------------------------------
// observations used while building the check (VERIF_PROBE=1; not part of the check)

func TestProbe(t *testing.T) {
	if os.Getenv("VERIF_PROBE") == "" {
		t.Skip("VERIF_PROBE not set")
	}
	names := []string{"a1", "a2", "a3", "a4", "blk"}
	denoms := []string{"uosmo", "stake", "foo", "lpa"}
	fund := map[string]map[string]int64{}
	for _, n := range names[:4] {
		fund[n] = map[string]int64{"uosmo": 500_000_000, "stake": 100000, "foo": 100000, "lpa": 100000}
	}
	c := config{Names: names, Denoms: denoms, Fund: fund, MinDenom: "uosmo", MinAmount: 5,
		Pools:    []poolSpec{{"uosmo", "stake", 1_000_000_000, 1_000_000_000}, {"uosmo", "foo", 1_000_000_000, 2_000_000_000}},
		Lockable: []int64{1, 2, 3}, Now: 100}
	w := newWorld(t, c)
	bz, _ := json.Marshal(w.par)
	fmt.Printf("PROBE params %s baseGauge %d\n", bz, w.baseGauge)
	st := w.project(w.Ctx)
	bz, _ = json.Marshal(st)
	fmt.Printf("PROBE state %s\n", bz)
	must := func(o outcome) outcome {
		if !o.OK {
			t.Fatalf("%+v", o)
		}
		return o
	}
	show := func(what string) {
		st := w.project(w.Ctx)
		bz, _ := json.Marshal(st.Gauges)
		fmt.Printf("PROBE %s gauges %s\n", what, bz)
		bz, _ = json.Marshal(st.Bal)
		fmt.Printf("PROBE %s bal %s inc %v\n", what, bz, st.Inc)
	}
	if os.Getenv("VERIF_PROBE") == "blocked" {
		must(w.exec(w.Ctx, call{A: "lock", O: "a1", D: "lpa", X: 1, Amt: 100}))
		must(w.exec(w.Ctx, call{A: "lock", O: "a2", D: "lpa", X: 1, Amt: 100}))
		must(w.exec(w.Ctx, call{A: "setrr", O: "a1", R: "blk", ID: 1}))
		must(w.exec(w.Ctx, call{A: "create", O: "a2", D: "lpa", X: 1, C: map[string]int64{"foo": 4000}, Start: 100, Num: 2}))
		o := w.exec(w.Ctx, call{A: "epoch", Ident: w.par.DistrID, X: 1})
		fmt.Printf("PROBE epoch with a lock whose reward receiver is a blocked module account: %+v\n", o)
		show("after")
		return
	}
	// D3: one owner, two locks, different receivers
	must(w.exec(w.Ctx, call{A: "lock", O: "a1", D: "lpa", X: 1, Amt: 100}))
	must(w.exec(w.Ctx, call{A: "lock", O: "a1", D: "lpa", X: 2, Amt: 300}))
	must(w.exec(w.Ctx, call{A: "setrr", O: "a1", R: "a3", ID: 2}))
	must(w.exec(w.Ctx, call{A: "create", O: "a2", D: "lpa", X: 1, C: map[string]int64{"foo": 4000}, Start: 100, Num: 2}))
	show("created")
	must(w.exec(w.Ctx, call{A: "epoch", Ident: w.par.DistrID, X: 1}))
	show("epoch1 (a1 lock1 100 -> a1, lock2 300 -> a3; 2000 foo this epoch: 500 / 1500)")
	// D2: last epoch without qualifying locks
	must(w.exec(w.Ctx, call{A: "begin", O: "a1", ID: 1}))
	must(w.exec(w.Ctx, call{A: "begin", O: "a1", ID: 2}))
	w.AdvanceTime(5 * time.Second)
	must(w.exec(w.Ctx, call{A: "unlock", ID: 1}))
	must(w.exec(w.Ctx, call{A: "unlock", ID: 2}))
	must(w.exec(w.Ctx, call{A: "epoch", Ident: w.par.DistrID, X: 2}))
	show("epoch2 without locks (gauge 2 epochs, filled 1)")
	o := w.exec(w.Ctx, call{A: "addg", O: "a2", ID: w.baseGauge + 1, C: map[string]int64{"foo": 10}})
	fmt.Printf("PROBE add to that gauge: %+v\n", o)
	show("after add")
	// D1: spam
	must(w.exec(w.Ctx, call{A: "lock", O: "a4", D: "lpa", X: 1, Amt: 100}))
	must(w.exec(w.Ctx, call{A: "create", O: "a2", D: "lpa", X: 1, C: map[string]int64{"foo": 90}, Start: 100, Num: 1}))
	must(w.exec(w.Ctx, call{A: "create", O: "a2", D: "lpa", X: 1, C: map[string]int64{"stake": 90}, Start: 100, Num: 1}))
	must(w.exec(w.Ctx, call{A: "epoch", Ident: w.par.DistrID, X: 3}))
	show("epoch3: 90 foo (min 9) and 90 stake (min 4) to a4")
}
