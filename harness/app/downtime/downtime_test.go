// Recorder and replayer binding the real x/downtime-detector module (AppModule
// InitGenesis / ExportGenesis / BeginBlock, keeper getters, the registered gRPC
// query service) on a full app to spec/Downtime.tla (extra check X02).
package downtime

import (
	"context"
	"encoding/json"
	"fmt"
	"math"
	"math/big"
	"math/rand"
	"os"
	"testing"
	"time"

	"cosmossdk.io/log"
	"github.com/cosmos/cosmos-sdk/baseapp"
	"github.com/cosmos/cosmos-sdk/codec"
	sdk "github.com/cosmos/cosmos-sdk/types"

	"github.com/osmosis-labs/osmosis/v31/x/downtime-detector/client/queryproto"
	"github.com/osmosis-labs/osmosis/v31/x/downtime-detector/types"

	"verif/harness/apphelp"
	"verif/harness/tracelog"
)

const nLadder = 25

// the module as the module manager holds it
type appModule interface {
	InitGenesis(ctx sdk.Context, cdc codec.JSONCodec, gs json.RawMessage)
	ExportGenesis(ctx sdk.Context, cdc codec.JSONCodec) json.RawMessage
	BeginBlock(ctx context.Context) error
}

type world struct {
	*apphelp.World
	mod appModule
}

func newWorld(t *testing.T) *world {
	w := &world{World: apphelp.New(t)}
	w.Ctx = w.Ctx.WithLogger(log.NewNopLogger())
	m, ok := w.App.ModuleManager().Modules[types.ModuleName].(appModule)
	if !ok {
		t.Fatalf("module %s does not have the expected entry points", types.ModuleName)
	}
	w.mod = m
	return w
}

// wire forms -----------------------------------------------------------------

func bigT(t time.Time) tracelog.Big {
	x := new(big.Int).Mul(big.NewInt(t.Unix()), big.NewInt(1_000_000_000))
	x.Add(x, big.NewInt(int64(t.Nanosecond())))
	return tracelog.EncBig(x)
}
func bigD(d time.Duration) tracelog.Big { return tracelog.EncInt64(int64(d)) }

type entry struct {
	D int          `json:"d"` // enum value + 1
	T tracelog.Big `json:"t"`
}
type genDoc struct {
	LB  tracelog.Big `json:"lb"`
	Ent []entry      `json:"ent"`
}
type state struct {
	LB   tracelog.Big   `json:"lb"`
	Last []tracelog.Big `json:"last"`
	Miss []int          `json:"miss"` // 0 = last block time, i = ladder index i: nothing stored
}

func docOf(g *types.GenesisState) genDoc {
	d := genDoc{LB: bigT(g.LastBlockTime), Ent: []entry{}}
	for _, e := range g.Downtimes {
		d.Ent = append(d.Ent, entry{D: int(e.Duration) + 1, T: bigT(e.LastDowntime)})
	}
	return d
}

// projection of the real state onto (lb, last), through the public getters
func (w *world) state() state {
	s := state{Last: []tracelog.Big{}, Miss: []int{}}
	k := w.App.DowntimeKeeper
	out := w.Peek(func(ctx sdk.Context) error {
		t, err := k.GetLastBlockTime(ctx)
		if err != nil {
			s.Miss = append(s.Miss, 0)
		}
		s.LB = bigT(t)
		if err != nil {
			s.LB = tracelog.EncInt64(0)
		}
		for i := 0; i < nLadder; i++ {
			t, err := k.GetLastDowntimeOfLength(ctx, types.Downtime(i))
			if err != nil {
				s.Miss = append(s.Miss, i+1)
				s.Last = append(s.Last, tracelog.EncInt64(0))
				continue
			}
			s.Last = append(s.Last, bigT(t))
		}
		return nil
	})
	if !out.OK {
		panic("projection failed: " + out.Err)
	}
	return s
}

// entry points ---------------------------------------------------------------

// importRaw = empty store + module InitGenesis of the JSON document.
func (w *world) importRaw(raw json.RawMessage) apphelp.Outcome {
	return w.Try(func(ctx sdk.Context) error {
		st := ctx.KVStore(w.App.GetKey(types.StoreKey))
		it := st.Iterator(nil, nil)
		keys := [][]byte{}
		for ; it.Valid(); it.Next() {
			keys = append(keys, append([]byte{}, it.Key()...))
		}
		it.Close()
		for _, k := range keys {
			st.Delete(k)
		}
		w.mod.InitGenesis(ctx, w.App.AppCodec(), raw)
		return nil
	})
}

func (w *world) importGen(g *types.GenesisState) apphelp.Outcome {
	return w.importRaw(w.App.AppCodec().MustMarshalJSON(g))
}

func (w *world) export() (raw json.RawMessage, g types.GenesisState, out apphelp.Outcome) {
	out = w.Try(func(ctx sdk.Context) error {
		raw = w.mod.ExportGenesis(ctx, w.App.AppCodec())
		return nil
	})
	if out.OK {
		w.App.AppCodec().MustUnmarshalJSON(raw, &g)
	}
	return raw, g, out
}

func (w *world) beginBlock(t time.Time) apphelp.Outcome {
	w.Ctx = w.Ctx.WithBlockTime(t).WithBlockHeight(w.Ctx.BlockHeight() + 1)
	return w.Try(func(ctx sdk.Context) error { return w.mod.BeginBlock(ctx) })
}

// the registered gRPC query service at block time now
func (w *world) recovered(d types.Downtime, r time.Duration, now time.Time) (ok bool, ans bool, errText string) {
	qc := queryproto.NewQueryClient(&baseapp.QueryServiceTestHelper{
		GRPCQueryRouter: w.App.GRPCQueryRouter(), Ctx: w.Ctx.WithBlockTime(now)})
	var res *queryproto.RecoveredSinceDowntimeOfLengthResponse
	var err error
	func() {
		defer func() {
			if p := recover(); p != nil {
				err = fmt.Errorf("panic: %v", p)
			}
		}()
		res, err = qc.RecoveredSinceDowntimeOfLength(context.Background(),
			&queryproto.RecoveredSinceDowntimeOfLengthRequest{Downtime: d, Recovery: r})
	}()
	if err != nil {
		return false, false, err.Error()
	}
	return true, res.SuccesfullyRecovered, ""
}

// the keeper method other modules call
func (w *world) recoveredKeeper(d types.Downtime, r time.Duration, now time.Time) (ok bool, ans bool) {
	out := w.Peek(func(ctx sdk.Context) error {
		var err error
		ans, err = w.App.DowntimeKeeper.RecoveredSinceDowntimeOfLength(ctx.WithBlockTime(now), d, r)
		return err
	})
	return out.OK, out.OK && ans
}

func (w *world) getLast(d types.Downtime) (ok bool, t time.Time) {
	out := w.Peek(func(ctx sdk.Context) error {
		var err error
		t, err = w.App.DowntimeKeeper.GetLastDowntimeOfLength(ctx, d)
		return err
	})
	return out.OK, t
}

func ladderOfCode() []tracelog.Big {
	res := []tracelog.Big{}
	for i := 0; i < 200 && len(res) < 64; i++ {
		if d, ok := types.DowntimeToDuration.Get(types.Downtime(i)); ok {
			res = append(res, bigD(d))
		}
	}
	return res
}

// ---------------------------------------------------------------------------
// impl -> spec: seeded random histories, recorded as ndjson

var base = time.Unix(1_700_000_000, 0).UTC()

func ladderDur(i int) time.Duration { // documented ladder, index 0..24 (the generator's own copy)
	secs := []int64{30, 60, 120, 180, 240, 300, 600, 1200, 1800, 2400, 3000, 3600, 5400, 7200, 9000,
		10800, 14400, 18000, 21600, 32400, 43200, 64800, 86400, 129600, 172800}
	return time.Duration(secs[i]) * time.Second
}

func randGenesis(rng *rand.Rand, lb time.Time) *types.GenesisState {
	g := &types.GenesisState{LastBlockTime: lb, Downtimes: []types.GenesisDowntimeEntry{}}
	back := func(max time.Duration) time.Duration { return time.Duration(rng.Int63n(int64(max) + 1)) }
	switch rng.Intn(6) {
	case 0: // what a new chain starts from
		return types.DefaultGenesis()
	case 1: // no list at all
	case 2, 3: // the first k durations, consistent (non-increasing in d, none after lb)
		k := nLadder
		if rng.Intn(2) == 0 {
			k = 1 + rng.Intn(nLadder)
		}
		t := lb
		for i := 0; i < k; i++ {
			if rng.Intn(3) > 0 {
				t = t.Add(-back(ladderDur(i)))
			}
			g.Downtimes = append(g.Downtimes, types.GenesisDowntimeEntry{Duration: types.Downtime(i), LastDowntime: t})
		}
	default: // any subset, any times (also later than lb)
		for i := 0; i < nLadder; i++ {
			if rng.Intn(2) == 0 {
				t := lb.Add(-back(100 * time.Hour)).Add(back(10 * time.Hour))
				g.Downtimes = append(g.Downtimes, types.GenesisDowntimeEntry{Duration: types.Downtime(i), LastDowntime: t})
			}
		}
	}
	rng.Shuffle(len(g.Downtimes), func(i, j int) { g.Downtimes[i], g.Downtimes[j] = g.Downtimes[j], g.Downtimes[i] })
	return g
}

func randGap(rng *rand.Rand, calm bool) time.Duration {
	r := rng.Intn(100)
	if calm && r >= 12 {
		r = 30 + rng.Intn(40)
	}
	i := rng.Intn(nLadder)
	switch {
	case r < 4:
		return 0
	case r < 10: // exactly a ladder duration
		return ladderDur(i)
	case r < 15:
		return ladderDur(i) - 1
	case r < 19:
		return ladderDur(i) + 1
	case r < 24: // between this and the next ladder duration
		hi := 2 * ladderDur(i)
		if i+1 < nLadder {
			hi = ladderDur(i + 1)
		}
		return ladderDur(i) + time.Duration(rng.Int63n(int64(hi-ladderDur(i))))
	case r < 27: // far beyond the ladder
		return 48*time.Hour + time.Duration(rng.Int63n(int64(5*365*24*time.Hour)))
	case r < 30: // just under the shortest duration
		return 30*time.Second - time.Duration(1+rng.Int63n(int64(time.Second)))
	case r < 85: // ordinary blocks
		return time.Duration(1 + rng.Int63n(int64(8*time.Second)))
	default:
		return time.Duration(rng.Int63n(int64(40 * time.Second)))
	}
}

var zones = []*time.Location{time.UTC, time.FixedZone("plus", 5*3600+1800), time.FixedZone("minus", -11*3600)}

func TestRecord(t *testing.T) {
	out := os.Getenv("VERIF_OUT")
	if out == "" {
		t.Skip("VERIF_OUT not set")
	}
	seed := tracelog.EnvInt("VERIF_SEED", 1)
	nh := int(tracelog.EnvInt("VERIF_HISTORIES", 8))
	nb := int(tracelog.EnvInt("VERIF_BLOCKS", 60))
	rng := rand.New(rand.NewSource(seed))
	tw, err := tracelog.NewWriter(out)
	if err != nil {
		t.Fatal(err)
	}
	invalid := []types.Downtime{-1, 25, 26, 127, 1000}
	pickD := func() types.Downtime {
		if rng.Intn(10) == 0 {
			return invalid[rng.Intn(len(invalid))]
		}
		return types.Downtime(rng.Intn(nLadder))
	}
	for h := 0; h < nh; h++ {
		w := newWorld(t)
		lb := base.Add(time.Duration(rng.Int63n(int64(1000 * time.Hour))))
		if rng.Intn(3) == 0 {
			lb = lb.Truncate(time.Second)
		}
		g := randGenesis(rng, lb)
		if o := w.importGen(g); !o.OK {
			t.Fatalf("InitGenesis failed: %+v", o)
		}
		tw.Emit(map[string]any{"e": "cfg", "ladder": ladderOfCode(), "gen": docOf(g), "st": w.state()})
		cur := g.LastBlockTime
		calm := rng.Intn(2) == 0
		for b := 0; b < nb; b++ {
			gap := randGap(rng, calm)
			if cur.Before(base) { // a chain started from the default genesis: its first block is decades later
				gap += base.Sub(cur)
			}
			cur = cur.Add(gap)
			bt := cur.In(zones[rng.Intn(len(zones))])
			if o := w.beginBlock(bt); !o.OK {
				t.Fatalf("BeginBlock failed: %+v", o)
			}
			st := w.state()
			tw.Emit(map[string]any{"e": "block", "t": bigT(cur), "gap": bigD(gap), "st": st})
			// queries
			nq := rng.Intn(5)
			for q := 0; q < nq; q++ {
				if rng.Intn(4) == 0 {
					d := pickD()
					ok, tt := w.getLast(d)
					if !ok {
						tt = time.Unix(0, 0)
					}
					tw.Emit(map[string]any{"e": "get", "d": int(d) + 1, "ok": ok, "t": bigT(tt)})
					continue
				}
				d := pickD()
				now := cur
				switch rng.Intn(12) {
				case 0:
					now = cur.Add(time.Duration(rng.Int63n(int64(72 * time.Hour))))
				case 1:
					now = cur.Add(-time.Duration(rng.Int63n(int64(2 * time.Hour))))
				}
				var r time.Duration
				okLast, lastD := w.getLast(d)
				exact := time.Duration(0)
				if okLast {
					exact = now.Sub(lastD)
				}
				switch k := rng.Intn(20); {
				case k < 5 && okLast:
					r = exact
				case k < 7 && okLast:
					r = exact + 1
				case k < 9 && okLast:
					r = exact - 1
				case k < 10:
					r = 0
				case k < 11:
					r = -time.Duration(1 + rng.Int63n(int64(time.Hour)))
				case k < 12:
					r = time.Duration(math.MaxInt64)
				case k < 16:
					r = ladderDur(rng.Intn(nLadder))
				default:
					r = time.Duration(1 + rng.Int63n(int64(3*24*time.Hour)))
				}
				ok, ans, errText := w.recovered(d, r, now)
				// the keeper method (what other modules call) must agree with the query service
				kok, kans := w.recoveredKeeper(d, r, now)
				if kok != ok || kans != ans {
					t.Fatalf("query service (%v,%v) and keeper (%v,%v) disagree for d=%d r=%d", ok, ans, kok, kans, d, r)
				}
				ev := map[string]any{"e": "rec", "d": int(d) + 1, "r": bigD(r), "now": bigT(now), "ok": ok, "ans": ans}
				if !ok {
					ev["err"] = errText
				}
				tw.Emit(ev)
			}
			// export, and sometimes start a new chain from the export or from a fresh genesis
			if rng.Intn(25) == 0 {
				raw, eg, o := w.export()
				if !o.OK {
					// a panic of ExportGenesis: nothing to log as an export; the state line tells why
					tw.Emit(map[string]any{"e": "export", "gen": genDoc{LB: tracelog.EncInt64(0), Ent: []entry{}}, "failed": o.Err})
					continue
				}
				tw.Emit(map[string]any{"e": "export", "gen": docOf(&eg)})
				switch rng.Intn(3) {
				case 0:
					if o := w.importRaw(raw); !o.OK {
						t.Fatalf("InitGenesis of an export failed: %+v", o)
					}
					tw.Emit(map[string]any{"e": "import", "rt": true, "gen": docOf(&eg), "st": w.state()})
				case 1:
					ng := randGenesis(rng, cur.Add(time.Duration(rng.Int63n(int64(time.Hour)))))
					if o := w.importGen(ng); !o.OK {
						t.Fatalf("InitGenesis failed: %+v", o)
					}
					tw.Emit(map[string]any{"e": "import", "rt": false, "gen": docOf(ng), "st": w.state()})
					cur = ng.LastBlockTime
				}
			}
		}
	}
	if err := tw.Close(); err != nil {
		t.Fatal(err)
	}
	fmt.Printf("RECORDED events=%d histories=%d\n", tw.N, nh)
}

// ---------------------------------------------------------------------------
// spec -> impl: behaviours printed by TLC (MCDowntime, Emit) replayed on the module

type genEntry struct {
	D int   `json:"d"`
	T int64 `json:"t"`
}
type genStep struct {
	A   string `json:"a"`
	T   int64  `json:"t"`
	Gen struct {
		LB  int64      `json:"lb"`
		Ent []genEntry `json:"ent"`
	} `json:"gen"`
	St struct {
		LB   int64   `json:"lb"`
		Last []int64 `json:"last"`
	} `json:"st"`
}
type behaviour struct {
	Unit  int64     `json:"unit"`
	BatR  []int64   `json:"batr"`
	Steps []genStep `json:"steps"`
	Rec   [][]bool  `json:"rec"` // expected battery answers in the last state
}
type mismatch struct {
	Behaviour int    `json:"behaviour"`
	Step      int    `json:"step"`
	What      string `json:"what"`
	Want      any    `json:"want"`
	Got       any    `json:"got"`
}

func TestReplay(t *testing.T) {
	in := os.Getenv("VERIF_IN")
	if in == "" {
		t.Skip("VERIF_IN not set")
	}
	out := tracelog.EnvStr("VERIF_OUT", in+".result")
	bs, err := tracelog.ReadLines[behaviour](in)
	if err != nil {
		t.Fatal(err)
	}
	shard, nshards := 0, 1
	fmt.Sscanf(os.Getenv("VERIF_SHARD"), "%d/%d", &shard, &nshards)
	if nshards < 1 {
		nshards = 1
	}
	w := newWorld(t)
	mm := []mismatch{}
	steps, queries, done := 0, 0, 0
	kinds := map[string]int{}
	for bi, b := range bs {
		if bi%nshards != shard {
			continue
		}
		done++
		unit := time.Duration(b.Unit) * time.Second
		at := func(x int64) time.Time { return time.Unix(0, 0).UTC().Add(time.Duration(x) * unit) }
		unitsOf := func(tt time.Time) any {
			d := tt.Sub(time.Unix(0, 0))
			if d%unit != 0 {
				return tt.String()
			}
			return int64(d / unit)
		}
		for si, s := range b.Steps {
			steps++
			kinds[s.A]++
			bad := func(what string, want, got any) {
				mm = append(mm, mismatch{Behaviour: bi, Step: si, What: what, Want: want, Got: got})
			}
			switch s.A {
			case "init":
				g := &types.GenesisState{LastBlockTime: at(s.Gen.LB), Downtimes: []types.GenesisDowntimeEntry{}}
				for _, e := range s.Gen.Ent {
					g.Downtimes = append(g.Downtimes, types.GenesisDowntimeEntry{Duration: types.Downtime(e.D - 1), LastDowntime: at(e.T)})
				}
				if o := w.importGen(g); !o.OK {
					bad("InitGenesis fails", "ok", o.Err)
				}
			case "block":
				if o := w.beginBlock(at(s.T)); !o.OK {
					bad("BeginBlock fails", "ok", o.Err)
				}
			case "reimport":
				raw, eg, o := w.export()
				if !o.OK {
					bad("ExportGenesis fails", "ok", o.Err)
					break
				}
				// the export lists the last block time and every ladder duration exactly once with its value
				seen := map[int]int{}
				for _, e := range eg.Downtimes {
					seen[int(e.Duration)]++
				}
				pre := b.Steps[si-1].St
				if !eg.LastBlockTime.Equal(at(pre.LB)) {
					bad("exported last block time", pre.LB, unitsOf(eg.LastBlockTime))
				}
				for _, e := range eg.Downtimes {
					i := int(e.Duration)
					if i < 0 || i >= len(pre.Last) || seen[i] != 1 || !e.LastDowntime.Equal(at(pre.Last[i])) {
						bad("exported entry", pre.Last, fmt.Sprintf("%d: %v", i, unitsOf(e.LastDowntime)))
						break
					}
				}
				if len(eg.Downtimes) != len(pre.Last) {
					bad("number of exported entries", len(pre.Last), len(eg.Downtimes))
				}
				if o := w.importRaw(raw); !o.OK {
					bad("InitGenesis of an export fails", "ok", o.Err)
				}
			default:
				t.Fatalf("unknown action %q", s.A)
			}
			// projected state
			w.Peek(func(ctx sdk.Context) error {
				k := w.App.DowntimeKeeper
				lbt, err := k.GetLastBlockTime(ctx)
				if err != nil || !lbt.Equal(at(s.St.LB)) {
					bad("last block time", s.St.LB, unitsOf(lbt))
				}
				for i := range s.St.Last {
					tt, err := k.GetLastDowntimeOfLength(ctx, types.Downtime(i))
					if err != nil || !tt.Equal(at(s.St.Last[i])) {
						bad(fmt.Sprintf("last downtime of ladder index %d", i+1), s.St.Last[i], map[string]any{"ok": err == nil, "t": unitsOf(tt)})
						break
					}
				}
				return nil
			})
			// query battery at the block time, in the state this behaviour was emitted for (its last step; the
			// states of the earlier steps have behaviours of their own): the keeper for every (duration,
			// recovery), the gRPC service for one recovery per duration
			now := at(s.St.LB)
			if si == len(b.Steps)-1 {
				w.Peek(func(ctx sdk.Context) error {
					ctx = ctx.WithBlockTime(now)
					for i := range b.Rec {
						for kk, want := range b.Rec[i] {
							r := time.Duration(b.BatR[kk]) * unit
							queries++
							ans, err := w.App.DowntimeKeeper.RecoveredSinceDowntimeOfLength(ctx, types.Downtime(i), r)
							ok := err == nil
							if kk == (i+si)%len(b.Rec[i]) {
								gok, gans, _ := w.recovered(types.Downtime(i), r, now)
								if gok != ok || gans != (ok && ans) {
									bad("query service and keeper disagree", []bool{ok, ans}, []bool{gok, gans})
								}
							}
							if !ok || ans != want {
								bad(fmt.Sprintf("RecoveredSinceDowntimeOfLength(ladder index %d, %d units) at the block time", i+1, b.BatR[kk]),
									want, map[string]any{"ok": ok, "ans": ans})
								return nil
							}
						}
					}
					return nil
				})
			}
			// P5: refusals
			if ok, _ := w.recoveredKeeper(types.Downtime(0), 0, now); ok {
				bad("recovery 0 answered", "refused", "answered")
			}
			if ok, _ := w.recoveredKeeper(types.Downtime(nLadder), unit, now); ok {
				bad("duration outside the ladder answered", "refused", "answered")
			}
			if ok, _ := w.getLast(types.Downtime(nLadder)); ok {
				bad("GetLastDowntimeOfLength outside the ladder answered", "refused", "answered")
			}
			if len(mm) > 0 && mm[len(mm)-1].Behaviour == bi {
				break // later steps of this behaviour start from a different state
			}
		}
		if len(mm) >= 20 {
			break
		}
	}
	res := map[string]any{"behaviours": done, "steps": steps, "queries": queries, "kinds": kinds, "mismatches": mm}
	bz, _ := json.Marshal(res)
	if err := os.WriteFile(out, bz, 0o644); err != nil {
		t.Fatal(err)
	}
	fmt.Printf("REPLAYED behaviours=%d steps=%d queries=%d mismatches=%d\n", done, steps, queries, len(mm))
}
