// Replicas for C19: the same seeded workload (pure data) is executed by several
// OS processes - each a fresh osmosis app started from the SAME genesis file -
// and every block's app hash, transaction results and events are logged.  At a
// chosen height a replica exports its state; an importer process is started
// from that export and fed the remaining blocks.
//
//	TestGenesis   writes a deterministic genesis document (run once)
//	TestReplica   executes the workload; env: VERIF_GENESIS, VERIF_OUT, VERIF_SEED,
//	              VERIF_BLOCKS, VERIF_REPLICA, VERIF_EXPORT_AT, VERIF_EXPORT_FILE,
//	              VERIF_IMPORT_FILE (importer mode)
package replica

import (
	"crypto/sha256"
	"encoding/hex"
	"encoding/json"
	"fmt"
	"math/rand"
	"os"
	"sort"
	"strconv"
	"strings"
	"testing"
	"time"

	abci "github.com/cometbft/cometbft/abci/types"
	cryptoenc "github.com/cometbft/cometbft/crypto/encoding"
	cmtproto "github.com/cometbft/cometbft/proto/tendermint/types"
	cosmosdb "github.com/cosmos/cosmos-db"
	"github.com/cosmos/cosmos-sdk/baseapp"
	sims "github.com/cosmos/cosmos-sdk/testutil/sims"
	sdk "github.com/cosmos/cosmos-sdk/types"
	banktestutil "github.com/cosmos/cosmos-sdk/x/bank/testutil"
	"github.com/cosmos/cosmos-sdk/x/crisis"
	banktypes "github.com/cosmos/cosmos-sdk/x/bank/types"

	"cosmossdk.io/log"

	"github.com/osmosis-labs/osmosis/osmomath"
	"github.com/osmosis-labs/osmosis/v31/app"
	"github.com/osmosis-labs/osmosis/v31/app/apptesting"
	cltypes "github.com/osmosis-labs/osmosis/v31/x/concentrated-liquidity/types"
	clmodel "github.com/osmosis-labs/osmosis/v31/x/concentrated-liquidity/model"
	"github.com/osmosis-labs/osmosis/v31/x/gamm/pool-models/balancer"
	gammtypes "github.com/osmosis-labs/osmosis/v31/x/gamm/types"
	incentivestypes "github.com/osmosis-labs/osmosis/v31/x/incentives/types"
	lockuptypes "github.com/osmosis-labs/osmosis/v31/x/lockup/types"
	poolmanagertypes "github.com/osmosis-labs/osmosis/v31/x/poolmanager/types"
	tftypes "github.com/osmosis-labs/osmosis/v31/x/tokenfactory/types"

	"verif/harness/apphelp"
	"verif/harness/tracelog"
)

const chainID = "osmosis-1"

var genesisTime = time.Unix(1_750_000_000, 0).UTC()

var denoms = []string{"uosmo", "uion", "eth", "usdc", "atom"}
var fundedDenoms = []string{"uosmo", "uion", "eth", "usdc", "atom", "stake"}

// ---------------------------------------------------------------------------
// workload as data

type op struct {
	K string `json:"k"`
	U int    `json:"u"`
	V int    `json:"v"`
	A int64  `json:"a"`
	B int64  `json:"b"`
	C int64  `json:"c"`
	D int    `json:"d"`
	E int    `json:"e"`
}

type block struct {
	DtSec int64 `json:"dt"`
	Ops   []op  `json:"ops"`
}

const nUsers = 4

// genWorkload depends on the seed only (never on execution results): ids of locks,
// pools, positions and gauges are referred to by creation order.
func genWorkload(seed int64, nblocks int) []block {
	rng := rand.New(rand.NewSource(seed))
	var bs []block
	type poolT struct {
		cl     bool
		d0, d1 int
		at     int // block of creation
	}
	// A concentrated pool that gets its first position in the block of its creation leaves a twap record that
	// x/twap's own InitGenesis refuses (listed finding): every state from then on cannot be imported.  Three
	// workloads out of four therefore wait one block before the first position, so that export/import is
	// exercised from early blocks on; the fourth keeps exhibiting the finding.
	sameBlockPositions := seed%4 == 3
	pools := []poolT{} // predicted: pool ids are 1 + index if every creation succeeds
	locks, positions, tfdenoms := 0, 0, 0
	usdc := 3
	for b := 0; b < nblocks; b++ {
		bl := block{}
		switch r := rng.Intn(10); {
		case r < 5:
			bl.DtSec = int64(1 + rng.Intn(10))
		case r < 8:
			bl.DtSec = int64(600 + rng.Intn(3600)) // crosses hour epochs now and then
		default:
			bl.DtSec = int64(20*3600 + rng.Intn(10*3600)) // crosses a day epoch
		}
		n := rng.Intn(7)
		if b < 4 {
			n = 6
		}
		if b == 0 {
			n = 0 // block 0 holds the scripted start only: its four gauges must be alone in their reference list
			if bl.DtSec > 10 {
				bl.DtSec = 5 // and the block must not end an epoch by itself
			}
		}
		if b == 1 {
			// a ladder of 14 distinct lock durations on one denom right at the start: its accumulation
			// sum-tree (fan-out 10) has several nodes at every later export/import point
			for i := 0; i < 14; i++ {
				bl.Ops = append(bl.Ops, op{K: "lock", U: i % nUsers, D: 0, E: 1, A: int64(1000 + rng.Intn(100000)), B: int64(i)})
				locks++
			}
		}
		if b == 0 {
			// Scripted start (consumes no randomness).  All gauge ids of one status live in ONE reference list and
			// a finishing gauge is removed by moving the LAST id into its slot, so from the first finished gauge
			// on the stored order is not the id order; an epoch's distribution walks the gauges in stored order and
			// pays the reward receivers in the order it first meets them (hence its events).  Gauge 1 (first in the
			// list of its start time, one epoch) finishes first and gauge 4 takes its slot: [4 2 3], later [4 2] for
			// 30 epochs.  Gauge 2 pays user 3 alone (the only "atom" lock), gauge 4 meets user 0 first (the shortest
			// "uion" and "eth" locks are user 0's).  An export/import that re-orders the list therefore shows as
			// different block events on the importer at every later distribution.
			bl.Ops = append(bl.Ops,
				op{K: "lockX", U: 0, D: 1, A: int64(5000 + b), B: 8}, op{K: "lockX", U: 0, D: 2, A: int64(7000 + b), B: 8},
				op{K: "lockX", U: nUsers - 1, D: 4, A: 9000, B: 30},
				op{K: "gaugeX", U: 1, D: 1, A: 1, B: 1, C: 0}, op{K: "gaugeX", U: 2, D: 4, A: 2, B: 30, C: 1},
				op{K: "gaugeX", U: 0, D: 2, A: 3, B: 2, C: 2}, op{K: "gaugeX", U: 1, D: 1, A: 4, B: 30, C: 0})
			locks += 3
		}
		for i := 0; i < n; i++ {
			o := op{U: rng.Intn(nUsers), V: rng.Intn(nUsers), D: rng.Intn(len(denoms)), E: rng.Intn(len(denoms)),
				A: int64(1 + rng.Intn(1000000)), B: int64(1 + rng.Intn(1000)), C: int64(rng.Intn(1000))}
			if o.D == o.E {
				o.E = (o.E + 1) % len(denoms)
			}
			freshCLExcluded := false
			pickPool := func(wantCL, wantClassic bool) bool {
				cands := []int{}
				for pi, p := range pools {
					if p.cl && freshCLExcluded && p.at == b && !sameBlockPositions {
						continue
					}
					if (p.cl && wantCL) || (!p.cl && wantClassic) {
						cands = append(cands, pi)
					}
				}
				if len(cands) == 0 {
					return false
				}
				pi := cands[rng.Intn(len(cands))]
				o.C = int64(pi + 1)
				o.D, o.E = pools[pi].d0, pools[pi].d1
				if rng.Intn(2) == 0 && !wantCL {
					o.D, o.E = o.E, o.D
				}
				return true
			}
			switch r := rng.Intn(100); {
			case r < 6:
				o.K = "send"
			case r < 24:
				o.K = "lock"
				locks++
			case r < 27 && locks > 0:
				o.K = "beginUnlock"
				o.C = int64(4 + rng.Intn(locks)) // never the three scripted locks of block 0
			case r < 31:
				o.K = "createBalancer"
				pools = append(pools, poolT{false, o.D, o.E, b})
			case r < 36:
				o.K = "joinPool"
				if !pickPool(false, true) {
					o.K = "send"
				}
			case r < 52:
				o.K = "swap"
				if !pickPool(true, true) {
					o.K = "send"
				} else if rng.Intn(2) == 0 {
					o.D, o.E = o.E, o.D
				}
			case r < 56:
				o.K = "exitPool"
				if !pickPool(false, true) {
					o.K = "send"
				}
			case r < 61:
				o.K = "createCL"
				if o.D == usdc {
					o.D = 2
				}
				o.E = usdc
				pools = append(pools, poolT{true, o.D, usdc, b})
			case r < 76:
				o.K = "clPosition"
				freshCLExcluded = true
				if !pickPool(true, false) {
					o.K = "send"
				} else {
					positions++
				}
			case r < 80 && positions > 0:
				o.K = "clWithdraw"
				o.C = int64(1 + rng.Intn(positions+1))
			case r < 83 && positions > 0:
				o.K = "clCollect"
				o.C = int64(1 + rng.Intn(positions+1))
			case r < 87:
				o.K = "tfCreate"
				tfdenoms++
			case r < 90 && tfdenoms > 0:
				o.K = "tfMint"
			case r < 92 && tfdenoms > 0:
				o.K = "tfBurn"
			case r < 100 && locks > 0:
				o.K = "gauge"
			default:
				o.K = "send"
			}
			bl.Ops = append(bl.Ops, o)
		}
		bs = append(bs, bl)
	}
	return bs
}

// ---------------------------------------------------------------------------

func TestGenesis(t *testing.T) {
	out := os.Getenv("VERIF_GENESIS")
	if out == "" {
		t.Skip("VERIF_GENESIS not set")
	}
	dir := scratchDir(t)
	a := app.NewOsmosisApp(log.NewNopLogger(), cosmosdb.NewMemDB(), nil, true, map[int64]bool{}, dir, 0,
		sims.EmptyAppOptions{}, app.EmptyWasmOpts, baseapp.SetChainID(chainID))
	gs := app.GenesisStateWithValSet(a)
	// fund the workload's accounts in the genesis document itself
	var bank banktypes.GenesisState
	a.AppCodec().MustUnmarshalJSON(gs[banktypes.ModuleName], &bank)
	for i := 0; i < nUsers; i++ {
		coins := sdk.NewCoins()
		for _, d := range fundedDenoms {
			coins = coins.Add(sdk.NewCoin(d, osmomath.NewInt(1_000_000_000_000_000)))
		}
		bank.Balances = append(bank.Balances, banktypes.Balance{Address: apphelp.Acct(100 + i).String(), Coins: coins})
		bank.Supply = bank.Supply.Add(coins...)
	}
	bank.Balances = banktypes.SanitizeGenesisBalances(bank.Balances)
	gs[banktypes.ModuleName] = a.AppCodec().MustMarshalJSON(&bank)
	// gauges distribute at the day epoch, so that a workload of a few weeks sees many distributions
	var inc incentivestypes.GenesisState
	a.AppCodec().MustUnmarshalJSON(gs[incentivestypes.ModuleName], &inc)
	inc.Params.DistrEpochIdentifier = "day"
	inc.Params.MinValueForDistribution = incentivestypes.DefaultMinValueForDistr
	gs[incentivestypes.ModuleName] = a.AppCodec().MustMarshalJSON(&inc)
	bz, err := json.Marshal(gs)
	if err != nil {
		t.Fatal(err)
	}
	if err := os.WriteFile(out, bz, 0o644); err != nil {
		t.Fatal(err)
	}
}

type node struct {
	apptesting.KeeperTestHelper
	users []sdk.AccAddress
	tf    []string
}

func newNode(t *testing.T, appState []byte, initialHeight int64, vals []abci.ValidatorUpdate, at time.Time) (nn *node, initErr error) {
	defer func() {
		if r := recover(); r != nil {
			nn, initErr = nil, fmt.Errorf("panic in InitChain: %v", r)
		}
	}()
	n := &node{}
	n.SetT(t)
	dir := scratchDir(t)
	// crisis sits before most osmosis modules in the InitGenesis order, so its genesis-time
	// invariant run sees half-initialised state; nodes start with the skip flag (as here)
	n.App = app.NewOsmosisApp(log.NewNopLogger(), cosmosdb.NewMemDB(), nil, true, map[int64]bool{}, dir, 0,
		sims.AppOptionsMap{crisis.FlagSkipGenesisInvariants: true}, app.EmptyWasmOpts, baseapp.SetChainID(chainID))
	_, err := n.App.InitChain(&abci.RequestInitChain{
		Validators:      vals,
		ConsensusParams: sims.DefaultConsensusParams,
		AppStateBytes:   appState,
		ChainId:         chainID,
		Time:            at,
		InitialHeight:   initialHeight,
	})
	if err != nil {
		return nil, fmt.Errorf("InitChain: %v", err)
	}
	n.Ctx = n.App.BaseApp.NewContextLegacy(false, cmtproto.Header{Height: initialHeight, ChainID: chainID, Time: at})
	for i := 0; i < nUsers; i++ {
		n.users = append(n.users, apphelp.Acct(100+i))
	}
	return n, nil
}

// dumpModule keeps the canonical JSON of a module export when VERIF_DUMP_DIR is set (triage of differences)
func dumpModule(tag string, module string, canonical []byte) {
	dir := os.Getenv("VERIF_DUMP_DIR")
	if dir == "" {
		return
	}
	os.MkdirAll(dir, 0o755)
	os.WriteFile(fmt.Sprintf("%s/%s.%s.json", dir, tag, module), canonical, 0o644)
}

func hashOf(parts ...[]byte) string {
	h := sha256.New()
	for _, p := range parts {
		h.Write(p)
		h.Write([]byte{0})
	}
	return hex.EncodeToString(h.Sum(nil)[:12])
}

func eventsBytes(evs []abci.Event) []byte {
	var out []byte
	for _, e := range evs {
		bz, _ := e.Marshal()
		out = append(out, bz...)
	}
	return out
}

// deliver runs one message like a transaction and returns a digest of what a client would see.
func (n *node) deliver(msg sdk.Msg) (string, bool) {
	if vb, ok := msg.(interface{ ValidateBasic() error }); ok {
		if err := vb.ValidateBasic(); err != nil {
			return hashOf([]byte("invalid"), []byte(err.Error())), false
		}
	}
	h := n.App.GetBaseApp().MsgServiceRouter().Handler(msg)
	if h == nil {
		panic(fmt.Sprintf("no handler for %T", msg))
	}
	cc, write := n.Ctx.WithEventManager(sdk.NewEventManager()).CacheContext()
	var res *sdk.Result
	var err error
	func() {
		defer func() {
			if r := recover(); r != nil {
				err = fmt.Errorf("panic: %v", r)
			}
		}()
		res, err = h(cc, msg)
	}()
	if err != nil {
		return hashOf([]byte("err"), []byte(err.Error())), false
	}
	write()
	return hashOf([]byte("ok"), res.Data, eventsBytes(res.Events), eventsBytes(cc.EventManager().ABCIEvents())), true
}

func (n *node) msgOf(o op) sdk.Msg {
	u, v := n.users[o.U], n.users[o.V]
	d, e := denoms[o.D], denoms[o.E]
	switch o.K {
	case "send":
		return banktypes.NewMsgSend(u, v, sdk.NewCoins(sdk.NewCoin(d, osmomath.NewInt(o.A))))
	case "lock":
		d = denoms[1+(o.D%4)/3] // mostly one denom: many distinct durations on it
		return lockuptypes.NewMsgLockTokens(u, time.Duration(8+o.B%25)*time.Hour, sdk.NewCoins(sdk.NewCoin(d, osmomath.NewInt(o.A))))
	case "lockX": // explicit denom index D and duration B hours
		return lockuptypes.NewMsgLockTokens(u, time.Duration(o.B)*time.Hour, sdk.NewCoins(sdk.NewCoin(denoms[o.D], osmomath.NewInt(o.A))))
	case "gaugeX": // explicit denom index D, epochs B, duration index C
		return &incentivestypes.MsgCreateGauge{IsPerpetual: false, Owner: u.String(),
			DistributeTo: lockuptypes.QueryCondition{LockQueryType: lockuptypes.ByDuration, Denom: denoms[o.D], Duration: []time.Duration{time.Hour, 3 * time.Hour, 7 * time.Hour}[o.C%3]},
			Coins:        sdk.NewCoins(sdk.NewCoin("uosmo", osmomath.NewInt(3_000_000_000+o.A*1000))), StartTime: n.Ctx.BlockTime(),
			NumEpochsPaidOver: uint64(o.B)}
	case "beginUnlock":
		return lockuptypes.NewMsgBeginUnlocking(u, uint64(o.C), nil)
	case "createBalancer":
		m := balancer.NewMsgCreateBalancerPool(u, balancer.PoolParams{SwapFee: osmomath.NewDecWithPrec(o.C%50, 3), ExitFee: osmomath.ZeroDec()},
			[]balancer.PoolAsset{{Weight: osmomath.NewInt(1 + o.B%9), Token: sdk.NewCoin(d, osmomath.NewInt(1000+o.A))},
				{Weight: osmomath.NewInt(1 + o.C%9), Token: sdk.NewCoin(e, osmomath.NewInt(1000+o.A*3))}}, "")
		return &m
	case "joinPool":
		return &gammtypes.MsgJoinPool{Sender: u.String(), PoolId: uint64(o.C), ShareOutAmount: osmomath.NewInt(o.A).MulRaw(1_000_000_000_000),
			TokenInMaxs: nil}
	case "exitPool":
		return &gammtypes.MsgExitPool{Sender: u.String(), PoolId: uint64(o.C), ShareInAmount: osmomath.NewInt(o.A).MulRaw(1_000_000_000),
			TokenOutMins: nil}
	case "swap":
		return &poolmanagertypes.MsgSwapExactAmountIn{Sender: u.String(),
			Routes:  []poolmanagertypes.SwapAmountInRoute{{PoolId: uint64(o.C), TokenOutDenom: e}},
			TokenIn: sdk.NewCoin(d, osmomath.NewInt(o.A)), TokenOutMinAmount: osmomath.OneInt()}
	case "createCL":
		sp := cltypes.AuthorizedTickSpacing[o.B%int64(len(cltypes.AuthorizedTickSpacing))]
		sf := cltypes.AuthorizedSpreadFactors[o.C%int64(len(cltypes.AuthorizedSpreadFactors))]
		m := clmodel.NewMsgCreateConcentratedPool(u, d, e, sp, sf)
		return &m
	case "clPosition":
		lo := (o.B%100 - 70) * 1000
		return &cltypes.MsgCreatePosition{PoolId: uint64(o.C), Sender: u.String(), LowerTick: lo, UpperTick: lo + (1+o.A%150)*1000,
			TokensProvided:  sdk.NewCoins(sdk.NewCoin(d, osmomath.NewInt(o.A)), sdk.NewCoin(e, osmomath.NewInt(o.A*2))),
			TokenMinAmount0: osmomath.ZeroInt(), TokenMinAmount1: osmomath.ZeroInt()}
	case "clWithdraw":
		return &cltypes.MsgWithdrawPosition{PositionId: uint64(o.C), Sender: u.String(), LiquidityAmount: osmomath.NewDec(o.A)}
	case "clCollect":
		return &cltypes.MsgCollectSpreadRewards{PositionIds: []uint64{uint64(o.C)}, Sender: u.String()}
	case "tfCreate":
		sub := fmt.Sprintf("tok%d", o.A%7)
		n.tf = append(n.tf, fmt.Sprintf("factory/%s/%s", u.String(), sub))
		return tftypes.NewMsgCreateDenom(u.String(), sub)
	case "tfMint":
		den := n.tf[int(o.B)%len(n.tf)]
		return tftypes.NewMsgMint(u.String(), sdk.NewCoin(den, osmomath.NewInt(o.A)))
	case "tfBurn":
		den := n.tf[int(o.B)%len(n.tf)]
		return tftypes.NewMsgBurn(u.String(), sdk.NewCoin(den, osmomath.NewInt(o.A/2+1)))
	case "gauge":
		d = denoms[1+o.D%2]
		return &incentivestypes.MsgCreateGauge{IsPerpetual: o.B%2 == 0, Owner: u.String(),
			DistributeTo: lockuptypes.QueryCondition{LockQueryType: lockuptypes.ByDuration, Denom: d, Duration: []time.Duration{time.Hour, 3 * time.Hour, 7 * time.Hour}[o.C%3]},
			Coins:        sdk.NewCoins(sdk.NewCoin("uosmo", osmomath.NewInt(1_000_000_000+o.A*1000))), StartTime: n.Ctx.BlockTime(),
			NumEpochsPaidOver: uint64(1 + o.B%2*(o.C%5))}
	}
	panic("unknown op " + o.K)
}

// scratchDir: like t.TempDir, but the removal is best effort: the app keeps background writers (wasm cache,
// snapshot stores) in its home directory, and t.TempDir fails the test when its RemoveAll races with them.
func scratchDir(t *testing.T) string {
	dir, err := os.MkdirTemp("", "verif-replica-")
	if err != nil {
		t.Fatal(err)
	}
	t.Cleanup(func() {
		for i := 0; i < 5; i++ {
			if os.RemoveAll(dir) == nil {
				return
			}
			time.Sleep(100 * time.Millisecond)
		}
	})
	return dir
}

// endBlock finalizes and commits the current block, then opens the next one dt later.
func (n *node) endBlock(dt time.Duration) (appHash, evHash string) {
	resp, err := n.App.FinalizeBlock(&abci.RequestFinalizeBlock{Height: n.Ctx.BlockHeight(), Time: n.Ctx.BlockTime()})
	if err != nil {
		panic(fmt.Sprintf("FinalizeBlock: %v", err))
	}
	if _, err := n.App.Commit(); err != nil {
		panic(err)
	}
	appHash = hex.EncodeToString(n.App.LastCommitID().Hash)
	evHash = hashOf(eventsBytes(resp.Events))
	if os.Getenv("VERIF_DEBUG_EVENTS") != "" {
		ids := []uint64{}
		for _, g := range n.App.IncentivesKeeper.GetActiveGauges(n.Ctx) {
			ids = append(ids, g.Id)
		}
		fmt.Printf("DEBUGEV h=%d active=%v\n", n.Ctx.BlockHeight(), ids)
		for _, e := range resp.Events {
			if e.Type == "distribution" {
				fmt.Printf("DEBUGEV h=%d %s %v\n", n.Ctx.BlockHeight(), e.Type, e.Attributes)
			}
		}
	}
	header := n.Ctx.BlockHeader()
	header.Time = header.Time.Add(dt)
	header.Height++
	n.Ctx = n.App.BaseApp.NewUncachedContext(false, header)
	return appHash, evHash
}

func (n *node) exportModules(tag string) (map[string]string, []byte, []abci.ValidatorUpdate, int64) {
	ex, err := n.App.ExportAppStateAndValidators(false, nil, nil)
	if err != nil {
		panic(fmt.Sprintf("export: %v", err))
	}
	var mods map[string]json.RawMessage
	if err := json.Unmarshal(ex.AppState, &mods); err != nil {
		panic(err)
	}
	res := map[string]string{}
	for k, v := range mods {
		// canonical form: re-marshal through a generic value so that whitespace does not matter
		var x any
		json.Unmarshal(v, &x)
		bz, _ := json.Marshal(x)
		res[k] = hashOf(bz)
		dumpModule(tag, k, bz)
	}
	vals := []abci.ValidatorUpdate{}
	for _, v := range ex.Validators {
		pk, err := cryptoenc.PubKeyToProto(v.PubKey)
		if err != nil {
			panic(err)
		}
		vals = append(vals, abci.ValidatorUpdate{PubKey: pk, Power: v.Power})
	}
	return res, ex.AppState, vals, ex.Height
}

// stats: what the workload actually reached (non-vacuity of the determinism check)
func (n *node) stats() map[string]int {
	st := map[string]int{}
	gs := n.App.IncentivesKeeper.GetGauges(n.Ctx)
	for _, g := range gs {
		if g.DistributeTo.LockQueryType == lockuptypes.ByDuration {
			st["lockGauges"]++
			if !g.DistributedCoins.IsZero() {
				st["lockGaugesThatPaid"]++
			}
		}
	}
	// stored order of the active gauge references (concatenated per start time): out of id order once a
	// gauge left the middle of a list shared with others
	prev := uint64(0)
	for _, g := range n.App.IncentivesKeeper.GetActiveGauges(n.Ctx) {
		if g.Id < prev {
			st["maxActiveGaugeRefsOutOfIdOrder"] = 1
		}
		prev = g.Id
	}
	locks, _ := n.App.LockupKeeper.GetPeriodLocks(n.Ctx)
	st["locks"] = len(locks)
	dd := map[string]map[time.Duration]bool{}
	for _, l := range locks {
		for _, c := range l.Coins {
			if dd[c.Denom] == nil {
				dd[c.Denom] = map[time.Duration]bool{}
			}
			dd[c.Denom][l.Duration] = true
		}
	}
	for _, m := range dd {
		if len(m) > st["maxDistinctLockDurationsPerDenom"] {
			st["maxDistinctLockDurationsPerDenom"] = len(m)
		}
	}
	st["pools"] = int(n.App.PoolManagerKeeper.GetNextPoolId(n.Ctx)) - 1
	st["clPositions"] = int(n.App.ConcentratedLiquidityKeeper.GetNextPositionId(n.Ctx)) - 1
	st["factoryDenoms"] = len(n.tf)
	for _, e := range n.App.EpochsKeeper.AllEpochInfos(n.Ctx) {
		st["epoch:"+e.Identifier] = int(e.CurrentEpoch)
	}
	return st
}

type exportFile struct {
	AppState json.RawMessage        `json:"app_state"`
	Vals     [][]byte               `json:"vals"` // proto-marshalled abci.ValidatorUpdate
	Height   int64                  `json:"height"`
	TimeUnix int64                  `json:"time_unix"`
	Block    int                    `json:"block"` // index of the next workload block
	TF       []string               `json:"tf"`
}

func TestReplica(t *testing.T) {
	out := os.Getenv("VERIF_OUT")
	if out == "" {
		t.Skip("VERIF_OUT not set")
	}
	seed := tracelog.EnvInt("VERIF_SEED", 1)
	nblocks := int(tracelog.EnvInt("VERIF_BLOCKS", 30))
	replica := int(tracelog.EnvInt("VERIF_REPLICA", 1))
	exportAt := map[int]bool{}
	for _, f := range strings.Split(os.Getenv("VERIF_EXPORT_AT"), ",") {
		if v, err := strconv.Atoi(strings.TrimSpace(f)); err == nil {
			exportAt[v] = true
		}
	}
	exportFileName := os.Getenv("VERIF_EXPORT_FILE")
	importFileName := os.Getenv("VERIF_IMPORT_FILE")
	wl := genWorkload(seed, nblocks)
	tw, err := tracelog.NewWriter(out)
	if err != nil {
		t.Fatal(err)
	}
	defer tw.Close()

	var n *node
	start := 0
	role := "replica"
	if importFileName != "" {
		role = "importer"
		bz, err := os.ReadFile(importFileName)
		if err != nil {
			t.Fatal(err)
		}
		var ef exportFile
		if err := json.Unmarshal(bz, &ef); err != nil {
			t.Fatal(err)
		}
		vals := []abci.ValidatorUpdate{}
		for _, bz := range ef.Vals {
			var vu abci.ValidatorUpdate
			if err := vu.Unmarshal(bz); err != nil {
				t.Fatal(err)
			}
			vals = append(vals, vu)
		}
		n, err = newNode(t, ef.AppState, ef.Height, vals, time.Unix(ef.TimeUnix, 0).UTC())
		if err != nil {
			// the exported state cannot be imported: a result, not a harness failure
			msg := err.Error()
			if len(msg) > 400 {
				msg = msg[:400]
			}
			tw.Emit(map[string]any{"e": "importFailed", "r": replica, "blk": ef.Block - 1, "err": msg})
			fmt.Printf("REPLICA %d import failed: %s\n", replica, msg)
			return
		}
		n.tf = ef.TF
		start = ef.Block
		// module state as the freshly initialised node reports it (read from the genesis-time state)
		mods := map[string]string{}
		for k, v := range n.App.ExportState(n.Ctx) {
			var x any
			json.Unmarshal(v, &x)
			bz, _ := json.Marshal(x)
			mods[k] = hashOf(bz)
			dumpModule(fmt.Sprintf("imported-r%d-b%d", replica, start-1), k, bz)
		}
		tw.Emit(map[string]any{"e": "imported", "r": replica, "blk": start - 1, "mods": mods})
	} else {
		gen, err := os.ReadFile(os.Getenv("VERIF_GENESIS"))
		if err != nil {
			t.Fatal(err)
		}
		n, err = newNode(t, gen, 1, []abci.ValidatorUpdate{}, genesisTime)
		if err != nil {
			t.Fatal(err)
		}
		// test-only environment preparation, identical on every replica
		n.SetupConcentratedLiquidityDenomsAndPoolCreation()
		_ = banktestutil.FundAccount
	}
	tw.Emit(map[string]any{"e": "cfg", "r": replica, "role": role, "seed": seed, "blocks": nblocks, "start": start,
		"gomaxprocs": os.Getenv("GOMAXPROCS"), "gogc": os.Getenv("GOGC")})

	for bi := start; bi < len(wl); bi++ {
		bl := wl[bi]
		txs := []string{}
		oks := 0
		for _, o := range bl.Ops {
			m := n.msgOf(o)
			d, ok := n.deliver(m)
			if os.Getenv("VERIF_DEBUG") != "" {
				cc, _ := n.Ctx.CacheContext()
				_, err := n.App.GetBaseApp().MsgServiceRouter().Handler(m)(cc, m)
				fmt.Printf("DEBUG blk=%d op=%s ok=%v err=%v\n", bi, o.K, ok, err)
			}
			txs = append(txs, d)
			if ok {
				oks++
			}
		}
		h := n.Ctx.BlockHeight()
		appHash, evHash := n.endBlock(time.Duration(bl.DtSec) * time.Second)
		tw.Emit(map[string]any{"e": "block", "r": replica, "role": role, "blk": bi, "h": h, "app": appHash, "txs": txs,
			"ev": evHash, "ntx": len(txs), "nok": oks})
		if exportAt[bi] || bi == len(wl)-1 {
			mods, appState, vals, height := n.exportModules(fmt.Sprintf("export-r%d-b%d", replica, bi))
			names := []string{}
			for k := range mods {
				names = append(names, k)
			}
			sort.Strings(names)
			tw.Emit(map[string]any{"e": "export", "r": replica, "role": role, "blk": bi, "mods": mods, "names": names, "final": bi == len(wl)-1,
				"stats": n.stats()})
			if exportAt[bi] && exportFileName != "" {
				vbz := [][]byte{}
				for _, vu := range vals {
					bz, _ := vu.Marshal()
					vbz = append(vbz, bz)
				}
				ef := exportFile{AppState: appState, Vals: vbz, Height: height, TimeUnix: n.Ctx.BlockTime().Unix(), Block: bi + 1, TF: n.tf}
				bz, _ := json.Marshal(ef)
				if err := os.WriteFile(fmt.Sprintf("%s.%d", exportFileName, bi), bz, 0o644); err != nil {
					t.Fatal(err)
				}
			}
		}
	}
	if os.Getenv("VERIF_DEBUG") != "" {
		cc, _ := n.Ctx.CacheContext()
		err := n.App.IncentivesKeeper.AfterEpochEnd(cc, "day", 999)
		fmt.Printf("DEBUG incentives AfterEpochEnd: %v\n", err)
		for _, g := range n.App.IncentivesKeeper.GetGauges(cc) {
			if !g.Coins.IsZero() {
				fmt.Printf("DEBUG gauge %d perp=%v to=%v coins=%v distributed=%v filled=%d/%d start=%v\n", g.Id, g.IsPerpetual, g.DistributeTo, g.Coins, g.DistributedCoins, g.FilledEpochs, g.NumEpochsPaidOver, g.StartTime)
			}
		}
	}
	fmt.Printf("REPLICA %d role=%s events=%d\n", replica, role, tw.N)
}
