// Replicas for C19: the same seeded workload (pure data) is executed by several
// OS processes - each a fresh osmosis app started from the SAME genesis file -
// and every block's app hash, transaction results and events are logged.  At a
// chosen height a replica exports its state; an importer process is started
// from that export and fed the remaining blocks.
//
// Every operation of the workload is a SIGNED sdk transaction (real accounts, account numbers and
// sequences read from the node's own committed state, gas limits, fees in uosmo / a whitelisted fee
// token / deliberately wrong) delivered through FinalizeBlock(Txs) + Commit: ante handlers (fee
// deduction, x/txfees, x/smart-account circuit breaker, signature verification, sequence), message
// execution in ExecModeFinalize and the post handlers (x/protorev, x/smart-account) all run.
//
// Roles (VERIF_ROLE):
//
//	replica    executes every block
//	restarter  the same, but before the blocks listed in VERIF_RESTART_AT it throws its application
//	           object away and opens a new one over the SAME database: every in-memory cache is cold
//	proposer   the same, but every transaction also goes through CheckTx (application mempool) and
//	           every block through PrepareProposal / ProcessProposal before FinalizeBlock
//	importer   (VERIF_IMPORT_FILE) InitChain from the state another replica exported, then the rest
//
//	TestGenesis   writes a deterministic genesis document (run once)
//	TestReplica   executes the workload; env: VERIF_GENESIS, VERIF_OUT, VERIF_SEED,
//	              VERIF_BLOCKS, VERIF_REPLICA, VERIF_ROLE, VERIF_RESTART_AT, VERIF_EXPORT_AT,
//	              VERIF_EXPORT_FILE, VERIF_IMPORT_FILE (importer mode)
package replica

import (
	"crypto/sha256"
	"encoding/hex"
	"encoding/json"
	"fmt"
	"io"
	"math/rand"
	"os"
	"sort"
	"strconv"
	"strings"
	"testing"
	"time"

	abci "github.com/cometbft/cometbft/abci/types"
	cryptoenc "github.com/cometbft/cometbft/crypto/encoding"
	cmtproto "github.com/cometbft/cometbft/proto/tendermint/types"
	cosmosdb "github.com/cosmos/cosmos-db"
	"github.com/cosmos/cosmos-sdk/baseapp"
	"github.com/cosmos/cosmos-sdk/crypto/keys/secp256k1"
	cryptotypes "github.com/cosmos/cosmos-sdk/crypto/types"
	sims "github.com/cosmos/cosmos-sdk/testutil/sims"
	sdk "github.com/cosmos/cosmos-sdk/types"
	authtypes "github.com/cosmos/cosmos-sdk/x/auth/types"
	banktypes "github.com/cosmos/cosmos-sdk/x/bank/types"
	"github.com/cosmos/cosmos-sdk/x/crisis"
	govtypes "github.com/cosmos/cosmos-sdk/x/gov/types"
	govv1 "github.com/cosmos/cosmos-sdk/x/gov/types/v1"
	paramproposal "github.com/cosmos/cosmos-sdk/x/params/types/proposal"
	stakingtypes "github.com/cosmos/cosmos-sdk/x/staking/types"

	"cosmossdk.io/log"

	"github.com/osmosis-labs/osmosis/osmomath"
	"github.com/osmosis-labs/osmosis/v31/app"
	"github.com/osmosis-labs/osmosis/v31/app/apptesting"
	clmodel "github.com/osmosis-labs/osmosis/v31/x/concentrated-liquidity/model"
	cltypes "github.com/osmosis-labs/osmosis/v31/x/concentrated-liquidity/types"
	"github.com/osmosis-labs/osmosis/v31/x/gamm/pool-models/balancer"
	"github.com/osmosis-labs/osmosis/v31/x/gamm/pool-models/stableswap"
	gammtypes "github.com/osmosis-labs/osmosis/v31/x/gamm/types"
	incentivestypes "github.com/osmosis-labs/osmosis/v31/x/incentives/types"
	lockuptypes "github.com/osmosis-labs/osmosis/v31/x/lockup/types"
	poolmanagertypes "github.com/osmosis-labs/osmosis/v31/x/poolmanager/types"
	protorevtypes "github.com/osmosis-labs/osmosis/v31/x/protorev/types"
	smartaccounttypes "github.com/osmosis-labs/osmosis/v31/x/smart-account/types"
	tftypes "github.com/osmosis-labs/osmosis/v31/x/tokenfactory/types"
	txfeestypes "github.com/osmosis-labs/osmosis/v31/x/txfees/types"

	"verif/harness/tracelog"
)

const chainID = "osmosis-1"

var genesisTime = time.Unix(1_750_000_000, 0).UTC()

var denoms = []string{"uosmo", "uion", "eth", "usdc", "atom"}
var fundedDenoms = []string{"uosmo", "uion", "eth", "usdc", "atom", "stake"}

const (
	iUosmo = 0
	iUion  = 1
	iEth   = 2
	iUsdc  = 3
	iAtom  = 4
)

// ---------------------------------------------------------------------------
// workload as data

type op struct {
	K string `json:"k"`
	U int    `json:"u"`
	V int    `json:"v"`
	A int64  `json:"a"`
	B int64  `json:"b"`
	C int64  `json:"c"`
	D int    `json:"d"`
	E int    `json:"e"`
}

// txT is one signed transaction: the messages of Ops (all signed by user Ops[0].U), a gas limit, a fee
// mode and a sequence mode.
type txT struct {
	Ops []op  `json:"ops"`
	Gas int64 `json:"gas"`
	Fee int   `json:"fee"`
	Seq int   `json:"seq"`
}

const (
	feeMin      = 0 // ceil(0.03 * gas) uosmo: exactly the consensus minimum
	feeGenerous = 1 // twice the minimum
	feeZero     = 2 // no fee coin: refused by the ante handler
	feeUnder    = 3 // one unit below the minimum: refused
	feeUion     = 4 // paid in the whitelisted fee token uion (converted at pool 1's spot price)
	feeAtom     = 5 // paid in the whitelisted fee token atom (pool 2)
	feeEth      = 6 // paid in a token that is not a fee token: refused
	feeTooLarge = 7 // more uosmo than the payer owns: refused (insufficient funds)

	seqGood   = 0
	seqAhead  = 1 // sequence + 3
	seqReplay = 2 // sequence - 1 (or + 1 for a fresh account)

	gasAmple = 6_000_000
	gasAnte  = 25_000 // runs out inside the ante handler
)

type block struct {
	DtSec int64 `json:"dt"`
	Txs   []txT `json:"txs"`
}

// users 0..nUsers-1 are rich; users nUsers..nUsers+nPoor-1 can pay transaction fees but neither the pool
// creation fee nor serious initial liquidity.
const nUsers = 4
const nPoor = 2

const (
	kBalancer = 0
	kStable   = 1
	kCL       = 2
)

var createKind = []string{"createBalancer", "createStable", "createCL"}

func plain(o op) txT { return txT{Ops: []op{o}, Gas: gasAmple, Fee: feeMin, Seq: seqGood} }

// genWorkload depends on the seed only (never on execution results): ids of locks,
// pools, positions and gauges are referred to by creation order.
func genWorkload(seed int64, nblocks int) []block {
	rng := rand.New(rand.NewSource(seed))
	var bs []block
	type poolT struct {
		kind   int
		d0, d1 int
		at     int // block of creation
	}
	// A concentrated pool that gets its first position in the block of its creation leaves a twap record that
	// x/twap's own InitGenesis refuses (listed finding): every state from then on cannot be imported.  Three
	// workloads out of four therefore wait one block before the first position, so that export/import is
	// exercised from early blocks on; the fourth keeps exhibiting the finding.
	sameBlockPositions := seed%4 == 3
	// predicted: pool ids are 1 + index if every creation by a rich user succeeds and every other one fails.
	// Pools 1 and 2 are the fee-token pools every replica creates before the first block.
	pools := []poolT{{kBalancer, iUosmo, iUion, -1}, {kBalancer, iUosmo, iAtom, -1}}
	locks, positions, tfdenoms := 0, 0, 0
	// pendingFail: type of the last pool creation that FAILED AFTER ITS HOOKS RAN (creator cannot pay the
	// creation fee, or a later message of the same transaction failed) while the pool id it was given has not
	// been handed out again.  The next successful creation takes another type: whatever the failed attempt left
	// behind in memory under that id now describes the wrong kind of pool.
	pendingFail := -1
	focus, focusLeft := -1, 0
	scriptPid := int64(0)
	lbpPid := int64(0)
	authNext, authLast := int64(1), -1 // x/smart-account: the id the next authenticator gets, the owner of the newest one
	for b := 0; b < nblocks; b++ {
		bl := block{Txs: []txT{}}
		switch r := rng.Intn(10); {
		case r < 5:
			bl.DtSec = int64(1 + rng.Intn(10))
		case r < 8:
			bl.DtSec = int64(600 + rng.Intn(3600)) // crosses hour epochs now and then
		default:
			bl.DtSec = int64(20*3600 + rng.Intn(10*3600)) // crosses a day epoch
		}
		n := rng.Intn(7)
		if b < 4 {
			n = 6
		}
		if b == 0 {
			n = 0 // block 0 holds the scripted start only: its four gauges must be alone in their reference list
			if bl.DtSec > 10 {
				bl.DtSec = 5 // and the block must not end an epoch by itself
			}
		}
		addPool := func(kind, d0, d1 int) (int, int, int) {
			if kind == pendingFail {
				if kind == kCL {
					kind = rng.Intn(2)
				} else {
					kind = kCL
				}
			}
			if kind == kCL {
				if d0 == iUsdc {
					d0 = iEth
				}
				d1 = iUsdc
			}
			pools = append(pools, poolT{kind, d0, d1, b})
			if pendingFail >= 0 {
				focus, focusLeft = len(pools)-1, 8
				pendingFail = -1
			}
			return kind, d0, d1
		}
		if b == 1 {
			// a ladder of 14 distinct lock durations on one denom right at the start: its accumulation
			// sum-tree (fan-out 10) has several nodes at every later export/import point
			for i := 0; i < 14; i++ {
				bl.Txs = append(bl.Txs, plain(op{K: "lock", U: i % nUsers, D: 0, E: 1, A: int64(1000 + rng.Intn(100000)), B: int64(i)}))
				locks++
			}
		}
		if b == 0 {
			// Scripted start (consumes no randomness).  All gauge ids of one status live in ONE reference list and
			// a finishing gauge is removed by moving the LAST id into its slot, so from the first finished gauge
			// on the stored order is not the id order; an epoch's distribution walks the gauges in stored order and
			// pays the reward receivers in the order it first meets them (hence its events).  Gauge 1 (first in the
			// list of its start time, one epoch) finishes first and gauge 4 takes its slot: [4 2 3], later [4 2] for
			// 30 epochs.  Gauge 2 pays user 3 alone (the only "atom" lock), gauge 4 meets user 0 first (the shortest
			// "uion" and "eth" locks are user 0's).  An export/import that re-orders the list therefore shows as
			// different block events on the importer at every later distribution.
			for _, o := range []op{
				{K: "lockX", U: 0, D: 1, A: int64(5000 + b), B: 8}, {K: "lockX", U: 0, D: 2, A: int64(7000 + b), B: 8},
				{K: "lockX", U: nUsers - 1, D: 4, A: 9000, B: 30},
				{K: "gaugeX", U: 1, D: 1, A: 1, B: 1, C: 0}, {K: "gaugeX", U: 2, D: 4, A: 2, B: 30, C: 1},
				{K: "gaugeX", U: 0, D: 2, A: 3, B: 2, C: 2}, {K: "gaugeX", U: 1, D: 1, A: 4, B: 30, C: 0}} {
				bl.Txs = append(bl.Txs, plain(o))
			}
			locks += 3
		}
		// Scripted pool-route fragment (consumes no randomness apart from addPool's type switch, which cannot
		// trigger here): a pool creation that fails after its hooks ran, then the same pool id given to a pool of
		// another type, then liquidity and swaps on it.
		switch b {
		case 2: // an under-funded account tries to create a balancer pool: fails at the creation fee, rolled back
			bl.Txs = append(bl.Txs, plain(op{K: "createBalancer", U: nUsers, D: iUosmo, E: iUion, A: 5000, B: 1, C: 1}))
			pendingFail = kBalancer
		case 3: // ... somebody swaps against that id (no such pool), then the id goes to a concentrated pool
			if pendingFail >= 0 {
				bl.Txs = append(bl.Txs, plain(op{K: "swap", U: 3, D: iUosmo, E: iUion, A: 1000, C: int64(len(pools) + 1)}))
			}
			addPool(kCL, iEth, iUsdc)
			scriptPid = int64(len(pools))
			bl.Txs = append(bl.Txs, plain(op{K: "createCL", U: 1, D: iEth, E: iUsdc, A: 1, B: 3, C: 1}))
		case 4:
			pid := scriptPid
			bl.Txs = append(bl.Txs, plain(op{K: "clPosition", U: 2, D: iEth, E: iUsdc, A: 900000, B: 65, C: pid}),
				plain(op{K: "swap", U: 3, D: iEth, E: iUsdc, A: 5000, C: pid}))
			positions++
		case 5: // a stableswap creation that succeeds, but the LAST message of its transaction fails: all reverted
			bl.Txs = append(bl.Txs, txT{Ops: []op{{K: "createStable", U: 2, D: iUion, E: iAtom, A: 70000, B: 1, C: 3}, {K: "sendFail", U: 2, V: 1}},
				Gas: gasAmple, Fee: feeMin, Seq: seqGood},
				plain(op{K: "delegate", U: 0, A: 1_000_000_000_000}))
			pendingFail = kStable
		case 6: // ... the id goes to a balancer pool; a parameter-change proposal lowers the pool creation fee
			addPool(kBalancer, iUion, iAtom)
			scriptPid = int64(len(pools))
			bl.Txs = append(bl.Txs, plain(op{K: "createBalancer", U: 3, D: iUion, E: iAtom, A: 80000, B: 2, C: 4}),
				plain(op{K: "govFee", U: 0, A: 400_000_000}))
		case 7:
			pid := scriptPid
			bl.Txs = append(bl.Txs, plain(op{K: "vote", U: 0, C: 1}),
				plain(op{K: "joinPool", U: 1, A: 3, C: pid}), plain(op{K: "swap", U: 2, D: iUion, E: iAtom, A: 4000, C: pid}))
		case 8: // a liquidity-bootstrapping pool: weights shifting smoothly over 400 days of CHAIN time, i.e. in the middle
			// of its change window at every later export.  Its exported form must not depend on anything but the
			// chain state (x/gamm's ExportGenesis "pokes" every pool at the export context's block time)
			addPool(kBalancer, iUosmo, iEth)
			lbpPid = int64(len(pools))
			bl.Txs = append(bl.Txs, plain(op{K: "createLBP", U: 3, D: iUosmo, E: iEth, A: 300000, B: 0, C: 2}))
		}
		// x/smart-account authenticators (scripted, no randomness): ids come from ONE chain-wide counter.  Two permanent
		// ones in block 1, then every five blocks one is added and removed again in the next block, so that in four
		// of five states the newest id handed out is not in use any more (the counter is state of its own, not
		// derivable from the authenticators that exist) and the next one is added after every export/import point.
		if b == 1 {
			bl.Txs = append(bl.Txs, plain(op{K: "authAdd", U: 0}), plain(op{K: "authAdd", U: 1}))
			authNext += 2
		}
		if b > 1 && b%5 == 1 {
			authLast = b % nUsers
			bl.Txs = append(bl.Txs, plain(op{K: "authAdd", U: authLast}))
			authNext++
		}
		if b > 1 && b%5 == 2 && authLast >= 0 {
			bl.Txs = append(bl.Txs, plain(op{K: "authRemove", U: authLast, C: authNext - 1}))
			authLast = -1
		}
		// x/tokenfactory (scripted): user 2 creates a denomination, mints, and force-transfers between ordinary accounts
		// early and every 9 blocks (the module walks its list of protected module accounts there, which creates the
		// module accounts that do not exist yet); user 1 hands the administration of a second one to user 3, whose
		// mints must succeed and user 1's fail, before and after every import.  (An administration cannot be renounced
		// by transaction in this version: MsgChangeAdmin.ValidateBasic refuses the empty address.)
		switch {
		case b == 1:
			bl.Txs = append(bl.Txs, plain(op{K: "tfCreateX", U: 1, A: 0}), plain(op{K: "tfCreateX", U: 2, A: 1}))
		case b == 2:
			bl.Txs = append(bl.Txs, plain(op{K: "tfHandOver", U: 1, V: 3}), plain(op{K: "tfMintX", U: 2, V: 2, A: 1, B: 100000}))
		case b == 3 || b%9 == 5:
			bl.Txs = append(bl.Txs, plain(op{K: "tfForceX", U: 2, V: 3, B: int64(10 + b)}))
		case b%7 == 4:
			bl.Txs = append(bl.Txs, plain(op{K: "tfMintX", U: 1, V: 1, A: 0, B: 5}), plain(op{K: "tfMintX", U: 3, V: 1, A: 0, B: 7}))
		}
		if lbpPid > 0 && b > 8 && b%6 == 3 { // trades on it for the rest of the history (on replicas and importers alike)
			bl.Txs = append(bl.Txs, plain(op{K: "swap", U: b % nUsers, D: iUosmo, E: iEth, A: int64(500 + b), C: lbpPid}))
		}
		for i := 0; i < n; i++ {
			o := op{U: rng.Intn(nUsers), V: rng.Intn(nUsers + nPoor), D: rng.Intn(len(denoms)), E: rng.Intn(len(denoms)),
				A: int64(1 + rng.Intn(1000000)), B: int64(1 + rng.Intn(1000)), C: int64(rng.Intn(1000))}
			if o.D == o.E {
				o.E = (o.E + 1) % len(denoms)
			}
			freshCLExcluded := false
			pickPool := func(o *op, wantCL, wantClassic bool) bool {
				cands := []int{}
				for pi, p := range pools {
					if p.kind == kCL && freshCLExcluded && p.at == b && !sameBlockPositions {
						continue
					}
					if (p.kind == kCL && wantCL) || (p.kind != kCL && wantClassic) {
						cands = append(cands, pi)
					}
				}
				if len(cands) == 0 {
					return false
				}
				pi := cands[rng.Intn(len(cands))]
				if focusLeft > 0 && rng.Intn(10) < 7 {
					for _, c := range cands {
						if c == focus {
							pi = c
							focusLeft--
						}
					}
				}
				o.C = int64(pi + 1)
				o.D, o.E = pools[pi].d0, pools[pi].d1
				if rng.Intn(2) == 0 && !wantCL {
					o.D, o.E = o.E, o.D
				}
				return true
			}
			tx := txT{Gas: gasAmple, Fee: feeMin, Seq: seqGood}
			creating := false
			switch r := rng.Intn(113); {
			case r < 6:
				o.K = "send"
			case r < 24:
				o.K = "lock"
				locks++
			case r < 27 && locks > 0:
				o.K = "beginUnlock"
				o.C = int64(4 + rng.Intn(locks)) // never the three scripted locks of block 0
			case r < 31:
				var kind int
				kind, o.D, o.E = addPool(kBalancer, o.D, o.E)
				o.K, creating = createKind[kind], true
			case r < 36:
				o.K = "joinPool"
				if !pickPool(&o, false, true) {
					o.K = "send"
				}
			case r < 52:
				o.K = "swap"
				if !pickPool(&o, true, true) {
					o.K = "send"
				} else if rng.Intn(2) == 0 {
					o.D, o.E = o.E, o.D
				}
			case r < 56:
				o.K = "exitPool"
				if !pickPool(&o, false, true) {
					o.K = "send"
				}
			case r < 61:
				var kind int
				kind, o.D, o.E = addPool(kCL, o.D, o.E)
				o.K, creating = createKind[kind], true
			case r < 76:
				o.K = "clPosition"
				freshCLExcluded = true
				if !pickPool(&o, true, false) {
					o.K = "send"
				} else {
					positions++
				}
			case r < 80 && positions > 0:
				o.K = "clWithdraw"
				o.C = int64(1 + rng.Intn(positions+1))
			case r < 83 && positions > 0:
				o.K = "clCollect"
				o.C = int64(1 + rng.Intn(positions+1))
			case r < 87:
				o.K = "tfCreate"
				tfdenoms++
			case r < 90 && tfdenoms > 0:
				o.K = "tfMint"
			case r < 92 && tfdenoms > 0:
				o.K = "tfBurn"
			case r < 100 && locks > 0:
				o.K = "gauge"
			case r < 102:
				var kind int
				kind, o.D, o.E = addPool(kStable, o.D, o.E)
				o.K, creating = createKind[kind], true
			case r < 106:
				// an under-funded account: the creation fails at the fee (or at the initial liquidity), after the hooks
				kind := rng.Intn(3)
				o.K, o.U = createKind[kind], nUsers+rng.Intn(nPoor)
				if kind == kCL {
					if o.D == iUsdc {
						o.D = iEth
					}
					o.E = iUsdc
				}
				pendingFail = kind
				creating = true
			case r < 108:
				// a creation that succeeds inside a transaction whose last message fails
				kind := rng.Intn(3)
				o.K = createKind[kind]
				if kind == kCL {
					if o.D == iUsdc {
						o.D = iEth
					}
					o.E = iUsdc
				}
				tx.Ops = append(tx.Ops, o)
				o = op{K: "sendFail", U: o.U, V: o.V}
				pendingFail = kind
				creating = true
			case pendingFail >= 0:
				// a swap against the pool id a failed creation was given (no such pool exists)
				o.K = "swap"
				o.C = int64(len(pools) + 1)
			default:
				o.K = "send"
			}
			tx.Ops = append(tx.Ops, o)
			if !creating {
				// a few multi-message transactions; half of them end with a message that fails, which reverts the rest
				if rng.Intn(7) == 0 {
					for k, extra := 0, 1+rng.Intn(2); k < extra; k++ {
						x := op{U: o.U, V: rng.Intn(nUsers + nPoor), D: rng.Intn(len(denoms)), E: rng.Intn(len(denoms)),
							A: int64(1 + rng.Intn(1000000)), B: int64(1 + rng.Intn(1000)), C: int64(rng.Intn(1000))}
						if x.D == x.E {
							x.E = (x.E + 1) % len(denoms)
						}
						switch rng.Intn(3) {
						case 0:
							x.K = "send"
						case 1:
							x.K = "swap"
							if !pickPool(&x, true, true) {
								x.K = "send"
							}
						default:
							x.K = "lock"
							locks++
						}
						tx.Ops = append(tx.Ops, x)
					}
					if rng.Intn(2) == 0 {
						tx.Ops = append(tx.Ops, op{K: "sendFail", U: o.U, V: o.V})
					}
				} else {
					switch r := rng.Intn(100); {
					case r < 70:
					case r < 88:
						tx.Gas = 1_500_000
					case r < 96:
						tx.Gas = 300_000
					default:
						tx.Gas = gasAnte
					}
					switch r := rng.Intn(100); {
					case r < 62:
					case r < 70:
						tx.Fee = feeGenerous
					case r < 80:
						tx.Fee = feeUion
					case r < 88:
						tx.Fee = feeAtom
					case r < 91:
						tx.Fee = feeZero
					case r < 94:
						tx.Fee = feeUnder
					case r < 97:
						tx.Fee = feeEth
					default:
						tx.Fee = feeTooLarge
					}
					switch r := rng.Intn(100); {
					case r < 94:
					case r < 97:
						tx.Seq = seqAhead
					default:
						tx.Seq = seqReplay
					}
				}
			}
			bl.Txs = append(bl.Txs, tx)
		}
		bs = append(bs, bl)
	}
	return bs
}

// probeProtorevImport is a scripted history (VERIF_WORKLOAD=protorev-import) for the export/import leg: a
// concentrated uosmo/usdc pool becomes protorev's highest-liquidity pool of that pair (hook of the first position),
// a balancer usdc/atom pool closes a profitable cycle with fee pool 2 (atom/uosmo), the state is exported after
// block 2, and block 3 holds a swap on the balancer pool that protorev back-runs through the concentrated pool.
func probeProtorevImport() []block {
	return []block{
		{DtSec: 5, Txs: []txT{plain(op{K: "createCL", U: 1, D: iUosmo, E: iUsdc, B: 3, C: 1})}},                        // pool 3
		{DtSec: 5, Txs: []txT{plain(op{K: "clWide", U: 2, D: iUosmo, E: iUsdc, A: 1_000_000_000, C: 3})}},              // 1 uosmo = 2 usdc
		{DtSec: 5, Txs: []txT{plain(op{K: "createBalancer", U: 3, D: iUsdc, E: iAtom, A: 1_000_000_000, B: 0, C: 0})}}, // pool 4: 1 usdc = 3 atom
		{DtSec: 5, Txs: []txT{plain(op{K: "swap", U: 0, D: iAtom, E: iUsdc, A: 100_000, C: 4})}},
		{DtSec: 5, Txs: []txT{plain(op{K: "send", U: 0, V: 1, D: iUion, A: 1})}},
	}
}

// ---------------------------------------------------------------------------

type account struct {
	priv cryptotypes.PrivKey
	addr sdk.AccAddress
	num  uint64
	seq  uint64
}

func newAccount(i int) *account {
	priv := secp256k1.GenPrivKeyFromSecret([]byte(fmt.Sprintf("verif-c19-user-%d", i)))
	return &account{priv: priv, addr: sdk.AccAddress(priv.PubKey().Address())}
}

func openApp(t *testing.T, db cosmosdb.DB) *app.OsmosisApp {
	dir := scratchDir(t)
	// crisis sits before most osmosis modules in the InitGenesis order, so its genesis-time
	// invariant run sees half-initialised state; nodes start with the skip flag (as here)
	var traceStore io.Writer
	if p := os.Getenv("VERIF_TRACE_STORE"); p != "" { // triage: every KV operation of every store as JSON lines
		f, err := os.OpenFile(p, os.O_CREATE|os.O_WRONLY|os.O_APPEND, 0o644)
		if err != nil {
			t.Fatal(err)
		}
		traceStore = f
	}
	return app.NewOsmosisApp(log.NewNopLogger(), db, traceStore, true, map[int64]bool{}, dir, 0,
		sims.AppOptionsMap{crisis.FlagSkipGenesisInvariants: true}, app.EmptyWasmOpts, baseapp.SetChainID(chainID))
}

func TestGenesis(t *testing.T) {
	out := os.Getenv("VERIF_GENESIS")
	if out == "" {
		t.Skip("VERIF_GENESIS not set")
	}
	a := openApp(t, cosmosdb.NewMemDB())
	cdc := a.AppCodec()
	gs := app.GenesisStateWithValSet(a)
	// fund the workload's accounts in the genesis document itself
	var bank banktypes.GenesisState
	cdc.MustUnmarshalJSON(gs[banktypes.ModuleName], &bank)
	var auth authtypes.GenesisState
	cdc.MustUnmarshalJSON(gs[authtypes.ModuleName], &auth)
	accs := authtypes.GenesisAccounts{}
	for i := 0; i < nUsers+nPoor; i++ {
		coins := sdk.NewCoins()
		if i < nUsers {
			for _, d := range fundedDenoms {
				coins = coins.Add(sdk.NewCoin(d, osmomath.NewInt(1_000_000_000_000_000)))
			}
		} else {
			// enough for transaction fees and small pool assets, far less than the pool creation fee; no "eth" at all
			coins = sdk.NewCoins(sdk.NewInt64Coin("uosmo", 300_000_000), sdk.NewInt64Coin("uion", 50_000_000),
				sdk.NewInt64Coin("atom", 50_000_000), sdk.NewInt64Coin("usdc", 1_000_000))
		}
		u := newAccount(i)
		bank.Balances = append(bank.Balances, banktypes.Balance{Address: u.addr.String(), Coins: coins})
		bank.Supply = bank.Supply.Add(coins...)
		accs = append(accs, authtypes.NewBaseAccountWithAddress(u.addr))
	}
	bank.Balances = banktypes.SanitizeGenesisBalances(bank.Balances)
	gs[banktypes.ModuleName] = cdc.MustMarshalJSON(&bank)
	packed, err := authtypes.PackAccounts(accs)
	if err != nil {
		t.Fatal(err)
	}
	auth.Accounts = append(auth.Accounts, packed...)
	gs[authtypes.ModuleName] = cdc.MustMarshalJSON(&auth)
	// gauges distribute at the day epoch, so that a workload of a few weeks sees many distributions
	var inc incentivestypes.GenesisState
	cdc.MustUnmarshalJSON(gs[incentivestypes.ModuleName], &inc)
	inc.Params.DistrEpochIdentifier = "day"
	inc.Params.MinValueForDistribution = incentivestypes.DefaultMinValueForDistr
	gs[incentivestypes.ModuleName] = cdc.MustMarshalJSON(&inc)
	// transaction fees are paid in uosmo (0.03 uosmo per unit of gas is the consensus minimum)
	var txf txfeestypes.GenesisState
	cdc.MustUnmarshalJSON(gs[txfeestypes.ModuleName], &txf)
	txf.Basedenom = "uosmo"
	gs[txfeestypes.ModuleName] = cdc.MustMarshalJSON(&txf)
	// protorev pays a developer account (as on the live chain); without one its day-epoch hook fails before it
	// refreshes the highest-liquidity pool index
	var pr protorevtypes.GenesisState
	cdc.MustUnmarshalJSON(gs[protorevtypes.ModuleName], &pr)
	pr.DeveloperAddress = newAccount(nUsers - 1).addr.String()
	gs[protorevtypes.ModuleName] = cdc.MustMarshalJSON(&pr)
	// governance decides within the hour, so that a parameter change lands inside the workload
	var gov govv1.GenesisState
	cdc.MustUnmarshalJSON(gs[govtypes.ModuleName], &gov)
	vp, evp := time.Hour, 30*time.Minute
	gov.Params.VotingPeriod, gov.Params.ExpeditedVotingPeriod = &vp, &evp
	gs[govtypes.ModuleName] = cdc.MustMarshalJSON(&gov)
	bz, err := json.Marshal(gs)
	if err != nil {
		t.Fatal(err)
	}
	if err := os.WriteFile(out, bz, 0o644); err != nil {
		t.Fatal(err)
	}
}

// node is one full application instance over its own database.
type node struct {
	apptesting.KeeperTestHelper
	t         *testing.T
	db        cosmosdb.DB
	height    int64     // height of the next block
	now       time.Time // time of the next block
	committed bool      // false between InitChain and the first Commit
	users     []*account
	tf        []string
	valAddr   string
	// what the execution reached (non-vacuity)
	cnt      map[string]int
	failedAt map[uint64]int // pool id -> type of a creation that failed after the ante handler while that id was next
	fts      map[uint64]bool
	nextPool uint64
}

func newNode(t *testing.T, appState []byte, initialHeight int64, vals []abci.ValidatorUpdate, at time.Time) (nn *node, initErr error) {
	defer func() {
		if r := recover(); r != nil {
			nn, initErr = nil, fmt.Errorf("panic in InitChain: %v", r)
		}
	}()
	n := &node{t: t, db: cosmosdb.NewMemDB(), height: initialHeight, now: at, cnt: map[string]int{}, failedAt: map[uint64]int{}, fts: map[uint64]bool{}}
	n.SetT(t)
	n.App = openApp(t, n.db)
	_, err := n.App.InitChain(&abci.RequestInitChain{
		Validators:      vals,
		ConsensusParams: sims.DefaultConsensusParams,
		AppStateBytes:   appState,
		ChainId:         chainID,
		Time:            at,
		InitialHeight:   initialHeight,
	})
	if err != nil {
		return nil, fmt.Errorf("InitChain: %v", err)
	}
	n.Ctx = n.queryCtx()
	for i := 0; i < nUsers+nPoor; i++ {
		n.users = append(n.users, newAccount(i))
	}
	return n, nil
}

// restart models a process restart: everything that lives in memory is dropped and a new application object
// is opened over the same database at the last committed height.
func (n *node) restart() {
	n.App = openApp(n.t, n.db)
	if got := n.App.LastBlockHeight(); got != n.height-1 {
		n.t.Fatalf("restart resumed at height %d, want %d", got, n.height-1)
	}
	n.cnt["restarts"]++
	if n.cnt["failedPoolCreations"] > 0 {
		n.cnt["restartsAfterFailedCreation"]++
	}
}

// queryCtx reads the state the next block will start from.
func (n *node) queryCtx() sdk.Context {
	hdr := cmtproto.Header{Height: n.height, ChainID: chainID, Time: n.now}
	if !n.committed {
		return n.App.BaseApp.NewContextLegacy(false, hdr)
	}
	return n.App.BaseApp.NewUncachedContext(false, hdr)
}

// dumpModule keeps the canonical JSON of a module export when VERIF_DUMP_DIR is set (triage of differences)
func dumpModule(tag string, module string, canonical []byte) {
	dir := os.Getenv("VERIF_DUMP_DIR")
	if dir == "" {
		return
	}
	os.MkdirAll(dir, 0o755)
	os.WriteFile(fmt.Sprintf("%s/%s.%s.json", dir, tag, module), canonical, 0o644)
}

func hashOf(parts ...[]byte) string {
	h := sha256.New()
	for _, p := range parts {
		h.Write(p)
		h.Write([]byte{0})
	}
	return hex.EncodeToString(h.Sum(nil)[:12])
}

func eventsBytes(evs []abci.Event) []byte {
	var out []byte
	for _, e := range evs {
		bz, _ := e.Marshal()
		out = append(out, bz...)
	}
	return out
}

func (n *node) feeOf(tx txT) sdk.Coins {
	min := (tx.Gas*3 + 99) / 100
	switch tx.Fee {
	case feeGenerous:
		return sdk.NewCoins(sdk.NewInt64Coin("uosmo", 2*min))
	case feeZero:
		return sdk.NewCoins()
	case feeUnder:
		return sdk.NewCoins(sdk.NewInt64Coin("uosmo", min-1))
	case feeUion:
		return sdk.NewCoins(sdk.NewInt64Coin("uion", 20*min))
	case feeAtom:
		return sdk.NewCoins(sdk.NewInt64Coin("atom", 20*min))
	case feeEth:
		return sdk.NewCoins(sdk.NewInt64Coin("eth", 20*min))
	case feeTooLarge:
		return sdk.NewCoins(sdk.NewInt64Coin("uosmo", 5_000_000_000_000_000))
	}
	return sdk.NewCoins(sdk.NewInt64Coin("uosmo", min))
}

// antePredicted: will the ante handler accept the transaction (and bump the signer's sequence)?
func antePredicted(tx txT) bool {
	return tx.Seq == seqGood && tx.Gas > 100_000 && (tx.Fee == feeMin || tx.Fee == feeGenerous || tx.Fee == feeUion || tx.Fee == feeAtom)
}

// buildTxs signs the block's transactions with the account numbers and sequences of the node's OWN committed
// state (an importer reads them from the imported state).
func (n *node) buildTxs(seed int64, bi int, bl block) [][]byte {
	ctx := n.queryCtx()
	for _, u := range n.users {
		acc := n.App.AccountKeeper.GetAccount(ctx, u.addr)
		if acc == nil {
			n.t.Fatalf("account %s missing", u.addr)
		}
		u.num, u.seq = acc.GetAccountNumber(), acc.GetSequence()
	}
	n.nextPool = n.App.PoolManagerKeeper.GetNextPoolId(ctx)
	if n.valAddr == "" {
		vals, err := n.App.StakingKeeper.GetAllValidators(ctx)
		if err != nil || len(vals) == 0 {
			n.t.Fatalf("no validator: %v", err)
		}
		n.valAddr = vals[0].OperatorAddress
	}
	cfg := n.App.GetTxConfig()
	out := [][]byte{}
	for ti, tx := range bl.Txs {
		msgs := []sdk.Msg{}
		for _, o := range tx.Ops {
			msgs = append(msgs, n.msgOf(o))
		}
		signer := n.users[tx.Ops[0].U]
		seq := signer.seq
		switch tx.Seq {
		case seqAhead:
			seq += 3
		case seqReplay:
			if seq > 0 {
				seq--
			} else {
				seq++
			}
		}
		stx, err := sims.GenSignedMockTx(rand.New(rand.NewSource(seed*1_000_003+int64(bi)*1009+int64(ti))), cfg, msgs, n.feeOf(tx),
			uint64(tx.Gas), chainID, []uint64{signer.num}, []uint64{seq}, signer.priv)
		if err != nil {
			n.t.Fatalf("sign: %v", err)
		}
		bz, err := cfg.TxEncoder()(stx)
		if err != nil {
			n.t.Fatalf("encode: %v", err)
		}
		out = append(out, bz)
		if antePredicted(tx) {
			signer.seq++
		}
	}
	return out
}

// propose pushes the block's transactions through the mempool and the proposal handlers first (a validator
// that proposes): CheckTx, PrepareProposal, ProcessProposal work on branches of the committed state and must
// leave no trace in what FinalizeBlock computes.
func (n *node) propose(txs [][]byte) {
	defer func() {
		if r := recover(); r != nil {
			n.cnt["proposalPanics"]++
		}
	}()
	for _, bz := range txs {
		if res, err := n.App.CheckTx(&abci.RequestCheckTx{Tx: bz, Type: abci.CheckTxType_New}); err == nil && res.Code == 0 {
			n.cnt["checkTxOk"]++
		} else {
			n.cnt["checkTxRefused"]++
		}
	}
	if res, err := n.App.PrepareProposal(&abci.RequestPrepareProposal{MaxTxBytes: 4_000_000, Txs: txs, Height: n.height, Time: n.now}); err == nil {
		n.cnt["proposalsPrepared"]++
		n.cnt["proposalTxs"] += len(res.Txs)
	}
	if res, err := n.App.ProcessProposal(&abci.RequestProcessProposal{Txs: txs, Height: n.height, Time: n.now}); err == nil && res.Status == abci.ResponseProcessProposal_ACCEPT {
		n.cnt["proposalsAccepted"]++
	}
}

type blockResult struct {
	appHash, evHash string
	txs, ng         []string // per transaction: digest of the full result / of the result without the gas used
	stale           []int    // 1-based indexes of transactions that name the pool id of a reverted creation
	backrun         []int    // 1-based indexes of transactions the protorev post handler back-ran
	oks, ante       int
	multi, multiRev int
}

// runBlock delivers the transactions through FinalizeBlock and commits; returns what a client would see.
func (n *node) runBlock(bi int, bl block, txs [][]byte) blockResult {
	resp, err := n.App.FinalizeBlock(&abci.RequestFinalizeBlock{Height: n.height, Time: n.now, Txs: txs})
	if err != nil {
		panic(fmt.Sprintf("FinalizeBlock: %v", err))
	}
	if _, err := n.App.Commit(); err != nil {
		panic(err)
	}
	n.committed = true
	br := blockResult{appHash: hex.EncodeToString(n.App.LastCommitID().Hash), evHash: hashOf(eventsBytes(resp.Events)), txs: []string{}, ng: []string{}, stale: []int{}, backrun: []int{}}
	if len(resp.TxResults) != len(txs) {
		panic("FinalizeBlock returned a different number of results")
	}
	for ti, r := range resp.TxResults {
		tx := bl.Txs[ti]
		br.txs = append(br.txs, hashOf([]byte(fmt.Sprintf("%d/%s/%d/%d", r.Code, r.Codespace, r.GasWanted, r.GasUsed)), r.Data, eventsBytes(r.Events)))
		br.ng = append(br.ng, hashOf([]byte(fmt.Sprintf("%d/%s/%d", r.Code, r.Codespace, r.GasWanted)), r.Data, eventsBytes(r.Events)))
		for _, o := range tx.Ops {
			switch o.K {
			case "swap", "joinPool", "exitPool", "clPosition":
				if _, was := n.failedAt[uint64(o.C)]; was && (len(br.stale) == 0 || br.stale[len(br.stale)-1] != ti+1) {
					br.stale = append(br.stale, ti+1)
				}
			}
		}
		for _, e := range r.Events {
			if e.Type == "protorev_backrun" {
				br.backrun = append(br.backrun, ti+1)
				n.cnt["protorevBackruns"]++
				break
			}
		}
		ok := r.Code == 0
		anteFailed := !ok && len(r.Events) == 0 // refused before any message ran: no events at all
		if ok {
			br.oks++
		}
		if anteFailed {
			br.ante++
			n.cnt["anteFailures"]++
		}
		if len(tx.Ops) > 1 {
			br.multi++
			if !ok && !anteFailed {
				br.multiRev++
			}
		}
		if tx.Fee == feeUion || tx.Fee == feeAtom {
			if !anteFailed {
				n.cnt["feesPaidInFeeToken"]++
			}
		}
		if !ok && r.Codespace == "sdk" && r.Code == 11 && !anteFailed {
			n.cnt["outOfGasInMessages"]++
		}
		n.track(tx, ok, anteFailed)
		if os.Getenv("VERIF_DEBUG") != "" {
			kinds := []string{}
			for _, o := range tx.Ops {
				kinds = append(kinds, fmt.Sprintf("%s(u%d,c%d)", o.K, o.U, o.C))
			}
			lg := r.Log
			if i := strings.IndexByte(lg, '\n'); i >= 0 {
				lg = lg[:i]
			}
			if len(lg) > 160 {
				lg = lg[:160]
			}
			fmt.Printf("DEBUG blk=%d tx=%d %v gas=%d fee=%d seq=%d -> code=%d/%s used=%d ante=%v %s\n", bi, ti, kinds, tx.Gas, tx.Fee, tx.Seq,
				r.Code, r.Codespace, r.GasUsed, anteFailed, lg)
		}
	}
	if os.Getenv("VERIF_DEBUG_PROTOREV") != "" {
		ctx := n.App.BaseApp.NewUncachedContext(false, cmtproto.Header{Height: n.height, ChainID: chainID, Time: n.now})
		line := fmt.Sprintf("DEBUGPR blk=%d", bi)
		for _, d := range denoms[1:] {
			id, err := n.App.ProtoRevKeeper.GetPoolForDenomPair(ctx, "uosmo", d)
			if err != nil {
				line += fmt.Sprintf(" %s:-", d)
			} else {
				line += fmt.Sprintf(" %s:%d", d, id)
			}
		}
		for _, e := range n.App.EpochsKeeper.AllEpochInfos(ctx) {
			if e.Identifier == "day" {
				line += fmt.Sprintf(" day=%d", e.CurrentEpoch)
			}
		}
		fmt.Println(line)
	}
	if os.Getenv("VERIF_DEBUG_EVENTS") != "" {
		for ti, r := range resp.TxResults {
			for _, e := range r.Events {
				fmt.Printf("DEBUGTXEV blk=%d tx=%d %s %v\n", bi, ti, e.Type, e.Attributes)
			}
		}
		for _, e := range resp.Events {
			if e.Type == "distribution" || e.Type == "token_swapped" || strings.Contains(e.Type, "proposal") {
				fmt.Printf("DEBUGEV h=%d %s %v\n", n.height, e.Type, e.Attributes)
			}
		}
	}
	n.height++
	n.now = n.now.Add(time.Duration(bl.DtSec) * time.Second)
	return br
}

// track follows pool ids through failed and successful creations (non-vacuity counters only).
func (n *node) track(tx txT, ok, anteFailed bool) {
	first := tx.Ops[0]
	kind := -1
	for k, name := range createKind {
		if first.K == name {
			kind = k
		}
	}
	switch {
	case kind >= 0 && ok:
		id := n.nextPool
		n.nextPool++
		if t, was := n.failedAt[id]; was {
			if t != kind {
				n.cnt["failedThenSucceededPoolIds"]++
				n.fts[id] = true
			}
			delete(n.failedAt, id)
		}
	case kind >= 0 && !anteFailed:
		n.failedAt[n.nextPool] = kind
		n.cnt["failedPoolCreations"]++
	case ok:
		for _, o := range tx.Ops {
			switch o.K {
			case "tfForceX":
				n.cnt["factoryForceTransfers"]++
			case "tfHandOver":
				n.cnt["factoryAdminsChanged"]++
			case "authAdd":
				n.cnt["authenticatorsAdded"]++
			case "authRemove":
				n.cnt["authenticatorsRemoved"]++
			case "swap", "joinPool", "exitPool", "clPosition":
				if n.fts[uint64(o.C)] {
					n.cnt["opsOnFailedThenSucceededPools"]++
				}
			}
		}
	default:
		for _, o := range tx.Ops {
			if o.K == "swap" && !anteFailed {
				if _, was := n.failedAt[uint64(o.C)]; was {
					n.cnt["swapsOnIdOfFailedCreation"]++
				}
			}
		}
	}
}

func (n *node) msgOf(o op) sdk.Msg {
	u, v := n.users[o.U].addr, n.users[o.V].addr
	d, e := denoms[o.D], denoms[o.E]
	switch o.K {
	case "send":
		return banktypes.NewMsgSend(u, v, sdk.NewCoins(sdk.NewCoin(d, osmomath.NewInt(o.A))))
	case "sendFail": // more than anybody owns
		return banktypes.NewMsgSend(u, v, sdk.NewCoins(sdk.NewCoin("eth", osmomath.NewInt(4_000_000_000_000_000))))
	case "lock":
		d = denoms[1+(o.D%4)/3] // mostly one denom: many distinct durations on it
		return lockuptypes.NewMsgLockTokens(u, time.Duration(8+o.B%25)*time.Hour, sdk.NewCoins(sdk.NewCoin(d, osmomath.NewInt(o.A))))
	case "lockX": // explicit denom index D and duration B hours
		return lockuptypes.NewMsgLockTokens(u, time.Duration(o.B)*time.Hour, sdk.NewCoins(sdk.NewCoin(denoms[o.D], osmomath.NewInt(o.A))))
	case "gaugeX": // explicit denom index D, epochs B, duration index C
		return &incentivestypes.MsgCreateGauge{IsPerpetual: false, Owner: u.String(),
			DistributeTo: lockuptypes.QueryCondition{LockQueryType: lockuptypes.ByDuration, Denom: denoms[o.D], Duration: []time.Duration{time.Hour, 3 * time.Hour, 7 * time.Hour}[o.C%3]},
			Coins:        sdk.NewCoins(sdk.NewCoin("uosmo", osmomath.NewInt(3_000_000_000+o.A*1000))), StartTime: n.now,
			NumEpochsPaidOver: uint64(o.B)}
	case "beginUnlock":
		return lockuptypes.NewMsgBeginUnlocking(u, uint64(o.C), nil)
	case "createBalancer":
		m := balancer.NewMsgCreateBalancerPool(u, balancer.PoolParams{SwapFee: osmomath.NewDecWithPrec(o.C%50, 3), ExitFee: osmomath.ZeroDec()},
			[]balancer.PoolAsset{{Weight: osmomath.NewInt(1 + o.B%9), Token: sdk.NewCoin(d, osmomath.NewInt(1000+o.A))},
				{Weight: osmomath.NewInt(1 + o.C%9), Token: sdk.NewCoin(e, osmomath.NewInt(1000+o.A*3))}}, "")
		return &m
	case "createLBP":
		m := balancer.NewMsgCreateBalancerPool(u, balancer.PoolParams{SwapFee: osmomath.NewDecWithPrec(2, 3), ExitFee: osmomath.ZeroDec(),
			SmoothWeightChangeParams: &balancer.SmoothWeightChangeParams{StartTime: n.Ctx.BlockTime(), Duration: 400 * 24 * time.Hour,
				TargetPoolWeights: []balancer.PoolAsset{{Weight: osmomath.NewInt(1), Token: sdk.NewCoin(d, osmomath.ZeroInt())},
					{Weight: osmomath.NewInt(9), Token: sdk.NewCoin(e, osmomath.ZeroInt())}}}},
			[]balancer.PoolAsset{{Weight: osmomath.NewInt(9), Token: sdk.NewCoin(d, osmomath.NewInt(1000+o.A))},
				{Weight: osmomath.NewInt(1), Token: sdk.NewCoin(e, osmomath.NewInt(1000+o.A*3))}}, "")
		return &m
	case "createStable":
		m := stableswap.NewMsgCreateStableswapPool(u, stableswap.PoolParams{SwapFee: osmomath.NewDecWithPrec(o.C%50, 3), ExitFee: osmomath.ZeroDec()},
			sdk.NewCoins(sdk.NewCoin(d, osmomath.NewInt(1000+o.A)), sdk.NewCoin(e, osmomath.NewInt(1000+o.A*3))), []uint64{1, 1}, "")
		return &m
	case "joinPool":
		return &gammtypes.MsgJoinPool{Sender: u.String(), PoolId: uint64(o.C), ShareOutAmount: osmomath.NewInt(o.A).MulRaw(1_000_000_000_000),
			TokenInMaxs: nil}
	case "exitPool":
		return &gammtypes.MsgExitPool{Sender: u.String(), PoolId: uint64(o.C), ShareInAmount: osmomath.NewInt(o.A).MulRaw(1_000_000_000),
			TokenOutMins: nil}
	case "swap":
		return &poolmanagertypes.MsgSwapExactAmountIn{Sender: u.String(),
			Routes:  []poolmanagertypes.SwapAmountInRoute{{PoolId: uint64(o.C), TokenOutDenom: e}},
			TokenIn: sdk.NewCoin(d, osmomath.NewInt(o.A)), TokenOutMinAmount: osmomath.OneInt()}
	case "createCL":
		sp := cltypes.AuthorizedTickSpacing[o.B%int64(len(cltypes.AuthorizedTickSpacing))]
		sf := cltypes.AuthorizedSpreadFactors[o.C%int64(len(cltypes.AuthorizedSpreadFactors))]
		m := clmodel.NewMsgCreateConcentratedPool(u, d, e, sp, sf)
		return &m
	case "clPosition":
		lo := (o.B%100 - 70) * 1000
		return &cltypes.MsgCreatePosition{PoolId: uint64(o.C), Sender: u.String(), LowerTick: lo, UpperTick: lo + (1+o.A%150)*1000,
			TokensProvided:  sdk.NewCoins(sdk.NewCoin(d, osmomath.NewInt(o.A)), sdk.NewCoin(e, osmomath.NewInt(o.A*2))),
			TokenMinAmount0: osmomath.ZeroInt(), TokenMinAmount1: osmomath.ZeroInt()}
	case "clWide": // a position around the initial price amount(e)/amount(d) = 2
		return &cltypes.MsgCreatePosition{PoolId: uint64(o.C), Sender: u.String(), LowerTick: -1_000_000, UpperTick: 2_000_000,
			TokensProvided:  sdk.NewCoins(sdk.NewCoin(d, osmomath.NewInt(o.A)), sdk.NewCoin(e, osmomath.NewInt(o.A*2))),
			TokenMinAmount0: osmomath.ZeroInt(), TokenMinAmount1: osmomath.ZeroInt()}
	case "clWithdraw":
		return &cltypes.MsgWithdrawPosition{PositionId: uint64(o.C), Sender: u.String(), LiquidityAmount: osmomath.NewDec(o.A)}
	case "clCollect":
		return &cltypes.MsgCollectSpreadRewards{PositionIds: []uint64{uint64(o.C)}, Sender: u.String()}
	case "authAdd": // one more signature-verification authenticator for the sender's own key
		return &smartaccounttypes.MsgAddAuthenticator{Sender: u.String(), AuthenticatorType: "SignatureVerification", Data: n.users[o.U].priv.PubKey().Bytes()}
	case "authRemove":
		return &smartaccounttypes.MsgRemoveAuthenticator{Sender: u.String(), Id: uint64(o.C)}
	case "tfCreateX":
		return tftypes.NewMsgCreateDenom(u.String(), []string{"ren", "frc"}[o.A%2])
	case "tfHandOver":
		return tftypes.NewMsgChangeAdmin(u.String(), fmt.Sprintf("factory/%s/ren", u.String()), v.String())
	case "tfMintX": // sender U mints the denomination created by V
		return tftypes.NewMsgMint(u.String(), sdk.NewCoin(fmt.Sprintf("factory/%s/%s", v.String(), []string{"ren", "frc"}[o.A%2]), osmomath.NewInt(o.B)))
	case "tfForceX":
		return tftypes.NewMsgForceTransfer(u.String(), sdk.NewCoin(fmt.Sprintf("factory/%s/frc", u.String()), osmomath.NewInt(o.B)), u.String(), v.String())
	case "tfCreate":
		sub := fmt.Sprintf("tok%d", o.A%7)
		n.tf = append(n.tf, fmt.Sprintf("factory/%s/%s", u.String(), sub))
		return tftypes.NewMsgCreateDenom(u.String(), sub)
	case "tfMint":
		den := n.tf[int(o.B)%len(n.tf)]
		return tftypes.NewMsgMint(u.String(), sdk.NewCoin(den, osmomath.NewInt(o.A)))
	case "tfBurn":
		den := n.tf[int(o.B)%len(n.tf)]
		return tftypes.NewMsgBurn(u.String(), sdk.NewCoin(den, osmomath.NewInt(o.A/2+1)))
	case "gauge":
		d = denoms[1+o.D%2]
		return &incentivestypes.MsgCreateGauge{IsPerpetual: o.B%2 == 0, Owner: u.String(),
			DistributeTo: lockuptypes.QueryCondition{LockQueryType: lockuptypes.ByDuration, Denom: d, Duration: []time.Duration{time.Hour, 3 * time.Hour, 7 * time.Hour}[o.C%3]},
			Coins:        sdk.NewCoins(sdk.NewCoin("uosmo", osmomath.NewInt(1_000_000_000+o.A*1000))), StartTime: n.now,
			NumEpochsPaidOver: uint64(1 + o.B%2*(o.C%5))}
	case "delegate":
		return stakingtypes.NewMsgDelegate(u.String(), n.valAddr, sdk.NewCoin("stake", osmomath.NewInt(o.A)))
	case "govFee": // governance changes the pool creation fee (a legacy parameter-change proposal)
		content := paramproposal.NewParameterChangeProposal("pool creation fee", "lower the pool creation fee",
			[]paramproposal.ParamChange{{Subspace: poolmanagertypes.ModuleName, Key: string(poolmanagertypes.KeyPoolCreationFee),
				Value: fmt.Sprintf(`[{"denom":"uosmo","amount":"%d"}]`, o.A)}})
		lc, err := govv1.NewLegacyContent(content, authtypes.NewModuleAddress(govtypes.ModuleName).String())
		if err != nil {
			panic(err)
		}
		m, err := govv1.NewMsgSubmitProposal([]sdk.Msg{lc}, sdk.NewCoins(sdk.NewInt64Coin("stake", 10_000_000)), u.String(), "",
			"pool creation fee", "lower the pool creation fee", false)
		if err != nil {
			panic(err)
		}
		return m
	case "vote":
		return govv1.NewMsgVote(u, uint64(o.C), govv1.OptionYes, "")
	}
	panic("unknown op " + o.K)
}

// scratchDir: like t.TempDir, but the removal is best effort: the app keeps background writers (wasm cache,
// snapshot stores) in its home directory, and t.TempDir fails the test when its RemoveAll races with them.
func scratchDir(t *testing.T) string {
	dir, err := os.MkdirTemp("", "verif-replica-")
	if err != nil {
		t.Fatal(err)
	}
	t.Cleanup(func() {
		for i := 0; i < 5; i++ {
			if os.RemoveAll(dir) == nil {
				return
			}
			time.Sleep(100 * time.Millisecond)
		}
	})
	return dir
}

func (n *node) exportModules(tag string) (map[string]string, []byte, []abci.ValidatorUpdate, int64) {
	ex, err := n.App.ExportAppStateAndValidators(false, nil, nil)
	if err != nil {
		panic(fmt.Sprintf("export: %v", err))
	}
	var mods map[string]json.RawMessage
	if err := json.Unmarshal(ex.AppState, &mods); err != nil {
		panic(err)
	}
	res := map[string]string{}
	for k, v := range mods {
		// canonical form: re-marshal through a generic value so that whitespace does not matter
		var x any
		json.Unmarshal(v, &x)
		bz, _ := json.Marshal(x)
		res[k] = hashOf(bz)
		dumpModule(tag, k, bz)
	}
	vals := []abci.ValidatorUpdate{}
	for _, v := range ex.Validators {
		pk, err := cryptoenc.PubKeyToProto(v.PubKey)
		if err != nil {
			panic(err)
		}
		vals = append(vals, abci.ValidatorUpdate{PubKey: pk, Power: v.Power})
	}
	return res, ex.AppState, vals, ex.Height
}

// dumpKV writes every key/value pair of every store (triage of differences in the raw state; VERIF_DUMP_KV)
func (n *node) dumpKV(path string) {
	ctx := n.queryCtx()
	f, err := os.Create(path)
	if err != nil {
		panic(err)
	}
	defer f.Close()
	names := []string{}
	keys := n.App.GetKVStoreKey()
	for name := range keys {
		names = append(names, name)
	}
	sort.Strings(names)
	for _, name := range names {
		it := ctx.KVStore(keys[name]).Iterator(nil, nil)
		for ; it.Valid(); it.Next() {
			fmt.Fprintf(f, "%s %x %x\n", name, it.Key(), it.Value())
		}
		it.Close()
	}
}

// stats: what the workload actually reached (non-vacuity of the determinism check)
func (n *node) stats() map[string]int {
	ctx := n.queryCtx()
	st := map[string]int{}
	for k, v := range n.cnt {
		st[k] = v
	}
	gs := n.App.IncentivesKeeper.GetGauges(ctx)
	for _, g := range gs {
		if g.DistributeTo.LockQueryType == lockuptypes.ByDuration {
			st["lockGauges"]++
			if !g.DistributedCoins.IsZero() {
				st["lockGaugesThatPaid"]++
			}
		}
	}
	// stored order of the active gauge references (concatenated per start time): out of id order once a
	// gauge left the middle of a list shared with others
	prev := uint64(0)
	for _, g := range n.App.IncentivesKeeper.GetActiveGauges(ctx) {
		if g.Id < prev {
			st["maxActiveGaugeRefsOutOfIdOrder"] = 1
		}
		prev = g.Id
	}
	locks, _ := n.App.LockupKeeper.GetPeriodLocks(ctx)
	st["locks"] = len(locks)
	dd := map[string]map[time.Duration]bool{}
	for _, l := range locks {
		for _, c := range l.Coins {
			if dd[c.Denom] == nil {
				dd[c.Denom] = map[time.Duration]bool{}
			}
			dd[c.Denom][l.Duration] = true
		}
	}
	for _, m := range dd {
		if len(m) > st["maxDistinctLockDurationsPerDenom"] {
			st["maxDistinctLockDurationsPerDenom"] = len(m)
		}
	}
	st["pools"] = int(n.App.PoolManagerKeeper.GetNextPoolId(ctx)) - 1
	st["clPositions"] = int(n.App.ConcentratedLiquidityKeeper.GetNextPositionId(ctx)) - 1
	st["factoryDenoms"] = len(n.tf)
	for _, e := range n.App.EpochsKeeper.AllEpochInfos(ctx) {
		st["epoch:"+e.Identifier] = int(e.CurrentEpoch)
	}
	if fee := n.App.PoolManagerKeeper.GetParams(ctx).PoolCreationFee; !fee.Equal(poolmanagertypes.DefaultParams().PoolCreationFee) {
		st["poolCreationFeeChangedByGovernance"] = 1
	}
	return st
}

type exportFile struct {
	AppState json.RawMessage `json:"app_state"`
	Vals     [][]byte        `json:"vals"` // proto-marshalled abci.ValidatorUpdate
	Height   int64           `json:"height"`
	TimeUnix int64           `json:"time_unix"`
	Block    int             `json:"block"` // index of the next workload block
	TF       []string        `json:"tf"`
}

func TestReplica(t *testing.T) {
	out := os.Getenv("VERIF_OUT")
	if out == "" {
		t.Skip("VERIF_OUT not set")
	}
	seed := tracelog.EnvInt("VERIF_SEED", 1)
	nblocks := int(tracelog.EnvInt("VERIF_BLOCKS", 30))
	replica := int(tracelog.EnvInt("VERIF_REPLICA", 1))
	intSet := func(env string) map[int]bool {
		m := map[int]bool{}
		for _, f := range strings.Split(os.Getenv(env), ",") {
			if v, err := strconv.Atoi(strings.TrimSpace(f)); err == nil {
				m[v] = true
			}
		}
		return m
	}
	exportAt, restartAt := intSet("VERIF_EXPORT_AT"), intSet("VERIF_RESTART_AT")
	exportFileName := os.Getenv("VERIF_EXPORT_FILE")
	importFileName := os.Getenv("VERIF_IMPORT_FILE")
	wl := genWorkload(seed, nblocks)
	if os.Getenv("VERIF_WORKLOAD") == "protorev-import" {
		wl = probeProtorevImport()
		nblocks = len(wl)
	}
	tw, err := tracelog.NewWriter(out)
	if err != nil {
		t.Fatal(err)
	}
	defer tw.Close()

	var n *node
	start := 0
	role := os.Getenv("VERIF_ROLE")
	if role == "" {
		role = "replica"
	}
	if importFileName != "" {
		role = "importer"
		bz, err := os.ReadFile(importFileName)
		if err != nil {
			t.Fatal(err)
		}
		var ef exportFile
		if err := json.Unmarshal(bz, &ef); err != nil {
			t.Fatal(err)
		}
		vals := []abci.ValidatorUpdate{}
		for _, bz := range ef.Vals {
			var vu abci.ValidatorUpdate
			if err := vu.Unmarshal(bz); err != nil {
				t.Fatal(err)
			}
			vals = append(vals, vu)
		}
		n, err = newNode(t, ef.AppState, ef.Height, vals, time.Unix(ef.TimeUnix, 0).UTC())
		if err != nil {
			// the exported state cannot be imported: a result, not a harness failure
			msg := err.Error()
			if len(msg) > 400 {
				msg = msg[:400]
			}
			tw.Emit(map[string]any{"e": "importFailed", "r": replica, "blk": ef.Block - 1, "err": msg})
			fmt.Printf("REPLICA %d import failed: %s\n", replica, msg)
			return
		}
		n.tf = ef.TF
		if n.tf == nil {
			n.tf = []string{}
		}
		start = ef.Block
		// module state as the freshly initialised node reports it (read from the genesis-time state)
		mods := map[string]string{}
		// (read like ExportAppStateAndValidators reads the exporter: with a zero block time - x/gamm's ExportGenesis
		// pokes weight-shifting pools at the context's block time, which must not differ between the two readings)
		for k, v := range n.App.ExportState(n.Ctx.WithBlockTime(time.Time{})) {
			var x any
			json.Unmarshal(v, &x)
			bz, _ := json.Marshal(x)
			mods[k] = hashOf(bz)
			dumpModule(fmt.Sprintf("imported-r%d-b%d", replica, start-1), k, bz)
		}
		tw.Emit(map[string]any{"e": "imported", "r": replica, "blk": start - 1, "mods": mods})
		if p := os.Getenv("VERIF_DUMP_KV"); p != "" {
			n.dumpKV(fmt.Sprintf("%s.imported.%d", p, start-1))
		}
	} else {
		gen, err := os.ReadFile(os.Getenv("VERIF_GENESIS"))
		if err != nil {
			t.Fatal(err)
		}
		n, err = newNode(t, gen, 1, []abci.ValidatorUpdate{}, genesisTime)
		if err != nil {
			t.Fatal(err)
		}
		// test-only environment preparation, identical on every replica, written into the genesis-time state:
		// permissionless concentrated pools, and two fee-token pools (ids 1 and 2) so that transaction fees can be
		// paid in uion and atom
		n.SetupConcentratedLiquidityDenomsAndPoolCreation()
		for i, d := range []string{"uion", "atom"} {
			m := balancer.NewMsgCreateBalancerPool(n.users[0].addr, balancer.PoolParams{SwapFee: osmomath.NewDecWithPrec(2, 3), ExitFee: osmomath.ZeroDec()},
				[]balancer.PoolAsset{{Weight: osmomath.NewInt(1), Token: sdk.NewInt64Coin("uosmo", 2_000_000_000_000)},
					{Weight: osmomath.NewInt(1), Token: sdk.NewInt64Coin(d, int64(2_000_000_000_000/(i+1)))}}, "")
			id, err := n.App.PoolManagerKeeper.CreatePool(n.Ctx, m)
			if err != nil || id != uint64(i+1) {
				t.Fatalf("fee pool %s: id %d, %v", d, id, err)
			}
		}
		if err := n.App.TxFeesKeeper.SetFeeTokens(n.Ctx, []txfeestypes.FeeToken{{Denom: "uion", PoolID: 1}, {Denom: "atom", PoolID: 2}}); err != nil {
			t.Fatal(err)
		}
	}
	tw.Emit(map[string]any{"e": "cfg", "r": replica, "role": role, "seed": seed, "blocks": nblocks, "start": start,
		"gomaxprocs": os.Getenv("GOMAXPROCS"), "gogc": os.Getenv("GOGC")})

	for bi := start; bi < len(wl); bi++ {
		bl := wl[bi]
		if role == "restarter" && restartAt[bi] && n.committed {
			n.restart()
			tw.Emit(map[string]any{"e": "restart", "r": replica, "role": role, "blk": bi})
		}
		txs := n.buildTxs(seed, bi, bl)
		if role == "proposer" {
			n.propose(txs)
		}
		h := n.height
		br := n.runBlock(bi, bl, txs)
		tw.Emit(map[string]any{"e": "block", "r": replica, "role": role, "blk": bi, "h": h, "app": br.appHash, "txs": br.txs, "ng": br.ng, "stale": br.stale, "backrun": br.backrun,
			"txb": hashOf(txs...), "ev": br.evHash, "ntx": len(txs), "nok": br.oks, "nante": br.ante, "nmulti": br.multi, "nmultirev": br.multiRev})
		if exportAt[bi] || bi == len(wl)-1 {
			mods, appState, vals, height := n.exportModules(fmt.Sprintf("export-r%d-b%d", replica, bi))
			names := []string{}
			for k := range mods {
				names = append(names, k)
			}
			sort.Strings(names)
			tw.Emit(map[string]any{"e": "export", "r": replica, "role": role, "blk": bi, "mods": mods, "names": names, "final": bi == len(wl)-1,
				"stats": n.stats()})
			if p := os.Getenv("VERIF_DUMP_KV"); p != "" && exportAt[bi] {
				n.dumpKV(fmt.Sprintf("%s.exported.%d", p, bi))
			}
			if exportAt[bi] && exportFileName != "" {
				vbz := [][]byte{}
				for _, vu := range vals {
					bz, _ := vu.Marshal()
					vbz = append(vbz, bz)
				}
				ef := exportFile{AppState: appState, Vals: vbz, Height: height, TimeUnix: n.now.Unix(), Block: bi + 1, TF: n.tf}
				bz, _ := json.Marshal(ef)
				if err := os.WriteFile(fmt.Sprintf("%s.%d", exportFileName, bi), bz, 0o644); err != nil {
					t.Fatal(err)
				}
			}
		}
	}
	if os.Getenv("VERIF_DEBUG") != "" {
		fmt.Printf("DEBUG stats %v\n", n.stats())
	}
	fmt.Printf("REPLICA %d role=%s events=%d\n", replica, role, tw.N)
}
