package tickmath

import (
	"fmt"
	"math/big"
	"testing"

	"github.com/osmosis-labs/osmosis/osmomath"
	clmath "github.com/osmosis-labs/osmosis/v31/x/concentrated-liquidity/math"
	"github.com/osmosis-labs/osmosis/v31/x/concentrated-liquidity/types"
)

func raw(d osmomath.BigDec) *big.Int { return d.BigInt() }
func fromRaw(i *big.Int) osmomath.BigDec {
	return osmomath.NewBigDecFromBigIntWithPrec(new(big.Int).Set(i), 36)
}

func TestProbe(t *testing.T) {
	tk := types.MinCurrentTick
	s, err := clmath.TickToSqrtPrice(tk)
	fmt.Println("sqrt(MinCurrentTick)", s, err)
	for _, d := range []int64{0, 1, 2, 1000, 100000, 200000, 240000, 260000, 300000, 1000000, 100000000} {
		x := fromRaw(new(big.Int).Sub(raw(s), big.NewInt(d)))
		T, err := clmath.CalculateSqrtPriceToTick(x)
		fmt.Println("minus", d, "->", T, err)
	}
	for _, tk := range []int64{types.MinCurrentTickV2, types.MinInitializedTickV2, types.MinInitializedTickV2 + 1, types.MaxTick, types.MaxTick + 1, types.MinCurrentTickV2 - 1} {
		p, err := clmath.TickToPrice(tk)
		fmt.Println("price", tk, p, err)
		sq, err := clmath.TickToSqrtPrice(tk)
		fmt.Println("sqrt", tk, sq, err)
	}
	fmt.Println(types.MinSqrtPrice, types.MaxSqrtPrice)
}
