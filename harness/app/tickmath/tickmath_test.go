// Recorder binding the real tick / price conversions of
// x/concentrated-liquidity/math (tick.go, precompute.go), types/constants.go
// and osmomath/sqrt.go to spec/TickMath.tla (C14).
//
// Every line is what the exported functions answered (arguments, result or
// rejection); nothing is judged here.  Prices and square-root prices are logged
// as the raw 36-decimal integers of osmomath.BigDec in the BigNum wire form.
//
// VERIF_MODE=main  (default) tick batteries (boundary neighbourhoods, multiples of
//                  10^6, strided sweep, random ticks), random sqrt prices,
//                  roundings to a spacing, out-of-range arguments.
// VERIF_MODE=below sqrt prices below TickToSqrtPrice(MinCurrentTick) only
//                  (all of them must be refused).
package tickmath

import (
	"bytes"
	"encoding/json"
	"math/big"
	"math/rand"
	"os"
	"sort"
	"sync"
	"testing"

	"github.com/osmosis-labs/osmosis/osmomath"
	clmath "github.com/osmosis-labs/osmosis/v31/x/concentrated-liquidity/math"
	"github.com/osmosis-labs/osmosis/v31/x/concentrated-liquidity/types"

	"verif/harness/tracelog"
)

type Big = tracelog.Big

const decadeTicks = 9_000_000
const histLen = 1500 // events per history (a cfg line starts each)

func raw(d osmomath.BigDec) *big.Int { return d.BigInt() }
func fromRaw(i *big.Int) osmomath.BigDec {
	return osmomath.NewBigDecFromBigIntWithPrec(new(big.Int).Set(i), osmomath.BigDecPrecision)
}
func enc(i *big.Int) Big { return tracelog.EncBig(i) }

var zero = big.NewInt(0)

// clamp keeps tick answers inside what TLC can read (anything clamped is far out of range anyway)
func clamp(t int64) int64 {
	const m = 2_000_000_000
	if t > m {
		return m
	}
	if t < -m {
		return -m
	}
	return t
}

// every call runs under recover: a panic is a refusal
func tickToPrice(t int64) (p *big.Int, ok bool) {
	defer func() {
		if r := recover(); r != nil {
			p, ok = zero, false
		}
	}()
	d, err := clmath.TickToPrice(t)
	if err != nil || d.IsNil() {
		return zero, false
	}
	return raw(d), true
}

func tickToSqrt(t int64) (s *big.Int, ok bool) {
	defer func() {
		if r := recover(); r != nil {
			s, ok = zero, false
		}
	}()
	d, err := clmath.TickToSqrtPrice(t)
	if err != nil || d.IsNil() {
		return zero, false
	}
	return raw(d), true
}

func sqrtToTick(x *big.Int) (t int64, ok bool) {
	defer func() {
		if r := recover(); r != nil {
			t, ok = 0, false
		}
	}()
	v, err := clmath.CalculateSqrtPriceToTick(fromRaw(x))
	if err != nil {
		return 0, false
	}
	return clamp(v), true
}

func sqrtToTickRounded(x *big.Int, sp uint64) (t int64, ok bool) {
	defer func() {
		if r := recover(); r != nil {
			t, ok = 0, false
		}
	}()
	v, err := clmath.SqrtPriceToTickRoundDownSpacing(fromRaw(x), sp)
	if err != nil {
		return 0, false
	}
	return clamp(v), true
}

func priceToTick(p *big.Int) (t int64, ok bool) {
	defer func() {
		if r := recover(); r != nil {
			t, ok = 0, false
		}
	}()
	v, err := clmath.CalculatePriceToTick(fromRaw(p))
	if err != nil {
		return 0, false
	}
	return clamp(v), true
}

func roundDown(t, sp int64) (r int64, ok bool) {
	defer func() {
		if rec := recover(); rec != nil {
			r, ok = 0, false
		}
	}()
	v, err := clmath.RoundDownTickToSpacing(t, sp)
	if err != nil {
		return 0, false
	}
	return clamp(v), true
}

// ---------------------------------------------------------------------------
// events

type cfgEv struct {
	E          string `json:"e"`
	Seed       int64  `json:"seed"`
	H          int    `json:"h"`
	MinInit    int64  `json:"minInit"`
	MinCur     int64  `json:"minCur"`
	MinInitV2  int64  `json:"minInitV2"`
	MinCurV2   int64  `json:"minCurV2"`
	MaxTick    int64  `json:"maxTick"`
	Exp1       int64  `json:"exp1"`
	MaxSpot    Big    `json:"maxSpot"`
	MinSpot    Big    `json:"minSpot"`
	MinSpotV2  Big    `json:"minSpotV2"`
	MaxSqrt    Big    `json:"maxSqrt"`
	MinSqrt    Big    `json:"minSqrt"`
	MinCurSqrt Big    `json:"minCurSqrt"` // TickToSqrtPrice(MinCurrentTick), informative
}

type probe struct {
	X  Big   `json:"x"`
	OK bool  `json:"ok"`
	T  int64 `json:"T"`
}

type tickEv struct {
	E    string  `json:"e"`
	T    int64   `json:"t"`
	OK   bool    `json:"ok"`
	P    Big     `json:"p"`
	SOK  bool    `json:"sok"`
	S    Big     `json:"s"`
	HasM bool    `json:"hasm"`
	SM   Big     `json:"sm"`
	HasN bool    `json:"hasn"`
	SN   Big     `json:"sn"`
	Pr   []probe `json:"pr"`
}

type t2pEv struct {
	E  string `json:"e"`
	T  int64  `json:"t"`
	OK bool   `json:"ok"`
	P  Big    `json:"p"`
}

type t2sEv struct {
	E  string `json:"e"`
	T  int64  `json:"t"`
	OK bool   `json:"ok"`
	S  Big    `json:"s"`
}

type s2tEv struct {
	E   string `json:"e"`
	X   Big    `json:"x"`
	OK  bool   `json:"ok"`
	T   int64  `json:"T"`
	Lo  Big    `json:"lo"`
	Hi  Big    `json:"hi"`
	Src string `json:"src"`
}

type s2trEv struct {
	E   string `json:"e"`
	X   Big    `json:"x"`
	Sp  int64  `json:"sp"`
	OK  bool   `json:"ok"`
	R   int64  `json:"r"`
	TOK bool   `json:"tok"`
	T   int64  `json:"T"`
	Lo  Big    `json:"lo"`
	Hi  Big    `json:"hi"`
}

type p2tEv struct {
	E  string `json:"e"`
	P  Big    `json:"p"`
	OK bool   `json:"ok"`
	T  int64  `json:"T"`
}

type rdEv struct {
	E  string `json:"e"`
	T  int64  `json:"t"`
	Sp int64  `json:"sp"`
	OK bool   `json:"ok"`
	R  int64  `json:"r"`
}

// work item of a history
type item struct {
	kind string
	t    int64
	sp   int64
	x    *big.Int
	src  string
}

var minCurSqrt *big.Int

func mkCfg(seed int64, h int) cfgEv {
	return cfgEv{E: "cfg", Seed: seed, H: h,
		MinInit: types.MinInitializedTick, MinCur: types.MinCurrentTick,
		MinInitV2: types.MinInitializedTickV2, MinCurV2: types.MinCurrentTickV2,
		MaxTick: types.MaxTick, Exp1: types.ExponentAtPriceOne,
		MaxSpot: enc(raw(types.MaxSpotPriceBigDec)), MinSpot: enc(raw(types.MinSpotPriceBigDec)),
		MinSpotV2: enc(raw(types.MinSpotPriceV2)),
		MaxSqrt:   enc(raw(types.MaxSqrtPriceBigDec)), MinSqrt: enc(raw(types.MinSqrtPriceBigDec)),
		MinCurSqrt: enc(minCurSqrt)}
}

// the bucket edges of an answered tick, as the code computes them (verified by the spec before use)
func edges(T int64, ok bool) (lo, hi Big) {
	lo, hi = enc(zero), enc(zero)
	if !ok {
		return
	}
	if s, ok1 := tickToSqrt(T); ok1 {
		lo = enc(s)
	}
	if s, ok1 := tickToSqrt(T + 1); ok1 {
		hi = enc(s)
	}
	return
}

// battery around tick t.  below=false: only sqrt prices >= TickToSqrtPrice(MinCurrentTick)
// are probed (the others are the subject of VERIF_MODE=below).
func battery(t int64) tickEv {
	ev := tickEv{E: "tick", T: t, Pr: []probe{}}
	p, pok := tickToPrice(t)
	s, sok := tickToSqrt(t)
	sm, hasm := tickToSqrt(t - 1)
	sn, hasn := tickToSqrt(t + 1)
	ev.OK, ev.P, ev.SOK, ev.S, ev.HasM, ev.SM, ev.HasN, ev.SN = pok, enc(p), sok, enc(s), hasm, enc(sm), hasn, enc(sn)
	if !pok || !sok {
		return ev
	}
	one := big.NewInt(1)
	xs := []*big.Int{s, new(big.Int).Sub(s, one), new(big.Int).Add(s, one)}
	if hasn {
		mid := new(big.Int).Add(s, sn)
		mid.Rsh(mid, 1)
		xs = append(xs, mid, new(big.Int).Sub(sn, one))
	}
	for _, x := range xs {
		// stay inside [sm, sn): the span whose bucket the verified edges decide
		if hasm && x.Cmp(sm) < 0 || !hasm && x.Cmp(s) < 0 {
			continue
		}
		if hasn && x.Cmp(sn) >= 0 {
			continue
		}
		if x.Cmp(minCurSqrt) < 0 {
			continue
		}
		T, ok := sqrtToTick(x)
		ev.Pr = append(ev.Pr, probe{X: enc(x), OK: ok, T: T})
	}
	return ev
}

// counts of what was driven / answered (evidence and non-vacuity; not part of any verdict)
type stats map[string]int

func runItem(it item, st stats) any {
	switch it.kind {
	case "tick":
		ev := battery(it.t)
		if ev.OK && ev.SOK {
			st["tick:ok"]++
			if it.t >= types.MinInitializedTick {
				st["tick:ok:swap-reachable"]++
			} else {
				st["tick:ok:extended-low"]++
			}
		} else {
			st["tick:rejected"]++
		}
		for _, pr := range ev.Pr {
			switch {
			case !pr.OK:
				st["probe:rejected"]++
			case pr.T == it.t:
				st["probe:same-tick"]++
			case pr.T == it.t-1:
				st["probe:previous-tick"]++
			default:
				st["probe:other"]++
			}
		}
		return ev
	case "t2p":
		p, ok := tickToPrice(it.t)
		st[okKey("t2p", ok)]++
		return t2pEv{E: "t2p", T: it.t, OK: ok, P: enc(p)}
	case "t2s":
		s, ok := tickToSqrt(it.t)
		st[okKey("t2s", ok)]++
		return t2sEv{E: "t2s", T: it.t, OK: ok, S: enc(s)}
	case "s2t":
		T, ok := sqrtToTick(it.x)
		lo, hi := edges(T, ok)
		st[okKey("s2t", ok)]++
		st["s2t:src:"+it.src]++
		return s2tEv{E: "s2t", X: enc(it.x), OK: ok, T: T, Lo: lo, Hi: hi, Src: it.src}
	case "s2tr":
		T, tok := sqrtToTick(it.x)
		lo, hi := edges(T, tok)
		r, ok := sqrtToTickRounded(it.x, uint64(it.sp))
		st[okKey("s2tr", ok)]++
		if ok && r != T {
			st["s2tr:moved"]++
		}
		return s2trEv{E: "s2tr", X: enc(it.x), Sp: it.sp, OK: ok, R: r, TOK: tok, T: T, Lo: lo, Hi: hi}
	case "p2t":
		T, ok := priceToTick(it.x)
		st[okKey("p2t", ok)]++
		return p2tEv{E: "p2t", P: enc(it.x), OK: ok, T: T}
	case "rd":
		r, ok := roundDown(it.t, it.sp)
		st[okKey("rd", ok)]++
		if ok && r != it.t {
			if it.t < 0 {
				st["rd:moved:negative"]++
			} else {
				st["rd:moved:positive"]++
			}
		}
		return rdEv{E: "rd", T: it.t, Sp: it.sp, OK: ok, R: r}
	}
	panic("unknown item " + it.kind)
}

func okKey(k string, ok bool) string {
	if ok {
		return k + ":ok"
	}
	return k + ":rejected"
}

func chunk(items []item, out *[][]item) {
	for len(items) > 0 {
		n := histLen
		if n > len(items) {
			n = len(items)
		}
		*out = append(*out, items[:n])
		items = items[n:]
	}
}

func tickItems(ts []int64) []item {
	sort.Slice(ts, func(i, j int) bool { return ts[i] < ts[j] })
	res := make([]item, 0, len(ts))
	var prev int64
	for i, t := range ts {
		if i > 0 && t == prev {
			continue
		}
		prev = t
		res = append(res, item{kind: "tick", t: t})
	}
	return res
}

// a uniformly random integer in [lo, hi)
func randBetween(rng *rand.Rand, lo, hi *big.Int) *big.Int {
	d := new(big.Int).Sub(hi, lo)
	if d.Sign() <= 0 {
		return new(big.Int).Set(lo)
	}
	r := new(big.Int).Rand(rng, d)
	return r.Add(r, lo)
}

func pow10(k int) *big.Int { return new(big.Int).Exp(big.NewInt(10), big.NewInt(int64(k)), nil) }

var spacings = []int64{1, 10, 100, 1000}

func randSpacing(rng *rand.Rand) int64 {
	switch rng.Intn(4) {
	case 0, 1:
		return spacings[rng.Intn(len(spacings))]
	case 2:
		return 1 + rng.Int63n(20000)
	default:
		return []int64{2, 3, 7, 1_000_000, 9_000_000, 100_000_000, 1_000_000_000}[rng.Intn(7)]
	}
}

func mainHistories(seed int64) [][]item {
	rng := rand.New(rand.NewSource(seed))
	nSweep := tracelog.EnvInt("VERIF_TICKS", 10000)
	nRand := tracelog.EnvInt("VERIF_RAND", 3000)
	nRound := tracelog.EnvInt("VERIF_ROUND", 2000)
	boundary := tracelog.EnvInt("VERIF_BOUNDARY", 1) == 1
	var hs [][]item
	lo, hi := types.MinCurrentTickV2, types.MaxTick

	if boundary {
		// every tick within +/-50 of every decade boundary (all range ends are such boundaries,
		// so this includes ticks just outside the supported range) and every multiple of 10^6
		var ts []int64
		for d := int64(-30); d <= 38; d++ {
			for k := int64(-50); k <= 50; k++ {
				ts = append(ts, d*decadeTicks+k)
			}
		}
		for t := int64(-270_000_000); t <= 342_000_000; t += 1_000_000 {
			ts = append(ts, t)
		}
		chunk(tickItems(ts), &hs)
	}
	if nSweep > 0 {
		// strided sweeps with a seed-chosen offset: 3/4 over the swap-reachable range, 1/4 over the
		// extended low range; then uniformly random ticks (1/8 more), some just outside the range
		var ts []int64
		sweep := func(a, b, n int64) {
			if n <= 0 {
				return
			}
			stride := (b - a) / n
			if stride < 1 {
				stride = 1
			}
			off := rng.Int63n(stride)
			for t := a + off; t <= b; t += stride {
				ts = append(ts, t)
			}
		}
		sweep(types.MinCurrentTick, hi, nSweep*3/4)
		sweep(lo, types.MinCurrentTick, nSweep/4)
		for i := int64(0); i < nSweep/8; i++ {
			ts = append(ts, lo-20+rng.Int63n(hi-lo+41))
		}
		chunk(tickItems(ts), &hs)
	}
	if nRand > 0 {
		maxSqrt := raw(types.MaxSqrtPriceBigDec)
		var its []item
		add := func(x *big.Int, src string) {
			if x.Cmp(minCurSqrt) < 0 && x.Sign() >= 0 {
				return // VERIF_MODE=below
			}
			its = append(its, item{kind: "s2t", x: x, src: src})
			if rng.Intn(4) == 0 {
				its = append(its, item{kind: "s2tr", x: x, sp: randSpacing(rng)})
			}
		}
		// range ends and their neighbours, values that must be refused
		for _, d := range []int64{-2, -1, 0, 1, 2, 1000} {
			add(new(big.Int).Add(maxSqrt, big.NewInt(d)), "end")
			if d >= 0 {
				add(new(big.Int).Add(minCurSqrt, big.NewInt(d)), "end")
			}
			add(new(big.Int).Add(raw(types.MinSqrtPriceBigDec), big.NewInt(d)), "end")
		}
		add(new(big.Int).Mul(maxSqrt, big.NewInt(10)), "end")
		add(pow10(36+30), "end")
		add(big.NewInt(-1), "neg")
		add(new(big.Int).Neg(pow10(36)), "neg")
		add(new(big.Int).Neg(pow10(30)), "neg")
		add(pow10(36), "one")
		add(new(big.Int).Sub(pow10(36), big.NewInt(1)), "one")
		add(new(big.Int).Add(pow10(36), big.NewInt(1)), "one")
		for i := int64(0); i < nRand; i++ {
			switch rng.Intn(3) {
			case 0, 1:
				// anywhere inside the bucket of a random tick
				t := types.MinCurrentTick + rng.Int63n(hi-types.MinCurrentTick)
				a, ok1 := tickToSqrt(t)
				b, ok2 := tickToSqrt(t + 1)
				if !ok1 || !ok2 {
					continue
				}
				x := randBetween(rng, a, b)
				if rng.Intn(3) == 0 {
					// on the 18-decimal grid, as sqrt prices of the launch range are
					x.Quo(x, pow10(18))
					x.Mul(x, pow10(18))
					if x.Cmp(a) < 0 {
						x.Set(a)
					}
				}
				add(x, "bucket")
			default:
				// random magnitude, random digits
				k := 36 - 7 + rng.Intn(27)
				x := randBetween(rng, pow10(k), pow10(k+1))
				add(x, "rand")
			}
		}
		chunk(its, &hs)
	}
	if nRound > 0 {
		var its []item
		for i := int64(0); i < nRound; i++ {
			sp := randSpacing(rng)
			var t int64
			switch rng.Intn(6) {
			case 0: // near the low end: the rounded tick may leave the range
				t = types.MinInitializedTickV2 - 5 + rng.Int63n(3000)
			case 1: // near / above the high end
				t = types.MaxTick - 1500 + rng.Int63n(3000)
			case 2: // around zero, both signs
				t = -30000 + rng.Int63n(60000)
			case 3: // a multiple of the spacing, or next to one
				t = (lo/sp+rng.Int63n((hi-lo)/sp+1))*sp + int64(rng.Intn(3)) - 1
			default:
				t = lo + rng.Int63n(hi-lo+1)
			}
			its = append(its, item{kind: "rd", t: t, sp: sp})
		}
		// the range ends, for the authorized spacings and an odd one
		for _, sp := range []int64{1, 10, 100, 1000, 7} {
			for _, e := range []int64{types.MinInitializedTickV2, types.MaxTick} {
				for _, t := range []int64{e - sp, e - 1, e, e + 1, e + sp - 1, e + sp, e + sp + 1} {
					its = append(its, item{kind: "rd", t: t, sp: sp})
				}
			}
		}
		// out-of-range ticks for the tick -> price maps
		for _, t := range []int64{lo - 1, lo - 2, lo - 1000, -2_000_000_000, hi + 1, hi + 2, hi + decadeTicks, 2_000_000_000, lo, lo + 1, hi, 0} {
			its = append(its, item{kind: "t2p", t: t}, item{kind: "t2s", t: t})
		}
		// out-of-range ticks on (and next to) every power-of-ten boundary, 24 decades beyond each end: round prices
		// outside the supported range
		for k := int64(1); k <= 24; k++ {
			for _, t := range []int64{hi + k*decadeTicks, lo - k*decadeTicks} {
				for _, dt := range []int64{-1, 0, 1} {
					its = append(its, item{kind: "t2p", t: t + dt}, item{kind: "t2s", t: t + dt})
				}
			}
		}
		// prices for CalculatePriceToTick: range ends, one ulp outside, far outside, negative
		maxSpot, minSpotV2 := raw(types.MaxSpotPriceBigDec), raw(types.MinSpotPriceV2)
		// (prices carry 36 decimals, the conversion works on 18 of them: also the last 36-decimal price that truncates
		// to the bound, and the first that does not)
		for _, p := range []*big.Int{maxSpot, new(big.Int).Add(maxSpot, big.NewInt(1)), new(big.Int).Mul(maxSpot, big.NewInt(10)),
			new(big.Int).Add(maxSpot, new(big.Int).Mul(big.NewInt(5), pow10(17))), new(big.Int).Add(maxSpot, new(big.Int).Sub(pow10(18), big.NewInt(1))),
			new(big.Int).Add(maxSpot, pow10(18)), new(big.Int).Sub(maxSpot, big.NewInt(1)), new(big.Int).Sub(maxSpot, pow10(18)),
			minSpotV2, new(big.Int).Sub(minSpotV2, big.NewInt(1)), big.NewInt(1), big.NewInt(0), big.NewInt(-1), new(big.Int).Neg(pow10(36)), pow10(36), pow10(36 - 12)} {
			its = append(its, item{kind: "p2t", x: p})
		}
		for i := 0; i < 200; i++ {
			t := lo + 1 + rng.Int63n(hi-lo)
			if p, ok := tickToPrice(t); ok {
				its = append(its, item{kind: "p2t", x: p})
			}
		}
		chunk(its, &hs)
	}
	return hs
}

// sqrt prices below TickToSqrtPrice(MinCurrentTick): one history
func belowHistories(seed int64) [][]item {
	rng := rand.New(rand.NewSource(seed))
	var its []item
	add := func(x *big.Int, src string) {
		if x.Cmp(minCurSqrt) < 0 {
			its = append(its, item{kind: "s2t", x: x, src: src})
		}
	}
	for _, d := range []int64{1, 2, 3, 10, 1000, 100_000, 200_000, 249_000, 251_000, 260_000, 1_000_000, 1_000_000_000, 1_000_000_000_000_000} {
		add(new(big.Int).Sub(minCurSqrt, big.NewInt(d)), "below-edge")
	}
	for i := 0; i < 12; i++ {
		add(new(big.Int).Sub(minCurSqrt, big.NewInt(1+rng.Int63n(400_000))), "below-edge")
	}
	for i := 0; i < 300; i++ {
		// sqrt prices of the extended low range, on a tick and inside a bucket
		t := types.MinCurrentTickV2 + rng.Int63n(types.MinCurrentTick-types.MinCurrentTickV2)
		a, ok1 := tickToSqrt(t)
		b, ok2 := tickToSqrt(t + 1)
		if !ok1 || !ok2 {
			continue
		}
		add(a, "low-tick")
		add(randBetween(rng, a, b), "low-bucket")
	}
	for _, x := range []*big.Int{big.NewInt(0), big.NewInt(1), pow10(36 - 15), pow10(36 - 18), pow10(36 - 7)} {
		add(x, "tiny")
	}
	var hs [][]item
	chunk(its, &hs)
	return hs
}

func TestRecord(t *testing.T) {
	seed := tracelog.EnvInt("VERIF_SEED", 1)
	out := tracelog.EnvStr("VERIF_OUT", "tickmath.ndjson")
	s, ok := tickToSqrt(types.MinCurrentTick)
	if !ok {
		t.Fatal("TickToSqrtPrice(MinCurrentTick) fails")
	}
	minCurSqrt = s
	var hs [][]item
	if tracelog.EnvStr("VERIF_MODE", "main") == "below" {
		hs = belowHistories(seed)
	} else {
		hs = mainHistories(seed)
	}
	// the conversions are pure: histories are evaluated in parallel, written in order
	bufs := make([][]byte, len(hs))
	sts := make([]stats, len(hs))
	var wg sync.WaitGroup
	sem := make(chan struct{}, 8)
	for i := range hs {
		wg.Add(1)
		sem <- struct{}{}
		go func(i int) {
			defer wg.Done()
			defer func() { <-sem }()
			var b bytes.Buffer
			e := json.NewEncoder(&b)
			if err := e.Encode(mkCfg(seed, i)); err != nil {
				panic(err)
			}
			st := stats{}
			for k, it := range hs[i] {
				if err := e.Encode(runItem(it, st)); err != nil {
					panic(err)
				}
				if it.kind == "tick" && k > 0 && hs[i][k-1].kind == "tick" {
					st["tick:pairs"]++
					if hs[i][k-1].t+1 == it.t {
						st["tick:adjacent-pairs"]++
					}
				}
			}
			bufs[i] = b.Bytes()
			sts[i] = st
		}(i)
	}
	wg.Wait()
	f, err := os.Create(out)
	if err != nil {
		t.Fatal(err)
	}
	n := 0
	for _, b := range bufs {
		if _, err := f.Write(b); err != nil {
			t.Fatal(err)
		}
		n += bytes.Count(b, []byte("\n"))
	}
	if err := f.Close(); err != nil {
		t.Fatal(err)
	}
	total := stats{"lines": n, "histories": len(hs)}
	for _, st := range sts {
		for k, v := range st {
			total[k] += v
		}
	}
	bz, _ := json.Marshal(total)
	if err := os.WriteFile(out+".stats.json", bz, 0o644); err != nil {
		t.Fatal(err)
	}
	t.Logf("recorded %d lines in %d histories", n, len(hs))
}
