// Demonstration of finding C08 "incentive:emits-for-time-before-start" (docs/findings_c08.json):
// an incentive record whose start time lies between two uptime-accumulator updates emits, at the first
// update after its start, for the whole time since the previous update.
//
//	cd /verif/harness && VERIF_DEMO=1 go test -tags verif -overlay overlay.json -run TestIncentiveStartDemo ./app/cl/
//
// fails on the unchanged tree (claimable 3601, ideal 1) and passes with docs/fix_c08_1.diff applied.
package cl

import (
	"os"
	"testing"
	"time"

	sdk "github.com/cosmos/cosmos-sdk/types"

	"github.com/osmosis-labs/osmosis/osmomath"
	"github.com/osmosis-labs/osmosis/v31/x/concentrated-liquidity/types"

	"verif/harness/apphelp"
)

func TestIncentiveStartDemo(t *testing.T) {
	if os.Getenv("VERIF_DEMO") == "" {
		t.Skip("VERIF_DEMO not set")
	}
	w := apphelp.New(t)
	k := w.App.ConcentratedLiquidityKeeper
	params := k.GetParams(w.Ctx)
	params.AuthorizedUptimes = types.SupportedUptimes
	k.SetParams(w.Ctx, params)
	lp, sponsor := apphelp.Acct(1), apphelp.Acct(2)
	w.FundAcc(lp, sdk.NewCoins(sdk.NewCoin(d0, pow10(12)), sdk.NewCoin(d1, pow10(12))))
	w.FundAcc(sponsor, sdk.NewCoins(sdk.NewCoin("inca", pow10(9))))
	pool := w.PrepareCustomConcentratedPool(w.TestAccs[0], d0, d1, 100, osmomath.ZeroDec())
	var posID uint64
	if o := w.Try(func(ctx sdk.Context) error {
		pd, err := k.CreateFullRangePosition(ctx, pool.GetId(), lp, sdk.NewCoins(sdk.NewCoin(d0, pow10(9)), sdk.NewCoin(d1, pow10(9))))
		posID = pd.ID
		return err
	}); !o.OK {
		t.Fatal(o.Err)
	}
	// t0: one token per second, starting in one hour
	start := w.Ctx.BlockTime().Add(time.Hour)
	if o := w.Try(func(ctx sdk.Context) error {
		_, err := k.CreateIncentive(ctx, pool.GetId(), sponsor, sdk.NewCoin("inca", osmomath.NewInt(1_000_000)), osmomath.OneDec(), start, time.Nanosecond)
		return err
	}); !o.OK {
		t.Fatal(o.Err)
	}
	// nothing touches the pool for one hour and one second
	w.AdvanceTime(time.Hour + time.Second)
	claimable, _, err := k.GetClaimableIncentives(w.Ctx, posID)
	if err != nil {
		t.Fatal(err)
	}
	got := claimable.AmountOf("inca")
	t.Logf("incentive running for 1 s at 1 token/s, only liquidity in range: claimable = %s (ideal 1)", got)
	if got.GT(osmomath.NewInt(1)) {
		t.Errorf("position is paid %s tokens for an incentive that has been running for one second at one token per second", got)
	}
}
