// Shared recorder of concentrated-liquidity histories (C01, C03, C07, C08).
// One pool per history; after EVERY operation (failed ones included) the full
// abstract state of the pool is read back through exported keeper APIs and
// logged: pool, positions, initialised ticks (+ their sqrt prices), the three
// pool accounts, user balances, accumulators, claimable amounts, incentive
// records, plus - per swap - the estimate taken on the same pre-state and a
// round trip on a discarded branch, and - every k ops - the "everybody exits"
// drain executed on a discarded branch.
package cl

import (
	"crypto/sha256"
	"encoding/hex"
	"encoding/json"
	"fmt"
	stdbig "math/big"
	"math/rand"
	"os"
	"sort"
	"testing"
	"time"

	sdk "github.com/cosmos/cosmos-sdk/types"

	"github.com/osmosis-labs/osmosis/osmomath"
	cl "github.com/osmosis-labs/osmosis/v31/x/concentrated-liquidity"
	clmath "github.com/osmosis-labs/osmosis/v31/x/concentrated-liquidity/math"
	"github.com/osmosis-labs/osmosis/v31/x/concentrated-liquidity/types"

	"verif/harness/apphelp"
	"verif/harness/tracelog"
)

type big = tracelog.Big

const (
	d0 = "eth"
	d1 = "usdc"
)

var incDenoms = []string{"inca", "incb"}
var allDenoms = []string{d0, d1, "inca", "incb"}

type posSt struct {
	ID   uint64 `json:"id"`
	Own  int    `json:"own"`
	Lo   int64  `json:"lo"`
	Hi   int64  `json:"hi"`
	Liq  big    `json:"liq"`
	Join int64  `json:"join"` // ms since history start
	Fee  []big  `json:"fee"`  // claimable spread rewards [d0,d1]
	Inc  []big  `json:"inc"`  // claimable incentives, per allDenoms
	Forf []big  `json:"forf"` // incentives that would be forfeited, per allDenoms
	Lock int    `json:"lock"` // 1: bound by an unexpired lock (cannot be withdrawn or transferred yet)
	QErr string `json:"qerr"` // non-empty: a claimable query failed for this open position
}

type tickSt struct {
	T      int64   `json:"t"`
	Gross  big     `json:"gross"`
	Net    big     `json:"net"`
	Sqrt   big     `json:"sqrt"`   // TickToSqrtPrice(t), raw 10^36
	FeeOut []big   `json:"feeOut"` // [d0,d1] raw 10^18
	UpOut  [][]big `json:"upOut"`  // per supported uptime, per allDenoms
}

type recSt struct {
	ID    uint64 `json:"id"`
	Denom int    `json:"denom"` // index into allDenoms
	Rem   big    `json:"rem"`   // remaining, raw 10^18
	Rate  big    `json:"rate"`  // per second, raw 10^18
	Start int64  `json:"start"` // ms
	Up    int    `json:"up"`    // index of min uptime in SupportedUptimes
}

type state struct {
	T      int64    `json:"t"` // ms since history start
	Tick   int64    `json:"tick"`
	Sqrt   big      `json:"sqrt"`
	Liq    big      `json:"liq"`
	CurLo  big      `json:"curLo"` // sqrt price of the lower edge of the current tick's spacing cell
	CurHi  big      `json:"curHi"` // sqrt price of its upper edge (0: outside the tick range)
	Pos    []posSt  `json:"pos"`
	Ticks  []tickSt `json:"ticks"`
	Index  [][]int  `json:"index"`   // per user: position ids reported by GetUserPositions
	PoolB  []big    `json:"poolBal"` // per allDenoms
	FeeB   []big    `json:"feeBal"`
	IncB   []big    `json:"incBal"`
	UserB  [][]big  `json:"userBal"`
	FeeAcc []big    `json:"feeAcc"` // [d0,d1] raw
	UpAcc  [][]big  `json:"upAcc"`  // per uptime per allDenoms
	Recs   []recSt  `json:"recs"`
	RemNow []big    `json:"remNow"` // per allDenoms: sum of the records' remaining amounts (raw 10^18) once accrual is brought up to now (on a branch)
	LastUp int64    `json:"lastUp"` // pool.LastLiquidityUpdate ms
	Dg     string   `json:"dg"`     // digest of everything above except T
}

type world struct {
	*apphelp.World
	rng    *rand.Rand
	poolID uint64
	users  []sdk.AccAddress
	t0     time.Time
	space  int64
	f      osmomath.Dec
	msg    types.MsgServer
	decoy  map[int]uint64 // user index (1-based) -> that user's position in a second pool (outside the history)
}

func (w *world) userIdx(addr string) int {
	for i, u := range w.users {
		if u.String() == addr {
			return i + 1
		}
	}
	return 0
}

func trunc(s string) string {
	if len(s) > 200 {
		return s[:200]
	}
	return s
}

func ms(t time.Time, t0 time.Time) int64 { return t.Sub(t0).Milliseconds() }

func decCoinsVec(cs sdk.DecCoins, denoms []string) []big {
	res := make([]big, len(denoms))
	for i, d := range denoms {
		res[i] = apphelp.BigD(cs.AmountOf(d))
	}
	return res
}

func coinsVec(cs sdk.Coins, denoms []string) []big {
	res := make([]big, len(denoms))
	for i, d := range denoms {
		res[i] = apphelp.BigI(cs.AmountOf(d))
	}
	return res
}

func (w *world) pool(ctx sdk.Context) types.ConcentratedPoolExtension {
	p, err := w.App.ConcentratedLiquidityKeeper.GetConcentratedPoolById(ctx, w.poolID)
	if err != nil {
		panic(err)
	}
	return p
}

// snapshot reads the whole abstract state back through exported APIs.
func (w *world) snapshot(ctx sdk.Context) state {
	k := w.App.ConcentratedLiquidityKeeper
	p := w.pool(ctx)
	st := state{T: ms(ctx.BlockTime(), w.t0), Tick: p.GetCurrentTick(), Sqrt: apphelp.BigBD(p.GetCurrentSqrtPrice()),
		Liq: apphelp.BigD(p.GetLiquidity()), LastUp: ms(p.GetLastLiquidityUpdate(), w.t0)}
	// edges of the SPACING CELL of the current tick: position boundaries live on the spacing grid, and the
	// pool rounds its initial tick down to the grid, so "price and tick agree about every position that
	// exists or can be created" <=> the price lies in [sqrt(cellLo), sqrt(cellLo + spacing)]
	cell := st.Tick / w.space * w.space
	if st.Tick < 0 && st.Tick%w.space != 0 {
		cell -= w.space
	}
	if lo, err := clmath.TickToSqrtPrice(cell); err == nil {
		st.CurLo = apphelp.BigBD(lo)
	} else {
		st.CurLo = tracelog.EncInt64(0)
	}
	if hi, err := clmath.TickToSqrtPrice(cell + w.space); err == nil {
		st.CurHi = apphelp.BigBD(hi)
	} else {
		st.CurHi = tracelog.EncInt64(0)
	}
	ids, err := k.GetPositionIDsByPoolID(ctx, w.poolID)
	if err != nil {
		panic(err)
	}
	sort.Slice(ids, func(i, j int) bool { return ids[i] < ids[j] })
	st.Pos = []posSt{}
	for _, id := range ids {
		pp, err := k.GetPosition(ctx, id)
		if err != nil {
			panic(err)
		}
		ps := posSt{ID: id, Own: w.userIdx(pp.Address), Lo: pp.LowerTick, Hi: pp.UpperTick, Liq: apphelp.BigD(pp.Liquidity),
			Join: ms(pp.JoinTime, w.t0)}
		if active, _, err := k.PositionHasActiveUnderlyingLock(ctx, id); err == nil && active {
			ps.Lock = 1
		}
		ps.Fee, ps.Inc, ps.Forf = coinsVec(nil, []string{d0, d1}), coinsVec(nil, allDenoms), coinsVec(nil, allDenoms)
		ps.QErr = ""
		func() { // a query that errors or panics on an open position is itself logged
			defer func() {
				if r := recover(); r != nil {
					ps.QErr = trunc(fmt.Sprint("panic: ", r))
				}
			}()
			fee, err := k.GetClaimableSpreadRewards(ctx, id)
			if err != nil {
				ps.QErr = trunc("claimable spread rewards: " + err.Error())
				return
			}
			ps.Fee = coinsVec(fee, []string{d0, d1})
			inc, forf, err := k.GetClaimableIncentives(ctx, id)
			if err != nil {
				ps.QErr = trunc("claimable incentives: " + err.Error())
				return
			}
			ps.Inc, ps.Forf = coinsVec(inc, allDenoms), coinsVec(forf, allDenoms)
		}()
		st.Pos = append(st.Pos, ps)
	}
	ticks, err := k.GetAllInitializedTicksForPool(ctx, w.poolID)
	if err != nil {
		panic(err)
	}
	st.Ticks = []tickSt{}
	for _, ft := range ticks {
		sq, err := clmath.TickToSqrtPrice(ft.TickIndex)
		if err != nil {
			panic(err)
		}
		ts := tickSt{T: ft.TickIndex, Gross: apphelp.BigD(ft.Info.LiquidityGross), Net: apphelp.BigD(ft.Info.LiquidityNet),
			Sqrt: apphelp.BigBD(sq), FeeOut: decCoinsVec(ft.Info.SpreadRewardGrowthOppositeDirectionOfLastTraversal, []string{d0, d1}),
			UpOut: [][]big{}}
		for _, ut := range ft.Info.UptimeTrackers.List {
			ts.UpOut = append(ts.UpOut, decCoinsVec(ut.UptimeGrowthOutside, allDenoms))
		}
		st.Ticks = append(st.Ticks, ts)
	}
	sort.Slice(st.Ticks, func(i, j int) bool { return st.Ticks[i].T < st.Ticks[j].T })
	st.Index = [][]int{}
	st.UserB = [][]big{}
	for _, u := range w.users {
		ups, err := k.GetUserPositions(ctx, u, w.poolID)
		if err != nil {
			panic(err)
		}
		ix := []int{}
		for _, up := range ups {
			ix = append(ix, int(up.PositionId))
		}
		sort.Ints(ix)
		st.Index = append(st.Index, ix)
		st.UserB = append(st.UserB, coinsVec(w.App.BankKeeper.GetAllBalances(ctx, u), allDenoms))
	}
	st.PoolB = coinsVec(w.App.BankKeeper.GetAllBalances(ctx, p.GetAddress()), allDenoms)
	st.FeeB = coinsVec(w.App.BankKeeper.GetAllBalances(ctx, p.GetSpreadRewardsAddress()), allDenoms)
	st.IncB = coinsVec(w.App.BankKeeper.GetAllBalances(ctx, p.GetIncentivesAddress()), allDenoms)
	fa, err := k.GetSpreadRewardAccumulator(ctx, w.poolID)
	if err != nil {
		panic(err)
	}
	st.FeeAcc = decCoinsVec(fa.GetValue(), []string{d0, d1})
	uv, err := k.GetUptimeAccumulatorValues(ctx, w.poolID)
	if err != nil {
		panic(err)
	}
	st.UpAcc = [][]big{}
	for _, v := range uv {
		st.UpAcc = append(st.UpAcc, decCoinsVec(v, allDenoms))
	}
	recs, err := k.GetAllIncentiveRecordsForPool(ctx, w.poolID)
	if err != nil {
		panic(err)
	}
	st.Recs = []recSt{}
	for _, r := range recs {
		di, ui := -1, -1
		for i, d := range allDenoms {
			if d == r.IncentiveRecordBody.RemainingCoin.Denom {
				di = i
			}
		}
		for i, u := range types.SupportedUptimes {
			if u == r.MinUptime {
				ui = i
			}
		}
		st.Recs = append(st.Recs, recSt{ID: r.IncentiveId, Denom: di, Rem: apphelp.BigD(r.IncentiveRecordBody.RemainingCoin.Amount),
			Rate: apphelp.BigD(r.IncentiveRecordBody.EmissionRate), Start: ms(r.IncentiveRecordBody.StartTime, w.t0), Up: ui})
	}
	sort.Slice(st.Recs, func(i, j int) bool { return st.Recs[i].ID < st.Recs[j].ID })
	// the stored records lag behind: claimable amounts are computed with accrual up to
	// now, so the matching "undistributed remainder" is the one after the same update
	st.RemNow = make([]big, len(allDenoms))
	func() {
		cc, _ := ctx.CacheContext()
		remNow := sdk.NewDecCoins()
		defer func() {
			recover()
			for i, d := range allDenoms {
				st.RemNow[i] = apphelp.BigD(remNow.AmountOf(d))
			}
		}()
		if err := k.UpdatePoolUptimeAccumulatorsToNow(cc, w.poolID); err != nil {
			return
		}
		rs, err := k.GetAllIncentiveRecordsForPool(cc, w.poolID)
		if err != nil {
			return
		}
		for _, r := range rs {
			remNow = remNow.Add(r.IncentiveRecordBody.RemainingCoin)
		}
	}()
	t := st.T
	st.T = 0
	bz, _ := json.Marshal(st)
	h := sha256.Sum256(bz)
	st.Dg = hex.EncodeToString(h[:8])
	st.T = t
	return st
}

// drain: on a discarded branch everybody collects and fully withdraws, in the
// given order; what is left in the three pool accounts is logged.
type drainRes struct {
	Order   string  `json:"order"`
	Fail    []int   `json:"fail"`    // position ids whose full withdrawal failed
	FailC   []int   `json:"failC"`   // position ids whose reward collection failed
	Errs    []string `json:"errs"`
	PoolB   []big   `json:"poolBal"` // residuals per allDenoms
	FeeB    []big   `json:"feeBal"`
	IncB    []big   `json:"incBal"`
	RecRem  []big   `json:"recRem"`  // per allDenoms: sum of remaining of incentive records (truncated up) after the drain
	NPos    int     `json:"npos"`
}

func (w *world) drain(order string, ids []uint64) drainRes {
	res := drainRes{Order: order, Fail: []int{}, FailC: []int{}, Errs: []string{}, NPos: len(ids)}
	cc, _ := w.Ctx.CacheContext()
	k := w.App.ConcentratedLiquidityKeeper
	for _, id := range ids {
		func() {
			defer func() {
				if r := recover(); r != nil {
					res.Fail = append(res.Fail, int(id))
					res.Errs = append(res.Errs, fmt.Sprint("panic: ", r))
				}
			}()
			pp, err := k.GetPosition(cc, id)
			if err != nil {
				res.Fail = append(res.Fail, int(id))
				res.Errs = append(res.Errs, err.Error())
				return
			}
			owner := sdk.MustAccAddressFromBech32(pp.Address)
			// each user action on its own sub-branch (a failed tx changes nothing)
			step := func(f func(ctx sdk.Context) error) error {
				c2, write := cc.CacheContext()
				if err := f(c2); err != nil {
					return err
				}
				write()
				return nil
			}
			if err := step(func(c sdk.Context) error {
				_, err := w.msgOn(c).CollectSpreadRewards(c, &types.MsgCollectSpreadRewards{PositionIds: []uint64{id}, Sender: pp.Address})
				return err
			}); err != nil {
				res.FailC = append(res.FailC, int(id))
				res.Errs = append(res.Errs, "collect spread: "+err.Error())
			}
			if err := step(func(c sdk.Context) error {
				_, err := w.msgOn(c).CollectIncentives(c, &types.MsgCollectIncentives{PositionIds: []uint64{id}, Sender: pp.Address})
				return err
			}); err != nil {
				res.FailC = append(res.FailC, int(id))
				res.Errs = append(res.Errs, "collect incentives: "+err.Error())
			}
			if err := step(func(c sdk.Context) error {
				_, _, err := k.WithdrawPosition(c, owner, id, pp.Liquidity)
				return err
			}); err != nil {
				res.Fail = append(res.Fail, int(id))
				res.Errs = append(res.Errs, "withdraw: "+err.Error())
			}
		}()
	}
	p := w.pool(cc)
	res.PoolB = coinsVec(w.App.BankKeeper.GetAllBalances(cc, p.GetAddress()), allDenoms)
	res.FeeB = coinsVec(w.App.BankKeeper.GetAllBalances(cc, p.GetSpreadRewardsAddress()), allDenoms)
	res.IncB = coinsVec(w.App.BankKeeper.GetAllBalances(cc, p.GetIncentivesAddress()), allDenoms)
	rem := sdk.NewDecCoins()
	recs, _ := k.GetAllIncentiveRecordsForPool(cc, w.poolID)
	for _, r := range recs {
		rem = rem.Add(r.IncentiveRecordBody.RemainingCoin)
	}
	res.RecRem = make([]big, len(allDenoms))
	for i, d := range allDenoms {
		res.RecRem[i] = apphelp.BigI(rem.AmountOf(d).Ceil().TruncateInt())
	}
	return res
}

func (w *world) msgOn(_ sdk.Context) types.MsgServer { return w.msg }

type event struct {
	E    string         `json:"e"`
	Op   string         `json:"op"`
	Who  int            `json:"who"`
	Args map[string]any `json:"args"`
	OK   bool           `json:"ok"`
	Pan  bool           `json:"pan"`
	Err  string         `json:"err"`
	Res  map[string]any `json:"res"`
	St   state          `json:"st"`
	Dr   []drainRes     `json:"drain"`
}

func pow10(k int) osmomath.Int {
	return osmomath.NewIntFromBigInt(new(stdbig.Int).Exp(stdbig.NewInt(10), stdbig.NewInt(int64(k)), nil))
}

func (w *world) randAmt(maxExp int) osmomath.Int {
	e := w.rng.Intn(maxExp + 1)
	m := osmomath.NewInt(int64(1 + w.rng.Intn(9)))
	x := m.Mul(pow10(e))
	if w.rng.Intn(4) == 0 {
		x = x.Add(osmomath.NewInt(int64(w.rng.Intn(1000))))
	}
	return x
}

func TestRecord(t *testing.T) {
	out := os.Getenv("VERIF_OUT")
	if out == "" {
		t.Skip("VERIF_OUT not set")
	}
	seed := tracelog.EnvInt("VERIF_SEED", 1)
	nh := int(tracelog.EnvInt("VERIF_HISTORIES", 8))
	nops := int(tracelog.EnvInt("VERIF_OPS", 60))
	drainEvery := int(tracelog.EnvInt("VERIF_DRAIN_EVERY", 1))
	style := tracelog.EnvStr("VERIF_STYLE", "mixed")
	tw, err := tracelog.NewWriter(out)
	if err != nil {
		t.Fatal(err)
	}
	for h := 0; h < nh; h++ {
		recordHistory(t, tw, seed*1000+int64(h), nops, drainEvery, style)
	}
	if err := tw.Close(); err != nil {
		t.Fatal(err)
	}
	fmt.Printf("RECORDED events=%d histories=%d\n", tw.N, nh)
}

func recordHistory(t *testing.T, tw *tracelog.Writer, seed int64, nops, drainEvery int, style string) {
	rng := rand.New(rand.NewSource(seed))
	w := &world{World: apphelp.New(t), rng: rng}
	k := w.App.ConcentratedLiquidityKeeper
	w.msg = cl.NewMsgServerImpl(k)
	w.t0 = w.Ctx.BlockTime()
	// parameters of this history
	spacings := types.AuthorizedTickSpacing
	w.space = int64(spacings[rng.Intn(len(spacings))])
	w.f = types.AuthorizedSpreadFactors[rng.Intn(len(types.AuthorizedSpreadFactors))]
	nusers := 2 + rng.Intn(4)
	for i := 0; i < nusers; i++ {
		u := apphelp.Acct(int(seed%1000)*10 + i + 1)
		w.users = append(w.users, u)
		coins := sdk.NewCoins()
		for _, d := range allDenoms {
			coins = coins.Add(sdk.NewCoin(d, pow10(40)))
		}
		w.FundAcc(u, coins)
	}
	params := k.GetParams(w.Ctx)
	params.AuthorizedUptimes = types.SupportedUptimes
	if seed%5 == 3 {
		// governance may authorise any spread factor in [0, 1): every fifth history runs with a large one (above one
		// half the spread reward exceeds the amount that reaches the curve)
		big := []osmomath.Dec{osmomath.MustNewDecFromStr("0.5"), osmomath.MustNewDecFromStr("0.51"), osmomath.MustNewDecFromStr("0.6"),
			osmomath.MustNewDecFromStr("0.75"), osmomath.MustNewDecFromStr("0.9")}
		params.AuthorizedSpreadFactors = append(params.AuthorizedSpreadFactors, big...)
		w.f = big[rng.Intn(len(big))]
	}
	k.SetParams(w.Ctx, params)
	scaledFee, scaledInc := rng.Intn(2) == 0, rng.Intn(2) == 0
	if !scaledFee {
		k.SetSpreadFactorPoolIDMigrationThreshold(w.Ctx, 1000)
	}
	if !scaledInc {
		k.SetIncentivePoolIDMigrationThreshold(w.Ctx, 1000)
	}
	pool := w.PrepareCustomConcentratedPool(w.TestAccs[0], d0, d1, uint64(w.space), w.f)
	w.poolID = pool.GetId()
	// Every second history has a second pool (same denominations, no incentives) in which every user holds one
	// full-range position; it is never traded on and is not part of the history.  MsgCollectIncentives takes a LIST
	// of positions: the users then collect for the position of the history and their position in the other pool in
	// one message - what happens to the first must not depend on what else is listed.
	if seed%2 == 1 {
		other := w.PrepareCustomConcentratedPool(w.TestAccs[0], d0, d1, uint64(w.space), w.f)
		w.decoy = map[int]uint64{}
		for i, u := range w.users {
			resp, err := w.msg.CreatePosition(w.Ctx, &types.MsgCreatePosition{PoolId: other.GetId(), Sender: u.String(),
				LowerTick: types.MinInitializedTick, UpperTick: types.MaxTick,
				TokensProvided:  sdk.NewCoins(sdk.NewCoin(d0, osmomath.NewInt(1_000_000)), sdk.NewCoin(d1, osmomath.NewInt(1_000_000))),
				TokenMinAmount0: osmomath.ZeroInt(), TokenMinAmount1: osmomath.ZeroInt()})
			if err != nil {
				t.Fatal(err)
			}
			w.decoy[i+1] = resp.PositionId
		}
	}
	ups := []int64{}
	for _, u := range types.SupportedUptimes {
		ups = append(ups, u.Milliseconds()) // 1ns -> 0
	}
	// each incentive denom is bound to ONE minimum uptime for the whole history
	incUp := []int{0, rng.Intn(len(types.SupportedUptimes))}
	if rng.Intn(3) == 0 {
		incUp[0] = rng.Intn(len(types.SupportedUptimes))
	}
	tw.Emit(map[string]any{"e": "cfg", "incUpMs": []int64{ups[incUp[0]], ups[incUp[1]]}, "spacing": w.space, "f": apphelp.BigD(w.f), "users": nusers,
		"scaledFee": scaledFee, "scaledInc": scaledInc, "uptimesMs": ups, "seed": seed,
		"minTick": types.MinInitializedTick, "maxTick": types.MaxTick,
		"minSqrt": apphelp.BigBD(types.MinSqrtPriceBigDec), "maxSqrt": apphelp.BigBD(types.MaxSqrtPriceBigDec),
		"st": w.snapshot(w.Ctx)})

	// initial price 10^k
	pexp := rng.Intn(7) - 3
	if rng.Intn(5) == 0 {
		pexp = rng.Intn(23) - 11
	}
	tiny := style == "dust" || (style == "mixed" && rng.Intn(5) == 0)
	maxExp := 12
	if tiny {
		maxExp = 3
	}

	curTick := func() int64 { return w.pool(w.Ctx).GetCurrentTick() }
	roundSp := func(x int64) int64 {
		r := x / w.space * w.space
		if x < 0 && x%w.space != 0 {
			r -= w.space
		}
		if r < types.MinInitializedTick {
			r = (types.MinInitializedTick/w.space + 1) * w.space
			if types.MinInitializedTick%w.space == 0 {
				r = types.MinInitializedTick
			}
		}
		if r > types.MaxTick {
			r = types.MaxTick / w.space * w.space
		}
		return r
	}
	randRange := func() (int64, int64) {
		c := curTick()
		// adjacent to an existing position: shares a boundary tick with it
		if ps := w.snapshot(w.Ctx).Pos; len(ps) > 0 && rng.Intn(7) == 0 {
			q := ps[rng.Intn(len(ps))]
			wd := int64(1+rng.Intn(60)) * w.space
			if rng.Intn(2) == 0 && q.Hi+wd <= types.MaxTick {
				return q.Hi, q.Hi + wd
			}
			if q.Lo-wd >= types.MinInitializedTick {
				return q.Lo - wd, q.Lo
			}
		}
		switch r := rng.Intn(20); {
		case r == 0: // full range
			return roundSp(types.MinInitializedTick), roundSp(types.MaxTick)
		case r < 3: // far away, never in range
			off := int64(1000+rng.Intn(100000)) * w.space
			if rng.Intn(2) == 0 {
				return roundSp(c + off), roundSp(c + off + int64(1+rng.Intn(50))*w.space)
			}
			return roundSp(c - off - int64(1+rng.Intn(50))*w.space), roundSp(c - off)
		default:
			width := int64(1 + rng.Intn(40))
			if rng.Intn(3) == 0 {
				width = int64(1 + rng.Intn(4000))
			}
			lo := roundSp(c + int64(rng.Intn(41)-20-int(width)/2)*w.space)
			if rng.Intn(6) == 0 {
				lo = roundSp(c) // boundary exactly at the current tick's bucket
			}
			hi := lo + width*w.space
			if rng.Intn(8) == 0 {
				hi = roundSp(c) + w.space
				if hi <= lo {
					lo = hi - width*w.space
				}
			}
			return roundSp(lo), roundSp(hi)
		}
	}
	livePos := func() []posSt { return w.snapshot(w.Ctx).Pos }

	nextDrain := 0
	emit := func(ev *event) {
		ev.E = "op"
		ev.St = w.snapshot(w.Ctx)
		ev.Dr = []drainRes{}
		if ev.Res == nil {
			ev.Res = map[string]any{}
		}
		if ev.Args == nil {
			ev.Args = map[string]any{}
		}
		nextDrain--
		if nextDrain <= 0 && len(ev.St.Pos) > 0 {
			nextDrain = drainEvery
			ids := []uint64{}
			for _, p := range ev.St.Pos {
				ids = append(ids, p.ID)
			}
			ev.Dr = append(ev.Dr, w.drain("asc", ids))
			rev := append([]uint64{}, ids...)
			sort.Slice(rev, func(i, j int) bool { return rev[i] > rev[j] })
			ev.Dr = append(ev.Dr, w.drain("desc", rev))
			sh := append([]uint64{}, ids...)
			rng.Shuffle(len(sh), func(i, j int) { sh[i], sh[j] = sh[j], sh[i] })
			ev.Dr = append(ev.Dr, w.drain("random", sh))
		}
		tw.Emit(ev)
	}
	outc := func(ev *event, o apphelp.Outcome) {
		ev.OK, ev.Pan, ev.Err = o.OK, o.Panicked, o.Err
		if len(ev.Err) > 300 {
			ev.Err = ev.Err[:300]
		}
	}

	doCreate := func(first bool) {
		who := rng.Intn(nusers)
		var lo, hi int64
		var a0, a1 osmomath.Int
		if first {
			base := w.randAmt(maxExp)
			if base.LT(osmomath.NewInt(1000)) && !tiny {
				base = base.MulRaw(1000)
			}
			a0, a1 = base, base
			if pexp >= 0 {
				a1 = base.Mul(pow10(pexp))
			} else {
				a0 = base.Mul(pow10(-pexp))
			}
			// the initial price is usually NOT a power of ten: its tick is then off the spacing grid
			if rng.Intn(4) != 0 {
				a0 = a0.MulRaw(int64(1000 + rng.Intn(9000))).QuoRaw(1000)
				a1 = a1.MulRaw(int64(1000 + rng.Intn(9000))).QuoRaw(1000)
				if !a0.IsPositive() {
					a0 = osmomath.OneInt()
				}
				if !a1.IsPositive() {
					a1 = osmomath.OneInt()
				}
			}
			lo, hi = roundSp(types.MinInitializedTick), roundSp(types.MaxTick)
			if rng.Intn(2) == 0 {
				// concentrated around the initial price: the price tick is pexp * 9e6
				c := int64(pexp) * 9000000
				if pt, err := clmath.CalculatePriceToTick(osmomath.NewBigDecFromBigInt(a1.BigInt()).Quo(osmomath.NewBigDecFromBigInt(a0.BigInt()))); err == nil {
					c = pt
				}
				wd := int64(1+rng.Intn(200)) * w.space
				lo, hi = roundSp(c-wd), roundSp(c+wd)
			}
		} else {
			lo, hi = randRange()
			a0, a1 = w.randAmt(maxExp), w.randAmt(maxExp)
			if pexp >= 0 {
				a1 = a1.Mul(pow10(pexp))
			} else {
				a0 = a0.Mul(pow10(-pexp))
			}
			switch rng.Intn(6) {
			case 0:
				a0 = osmomath.ZeroInt()
			case 1:
				a1 = osmomath.ZeroInt()
			}
		}
		ev := &event{Op: "create", Who: who + 1, Args: map[string]any{"lo": lo, "hi": hi, "a0": apphelp.BigI(a0), "a1": apphelp.BigI(a1)}}
		coins := sdk.NewCoins()
		if a0.IsPositive() {
			coins = coins.Add(sdk.NewCoin(d0, a0))
		}
		if a1.IsPositive() {
			coins = coins.Add(sdk.NewCoin(d1, a1))
		}
		m := &types.MsgCreatePosition{PoolId: w.poolID, Sender: w.users[who].String(), LowerTick: lo, UpperTick: hi,
			TokensProvided: coins, TokenMinAmount0: osmomath.ZeroInt(), TokenMinAmount1: osmomath.ZeroInt()}
		var resp *types.MsgCreatePositionResponse
		o := apphelp.Outcome{Err: "validate-basic"}
		if err := m.ValidateBasic(); err == nil {
			o = w.Try(func(ctx sdk.Context) error {
				var err error
				resp, err = w.msg.CreatePosition(ctx, m)
				return err
			})
		} else {
			o.Err = "validate-basic: " + err.Error()
		}
		outc(ev, o)
		if o.OK {
			ev.Res = map[string]any{"id": resp.PositionId, "a0": apphelp.BigI(resp.Amount0), "a1": apphelp.BigI(resp.Amount1),
				"liq": apphelp.BigD(resp.LiquidityCreated), "lo": resp.LowerTick, "hi": resp.UpperTick}
		}
		emit(ev)
	}

	lockIDs := []uint64{}
	doCreateLocked := func() {
		who := rng.Intn(nusers)
		a0, a1 := w.randAmt(maxExp).AddRaw(10), w.randAmt(maxExp).AddRaw(10)
		if pexp >= 0 {
			a1 = a1.Mul(pow10(pexp))
		} else {
			a0 = a0.Mul(pow10(-pexp))
		}
		dur := time.Duration(1+rng.Intn(48)) * time.Hour
		unlocking := rng.Intn(2) == 0
		ev := &event{Op: "create", Who: who + 1, Args: map[string]any{"lo": 0, "hi": 0, "a0": apphelp.BigI(a0), "a1": apphelp.BigI(a1),
			"lockedMs": dur.Milliseconds(), "unlocking": unlocking}}
		var id, lockID uint64
		o := w.Try(func(ctx sdk.Context) error {
			coins := sdk.NewCoins(sdk.NewCoin(d0, a0), sdk.NewCoin(d1, a1))
			var err error
			var pd types.CreateFullRangePositionData
			if unlocking {
				pd, lockID, err = k.CreateFullRangePositionUnlocking(ctx, w.poolID, w.users[who], coins, dur)
			} else {
				pd, lockID, err = k.CreateFullRangePositionLocked(ctx, w.poolID, w.users[who], coins, dur)
			}
			id = pd.ID
			if err == nil {
				pp, _ := k.GetPosition(ctx, id)
				ev.Res = map[string]any{"id": id, "a0": apphelp.BigI(pd.Amount0), "a1": apphelp.BigI(pd.Amount1),
					"liq": apphelp.BigD(pd.Liquidity), "lo": pp.LowerTick, "hi": pp.UpperTick}
			}
			return err
		})
		outc(ev, o)
		if o.OK && !unlocking {
			lockIDs = append(lockIDs, lockID)
		}
		if !o.OK {
			ev.Res = nil
		}
		emit(ev)
	}
	doBeginUnlock := func() {
		if len(lockIDs) == 0 {
			return
		}
		i := rng.Intn(len(lockIDs))
		lid := lockIDs[i]
		ev := &event{Op: "unlockLock", Args: map[string]any{"lock": lid}}
		o := w.Try(func(ctx sdk.Context) error {
			lk, err := w.App.LockupKeeper.GetLockByID(ctx, lid)
			if err != nil {
				return err
			}
			_, err = w.App.LockupKeeper.BeginUnlock(ctx, lid, lk.Coins)
			return err
		})
		outc(ev, o)
		if o.OK {
			lockIDs = append(lockIDs[:i], lockIDs[i+1:]...)
		}
		emit(ev)
	}

	// withdrawPos: withdraw `amt` of liquidity from the given position (an extra args key marks scripted uses)
	var withdrawPos func(p posSt, amt osmomath.Dec, mark string)
	doWithdraw := func() {
		ps := livePos()
		if len(ps) == 0 {
			return
		}
		p := ps[rng.Intn(len(ps))]
		liq := osmomath.NewDecFromBigIntWithPrec(tracelog.DecBig(p.Liq), 18)
		amt := liq
		switch r := rng.Intn(10); {
		case r < 4: // full
		case r < 8:
			amt = liq.MulInt64(int64(1 + rng.Intn(99))).QuoInt64(100)
		case r == 8:
			amt = osmomath.SmallestDec()
		default:
			amt = liq.Add(osmomath.SmallestDec()) // too much: must fail
		}
		withdrawPos(p, amt, "")
	}
	withdrawPos = func(p posSt, amt osmomath.Dec, mark string) {
		ev := &event{Op: "withdraw", Who: p.Own, Args: map[string]any{"id": p.ID, "liq": apphelp.BigD(amt)}}
		if mark != "" {
			ev.Args["plant"] = mark
		}
		m := &types.MsgWithdrawPosition{PositionId: p.ID, Sender: w.users[p.Own-1].String(), LiquidityAmount: amt}
		var resp *types.MsgWithdrawPositionResponse
		o := apphelp.Outcome{}
		if err := m.ValidateBasic(); err == nil {
			o = w.Try(func(ctx sdk.Context) error {
				var err error
				resp, err = w.msg.WithdrawPosition(ctx, m)
				return err
			})
		} else {
			o.Err = "validate-basic: " + err.Error()
		}
		outc(ev, o)
		if o.OK {
			ev.Res = map[string]any{"a0": apphelp.BigI(resp.Amount0), "a1": apphelp.BigI(resp.Amount1)}
		}
		emit(ev)
	}

	// two positions sharing a boundary tick are brought to EXACTLY the same liquidity by a partial
	// withdrawal: the shared tick then has net liquidity zero while still being used by both
	doEqualize := func() {
		ps := livePos()
		for _, a := range ps {
			for _, b := range ps {
				if a.ID == b.ID || a.Hi != b.Lo || a.Lock == 1 || b.Lock == 1 {
					continue
				}
				la, lb := tracelog.DecBig(a.Liq), tracelog.DecBig(b.Liq)
				big, diff := b, new(stdbig.Int).Sub(lb, la)
				if diff.Sign() < 0 {
					big, diff = a, diff.Neg(diff)
				}
				if diff.Sign() == 0 {
					continue
				}
				amt := osmomath.NewDecFromBigIntWithPrec(diff, 18)
				ev := &event{Op: "withdraw", Who: big.Own, Args: map[string]any{"id": big.ID, "liq": apphelp.BigD(amt), "equalize": true}}
				m := &types.MsgWithdrawPosition{PositionId: big.ID, Sender: w.users[big.Own-1].String(), LiquidityAmount: amt}
				var resp *types.MsgWithdrawPositionResponse
				o := w.Try(func(ctx sdk.Context) error {
					var err error
					resp, err = w.msg.WithdrawPosition(ctx, m)
					return err
				})
				outc(ev, o)
				if o.OK {
					ev.Res = map[string]any{"a0": apphelp.BigI(resp.Amount0), "a1": apphelp.BigI(resp.Amount1)}
				}
				emit(ev)
				return
			}
		}
	}

	var addPos func(p posSt, mark string)
	doAdd := func() {
		ps := livePos()
		if len(ps) == 0 {
			return
		}
		addPos(ps[rng.Intn(len(ps))], "")
	}
	addPos = func(p posSt, mark string) {
		a0, a1 := w.randAmt(maxExp), w.randAmt(maxExp)
		if pexp >= 0 {
			a1 = a1.Mul(pow10(pexp))
		} else {
			a0 = a0.Mul(pow10(-pexp))
		}
		ev := &event{Op: "add", Who: p.Own, Args: map[string]any{"id": p.ID, "a0": apphelp.BigI(a0), "a1": apphelp.BigI(a1)}}
		if mark != "" {
			ev.Args["plant"] = mark
		}
		m := &types.MsgAddToPosition{PositionId: p.ID, Sender: w.users[p.Own-1].String(), Amount0: a0, Amount1: a1,
			TokenMinAmount0: osmomath.ZeroInt(), TokenMinAmount1: osmomath.ZeroInt()}
		var resp *types.MsgAddToPositionResponse
		o := apphelp.Outcome{}
		if err := m.ValidateBasic(); err == nil {
			o = w.Try(func(ctx sdk.Context) error {
				var err error
				resp, err = w.msg.AddToPosition(ctx, m)
				return err
			})
		} else {
			o.Err = "validate-basic: " + err.Error()
		}
		outc(ev, o)
		if o.OK {
			ev.Res = map[string]any{"id": resp.PositionId, "a0": apphelp.BigI(resp.Amount0), "a1": apphelp.BigI(resp.Amount1)}
		}
		emit(ev)
	}

	doTransfer := func() {
		ps := livePos()
		if len(ps) == 0 {
			return
		}
		p := ps[rng.Intn(len(ps))]
		to := rng.Intn(nusers)
		ev := &event{Op: "transfer", Who: p.Own, Args: map[string]any{"id": p.ID, "to": to + 1}}
		m := &types.MsgTransferPositions{PositionIds: []uint64{p.ID}, Sender: w.users[p.Own-1].String(), NewOwner: w.users[to].String()}
		o := apphelp.Outcome{}
		if err := m.ValidateBasic(); err == nil {
			o = w.Try(func(ctx sdk.Context) error {
				_, err := w.msg.TransferPositions(ctx, m)
				return err
			})
		} else {
			o.Err = "validate-basic: " + err.Error()
		}
		outc(ev, o)
		emit(ev)
	}

	var collectPos func(kind string, p posSt, mark string)
	doCollect := func(kind string) {
		ps := livePos()
		if len(ps) == 0 {
			return
		}
		collectPos(kind, ps[rng.Intn(len(ps))], "")
	}
	collectPos = func(kind string, p posSt, mark string) {
		ev := &event{Op: kind, Who: p.Own, Args: map[string]any{"id": p.ID}}
		if mark != "" {
			ev.Args["plant"] = mark
		}
		o := apphelp.Outcome{}
		if kind == "collectFee" {
			m := &types.MsgCollectSpreadRewards{PositionIds: []uint64{p.ID}, Sender: w.users[p.Own-1].String()}
			var resp *types.MsgCollectSpreadRewardsResponse
			o = w.Try(func(ctx sdk.Context) error {
				var err error
				resp, err = w.msg.CollectSpreadRewards(ctx, m)
				return err
			})
			if o.OK {
				ev.Res = map[string]any{"got": coinsVec(resp.CollectedSpreadRewards, allDenoms)}
			}
		} else {
			m := &types.MsgCollectIncentives{PositionIds: []uint64{p.ID}, Sender: w.users[p.Own-1].String()}
			if dp, ok := w.decoy[p.Own]; ok {
				m.PositionIds = append(m.PositionIds, dp) // the position in the other pool is listed last
				ev.Args["withOtherPool"] = true
			}
			var resp *types.MsgCollectIncentivesResponse
			o = w.Try(func(ctx sdk.Context) error {
				var err error
				resp, err = w.msg.CollectIncentives(ctx, m)
				return err
			})
			if o.OK {
				ev.Res = map[string]any{"got": coinsVec(resp.CollectedIncentives, allDenoms), "forf": coinsVec(resp.ForfeitedIncentives, allDenoms)}
			}
		}
		outc(ev, o)
		emit(ev)
	}

	doSwap := func() {
		who := rng.Intn(nusers)
		zfo := rng.Intn(2) == 0
		exactIn := rng.Intn(2) == 0
		din, dout := d1, d0
		if zfo {
			din, dout = d0, d1
		}
		p := w.pool(w.Ctx)
		// size the trade relative to what the pool holds of the relevant token
		var amt osmomath.Int
		ref := w.App.BankKeeper.GetBalance(w.Ctx, p.GetAddress(), dout).Amount
		if exactIn {
			ref = w.App.BankKeeper.GetBalance(w.Ctx, p.GetAddress(), din).Amount
			if ref.IsZero() {
				ref = w.App.BankKeeper.GetBalance(w.Ctx, p.GetAddress(), dout).Amount
			}
		}
		switch r := rng.Intn(20); {
		case r < 2:
			amt = osmomath.NewInt(int64(1 + rng.Intn(3)))
		case r < 5:
			amt = w.randAmt(maxExp)
		case r < 16:
			if ref.IsPositive() {
				amt = ref.MulRaw(int64(1 + rng.Intn(300))).QuoRaw(1000)
			} else {
				amt = w.randAmt(maxExp)
			}
		case r < 18:
			amt = ref.MulRaw(int64(900 + rng.Intn(300))).QuoRaw(1000) // around draining
		default:
			amt = ref.MulRaw(int64(2 + rng.Intn(50)))
		}
		// boundary targeting: the exact input that consumes 1-3 whole buckets (the swap then stops
		// exactly on an initialised tick), and its neighbours one unit below / above
		if rng.Intn(5) == 0 {
			func() {
				defer func() { recover() }() // only used to pick an amount; may panic on a broken tree
				if maxIn, maxOut, err := k.ComputeMaxInAmtGivenMaxTicksCrossed(w.Ctx, w.poolID, din, uint64(1+rng.Intn(3))); err == nil {
					base := maxIn.Amount
					if !exactIn {
						base = maxOut.Amount
					}
					if base.IsPositive() {
						amt = base.AddRaw(int64(rng.Intn(3) - 1))
					}
				}
			}()
		}
		if !amt.IsPositive() {
			amt = osmomath.OneInt()
		}
		ev := &event{Op: "swap", Who: who + 1, Args: map[string]any{"zfo": zfo, "exactIn": exactIn, "amt": apphelp.BigI(amt)}}
		// estimate on the same pre-state (must not change state)
		pre := w.snapshot(w.Ctx)
		var est osmomath.Int
		var eo apphelp.Outcome
		if exactIn {
			eo = w.Try(func(ctx sdk.Context) error { // Try, not Peek: a mutating estimate must show up
				c, err := k.CalcOutAmtGivenIn(ctx, p, sdk.NewCoin(din, amt), dout, w.f)
				est = c.Amount
				return err
			})
		} else {
			eo = w.Try(func(ctx sdk.Context) error {
				c, err := k.CalcInAmtGivenOut(ctx, p, sdk.NewCoin(dout, amt), din, w.f)
				est = c.Amount
				return err
			})
		}
		ev.Args["estOk"] = eo.OK
		ev.Args["estPan"] = eo.Panicked
		if eo.OK {
			ev.Args["est"] = apphelp.BigI(est)
		} else {
			ev.Args["est"] = tracelog.EncInt64(0)
		}
		ev.Args["estDg"] = w.snapshot(w.Ctx).Dg
		ev.Args["preDg"] = pre.Dg
		var got osmomath.Int
		var o apphelp.Outcome
		if exactIn {
			o = w.Try(func(ctx sdk.Context) error {
				var err error
				got, err = k.SwapExactAmountIn(ctx, w.users[who], p, sdk.NewCoin(din, amt), dout, osmomath.OneInt(), w.f)
				return err
			})
		} else {
			o = w.Try(func(ctx sdk.Context) error {
				var err error
				got, err = k.SwapExactAmountOut(ctx, w.users[who], p, din, pow10(45), sdk.NewCoin(dout, amt), w.f)
				return err
			})
		}
		outc(ev, o)
		if o.OK {
			ev.Res = map[string]any{"got": apphelp.BigI(got)}
			// there and straight back, on a discarded branch: exact-in both ways.
			// what was actually charged / paid is read from the trader's balances
			// (an exact-in swap stopped by the price limit consumes less than offered)
			post := w.snapshot(w.Ctx)
			ii, oi := 1, 0
			if zfo {
				ii, oi = 0, 1
			}
			inAmt := osmomath.NewIntFromBigInt(new(stdbig.Int).Sub(tracelog.DecBig(pre.UserB[who][ii]), tracelog.DecBig(post.UserB[who][ii])))
			outAmt := osmomath.NewIntFromBigInt(new(stdbig.Int).Sub(tracelog.DecBig(post.UserB[who][oi]), tracelog.DecBig(pre.UserB[who][oi])))
			var back osmomath.Int
			bo := w.Peek(func(ctx sdk.Context) error {
				if !outAmt.IsPositive() {
					return fmt.Errorf("nothing was paid out (%s)", outAmt)
				}
				p2 := w.pool(ctx)
				var err error
				back, err = k.SwapExactAmountIn(ctx, w.users[who], p2, sdk.NewCoin(dout, outAmt), din, osmomath.OneInt(), w.f)
				return err
			})
			ev.Res["backOk"] = bo.OK
			if bo.OK {
				ev.Res["back"] = apphelp.BigI(back)
			} else {
				ev.Res["back"] = tracelog.EncInt64(0)
			}
			ev.Res["in"] = apphelp.BigI(inAmt)
			ev.Res["out"] = apphelp.BigI(outAmt)
		}
		emit(ev)
	}

	var incentiveWith func(di int, amt osmomath.Int, rate osmomath.Dec, startOff time.Duration, mark string)
	doIncentive := func() {
		di := 2 + rng.Intn(2) // inca / incb
		amt := w.randAmt(9)
		rate := osmomath.NewDecFromInt(w.randAmt(6)).QuoInt64(int64(1 + rng.Intn(1000)))
		if rate.IsZero() {
			rate = osmomath.OneDec()
		}
		startOff := time.Duration(0)
		if rng.Intn(3) == 0 {
			startOff = time.Duration(rng.Intn(3600)) * time.Second
		}
		incentiveWith(di, amt, rate, startOff, "")
	}
	incentiveWith = func(di int, amt osmomath.Int, rate osmomath.Dec, startOff time.Duration, mark string) {
		who := rng.Intn(nusers)
		ui := incUp[di-2]
		start := w.Ctx.BlockTime().Add(startOff)
		ev := &event{Op: "incentive", Who: who + 1, Args: map[string]any{"denom": di, "amt": apphelp.BigI(amt), "rate": apphelp.BigD(rate),
			"start": ms(start, w.t0), "up": ui}}
		if mark != "" {
			ev.Args["plant"] = mark
		}
		var rec types.IncentiveRecord
		o := w.Try(func(ctx sdk.Context) error {
			var err error
			rec, err = k.CreateIncentive(ctx, w.poolID, w.users[who], sdk.NewCoin(allDenoms[di], amt), rate, start, types.SupportedUptimes[ui])
			return err
		})
		outc(ev, o)
		if o.OK {
			ev.Res = map[string]any{"id": rec.IncentiveId}
		}
		emit(ev)
	}

	advance := func(d time.Duration) {
		if ms(w.Ctx.BlockTime().Add(d), w.t0) > 1_900_000_000 {
			d = time.Second
		}
		w.AdvanceTime(d)
		ev := &event{Op: "time", Args: map[string]any{"dtMs": d.Milliseconds()}, OK: true}
		emit(ev)
	}
	doTime := func() {
		var d time.Duration
		switch r := rng.Intn(10); {
		case r < 4:
			d = time.Duration(1+rng.Intn(10)) * time.Second
		case r < 7:
			d = time.Duration(1+rng.Intn(120)) * time.Minute
		case r < 9:
			d = time.Duration(1+rng.Intn(30)) * time.Hour
		default:
			d = time.Duration(1+rng.Intn(3)) * 24 * time.Hour
		}
		// every fourth advance is not a whole number of seconds (emission rates are per second)
		if rng.Intn(4) == 0 {
			d += time.Duration(1+rng.Intn(999)) * time.Millisecond
		}
		advance(d)
	}

	// ---- scripted fragments for the incentive accrual oracle of C08 (all through the same entry points) ----
	// createExact: a position with the given range and amounts (same event shape as doCreate)
	createExact := func(who int, lo, hi int64, a0, a1 osmomath.Int, mark string) uint64 {
		ev := &event{Op: "create", Who: who + 1, Args: map[string]any{"lo": lo, "hi": hi, "a0": apphelp.BigI(a0), "a1": apphelp.BigI(a1), "plant": mark}}
		coins := sdk.NewCoins()
		if a0.IsPositive() {
			coins = coins.Add(sdk.NewCoin(d0, a0))
		}
		if a1.IsPositive() {
			coins = coins.Add(sdk.NewCoin(d1, a1))
		}
		m := &types.MsgCreatePosition{PoolId: w.poolID, Sender: w.users[who].String(), LowerTick: lo, UpperTick: hi,
			TokensProvided: coins, TokenMinAmount0: osmomath.ZeroInt(), TokenMinAmount1: osmomath.ZeroInt()}
		var resp *types.MsgCreatePositionResponse
		o := apphelp.Outcome{Err: "validate-basic"}
		if err := m.ValidateBasic(); err == nil {
			o = w.Try(func(ctx sdk.Context) error {
				var err error
				resp, err = w.msg.CreatePosition(ctx, m)
				return err
			})
		} else {
			o.Err = "validate-basic: " + err.Error()
		}
		outc(ev, o)
		id := uint64(0)
		if o.OK {
			id = resp.PositionId
			ev.Res = map[string]any{"id": resp.PositionId, "a0": apphelp.BigI(resp.Amount0), "a1": apphelp.BigI(resp.Amount1),
				"liq": apphelp.BigD(resp.LiquidityCreated), "lo": resp.LowerTick, "hi": resp.UpperTick}
		}
		emit(ev)
		return id
	}
	// a range that contains the current tick
	rangeAround := func() (int64, int64) {
		c := curTick()
		wd := int64(1+rng.Intn(30)) * w.space
		lo, hi := roundSp(c-wd), roundSp(c+wd)+w.space
		if hi > types.MaxTick {
			hi = roundSp(types.MaxTick)
		}
		return lo, hi
	}
	amtsInRange := func() (osmomath.Int, osmomath.Int) {
		a0, a1 := w.randAmt(maxExp).AddRaw(1000), w.randAmt(maxExp).AddRaw(1000)
		if pexp >= 0 {
			a1 = a1.Mul(pow10(pexp))
		} else {
			a0 = a0.Mul(pow10(-pexp))
		}
		return a0, a1
	}
	posByID := func(id uint64) (posSt, bool) {
		for _, p := range livePos() {
			if p.ID == id {
				return p, true
			}
		}
		return posSt{}, false
	}
	smallRate := func() osmomath.Dec {
		r := osmomath.NewDecFromInt(w.randAmt(5)).QuoInt64(int64(1 + rng.Intn(300)))
		if r.IsZero() {
			r = osmomath.OneDec()
		}
		return r
	}
	// twins (identical range, liquidity and join time, different owners) and a k-multiple of them
	scTwins := func() {
		lo, hi := rangeAround()
		if rng.Intn(4) == 0 {
			lo, hi = randRange()
		}
		a0, a1 := amtsInRange()
		createExact(rng.Intn(nusers), lo, hi, a0, a1, "twin")
		createExact(rng.Intn(nusers), lo, hi, a0, a1, "twin")
		kk := int64(2 + rng.Intn(4))
		createExact(rng.Intn(nusers), lo, hi, a0.MulRaw(kk), a1.MulRaw(kk), "multiple")
	}
	// time passes WITHOUT any liquidity update, then an incentive is created (starting now), then - shortly
	// after - a position joins: the time before the incentive existed must not be paid for
	scLateIncentive := func() {
		d := time.Duration(5+rng.Intn(900)) * time.Second
		if rng.Intn(3) == 0 {
			d = time.Duration(1+rng.Intn(48)) * time.Hour
		}
		advance(d)
		di := 2 + rng.Intn(2)
		rate := smallRate()
		amt := rate.MulInt64(int64(30 + rng.Intn(20000))).TruncateInt().AddRaw(1)
		incentiveWith(di, amt, rate, 0, "late")
		advance(time.Duration(1+rng.Intn(3)) * time.Second)
		lo, hi := rangeAround()
		a0, a1 := amtsInRange()
		createExact(rng.Intn(nusers), lo, hi, a0, a1, "late-joiner")
		advance(time.Duration(1+rng.Intn(120)) * time.Second)
	}
	// several records on one denom: one that runs out within seconds, one starting in a few seconds,
	// one starting in hours
	scBurst := func() {
		di := 2 + rng.Intn(2)
		r1, r2, r3 := smallRate(), smallRate(), smallRate()
		incentiveWith(di, r1.MulInt64(int64(3+rng.Intn(60))).TruncateInt().AddRaw(1), r1, 0, "burst-short")
		incentiveWith(di, r2.MulInt64(int64(100+rng.Intn(5000))).TruncateInt().AddRaw(1), r2, time.Duration(2+rng.Intn(60))*time.Second, "burst-soon")
		incentiveWith(di, r3.MulInt64(int64(100+rng.Intn(100000))).TruncateInt().AddRaw(1), r3, time.Duration(1+rng.Intn(4))*time.Hour, "burst-later")
		advance(time.Duration(1+rng.Intn(30)) * time.Second)
		advance(time.Duration(1+rng.Intn(90)) * time.Second)
	}
	// a young position (younger than the uptime of an incentive denom, unless that is one block) accrues
	// and then collects / is withdrawn / is added to: what it accrued is forfeited
	scYoung := func() {
		lo, hi := rangeAround()
		a0, a1 := amtsInRange()
		who := rng.Intn(nusers)
		id := createExact(who, lo, hi, a0, a1, "young")
		if id == 0 {
			return
		}
		if rng.Intn(3) == 0 { // make sure something is being emitted
			r := smallRate()
			incentiveWith(3, r.MulInt64(int64(600+rng.Intn(5000))).TruncateInt().AddRaw(1), r, 0, "young-inc")
		}
		advance(time.Duration(1+rng.Intn(50)) * time.Second)
		p, ok := posByID(id)
		if !ok {
			return
		}
		liq := osmomath.NewDecFromBigIntWithPrec(tracelog.DecBig(p.Liq), 18)
		switch rng.Intn(5) {
		case 0:
			withdrawPos(p, liq, "young-exit")
		case 1:
			withdrawPos(p, liq.MulInt64(int64(1+rng.Intn(99))).QuoInt64(100), "young-partial")
		case 2:
			addPos(p, "young-add")
		default:
			collectPos("collectInc", p, "young-collect")
		}
		advance(time.Duration(1+rng.Intn(600)) * time.Second)
	}

	doCreate(true)
	for i := 1; i < nops; i++ {
		if len(livePos()) == 0 {
			doCreate(true)
			continue
		}
		switch r := rng.Intn(116); {
		case r >= 114:
			scTwins()
		case r >= 112:
			scBurst()
		case r >= 110:
			scYoung()
		case r >= 107:
			scLateIncentive()
		case r >= 104:
			doEqualize()
		case r >= 102:
			doBeginUnlock()
		case r >= 100:
			doCreateLocked()
		case r < 18:
			doCreate(false)
		case r < 28:
			doWithdraw()
		case r < 33:
			doAdd()
		case r < 36:
			doTransfer()
		case r < 42:
			doCollect("collectFee")
		case r < 47:
			doCollect("collectInc")
		case r < 80:
			doSwap()
		case r < 86:
			doIncentive()
		default:
			doTime()
		}
	}
}
