// Package takerfeedist binds the real x/poolmanager router / governance messages and the real x/txfees
// AfterEpochEnd (full app) to spec/TakerFeeDist.tla (extra check X06): what happens to a taker fee after it
// has been charged - skim accumulators, the epoch-end distribution, trackers.
package takerfeedist

import (
	"errors"
	"fmt"
	"sort"
	"strings"
	"testing"

	"cosmossdk.io/core/appmodule"
	"cosmossdk.io/log"
	sdk "github.com/cosmos/cosmos-sdk/types"
	authtypes "github.com/cosmos/cosmos-sdk/x/auth/types"
	govtypes "github.com/cosmos/cosmos-sdk/x/gov/types"

	"github.com/osmosis-labs/osmosis/osmomath"
	"github.com/osmosis-labs/osmosis/v31/x/gamm/pool-models/balancer"
	"github.com/osmosis-labs/osmosis/v31/x/poolmanager/client/queryproto"
	pmtypes "github.com/osmosis-labs/osmosis/v31/x/poolmanager/types"
	txfeestypes "github.com/osmosis-labs/osmosis/v31/x/txfees/types"

	"verif/harness/apphelp"
)

// the ledgers of the specification and the module accounts behind them ("cp" is the community pool proper,
// "null" the burn address, "rest" everything else: pools, users, other modules)
var moduleOf = map[string]string{
	"tc":  txfeestypes.TakerFeeCollectorName,
	"cpc": txfeestypes.TakerFeeCommunityPoolName,
	"stc": txfeestypes.TakerFeeStakersName,
	"buc": txfeestypes.TakerFeeBurnName,
	"nn":  txfeestypes.NonNativeTxFeeCollectorName,
	"buf": txfeestypes.TakerFeeStakingRewardsBuffer,
	"fc":  authtypes.FeeCollectorName,
}
// "void": coins of the supply that no account holds (always 0 on a sound chain)
var fixedAccts = []string{"tc", "cpc", "stc", "buc", "nn", "buf", "fc", "cp", "null", "rest", "void"}

type poolInfo struct {
	ID   uint64
	A, B string // real denoms
}

// world: one app, a universe of denominations, named skim addresses, pools.
type world struct {
	*apphelp.World
	id      int
	base    string
	denoms  []string          // real denominations of the universe, base first
	name    map[string]string // real denomination -> name in the trace
	real    map[string]string // name -> real denomination
	mod     map[string]sdk.AccAddress
	skim    map[string]sdk.AccAddress // named skim addresses
	skimOf  map[string]string         // bech32 -> name
	skims   []string
	users   []sdk.AccAddress
	pools   []poolInfo
	gov     sdk.AccAddress
	alloys  []alloyInfo // registered / registrable alloyed pools
	rest0   map[string]osmomath.Int // replay: the "rest" ledger at the start
	void0   map[string]osmomath.Int // supply not held by any account when the history starts (set-up artefact)
}

type alloyInfo struct {
	PoolID uint64
	Denom  string   // the alloyed denomination
	Assets []string // underlying denominations
	Addr   sdk.AccAddress
}

func newWorld(t *testing.T, id int, denoms []string, names []string, skims []string, blocked map[string]bool) *world {
	w := &world{World: apphelp.New(t), id: id}
	w.Ctx = w.Ctx.WithLogger(log.NewNopLogger())
	base, err := w.App.TxFeesKeeper.GetBaseDenom(w.Ctx)
	if err != nil {
		panic(err)
	}
	w.base = base
	w.denoms = append([]string{base}, denoms...)
	w.name, w.real = map[string]string{}, map[string]string{}
	for i, d := range w.denoms {
		w.name[d] = names[i]
		w.real[names[i]] = d
	}
	w.mod = map[string]sdk.AccAddress{}
	for k, m := range moduleOf {
		w.mod[k] = w.App.AccountKeeper.GetModuleAddress(m)
		if w.mod[k] == nil {
			panic("no module account " + m)
		}
	}
	w.mod["null"] = txfeestypes.DefaultNullAddress
	w.gov = w.App.AccountKeeper.GetModuleAddress(govtypes.ModuleName)
	w.skim, w.skimOf = map[string]sdk.AccAddress{}, map[string]string{}
	w.skims = skims
	for i, s := range skims {
		var a sdk.AccAddress
		if blocked[s] {
			// an address that cannot receive coins: a module account
			a = w.App.AccountKeeper.GetModuleAddress("mint")
			if !w.App.BankKeeper.BlockedAddr(a) {
				panic("the mint module account is expected to be a blocked address")
			}
		} else {
			a = apphelp.Acct(900 + i)
		}
		w.skim[s] = a
		w.skimOf[a.String()] = s
	}
	for i := 0; i < 3; i++ {
		w.users = append(w.users, apphelp.Acct(100+i))
	}
	return w
}

func (w *world) addDenom(real, name string) {
	w.denoms = append(w.denoms, real)
	w.name[real] = name
	w.real[name] = real
}


func (w *world) fundUsers(amount int64) {
	for _, u := range w.users {
		cs := sdk.Coins{}
		for _, d := range w.denoms {
			cs = cs.Add(sdk.NewInt64Coin(d, amount))
		}
		w.FundAcc(u, cs)
	}
}

func (w *world) createPool(a, b string, ra, rb osmomath.Int, fee string) uint64 {
	id := w.PrepareCustomBalancerPoolFromCoins(sdk.NewCoins(sdk.NewCoin(a, ra), sdk.NewCoin(b, rb)),
		balancer.PoolParams{SwapFee: osmomath.MustNewDecFromStr(fee), ExitFee: osmomath.ZeroDec()})
	w.pools = append(w.pools, poolInfo{ID: id, A: a, B: b})
	return id
}

func (w *world) poolOf(a, b string) (uint64, bool) {
	for _, p := range w.pools {
		if (p.A == a && p.B == b) || (p.A == b && p.B == a) {
			return p.ID, true
		}
	}
	return 0, false
}

// the community pool proper: the fee pool of x/distribution (whole coins only)
func (w *world) community(d string) osmomath.Int {
	fp, err := w.App.DistrKeeper.FeePool.Get(w.Ctx)
	if err != nil {
		panic(err)
	}
	x := fp.CommunityPool.AmountOf(d)
	if !x.Equal(x.TruncateDec()) {
		panic("community pool holds a fraction of " + d)
	}
	return x.TruncateInt()
}

// ledgers: account name -> denomination name -> amount.  "rest" is what all other accounts of the chain hold
// (every balance of the bank is visited), "void" the part of the supply nobody holds.
func (w *world) ledgers() (map[string]map[string]osmomath.Int, map[string]osmomath.Int) {
	res := map[string]map[string]osmomath.Int{}
	supply := map[string]osmomath.Int{}
	accts := append(append([]string{}, fixedAccts...), w.skims...)
	for _, a := range accts {
		res[a] = map[string]osmomath.Int{}
	}
	held := map[string]osmomath.Int{}
	for _, d := range w.denoms {
		held[d] = osmomath.ZeroInt()
	}
	w.App.BankKeeper.IterateAllBalances(w.Ctx, func(_ sdk.AccAddress, c sdk.Coin) bool {
		if x, ok := held[c.Denom]; ok {
			held[c.Denom] = x.Add(c.Amount)
		}
		return false
	})
	for _, d := range w.denoms {
		n := w.name[d]
		sum := osmomath.ZeroInt()
		for _, a := range accts {
			var x osmomath.Int
			switch a {
			case "rest", "void":
				continue
			case "cp":
				x = w.community(d)
			default:
				addr, ok := w.mod[a]
				if !ok {
					addr = w.skim[a]
				}
				x = w.App.BankKeeper.GetBalance(w.Ctx, addr, d).Amount
			}
			res[a][n] = x
			sum = sum.Add(x)
		}
		supply[n] = w.App.BankKeeper.GetSupply(w.Ctx, d).Amount
		res["rest"][n] = held[d].Sub(sum)
		res["void"][n] = supply[n].Sub(held[d])
		if v0, ok := w.void0[n]; ok {
			// the set-up helpers overwrite the supply of some denominations: reported relative to the start
			res["void"][n] = res["void"][n].Sub(v0)
			supply[n] = supply[n].Sub(v0)
		}
	}
	return res, supply
}

type agrT struct {
	D    string
	Pct  osmomath.Dec
	Addr string
}

func (w *world) addrName(bech string) string {
	if n, ok := w.skimOf[bech]; ok {
		return n
	}
	panic("skim address outside the universe: " + bech)
}

func (w *world) storedAgreements() []agrT {
	all, err := w.App.PoolManagerKeeper.GetAllTakerFeesShareAgreements(w.Ctx)
	if err != nil {
		panic(err)
	}
	res := []agrT{}
	for _, a := range all {
		n, ok := w.name[a.Denom]
		if !ok {
			panic("agreement outside the universe: " + a.Denom)
		}
		res = append(res, agrT{D: n, Pct: a.SkimPercent, Addr: w.addrName(a.SkimAddress)})
	}
	sort.Slice(res, func(i, j int) bool { return res[i].D < res[j].D })
	return res
}

// what swaps entering through x/poolmanager see: the cache of the keeper the poolmanager module (message server,
// gRPC queries, BeginBlock / EndBlock) works on, read through the module's gRPC query
func (w *world) seenAgreements() []agrT {
	w.QueryHelper.Ctx = w.Ctx
	qc := queryproto.NewQueryClient(w.QueryHelper)
	res := []agrT{}
	for _, d := range w.denoms {
		r, err := qc.TakerFeeShareAgreementFromDenom(w.Ctx, &queryproto.TakerFeeShareAgreementFromDenomRequest{Denom: d})
		if err != nil {
			if strings.Contains(err.Error(), "not found") {
				continue
			}
			panic(err)
		}
		a := r.TakerFeeShareAgreement
		res = append(res, agrT{D: w.name[d], Pct: a.SkimPercent, Addr: w.addrName(a.SkimAddress)})
	}
	sort.Slice(res, func(i, j int) bool { return res[i].D < res[j].D })
	return res
}

// what swaps entering through another module (x/gamm's swap messages, contracts, protorev) see: the cache of the
// keeper the app hands to the other keepers
func (w *world) seenAgreements2() []agrT {
	res := []agrT{}
	for _, d := range w.denoms {
		a, found := w.App.PoolManagerKeeper.GetTakerFeeShareAgreementFromDenomUNSAFE(d)
		if found {
			res = append(res, agrT{D: w.name[d], Pct: a.SkimPercent, Addr: w.addrName(a.SkimAddress)})
		}
	}
	sort.Slice(res, func(i, j int) bool { return res[i].D < res[j].D })
	return res
}

type partT struct {
	A    string
	Pct  osmomath.Dec
	Addr string
}
type alloyT struct {
	L     string
	Parts []partT
}

// what swaps see for the alloyed denominations of the universe (other = FALSE: swaps entering through
// x/poolmanager, TRUE: through another module)
func (w *world) seenAlloys(other bool) []alloyT {
	w.QueryHelper.Ctx = w.Ctx
	qc := queryproto.NewQueryClient(w.QueryHelper)
	res := []alloyT{}
	for _, al := range w.alloys {
		var st pmtypes.AlloyContractTakerFeeShareState
		if other {
			x, found := w.App.PoolManagerKeeper.GetRegisteredAlloyedPoolFromDenomUNSAFE(al.Denom)
			if !found {
				continue
			}
			st = x
		} else {
			r, err := qc.RegisteredAlloyedPoolFromDenom(w.Ctx, &queryproto.RegisteredAlloyedPoolFromDenomRequest{Denom: al.Denom})
			if err != nil {
				if strings.Contains(err.Error(), "not found") {
					continue
				}
				panic(err)
			}
			st = r.ContractState
		}
		x := alloyT{L: w.name[al.Denom], Parts: []partT{}}
		for _, p := range st.TakerFeeShareAgreements {
			x.Parts = append(x.Parts, partT{A: w.name[p.Denom], Pct: p.SkimPercent, Addr: w.addrName(p.SkimAddress)})
		}
		res = append(res, x)
	}
	return res
}

// the alloyed pools registered in the store (contract addresses)
func (w *world) storedAlloys() map[string]bool {
	all, err := w.App.PoolManagerKeeper.GetAllRegisteredAlloyedPools(w.Ctx)
	if err != nil {
		panic(err)
	}
	res := map[string]bool{}
	for _, a := range all {
		res[a.ContractAddress] = true
	}
	return res
}

type accrT struct {
	A, D string
	X    osmomath.Int
}

func (w *world) accumulators() []accrT {
	all, err := w.App.PoolManagerKeeper.GetAllTakerFeeShareAccumulators(w.Ctx)
	if err != nil {
		panic(err)
	}
	res := []accrT{}
	for _, a := range all {
		an, ok := w.name[a.Denom]
		if !ok {
			panic("accumulator outside the universe: " + a.Denom)
		}
		for _, c := range a.SkimmedTakerFees {
			dn, ok := w.name[c.Denom]
			if !ok {
				panic("accumulated coin outside the universe: " + c.Denom)
			}
			if !c.Amount.IsZero() {
				res = append(res, accrT{A: an, D: dn, X: c.Amount})
			}
		}
	}
	sort.Slice(res, func(i, j int) bool { return res[i].A+"|"+res[i].D < res[j].A+"|"+res[j].D })
	return res
}

func (w *world) trackers() map[string]map[string]osmomath.Int {
	pm := w.App.PoolManagerKeeper
	res := map[string]map[string]osmomath.Int{"st": {}, "cp": {}, "burn": {}}
	for _, d := range w.denoms {
		for k := range res {
			res[k][w.name[d]] = osmomath.ZeroInt()
		}
	}
	put := func(k string, cs []sdk.Coin) {
		for _, c := range cs {
			n, ok := w.name[c.Denom]
			if !ok {
				panic("tracker entry outside the universe: " + c.Denom)
			}
			res[k][n] = c.Amount
		}
	}
	put("st", pm.GetTakerFeeTrackerForStakers(w.Ctx))
	put("cp", pm.GetTakerFeeTrackerForCommunityPool(w.Ctx))
	put("burn", pm.GetTakerFeeTrackerForBurn(w.Ctx))
	return res
}

type distT struct{ St, Cp, Burn osmomath.Dec }
type confT struct {
	Osmo, Non distT
	Wl        []string
	Cpt       string
	Smooth    uint64
	Inter     []string
	Links     [][2]string
	Blocked   []string
}

// the configuration as the chain holds it (names)
func (w *world) config() confT {
	p := w.App.PoolManagerKeeper.GetParams(w.Ctx).TakerFeeParams
	c := confT{
		Osmo:   distT{p.OsmoTakerFeeDistribution.StakingRewards, p.OsmoTakerFeeDistribution.CommunityPool, p.OsmoTakerFeeDistribution.Burn},
		Non:    distT{p.NonOsmoTakerFeeDistribution.StakingRewards, p.NonOsmoTakerFeeDistribution.CommunityPool, p.NonOsmoTakerFeeDistribution.Burn},
		Wl:     []string{},
		Smooth: p.DailyStakingRewardsSmoothingFactor,
		Inter:  []string{},
		Links:  [][2]string{},
	}
	for _, d := range p.CommunityPoolDenomWhitelist {
		if n, ok := w.name[d]; ok {
			c.Wl = append(c.Wl, n)
		}
	}
	n, ok := w.name[p.CommunityPoolDenomToSwapNonWhitelistedAssetsTo]
	if !ok {
		panic("community pool denomination outside the universe")
	}
	c.Cpt = n
	for _, d := range w.App.TxFeesKeeper.GetParams(w.Ctx).FeeSwapIntermediaryDenomList {
		n, ok := w.name[d]
		if !ok {
			panic("intermediary outside the universe")
		}
		c.Inter = append(c.Inter, n)
	}
	for i, a := range w.denoms {
		for _, b := range w.denoms[i+1:] {
			if _, err := w.App.ProtoRevKeeper.GetPoolForDenomPairNoOrder(w.Ctx, a, b); err == nil {
				c.Links = append(c.Links, [2]string{w.name[a], w.name[b]})
			}
		}
	}
	c.Blocked = []string{}
	for _, s := range w.skims {
		if w.App.BankKeeper.BlockedAddr(w.skim[s]) {
			c.Blocked = append(c.Blocked, s)
		}
	}
	return c
}

// the names of the denominations, in the order of the real denominations (the order of coins in sdk.Coins)
func (w *world) names() []string {
	ds := append([]string{}, w.denoms...)
	sort.Strings(ds)
	res := make([]string, len(ds))
	for i, d := range ds {
		res[i] = w.name[d]
	}
	return res
}

// the agreement denominations that have accumulators, in the order the epoch end will visit them
func (w *world) skimOrder() []string {
	all, err := w.App.PoolManagerKeeper.GetAllTakerFeeShareAccumulators(w.Ctx)
	if err != nil {
		panic(err)
	}
	res := []string{}
	for _, a := range all {
		res = append(res, w.nameOr(a.Denom))
	}
	return res
}

// clearLinks removes every protorev link between denominations of the universe.
func (w *world) clearLinks() {
	for _, d := range w.denoms {
		w.App.ProtoRevKeeper.DeleteAllPoolsForBaseDenom(w.Ctx, d)
	}
}

func (w *world) setAgreementMsg(d string, pct osmomath.Dec, addr string) *pmtypes.MsgSetTakerFeeShareAgreementForDenom {
	return &pmtypes.MsgSetTakerFeeShareAgreementForDenom{Sender: w.gov.String(), Denom: d, SkimPercent: pct, SkimAddress: w.skim[addr].String()}
}

var errLater = errors.New("a later message of the same transaction fails")

// deliver runs a message like a transaction; when commit is false a later message of the same transaction
// fails, so the transaction is not committed.  Returns the handler's outcome.
func (w *world) deliver(msg sdk.Msg, commit bool) apphelp.Outcome {
	if commit {
		_, out := w.Msg(msg)
		return out
	}
	if vb, ok := msg.(interface{ ValidateBasic() error }); ok {
		if err := vb.ValidateBasic(); err != nil {
			return apphelp.Outcome{OK: false, Err: "validate-basic: " + err.Error()}
		}
	}
	h := w.App.GetBaseApp().MsgServiceRouter().Handler(msg)
	handler := apphelp.Outcome{}
	w.Try(func(ctx sdk.Context) error {
		_, err := h(ctx, msg)
		if err != nil {
			handler = apphelp.Outcome{OK: false, Err: err.Error()}
			return err
		}
		handler = apphelp.Outcome{OK: true}
		return errLater
	})
	return handler
}

type swapT struct {
	C         string
	Din, Dout string
	Ain, Aout osmomath.Int
}

// epochEnd runs the real AfterEpochEnd like the epochs module does (errors and panics are contained by the
// caller there; here they are reported) and returns the swaps the collectors made, read from the events.
func (w *world) epochEnd(ident string) (apphelp.Outcome, []swapT) {
	em := sdk.NewEventManager()
	out := w.Try(func(ctx sdk.Context) error {
		return w.App.TxFeesKeeper.AfterEpochEnd(ctx.WithEventManager(em), ident, 1)
	})
	swaps := []swapT{}
	if !out.OK {
		return out, swaps
	}
	collector := map[string]string{}
	for _, c := range []string{"nn", "cpc", "buc", "stc"} {
		collector[w.mod[c].String()] = c
	}
	var open *swapT
	for _, e := range em.Events() {
		if e.Type != "token_swapped" {
			continue
		}
		at := map[string]string{}
		for _, a := range e.Attributes {
			at[a.Key] = a.Value
		}
		c, ok := collector[at["sender"]]
		if !ok {
			c = "other:" + at["sender"]
		}
		in, err1 := sdk.ParseCoinNormalized(at["tokens_in"])
		outc, err2 := sdk.ParseCoinNormalized(at["tokens_out"])
		if err1 != nil || err2 != nil {
			panic(fmt.Sprintf("cannot parse swap event %v", at))
		}
		if open != nil && open.C == c && open.Dout == w.nameOr(in.Denom) && open.Aout.Equal(in.Amount) {
			// the next hop of the same route
			open.Dout, open.Aout = w.nameOr(outc.Denom), outc.Amount
			continue
		}
		swaps = append(swaps, swapT{C: c, Din: w.nameOr(in.Denom), Ain: in.Amount, Dout: w.nameOr(outc.Denom), Aout: outc.Amount})
		open = &swaps[len(swaps)-1]
	}
	return out, swaps
}

// beginBlock runs the BeginBlock of the poolmanager module as the module manager does in every block
func (w *world) beginBlock() {
	m, ok := w.App.ModuleManager().Modules[pmtypes.ModuleName].(appmodule.HasBeginBlocker)
	if !ok {
		panic("the poolmanager module has no begin blocker")
	}
	if err := m.BeginBlock(w.Ctx); err != nil {
		panic(err)
	}
}

func (w *world) nameOr(d string) string {
	if n, ok := w.name[d]; ok {
		return n
	}
	return "?" + d
}

func sortedStrings(m map[string]bool) []string {
	res := []string{}
	for k := range m {
		res = append(res, k)
	}
	sort.Strings(res)
	return res
}

func decStr(d osmomath.Dec) string { return strings.TrimRight(strings.TrimRight(d.String(), "0"), ".") }
