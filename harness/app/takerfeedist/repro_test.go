package takerfeedist

import (
	"fmt"
	"os"
	"testing"

	sdk "github.com/cosmos/cosmos-sdk/types"

	"github.com/osmosis-labs/osmosis/osmomath"
	gammtypes "github.com/osmosis-labs/osmosis/v31/x/gamm/types"
	pmtypes "github.com/osmosis-labs/osmosis/v31/x/poolmanager/types"
)

// TestRepro replays, one by one on fresh apps, the minimal scenarios of docs/findings_x06.json and prints what
// the current tree does (VERIF_REPRO=1 bin/... -test.run TestRepro -test.v).  It asserts nothing: the check
// itself is bin/check X06.
func TestRepro(t *testing.T) {
	if os.Getenv("VERIF_REPRO") == "" {
		t.Skip("VERIF_REPRO not set")
	}
	dec := osmomath.MustNewDecFromStr
	dist := func(s, c, b string) pmtypes.TakerFeeDistributionPercentage {
		return pmtypes.TakerFeeDistributionPercentage{StakingRewards: dec(s), CommunityPool: dec(c), Burn: dec(b)}
	}
	fresh := func() (*world, uint64, uint64, uint64) {
		w := newWorld(t, 1, []string{"tka", "tkab", "tkc"}, []string{"stake", "tka", "tkab", "tkc"}, []string{"s1", "s2", "blk"}, map[string]bool{"blk": true})
		w.fundUsers(1_000_000_000_000)
		r := osmomath.NewInt(1_000_000_000_000)
		p1 := w.createPool(w.base, "tka", r, r, "0")
		p2 := w.createPool("tka", "tkab", r, r, "0")
		p3 := w.createPool(w.base, "tkc", r, r, "0")
		for _, pl := range w.pools {
			w.App.ProtoRevKeeper.SetPoolForDenomPair(w.Ctx, pl.A, pl.B, pl.ID)
		}
		p := w.App.PoolManagerKeeper.GetParams(w.Ctx)
		p.TakerFeeParams.DefaultTakerFee = dec("0.01")
		p.TakerFeeParams.OsmoTakerFeeDistribution = dist("0.5", "0.3", "0.2")
		p.TakerFeeParams.NonOsmoTakerFeeDistribution = dist("0.3", "0", "0.7")
		p.TakerFeeParams.CommunityPoolDenomWhitelist = []string{}
		p.TakerFeeParams.CommunityPoolDenomToSwapNonWhitelistedAssetsTo = "tka"
		w.App.PoolManagerKeeper.SetParams(w.Ctx, p)
		return w, p1, p2, p3
	}
	swap := func(w *world, in sdk.Coin, hops ...pmtypes.SwapAmountInRoute) {
		_, out := w.Msg(&pmtypes.MsgSwapExactAmountIn{Sender: w.users[0].String(), Routes: hops, TokenIn: in, TokenOutMinAmount: osmomath.NewInt(1)})
		if !out.OK {
			fmt.Println("   swap failed:", out.Err)
		}
	}
	show := func(w *world, title string, accts ...string) {
		led, _ := w.ledgers()
		fmt.Print("   ", title, ":")
		for _, a := range accts {
			m := map[string]string{}
			for d, x := range led[a] {
				if !x.IsZero() {
					m[d] = x.String()
				}
			}
			fmt.Print(" ", a, "=", m)
		}
		fmt.Println(" accumulators =", w.accumulators())
	}

	fmt.Println("1/2. E7 - base coins stranded in the stakers and burn collectors")
	{
		w, p1, _, _ := fresh()
		swap(w, sdk.NewInt64Coin(w.base, 900), pmtypes.SwapAmountInRoute{PoolId: p1, TokenOutDenom: "tka"}) // fee 9 stake
		show(w, "before", "tc")
		w.epochEnd("day")
		show(w, "after one epoch end (9 stake: 4 to the buffer, 2 community pool, 1 burnt, 2 left over -> 1 burn collector, 1 stakers collector)", "tc", "stc", "buc", "buf", "fc", "cp", "null")
		w.epochEnd("day")
		show(w, "after another", "stc", "buc")
	}
	fmt.Println("3. E7 - the community pool's own denomination, not whitelisted, stays in the community-pool collector")
	{
		w, p1, _, _ := fresh()
		p := w.App.PoolManagerKeeper.GetParams(w.Ctx)
		p.TakerFeeParams.NonOsmoTakerFeeDistribution = dist("0.67", "0.33", "0")
		w.App.PoolManagerKeeper.SetParams(w.Ctx, p)
		swap(w, sdk.NewInt64Coin("tka", 100_000), pmtypes.SwapAmountInRoute{PoolId: p1, TokenOutDenom: w.base}) // fee 1000 tka
		w.epochEnd("day")
		show(w, "after the epoch end", "tc", "cpc", "cp")
		w.epochEnd("day")
		show(w, "after another", "cpc", "cp")
	}
	fmt.Println("4. S6 - a failed transaction leaves its agreement visible to swaps")
	{
		w, p1, _, _ := fresh()
		o := w.deliver(w.setAgreementMsg(w.base, dec("0.5"), "s1"), false)
		fmt.Println("   handler ok:", o.OK, "(the transaction fails afterwards); stored:", w.storedAgreements(), "seen by swaps:", w.seenAgreements())
		swap(w, sdk.NewInt64Coin(w.base, 100_000), pmtypes.SwapAmountInRoute{PoolId: p1, TokenOutDenom: "tka"})
		show(w, "after a swap", "tc")
		w.epochEnd("day")
		show(w, "after the epoch end (never paid, never cleared)", "tc", "s1")
	}
	fmt.Println("5. S6 - swaps entering through x/gamm do not see an agreement set after the first BeginBlock")
	{
		w, p1, _, _ := fresh()
		w.beginBlock()
		o := w.deliver(w.setAgreementMsg(w.base, dec("0.1"), "s1"), true)
		fmt.Println("   agreement committed:", o.OK, "stored:", w.storedAgreements(), "seen through x/poolmanager:", w.seenAgreements(), "seen through other modules:", w.seenAgreements2())
		swap(w, sdk.NewInt64Coin(w.base, 100_000), pmtypes.SwapAmountInRoute{PoolId: p1, TokenOutDenom: "tka"})
		show(w, "after MsgSwapExactAmountIn of x/poolmanager (fee 1000)", "tc")
		_, out := w.Msg(&gammtypes.MsgSwapExactAmountIn{Sender: w.users[0].String(), Routes: []pmtypes.SwapAmountInRoute{{PoolId: p1, TokenOutDenom: "tka"}}, TokenIn: sdk.NewInt64Coin(w.base, 100_000), TokenOutMinAmount: osmomath.NewInt(1)})
		fmt.Println("   gamm swap ok:", out.OK)
		show(w, "after MsgSwapExactAmountIn of x/gamm (fee 1000, nothing noted)", "tc")
	}
	fmt.Println("6. E3 - accumulators of tkab are deleted when those of tka are cleared")
	{
		w, _, p2, _ := fresh()
		w.deliver(w.setAgreementMsg("tka", dec("0.1"), "s1"), true)
		w.deliver(w.setAgreementMsg("tkab", dec("0.2"), "blk"), true) // an address that cannot receive
		swap(w, sdk.NewInt64Coin("tka", 100_000), pmtypes.SwapAmountInRoute{PoolId: p2, TokenOutDenom: "tkab"})
		show(w, "before", "tc")
		fmt.Println("   visiting order:", w.skimOrder())
		w.epochEnd("day")
		show(w, "after the epoch end (tkab was not paid, its accumulator is gone)", "tc", "s1", "blk")
	}
	fmt.Println("7. E1/E3 - a payout the collector cannot fully cover destroys the coins it could cover")
	{
		w, p1, p2, p3 := fresh()
		w.deliver(w.setAgreementMsg("tka", dec("0.1"), "blk"), true)
		swap(w, sdk.NewInt64Coin(w.base, 1_000_000), pmtypes.SwapAmountInRoute{PoolId: p1, TokenOutDenom: "tka"}, pmtypes.SwapAmountInRoute{PoolId: p2, TokenOutDenom: "tkab"})
		show(w, "noted for tka (address cannot receive)", "tc")
		w.epochEnd("day")
		show(w, "after the first epoch end (withheld, the collector was distributed)", "tc", "blk")
		w.deliver(w.setAgreementMsg("tka", dec("0.1"), "s1"), true) // governance repairs the address
		swap(w, sdk.NewInt64Coin(w.base, 1_000_000), pmtypes.SwapAmountInRoute{PoolId: p3, TokenOutDenom: "tkc"})
		show(w, "before the second epoch end (stake is covered, tka is not)", "tc", "void")
		_, s0 := w.ledgers()
		w.epochEnd("day")
		_, s1 := w.ledgers()
		show(w, "after the second epoch end", "tc", "s1", "void")
		fmt.Println("   supply of stake before / after:", s0["stake"], s1["stake"], "- coins held by nobody:", func() string { l, _ := w.ledgers(); return l["void"]["stake"].String() }())
	}
	fmt.Println("8. S3 - registering alloyed pool 1 deletes the store entry of alloyed pool 10")
	{
		w := newWorld(t, 1, []string{"tka", "tkab", "tkc"}, []string{"stake", "tka", "tkab", "tkc"}, []string{"s1"}, nil)
		a1 := w.newAlloy("all1", []string{"tka", "tkc"}, []uint16{1, 1})
		r := osmomath.NewInt(1_000_000_000)
		for len(w.pools) < 8 {
			w.createPool("tka", "tkc", r, r, "0")
		}
		a2 := w.newAlloy("all2", []string{"tkab", "tkc"}, []uint16{1, 1})
		fmt.Println("   alloyed pool ids:", a1.PoolID, a2.PoolID)
		w.registerAlloy(a2)
		fmt.Println("   registered in the store after registering pool", a2.PoolID, ":", len(w.storedAlloys()))
		w.registerAlloy(a1)
		fmt.Println("   registered in the store after registering pool", a1.PoolID, ":", len(w.storedAlloys()), "- swaps still know:", len(w.seenAlloys(false)))
	}
}
