package takerfeedist

import (
	"fmt"
	"math/rand"
	"os"
	"testing"
	"time"

	sdk "github.com/cosmos/cosmos-sdk/types"

	"github.com/osmosis-labs/osmosis/osmomath"
	gammtypes "github.com/osmosis-labs/osmosis/v31/x/gamm/types"
	pmtypes "github.com/osmosis-labs/osmosis/v31/x/poolmanager/types"
	txfeestypes "github.com/osmosis-labs/osmosis/v31/x/txfees/types"

	"verif/harness/apphelp"
	"verif/harness/tracelog"
)

// ---------------------------------------------------------------------------
// wire format of the recorded state (BigNum amounts; percentages and shares raw, scaled by 10^18)

type big = tracelog.Big

func bi(x osmomath.Int) big { return apphelp.BigI(x) }
func bd(x osmomath.Dec) big { return apphelp.BigD(x) }

type wDist struct {
	St   big `json:"st"`
	Cp   big `json:"cp"`
	Burn big `json:"burn"`
}
type wConf struct {
	ID      int         `json:"id"`
	Denoms  []string    `json:"denoms"`
	Base    string      `json:"base"`
	Addrs   []string    `json:"addrs"`
	Blocked []string    `json:"blocked"`
	Osmo    wDist       `json:"osmo"`
	Non     wDist       `json:"non"`
	Wl      []string    `json:"wl"`
	Cpt     string      `json:"cpt"`
	Smooth  big         `json:"smooth"`
	Inter   []string    `json:"inter"`
	Links   [][2]string `json:"links"`
}
type wAgr struct {
	D    string `json:"d"`
	Pct  big    `json:"pct"`
	Addr string `json:"addr"`
}
type wPart struct {
	A    string `json:"a"`
	Pct  big    `json:"pct"`
	Addr string `json:"addr"`
}
type wAlloy struct {
	L     string  `json:"l"`
	Parts []wPart `json:"parts"`
}
type wAccr struct {
	A string `json:"a"`
	D string `json:"d"`
	X big    `json:"x"`
}
type wState struct {
	Cf     wConf                     `json:"cf"`
	Agr    []wAgr                    `json:"agr"`
	Seen   []wAgr                    `json:"seen"`
	Seen2  []wAgr                    `json:"seen2"`
	Alloy  []wAlloy                  `json:"alloy"`
	Alloy2 []wAlloy                  `json:"alloy2"`
	Bal    map[string]map[string]big `json:"bal"`
	Accr   []wAccr                   `json:"accr"`
	Trk    map[string]map[string]big `json:"trk"`
	Supply map[string]big            `json:"supply"`
}

func wd(d distT) wDist { return wDist{St: bd(d.St), Cp: bd(d.Cp), Burn: bd(d.Burn)} }

func wAgrs(xs []agrT) []wAgr {
	res := []wAgr{}
	for _, a := range xs {
		res = append(res, wAgr{D: a.D, Pct: bd(a.Pct), Addr: a.Addr})
	}
	return res
}

func wAlloys(xs []alloyT) []wAlloy {
	res := []wAlloy{}
	for _, al := range xs {
		x := wAlloy{L: al.L, Parts: []wPart{}}
		for _, p := range al.Parts {
			x.Parts = append(x.Parts, wPart{A: p.A, Pct: bd(p.Pct), Addr: p.Addr})
		}
		res = append(res, x)
	}
	return res
}

func (w *world) wire() wState {
	c := w.config()
	led, supply := w.ledgers()
	st := wState{
		Cf: wConf{ID: w.id, Denoms: w.names(), Base: w.name[w.base], Addrs: w.skims, Blocked: c.Blocked, Osmo: wd(c.Osmo), Non: wd(c.Non),
			Wl: c.Wl, Cpt: c.Cpt, Smooth: tracelog.EncInt64(int64(c.Smooth)), Inter: c.Inter, Links: c.Links},
		Agr: wAgrs(w.storedAgreements()), Seen: wAgrs(w.seenAgreements()), Seen2: wAgrs(w.seenAgreements2()), Alloy: wAlloys(w.seenAlloys(false)), Alloy2: wAlloys(w.seenAlloys(true)),
		Bal: map[string]map[string]big{}, Accr: []wAccr{}, Trk: map[string]map[string]big{}, Supply: map[string]big{},
	}
	for a, m := range led {
		st.Bal[a] = map[string]big{}
		for d, x := range m {
			st.Bal[a][d] = bi(x)
		}
	}
	for _, a := range w.accumulators() {
		st.Accr = append(st.Accr, wAccr{A: a.A, D: a.D, X: bi(a.X)})
	}
	for k, m := range w.trackers() {
		st.Trk[k] = map[string]big{}
		for d, x := range m {
			st.Trk[k][d] = bi(x)
		}
	}
	for d, x := range supply {
		st.Supply[d] = bi(x)
	}
	return st
}

// the getters, asked after every call
type qAccr struct {
	A     string `json:"a"`
	D     string `json:"d"`
	Found bool   `json:"found"`
	X     big    `json:"x"`
}
type qTrk struct {
	D    string `json:"d"`
	St   big    `json:"st"`
	Cp   big    `json:"cp"`
	Burn big    `json:"burn"`
}
type qAgr struct {
	D     string `json:"d"`
	Found bool   `json:"found"`
	Pct   big    `json:"pct"`
	Addr  string `json:"addr"`
}
type wQueries struct {
	Accr []qAccr `json:"accr"`
	Trk  []qTrk  `json:"trk"`
	Agr  []qAgr  `json:"agr"`
}

func (w *world) queries(rng *rand.Rand) wQueries {
	pm := w.App.PoolManagerKeeper
	q := wQueries{Accr: []qAccr{}, Trk: []qTrk{}, Agr: []qAgr{}}
	for i := 0; i < 4; i++ {
		a, d := w.denoms[rng.Intn(len(w.denoms))], w.denoms[rng.Intn(len(w.denoms))]
		x, err := pm.GetTakerFeeShareDenomsToAccruedValue(w.Ctx, a, d)
		e := qAccr{A: w.name[a], D: w.name[d], Found: err == nil, X: tracelog.EncInt64(0)}
		if err == nil {
			e.X = bi(x)
		}
		q.Accr = append(q.Accr, e)
	}
	for _, d := range w.denoms {
		s, e1 := pm.GetTakerFeeTrackerForStakersByDenom(w.Ctx, d)
		c, e2 := pm.GetTakerFeeTrackerForCommunityPoolByDenom(w.Ctx, d)
		b, e3 := pm.GetTakerFeeTrackerForBurnByDenom(w.Ctx, d)
		if e1 != nil || e2 != nil || e3 != nil {
			panic("tracker getter failed")
		}
		q.Trk = append(q.Trk, qTrk{D: w.name[d], St: bi(s.Amount), Cp: bi(c.Amount), Burn: bi(b.Amount)})
		a, found := pm.GetTakerFeeShareAgreementFromDenomNoCache(w.Ctx, d)
		e := qAgr{D: w.name[d], Found: found, Pct: tracelog.EncInt64(0)}
		if found {
			e.Pct, e.Addr = bd(a.SkimPercent), w.addrName(a.SkimAddress)
		}
		q.Agr = append(q.Agr, e)
	}
	return q
}

// ---------------------------------------------------------------------------
// the random driver

var (
	pcts      = []string{"0", "0.05", "0.1", "0.25", "0.5", "0.6", "1", "0.333333333333333333", "0.000000000000000001"}
	takerFees = []string{"0", "0.0005", "0.001", "0.01", "0.05", "0.1", "0.003333"}
	dists     = [][3]string{{"1", "0", "0"}, {"0.67", "0.33", "0"}, {"0.3", "0", "0.7"}, {"0.5", "0.3", "0.2"}, {"0", "1", "0"}, {"0", "0", "1"},
		{"0.333333333333333334", "0.333333333333333333", "0.333333333333333333"}, {"0.2", "0.4", "0.4"}, {"0.999999999999999999", "0.000000000000000001", "0"}}
	idents = []string{"day", "day", "week", "hour"}
)

type recorder struct {
	*world
	rng *rand.Rand
	tw  *tracelog.Writer
}

func pow10(k int) osmomath.Int {
	x := osmomath.NewInt(1)
	for i := 0; i < k; i++ {
		x = x.MulRaw(10)
	}
	return x
}

// a positive amount, log-uniform up to 10^maxExp
func (r *recorder) amount(maxExp int) osmomath.Int {
	k := r.rng.Intn(maxExp + 1)
	x := pow10(k).MulRaw(int64(1 + r.rng.Intn(9)))
	if r.rng.Intn(2) == 0 {
		x = x.AddRaw(int64(r.rng.Intn(1000)))
	}
	return x
}

func (r *recorder) dist() pmtypes.TakerFeeDistributionPercentage {
	d := dists[r.rng.Intn(len(dists))]
	return pmtypes.TakerFeeDistributionPercentage{StakingRewards: osmomath.MustNewDecFromStr(d[0]), CommunityPool: osmomath.MustNewDecFromStr(d[1]), Burn: osmomath.MustNewDecFromStr(d[2])}
}

func (r *recorder) subset(xs []string, p int) []string {
	res := []string{}
	for _, x := range xs {
		if r.rng.Intn(100) < p {
			res = append(res, x)
		}
	}
	return res
}

// reconfigure changes a random part of the configuration (all of it when all is set)
func (r *recorder) reconfigure(all bool) {
	w := r.world
	pm := w.App.PoolManagerKeeper
	p := pm.GetParams(w.Ctx)
	pick := func(pr int) bool { return all || r.rng.Intn(100) < pr }
	if pick(30) {
		p.TakerFeeParams.OsmoTakerFeeDistribution = r.dist()
	}
	if pick(30) {
		p.TakerFeeParams.NonOsmoTakerFeeDistribution = r.dist()
	}
	if pick(25) {
		p.TakerFeeParams.CommunityPoolDenomWhitelist = r.subset(w.denoms, 35)
	}
	if pick(20) {
		cands := []string{w.base, "tka", "tkc", "tka"}
		p.TakerFeeParams.CommunityPoolDenomToSwapNonWhitelistedAssetsTo = cands[r.rng.Intn(len(cands))]
	}
	if pick(20) {
		p.TakerFeeParams.DailyStakingRewardsSmoothingFactor = []uint64{1, 1, 2, 7, 30}[r.rng.Intn(5)]
	}
	if pick(20) {
		p.TakerFeeParams.DefaultTakerFee = osmomath.MustNewDecFromStr(takerFees[r.rng.Intn(len(takerFees))])
	}
	if err := p.Validate(); err != nil {
		panic(err)
	}
	pm.SetParams(w.Ctx, p)
	if pick(15) {
		a, b := w.denoms[r.rng.Intn(len(w.denoms))], w.denoms[r.rng.Intn(len(w.denoms))]
		pm.SetDenomPairTakerFee(w.Ctx, a, b, osmomath.MustNewDecFromStr(takerFees[r.rng.Intn(len(takerFees))]))
	}
	if pick(25) {
		inter := r.subset([]string{"tka", "tkc", w.base, "tkab"}, 45)
		r.rng.Shuffle(len(inter), func(i, j int) { inter[i], inter[j] = inter[j], inter[i] })
		tp := w.App.TxFeesKeeper.GetParams(w.Ctx)
		tp.FeeSwapIntermediaryDenomList = inter
		w.App.TxFeesKeeper.SetParams(w.Ctx, tp)
	}
	if pick(30) {
		// protorev links: a random subset of the pools, sometimes a link that points to a pool without the pair
		w.clearLinks()
		for _, pl := range w.pools {
			if r.rng.Intn(100) < 65 {
				if r.rng.Intn(2) == 0 {
					w.App.ProtoRevKeeper.SetPoolForDenomPair(w.Ctx, pl.A, pl.B, pl.ID)
				} else {
					w.App.ProtoRevKeeper.SetPoolForDenomPair(w.Ctx, pl.B, pl.A, pl.ID)
				}
			}
		}
		if r.rng.Intn(100) < 35 {
			a, b := w.denoms[r.rng.Intn(len(w.denoms))], w.denoms[r.rng.Intn(len(w.denoms))]
			if a != b {
				w.App.ProtoRevKeeper.SetPoolForDenomPair(w.Ctx, a, b, w.pools[r.rng.Intn(len(w.pools))].ID)
			}
		}
	}
}

func (r *recorder) emit(ev map[string]any) {
	ev["st"] = r.wire()
	ev["q"] = r.queries(r.rng)
	r.tw.Emit(ev)
}

func coinsWire(w *world, cs map[string]osmomath.Int) map[string]big {
	res := map[string]big{}
	for _, d := range w.denoms {
		x, ok := cs[w.name[d]]
		if !ok {
			x = osmomath.ZeroInt()
		}
		res[w.name[d]] = bi(x)
	}
	return res
}

func (r *recorder) collector() map[string]osmomath.Int {
	res := map[string]osmomath.Int{}
	for _, d := range r.denoms {
		res[r.name[d]] = r.App.BankKeeper.GetBalance(r.Ctx, r.mod["tc"], d).Amount
	}
	return res
}

// a swap message along a random walk through the pools
func (r *recorder) swap() {
	w := r.world
	u := w.users[r.rng.Intn(len(w.users))]
	hops := 1 + r.rng.Intn(3)
	p := w.pools[r.rng.Intn(len(w.pools))]
	cur := p.A
	if r.rng.Intn(2) == 0 {
		cur = p.B
	}
	first := cur
	route := []string{cur}
	type hop struct {
		pool    uint64
		in, out string
	}
	path := []hop{}
	for h := 0; h < hops; h++ {
		cands := []poolInfo{}
		for _, q := range w.pools {
			if q.A == cur || q.B == cur {
				cands = append(cands, q)
			}
		}
		q := cands[r.rng.Intn(len(cands))]
		next := q.A
		if next == cur {
			next = q.B
		}
		path = append(path, hop{q.ID, cur, next})
		route = append(route, next)
		cur = next
	}
	before := r.collector()
	var out apphelp.Outcome
	kind := "in"
	// the swap messages of x/poolmanager, or the (older) ones of x/gamm that route through the poolmanager keeper
	via := "pm"
	if r.rng.Intn(100) < 30 {
		via = "gamm"
	}
	if r.rng.Intn(100) < 70 {
		rs := []pmtypes.SwapAmountInRoute{}
		for _, h := range path {
			rs = append(rs, pmtypes.SwapAmountInRoute{PoolId: h.pool, TokenOutDenom: h.out})
		}
		in := sdk.NewCoin(first, r.amount(10))
		if via == "pm" {
			_, out = w.Msg(&pmtypes.MsgSwapExactAmountIn{Sender: u.String(), Routes: rs, TokenIn: in, TokenOutMinAmount: osmomath.NewInt(1)})
		} else {
			_, out = w.Msg(&gammtypes.MsgSwapExactAmountIn{Sender: u.String(), Routes: rs, TokenIn: in, TokenOutMinAmount: osmomath.NewInt(1)})
		}
	} else {
		kind = "out"
		rs := []pmtypes.SwapAmountOutRoute{}
		for _, h := range path {
			rs = append(rs, pmtypes.SwapAmountOutRoute{PoolId: h.pool, TokenInDenom: h.in})
		}
		tout := sdk.NewCoin(cur, r.amount(8))
		if via == "pm" {
			_, out = w.Msg(&pmtypes.MsgSwapExactAmountOut{Sender: u.String(), Routes: rs, TokenOut: tout, TokenInMaxAmount: pow10(14)})
		} else {
			_, out = w.Msg(&gammtypes.MsgSwapExactAmountOut{Sender: u.String(), Routes: rs, TokenOut: tout, TokenInMaxAmount: pow10(14)})
		}
	}
	after := r.collector()
	fee := map[string]osmomath.Int{}
	for n, x := range after {
		fee[n] = x.Sub(before[n])
	}
	names := []string{}
	seen := map[string]bool{}
	for _, d := range route {
		if !seen[d] {
			seen[d] = true
			names = append(names, w.name[d])
		}
	}
	r.emit(map[string]any{"e": "swap", "route": names, "kind": kind, "via": via, "hops": len(path), "ok": out.OK, "err": short(out.Err), "fee": coinsWire(w, fee)})
}

func short(s string) string {
	if len(s) > 160 {
		return s[:160]
	}
	return s
}

func (r *recorder) agreement() {
	w := r.world
	cands := []string{"tka", "tkab", "tkc", w.base, "tkd", "tka", "tkab"}
	d := cands[r.rng.Intn(len(cands))]
	pct := osmomath.MustNewDecFromStr(pcts[r.rng.Intn(len(pcts))])
	addr := w.skims[r.rng.Intn(len(w.skims))]
	commit := r.rng.Intn(100) >= 12
	out := w.deliver(w.setAgreementMsg(d, pct, addr), commit)
	r.emit(map[string]any{"e": "agr", "d": w.name[d], "pct": bd(pct), "addr": addr, "ok": out.OK, "commit": commit, "err": short(out.Err), "liq": w.liquidities(), "gone": w.alloysGone()})
}

func (r *recorder) deposit() {
	w := r.world
	acct := "nn"
	if r.rng.Intn(100) < 25 {
		acct = []string{"tc", "cpc", "stc", "buc"}[r.rng.Intn(4)]
	}
	f := map[string]osmomath.Int{}
	cs := sdk.Coins{}
	for _, d := range w.denoms {
		if r.rng.Intn(100) < 40 {
			x := r.amount(7)
			f[w.name[d]] = x
			cs = cs.Add(sdk.NewCoin(d, x))
		}
	}
	if cs.Empty() {
		x := r.amount(5)
		f[w.name["tka"]] = x
		cs = cs.Add(sdk.NewCoin("tka", x))
	}
	if err := w.App.BankKeeper.SendCoinsFromAccountToModule(w.Ctx, w.users[0], moduleOf[acct], cs); err != nil {
		panic(err)
	}
	r.emit(map[string]any{"e": "dep", "acct": acct, "f": coinsWire(w, f)})
}

func (r *recorder) epoch() {
	w := r.world
	ident := idents[r.rng.Intn(len(idents))]
	order := w.skimOrder()
	out, swaps := w.epochEnd(ident)
	ws := []map[string]any{}
	for _, s := range swaps {
		ws = append(ws, map[string]any{"c": s.C, "din": s.Din, "ain": bi(s.Ain), "dout": s.Dout, "aout": bi(s.Aout)})
	}
	r.emit(map[string]any{"e": "epoch", "ident": ident, "ok": out.OK, "err": short(out.Err), "swaps": ws, "order": order})
}

func (r *recorder) block() {
	w := r.world
	w.AdvanceTime(5 * time.Second)
	w.beginBlock()
	r.emit(map[string]any{"e": "block"})
}

// alloyStep: register an alloyed pool (the one with the larger id first), shift the liquidity of one, or
// reach the end of a 700th block where the compositions are recalculated
func (r *recorder) alloyStep() {
	w := r.world
	before := w.storedAlloys()
	known := map[string]bool{}
	for _, a := range w.seenAlloys(false) {
		known[a.L] = true
	}
	var todo *alloyInfo
	for i := len(w.alloys) - 1; i >= 0; i-- {
		if !known[w.name[w.alloys[i].Denom]] {
			todo = &w.alloys[i]
			break
		}
	}
	lostPools := func() []uint64 {
		now := w.storedAlloys()
		res := []uint64{}
		for a := range before {
			if !now[a] {
				for _, al := range w.alloys {
					if al.Addr.String() == a {
						res = append(res, al.PoolID)
					}
				}
			}
		}
		return res
	}
	lost := func() bool { return len(lostPools()) > 0 }
	switch k := r.rng.Intn(100); {
	case todo != nil && k < 60:
		errs, ok := w.registerAlloy(*todo)
		liq := []liqT{}
		if ok {
			liq = append(liq, w.liquidity(*todo))
		}
		r.emit(map[string]any{"e": "alloy", "why": "register", "l": w.name[todo.Denom], "pool": todo.PoolID, "ok": ok, "err": short(errs), "liq": liq, "storeLost": lost(), "lostPools": lostPools(), "gone": w.alloysGone()})
	case k < 80:
		// liquidity joins one side of a pool: nothing the specification sees changes until a recalculation
		al := w.alloys[r.rng.Intn(len(w.alloys))]
		d := al.Assets[r.rng.Intn(len(al.Assets))]
		cs := sdk.NewCoins(sdk.NewCoin(d, r.amount(10)))
		w.FundAcc(w.TestAccs[0], cs)
		w.JoinTransmuterPool(w.TestAccs[0], al.PoolID, cs)
		led, _ := w.ledgers()
		_ = led
		r.emit(map[string]any{"e": "mint", "why": "join alloyed pool"})
	default:
		w.endBlock700()
		liq := []liqT{}
		stored := w.storedAlloys()
		for _, al := range w.alloys {
			if stored[al.Addr.String()] {
				liq = append(liq, w.liquidity(al))
			}
		}
		r.emit(map[string]any{"e": "alloy", "why": "recalc", "ok": true, "liq": liq, "storeLost": lost(), "lostPools": lostPools(), "gone": w.alloysGone()})
	}
}

func TestRecord(t *testing.T) {
	out := os.Getenv("VERIF_OUT")
	if out == "" {
		t.Skip("VERIF_OUT not set")
	}
	seed := tracelog.EnvInt("VERIF_SEED", 1)
	nh := int(tracelog.EnvInt("VERIF_HISTORIES", 8))
	ns := int(tracelog.EnvInt("VERIF_STEPS", 60))
	rng := rand.New(rand.NewSource(seed))
	tw, err := tracelog.NewWriter(out)
	if err != nil {
		t.Fatal(err)
	}
	for h := 0; h < nh; h++ {
		// "tkab" extends "tka": the store keys of the two agreements share a prefix
		w := newWorld(t, h+1, []string{"tka", "tkab", "tkc", "tkd"}, []string{"stake", "tka", "tkab", "tkc", "tkd"},
			[]string{"s1", "s2", "s3", "blk"}, map[string]bool{"blk": true})
		r := &recorder{world: w, rng: rng, tw: tw}
		// alloyed (transmuter) pools: none, one, or two whose pool ids are 1 and 1x
		nalloy := []int{0, 0, 1, 1, 2}[rng.Intn(5)]
		if nalloy >= 1 {
			w.newAlloy("all1", [][]string{{"tka", "tkc"}, {"tka", "tkab"}}[rng.Intn(2)], []uint16{uint16(1 + rng.Intn(4)), uint16(1 + rng.Intn(4))})
		}
		w.fundUsers(1_000_000_000_000_000)
		res := func() osmomath.Int { return pow10(6 + rng.Intn(8)).MulRaw(int64(1 + rng.Intn(9))) }
		fees := []string{"0", "0.003", "0.01"}
		for _, pr := range [][2]string{{w.base, "tka"}, {"tka", "tkab"}, {w.base, "tkc"}, {"tkc", "tkab"}, {"tka", "tkc"}} {
			w.createPool(pr[0], pr[1], res(), res(), fees[rng.Intn(len(fees))])
		}
		for _, al := range w.alloys {
			// a classic pool that trades the alloyed denomination, so that routes can contain it
			w.createPool(w.base, al.Denom, res(), res(), "0")
		}
		if nalloy == 2 {
			for len(w.pools) < 8 {
				w.createPool("tka", "tkc", res(), res(), "0.003")
			}
			al := w.newAlloy("all2", []string{"tkab", "tkc"}, []uint16{uint16(1 + rng.Intn(4)), uint16(1 + rng.Intn(4))})
			if al.PoolID < 10 || al.PoolID > 19 {
				panic(fmt.Sprintf("second alloyed pool has id %d", al.PoolID))
			}
			for _, u := range w.users {
				w.FundAcc(u, sdk.NewCoins(sdk.NewInt64Coin(al.Denom, 1_000_000_000_000_000)))
			}
			w.createPool(w.base, al.Denom, res(), res(), "0")
		}
		r.reconfigure(true)
		if rng.Intn(3) == 0 {
			// some histories start with what governance typically has in place: agreements and trackers
			for _, d := range []string{"tka", "tkab"} {
				w.deliver(w.setAgreementMsg(d, osmomath.MustNewDecFromStr(pcts[1+rng.Intn(4)]), w.skims[rng.Intn(3)]), true)
			}
		}
		led, _ := w.ledgers()
		w.void0 = led["void"]
		r.emit(map[string]any{"e": "cfg", "id": w.id})
		for s := 0; s < ns; s++ {
			k := rng.Intn(100)
			if len(w.alloys) > 0 && rng.Intn(100) < 12 {
				r.alloyStep()
				continue
			}
			switch {
			case k < 45:
				r.swap()
			case k < 57:
				r.agreement()
			case k < 67:
				r.reconfigure(false)
				r.emit(map[string]any{"e": "conf"})
			case k < 75:
				r.deposit()
			case k < 79:
				r.block()
			default:
				r.epoch()
			}
		}
	}
	if err := tw.Close(); err != nil {
		t.Fatal(err)
	}
	fmt.Printf("RECORDED events=%d histories=%d\n", tw.N, nh)
	_ = txfeestypes.ModuleName
}
