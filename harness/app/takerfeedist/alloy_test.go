package takerfeedist

import (
	"encoding/json"
	"fmt"

	"cosmossdk.io/core/appmodule"
	sdk "github.com/cosmos/cosmos-sdk/types"

	"github.com/osmosis-labs/osmosis/osmomath"
	v3 "github.com/osmosis-labs/osmosis/v31/x/cosmwasmpool/cosmwasm/msg/v3"
	pmtypes "github.com/osmosis-labs/osmosis/v31/x/poolmanager/types"
)

// newAlloy creates a transmuter (alloyed asset) pool over the given denominations of the universe, in the
// given proportion, and adds its alloyed denomination to the universe under the given name.
// (The helper of the repository overwrites the bank supply of the underlying denominations: histories take
// their "void" baseline after the set-up.)
func (w *world) newAlloy(name string, assets []string, ratio []uint16) alloyInfo {
	pool := w.PrepareCustomTransmuterPoolV3CustomProject(w.TestAccs[0], assets, ratio, "verif", "../repo/x/cosmwasmpool/bytecode")
	addr := sdk.MustAccAddressFromBech32(pool.GetContractAddress())
	bz, err := w.App.WasmKeeper.QuerySmart(w.Ctx, addr, []byte(`{"get_share_denom": {}}`))
	if err != nil {
		panic(err)
	}
	var sd v3.ShareDenomResponse
	if err := json.Unmarshal(bz, &sd); err != nil {
		panic(err)
	}
	al := alloyInfo{PoolID: pool.GetId(), Denom: sd.ShareDenom, Assets: assets, Addr: addr}
	w.alloys = append(w.alloys, al)
	w.addDenom(sd.ShareDenom, name)
	return al
}

type liqAsset struct {
	D   string `json:"d"`
	Amt big    `json:"amt"`
	Nf  big    `json:"nf"`
}
type liqT struct {
	L      string     `json:"l"`
	Assets []liqAsset `json:"assets"`
}

// liquidity asks the contract what the composition is computed from: its liquidity and normalization factors
func (w *world) liquidity(al alloyInfo) liqT {
	bz, err := w.App.WasmKeeper.QuerySmart(w.Ctx, al.Addr, []byte(`{"get_total_pool_liquidity": {}}`))
	if err != nil {
		panic(err)
	}
	var tl v3.TotalPoolLiquidityResponse
	if err := json.Unmarshal(bz, &tl); err != nil {
		panic(err)
	}
	bz, err = w.App.WasmKeeper.QuerySmart(w.Ctx, al.Addr, []byte(`{"list_asset_configs": {}}`))
	if err != nil {
		panic(err)
	}
	var ac v3.ListAssetConfigsResponse
	if err := json.Unmarshal(bz, &ac); err != nil {
		panic(err)
	}
	nf := map[string]osmomath.Int{}
	for _, c := range ac.AssetConfigs {
		x, ok := osmomath.NewIntFromString(c.NormalizationFactor)
		if !ok {
			panic("normalization factor " + c.NormalizationFactor)
		}
		nf[c.Denom] = x
	}
	res := liqT{L: w.name[al.Denom], Assets: []liqAsset{}}
	for _, c := range tl.TotalPoolLiquidity {
		n, ok := w.name[c.Denom]
		if !ok {
			panic("alloyed pool asset outside the universe: " + c.Denom)
		}
		f, ok := nf[c.Denom]
		if !ok {
			panic("no normalization factor for " + c.Denom)
		}
		res.Assets = append(res.Assets, liqAsset{D: n, Amt: bi(c.Amount), Nf: bi(f)})
	}
	return res
}

// the liquidity of every alloyed pool swaps (entering through x/poolmanager) know
func (w *world) liquidities() []liqT {
	res := []liqT{}
	seen := map[string]bool{}
	for _, a := range w.seenAlloys(false) {
		seen[a.L] = true
	}
	for _, al := range w.alloys {
		if seen[w.name[al.Denom]] {
			res = append(res, w.liquidity(al))
		}
	}
	return res
}

// alloyed denominations swaps know whose registration is no longer in the store
func (w *world) alloysGone() []string {
	stored := w.storedAlloys()
	res := []string{}
	for _, a := range w.seenAlloys(false) {
		for _, al := range w.alloys {
			if w.name[al.Denom] == a.L && !stored[al.Addr.String()] {
				res = append(res, a.L)
			}
		}
	}
	return res
}

func (w *world) registerAlloy(al alloyInfo) (string, bool) {
	_, out := w.Msg(&pmtypes.MsgSetRegisteredAlloyedPool{Sender: w.gov.String(), PoolId: al.PoolID})
	return out.Err, out.OK
}

// endBlock700 runs the EndBlock of the poolmanager module at a height that is a multiple of 700 (the
// compositions of the registered alloyed pools are recalculated there)
func (w *world) endBlock700() {
	m, ok := w.App.ModuleManager().Modules[pmtypes.ModuleName].(appmodule.HasEndBlocker)
	if !ok {
		panic("the poolmanager module has no end blocker")
	}
	h := w.Ctx.BlockHeight()
	h = (h/700 + 1) * 700
	w.Ctx = w.Ctx.WithBlockHeight(h)
	if err := m.EndBlock(w.Ctx); err != nil {
		panic(fmt.Sprint("end block: ", err))
	}
}
