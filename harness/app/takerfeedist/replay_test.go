package takerfeedist

import (
	"encoding/json"
	"fmt"
	"os"
	"sort"
	"testing"

	sdk "github.com/cosmos/cosmos-sdk/types"

	"github.com/osmosis-labs/osmosis/osmomath"
	pmtypes "github.com/osmosis-labs/osmosis/v31/x/poolmanager/types"

	"verif/harness/tracelog"
)

// ---------------------------------------------------------------------------
// spec -> impl: behaviours printed by TLC (MCTakerFeeDist, INVARIANT Emit) executed on the real keepers.
// Model denominations O (base), A, B; amounts are small integers; percentages and shares are quarters.

// fmap / smap accept the `[]` TLC prints for an empty function
type fmap map[string]int64

func (m *fmap) UnmarshalJSON(bz []byte) error {
	if len(bz) > 0 && bz[0] == '[' {
		*m = fmap{}
		return nil
	}
	x := map[string]int64{}
	if err := json.Unmarshal(bz, &x); err != nil {
		return err
	}
	*m = x
	return nil
}

type ffmap map[string]fmap

func (m *ffmap) UnmarshalJSON(bz []byte) error {
	if len(bz) > 0 && bz[0] == '[' {
		*m = ffmap{}
		return nil
	}
	x := map[string]fmap{}
	if err := json.Unmarshal(bz, &x); err != nil {
		return err
	}
	*m = x
	return nil
}

type mAgr struct {
	Pct  int64  `json:"pct"`
	Addr string `json:"addr"`
}
type agrMap map[string]mAgr

func (m *agrMap) UnmarshalJSON(bz []byte) error {
	if len(bz) > 0 && bz[0] == '[' {
		*m = agrMap{}
		return nil
	}
	x := map[string]mAgr{}
	if err := json.Unmarshal(bz, &x); err != nil {
		return err
	}
	*m = x
	return nil
}

type mPart struct {
	A    string `json:"a"`
	Pct  int64  `json:"pct"`
	Addr string `json:"addr"`
}
type alloyMap map[string][]mPart

func (m *alloyMap) UnmarshalJSON(bz []byte) error {
	if len(bz) > 0 && bz[0] == '[' {
		*m = alloyMap{}
		return nil
	}
	x := map[string][]mPart{}
	if err := json.Unmarshal(bz, &x); err != nil {
		return err
	}
	*m = x
	return nil
}

type mDist struct {
	St   int64 `json:"st"`
	Cp   int64 `json:"cp"`
	Burn int64 `json:"burn"`
}
type mConf struct {
	Denoms  []string   `json:"denoms"`
	Base    string     `json:"base"`
	Addrs   []string   `json:"addrs"`
	Blocked []string   `json:"blocked"`
	Osmo    mDist      `json:"osmo"`
	Non     mDist      `json:"non"`
	Wl      []string   `json:"wl"`
	Cpt     string     `json:"cpt"`
	Smooth  int64      `json:"smooth"`
	Inter   []string   `json:"inter"`
	Links   [][]string `json:"links"`
	Broken  [][]string `json:"broken"`
}
type mTrk struct {
	St   fmap `json:"st"`
	Cp   fmap `json:"cp"`
	Burn fmap `json:"burn"`
}
type mState struct {
	Cf    mConf    `json:"cf"`
	Agr   agrMap   `json:"agr"`
	Seen  agrMap   `json:"seen"`
	Alloy alloyMap `json:"alloy"`
	Bal   ffmap    `json:"bal"`
	Accr  ffmap    `json:"accr"`
	Trk   mTrk     `json:"trk"`
	W     []int64  `json:"w"`
}
type mStep struct {
	A     string   `json:"a"`
	Route []string `json:"route"`
	Fd    string   `json:"fd"`
	F     int64    `json:"f"`
	Ok    bool     `json:"ok"`
	D     string   `json:"d"`
	Pct   int64    `json:"pct"`
	Addr  string   `json:"addr"`
	Acct  string   `json:"acct"`
	X     int64    `json:"x"`
	Ident string   `json:"ident"`
	Wt    []int64  `json:"w"`
	St    mState   `json:"st"`
}
type mBehaviour struct {
	Steps []mStep `json:"steps"`
}

type mismatch struct {
	Behaviour int    `json:"behaviour"`
	Step      int    `json:"step"`
	What      string `json:"what"`
	Want      any    `json:"want"`
	Got       any    `json:"got"`
}

const modelUnit = 4    // quarters
const modelRest0 = 50  // what the model's "rest" ledger starts with
const deep = 1_000_000 // reserves of the replay pools, in units of 10^9

func quarter(x int64) osmomath.Dec { return osmomath.NewDec(x).QuoInt64(modelUnit) }

var modelReal = map[string]string{"A": "tka", "B": "tkb"}

type replayer struct {
	*world
	pair map[string]uint64 // "tka|tkb" -> deep pool of the pair
}

func pairKey(a, b string) string {
	if a > b {
		a, b = b, a
	}
	return a + "|" + b
}

func newReplayer(t *testing.T, cf mConf) *replayer {
	blocked := map[string]bool{}
	for _, b := range cf.Blocked {
		blocked[b] = true
	}
	skims := append([]string{}, cf.Addrs...)
	sort.Strings(skims)
	w := newWorld(t, 0, []string{"tka", "tkb"}, []string{"O", "A", "B"}, skims, blocked)
	r := &replayer{world: w, pair: map[string]uint64{}}
	w.fundUsers(1_000_000_000_000)
	// very deep pools without spread: reserves 10^15 + 10^6 on both sides exchange small amounts one for one
	// (the second-order term is below the 18 decimals of the pool arithmetic, the 10^6 keeps the product above
	// the whole number whatever the earlier swaps of the behaviour moved)
	res := osmomath.NewInt(deep).MulRaw(1_000_000_000).AddRaw(1_000_000)
	ds := w.denoms
	for i := range ds {
		for j := i + 1; j < len(ds); j++ {
			r.pair[pairKey(ds[i], ds[j])] = w.createPool(ds[i], ds[j], res, res, "0")
		}
	}
	p := w.App.PoolManagerKeeper.GetParams(w.Ctx)
	p.TakerFeeParams.DefaultTakerFee = osmomath.MustNewDecFromStr("0.1")
	w.App.PoolManagerKeeper.SetParams(w.Ctx, p)
	r.configure(cf)
	led, _ := w.ledgers()
	w.rest0 = led["rest"]
	return r
}

// configure writes the model configuration into the parameters of x/poolmanager and x/txfees and the links
// of x/protorev (a broken link points to the pool of another pair, so that every swap through it fails)
func (r *replayer) configure(cf mConf) {
	w := r.world
	p := w.App.PoolManagerKeeper.GetParams(w.Ctx)
	dist := func(d mDist) pmtypes.TakerFeeDistributionPercentage {
		return pmtypes.TakerFeeDistributionPercentage{StakingRewards: quarter(d.St), CommunityPool: quarter(d.Cp), Burn: quarter(d.Burn)}
	}
	p.TakerFeeParams.OsmoTakerFeeDistribution = dist(cf.Osmo)
	p.TakerFeeParams.NonOsmoTakerFeeDistribution = dist(cf.Non)
	wl := []string{}
	for _, d := range cf.Wl {
		wl = append(wl, w.real[d])
	}
	p.TakerFeeParams.CommunityPoolDenomWhitelist = wl
	p.TakerFeeParams.CommunityPoolDenomToSwapNonWhitelistedAssetsTo = w.real[cf.Cpt]
	p.TakerFeeParams.DailyStakingRewardsSmoothingFactor = uint64(cf.Smooth)
	if err := p.Validate(); err != nil {
		panic(err)
	}
	w.App.PoolManagerKeeper.SetParams(w.Ctx, p)
	tp := w.App.TxFeesKeeper.GetParams(w.Ctx)
	tp.FeeSwapIntermediaryDenomList = []string{}
	for _, d := range cf.Inter {
		tp.FeeSwapIntermediaryDenomList = append(tp.FeeSwapIntermediaryDenomList, w.real[d])
	}
	w.App.TxFeesKeeper.SetParams(w.Ctx, tp)
	w.clearLinks()
	broken := map[string]bool{}
	for _, l := range cf.Broken {
		broken[pairKey(w.real[l[0]], w.real[l[1]])] = true
	}
	for _, l := range cf.Links {
		a, b := w.real[l[0]], w.real[l[1]]
		id := r.pair[pairKey(a, b)]
		if broken[pairKey(a, b)] {
			for k, other := range r.pair {
				if k != pairKey(a, b) {
					id = other
					break
				}
			}
		}
		w.App.ProtoRevKeeper.SetPoolForDenomPair(w.Ctx, a, b, id)
	}
}

// the projected state in model units
type got struct {
	Agr   map[string]mAgr             `json:"agr"`
	Seen  map[string]mAgr             `json:"seen"`
	Seen2 map[string]mAgr             `json:"seen2"`
	Bal   map[string]map[string]int64 `json:"bal"`
	Accr  map[string]map[string]int64 `json:"accr"`
	Trk   map[string]map[string]int64 `json:"trk"`
	Links [][2]string                 `json:"links"`
}

func pctQuarters(d osmomath.Dec) int64 {
	x := d.MulInt64(modelUnit)
	if !x.IsInteger() {
		return -1
	}
	return x.TruncateInt64()
}

func (r *replayer) project() got {
	w := r.world
	g := got{Agr: map[string]mAgr{}, Seen: map[string]mAgr{}, Seen2: map[string]mAgr{}, Bal: map[string]map[string]int64{}, Accr: map[string]map[string]int64{}, Trk: map[string]map[string]int64{}}
	for _, a := range w.storedAgreements() {
		g.Agr[a.D] = mAgr{Pct: pctQuarters(a.Pct), Addr: a.Addr}
	}
	for _, a := range w.seenAgreements() {
		g.Seen[a.D] = mAgr{Pct: pctQuarters(a.Pct), Addr: a.Addr}
	}
	for _, a := range w.seenAgreements2() {
		g.Seen2[a.D] = mAgr{Pct: pctQuarters(a.Pct), Addr: a.Addr}
	}
	led, _ := w.ledgers()
	for a, m := range led {
		g.Bal[a] = map[string]int64{}
		for d, x := range m {
			if a == "rest" {
				x = x.Sub(w.rest0[d]).AddRaw(modelRest0)
			}
			g.Bal[a][d] = x.Int64()
		}
	}
	for _, d := range w.names() {
		g.Accr[d] = map[string]int64{}
		for _, e := range w.names() {
			g.Accr[d][e] = 0
		}
	}
	for _, a := range w.accumulators() {
		g.Accr[a.A][a.D] = a.X.Int64()
	}
	for k, m := range w.trackers() {
		g.Trk[k] = map[string]int64{}
		for d, x := range m {
			g.Trk[k][d] = x.Int64()
		}
	}
	g.Links = w.config().Links
	return g
}

func eqF(want fmap, gotm map[string]int64) bool {
	if len(want) != len(gotm) {
		return false
	}
	for k, v := range want {
		if x, ok := gotm[k]; !ok || x != v {
			return false
		}
	}
	return true
}

func eqAgr(want agrMap, gotm map[string]mAgr) bool {
	if len(want) != len(gotm) {
		return false
	}
	for k, v := range want {
		if x, ok := gotm[k]; !ok || x != v {
			return false
		}
	}
	return true
}

// a swap that charges exactly f of fd and involves exactly the denominations of route: the first hop pays the
// default taker fee of 10% on 10 f, the pairs of the later hops are exempt
func (r *replayer) swap(st mStep) bool {
	w := r.world
	pm := w.App.PoolManagerKeeper
	first := w.real[st.Fd]
	order := []string{first}
	for _, d := range st.Route {
		if w.real[d] != first {
			order = append(order, w.real[d])
		}
	}
	rs := []pmtypes.SwapAmountInRoute{}
	def := pm.GetDefaultTakerFee(w.Ctx)
	for i := 1; i < len(order); i++ {
		rs = append(rs, pmtypes.SwapAmountInRoute{PoolId: r.pair[pairKey(order[i-1], order[i])], TokenOutDenom: order[i]})
		if i == 1 {
			pm.SetDenomPairTakerFee(w.Ctx, order[i-1], order[i], def) // = the default: removes an override
		} else {
			pm.SetDenomPairTakerFee(w.Ctx, order[i-1], order[i], osmomath.ZeroDec())
		}
	}
	_, out := w.Msg(&pmtypes.MsgSwapExactAmountIn{Sender: w.users[0].String(), Routes: rs, TokenIn: sdk.NewInt64Coin(first, 10*st.F), TokenOutMinAmount: osmomath.NewInt(1)})
	return out.OK
}

func TestReplay(t *testing.T) {
	in := os.Getenv("VERIF_IN")
	if in == "" {
		t.Skip("VERIF_IN not set")
	}
	out := tracelog.EnvStr("VERIF_OUT", in+".result")
	bs, err := tracelog.ReadLines[mBehaviour](in)
	if err != nil {
		t.Fatal(err)
	}
	shard, nshards := 0, 1
	fmt.Sscanf(os.Getenv("VERIF_SHARD"), "%d/%d", &shard, &nshards)
	if nshards < 1 {
		nshards = 1
	}
	mm := []mismatch{}
	kinds := map[string]int{}
	counts := map[string]int{}
	done, steps := 0, 0
	for bi, b := range bs {
		if bi%nshards != shard {
			continue
		}
		done++
		r := newReplayer(t, b.Steps[0].St.Cf)
		w := r.world
		bad := func(si int, what string, want, gotv any) {
			mm = append(mm, mismatch{Behaviour: bi, Step: si, What: what, Want: want, Got: gotv})
		}
		for si, st := range b.Steps {
			if si == 0 {
				continue
			}
			steps++
			kinds[st.A]++
			leak := false
			switch st.A {
			case "swap":
				ok := r.swap(st)
				if ok != st.Ok {
					bad(si, "swap outcome", st.Ok, ok)
				}
				if !st.Ok {
					counts["swaps_over_100_percent"]++
				}
			case "agr":
				o := w.deliver(w.setAgreementMsg(w.real[st.D], quarter(st.Pct), st.Addr), st.Ok)
				if !o.OK {
					bad(si, "agreement message refused", "", o.Err)
				}
				if !st.Ok {
					counts["failed_transactions"]++
					leak = true
				}
			case "conf":
				r.configure(st.St.Cf)
			case "dep":
				if err := w.App.BankKeeper.SendCoinsFromAccountToModule(w.Ctx, w.users[0], moduleOf[st.Acct], sdk.NewCoins(sdk.NewInt64Coin(w.real[st.D], st.X))); err != nil {
					panic(err)
				}
			case "epoch":
				o, swaps := w.epochEnd(st.Ident)
				if !o.OK {
					bad(si, "E1: AfterEpochEnd failed", "", o.Err)
				}
				counts["collector_swaps"] += len(swaps)
			default:
				panic("unknown step " + st.A)
			}
			g := r.project()
			if len(mm) > 0 && mm[len(mm)-1].Behaviour == bi {
				break
			}
			e := st.St
			for a, m := range e.Bal {
				if !eqF(m, g.Bal[a]) {
					bad(si, "ledger "+a+" after "+st.A, m, g.Bal[a])
					break
				}
			}
			for a, m := range e.Accr {
				if !eqF(m, g.Accr[a]) {
					bad(si, "accumulators of "+a+" after "+st.A, m, g.Accr[a])
					break
				}
			}
			for k, m := range map[string]fmap{"st": e.Trk.St, "cp": e.Trk.Cp, "burn": e.Trk.Burn} {
				if !eqF(m, g.Trk[k]) {
					bad(si, "tracker "+k+" after "+st.A, m, g.Trk[k])
				}
			}
			if !eqAgr(e.Agr, g.Agr) {
				bad(si, "stored agreements after "+st.A, e.Agr, g.Agr)
			}
			if !eqAgr(e.Seen, g.Seen) || !eqAgr(e.Seen, g.Seen2) {
				if leak {
					// the failed transaction is the last step of a generated behaviour: reported, not a mismatch of the rest
					counts["leaked_agreements"]++
				} else {
					bad(si, "agreements seen by swaps after "+st.A, e.Seen, map[string]any{"poolmanager": g.Seen, "others": g.Seen2})
				}
			}
			if len(mm) > 0 && mm[len(mm)-1].Behaviour == bi {
				break
			}
		}
		if len(mm) >= 20 {
			break
		}
	}
	res := map[string]any{"behaviours": done, "steps": steps, "mismatches": mm, "kinds": kinds, "counts": counts}
	bz, _ := json.Marshal(res)
	if err := os.WriteFile(out, bz, 0o644); err != nil {
		t.Fatal(err)
	}
	fmt.Printf("REPLAYED behaviours=%d steps=%d mismatches=%d\n", done, steps, len(mm))
}
