// Wrong-sender sweeps (property C20, spec/Ownership.tla).
//
// One world per history: a concentrated-liquidity pool with positions of several
// owners (some transferred: the previous owner keeps trying), lockup locks
// (locked, unlocking, with reward receivers, one owner on the force-unlock list),
// superfluid-delegated / undelegating locks of gamm shares, factory denominations
// (admin changed, renounced).  A seeded random history of owner messages drives it;
// at many points EVERY owned object x EVERY message kind acting on it x EVERY sender
// (all users, previous owners, reward receivers, the pool's three addresses, module
// accounts, superfluid intermediary accounts, and the true owner) is executed on a
// branch that is thrown away, and the outcome, the exact set of writes of the
// handler and the records of all objects the sender does not own are logged.
package ownership

import (
	"crypto/sha256"
	"encoding/hex"
	"fmt"
	"math/rand"
	"os"
	"sort"
	"strings"
	"testing"
	"time"

	wasmkeeper "github.com/CosmWasm/wasmd/x/wasm/keeper"
	sdk "github.com/cosmos/cosmos-sdk/types"
	authtypes "github.com/cosmos/cosmos-sdk/x/auth/types"
	banktypes "github.com/cosmos/cosmos-sdk/x/bank/types"
	stakingtypes "github.com/cosmos/cosmos-sdk/x/staking/types"

	"github.com/osmosis-labs/osmosis/osmomath"
	clmodel "github.com/osmosis-labs/osmosis/v31/x/concentrated-liquidity/model"
	cltypes "github.com/osmosis-labs/osmosis/v31/x/concentrated-liquidity/types"
	gammtypes "github.com/osmosis-labs/osmosis/v31/x/gamm/types"
	lockuptypes "github.com/osmosis-labs/osmosis/v31/x/lockup/types"
	pmtypes "github.com/osmosis-labs/osmosis/v31/x/poolmanager/types"
	sftypes "github.com/osmosis-labs/osmosis/v31/x/superfluid/types"
	tfkeeper "github.com/osmosis-labs/osmosis/v31/x/tokenfactory/keeper"
	tftypes "github.com/osmosis-labs/osmosis/v31/x/tokenfactory/types"

	"verif/harness/apphelp"
	"verif/harness/tracelog"
)

const (
	clD0 = "eth"
	clD1 = "usdc"
)

var lockDenoms = []string{"lka", "lkb"}

type denInfo struct {
	denom   string
	creator string
	sub     string
	admin   string
}

type snap struct {
	own    map[string]string
	rec    map[string]string
	pos    map[uint64]clmodel.Position
	locks  map[uint64]lockuptypes.PeriodLock
	synth  map[uint64][]lockuptypes.SyntheticLock
	denoms map[string]denInfo // obj -> info
}

type delivery struct {
	kind, obj, sender, to string
	msg                   sdk.Msg
	fn                    func(sdk.Context) (*sdk.Result, error)
	partial               bool
	ns                    func(branch sdk.Context) string // tf.create: namespace of the denomination that appeared
}

type ownEvent struct {
	E       string            `json:"e"`
	Kind    string            `json:"kind"`
	Obj     string            `json:"obj"`
	Sender  string            `json:"sender"`
	To      string            `json:"to"`
	OK      bool              `json:"ok"`
	Err     string            `json:"err"`
	Dgb     string            `json:"dgb"`
	Fg0     string            `json:"fg0"`
	Fg1     string            `json:"fg1"`
	Partial bool              `json:"partial"`
	Role    string            `json:"role"`
	NS      string            `json:"ns"`
	Writes  []string          `json:"writes"`
	Own     map[string]string `json:"own,omitempty"`
	Dg      string            `json:"dg,omitempty"`
}

type ownWorld struct {
	*base
	t         *testing.T
	rng       *rand.Rand
	tw        *tracelog.Writer
	users     []string
	addr      map[string]sdk.AccAddress
	nameOf    map[string]string
	special   []string          // non-user senders
	roleOf    map[string]string // special name -> role label
	poolID    uint64
	gammPool  uint64
	gammDenom string
	vals      []string
	unbonding time.Duration
	hook      string
	prev      map[string]map[string]bool
	dg        string
	subN      int
	t0        time.Time
	crossed   int
}

func (w *ownWorld) set(n string, a sdk.AccAddress) {
	w.addr[n] = a
	w.nameOf[a.String()] = n
}

func (w *ownWorld) name(bech string) string {
	if bech == "" {
		return ""
	}
	if n, ok := w.nameOf[bech]; ok {
		return n
	}
	return "?" + bech
}

func (w *ownWorld) bech(n string) string {
	if n == "" {
		return ""
	}
	a, ok := w.addr[n]
	if !ok {
		panic("unknown account " + n)
	}
	return a.String()
}

func (w *ownWorld) isUser(n string) bool {
	for _, u := range w.users {
		if u == n {
			return true
		}
	}
	return false
}

func newOwnWorld(t *testing.T, tw *tracelog.Writer, seed int64) *ownWorld {
	w := &ownWorld{base: newBase(apphelp.New(t)), t: t, rng: rand.New(rand.NewSource(seed)), tw: tw,
		addr: map[string]sdk.AccAddress{}, nameOf: map[string]string{}, roleOf: map[string]string{}, prev: map[string]map[string]bool{}}
	w.t0 = w.Ctx.BlockTime()
	for i := 1; i <= 5; i++ {
		n := fmt.Sprintf("u%d", i)
		w.users = append(w.users, n)
		w.set(n, apphelp.Acct(int(seed%1000)*10+i))
	}
	// lockup: u4 and u5 are on the force-unlock list (two listed owners: a listed sender must still
	// not be able to force-unlock the lock of ANOTHER listed owner)
	lp := w.App.LockupKeeper.GetParams(w.Ctx)
	lp.ForceUnlockAllowedAddresses = []string{w.bech("u5"), w.bech("u4")}
	w.App.LockupKeeper.SetParams(w.Ctx, lp)
	// staking / superfluid environment (as x/superfluid's own tests set it up)
	sp, err := w.App.StakingKeeper.GetParams(w.Ctx)
	if err != nil {
		t.Fatal(err)
	}
	w.unbonding = sp.UnbondingTime
	w.App.IncentivesKeeper.SetLockableDurations(w.Ctx, []time.Duration{time.Hour, 3 * time.Hour, 7 * time.Hour, 24 * time.Hour, w.unbonding, 2 * w.unbonding})
	for i := 0; i < 2; i++ {
		w.vals = append(w.vals, w.SetupValidator(stakingtypes.Bonded).String())
	}
	pools := w.SetupGammPoolsWithBondDenomMultiplier([]osmomath.Dec{osmomath.NewDec(20)})
	w.gammPool = pools[0].GetId()
	w.gammDenom = gammtypes.GetPoolShareDenom(w.gammPool)
	if err := w.App.SuperfluidKeeper.AddNewSuperfluidAsset(w.Ctx, sftypes.SuperfluidAsset{Denom: w.gammDenom, AssetType: sftypes.SuperfluidAssetTypeLPShare}); err != nil {
		t.Fatal(err)
	}
	// concentrated pool
	clk := w.App.ConcentratedLiquidityKeeper
	cp := clk.GetParams(w.Ctx)
	cp.AuthorizedUptimes = cltypes.SupportedUptimes
	clk.SetParams(w.Ctx, cp)
	pool := w.PrepareCustomConcentratedPool(w.TestAccs[0], clD0, clD1, 100, osmomath.MustNewDecFromStr("0.003"))
	w.poolID = pool.GetId()
	// funds
	big := osmomath.NewInt(1_000_000_000_000_000)
	for _, u := range w.users {
		coins := sdk.NewCoins(sdk.NewCoin(clD0, big), sdk.NewCoin(clD1, big), sdk.NewCoin("uosmo", big), sdk.NewCoin("inca", big),
			sdk.NewCoin(w.gammDenom, osmomath.NewInt(1_000_000_000_000)))
		for _, d := range lockDenoms {
			coins = coins.Add(sdk.NewCoin(d, big))
		}
		w.FundAcc(w.addr[u], coins)
	}
	// special senders
	sp3 := func(n, role string, a sdk.AccAddress) {
		w.set(n, a)
		w.special = append(w.special, n)
		w.roleOf[n] = role
	}
	sp3("pool", "pool", pool.GetAddress())
	sp3("poolfee", "pool", pool.GetSpreadRewardsAddress())
	sp3("poolinc", "pool", pool.GetIncentivesAddress())
	for _, m := range []string{"gov", "lockup", "superfluid", "gamm", "tokenfactory", "distribution", "incentives", "poolmanager", "protorev"} {
		sp3(m, "module", authtypes.NewModuleAddress(m))
	}
	w.roleOf["gov"] = "gov"
	// a contract usable as before-send hook
	code, err := os.ReadFile(hookWasm)
	if err != nil {
		t.Fatal(err)
	}
	ck := wasmkeeper.NewGovPermissionKeeper(w.App.WasmKeeper)
	codeID, _, err := ck.Create(w.Ctx, w.TestAccs[0], code, nil)
	if err != nil {
		t.Fatal(err)
	}
	ca, _, err := ck.Instantiate(w.Ctx, codeID, w.TestAccs[0], w.TestAccs[0], []byte("{}"), "hook", sdk.NewCoins())
	if err != nil {
		t.Fatal(err)
	}
	w.set("hk", ca)
	w.hook = "hk"
	return w
}

// ---------------------------------------------------------------------------
// projection

func (w *ownWorld) snapshot(ctx sdk.Context) *snap {
	s := &snap{own: map[string]string{}, rec: map[string]string{}, pos: map[uint64]clmodel.Position{}, locks: map[uint64]lockuptypes.PeriodLock{},
		synth: map[uint64][]lockuptypes.SyntheticLock{}, denoms: map[string]denInfo{}}
	clk := w.App.ConcentratedLiquidityKeeper
	ids, err := clk.GetPositionIDsByPoolID(ctx, w.poolID)
	if err != nil {
		panic(err)
	}
	for _, id := range ids {
		p, err := clk.GetPosition(ctx, id)
		if err != nil {
			panic(err)
		}
		o := fmt.Sprintf("pos:%d", id)
		s.pos[id] = p
		s.own[o] = w.name(p.Address)
		s.rec[o] = fmt.Sprintf("%s|%d|%d|%d|%d|%s", p.Address, p.PoolId, p.LowerTick, p.UpperTick, p.JoinTime.UnixNano(), p.Liquidity)
	}
	for _, sl := range w.App.LockupKeeper.GetAllSyntheticLockups(ctx) {
		s.synth[sl.UnderlyingLockId] = append(s.synth[sl.UnderlyingLockId], sl)
	}
	locks, err := w.App.LockupKeeper.GetPeriodLocks(ctx)
	if err != nil {
		panic(err)
	}
	for _, l := range locks {
		o := fmt.Sprintf("lock:%d", l.ID)
		s.locks[l.ID] = l
		s.own[o] = w.name(l.Owner)
		syn := []string{}
		for _, sl := range s.synth[l.ID] {
			syn = append(syn, fmt.Sprintf("%s@%d/%d", sl.SynthDenom, sl.EndTime.UnixNano(), sl.Duration))
		}
		sort.Strings(syn)
		s.rec[o] = fmt.Sprintf("%s|%d|%d|%s|%s|%s", l.Owner, l.Duration, l.EndTime.UnixNano(), l.Coins, l.RewardReceiverAddress, strings.Join(syn, ","))
	}
	tk := w.App.TokenFactoryKeeper
	it := tk.GetAllDenomsIterator(ctx)
	ds := []string{}
	for ; it.Valid(); it.Next() {
		ds = append(ds, string(it.Value()))
	}
	it.Close()
	for _, d := range ds {
		creator, sub, err := tftypes.DeconstructDenom(d)
		if err != nil {
			creator, sub = "?bad", d
		}
		o := "denom:" + w.name(creator) + "/" + sub
		am, _ := tk.GetAuthorityMetadata(ctx, d)
		md, _ := w.App.BankKeeper.GetDenomMetaData(ctx, d)
		s.own[o] = w.name(am.Admin)
		s.denoms[o] = denInfo{denom: d, creator: w.name(creator), sub: sub, admin: w.name(am.Admin)}
		s.rec[o] = fmt.Sprintf("%s|%s|%s|%s", am.Admin, md.Description, tk.GetBeforeSendHook(ctx, d), w.App.BankKeeper.GetSupply(ctx, d).Amount)
	}
	return s
}

func sortedKeys[V any](m map[string]V) []string {
	ks := make([]string, 0, len(m))
	for k := range m {
		ks = append(ks, k)
	}
	sort.Strings(ks)
	return ks
}

// foreign: digest of the records (as found in s) of the objects that existed before and that the sender did not own.
func foreign(pre *snap, sender string, s *snap) string {
	h := sha256.New()
	for _, o := range sortedKeys(pre.own) {
		if pre.own[o] == sender {
			continue
		}
		r, ok := s.rec[o]
		if !ok {
			r = "<gone>"
		}
		h.Write([]byte(o + "=" + r + ";"))
	}
	return hex.EncodeToString(h.Sum(nil)[:8])
}

// ---------------------------------------------------------------------------
// messages

func (w *ownWorld) otherUser(not ...string) string {
	for _, u := range w.users {
		bad := false
		for _, n := range not {
			bad = bad || n == u
		}
		if !bad {
			return u
		}
	}
	return w.users[0]
}

var posKinds = []string{"cl.withdraw", "cl.add", "cl.transfer", "cl.collectspread", "cl.collectinc"}
var lockKinds = []string{"lock.begin", "lock.extend", "lock.setrr", "lock.force", "sf.delegate", "sf.undelegate", "sf.unbond", "sf.undelunbond", "sf.convert"}
var denomKinds = []string{"tf.mint", "tf.burn", "tf.force", "tf.admin", "tf.meta", "tf.hook"}

func kindsFor(obj string) []string {
	switch {
	case strings.HasPrefix(obj, "pos:"):
		return posKinds
	case strings.HasPrefix(obj, "lock:"):
		return lockKinds
	default:
		return denomKinds
	}
}

func objID(obj string) uint64 {
	var id uint64
	fmt.Sscanf(obj[strings.Index(obj, ":")+1:], "%d", &id)
	return id
}

// build constructs the message `sender` would send to exercise `kind` on `obj`.
// variant 0: the plain message; variant 1 (list messages of x/concentrated-liquidity):
// the sender's own position first, then the target.
func (w *ownWorld) build(kind, obj, sender string, s *snap, variant int) *delivery {
	d := &delivery{kind: kind, obj: obj, sender: sender}
	sb := w.bech(sender)
	owner := s.own[obj]
	switch {
	case strings.HasPrefix(kind, "cl."):
		id := objID(obj)
		p := s.pos[id]
		ids := []uint64{id}
		if variant == 1 {
			mine := uint64(0)
			for _, o := range sortedKeys(s.own) {
				if strings.HasPrefix(o, "pos:") && s.own[o] == sender && o != obj {
					mine = objID(o)
					break
				}
			}
			if mine == 0 {
				return nil
			}
			ids = []uint64{mine, id}
			d.partial = true
		}
		switch kind {
		case "cl.withdraw":
			liq := p.Liquidity
			if w.rng.Intn(3) == 0 {
				liq = liq.QuoInt64(2)
			}
			d.msg = &cltypes.MsgWithdrawPosition{PositionId: id, Sender: sb, LiquidityAmount: liq}
		case "cl.add":
			d.msg = &cltypes.MsgAddToPosition{PositionId: id, Sender: sb, Amount0: osmomath.NewInt(1000 + int64(w.rng.Intn(100000))), Amount1: osmomath.NewInt(1000 + int64(w.rng.Intn(100000))),
				TokenMinAmount0: osmomath.ZeroInt(), TokenMinAmount1: osmomath.ZeroInt()}
		case "cl.transfer":
			d.to = w.otherUser(sender, owner)
			if sender != owner && w.isUser(sender) && w.rng.Intn(2) == 0 {
				d.to = w.otherUser(sender) // possibly back to the owner's rival, or the owner itself
			}
			d.msg = &cltypes.MsgTransferPositions{PositionIds: ids, Sender: sb, NewOwner: w.bech(d.to)}
		case "cl.collectspread":
			d.msg = &cltypes.MsgCollectSpreadRewards{PositionIds: ids, Sender: sb}
		case "cl.collectinc":
			d.msg = &cltypes.MsgCollectIncentives{PositionIds: ids, Sender: sb}
		}
		if variant == 1 && (kind == "cl.withdraw" || kind == "cl.add") {
			return nil
		}
	case strings.HasPrefix(kind, "lock.") || strings.HasPrefix(kind, "sf."):
		if variant != 0 {
			return nil
		}
		id := objID(obj)
		l := s.locks[id]
		part := sdk.Coins{}
		if len(l.Coins) == 1 && l.Coins[0].Amount.GT(osmomath.NewInt(3)) && w.rng.Intn(3) == 0 {
			part = sdk.NewCoins(sdk.NewCoin(l.Coins[0].Denom, l.Coins[0].Amount.QuoRaw(3)))
		}
		switch kind {
		case "lock.begin":
			d.msg = &lockuptypes.MsgBeginUnlocking{Owner: sb, ID: id, Coins: part}
		case "lock.extend":
			d.msg = &lockuptypes.MsgExtendLockup{Owner: sb, ID: id, Duration: l.Duration + time.Duration(1+w.rng.Intn(48))*time.Hour}
		case "lock.setrr":
			// the new receiver is the sender itself; a sender who already is the receiver (or the owner)
			// names somebody else, so that the message would be valid if the sender were entitled
			d.to = sender
			if sender == owner || w.name(l.RewardReceiverAddress) == sender {
				d.to = w.otherUser(owner, sender, w.name(l.RewardReceiverAddress))
			}
			d.msg = &lockuptypes.MsgSetRewardReceiverAddress{Owner: sb, LockID: id, RewardReceiver: w.bech(d.to)}
		case "lock.force":
			d.msg = &lockuptypes.MsgForceUnlock{Owner: sb, ID: id, Coins: part}
		case "sf.delegate":
			d.msg = &sftypes.MsgSuperfluidDelegate{Sender: sb, LockId: id, ValAddr: w.vals[w.rng.Intn(len(w.vals))]}
		case "sf.undelegate":
			d.msg = &sftypes.MsgSuperfluidUndelegate{Sender: sb, LockId: id}
		case "sf.unbond":
			d.msg = &sftypes.MsgSuperfluidUnbondLock{Sender: sb, LockId: id}
		case "sf.undelunbond":
			c := l.Coins[0]
			if len(part) == 1 {
				c = part[0]
			}
			d.msg = &sftypes.MsgSuperfluidUndelegateAndUnbondLock{Sender: sb, LockId: id, Coin: c}
		case "sf.convert": // the lock's pool shares are withdrawn and the OSMO side is staked (whatever the lock's superfluid state)
			if len(l.Coins) != 1 || l.Coins[0].Denom != w.gammDenom {
				return nil
			}
			d.msg = &sftypes.MsgUnbondConvertAndStake{LockId: id, Sender: sb, ValAddr: w.vals[w.rng.Intn(len(w.vals))],
				MinAmtToStake: osmomath.ZeroInt(), SharesToConvert: sdk.NewCoin(w.gammDenom, osmomath.ZeroInt())}
		}
	case strings.HasPrefix(kind, "tf."):
		if variant != 0 {
			return nil
		}
		di := s.denoms[obj]
		coin := func(n int64) sdk.Coin { return sdk.NewCoin(di.denom, osmomath.NewInt(n)) }
		// somebody who holds the token (the victim of a burn / force transfer)
		holder := ""
		for _, u := range w.users {
			if u != sender && w.App.BankKeeper.GetBalance(w.Ctx, w.addr[u], di.denom).Amount.GTE(osmomath.NewInt(2)) {
				holder = u
				break
			}
		}
		switch kind {
		case "tf.mint":
			d.to = sender
			if !w.isUser(sender) || w.rng.Intn(3) == 0 {
				d.to = w.otherUser(owner)
			}
			d.msg = tftypes.NewMsgMintTo(sb, coin(5), w.bech(d.to))
		case "tf.burn":
			from := holder
			if from == "" || (sender == owner && w.rng.Intn(2) == 0) {
				from = sender
			}
			d.msg = tftypes.NewMsgBurnFrom(sb, coin(1), w.bech(from))
		case "tf.force":
			from := holder
			if from == "" {
				from = w.otherUser(sender)
			}
			d.to = sender
			if !w.isUser(sender) {
				d.to = w.otherUser(from)
			}
			d.msg = tftypes.NewMsgForceTransfer(sb, coin(1), w.bech(from), w.bech(d.to))
		case "tf.admin":
			d.to = sender
			if sender == owner {
				d.to = w.otherUser(owner)
			}
			d.msg = tftypes.NewMsgChangeAdmin(sb, di.denom, w.bech(d.to))
		case "tf.meta":
			desc := "by " + sender
			d.msg = tftypes.NewMsgSetDenomMetadata(sb, banktypes.Metadata{Description: desc, Base: di.denom, Display: di.denom, Name: di.denom, Symbol: di.denom,
				DenomUnits: []*banktypes.DenomUnit{{Denom: di.denom, Exponent: 0}}})
		case "tf.hook":
			hk := w.bech(w.hook)
			if w.App.TokenFactoryKeeper.GetBeforeSendHook(w.Ctx, di.denom) != "" {
				hk = ""
			}
			d.msg = tftypes.NewMsgSetBeforeSendHook(sb, di.denom, hk)
		}
	}
	if d.msg == nil && d.fn == nil {
		return nil
	}
	return d
}

func (w *ownWorld) role(obj, sender string, s *snap) string {
	if obj == "" {
		return "self"
	}
	if s.own[obj] == sender && sender != "" {
		return "owner"
	}
	if w.prev[obj][sender] {
		return "prev"
	}
	if strings.HasPrefix(obj, "lock:") {
		if l, ok := s.locks[objID(obj)]; ok && l.RewardReceiverAddress != "" && w.name(l.RewardReceiverAddress) == sender {
			return "receiver"
		}
	}
	if r, ok := w.roleOf[sender]; ok {
		return r
	}
	return "user"
}

// run delivers d on a branch of the committed state (written only when commit is set and
// the handler succeeds), and fills in the event: outcome, digest of the branch at the
// moment the handler returned, records of the sender's non-owned objects on that branch.
func (w *ownWorld) run(d *delivery, s *snap, commit bool, fg0 string) (outcome, *ownEvent) {
	ev := &ownEvent{E: "try", Kind: d.kind, Obj: d.obj, Sender: d.sender, To: d.to, Partial: d.partial, Role: w.role(d.obj, d.sender, s),
		Fg0: fg0, Fg1: fg0, Writes: []string{}}
	if commit {
		ev.E = "op"
	}
	cross := w.rng.Intn(301) == 0
	insp := func(br sdk.Context, out *outcome) {
		if len(out.Changes) > 0 {
			ev.Fg1 = foreign(s, d.sender, w.snapshot(br))
		}
		if d.ns != nil && out.OK {
			ev.NS = d.ns(br)
		}
		if cross { // the write detector against the digest of every store
			w.crossed++
			if full := w.fullDigest(br); (full != w.dg) != (len(out.Changes) > 0) {
				w.t.Fatalf("write detector and full-state digest disagree on %s %s by %s: %d changes, %s vs %s", d.kind, d.obj, d.sender, len(out.Changes), full, w.dg)
			}
		}
	}
	var out outcome
	if d.fn != nil {
		out = w.deliverFn(w.Ctx, d.fn, commit, insp)
	} else {
		out = w.deliver(w.Ctx, d.msg, commit, false, insp)
	}
	ev.OK, ev.Err = out.OK, trunc(out.Err, 140)
	ev.Dgb = branchDigest(w.dg, out.Changes)
	if len(out.Changes) > 0 && !out.OK {
		ev.Writes = showChanges(out.Changes, 4)
	}
	return out, ev
}

// op: a committed step of the history.
func (w *ownWorld) op(d *delivery, s *snap) outcome {
	out, ev := w.run(d, s, true, foreign(s, d.sender, s))
	post := w.snapshot(w.Ctx)
	for o, ow := range post.own {
		if old, ok := s.own[o]; ok && old != ow {
			if w.prev[o] == nil {
				w.prev[o] = map[string]bool{}
			}
			w.prev[o][old] = true
		}
	}
	w.dg = w.fullDigest(w.Ctx)
	ev.Own, ev.Dg = post.own, w.dg
	w.tw.Emit(ev)
	return out
}

func (w *ownWorld) env(what string, f func(ctx sdk.Context) error) {
	s := w.snapshot(w.Ctx)
	w.op(&delivery{kind: "env", to: what, fn: func(c sdk.Context) (*sdk.Result, error) { return &sdk.Result{}, f(c) }}, s)
}

func (w *ownWorld) pick(xs []string) string { return xs[w.rng.Intn(len(xs))] }

func (w *ownWorld) objsOf(s *snap, prefix string) []string {
	res := []string{}
	for _, o := range sortedKeys(s.own) {
		if strings.HasPrefix(o, prefix) {
			res = append(res, o)
		}
	}
	return res
}

func (w *ownWorld) createPos(sender string) *delivery {
	lo := int64(-(1 + w.rng.Intn(60))) * 1000
	hi := int64(1+w.rng.Intn(60)) * 1000
	switch w.rng.Intn(8) {
	case 0:
		lo, hi = cltypes.MinInitializedTick, cltypes.MaxTick
	case 1:
		lo, hi = hi, hi+int64(1+w.rng.Intn(20))*1000
	}
	amt := func() osmomath.Int { return osmomath.NewInt(1_000_000 + int64(w.rng.Intn(1_000_000_000))) }
	return &delivery{kind: "cl.create", sender: sender, msg: &cltypes.MsgCreatePosition{PoolId: w.poolID, Sender: w.bech(sender), LowerTick: lo, UpperTick: hi,
		TokensProvided: sdk.NewCoins(sdk.NewCoin(clD0, amt()), sdk.NewCoin(clD1, amt())), TokenMinAmount0: osmomath.ZeroInt(), TokenMinAmount1: osmomath.ZeroInt()}}
}

func (w *ownWorld) lockTokens(sender, denom string, dur time.Duration, amt int64) *delivery {
	return &delivery{kind: "lock.lock", sender: sender, msg: lockuptypes.NewMsgLockTokens(w.addr[sender], dur, sdk.NewCoins(sdk.NewCoin(denom, osmomath.NewInt(amt))))}
}

func (w *ownWorld) createDenom(sender string) *delivery {
	w.subN++
	sub := fmt.Sprintf("t%d", w.subN)
	d := &delivery{kind: "tf.create", sender: sender, msg: tftypes.NewMsgCreateDenom(w.bech(sender), sub)}
	d.ns = func(br sdk.Context) string {
		pre := map[string]bool{}
		it := w.App.TokenFactoryKeeper.GetAllDenomsIterator(w.Ctx)
		for ; it.Valid(); it.Next() {
			pre[string(it.Value())] = true
		}
		it.Close()
		res := []string{}
		it = w.App.TokenFactoryKeeper.GetAllDenomsIterator(br)
		for ; it.Valid(); it.Next() {
			if dn := string(it.Value()); !pre[dn] {
				c, _, err := tftypes.DeconstructDenom(dn)
				if err != nil {
					c = "?bad"
				}
				res = append(res, w.name(c))
			}
		}
		it.Close()
		if len(res) == 1 {
			return res[0]
		}
		return fmt.Sprintf("?%d new denominations", len(res))
	}
	return d
}

// sender of a history step: the owner, now and then somebody else (refused, logged all the same)
func (w *ownWorld) actor(owner string) string {
	if owner == "" || w.rng.Intn(16) == 0 {
		return w.pick(w.users)
	}
	return owner
}

func (w *ownWorld) lockKindFor(s *snap, obj string) string {
	l := s.locks[objID(obj)]
	bonded, unbonding := false, false
	for _, sl := range s.synth[l.ID] {
		bonded = bonded || strings.Contains(sl.SynthDenom, "superbonding")
		unbonding = unbonding || strings.Contains(sl.SynthDenom, "superunbonding")
	}
	r := w.rng.Intn(10)
	switch {
	case len(l.Coins) == 1 && l.Coins[0].Denom == w.gammDenom && r == 9:
		return "sf.convert"
	case bonded && r < 7:
		return w.pick([]string{"sf.undelegate", "sf.undelunbond", "sf.undelegate"})
	case unbonding && !l.IsUnlocking() && r < 6:
		return "sf.unbond"
	case len(l.Coins) == 1 && l.Coins[0].Denom == w.gammDenom && !bonded && !unbonding && !l.IsUnlocking() && r < 4:
		return "sf.delegate"
	case (s.own[obj] == "u5" || s.own[obj] == "u4") && r < 3:
		return "lock.force"
	}
	return w.pick([]string{"lock.begin", "lock.extend", "lock.setrr", "lock.setrr", "lock.begin", "lock.extend", "lock.force", "sf.delegate", "sf.unbond"})
}

func (w *ownWorld) step() {
	s := w.snapshot(w.Ctx)
	poss, locks, dens := w.objsOf(s, "pos:"), w.objsOf(s, "lock:"), w.objsOf(s, "denom:")
	r := w.rng.Intn(100)
	var d *delivery
	switch {
	case r < 8 || len(poss) < 3:
		d = w.createPos(w.pick(w.users))
	case r < 30:
		o := w.pick(poss)
		d = w.build(w.pick(posKinds), o, w.actor(s.own[o]), s, 0)
	case r < 38:
		in, out := clD0, clD1
		if w.rng.Intn(2) == 0 {
			in, out = out, in
		}
		u := w.pick(w.users)
		d = &delivery{kind: "swap", sender: u, msg: &pmtypes.MsgSwapExactAmountIn{Sender: w.bech(u), Routes: []pmtypes.SwapAmountInRoute{{PoolId: w.poolID, TokenOutDenom: out}},
			TokenIn: sdk.NewCoin(in, osmomath.NewInt(10_000+int64(w.rng.Intn(50_000_000)))), TokenOutMinAmount: osmomath.OneInt()}}
	case r < 48 || len(locks) < 4:
		den := w.pick(append(append([]string{}, lockDenoms...), w.gammDenom, w.gammDenom))
		dur := []time.Duration{time.Hour, 24 * time.Hour, w.unbonding, 2 * w.unbonding}[w.rng.Intn(4)]
		if den == w.gammDenom && w.rng.Intn(4) != 0 {
			dur = w.unbonding
		}
		d = w.lockTokens(w.pick(w.users), den, dur, 1000+int64(w.rng.Intn(1_000_000)))
	case r < 72:
		o := w.pick(locks)
		d = w.build(w.lockKindFor(s, o), o, w.actor(s.own[o]), s, 0)
	case r < 74:
		u := w.pick(w.users)
		d = &delivery{kind: "lock.beginall", sender: u, msg: &lockuptypes.MsgBeginUnlockingAll{Owner: w.bech(u)}}
	case r < 78 || len(dens) < 2:
		if len(dens) < 6 {
			d = w.createDenom(w.pick(w.users))
		}
	case r < 92:
		o := w.pick(dens)
		k := w.pick(denomKinds)
		if k == "tf.mint" || w.rng.Intn(3) == 0 {
			k = "tf.mint"
		}
		d = w.build(k, o, w.actor(s.own[o]), s, 0)
		if k == "tf.admin" && d != nil && d.sender == s.own[o] && w.rng.Intn(5) == 0 { // renounce (through the msg server: ValidateBasic rejects "")
			cm := tftypes.NewMsgChangeAdmin(w.bech(d.sender), s.denoms[o].denom, "")
			srv := tfkeeper.NewMsgServerImpl(*w.App.TokenFactoryKeeper)
			d.msg, d.to = nil, ""
			d.fn = func(c sdk.Context) (*sdk.Result, error) {
				_, err := srv.ChangeAdmin(c, cm)
				return &sdk.Result{}, err
			}
		}
	case r < 95:
		u := w.pick(w.users)
		w.env("incentive", func(c sdk.Context) error {
			_, err := w.App.ConcentratedLiquidityKeeper.CreateIncentive(c, w.poolID, w.addr[u], sdk.NewCoin("inca", osmomath.NewInt(1_000_000)),
				osmomath.NewDec(int64(1+w.rng.Intn(100))), c.BlockTime(), cltypes.SupportedUptimes[w.rng.Intn(3)])
			return err
		})
		return
	default:
		dt := time.Duration(1+w.rng.Intn(3600)) * time.Second
		switch w.rng.Intn(4) {
		case 0:
			dt = time.Duration(1+w.rng.Intn(72)) * time.Hour
		case 1:
			dt = w.unbonding + time.Hour
		}
		w.Ctx = w.Ctx.WithBlockTime(w.Ctx.BlockTime().Add(dt)).WithBlockHeight(w.Ctx.BlockHeight() + 1)
		w.env("unlock-matured", func(c sdk.Context) error {
			// what the end blocker of x/lockup does
			w.App.LockupKeeper.DeleteAllMaturedSyntheticLocks(c)
			w.App.LockupKeeper.WithdrawMaturedLocks(c, 1000)
			return nil
		})
		return
	}
	if d != nil {
		w.op(d, s)
	}
}

// ensure brings the world (through ordinary committed owner messages, logged like all others) into a
// state where every message kind can succeed for some owner and every special class of wrong sender
// exists: a lock eligible for delegation, a delegated one, an undelegating one, a force-unlockable one,
// a lock with a reward receiver, a transferred position, a denomination whose admin changed, a holder.
func (w *ownWorld) ensure() {
	state := func(s *snap, id uint64) (bonded, unbonding bool) {
		for _, sl := range s.synth[id] {
			bonded = bonded || strings.Contains(sl.SynthDenom, "superbonding")
			unbonding = unbonding || strings.Contains(sl.SynthDenom, "superunbonding")
		}
		return
	}
	find := func(pred func(s *snap, l lockuptypes.PeriodLock) bool) (string, *snap) {
		s := w.snapshot(w.Ctx)
		for _, o := range w.objsOf(s, "lock:") {
			if pred(s, s.locks[objID(o)]) {
				return o, s
			}
		}
		return "", s
	}
	gamm := func(l lockuptypes.PeriodLock) bool { return len(l.Coins) == 1 && l.Coins[0].Denom == w.gammDenom }
	fresh := func(u string) string { // a new gamm-share lock of u, eligible for delegation
		w.subN++
		before := w.App.LockupKeeper.GetLastLockID(w.Ctx)
		w.op(w.lockTokens(u, w.gammDenom, w.unbonding+time.Duration(w.subN)*time.Minute, 50_000+int64(w.rng.Intn(1000))), w.snapshot(w.Ctx))
		if after := w.App.LockupKeeper.GetLastLockID(w.Ctx); after != before+1 {
			w.t.Fatalf("ensure: no new lock (%d -> %d)", before, after)
		}
		return fmt.Sprintf("lock:%d", before+1)
	}
	act := func(kind, obj string) {
		s := w.snapshot(w.Ctx)
		d := w.build(kind, obj, s.own[obj], s, 0)
		if out := w.op(d, s); !out.OK {
			w.t.Fatalf("ensure: %s on %s by its owner failed: %s", kind, obj, out.Err)
		}
	}
	eligible := func(s *snap, l lockuptypes.PeriodLock) bool {
		b, u := state(s, l.ID)
		return gamm(l) && !b && !u && !l.IsUnlocking() && l.Duration >= w.unbonding
	}
	if o, _ := find(func(s *snap, l lockuptypes.PeriodLock) bool { b, _ := state(s, l.ID); return b }); o == "" {
		act("sf.delegate", fresh(w.pick(w.users)))
	}
	if o, _ := find(func(s *snap, l lockuptypes.PeriodLock) bool { _, u := state(s, l.ID); return u && !l.IsUnlocking() }); o == "" {
		n := fresh(w.pick(w.users))
		act("sf.delegate", n)
		act("sf.undelegate", n)
	}
	if o, _ := find(eligible); o == "" {
		fresh(w.pick(w.users))
	}
	if o, _ := find(func(s *snap, l lockuptypes.PeriodLock) bool {
		return l.Owner == w.bech("u5") && len(s.synth[l.ID]) == 0
	}); o == "" {
		w.op(w.lockTokens("u5", "lkb", time.Duration(1+w.rng.Intn(30))*time.Hour, 7000), w.snapshot(w.Ctx))
	}
	if o, _ := find(func(s *snap, l lockuptypes.PeriodLock) bool {
		return l.RewardReceiverAddress != "" && l.RewardReceiverAddress != l.Owner
	}); o == "" {
		if p, _ := find(func(s *snap, l lockuptypes.PeriodLock) bool { return true }); p != "" {
			act("lock.setrr", p)
		}
	}
	s := w.snapshot(w.Ctx)
	moved := func(prefix string) bool {
		for _, o := range w.objsOf(s, prefix) {
			if len(w.prev[o]) > 0 && !w.prev[o][s.own[o]] {
				return true
			}
		}
		return false
	}
	if !moved("pos:") {
		for _, o := range w.objsOf(s, "pos:") {
			if d := w.build("cl.transfer", o, s.own[o], s, 0); d != nil {
				if out := w.op(d, s); out.OK {
					break
				}
				s = w.snapshot(w.Ctx)
			}
		}
	}
	s = w.snapshot(w.Ctx)
	live := ""
	for _, o := range w.objsOf(s, "denom:") {
		if s.own[o] != "" && w.isUser(s.own[o]) {
			live = o
		}
	}
	if live == "" {
		u := w.pick(w.users)
		w.op(w.createDenom(u), s)
		s = w.snapshot(w.Ctx)
		for _, o := range w.objsOf(s, "denom:") {
			if s.own[o] == u {
				live = o
			}
		}
	}
	if !moved("denom:") {
		act("tf.admin", live)
		s = w.snapshot(w.Ctx)
	}
	// somebody other than the admin holds the live denomination
	di := s.denoms[live]
	holder := w.otherUser(s.own[live])
	if w.App.BankKeeper.GetBalance(w.Ctx, w.addr[holder], di.denom).Amount.LT(osmomath.NewInt(10)) {
		w.op(&delivery{kind: "tf.mint", obj: live, sender: s.own[live], to: holder,
			msg: tftypes.NewMsgMintTo(w.bech(s.own[live]), sdk.NewCoin(di.denom, osmomath.NewInt(50)), w.bech(holder))}, s)
	}
}

// sweep: every object x every kind x every sender, on discarded branches.
func (w *ownWorld) sweep(maxObjs int) int {
	s := w.snapshot(w.Ctx)
	// superfluid intermediary accounts are senders too
	for i, ia := range w.App.SuperfluidKeeper.GetAllIntermediaryAccounts(w.Ctx) {
		n := fmt.Sprintf("sfia%d", i+1)
		if _, known := w.nameOf[ia.GetAccAddress().String()]; !known {
			w.set(n, ia.GetAccAddress())
			w.special = append(w.special, n)
			w.roleOf[n] = "intermediary"
		}
	}
	senders := append(append([]string{}, w.users...), w.special...)
	fg0 := map[string]string{}
	for _, sd := range senders {
		fg0[sd] = foreign(s, sd, s)
	}
	n := 0
	objs := sortedKeys(s.own)
	if maxObjs > 0 && len(objs) > maxObjs { // keep a random subset, every kind of object represented
		w.rng.Shuffle(len(objs), func(i, j int) { objs[i], objs[j] = objs[j], objs[i] })
		objs = objs[:maxObjs]
		sort.Strings(objs)
	}
	for _, o := range objs {
		for _, k := range kindsFor(o) {
			for _, sd := range senders {
				for v := 0; v < 2; v++ {
					d := w.build(k, o, sd, s, v)
					if d == nil {
						continue
					}
					_, ev := w.run(d, s, false, fg0[sd])
					w.tw.Emit(ev)
					n++
				}
			}
		}
	}
	for _, sd := range senders {
		_, ev := w.run(&delivery{kind: "lock.beginall", sender: sd, msg: &lockuptypes.MsgBeginUnlockingAll{Owner: w.bech(sd)}}, s, false, fg0[sd])
		w.tw.Emit(ev)
		_, ev = w.run(w.createDenom(sd), s, false, fg0[sd])
		w.tw.Emit(ev)
		n += 2
	}
	return n
}

func TestRecordOwn(t *testing.T) {
	outp := os.Getenv("VERIF_OUT")
	if outp == "" {
		t.Skip("VERIF_OUT not set")
	}
	seed := tracelog.EnvInt("VERIF_SEED", 1)
	nh := int(tracelog.EnvInt("VERIF_HISTORIES", 2))
	nops := int(tracelog.EnvInt("VERIF_OPS", 80))
	every := int(tracelog.EnvInt("VERIF_SWEEP_EVERY", 20))
	maxObjs := int(tracelog.EnvInt("VERIF_SWEEP_OBJS", 0))
	tw, err := tracelog.NewWriter(outp)
	if err != nil {
		t.Fatal(err)
	}
	tries, crossed := 0, 0
	for h := 0; h < nh; h++ {
		w := newOwnWorld(t, tw, seed*1000+int64(h))
		// a first population, silently
		must := func(d *delivery) {
			if out := w.deliver(w.Ctx, d.msg, true, false, nil); !out.OK {
				t.Fatalf("setup %s: %s", d.kind, out.Err)
			}
		}
		must(&delivery{kind: "cl.create", msg: &cltypes.MsgCreatePosition{PoolId: w.poolID, Sender: w.bech("u1"), LowerTick: cltypes.MinInitializedTick, UpperTick: cltypes.MaxTick,
			TokensProvided:  sdk.NewCoins(sdk.NewCoin(clD0, osmomath.NewInt(1_000_000_000)), sdk.NewCoin(clD1, osmomath.NewInt(1_000_000_000))),
			TokenMinAmount0: osmomath.ZeroInt(), TokenMinAmount1: osmomath.ZeroInt()}})
		must(w.lockTokens("u5", "lka", 24*time.Hour, 5000))
		must(w.createDenom("u1"))
		w.dg = w.fullDigest(w.Ctx)
		s0 := w.snapshot(w.Ctx)
		tw.Emit(map[string]any{"e": "cfg", "seed": seed*1000 + int64(h), "own": s0.own, "dg": w.dg, "users": w.users, "special": w.special,
			"forceUnlockAllowed": []string{"u4", "u5"}, "unbondingSeconds": int64(w.unbonding / time.Second)})
		for i := 1; i <= nops; i++ {
			w.step()
			if i%every == 0 || i == nops {
				w.ensure()
				tries += w.sweep(maxObjs)
			}
		}
		crossed += w.crossed
	}
	if err := tw.Close(); err != nil {
		t.Fatal(err)
	}
	fmt.Printf("RECORDED events=%d histories=%d tries=%d digest_crosschecks=%d\n", tw.N, nh, tries, crossed)
}
