// Package ownership holds the drivers of property C20 (only the owner / admin may
// move or alter what they own):
//
//   - tf_test.go   x/tokenfactory as a state machine: random histories recorded for
//     trace validation (TestRecordTF) and TLC-generated behaviours replayed on
//     the real msg server with the WHOLE message alphabet tried at every
//     state (TestReplayTF);
//   - own_test.go  a world of positions, locks, superfluid-delegated locks and
//     factory denominations driven through a random history, with wrong-sender
//     sweeps at many points (TestRecordOwn).
//
// This file: delivery of messages the way baseapp does it (ValidateBasic, handler
// on a branch, written only on success) with EXACT detection of what a handler
// wrote to its branch (every store of the app), and the full-state digest.
package ownership

import (
	"bytes"
	"crypto/sha256"
	"encoding/hex"
	"fmt"
	"sort"

	storetypes "cosmossdk.io/store/types"
	sdk "github.com/cosmos/cosmos-sdk/types"

	osmoapp "github.com/osmosis-labs/osmosis/v31/app"

	"verif/harness/apphelp"
)

// touchLog records every key a handler set or deleted, per store.
type touchLog struct {
	keys map[string]map[string]struct{}
}

func newTouchLog() *touchLog { return &touchLog{keys: map[string]map[string]struct{}{}} }

func (t *touchLog) touch(store string, key []byte) {
	m := t.keys[store]
	if m == nil {
		m = map[string]struct{}{}
		t.keys[store] = m
	}
	m[string(key)] = struct{}{}
}

// recMS wraps a cache multistore: every persistent KV store handed out records
// writes; nested branches (ctx.CacheContext inside handlers) record as well.
type innerCMS = storetypes.CacheMultiStore

type recMS struct {
	innerCMS
	log *touchLog
}

func (m recMS) GetKVStore(k storetypes.StoreKey) storetypes.KVStore {
	inner := m.innerCMS.GetKVStore(k)
	if _, ok := k.(*storetypes.KVStoreKey); !ok {
		return inner
	}
	return recKV{KVStore: inner, name: k.Name(), log: m.log}
}

func (m recMS) GetStore(k storetypes.StoreKey) storetypes.Store {
	inner := m.innerCMS.GetStore(k)
	if _, ok := k.(*storetypes.KVStoreKey); !ok {
		return inner
	}
	if kv, ok := inner.(storetypes.KVStore); ok {
		return recKV{KVStore: kv, name: k.Name(), log: m.log}
	}
	return inner
}

func (m recMS) CacheMultiStore() storetypes.CacheMultiStore {
	return recMS{innerCMS: m.innerCMS.CacheMultiStore(), log: m.log}
}

type recKV struct {
	storetypes.KVStore
	name string
	log  *touchLog
}

func (s recKV) Set(k, v []byte) {
	s.log.touch(s.name, k)
	s.KVStore.Set(k, v)
}

func (s recKV) Delete(k []byte) {
	s.log.touch(s.name, k)
	s.KVStore.Delete(k)
}

// change is one key whose value on the branch differs from the parent state.
type change struct {
	Store string `json:"store"`
	Key   string `json:"key"` // hex
	Old   string `json:"old"` // hex, "" = absent
	New   string `json:"new"`
}

type base struct {
	*apphelp.World
	storeNames []string
}

func newBase(w *apphelp.World) *base {
	b := &base{World: w}
	// every registered module account exists, as on a live chain (the test app creates them lazily;
	// a plain send to the address of a not yet created module account would plant a base account there)
	names := []string{}
	for n := range osmoapp.GetMaccPerms() {
		names = append(names, n)
	}
	sort.Strings(names)
	for _, n := range names {
		w.App.AccountKeeper.GetModuleAccount(w.Ctx, n)
	}
	for n := range w.App.GetKVStoreKey() {
		b.storeNames = append(b.storeNames, n)
	}
	sort.Strings(b.storeNames)
	return b
}

// fullDigest hashes every key/value of every persistent store as seen by ctx.
func (b *base) fullDigest(ctx sdk.Context) string {
	h := sha256.New()
	var lenbuf [8]byte
	put := func(bz []byte) {
		n := len(bz)
		for i := 0; i < 8; i++ {
			lenbuf[i] = byte(n >> (8 * i))
		}
		h.Write(lenbuf[:])
		h.Write(bz)
	}
	keys := b.App.GetKVStoreKey()
	for _, n := range b.storeNames {
		put([]byte(n))
		st := ctx.MultiStore().GetKVStore(keys[n])
		it := st.Iterator(nil, nil)
		for ; it.Valid(); it.Next() {
			put(it.Key())
			put(it.Value())
		}
		it.Close()
	}
	return hex.EncodeToString(h.Sum(nil)[:12])
}

// outcome of one delivery.
type outcome struct {
	OK       bool
	Panicked bool
	VB       bool // refused by ValidateBasic (the handler never ran)
	Err      string
	Res      *sdk.Result
	Changes  []change // net writes of the handler on its branch (before commit / discard)
}

func trunc(s string, n int) string {
	if len(s) > n {
		return s[:n]
	}
	return s
}

// deliver runs msg like a transaction on a branch of ctx whose writes are recorded.
// commit: write the branch when the handler succeeds.  skipVB: do not run
// ValidateBasic (used for the one message shape the msg server supports but
// ValidateBasic rejects: ChangeAdmin to "").  After the handler returned, and
// before the branch is written or dropped, inspect (if not nil) sees the branch.
func (b *base) deliver(ctx sdk.Context, msg sdk.Msg, commit, skipVB bool, inspect func(branch sdk.Context, out *outcome)) (out outcome) {
	if vb, ok := msg.(interface{ ValidateBasic() error }); ok && !skipVB {
		if err := vb.ValidateBasic(); err != nil {
			out = outcome{VB: true, Err: "validate-basic: " + trunc(err.Error(), 200), Changes: []change{}}
			if inspect != nil {
				inspect(ctx, &out)
			}
			return out
		}
	}
	h := b.App.GetBaseApp().MsgServiceRouter().Handler(msg)
	if h == nil {
		panic(fmt.Sprintf("no handler for %T", msg))
	}
	log := newTouchLog()
	cms := ctx.MultiStore().CacheMultiStore()
	cc := ctx.WithMultiStore(recMS{innerCMS: cms, log: log}).WithEventManager(sdk.NewEventManager())
	func() {
		defer func() {
			if r := recover(); r != nil {
				out = outcome{Panicked: true, Err: trunc(fmt.Sprint("panic: ", r), 300)}
			}
		}()
		res, err := h(cc, msg)
		if err != nil {
			out = outcome{Err: trunc(err.Error(), 300)}
			return
		}
		out = outcome{OK: true, Res: res}
	}()
	out.Changes = b.netChanges(ctx, cms, log)
	if inspect != nil {
		inspect(ctx.WithMultiStore(cms), &out)
	}
	if out.OK && commit {
		cms.Write()
	}
	return out
}

func (b *base) netChanges(parent sdk.Context, cms storetypes.CacheMultiStore, log *touchLog) []change {
	res := []change{}
	keys := b.App.GetKVStoreKey()
	stores := make([]string, 0, len(log.keys))
	for s := range log.keys {
		stores = append(stores, s)
	}
	sort.Strings(stores)
	for _, s := range stores {
		sk := keys[s]
		if sk == nil {
			continue
		}
		ps := parent.MultiStore().GetKVStore(sk)
		cs := cms.GetKVStore(sk)
		ks := make([]string, 0, len(log.keys[s]))
		for k := range log.keys[s] {
			ks = append(ks, k)
		}
		sort.Strings(ks)
		for _, k := range ks {
			o, n := ps.Get([]byte(k)), cs.Get([]byte(k))
			if !bytes.Equal(o, n) || (o == nil) != (n == nil) {
				res = append(res, change{Store: s, Key: hex.EncodeToString([]byte(k)), Old: hex.EncodeToString(o), New: hex.EncodeToString(n)})
			}
		}
	}
	return res
}

// branchDigest: the digest of the branch given the parent's digest and the net changes.
func branchDigest(parent string, ch []change) string {
	if len(ch) == 0 {
		return parent
	}
	h := sha256.New()
	h.Write([]byte(parent))
	for _, c := range ch {
		h.Write([]byte(c.Store + "|" + c.Key + "|" + c.Old + "|" + c.New + ";"))
	}
	return "b" + hex.EncodeToString(h.Sum(nil)[:12])
}

func showChanges(ch []change, n int) []string {
	res := []string{}
	for i, c := range ch {
		if i >= n {
			res = append(res, fmt.Sprintf("... %d more", len(ch)-n))
			break
		}
		res = append(res, fmt.Sprintf("%s/%s: %s -> %s", c.Store, trunc(c.Key, 80), trunc(c.Old, 60), trunc(c.New, 60)))
	}
	return res
}
