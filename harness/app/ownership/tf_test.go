// x/tokenfactory driven as the state machine of spec/TokenFactory.tla.
//
// TestReplayTF: TLC prints, for every distinct reachable state of the bounded
// model, the shortest message sequence reaching it, the expected state and the
// table of messages the specification accepts there.  The sequences form a prefix
// tree; it is walked once on the real msg server (nested branches), the projected
// state is compared at every node, and the WHOLE alphabet (every sender x kind x
// arguments) is tried there on discarded branches: accepted messages must have
// exactly the specified effect, every other message must be refused and must not
// have written a single key of any store.
//
// TestRecordTF: seeded random histories through the real msg server, every
// message with its outcome and the projected state logged for TLC.
package ownership

import (
	"encoding/json"
	"fmt"
	"hash/fnv"
	"math/rand"
	"os"
	"sort"
	"strings"
	"testing"

	wasmkeeper "github.com/CosmWasm/wasmd/x/wasm/keeper"
	sdk "github.com/cosmos/cosmos-sdk/types"
	authtypes "github.com/cosmos/cosmos-sdk/x/auth/types"
	banktypes "github.com/cosmos/cosmos-sdk/x/bank/types"
	distrtypes "github.com/cosmos/cosmos-sdk/x/distribution/types"

	"github.com/osmosis-labs/osmosis/osmomath"
	tfkeeper "github.com/osmosis-labs/osmosis/v31/x/tokenfactory/keeper"
	tftypes "github.com/osmosis-labs/osmosis/v31/x/tokenfactory/types"

	"verif/harness/apphelp"
	"verif/harness/tracelog"
)

const hookWasm = "/repo/x/tokenfactory/keeper/testdata/no100.wasm"
const feeDenom = "uosmo"

// specMsg is the message format of TokenFactory.tla.
type specMsg struct {
	K   string `json:"k"`
	S   string `json:"s"`
	C   string `json:"c"`
	Sub string `json:"sub"`
	Amt int64  `json:"amt"`
	X   string `json:"x"`
	Y   string `json:"y"`
}

func (m specMsg) key() string {
	return fmt.Sprintf("%s|%s|%s|%s|%d|%s|%s", m.K, m.S, m.C, m.Sub, m.Amt, m.X, m.Y)
}

func (m specMsg) denomKey() string {
	if m.K == "create" {
		return m.S + "/" + m.Sub
	}
	return m.C + "/" + m.Sub
}

type denomDoc struct {
	C      string           `json:"c"`
	Sub    string           `json:"sub"`
	Admin  string           `json:"admin"`
	Bal    map[string]int64 `json:"bal"`
	Supply int64            `json:"supply"`
	Meta   string           `json:"meta"`
	Hook   string           `json:"hook"`
}

func (d denomDoc) key() string { return d.C + "/" + d.Sub }

type tfWorld struct {
	*base
	accts   []string
	mods    []string
	holders []string
	addr    map[string]sdk.AccAddress
	nameOf  map[string]string
	subReal map[string]string // label -> real subdenom
	subLab  map[string]string
	fee     int64
	nTargets int // module accounts named as targets so far (every second one spelled in upper case)
}

// module accounts standing for abstract names of the bounded model
// ("mod" is protorev: the one module account the bank lets receive funds, so that the guards of
// x/tokenfactory are the only thing that keeps the administrator out of it)
var modAlias = map[string]string{"mod": "protorev", "mod2": distrtypes.ModuleName}

func newTFWorld(t *testing.T, accts, mods, hooks, badhooks, broke []string, fee int64) *tfWorld {
	w := &tfWorld{base: newBase(apphelp.New(t)), accts: accts, mods: mods, addr: map[string]sdk.AccAddress{}, nameOf: map[string]string{},
		subReal: map[string]string{"x": "x", "y": "y", "sl": "a/b", "long": strings.Repeat("z", 44)}, subLab: map[string]string{}, fee: fee}
	for l, r := range w.subReal {
		w.subLab[r] = l
	}
	isBroke := map[string]bool{}
	for _, b := range broke {
		isBroke[b] = true
	}
	set := func(n string, a sdk.AccAddress) {
		w.addr[n] = a
		w.nameOf[a.String()] = n
	}
	for i, n := range accts {
		set(n, apphelp.Acct(100+i))
		if !isBroke[n] {
			w.FundAcc(w.addr[n], sdk.NewCoins(sdk.NewInt64Coin(feeDenom, 1_000_000_000)))
		} else {
			w.FundAcc(w.addr[n], sdk.NewCoins(sdk.NewInt64Coin("stake", 5))) // the account exists, but cannot pay
		}
	}
	for _, n := range mods {
		real := n
		if a, ok := modAlias[n]; ok {
			real = a
		}
		set(n, authtypes.NewModuleAddress(real))
		if !w.App.TokenFactoryKeeper.IsModuleAcc(w.Ctx, w.addr[n]) {
			t.Fatalf("%s (%s) is not a protected module account for x/tokenfactory", n, real)
		}
	}
	w.holders = append(append([]string{}, accts...), mods...)
	for i, n := range badhooks {
		if _, known := w.addr[n]; !known {
			set(n, apphelp.Acct(200+i))
		}
	}
	if len(hooks) > 0 {
		code, err := os.ReadFile(hookWasm)
		if err != nil {
			t.Fatal(err)
		}
		ck := wasmkeeper.NewGovPermissionKeeper(w.App.WasmKeeper)
		creator := apphelp.Acct(99)
		codeID, _, err := ck.Create(w.Ctx, creator, code, nil)
		if err != nil {
			t.Fatal(err)
		}
		for _, n := range hooks {
			ca, _, err := ck.Instantiate(w.Ctx, codeID, creator, creator, []byte("{}"), "hook "+n, sdk.NewCoins())
			if err != nil {
				t.Fatal(err)
			}
			set(n, ca)
		}
	}
	p := w.App.TokenFactoryKeeper.GetParams(w.Ctx)
	if fee > 0 {
		p.DenomCreationFee = sdk.NewCoins(sdk.NewInt64Coin(feeDenom, fee))
	} else {
		p.DenomCreationFee = nil
	}
	w.App.TokenFactoryKeeper.SetParams(w.Ctx, p)
	return w
}

func (w *tfWorld) name(bech string) string {
	if bech == "" {
		return ""
	}
	if n, ok := w.nameOf[bech]; ok {
		return n
	}
	return "?" + bech
}

func (w *tfWorld) bech(name string) string {
	if name == "" {
		return ""
	}
	a, ok := w.addr[name]
	if !ok {
		panic("unknown account name " + name)
	}
	return a.String()
}

// target renders the address of an account a message points at.  Every second time a protected module account
// is named it is spelled in all upper-case bech32: a legal spelling (BIP-173) that decodes to the same account,
// so guards that compare address STRINGS instead of decoded addresses are exercised.
func (w *tfWorld) target(name string) string {
	b := w.bech(name)
	if b != "" && w.isMod(name) {
		w.nTargets++
		if w.nTargets%2 == 0 {
			return strings.ToUpper(b)
		}
	}
	return b
}

func (w *tfWorld) denom(c, sub string) string {
	real, ok := w.subReal[sub]
	if !ok {
		real = sub
	}
	return "factory/" + w.bech(c) + "/" + real
}

func (w *tfWorld) isMod(n string) bool {
	for _, m := range w.mods {
		if m == n {
			return true
		}
	}
	return false
}

// run executes one message of the specification's alphabet.
func (w *tfWorld) run(ctx sdk.Context, m specMsg, commit bool, inspect func(sdk.Context, *outcome)) outcome {
	d := ""
	if m.K != "create" {
		d = w.denom(m.C, m.Sub)
	}
	coin := func() sdk.Coin { return sdk.NewCoin(d, osmomath.NewInt(m.Amt)) }
	var msg sdk.Msg
	skipVB := false
	switch m.K {
	case "create":
		real, ok := w.subReal[m.Sub]
		if !ok {
			real = m.Sub
		}
		msg = tftypes.NewMsgCreateDenom(w.bech(m.S), real)
	case "mint":
		msg = tftypes.NewMsgMintTo(w.bech(m.S), coin(), w.target(m.X))
	case "burn":
		msg = tftypes.NewMsgBurnFrom(w.bech(m.S), coin(), w.target(m.X))
	case "force":
		msg = tftypes.NewMsgForceTransfer(w.bech(m.S), coin(), w.target(m.X), w.target(m.Y))
	case "admin":
		cm := tftypes.NewMsgChangeAdmin(w.bech(m.S), d, w.bech(m.X))
		msg = cm
		if m.X == "" {
			// the msg server supports renouncing (new admin ""), but ValidateBasic - which the message
			// router runs again inside the handler - rejects the empty address: the renounced state is
			// reached the way the repository's own tests reach it, by calling the msg server itself
			srv := tfkeeper.NewMsgServerImpl(*w.App.TokenFactoryKeeper)
			return w.deliverFn(ctx, func(c sdk.Context) (*sdk.Result, error) {
				_, err := srv.ChangeAdmin(c, cm)
				return &sdk.Result{}, err
			}, commit, inspect)
		}
	case "meta":
		msg = tftypes.NewMsgSetDenomMetadata(w.bech(m.S), banktypes.Metadata{Description: m.X, Base: d, Display: d, Name: d, Symbol: d,
			DenomUnits: []*banktypes.DenomUnit{{Denom: d, Exponent: 0}}})
	case "hook":
		msg = tftypes.NewMsgSetBeforeSendHook(w.bech(m.S), d, w.bech(m.X))
	case "send":
		switch {
		case w.isMod(m.X) && w.addr[m.X].Equals(authtypes.NewModuleAddress(distrtypes.ModuleName)):
			msg = &distrtypes.MsgFundCommunityPool{Amount: sdk.NewCoins(coin()), Depositor: w.bech(m.S)}
		case w.isMod(m.X) && w.App.BankKeeper.BlockedAddr(w.addr[m.X]):
			// deposits into module accounts the bank blocks for plain sends go through the bank keeper
			// (as the modules' own entry points do)
			return w.deliverFn(ctx, func(c sdk.Context) (*sdk.Result, error) {
				return &sdk.Result{}, w.App.BankKeeper.SendCoins(c, w.addr[m.S], w.addr[m.X], sdk.NewCoins(coin()))
			}, commit, inspect)
		default:
			msg = banktypes.NewMsgSend(w.addr[m.S], w.addr[m.X], sdk.NewCoins(coin()))
		}
	default:
		panic("unknown message kind " + m.K)
	}
	return w.deliver(ctx, msg, commit, skipVB, inspect)
}

// deliverFn: like deliver for a keeper-level call.
func (b *base) deliverFn(ctx sdk.Context, f func(sdk.Context) (*sdk.Result, error), commit bool, inspect func(sdk.Context, *outcome)) (out outcome) {
	log := newTouchLog()
	cms := ctx.MultiStore().CacheMultiStore()
	cc := ctx.WithMultiStore(recMS{innerCMS: cms, log: log}).WithEventManager(sdk.NewEventManager())
	func() {
		defer func() {
			if r := recover(); r != nil {
				out = outcome{Panicked: true, Err: trunc(fmt.Sprint("panic: ", r), 300)}
			}
		}()
		res, err := f(cc)
		if err != nil {
			out = outcome{Err: trunc(err.Error(), 300)}
			return
		}
		out = outcome{OK: true, Res: res}
	}()
	out.Changes = b.netChanges(ctx, cms, log)
	if inspect != nil {
		inspect(ctx.WithMultiStore(cms), &out)
	}
	if out.OK && commit {
		cms.Write()
	}
	return out
}

// project reads the abstract state of TokenFactory.tla back from the keepers.
func (w *tfWorld) project(ctx sdk.Context) []denomDoc {
	k := w.App.TokenFactoryKeeper
	res := []denomDoc{}
	it := k.GetAllDenomsIterator(ctx)
	denoms := []string{}
	for ; it.Valid(); it.Next() {
		denoms = append(denoms, string(it.Value()))
	}
	it.Close()
	for _, d := range denoms {
		doc := denomDoc{Bal: map[string]int64{}}
		creator, sub, err := tftypes.DeconstructDenom(d)
		if err != nil {
			doc.C, doc.Sub = "?bad", d
		} else {
			doc.C = w.name(creator)
			if l, ok := w.subLab[sub]; ok {
				doc.Sub = l
			} else {
				doc.Sub = "?" + sub
			}
			// the creator index must list it under that creator and nobody else
			r, err := k.DenomsFromCreator(ctx, &tftypes.QueryDenomsFromCreatorRequest{Creator: creator})
			found := false
			if err == nil {
				for _, x := range r.Denoms {
					found = found || x == d
				}
			}
			if !found {
				doc.C = "?unlisted:" + doc.C
			}
		}
		am, err := k.GetAuthorityMetadata(ctx, d)
		if err != nil {
			doc.Admin = "?err"
		} else {
			doc.Admin = w.name(am.Admin)
		}
		for _, h := range w.holders {
			doc.Bal[h] = w.App.BankKeeper.GetBalance(ctx, w.addr[h], d).Amount.Int64()
		}
		doc.Supply = w.App.BankKeeper.GetSupply(ctx, d).Amount.Int64()
		if md, ok := w.App.BankKeeper.GetDenomMetaData(ctx, d); ok {
			doc.Meta = md.Description
			if md.Base != d {
				doc.Meta = "?base:" + md.Base
			}
		} else {
			doc.Meta = "?none"
		}
		doc.Hook = w.name(k.GetBeforeSendHook(ctx, d))
		res = append(res, doc)
	}
	sort.Slice(res, func(i, j int) bool { return res[i].key() < res[j].key() })
	return res
}

func sameDoc(a, b denomDoc) bool {
	if a.C != b.C || a.Sub != b.Sub || a.Admin != b.Admin || a.Supply != b.Supply || a.Meta != b.Meta || a.Hook != b.Hook || len(a.Bal) != len(b.Bal) {
		return false
	}
	for k, v := range a.Bal {
		if w, ok := b.Bal[k]; !ok || w != v {
			return false
		}
	}
	return true
}

func docMap(ds []denomDoc) map[string]denomDoc {
	m := map[string]denomDoc{}
	for _, d := range ds {
		m[d.key()] = d
	}
	return m
}

func sameState(a, b []denomDoc) bool {
	if len(a) != len(b) {
		return false
	}
	mb := docMap(b)
	for _, d := range a {
		o, ok := mb[d.key()]
		if !ok || !sameDoc(d, o) {
			return false
		}
	}
	return true
}

// ---------------------------------------------------------------------------
// replay of TLC-generated behaviours

type header struct {
	Accts    []string `json:"accts"`
	Mods     []string `json:"mods"`
	Hooks    []string `json:"hooks"`
	BadHooks []string `json:"badhooks"`
	Broke    []string `json:"broke"`
	Senders  []string `json:"senders"`
	Creators []string `json:"creators"`
	Subs     []string `json:"subs"`
	Amts     []int64  `json:"amts"`
	Metas    []string `json:"metas"`
	MaxSteps int      `json:"maxsteps"`
}

type okEntry struct {
	M    specMsg  `json:"m"`
	Post denomDoc `json:"post"`
}

type genDoc struct {
	Path   []specMsg  `json:"path"`
	St     []denomDoc `json:"st"`
	Nalpha int        `json:"nalpha"`
	Ok     []okEntry  `json:"ok"`
}

type node struct {
	doc      *genDoc
	msg      specMsg
	children map[string]*node
	order    []string
}

type mismatch struct {
	Path []specMsg `json:"path"`
	Msg  *specMsg  `json:"msg,omitempty"`
	What string    `json:"what"`
	Want any       `json:"want"`
	Got  any       `json:"got"`
}

type replayer struct {
	shard    int
	nshards  int
	w        *tfWorld
	alpha    []specMsg
	rng      *rand.Rand
	nodes    int
	tested   int
	steps    int
	accepted int
	refused  int
	vb       int
	crossed  int
	kinds    map[string]int
	refKinds map[string]int
	mm       []mismatch
}

// alphabet mirrors Alphabet of spec/mc/MCTokenFactory.tla.
func alphabet(h header) []specMsg {
	res := []specMsg{}
	holders := append(append([]string{}, h.Accts...), h.Mods...)
	withEmpty := append(append([]string{}, holders...), "")
	for _, s := range h.Creators {
		for _, sub := range h.Subs {
			res = append(res, specMsg{K: "create", S: s, Sub: sub})
		}
	}
	for _, c := range h.Creators {
		for _, sub := range h.Subs {
			for _, s := range h.Senders {
				for _, a := range h.Amts {
					for _, x := range withEmpty {
						res = append(res, specMsg{K: "mint", S: s, C: c, Sub: sub, Amt: a, X: x})
						res = append(res, specMsg{K: "burn", S: s, C: c, Sub: sub, Amt: a, X: x})
					}
					for _, x := range holders {
						for _, y := range holders {
							res = append(res, specMsg{K: "force", S: s, C: c, Sub: sub, Amt: a, X: x, Y: y})
						}
					}
				}
				for _, x := range withEmpty {
					res = append(res, specMsg{K: "admin", S: s, C: c, Sub: sub, X: x})
				}
				for _, x := range h.Metas {
					res = append(res, specMsg{K: "meta", S: s, C: c, Sub: sub, X: x})
				}
				hk := map[string]bool{"": true}
				for _, x := range h.Hooks {
					hk[x] = true
				}
				for _, x := range h.BadHooks {
					hk[x] = true
				}
				for x := range hk {
					res = append(res, specMsg{K: "hook", S: s, C: c, Sub: sub, X: x})
				}
			}
			for _, s := range h.Accts {
				for _, a := range h.Amts {
					for _, x := range holders {
						if x != s {
							res = append(res, specMsg{K: "send", S: s, C: c, Sub: sub, Amt: a, X: x})
						}
					}
				}
			}
		}
	}
	sort.Slice(res, func(i, j int) bool { return res[i].key() < res[j].key() })
	return res
}

func (rp *replayer) bad(path []specMsg, m *specMsg, what string, want, got any) {
	if len(rp.mm) < 20 {
		rp.mm = append(rp.mm, mismatch{Path: append([]specMsg{}, path...), Msg: m, What: what, Want: want, Got: got})
	}
}

func (rp *replayer) walk(ctx sdk.Context, n *node, path []specMsg) {
	if len(rp.mm) >= 20 {
		return
	}
	w := rp.w
	rp.nodes++
	pre := w.project(ctx)
	if n.doc == nil {
		rp.bad(path, nil, "generator printed no document for this prefix", "doc", "none")
		return
	}
	if !sameState(pre, n.doc.St) {
		rp.bad(path, nil, "state reached on the real code differs from the specification's", n.doc.St, pre)
		return
	}
	if n.doc.Nalpha != len(rp.alpha) {
		rp.bad(path, nil, "INFRA: alphabet of the harness and of the model differ", n.doc.Nalpha, len(rp.alpha))
		return
	}
	mine := rp.nshards <= 1
	if !mine { // the alphabet is tried at this node by exactly one of the parallel replay processes
		h := fnv.New32a()
		for _, m := range path {
			h.Write([]byte(m.key() + ";"))
		}
		mine = int(h.Sum32()%uint32(rp.nshards)) == rp.shard
	}
	if !mine {
		rp.walkChildren(ctx, n, path)
		return
	}
	rp.tested++
	okset := map[string]denomDoc{}
	for _, e := range n.doc.Ok {
		okset[e.M.key()] = e.Post
	}
	preMap := docMap(pre)
	for i := range rp.alpha {
		m := rp.alpha[i]
		post, expectOK := okset[m.key()]
		var got []denomDoc
		cross := rp.rng.Intn(211) == 0
		var fullBranch string
		out := w.run(ctx, m, false, func(br sdk.Context, _ *outcome) {
			if expectOK {
				got = w.project(br)
			}
			if cross {
				fullBranch = w.fullDigest(br)
			}
		})
		if cross { // the write detector against the full-state digest
			rp.crossed++
			if (fullBranch != w.fullDigest(ctx)) != (len(out.Changes) > 0) {
				rp.bad(path, &m, "INFRA: write detector and full-state digest disagree", len(out.Changes), fullBranch)
			}
		}
		if !expectOK {
			rp.refused++
			rp.refKinds[m.K]++
			if out.VB {
				rp.vb++
			}
			if out.OK {
				rp.bad(path, &m, "the specification refuses this message, the code accepted it", "refused", map[string]any{"changes": showChanges(out.Changes, 6)})
			} else if len(out.Changes) > 0 && !(m.K == "create" || m.K == "send" || (m.S != "" && preMap[m.denomKey()].Admin == m.S)) {
				// (the administrator's own failing message may have written to its branch before failing:
				// the transaction is rolled back; anybody else must be refused before anything is written)
				rp.bad(path, &m, "refused message changed the state on the handler's branch", "no writes", map[string]any{"err": out.Err, "changes": showChanges(out.Changes, 6)})
			}
			continue
		}
		rp.accepted++
		rp.kinds[m.K]++
		if !out.OK {
			rp.bad(path, &m, "the specification accepts this message, the code refused it", "ok", out.Err)
			continue
		}
		gm := docMap(got)
		for k, d := range gm {
			if k == m.denomKey() {
				continue
			}
			if o, ok := preMap[k]; !ok || !sameDoc(o, d) {
				rp.bad(path, &m, "a message changed the records of another denomination", preMap[k], d)
			}
		}
		if len(gm) != len(preMap)+map[bool]int{true: 1, false: 0}[m.K == "create"] {
			rp.bad(path, &m, "number of denominations after the message", len(preMap), len(gm))
		}
		if g, ok := gm[m.denomKey()]; !ok || !sameDoc(g, post) {
			rp.bad(path, &m, "effect of an accepted message differs from the specification's", post, gm[m.denomKey()])
		}
	}
	rp.walkChildren(ctx, n, path)
}

func (rp *replayer) walkChildren(ctx sdk.Context, n *node, path []specMsg) {
	w := rp.w
	for _, key := range n.order {
		ch := n.children[key]
		cc, _ := ctx.CacheContext()
		rp.steps++
		out := w.run(cc, ch.msg, true, nil)
		p2 := append(append([]specMsg{}, path...), ch.msg)
		if !out.OK {
			rp.bad(p2, &ch.msg, "a step of a specification behaviour was refused by the code", "ok", out.Err)
			continue
		}
		rp.walk(cc, ch, p2)
	}
}

func TestReplayTF(t *testing.T) {
	in, outp := os.Getenv("VERIF_IN"), os.Getenv("VERIF_OUT")
	if in == "" || outp == "" {
		t.Skip("VERIF_IN / VERIF_OUT not set")
	}
	var h header
	if err := json.Unmarshal([]byte(os.Getenv("VERIF_HEADER")), &h); err != nil {
		t.Fatalf("VERIF_HEADER: %v", err)
	}
	docs, err := tracelog.ReadLines[genDoc](in)
	if err != nil {
		t.Fatal(err)
	}
	root := &node{children: map[string]*node{}}
	for i := range docs {
		n := root
		for _, m := range docs[i].Path {
			ch, ok := n.children[m.key()]
			if !ok {
				ch = &node{msg: m, children: map[string]*node{}}
				n.children[m.key()] = ch
				n.order = append(n.order, m.key())
			}
			n = ch
		}
		n.doc = &docs[i]
	}
	fee := int64(0)
	if len(h.Broke) > 0 {
		fee = 10
	}
	w := newTFWorld(t, h.Accts, h.Mods, h.Hooks, h.BadHooks, h.Broke, fee)
	rp := &replayer{w: w, alpha: alphabet(h), rng: rand.New(rand.NewSource(tracelog.EnvInt("VERIF_SEED", 1))),
		kinds: map[string]int{}, refKinds: map[string]int{}, shard: int(tracelog.EnvInt("VERIF_SHARD", 0)), nshards: int(tracelog.EnvInt("VERIF_NSHARDS", 1))}
	rp.walk(w.Ctx, root, []specMsg{})
	res := map[string]any{"behaviours": len(docs), "nodes": rp.nodes, "nodes_tested": rp.tested, "steps": rp.steps, "alphabet": len(rp.alpha),
		"accepted": rp.accepted, "refused": rp.refused, "refused_by_validate_basic": rp.vb, "digest_crosschecks": rp.crossed,
		"accepted_kinds": rp.kinds, "refused_kinds": rp.refKinds, "mismatches": rp.mm}
	if rp.mm == nil {
		res["mismatches"] = []mismatch{}
	}
	bz, _ := json.Marshal(res)
	if err := os.WriteFile(outp, bz, 0o644); err != nil {
		t.Fatal(err)
	}
	fmt.Printf("REPLAYED behaviours=%d nodes=%d attempts=%d mismatches=%d\n", len(docs), rp.nodes, rp.accepted+rp.refused, len(rp.mm))
}

// ---------------------------------------------------------------------------
// random histories for trace validation (spec/trace/TraceTokenFactory.tla)

type tfEvent struct {
	E       string     `json:"e"`
	M       specMsg    `json:"m"`
	OK      bool       `json:"ok"`
	VB      bool       `json:"vb"`
	Err     string     `json:"err"`
	CanPay  bool       `json:"canpay"`
	Changed bool       `json:"changed"` // a refused message left net writes on the handler's branch
	Writes  []string   `json:"writes"`
	RC      string     `json:"rc"`   // create: creator part of the denom in the response
	RSub    string     `json:"rsub"` // create: subdenom part of the denom in the response
	St      []denomDoc `json:"st"`
}

var (
	trAccts = []string{"a1", "a2", "a3", "a4"}
	trMods  = []string{"distribution", "gov", "protorev", "tokenfactory"}
	trSubs  = []string{"x", "y", "sl"}
	trAmts  = []int64{1, 2, 3, 5, 100, 100}
	trMetas = []string{"m1", "m2", "m3"}
)

func TestRecordTF(t *testing.T) {
	outp := os.Getenv("VERIF_OUT")
	if outp == "" {
		t.Skip("VERIF_OUT not set")
	}
	seed := tracelog.EnvInt("VERIF_SEED", 1)
	nh := int(tracelog.EnvInt("VERIF_HISTORIES", 8))
	nops := int(tracelog.EnvInt("VERIF_OPS", 60))
	tw, err := tracelog.NewWriter(outp)
	if err != nil {
		t.Fatal(err)
	}
	for h := 0; h < nh; h++ {
		recordTF(t, tw, seed*1000+int64(h), nops)
	}
	if err := tw.Close(); err != nil {
		t.Fatal(err)
	}
	fmt.Printf("RECORDED events=%d histories=%d\n", tw.N, nh)
}

// richest ordinary holder of a denomination (name, balance).
func richest(d denomDoc) (string, int64) {
	best, bal := "", int64(0)
	for _, a := range trAccts {
		if d.Bal[a] > bal {
			best, bal = a, d.Bal[a]
		}
	}
	return best, bal
}

// reimportTF restarts the history's chain from an export: the tokenfactory state exported by the module's own
// ExportGenesis is imported (InitGenesis) into a fresh application; the bank's part (balances and metadata of the factory
// denominations, which belong to x/bank's genesis) is carried over by the harness.  Returns nil when some factory coins
// are held by an account outside the history's holders (the harness could not carry them over faithfully).
func reimportTF(t *testing.T, w *tfWorld, broke []string, fee int64) *tfWorld {
	gs := w.App.TokenFactoryKeeper.ExportGenesis(w.Ctx)
	for _, gd := range gs.FactoryDenoms {
		sum := osmomath.ZeroInt()
		for _, h := range w.holders {
			sum = sum.Add(w.App.BankKeeper.GetBalance(w.Ctx, w.addr[h], gd.Denom).Amount)
		}
		if !sum.Equal(w.App.BankKeeper.GetSupply(w.Ctx, gd.Denom).Amount) {
			return nil
		}
	}
	w2 := newTFWorld(t, trAccts, trMods, []string{"hk"}, []string{"nohook"}, broke, fee)
	w2.nTargets = w.nTargets
	w2.App.TokenFactoryKeeper.InitGenesis(w2.Ctx, *gs)
	modAddr := authtypes.NewModuleAddress(tftypes.ModuleName)
	for _, gd := range gs.FactoryDenoms {
		for _, h := range w.holders {
			if b := w.App.BankKeeper.GetBalance(w.Ctx, w.addr[h], gd.Denom); b.IsPositive() {
				if err := w2.App.BankKeeper.MintCoins(w2.Ctx, tftypes.ModuleName, sdk.NewCoins(b)); err != nil {
					t.Fatal(err)
				}
				if err := w2.App.BankKeeper.SendCoins(w2.Ctx, modAddr, w2.addr[h], sdk.NewCoins(b)); err != nil {
					t.Fatal(err)
				}
			}
		}
		if md, ok := w.App.BankKeeper.GetDenomMetaData(w.Ctx, gd.Denom); ok {
			w2.App.BankKeeper.SetDenomMetaData(w2.Ctx, md)
		}
	}
	return w2
}

func recordTF(t *testing.T, tw *tracelog.Writer, seed int64, nops int) {
	rng := rand.New(rand.NewSource(seed))
	fee := int64(0)
	broke := []string{}
	if rng.Intn(2) == 0 {
		fee = 10
		broke = []string{trAccts[rng.Intn(len(trAccts))]}
	}
	w := newTFWorld(t, trAccts, trMods, []string{"hk"}, []string{"nohook"}, broke, fee)
	senders := append(append([]string{}, trAccts...), "gov", "hk")
	pick := func(xs []string) string { return xs[rng.Intn(len(xs))] }
	tw.Emit(map[string]any{"e": "cfg", "seed": seed, "fee": fee, "broke": broke, "gas": w.App.TokenFactoryKeeper.GetParams(w.Ctx).DenomCreationGasConsume,
		"st": w.project(w.Ctx)})
	for i := 0; i < nops; i++ {
		if i == nops/2 || i == 3*nops/4 {
			// the chain is restarted from an export: nothing the specification speaks of may move
			// (in particular a renounced administration stays renounced)
			if w2 := reimportTF(t, w, broke, fee); w2 != nil {
				if os.Getenv("VERIF_DEBUG_REIMPORT") != "" {
					b0, _ := json.Marshal(w.project(w.Ctx))
					b1, _ := json.Marshal(w2.project(w2.Ctx))
					if string(b0) != string(b1) {
						fmt.Printf("REIMPORT-DIFF\n%s\n%s\n", b0, b1)
					}
				}
				w = w2
				tw.Emit(tfEvent{E: "reimport", Writes: []string{}, St: w.project(w.Ctx)})
			}
		}
		st := w.project(w.Ctx)
		var m specMsg
		r := rng.Intn(100)
		if len(st) == 0 || r < 8 {
			m = specMsg{K: "create", S: pick(trAccts), Sub: pick(trSubs)}
		} else {
			d := st[rng.Intn(len(st))]
			if rng.Intn(12) == 0 { // a denomination that may not exist
				d = denomDoc{C: pick(trAccts), Sub: pick(trSubs), Admin: pick(trAccts)}
			}
			s := d.Admin
			if s == "" || rng.Intn(100) < 35 {
				s = pick(senders)
			}
			any := append(append([]string{}, w.holders...), "")
			amt := trAmts[rng.Intn(len(trAmts))]
			m = specMsg{S: s, C: d.C, Sub: d.Sub}
			switch k := rng.Intn(100); {
			case k < 25:
				m.K, m.Amt, m.X = "mint", amt, pick(any)
			case k < 40:
				m.K, m.Amt, m.X = "burn", amt, pick(any)
				if h, b := richest(d); h != "" && rng.Intn(10) < 7 { // somebody who can be burnt from
					m.X = h
					if m.Amt > b && rng.Intn(4) != 0 {
						m.Amt = 1 + rng.Int63n(b)
					}
					if h == m.S && rng.Intn(2) == 0 {
						m.X = ""
					}
				}
			case k < 55:
				m.K, m.Amt, m.X, m.Y = "force", amt, pick(w.holders), pick(w.holders)
				if h, b := richest(d); h != "" && rng.Intn(10) < 7 {
					m.X = h
					if m.Amt > b && rng.Intn(4) != 0 {
						m.Amt = 1 + rng.Int63n(b)
					}
					if rng.Intn(3) != 0 {
						m.Y = pick(trAccts)
					}
				}
			case k < 67:
				m.K, m.X = "admin", pick(any)
				if rng.Intn(4) != 0 && m.X == "" {
					m.X = pick(trAccts) // renounce less often
				}
			case k < 75:
				m.K, m.X = "meta", pick(trMetas)
			case k < 83:
				m.K, m.X = "hook", pick([]string{"", "hk", "hk", "nohook"})
			default:
				m.K, m.S, m.Amt, m.X = "send", pick(trAccts), amt, pick(w.holders)
				if h, b := richest(d); h != "" && rng.Intn(10) < 8 {
					m.S = h
					if m.Amt > b && rng.Intn(4) != 0 {
						m.Amt = 1 + rng.Int63n(b)
					}
				}
				if m.X == m.S {
					m.X = "distribution"
				}
			}
		}
		ev := tfEvent{E: "op", M: m, Writes: []string{}}
		if m.K == "create" {
			ev.CanPay = fee == 0 || w.App.BankKeeper.GetBalance(w.Ctx, w.addr[m.S], feeDenom).Amount.GTE(osmomath.NewInt(fee))
		}
		out := w.run(w.Ctx, m, true, nil)
		ev.OK, ev.VB, ev.Err = out.OK, out.VB, trunc(out.Err, 160)
		if !out.OK && len(out.Changes) > 0 {
			ev.Changed = true
			ev.Writes = showChanges(out.Changes, 6)
		}
		if m.K == "create" && out.OK {
			var resp tftypes.MsgCreateDenomResponse
			if len(out.Res.MsgResponses) == 1 {
				if err := w.App.AppCodec().Unmarshal(out.Res.MsgResponses[0].Value, &resp); err != nil {
					t.Fatal(err)
				}
			}
			c, sub, err := tftypes.DeconstructDenom(resp.NewTokenDenom)
			if err != nil {
				ev.RC, ev.RSub = "?bad", resp.NewTokenDenom
			} else {
				ev.RC = w.name(c)
				ev.RSub = "?" + sub
				if l, ok := w.subLab[sub]; ok {
					ev.RSub = l
				}
			}
		}
		ev.St = w.project(w.Ctx)
		tw.Emit(ev)
	}
}
