package smoke

import (
	"testing"
	"time"

	sdk "github.com/cosmos/cosmos-sdk/types"

	"github.com/osmosis-labs/osmosis/osmomath"
	lockuptypes "github.com/osmosis-labs/osmosis/v31/x/lockup/types"

	"verif/harness/apphelp"
)

// TestSmoke: the whole app builds from /repo's working tree and a message runs.
func TestSmoke(t *testing.T) {
	t0 := time.Now()
	w := apphelp.New(t)
	a := apphelp.Acct(1)
	w.FundAcc(a, sdk.NewCoins(sdk.NewCoin("stake", osmomath.NewInt(1000))))
	_, out := w.Msg(lockuptypes.NewMsgLockTokens(a, time.Hour, sdk.NewCoins(sdk.NewCoin("stake", osmomath.NewInt(10)))))
	if !out.OK {
		t.Fatal(out.Err)
	}
	_, out = w.Msg(lockuptypes.NewMsgLockTokens(a, time.Hour, sdk.NewCoins(sdk.NewCoin("stake", osmomath.NewInt(100000)))))
	if out.OK {
		t.Fatal("overdraft accepted")
	}
	t.Logf("setup+2 msgs %v, balances %v", time.Since(t0), w.Balances(a))
}
