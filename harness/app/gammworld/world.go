// Package gammworld builds worlds of classic (x/gamm) pools on a full OsmosisApp
// for the recorders of C02 (ledger conservation), C04 (pool math) and C05
// (router composition): funded actors, balancer pools (2..8 assets, arbitrary
// weights, any spread factor), stableswap pools (2..8 assets, scaling
// factors), pool-creation fee, taker-fee configuration (default fee, per-pair
// fees, fee-exempt whitelist), and read-back helpers (pool reserves / shares as
// the pool reports them, bank balances, supplies, swap legs reported by a
// message's events).  Everything goes through the public message handlers and
// exported keeper getters of /repo; nothing here edits state behind the
// modules' back except explicit test funding (bank mint) and parameter
// setting (what governance would do).
package gammworld

import (
	"fmt"
	stdbig "math/big"
	"math/rand"
	"sort"
	"strconv"
	"testing"

	sdk "github.com/cosmos/cosmos-sdk/types"
	authtypes "github.com/cosmos/cosmos-sdk/x/auth/types"
	banktypes "github.com/cosmos/cosmos-sdk/x/bank/types"
	distrtypes "github.com/cosmos/cosmos-sdk/x/distribution/types"

	"github.com/osmosis-labs/osmosis/osmomath"
	"github.com/osmosis-labs/osmosis/v31/x/gamm/pool-models/balancer"
	"github.com/osmosis-labs/osmosis/v31/x/gamm/pool-models/stableswap"
	gammtypes "github.com/osmosis-labs/osmosis/v31/x/gamm/types"
	pmtypes "github.com/osmosis-labs/osmosis/v31/x/poolmanager/types"
	txfeestypes "github.com/osmosis-labs/osmosis/v31/x/txfees/types"

	"verif/harness/apphelp"
)

// BaseDenoms are the non-share denoms the worlds use (sdk denoms need >= 3 chars).
var BaseDenoms = []string{"aaa", "bbb", "ccc", "ddd", "eee", "fff", "ggg", "hhh"}

// World is an app plus the actors of a history.
type World struct {
	*apphelp.World
	Actors []sdk.AccAddress
}

// New builds a fresh app.  Pool ids start at 1.
func New(t *testing.T) *World {
	return &World{World: apphelp.New(t)}
}

// Pow10 returns 10^k.
func Pow10(k int) osmomath.Int {
	return osmomath.NewIntFromBigInt(new(stdbig.Int).Exp(stdbig.NewInt(10), stdbig.NewInt(int64(k)), nil))
}

// RandAmt draws d * 10^e (d in 1..9, e in 0..maxExp), sometimes with low-order noise.
func RandAmt(rng *rand.Rand, maxExp int) osmomath.Int {
	e := rng.Intn(maxExp + 1)
	x := osmomath.NewInt(int64(1 + rng.Intn(9))).Mul(Pow10(e))
	if rng.Intn(3) == 0 {
		x = x.Add(osmomath.NewInt(int64(rng.Intn(1000))))
	}
	return x
}

// AddActors creates n deterministic accounts (salted so that different
// histories use different addresses) and funds each with `funds`.
func (w *World) AddActors(n int, salt int, funds sdk.Coins) []sdk.AccAddress {
	res := []sdk.AccAddress{}
	for i := 0; i < n; i++ {
		a := apphelp.Acct(salt*100 + len(w.Actors) + 1)
		w.Actors = append(w.Actors, a)
		if !funds.IsZero() {
			w.FundAcc(a, funds)
		}
		res = append(res, a)
	}
	return res
}

// Fund is explicit test funding: mints coins out of thin air to addr (the only
// way, besides share mint/burn, that a supply may change in these worlds).
func (w *World) Fund(addr sdk.AccAddress, coins sdk.Coins) { w.FundAcc(addr, coins) }

// CoinsOf builds sdk.Coins from denom/amount pairs (zero amounts dropped).
func CoinsOf(denoms []string, amts []osmomath.Int) sdk.Coins {
	cs := sdk.NewCoins()
	for i, d := range denoms {
		if amts[i].IsPositive() {
			cs = cs.Add(sdk.NewCoin(d, amts[i]))
		}
	}
	return cs
}

// ---------------------------------------------------------------------------
// configuration

// SetPoolCreationFee sets poolmanager's pool-creation fee (paid by the creator
// into the community pool).
func (w *World) SetPoolCreationFee(fee sdk.Coins) {
	p := w.App.PoolManagerKeeper.GetParams(w.Ctx)
	p.PoolCreationFee = fee
	w.App.PoolManagerKeeper.SetParams(w.Ctx, p)
}

// PoolCreationFee reads it back.
func (w *World) PoolCreationFee(ctx sdk.Context) sdk.Coins {
	return w.App.PoolManagerKeeper.GetParams(ctx).PoolCreationFee
}

// SetFreePoolCreators sets the addresses that do not pay the pool-creation fee
// (concentrated-liquidity's UnrestrictedPoolCreatorWhitelist, which
// poolmanager.CreatePool consults for every pool type).
func (w *World) SetFreePoolCreators(addrs []sdk.AccAddress) {
	p := w.App.ConcentratedLiquidityKeeper.GetParams(w.Ctx)
	p.UnrestrictedPoolCreatorWhitelist = []string{}
	for _, a := range addrs {
		p.UnrestrictedPoolCreatorWhitelist = append(p.UnrestrictedPoolCreatorWhitelist, a.String())
	}
	w.App.ConcentratedLiquidityKeeper.SetParams(w.Ctx, p)
}

// IsFreePoolCreator tells whether addr is exempt from the pool-creation fee.
func (w *World) IsFreePoolCreator(ctx sdk.Context, addr sdk.AccAddress) bool {
	for _, a := range w.App.ConcentratedLiquidityKeeper.GetWhitelistedAddresses(ctx) {
		if a == addr.String() {
			return true
		}
	}
	return false
}

// SetTakerFeeConfig sets the default taker fee, the fee-exempt whitelist and
// the admins that may set per-pair fees by message.
func (w *World) SetTakerFeeConfig(def osmomath.Dec, exempt []sdk.AccAddress, admins []sdk.AccAddress) {
	p := w.App.PoolManagerKeeper.GetParams(w.Ctx)
	p.TakerFeeParams.DefaultTakerFee = def
	p.TakerFeeParams.ReducedFeeWhitelist = []string{}
	for _, a := range exempt {
		p.TakerFeeParams.ReducedFeeWhitelist = append(p.TakerFeeParams.ReducedFeeWhitelist, a.String())
	}
	p.TakerFeeParams.AdminAddresses = []string{}
	for _, a := range admins {
		p.TakerFeeParams.AdminAddresses = append(p.TakerFeeParams.AdminAddresses, a.String())
	}
	w.App.PoolManagerKeeper.SetParams(w.Ctx, p)
}

// SetPairTakerFeeMsg sets the taker fee of the ordered pair (in, out) with
// MsgSetDenomPairTakerFee signed by admin.
func (w *World) SetPairTakerFeeMsg(admin sdk.AccAddress, in, out string, fee osmomath.Dec) apphelp.Outcome {
	_, o := w.Msg(&pmtypes.MsgSetDenomPairTakerFee{Sender: admin.String(),
		DenomPairTakerFee: []pmtypes.DenomPairTakerFee{{TokenInDenom: in, TokenOutDenom: out, TakerFee: fee}}})
	return o
}

// SetPairTakerFee sets it through the keeper (what a governance proposal does).
func (w *World) SetPairTakerFee(in, out string, fee osmomath.Dec) {
	w.App.PoolManagerKeeper.SetDenomPairTakerFee(w.Ctx, in, out, fee)
}

// PairTakerFee is the rate the keeper reports for swapping `in` to `out`.
func (w *World) PairTakerFee(ctx sdk.Context, in, out string) osmomath.Dec {
	f, err := w.App.PoolManagerKeeper.GetTradingPairTakerFee(ctx, in, out)
	if err != nil {
		panic(err)
	}
	return f
}

// TakerFeeExempt tells whether addr is on the fee-exempt whitelist.
func (w *World) TakerFeeExempt(ctx sdk.Context, addr sdk.AccAddress) bool {
	for _, a := range w.App.PoolManagerKeeper.GetParams(ctx).TakerFeeParams.ReducedFeeWhitelist {
		if a == addr.String() {
			return true
		}
	}
	return false
}

// TakerFeeCollector is the module account every taker fee is sent to at swap time.
func (w *World) TakerFeeCollector() sdk.AccAddress {
	return authtypes.NewModuleAddress(txfeestypes.TakerFeeCollectorName)
}

// CommunityPoolAddr is the account holding the community pool (pool-creation fees).
func (w *World) CommunityPoolAddr() sdk.AccAddress {
	return authtypes.NewModuleAddress(distrtypes.ModuleName)
}

// ---------------------------------------------------------------------------
// pools

// BalancerAsset is one asset of a balancer pool to create.
type BalancerAsset struct {
	Denom  string
	Amount osmomath.Int
	Weight int64
}

// BalancerSpec describes a balancer pool to create.
type BalancerSpec struct {
	Assets       []BalancerAsset
	SpreadFactor osmomath.Dec
	ExitFee      osmomath.Dec // must be zero to be accepted by the chain
	Governor     string
}

// StableSpec describes a stableswap pool to create.
type StableSpec struct {
	Liquidity    sdk.Coins
	Scaling      []uint64 // in the (sorted) order of Liquidity; empty = all 1
	SpreadFactor osmomath.Dec
	ExitFee      osmomath.Dec
	Controller   string // scaling factor controller (may be empty)
	Governor     string
}

// Coins of the spec.
func (s BalancerSpec) Coins() sdk.Coins {
	cs := sdk.NewCoins()
	for _, a := range s.Assets {
		cs = cs.Add(sdk.NewCoin(a.Denom, a.Amount))
	}
	return cs
}

// PoolIDFromResult extracts the pool id from the pool_created event.
func PoolIDFromResult(res *sdk.Result) uint64 {
	if res == nil {
		return 0
	}
	for _, ev := range res.Events {
		if ev.Type == pmtypes.TypeEvtPoolCreated {
			for _, a := range ev.Attributes {
				if a.Key == pmtypes.AttributeKeyPoolId {
					id, _ := strconv.ParseUint(a.Value, 10, 64)
					return id
				}
			}
		}
	}
	return 0
}

// CreateBalancer delivers MsgCreateBalancerPool.  Returns the new pool id (0 on failure).
func (w *World) CreateBalancer(creator sdk.AccAddress, spec BalancerSpec) (uint64, *sdk.Result, apphelp.Outcome) {
	assets := []balancer.PoolAsset{}
	for _, a := range spec.Assets {
		assets = append(assets, balancer.PoolAsset{Token: sdk.NewCoin(a.Denom, a.Amount), Weight: osmomath.NewInt(a.Weight)})
	}
	msg := balancer.NewMsgCreateBalancerPool(creator, balancer.PoolParams{SwapFee: spec.SpreadFactor, ExitFee: spec.ExitFee}, assets, spec.Governor)
	res, o := w.Msg(&msg)
	id := uint64(0)
	if o.OK {
		if r, ok := Resp[*balancer.MsgCreateBalancerPoolResponse](res); ok {
			id = r.PoolID
		}
	}
	return id, res, o
}

// CreateStableswap delivers MsgCreateStableswapPool.
func (w *World) CreateStableswap(creator sdk.AccAddress, spec StableSpec) (uint64, *sdk.Result, apphelp.Outcome) {
	msg := stableswap.NewMsgCreateStableswapPool(creator, stableswap.PoolParams{SwapFee: spec.SpreadFactor, ExitFee: spec.ExitFee},
		spec.Liquidity, spec.Scaling, spec.Governor)
	msg.ScalingFactorController = spec.Controller
	res, o := w.Msg(&msg)
	id := uint64(0)
	if o.OK {
		if r, ok := Resp[*stableswap.MsgCreateStableswapPoolResponse](res); ok {
			id = r.PoolID
		}
	}
	return id, res, o
}

// AdjustScalingFactors delivers MsgStableSwapAdjustScalingFactors signed by sender (must be the
// pool's scaling factor controller to succeed).  It changes prices, never the ledger.
func (w *World) AdjustScalingFactors(sender sdk.AccAddress, poolID uint64, factors []uint64) apphelp.Outcome {
	msg := stableswap.NewMsgStableSwapAdjustScalingFactors(sender.String(), poolID, factors)
	_, o := w.Msg(&msg)
	return o
}

// Resp unpacks the typed response of a delivered message.
func Resp[T any](res *sdk.Result) (T, bool) {
	var zero T
	if res == nil || len(res.MsgResponses) == 0 {
		return zero, false
	}
	v, ok := res.MsgResponses[0].GetCachedValue().(T)
	return v, ok
}

// RandSpread draws a spread factor: zero, common values, tiny, large.
func RandSpread(rng *rand.Rand) osmomath.Dec {
	switch r := rng.Intn(10); {
	case r < 2:
		return osmomath.ZeroDec()
	case r < 5:
		return osmomath.NewDecWithPrec(int64(1+rng.Intn(30)), 3) // 0.1% .. 3%
	case r < 7:
		return osmomath.NewDecWithPrec(int64(1+rng.Intn(99)), 6)
	case r < 9:
		return osmomath.NewDecWithPrec(int64(1+rng.Intn(50)), 2) // up to 50%
	default:
		return osmomath.NewDecWithPrec(int64(1+rng.Intn(999999)), 18).Add(osmomath.NewDecWithPrec(int64(rng.Intn(10)), 2))
	}
}

// PickDenoms draws k distinct denoms of the list, sorted.
func PickDenoms(rng *rand.Rand, denoms []string, k int) []string {
	idx := rng.Perm(len(denoms))[:k]
	res := []string{}
	for _, i := range idx {
		res = append(res, denoms[i])
	}
	sort.Strings(res)
	return res
}

// RandBalancerSpec draws a balancer pool over nAssets of `denoms`: weights
// arbitrary in [1, 2^20) (biased to small, equal and extreme ones), reserves
// d*10^e with e up to maxExp.
func RandBalancerSpec(rng *rand.Rand, denoms []string, nAssets int, maxExp int) BalancerSpec {
	ds := PickDenoms(rng, denoms, nAssets)
	spec := BalancerSpec{SpreadFactor: RandSpread(rng), ExitFee: osmomath.ZeroDec()}
	style := rng.Intn(4)
	for _, d := range ds {
		var wgt int64
		switch style {
		case 0:
			wgt = 1
		case 1:
			wgt = int64(1 + rng.Intn(8))
		case 2:
			wgt = int64(1 + rng.Intn(1000))
		default:
			wgt = int64(1 + rng.Intn(1<<20-1))
		}
		amt := RandAmt(rng, maxExp)
		spec.Assets = append(spec.Assets, BalancerAsset{Denom: d, Amount: amt, Weight: wgt})
	}
	return spec
}

// RandStableSpec draws a stableswap pool over nAssets of `denoms` with scaling
// factors 1, 10^k or arbitrary, and reserves within the pool's per-asset limits.
func RandStableSpec(rng *rand.Rand, denoms []string, nAssets int, maxExp int) StableSpec {
	ds := PickDenoms(rng, denoms, nAssets)
	spec := StableSpec{SpreadFactor: RandSpread(rng), ExitFee: osmomath.ZeroDec(), Liquidity: sdk.NewCoins()}
	if spec.SpreadFactor.GT(osmomath.NewDecWithPrec(5, 2)) {
		spec.SpreadFactor = osmomath.NewDecWithPrec(int64(rng.Intn(40)), 4)
	}
	style := rng.Intn(3)
	base := RandAmt(rng, maxExp)
	if base.LT(osmomath.NewInt(1000)) {
		base = base.MulRaw(1000)
	}
	for _, d := range ds {
		var sf uint64 = 1
		switch style {
		case 1:
			sf = Pow10(rng.Intn(7)).Uint64()
		case 2:
			sf = uint64(1 + rng.Intn(100000))
		}
		// scaled reserves of the same order of magnitude (what stableswap is for), +-
		amt := base.MulRaw(int64(50 + rng.Intn(100))).QuoRaw(100).Mul(osmomath.NewIntFromUint64(sf))
		if !amt.IsPositive() {
			amt = osmomath.NewIntFromUint64(sf)
		}
		spec.Liquidity = spec.Liquidity.Add(sdk.NewCoin(d, amt))
		spec.Scaling = append(spec.Scaling, sf)
	}
	if style == 0 && rng.Intn(2) == 0 {
		spec.Scaling = nil // message without scaling factors: all 1
	}
	return spec
}

// ---------------------------------------------------------------------------
// observation

// PoolAddress is the (deterministic) account address of pool id, created or not.
func PoolAddress(id uint64) sdk.AccAddress { return pmtypes.NewPoolAddress(id) }

// ShareDenom is gamm/pool/<id>.
func ShareDenom(id uint64) string { return gammtypes.GetPoolShareDenom(id) }

// PoolView is what a pool reports about itself through the keepers' queries.
type PoolView struct {
	ID       uint64
	Kind     string // "balancer" | "stableswap"
	Addr     sdk.AccAddress
	Reserves sdk.Coins    // poolmanager.GetTotalPoolLiquidity
	Shares   osmomath.Int // gamm.GetTotalPoolShares
	Spread   osmomath.Dec
	Denoms   []string
	Weights  []osmomath.Int // balancer: per Denoms (internal scale 2^30), else empty
	Scaling  []uint64       // stableswap: per Denoms, else empty
}

// Pool reads a pool back (error if it does not exist).
func (w *World) Pool(ctx sdk.Context, id uint64) (PoolView, error) {
	v := PoolView{ID: id, Addr: PoolAddress(id), Weights: []osmomath.Int{}, Scaling: []uint64{}}
	p, err := w.App.GAMMKeeper.GetCFMMPool(ctx, id)
	if err != nil {
		return v, err
	}
	v.Reserves, err = w.App.PoolManagerKeeper.GetTotalPoolLiquidity(ctx, id)
	if err != nil {
		return v, err
	}
	v.Shares, err = w.App.GAMMKeeper.GetTotalPoolShares(ctx, id)
	if err != nil {
		return v, err
	}
	v.Spread = p.GetSpreadFactor(ctx)
	if !p.GetAddress().Equals(v.Addr) {
		return v, fmt.Errorf("pool %d reports address %s, expected %s", id, p.GetAddress(), v.Addr)
	}
	for _, c := range v.Reserves {
		v.Denoms = append(v.Denoms, c.Denom)
	}
	switch pp := p.(type) {
	case *balancer.Pool:
		v.Kind = "balancer"
		for _, d := range v.Denoms {
			wt, _ := pp.GetTokenWeight(d)
			v.Weights = append(v.Weights, wt)
		}
	case *stableswap.Pool:
		v.Kind = "stableswap"
		v.Scaling = append(v.Scaling, pp.GetScalingFactors()...)
	default:
		v.Kind = fmt.Sprintf("%T", p)
	}
	return v, nil
}

// Supply of a denom as the bank reports it.
func (w *World) Supply(ctx sdk.Context, denom string) osmomath.Int {
	return w.App.BankKeeper.GetSupply(ctx, denom).Amount
}

// Balance of addr in denom.
func (w *World) Balance(ctx sdk.Context, addr sdk.AccAddress, denom string) osmomath.Int {
	return w.App.BankKeeper.GetBalance(ctx, addr, denom).Amount
}

// Send delivers a bank MsgSend (used for direct sends to pool addresses).
func (w *World) Send(from, to sdk.AccAddress, coins sdk.Coins) apphelp.Outcome {
	_, o := w.Msg(&banktypes.MsgSend{FromAddress: from.String(), ToAddress: to.String(), Amount: coins})
	return o
}

// SwapLeg is one pool swap reported by a message's token_swapped events, in execution order.
type SwapLeg struct {
	PoolID uint64
	Sender string
	In     sdk.Coin
	Out    sdk.Coin
}

func attr(ev sdk.Event, key string) string {
	for _, a := range ev.Attributes {
		if a.Key == key {
			return a.Value
		}
	}
	return ""
}

// SwapLegs extracts the token_swapped events of a delivered message.
func SwapLegs(res *sdk.Result) []SwapLeg {
	legs := []SwapLeg{}
	if res == nil {
		return legs
	}
	for _, aev := range res.Events {
		if aev.Type != gammtypes.TypeEvtTokenSwapped {
			continue
		}
		ev := sdk.Event(aev)
		id, _ := strconv.ParseUint(attr(ev, gammtypes.AttributeKeyPoolId), 10, 64)
		in, err1 := sdk.ParseCoinNormalized(attr(ev, gammtypes.AttributeKeyTokensIn))
		out, err2 := sdk.ParseCoinNormalized(attr(ev, gammtypes.AttributeKeyTokensOut))
		if err1 != nil || err2 != nil {
			panic(fmt.Sprintf("unparsable token_swapped event: %v", ev))
		}
		legs = append(legs, SwapLeg{PoolID: id, Sender: attr(ev, sdk.AttributeKeySender), In: in, Out: out})
	}
	return legs
}

// LiquidityLeg is a pool_joined / pool_exited event.
type LiquidityLeg struct {
	PoolID uint64
	Joined bool
	Coins  sdk.Coins
}

// LiquidityLegs extracts pool_joined / pool_exited events.
func LiquidityLegs(res *sdk.Result) []LiquidityLeg {
	legs := []LiquidityLeg{}
	if res == nil {
		return legs
	}
	for _, aev := range res.Events {
		ev := sdk.Event(aev)
		switch aev.Type {
		case gammtypes.TypeEvtPoolJoined:
			id, _ := strconv.ParseUint(attr(ev, gammtypes.AttributeKeyPoolId), 10, 64)
			cs, _ := sdk.ParseCoinsNormalized(attr(ev, gammtypes.AttributeKeyTokensIn))
			legs = append(legs, LiquidityLeg{PoolID: id, Joined: true, Coins: cs})
		case gammtypes.TypeEvtPoolExited:
			id, _ := strconv.ParseUint(attr(ev, gammtypes.AttributeKeyPoolId), 10, 64)
			cs, _ := sdk.ParseCoinsNormalized(attr(ev, gammtypes.AttributeKeyTokensOut))
			legs = append(legs, LiquidityLeg{PoolID: id, Joined: false, Coins: cs})
		}
	}
	return legs
}
