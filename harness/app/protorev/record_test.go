package protorev

import (
	"fmt"
	"math/rand"
	"os"
	"sort"
	"testing"

	"github.com/osmosis-labs/osmosis/osmomath"
	pmtypes "github.com/osmosis-labs/osmosis/v31/x/poolmanager/types"

	"verif/harness/tracelog"
)

// TestRecord: seeded random histories through the real public surface of x/protorev on a full app.
//
//	transactions  real signed transactions (1-3 messages: poolmanager SwapExactAmountIn / Out over one or two
//	              pools, gamm SwapExactAmountIn, single-asset joins, deposits into the module account, plain
//	              sends, deliberately failing messages, the six admin messages - valid and malformed, by the
//	              admin and by a stranger) through BaseApp.runTx in finalize mode: ante chain, message
//	              handlers, post handler chain (protorev's back-run)
//	blocks        commit + next block; day / week epoch ends (the module's AfterEpochEnd wrapped as x/epochs
//	              wraps it); governance: enable / disable, change of admin; environment: new pools (balancer,
//	              stableswap, concentrated), liquidity added
//
// Every call is logged with its arguments, its result, the back-runs read off the events, the projected
// state and the answers of the gRPC queries.
func TestRecord(t *testing.T) {
	out := os.Getenv("VERIF_OUT")
	if out == "" {
		t.Skip("VERIF_OUT not set")
	}
	seed := tracelog.EnvInt("VERIF_SEED", 1)
	nh := int(tracelog.EnvInt("VERIF_HISTORIES", 8))
	ns := int(tracelog.EnvInt("VERIF_STEPS", 60))
	tw, err := tracelog.NewWriter(out)
	if err != nil {
		t.Fatal(err)
	}
	defer tw.Close()
	for h := 0; h < nh; h++ {
		// a sub-test per history: the application (and its home directory) is released when the history is done
		t.Run(fmt.Sprint(h), func(t *testing.T) { recordHistory(t, tw, seed, h, ns) })
	}
}

var universe = []string{"axa", "bxb", "cxc"}

type rec struct {
	w   *world
	tw  *tracelog.Writer
	r   *rand.Rand
	fee []string
}

func (g *rec) pick(xs ...string) string { return xs[g.r.Intn(len(xs))] }
func (g *rec) between(a, b int64) int64 { return a + g.r.Int63n(b-a+1) }

// the world of the bounded model (spec/mc/MCProtoRev.tla): also what the replayer builds
func buildModelWorld(w *world, fee func() string) {
	const deep, shallow = 10_000_000_000_000, 10_000_000_000
	w.createPool("bal", osmo, "axa", deep, deep, fee())
	w.createPool("bal", osmo, "bxb", deep, deep, fee())
	w.createPool("bal", "axa", "bxb", shallow, shallow, fee())
	w.createPool("cl", osmo, "axa", deep/100, deep/100, fee())
	w.createPool("bal", osmo, "cxc", deep, deep, fee())
	w.createPool("bal", "cxc", "axa", deep, deep, fee())
	w.createPool("bal", "cxc", "bxb", deep, deep, fee())
	w.createPool("stable", "axa", "bxb", shallow/10, shallow/10, fee())
}

func recordHistory(t *testing.T, tw *tracelog.Writer, seed int64, h int, ns int) {
	r := rand.New(rand.NewSource(seed*1_000_003 + int64(h)*7919 + 17))
	w := newWorld(t, fmt.Sprintf("r%d-%d", seed, h), universe)
	g := &rec{w: w, tw: tw, r: r}
	fee := func() string { return g.pick("0", "0.0005", "0.0005", "0.002") }
	buildModelWorld(w, fee)
	if h%3 != 0 {
		// a wider world: ten pools, so that pools created later have two-digit ids
		w.createPool("cl", "axa", "bxb", 20_000_000_000, 20_000_000_000+g.between(1, 1000), fee())
		w.createPool("stable", osmo, "bxb", 300_000_000_000, 300_000_000_000+g.between(1, 1000), fee())
	}
	days := []uint64{0, 0, 1, 363, 364, 365, 366, 728, 729, 730, 731, 1000}[r.Intn(12)]
	if h%4 == 2 {
		days = []uint64{364, 365, 729, 730}[(h/4)%4] // the distribution opening sits on the phase boundaries
	}
	w.App.ProtoRevKeeper.SetDaysSinceModuleGenesis(w.Ctx, days)
	taker := "0"
	if h%5 == 4 {
		// a chain that charges a taker fee and has not exempted protorev: what the back-run simulates (no fee) is more
		// than what the trade yields, trades at the margin fail in the middle of their execution and are discarded
		taker = g.pick("0.0005", "0.001", "0.002")
		w.App.PoolManagerKeeper.SetParam(w.Ctx, pmtypes.KeyDefaultTakerFee, osmomath.MustNewDecFromStr(taker))
	}
	w.takeBaseline()
	st := w.state()
	tw.Emit(map[string]any{"e": "cfg", "id": h, "denoms": w.denoms, "days0": days, "npools": len(w.pools), "taker": taker, "st": st})
	// scripted openings that put the history into the situations the properties single out
	switch h % 4 {
	case 1:
		g.scenarioBudget()
	case 2:
		g.scenarioEpoch()
	case 3:
		if h%3 != 0 {
			g.scenarioNewPool()
		}
	}
	for i := 0; i < ns; i++ {
		g.step()
		if w.tie {
			panic("two pools of one pair with equal liquidity: the index would be ambiguous")
		}
	}
}

// ---------------------------------------------------------------------------
// message generators

func noArg() adminArg { return adminArg{Hot: []pairT{}, Bases: []baseT{}} }

func (g *rec) user() string { return g.pick("u1", "u2") }

func (g *rec) amount(p poolInfo) int64 {
	switch g.r.Intn(10) {
	case 0, 1:
		return g.between(1000, 20000)
	case 2, 3:
		return g.between(1_000_000, 20_000_000)
	default:
		if p.Kind == "stable" {
			return g.between(300_000_000, 700_000_000)
		}
		return g.between(50_000_000, 300_000_000)
	}
}

func (g *rec) swapMsg() msgT {
	w := g.w
	p := w.pools[g.r.Intn(len(w.pools))]
	in, out := p.A, p.B
	if g.r.Intn(2) == 0 {
		in, out = out, in
	}
	m := msgT{By: g.user(), Hops: []hop{{Pool: p.ID, In: in, Out: out}}, Amt: g.amount(p), Arg: noArg()}
	x := g.r.Intn(100)
	switch {
	case x < 50:
		m.K = "swapin"
	case x < 62:
		m.K = "swapout"
		if m.Amt > 200_000_000 {
			m.Amt = 200_000_000
		}
		if p.Kind == "stable" {
			m.Amt = g.between(100_000_000, 400_000_000)
		}
	case x < 74:
		m.K = "gswap"
	case x < 84 && p.Kind != "cl":
		m.K = "join"
		if p.Kind == "stable" {
			m.Amt = g.between(100_000_000, 300_000_000)
		}
	default:
		// two hops: a second pool that takes what the first pays out
		m.K = g.pick("swapin", "gswap")
		var next []poolInfo
		for _, q := range w.pools {
			if q.ID != p.ID && (q.A == out || q.B == out) && q.Kind != "stable" {
				next = append(next, q)
			}
		}
		if len(next) > 0 {
			q := next[g.r.Intn(len(next))]
			o2 := q.A
			if o2 == out {
				o2 = q.B
			}
			m.Hops = append(m.Hops, hop{Pool: q.ID, In: out, Out: o2})
			if p.Kind == "stable" {
				m.Amt = g.between(1_000_000, 200_000_000)
			}
		}
	}
	return m
}

func (g *rec) sender() string {
	if g.r.Intn(100) < 15 {
		return "eve"
	}
	return "admin"
}

func (g *rec) poolWith(x, y string) (uint64, bool) {
	var c []uint64
	for _, p := range g.w.pools {
		if (p.A == x && p.B == y) || (p.A == y && p.B == x) {
			c = append(c, p.ID)
		}
	}
	if len(c) == 0 {
		return 0, false
	}
	return c[g.r.Intn(len(c))], true
}

// a hot route for swaps in -> out: base -> out, out -> in on the placeholder, in -> base (or the two-pool shapes)
func (g *rec) hotRoute(in, out string) (routeT, bool) {
	b := g.pick(osmo, osmo, "cxc")
	step := []int64{1000, 100_000, 1_000_000}[g.r.Intn(3)]
	switch {
	case b == out:
		f, ok := g.poolWith(in, b)
		if !ok {
			return routeT{}, false
		}
		return routeT{Step: step, Trades: []hop{{Pool: 0, In: out, Out: in}, {Pool: f, In: in, Out: b}}}, true
	case b == in:
		e, ok := g.poolWith(b, out)
		if !ok {
			return routeT{}, false
		}
		return routeT{Step: step, Trades: []hop{{Pool: e, In: b, Out: out}, {Pool: 0, In: out, Out: in}}}, true
	}
	e, ok1 := g.poolWith(b, out)
	f, ok2 := g.poolWith(in, b)
	if !ok1 || !ok2 {
		return routeT{}, false
	}
	return routeT{Step: step, Trades: []hop{{Pool: e, In: b, Out: out}, {Pool: 0, In: out, Out: in}, {Pool: f, In: in, Out: b}}}, true
}

func (g *rec) hotArg() adminArg {
	a := noArg()
	pairs := map[string]bool{}
	n := 1 + g.r.Intn(2)
	for len(a.Hot) < n {
		p := g.w.pools[g.r.Intn(len(g.w.pools))]
		in, out := p.A, p.B
		if g.r.Intn(2) == 0 {
			in, out = out, in
		}
		if pairs[in+"|"+out] {
			continue
		}
		pr := pairT{In: in, Out: out, Routes: []routeT{}}
		for k := 0; k < 1+g.r.Intn(2); k++ {
			if rt, ok := g.hotRoute(in, out); ok {
				pr.Routes = append(pr.Routes, rt)
			}
		}
		if len(pr.Routes) == 0 {
			continue
		}
		pairs[in+"|"+out] = true
		a.Hot = append(a.Hot, pr)
	}
	// the store keeps the pairs ordered by key: the messages name them in that order
	sort.Slice(a.Hot, func(i, j int) bool { return a.Hot[i].In+"|"+a.Hot[i].Out < a.Hot[j].In+"|"+a.Hot[j].Out })
	// malformations
	switch g.r.Intn(14) {
	case 0:
		a.Hot[0].Routes[0].Trades = a.Hot[0].Routes[0].Trades[:1]
	case 1:
		t := a.Hot[0].Routes[0].Trades
		t[len(t)-1].Out = "bxb"
		if t[0].In == "bxb" {
			t[len(t)-1].Out = "cxc"
		}
	case 2:
		t := a.Hot[0].Routes[0].Trades
		if len(t) == 3 {
			t[1].In = t[0].In // the chain is broken
		} else {
			t[1].In = "cxc"
			if t[0].Out == "cxc" {
				t[1].In = "bxb"
			}
		}
	case 3:
		t := a.Hot[0].Routes[0].Trades
		for i := range t {
			if t[i].Pool == 0 {
				t[i].Pool = 3
			}
		}
	case 4:
		a.Hot[0].Routes[0].Step = 0
	case 5:
		a.Hot[0].Routes[0].Step = -999
	case 6:
		a.Hot = append(a.Hot, a.Hot[len(a.Hot)-1])
	case 7:
		a.Hot[0].Routes = []routeT{}
	}
	return a
}

func (g *rec) adminMsg() msgT {
	m := msgT{By: g.sender(), Hops: []hop{}, Arg: noArg()}
	switch g.r.Intn(12) {
	case 0, 1:
		m.K = "maxtx"
		m.Arg.N = []int64{0, 1, 5, 6, 9, 12, 18, 30, 50, 51}[g.r.Intn(10)]
	case 2, 3:
		m.K = "maxblock"
		m.Arg.N = []int64{0, 1, 6, 12, 20, 50, 100, 200, 201}[g.r.Intn(9)]
	case 4, 5:
		m.K = "devacct"
		m.Arg.Acct = g.pick("dev", "dev", "dev2", "notanaddress")
	case 6:
		m.K = "info"
		i := infoT{Bal: g.between(1, 6), Stable: g.between(1, 9), Cl: g.between(1, 12), Ticks: []int64{1, 5, 10}[g.r.Intn(3)]}
		switch g.r.Intn(8) {
		case 0:
			i.Bal = 0
		case 1:
			i.Stable = 0
		case 2:
			i.Cl = 0
		case 3:
			i.Ticks = g.pick2(0, 11)
		}
		m.Arg.Info = i
	case 7, 8:
		m.K = "bases"
		step := func() int64 { return []int64{1000, 100_000, 1_000_000}[g.r.Intn(3)] }
		sets := [][]baseT{
			{{osmo, step()}}, {{osmo, step()}, {"cxc", step()}}, {{osmo, step()}, {"axa", step()}}, {{osmo, step()}, {"cxc", step()}, {"axa", step()}},
			{{osmo, step()}}, {{osmo, step()}, {"cxc", step()}},
			{{"cxc", step()}, {osmo, step()}}, {{osmo, step()}, {"cxc", step()}, {"cxc", step()}}, {{osmo, 0}}, {{osmo, step()}, {"cxc", -999}}, {},
		}
		m.Arg.Bases = sets[g.r.Intn(len(sets))]
	default:
		m.K = "hot"
		m.Arg = g.hotArg()
	}
	return m
}

func (g *rec) pick2(a, b int64) int64 {
	if g.r.Intn(2) == 0 {
		return a
	}
	return b
}

func (g *rec) fundMsg() msgT {
	d := g.pick(osmo, osmo, "cxc", "axa", "bxb")
	amt := []int64{1, 3, 4, 5, 7, 9, 10, 19, 20, 99, 101, 1000, 123457}[g.r.Intn(13)]
	return msgT{K: "fund", By: g.user(), Hops: []hop{{Pool: 0, In: d, Out: d}}, Amt: amt, Arg: noArg()}
}

// ---------------------------------------------------------------------------
// steps

func (g *rec) tx(msgs ...msgT) txResult {
	w := g.w
	if w.txs >= perBlock {
		g.block()
	}
	for i := range msgs {
		if msgs[i].Hops == nil {
			msgs[i].Hops = []hop{}
		}
		if msgs[i].Arg.Hot == nil {
			msgs[i].Arg.Hot = []pairT{}
		}
		if msgs[i].Arg.Bases == nil {
			msgs[i].Arg.Bases = []baseT{}
		}
	}
	ok, oks, ud, huge := w.solo(msgs)
	if huge {
		return txResult{}
	}
	w.rebaseUsers() // the users' ledger of the trace is what the last transaction did to them
	for i := range msgs {
		msgs[i].Ok = oks[i]
	}
	g.tw.Emit(map[string]any{"e": "tx", "msgs": msgs, "ud": ud})
	r := w.deliver(msgs)
	st := w.state()
	trades, ghost := r.Trades, 0
	if !r.OK {
		trades, ghost = []tradeT{}, len(r.Trades)
	}
	g.tw.Emit(map[string]any{"e": "post", "ok": r.OK, "solo": ok, "trades": trades, "ghost": ghost, "err": r.Err, "st": st, "q": w.queries(st)})
	return r
}

func (g *rec) block() {
	g.w.nextBlock()
	g.tw.Emit(map[string]any{"e": "block", "st": g.w.state()})
}

func (g *rec) epoch(ident string) {
	out := g.w.epochEnd(ident)
	st := g.w.state()
	g.tw.Emit(map[string]any{"e": "epoch", "ident": ident, "ok": out.OK, "err": out.Err, "st": st, "q": g.w.queries(st)})
}

func (g *rec) newPool(kind, a, b string, ra, rb int64) {
	g.w.createPool(kind, a, b, ra, rb, g.pick("0", "0.0005", "0.002"))
	g.tw.Emit(map[string]any{"e": "pool", "kind": kind, "st": g.w.state()})
}

func (g *rec) step() {
	w := g.w
	x := g.r.Intn(1000)
	switch {
	case x < 550:
		msgs := []msgT{g.swapMsg()}
		if y := g.r.Intn(100); y < 25 {
			msgs = append(msgs, g.swapMsg())
			if y < 5 {
				msgs = append(msgs, g.swapMsg())
			}
		}
		if g.r.Intn(100) < 8 {
			msgs = append([]msgT{g.adminMsg()}, msgs...)
		}
		if g.r.Intn(100) < 8 {
			msgs = append(msgs, msgT{K: "fail", By: msgs[0].By, Hops: []hop{}, Arg: noArg()})
		}
		g.tx(msgs...)
	case x < 720:
		msgs := []msgT{g.adminMsg()}
		if g.r.Intn(100) < 15 {
			msgs = append(msgs, g.adminMsg())
		}
		g.tx(msgs...)
	case x < 770:
		g.tx(g.fundMsg())
	case x < 800:
		g.tx(msgT{K: "send", By: g.user(), Hops: []hop{}, Arg: noArg()})
	case x < 880:
		g.block()
	case x < 940:
		g.epoch(g.pick("day", "day", "day", "day", "week"))
	case x < 960:
		on := !w.App.ProtoRevKeeper.GetProtoRevEnabled(w.Ctx)
		w.setEnabled(on)
		g.tw.Emit(map[string]any{"e": "enable", "on": on, "st": w.state()})
	case x < 970:
		who := "eve"
		if w.nameOf(w.App.ProtoRevKeeper.GetAdminAccount(w.Ctx)) == "eve" {
			who = "admin"
		}
		w.setAdmin(who)
		g.tw.Emit(map[string]any{"e": "setadmin", "who": who, "st": w.state()})
	case x < 985:
		p := w.pools[g.r.Intn(len(w.pools))]
		num := []int64{1, 2, 5}[g.r.Intn(3)]
		w.lpAdd(p.ID, num, 2)
		g.tw.Emit(map[string]any{"e": "lp", "pool": p.ID, "st": w.state()})
	default:
		if len(w.pools) >= 14 {
			g.block()
			return
		}
		ds := append([]string{osmo}, universe...)
		a := ds[g.r.Intn(len(ds))]
		b := ds[g.r.Intn(len(ds))]
		if a == b {
			return
		}
		amt := []int64{5_000_000_000, 200_000_000_000, 3_000_000_000_000, 30_000_000_000_000}[g.r.Intn(4)]
		g.newPool(g.pick("bal", "bal", "cl", "stable"), a, b, amt+g.between(1, 999), amt+g.between(1000, 1999))
	}
}

// ---------------------------------------------------------------------------
// scripted openings

func (g *rec) big(pool uint64, in, out string) msgT {
	return msgT{K: "swapin", By: g.user(), Hops: []hop{{Pool: pool, In: in, Out: out}}, Amt: g.between(80_000_000, 200_000_000), Arg: noArg()}
}

func (g *rec) admin(k string, f func(a *adminArg)) msgT {
	m := msgT{K: k, By: "admin", Hops: []hop{}, Arg: noArg()}
	f(&m.Arg)
	return m
}

// budgets: a small per-transaction and per-block budget, swaps until it is spent, one more swap, the block budget is
// raised, another transaction of the same block
func (g *rec) scenarioBudget() {
	n := []int64{6, 8, 12}[g.r.Intn(3)]
	g.tx(g.admin("maxtx", func(a *adminArg) { a.N = 6 }))
	g.tx(g.admin("maxblock", func(a *adminArg) { a.N = n }))
	g.block()
	for i := 0; i < 3; i++ {
		g.tx(g.big(3, "axa", "bxb"))
	}
	g.tx(g.admin("maxblock", func(a *adminArg) { a.N = 60 }))
	g.tx(msgT{K: "send", By: "u2", Hops: []hop{}, Arg: noArg()})
	g.block()
	// a per-transaction budget that the first back-run of a transaction does not use up, but the second would exceed
	g.tx(g.admin("maxtx", func(a *adminArg) { a.N = g.between(7, 14) }))
	m4 := g.big(4, osmo, "axa")
	m4.Amt = g.between(400_000_000, 600_000_000)
	g.tx(g.big(3, "axa", "bxb"), m4)
	g.block()
	g.tx(g.admin("maxtx", func(a *adminArg) { a.N = 18 }))
	g.tx(g.big(3, "bxb", "axa"), m4)
}

// distribution: a trade, a developer account, day ends with large and with tiny balances
func (g *rec) scenarioEpoch() {
	g.tx(g.big(3, "bxb", "axa"))
	if g.r.Intn(3) > 0 {
		g.tx(g.admin("devacct", func(a *adminArg) { a.Acct = g.pick("dev", "dev2") }))
	}
	g.epoch("day")
	g.tx(msgT{K: "fund", By: "u1", Hops: []hop{{Pool: 0, In: osmo, Out: osmo}}, Amt: []int64{1, 3, 4, 5, 9, 19, 21}[g.r.Intn(7)], Arg: noArg()})
	g.epoch("day")
	g.tx(g.admin("bases", func(a *adminArg) { a.Bases = []baseT{{osmo, 1_000_000}, {"cxc", 1_000_000}} }))
	g.tx(msgT{K: "fund", By: "u2", Hops: []hop{{Pool: 0, In: "cxc", Out: "cxc"}}, Amt: g.between(1, 400), Arg: noArg()})
	g.tx(msgT{K: "fund", By: "u2", Hops: []hop{{Pool: 0, In: "axa", Out: "axa"}}, Amt: g.between(1, 400), Arg: noArg()})
	g.epoch("day")
}

// index: trades through the first uosmo/axa pool, then an eleventh pool with more liquidity for the same pair
func (g *rec) scenarioNewPool() {
	g.tx(g.big(3, "axa", "bxb"))
	g.block()
	g.newPool("bal", osmo, "axa", 30_000_000_000_000, 30_000_000_000_017)
	g.tx(g.big(3, "axa", "bxb"))
	g.tx(g.admin("devacct", func(a *adminArg) { a.Acct = "dev" }))
	g.epoch("day")
}
