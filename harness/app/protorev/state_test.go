package protorev

import (
	"fmt"
	"math/big"
	"sort"
	"strings"

	storetypes "cosmossdk.io/store/types"
	sdk "github.com/cosmos/cosmos-sdk/types"

	"github.com/osmosis-labs/osmosis/osmomath"
	prtypes "github.com/osmosis-labs/osmosis/v31/x/protorev/types"
)

// projection of the real state onto the variables of spec/ProtoRev.tla (shared by recorder and replayer)

type poolSt struct {
	Kind string `json:"kind"`
	A    string `json:"a"`
	B    string `json:"b"`
	Liq  int    `json:"liq"` // ordinal of the product of the two amounts among all pools (ties share an ordinal)
}
type wSt struct {
	Bal    int64 `json:"bal"`
	Stable int64 `json:"stable"`
	Cl     int64 `json:"cl"`
}
type cfgSt struct {
	Enabled  bool    `json:"enabled"`
	Admin    string  `json:"admin"`
	Dev      string  `json:"dev"`
	MaxTx    int64   `json:"maxTx"`
	MaxBlock int64   `json:"maxBlock"`
	W        wSt     `json:"w"`
	Ticks    int64   `json:"ticks"`
	Bases    []baseT `json:"bases"`
	Hot      []pairT `json:"hot"`
	Days     int64   `json:"days"`
}
type idxE struct {
	B string `json:"b"`
	O string `json:"o"`
	P uint64 `json:"p"`
}
type blkSt struct {
	H    int64 `json:"h"`
	Used int64 `json:"used"`
}
type routeSt struct {
	Route []uint64         `json:"route"`
	N     int64            `json:"n"`
	P     map[string]int64 `json:"p"`
}
type statsSt struct {
	N       int64            `json:"n"`
	ByDenom map[string]int64 `json:"byDenom"`
	Routes  []routeSt        `json:"routes"`
}
type bankSt struct {
	Mod  map[string]int64            `json:"mod"`
	Null map[string]int64            `json:"null"`
	Cp   map[string]int64            `json:"cp"`
	Dev  map[string]map[string]int64 `json:"dev"`
	Usr  map[string]map[string]int64 `json:"usr"`
	Sup  map[string]int64            `json:"sup"`
}
type stateT struct {
	Pools []poolSt `json:"pools"`
	Cfg   cfgSt    `json:"cfg"`
	Idx   []idxE   `json:"idx"`
	Blk   blkSt    `json:"blk"`
	Stats statsSt  `json:"stats"`
	Bank  bankSt   `json:"bank"`
}

// baseline of the ledgers that are reported relative to the start of the history
type baseline struct {
	sup, null, cp map[string]osmomath.Int
	usr           map[string]map[string]osmomath.Int
}

func (w *world) nameOf(a sdk.AccAddress) string {
	for n, x := range w.accts {
		if x.Addr.Equals(a) {
			return n
		}
	}
	return "?" + a.String()
}

func (w *world) community(ctx sdk.Context, d string) osmomath.Int {
	fp, err := w.App.DistrKeeper.FeePool.Get(ctx)
	if err != nil {
		panic(err)
	}
	x := fp.CommunityPool.AmountOf(d)
	if !x.Equal(x.TruncateDec()) {
		panic("community pool holds a fraction of " + d)
	}
	return x.TruncateInt()
}

func (w *world) takeBaseline() {
	b := &baseline{sup: map[string]osmomath.Int{}, null: map[string]osmomath.Int{}, cp: map[string]osmomath.Int{}, usr: map[string]map[string]osmomath.Int{}}
	for _, d := range w.denoms {
		b.sup[d] = w.App.BankKeeper.GetSupply(w.Ctx, d).Amount
		b.null[d] = w.App.BankKeeper.GetBalance(w.Ctx, prtypes.DefaultNullAddress, d).Amount
		b.cp[d] = w.community(w.Ctx, d)
	}
	w.base0 = b
	w.rebaseUsers()
}

func (w *world) rebaseUsers() {
	for _, u := range userNames {
		w.base0.usr[u] = map[string]osmomath.Int{}
		for _, d := range w.denoms {
			w.base0.usr[u][d] = w.App.BankKeeper.GetBalance(w.Ctx, w.accts[u].Addr, d).Amount
		}
	}
}

func hotOf(rs []prtypes.TokenPairArbRoutes) []pairT {
	res := []pairT{}
	for _, p := range rs {
		x := pairT{In: p.TokenIn, Out: p.TokenOut, Routes: []routeT{}}
		for _, r := range p.ArbRoutes {
			rr := routeT{Trades: []hop{}, Step: -999}
			if !r.StepSize.IsNil() {
				rr.Step = i32(r.StepSize)
			}
			for _, t := range r.Trades {
				rr.Trades = append(rr.Trades, hop{Pool: t.Pool, In: t.TokenIn, Out: t.TokenOut})
			}
			x.Routes = append(x.Routes, rr)
		}
		res = append(res, x)
	}
	return res
}

func basesOf(bs []prtypes.BaseDenom) []baseT {
	res := []baseT{}
	for _, b := range bs {
		x := baseT{D: b.Denom, Step: -999}
		if !b.StepSize.IsNil() {
			x.Step = i32(b.StepSize)
		}
		res = append(res, x)
	}
	return res
}

// the whole index as it is in the store (entries of base denominations no longer configured included)
func (w *world) rawIndex(ctx sdk.Context) []idxE {
	res := []idxE{}
	st := ctx.KVStore(w.App.GetKey(prtypes.StoreKey))
	it := storetypes.KVStorePrefixIterator(st, prtypes.KeyPrefixDenomPairToPool)
	defer it.Close()
	for ; it.Valid(); it.Next() {
		k := string(it.Key()[2:]) // prefix of the prefix store + prefix of the key
		parts := strings.Split(k, "|")
		if len(parts) != 2 {
			panic("index key " + k)
		}
		res = append(res, idxE{B: parts[0], O: parts[1], P: sdk.BigEndianToUint64(it.Value())})
	}
	return res
}

func (w *world) poolStates(ctx sdk.Context) []poolSt {
	next := w.App.PoolManagerKeeper.GetNextPoolId(ctx)
	if int(next)-1 != len(w.pools) {
		panic(fmt.Sprintf("the app has %d pools, the universe %d", next-1, len(w.pools)))
	}
	prods := []*big.Int{}
	for i, p := range w.pools {
		if p.ID != uint64(i+1) {
			panic("pool ids are expected to be 1..n")
		}
		prods = append(prods, w.liq(ctx, p.ID).BigInt())
	}
	sorted := append([]*big.Int{}, prods...)
	sort.Slice(sorted, func(i, j int) bool { return sorted[i].Cmp(sorted[j]) < 0 })
	rank := func(x *big.Int) int {
		r := 0
		var prev *big.Int
		for _, y := range sorted {
			if prev == nil || y.Cmp(prev) != 0 {
				r++
				prev = y
			}
			if y.Cmp(x) == 0 {
				return r
			}
		}
		panic("rank")
	}
	res := []poolSt{}
	for i, p := range w.pools {
		res = append(res, poolSt{Kind: p.Kind, A: p.A, B: p.B, Liq: rank(prods[i])})
	}
	// a tie between two pools of the same pair would make the index ambiguous: the drivers avoid it
	for i, p := range w.pools {
		for j, q := range w.pools {
			if i < j && res[i].Liq == res[j].Liq && ((p.A == q.A && p.B == q.B) || (p.A == q.B && p.B == q.A)) {
				w.tie = true
			}
		}
	}
	return res
}

func (w *world) state() stateT {
	var s stateT
	out := w.Peek(func(ctx sdk.Context) error {
		k := w.App.ProtoRevKeeper
		s.Pools = w.poolStates(ctx)
		c := &s.Cfg
		c.Enabled = k.GetProtoRevEnabled(ctx)
		c.Admin = w.nameOf(k.GetAdminAccount(ctx))
		if d, err := k.GetDeveloperAccount(ctx); err == nil {
			c.Dev = w.nameOf(d)
		}
		mt, err := k.GetMaxPointsPerTx(ctx)
		if err != nil {
			return err
		}
		mb, err := k.GetMaxPointsPerBlock(ctx)
		if err != nil {
			return err
		}
		c.MaxTx, c.MaxBlock = int64(mt), int64(mb)
		info := k.GetInfoByPoolType(ctx)
		c.W = wSt{Bal: int64(info.Balancer.Weight), Stable: int64(info.Stable.Weight), Cl: int64(info.Concentrated.Weight)}
		c.Ticks = int64(info.Concentrated.MaxTicksCrossed)
		bs, err := k.GetAllBaseDenoms(ctx)
		if err != nil {
			return err
		}
		c.Bases = basesOf(bs)
		hr, err := k.GetAllTokenPairArbRoutes(ctx)
		if err != nil {
			return err
		}
		c.Hot = hotOf(hr)
		days, err := k.GetDaysSinceModuleGenesis(ctx)
		if err != nil {
			return err
		}
		c.Days = int64(days)
		s.Idx = w.rawIndex(ctx)
		// points used in this block: the stored count belongs to the stored height
		cnt, err := k.GetPointCountForBlock(ctx)
		if err != nil {
			return err
		}
		lh, err := k.GetLatestBlockHeight(ctx)
		if err != nil {
			return err
		}
		s.Blk = blkSt{H: ctx.BlockHeight()}
		if int64(lh) == ctx.BlockHeight() {
			s.Blk.Used = int64(cnt)
		}
		// statistics, by exact keys
		st := &s.Stats
		if n, err := k.GetNumberOfTrades(ctx); err == nil {
			st.N = i32(n)
		}
		st.ByDenom = map[string]int64{}
		for _, d := range w.denoms {
			st.ByDenom[d] = 0
			if c, err := k.GetProfitsByDenom(ctx, d); err == nil {
				st.ByDenom[d] = i32(c.Amount)
			}
		}
		for _, c := range k.GetAllProfits(ctx) {
			if _, ok := st.ByDenom[c.Denom]; !ok {
				panic("profit outside the universe: " + c.String())
			}
		}
		st.Routes = []routeSt{}
		routes, err := k.GetAllRoutes(ctx)
		if err != nil {
			return err
		}
		for _, r := range routes {
			x := routeSt{Route: r, P: map[string]int64{}}
			n, err := k.GetTradesByRoute(ctx, r)
			if err != nil {
				return err
			}
			x.N = i32(n)
			for _, d := range w.denoms {
				x.P[d] = 0
				if c, err := k.GetProfitsByRoute(ctx, r, d); err == nil {
					x.P[d] = i32(c.Amount)
				}
			}
			st.Routes = append(st.Routes, x)
		}
		// ledgers
		b := &s.Bank
		b.Mod, b.Null, b.Cp, b.Sup = map[string]int64{}, map[string]int64{}, map[string]int64{}, map[string]int64{}
		b.Dev, b.Usr = map[string]map[string]int64{}, map[string]map[string]int64{}
		for _, d := range w.denoms {
			b.Mod[d] = i32(w.App.BankKeeper.GetBalance(ctx, w.modAcc, d).Amount)
			b.Null[d] = i32(w.App.BankKeeper.GetBalance(ctx, prtypes.DefaultNullAddress, d).Amount.Sub(w.base0.null[d]))
			b.Cp[d] = i32(w.community(ctx, d).Sub(w.base0.cp[d]))
			b.Sup[d] = i32(w.App.BankKeeper.GetSupply(ctx, d).Amount.Sub(w.base0.sup[d]))
		}
		for _, n := range devNames {
			b.Dev[n] = map[string]int64{}
			for _, d := range w.denoms {
				b.Dev[n][d] = i32(w.App.BankKeeper.GetBalance(ctx, w.accts[n].Addr, d).Amount)
			}
		}
		for _, n := range userNames {
			b.Usr[n] = map[string]int64{}
			for _, d := range w.denoms {
				b.Usr[n][d] = i32(w.App.BankKeeper.GetBalance(ctx, w.accts[n].Addr, d).Amount.Sub(w.base0.usr[n][d]))
			}
		}
		return nil
	})
	if !out.OK {
		panic("projection failed: " + out.Err)
	}
	return s
}

// ---------------------------------------------------------------------------
// what the registered gRPC query service answers

type queryT struct {
	N        int64            `json:"n"`
	ByDenom  map[string]int64 `json:"byDenom"`
	All      map[string]int64 `json:"all"`
	Routes   []routeSt        `json:"routes"`
	One      []routeSt        `json:"one"`
	MaxTx    int64            `json:"maxTx"`
	MaxBlock int64            `json:"maxBlock"`
	Bases    []baseT          `json:"bases"`
	Enabled  bool             `json:"enabled"`
	Dev      string           `json:"dev"`
	Admin    string           `json:"admin"`
	Hot      []pairT          `json:"hot"`
	W        wSt              `json:"w"`
	Ticks    int64            `json:"ticks"`
	Pool     []idxE           `json:"pool"`
}

func (w *world) routeStat(rs prtypes.RouteStatistics) routeSt {
	x := routeSt{Route: rs.Route, N: i32(rs.NumberOfTrades), P: map[string]int64{}}
	if x.Route == nil {
		x.Route = []uint64{}
	}
	for _, d := range w.denoms {
		x.P[d] = 0
	}
	for _, c := range rs.Profits {
		if _, ok := x.P[c.Denom]; !ok {
			panic("route profit outside the universe: " + c.String())
		}
		x.P[c.Denom] += i32(c.Amount) // a denomination may be listed more than once
	}
	return x
}

func (w *world) queries(st stateT) queryT {
	qc := w.queryClient()
	q := queryT{N: -1, ByDenom: map[string]int64{}, All: map[string]int64{}, Routes: []routeSt{}, One: []routeSt{}, Pool: []idxE{}}
	if r, err := qc.GetProtoRevNumberOfTrades(w.Ctx, &prtypes.QueryGetProtoRevNumberOfTradesRequest{}); err == nil {
		q.N = i32(r.NumberOfTrades)
	}
	for _, d := range w.denoms {
		q.ByDenom[d], q.All[d] = -1, 0
		if r, err := qc.GetProtoRevProfitsByDenom(w.Ctx, &prtypes.QueryGetProtoRevProfitsByDenomRequest{Denom: d}); err == nil {
			q.ByDenom[d] = i32(r.Profit.Amount)
		}
	}
	if r, err := qc.GetProtoRevAllProfits(w.Ctx, &prtypes.QueryGetProtoRevAllProfitsRequest{}); err == nil {
		for _, c := range r.Profits {
			q.All[c.Denom] += i32(c.Amount)
		}
	} else {
		panic(err)
	}
	if r, err := qc.GetProtoRevAllRouteStatistics(w.Ctx, &prtypes.QueryGetProtoRevAllRouteStatisticsRequest{}); err == nil {
		for _, rs := range r.Statistics {
			q.Routes = append(q.Routes, w.routeStat(rs))
		}
	}
	for _, x := range st.Stats.Routes {
		r, err := qc.GetProtoRevStatisticsByRoute(w.Ctx, &prtypes.QueryGetProtoRevStatisticsByRouteRequest{Route: x.Route})
		if err != nil {
			panic(fmt.Sprintf("statistics of route %v: %v", x.Route, err))
		}
		q.One = append(q.One, w.routeStat(r.Statistics))
	}
	if r, err := qc.GetProtoRevMaxPoolPointsPerTx(w.Ctx, &prtypes.QueryGetProtoRevMaxPoolPointsPerTxRequest{}); err == nil {
		q.MaxTx = int64(r.MaxPoolPointsPerTx)
	} else {
		panic(err)
	}
	if r, err := qc.GetProtoRevMaxPoolPointsPerBlock(w.Ctx, &prtypes.QueryGetProtoRevMaxPoolPointsPerBlockRequest{}); err == nil {
		q.MaxBlock = int64(r.MaxPoolPointsPerBlock)
	} else {
		panic(err)
	}
	if r, err := qc.GetProtoRevBaseDenoms(w.Ctx, &prtypes.QueryGetProtoRevBaseDenomsRequest{}); err == nil {
		q.Bases = basesOf(r.BaseDenoms)
	} else {
		panic(err)
	}
	if r, err := qc.GetProtoRevEnabled(w.Ctx, &prtypes.QueryGetProtoRevEnabledRequest{}); err == nil {
		q.Enabled = r.Enabled
	} else {
		panic(err)
	}
	if r, err := qc.GetProtoRevDeveloperAccount(w.Ctx, &prtypes.QueryGetProtoRevDeveloperAccountRequest{}); err == nil {
		q.Dev = w.nameOf(sdk.MustAccAddressFromBech32(r.DeveloperAccount))
	}
	if r, err := qc.GetProtoRevAdminAccount(w.Ctx, &prtypes.QueryGetProtoRevAdminAccountRequest{}); err == nil {
		q.Admin = w.nameOf(sdk.MustAccAddressFromBech32(r.AdminAccount))
	} else {
		panic(err)
	}
	if r, err := qc.GetProtoRevTokenPairArbRoutes(w.Ctx, &prtypes.QueryGetProtoRevTokenPairArbRoutesRequest{}); err == nil {
		q.Hot = hotOf(r.Routes)
	} else {
		panic(err)
	}
	if r, err := qc.GetProtoRevInfoByPoolType(w.Ctx, &prtypes.QueryGetProtoRevInfoByPoolTypeRequest{}); err == nil {
		i := r.InfoByPoolType
		q.W = wSt{Bal: int64(i.Balancer.Weight), Stable: int64(i.Stable.Weight), Cl: int64(i.Concentrated.Weight)}
		q.Ticks = int64(i.Concentrated.MaxTicksCrossed)
	} else {
		panic(err)
	}
	for _, b := range st.Cfg.Bases {
		for _, d := range w.denoms {
			if d == b.D {
				continue
			}
			if r, err := qc.GetProtoRevPool(w.Ctx, &prtypes.QueryGetProtoRevPoolRequest{BaseDenom: b.D, OtherDenom: d}); err == nil {
				q.Pool = append(q.Pool, idxE{B: b.D, O: d, P: r.PoolId})
			}
		}
	}
	return q
}
