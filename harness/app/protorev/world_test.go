// Package protorev binds the real x/protorev module (post handler as wired into the application's
// baseapp, message server, governance handlers, gRPC queries, the day-epoch hook, the pool hooks) to
// spec/ProtoRev.tla (extra check X08).
//
// Transactions are real signed transactions delivered through baseapp's runTx in finalize mode
// (BaseApp.SimDeliver): ante chain -> message handlers (real swaps on real balancer / stableswap /
// concentrated pools) -> post handler chain (protorev's back-run), with baseapp's own branching.
package protorev

import (
	"fmt"
	"sort"
	"strconv"
	"time"

	"testing"

	"cosmossdk.io/log"
	storetypes "cosmossdk.io/store/types"
	abci "github.com/cometbft/cometbft/abci/types"
	cmtproto "github.com/cometbft/cometbft/proto/tendermint/types"
	"github.com/cosmos/cosmos-sdk/baseapp"
	"github.com/cosmos/cosmos-sdk/crypto/keys/secp256k1"
	sdk "github.com/cosmos/cosmos-sdk/types"
	"github.com/cosmos/cosmos-sdk/types/tx/signing"
	authsigning "github.com/cosmos/cosmos-sdk/x/auth/signing"
	banktypes "github.com/cosmos/cosmos-sdk/x/bank/types"

	"github.com/osmosis-labs/osmosis/osmomath"
	"github.com/osmosis-labs/osmosis/osmoutils"
	"github.com/osmosis-labs/osmosis/v31/app"
	"github.com/osmosis-labs/osmosis/v31/app/params"
	clmodel "github.com/osmosis-labs/osmosis/v31/x/concentrated-liquidity/model"
	"github.com/osmosis-labs/osmosis/v31/x/gamm/pool-models/balancer"
	"github.com/osmosis-labs/osmosis/v31/x/gamm/pool-models/stableswap"
	gammtypes "github.com/osmosis-labs/osmosis/v31/x/gamm/types"
	pmtypes "github.com/osmosis-labs/osmosis/v31/x/poolmanager/types"
	protorevmod "github.com/osmosis-labs/osmosis/v31/x/protorev"
	prtypes "github.com/osmosis-labs/osmosis/v31/x/protorev/types"
	txfeetypes "github.com/osmosis-labs/osmosis/v31/x/txfees/types"

	"verif/harness/apphelp"
)

const (
	osmo     = "uosmo"
	gasLimit = 30_000_000
)

// transactions delivered into one block before the recorder commits it on its own
var perBlock = 6

type acct struct {
	Name string
	Priv *secp256k1.PrivKey
	Addr sdk.AccAddress
}

type poolInfo struct {
	ID   uint64
	Kind string // bal | stable | cl
	A, B string // denoms
}

type world struct {
	*apphelp.World
	enc    params.EncodingConfig
	salt   string
	accts  map[string]*acct // admin, eve (a stranger), u1, u2 (users), dev, dev2, lp
	denoms []string         // universe, uosmo first
	pools  []poolInfo
	modAcc sdk.AccAddress
	txs    int // transactions delivered into the block in progress
	ntx    int
	epochN int64
	base0  *baseline
	tie    bool // two pools of one pair had the same liquidity at some observed state
}

func newWorld(t *testing.T, salt string, denoms []string) *world {
	txfeetypes.ConsensusMinFee = osmomath.ZeroDec()
	w := &world{World: apphelp.New(t), salt: salt, accts: map[string]*acct{}}
	w.Ctx = w.Ctx.WithLogger(log.NewNopLogger())
	w.enc = app.MakeEncodingConfig()
	w.denoms = append([]string{osmo}, denoms...)
	// block 1 begins (begin / end blockers run); transactions are then delivered into its state by runTx
	if _, err := w.App.FinalizeBlock(&abci.RequestFinalizeBlock{Height: w.Ctx.BlockHeight(), Time: w.Ctx.BlockTime()}); err != nil {
		t.Fatalf("FinalizeBlock: %v", err)
	}
	w.rectx(w.Ctx.BlockHeight(), w.Ctx.BlockTime())
	// as on the live chain the module account exists (a plain send to its address before its first use would
	// create an ordinary account there, and every later back-run would fail when it mints its input)
	w.modAcc = w.App.AccountKeeper.GetModuleAccount(w.Ctx, prtypes.ModuleName).GetAddress()
	for _, n := range []string{"admin", "eve", "u1", "u2", "dev", "dev2", "lp"} {
		priv := secp256k1.GenPrivKeyFromSecret([]byte("verif-x08-" + salt + "-" + n))
		a := &acct{Name: n, Priv: priv, Addr: sdk.AccAddress(priv.PubKey().Address())}
		w.accts[n] = a
		if n == "dev" || n == "dev2" {
			continue // developer accounts start empty: what they hold is what protorev paid them
		}
		cs := sdk.Coins{}
		for _, d := range w.denoms {
			amt := int64(1_000_000_000_000_000)
			if n == "lp" {
				amt *= 1000
			}
			cs = cs.Add(sdk.NewCoin(d, osmomath.NewInt(amt)))
		}
		w.FundAcc(a.Addr, cs)
	}
	// the governance proposal handler is the public way to name the admin
	if err := protorevmod.HandleSetProtoRevAdminAccount(w.Ctx, *w.App.ProtoRevKeeper, &prtypes.SetProtoRevAdminAccountProposal{
		Title: "t", Description: "d", Account: w.accts["admin"].Addr.String()}); err != nil {
		t.Fatalf("set admin: %v", err)
	}
	return w
}

func (w *world) rectx(h int64, tm time.Time) {
	w.Ctx = w.App.BaseApp.NewContextLegacy(false, cmtproto.Header{Height: h, ChainID: "osmosis-1", Time: tm}).WithLogger(log.NewNopLogger())
}

// nextBlock commits the block in progress and starts the next one.
func (w *world) nextBlock() {
	h, tm := w.Ctx.BlockHeight()+1, w.Ctx.BlockTime().Add(5*time.Second)
	w.Ctx.MultiStore().(storetypes.CacheMultiStore).Write()
	if _, err := w.App.Commit(); err != nil {
		panic(err)
	}
	if _, err := w.App.FinalizeBlock(&abci.RequestFinalizeBlock{Height: h, Time: tm}); err != nil {
		panic(err)
	}
	w.rectx(h, tm)
	w.txs = 0
}

// ---------------------------------------------------------------------------
// pools

func (w *world) createPool(kind, a, b string, ra, rb int64, fee string) uint64 {
	lp := w.accts["lp"].Addr
	sf := osmomath.MustNewDecFromStr(fee)
	coins := sdk.NewCoins(sdk.NewCoin(a, osmomath.NewInt(ra)), sdk.NewCoin(b, osmomath.NewInt(rb)))
	// the liquidity provider was funded once, before the history starts: nothing is minted later
	var id uint64
	var err error
	cp0 := w.community(w.Ctx, osmo)
	defer func() {
		// the pool creation fee goes to the community pool: not protorev's doing
		if w.base0 != nil {
			w.base0.cp[osmo] = w.base0.cp[osmo].Add(w.community(w.Ctx, osmo).Sub(cp0))
		}
	}()
	switch kind {
	case "bal":
		assets := []balancer.PoolAsset{}
		for _, c := range coins {
			assets = append(assets, balancer.PoolAsset{Weight: osmomath.NewInt(1), Token: c})
		}
		id, err = w.App.PoolManagerKeeper.CreatePool(w.Ctx, balancer.NewMsgCreateBalancerPool(lp, balancer.PoolParams{SwapFee: sf, ExitFee: osmomath.ZeroDec()}, assets, ""))
	case "stable":
		id, err = w.App.PoolManagerKeeper.CreatePool(w.Ctx, stableswap.NewMsgCreateStableswapPool(lp, stableswap.PoolParams{SwapFee: sf, ExitFee: osmomath.ZeroDec()}, coins, []uint64{1, 1}, ""))
	case "cl":
		id, err = w.App.PoolManagerKeeper.CreatePool(w.Ctx, clmodel.NewMsgCreateConcentratedPool(lp, coins[0].Denom, coins[1].Denom, 100, sf))
		if err == nil {
			_, err = w.App.ConcentratedLiquidityKeeper.CreateFullRangePosition(w.Ctx, id, lp, coins)
		}
	default:
		panic("pool kind " + kind)
	}
	if err != nil {
		panic(fmt.Sprintf("create %s pool %s/%s: %v", kind, a, b, err))
	}
	w.pools = append(w.pools, poolInfo{ID: id, Kind: kind, A: a, B: b})
	return id
}

func (w *world) pool(id uint64) poolInfo {
	for _, p := range w.pools {
		if p.ID == id {
			return p
		}
	}
	panic(fmt.Sprintf("pool %d outside the universe", id))
}

// liquidity of a pool as protorev compares it: the product of the two amounts
func (w *world) liq(ctx sdk.Context, id uint64) osmomath.Int {
	cs, err := w.App.PoolManagerKeeper.GetTotalPoolLiquidity(ctx, id)
	if err != nil {
		panic(err)
	}
	if len(cs) != 2 {
		return osmomath.ZeroInt()
	}
	return cs[0].Amount.Mul(cs[1].Amount)
}

// ---------------------------------------------------------------------------
// transactions

type hop struct {
	Pool uint64 `json:"pool"`
	In   string `json:"in"`
	Out  string `json:"out"`
}

// one message of a transaction, in the vocabulary of the specification
type msgT struct {
	K    string   `json:"k"`    // swapin | swapout | gswap | join | fund | send | fail | admin messages: hot | devacct | maxtx | maxblock | info | bases
	By   string   `json:"by"`   // account name
	Ok   bool     `json:"ok"`   // what the message answers when the messages of the transaction run alone
	Hops []hop    `json:"hops"` // swaps: the pools traversed with denominations; fund: the denomination
	Amt  int64    `json:"amt"`
	Arg  adminArg `json:"arg"`
}

type routeT struct {
	Trades []hop `json:"trades"`
	Step   int64 `json:"step"`
}
type pairT struct {
	In     string   `json:"in"`
	Out    string   `json:"out"`
	Routes []routeT `json:"routes"`
}
type baseT struct {
	D    string `json:"d"`
	Step int64  `json:"step"`
}
type infoT struct {
	Bal    int64 `json:"bal"`
	Stable int64 `json:"stable"`
	Cl     int64 `json:"cl"`
	Ticks  int64 `json:"ticks"`
}
type adminArg struct {
	N     int64   `json:"n"`
	Acct  string  `json:"acct"`
	Hot   []pairT `json:"hot"`
	Bases []baseT `json:"bases"`
	Info  infoT   `json:"info"`
}

func (w *world) sdkMsg(m msgT) sdk.Msg {
	a := w.accts[m.By]
	switch m.K {
	case "swapin":
		rt := []pmtypes.SwapAmountInRoute{}
		for _, h := range m.Hops {
			rt = append(rt, pmtypes.SwapAmountInRoute{PoolId: h.Pool, TokenOutDenom: h.Out})
		}
		return &pmtypes.MsgSwapExactAmountIn{Sender: a.Addr.String(), Routes: rt, TokenIn: sdk.NewInt64Coin(m.Hops[0].In, m.Amt), TokenOutMinAmount: osmomath.OneInt()}
	case "swapout":
		rt := []pmtypes.SwapAmountOutRoute{}
		for _, h := range m.Hops {
			rt = append(rt, pmtypes.SwapAmountOutRoute{PoolId: h.Pool, TokenInDenom: h.In})
		}
		last := m.Hops[len(m.Hops)-1]
		return &pmtypes.MsgSwapExactAmountOut{Sender: a.Addr.String(), Routes: rt, TokenOut: sdk.NewInt64Coin(last.Out, m.Amt), TokenInMaxAmount: osmomath.NewInt(1_000_000_000_000_000)}
	case "gswap":
		rt := []pmtypes.SwapAmountInRoute{}
		for _, h := range m.Hops {
			rt = append(rt, pmtypes.SwapAmountInRoute{PoolId: h.Pool, TokenOutDenom: h.Out})
		}
		return &gammtypes.MsgSwapExactAmountIn{Sender: a.Addr.String(), Routes: rt, TokenIn: sdk.NewInt64Coin(m.Hops[0].In, m.Amt), TokenOutMinAmount: osmomath.OneInt()}
	case "join":
		return &gammtypes.MsgJoinSwapExternAmountIn{Sender: a.Addr.String(), PoolId: m.Hops[0].Pool, TokenIn: sdk.NewInt64Coin(m.Hops[0].In, m.Amt), ShareOutMinAmount: osmomath.OneInt()}
	case "fund":
		return &banktypes.MsgSend{FromAddress: a.Addr.String(), ToAddress: w.modAcc.String(), Amount: sdk.NewCoins(sdk.NewInt64Coin(m.Hops[0].In, m.Amt))}
	case "fail":
		return &banktypes.MsgSend{FromAddress: a.Addr.String(), ToAddress: w.accts["eve"].Addr.String(), Amount: sdk.NewCoins(sdk.NewInt64Coin("nosuchcoin", 1))}
	case "send":
		return &banktypes.MsgSend{FromAddress: a.Addr.String(), ToAddress: w.accts["eve"].Addr.String(), Amount: sdk.NewCoins(sdk.NewInt64Coin(osmo, 1))}
	case "devacct":
		to := m.Arg.Acct
		if x, ok := w.accts[to]; ok {
			to = x.Addr.String()
		}
		return &prtypes.MsgSetDeveloperAccount{Admin: a.Addr.String(), DeveloperAccount: to}
	case "maxtx":
		return &prtypes.MsgSetMaxPoolPointsPerTx{Admin: a.Addr.String(), MaxPoolPointsPerTx: uint64(m.Arg.N)}
	case "maxblock":
		return &prtypes.MsgSetMaxPoolPointsPerBlock{Admin: a.Addr.String(), MaxPoolPointsPerBlock: uint64(m.Arg.N)}
	case "info":
		i := m.Arg.Info
		return &prtypes.MsgSetInfoByPoolType{Admin: a.Addr.String(), InfoByPoolType: prtypes.InfoByPoolType{
			Balancer: prtypes.BalancerPoolInfo{Weight: uint64(i.Bal)}, Stable: prtypes.StablePoolInfo{Weight: uint64(i.Stable)},
			Concentrated: prtypes.ConcentratedPoolInfo{Weight: uint64(i.Cl), MaxTicksCrossed: uint64(i.Ticks)}}}
	case "bases":
		bs := []prtypes.BaseDenom{}
		for _, b := range m.Arg.Bases {
			x := prtypes.BaseDenom{Denom: b.D, StepSize: osmomath.NewInt(b.Step)}
			if b.Step == -999 {
				x.StepSize = osmomath.Int{} // not set
			}
			bs = append(bs, x)
		}
		return &prtypes.MsgSetBaseDenoms{Admin: a.Addr.String(), BaseDenoms: bs}
	case "hot":
		hr := []prtypes.TokenPairArbRoutes{}
		for _, p := range m.Arg.Hot {
			x := prtypes.TokenPairArbRoutes{TokenIn: p.In, TokenOut: p.Out, ArbRoutes: []prtypes.Route{}}
			for _, r := range p.Routes {
				rr := prtypes.Route{StepSize: osmomath.NewInt(r.Step), Trades: []prtypes.Trade{}}
				if r.Step == -999 {
					rr.StepSize = osmomath.Int{}
				}
				for _, t := range r.Trades {
					rr.Trades = append(rr.Trades, prtypes.Trade{Pool: t.Pool, TokenIn: t.In, TokenOut: t.Out})
				}
				x.ArbRoutes = append(x.ArbRoutes, rr)
			}
			hr = append(hr, x)
		}
		return &prtypes.MsgSetHotRoutes{Admin: a.Addr.String(), HotRoutes: hr}
	}
	panic("unknown message kind " + m.K)
}

// build signs the transaction with every signer's own key.
func (w *world) build(msgs []msgT) (sdk.Tx, error) {
	var sm []sdk.Msg
	var signers []*acct
	seen := map[string]bool{}
	for _, m := range msgs {
		sm = append(sm, w.sdkMsg(m))
		if !seen[m.By] {
			seen[m.By] = true
			signers = append(signers, w.accts[m.By])
		}
	}
	gen := w.enc.TxConfig
	signMode, err := authsigning.APISignModeToInternal(gen.SignModeHandler().DefaultMode())
	if err != nil {
		return nil, err
	}
	b := gen.NewTxBuilder()
	if err := b.SetMsgs(sm...); err != nil {
		return nil, err
	}
	w.ntx++
	b.SetMemo(fmt.Sprintf("x08-%s-%d", w.salt, w.ntx))
	b.SetFeeAmount(sdk.NewCoins())
	b.SetGasLimit(gasLimit)
	sigs := make([]signing.SignatureV2, len(signers))
	nums := make([]uint64, len(signers))
	for i, s := range signers {
		acc := w.App.AccountKeeper.GetAccount(w.Ctx, s.Addr)
		nums[i] = acc.GetAccountNumber()
		sigs[i] = signing.SignatureV2{PubKey: s.Priv.PubKey(), Data: &signing.SingleSignatureData{SignMode: signMode}, Sequence: acc.GetSequence()}
	}
	if err := b.SetSignatures(sigs...); err != nil {
		return nil, err
	}
	for i, s := range signers {
		sd := authsigning.SignerData{Address: s.Addr.String(), ChainID: w.Ctx.ChainID(), AccountNumber: nums[i], Sequence: sigs[i].Sequence, PubKey: s.Priv.PubKey()}
		bz, err := authsigning.GetSignBytesAdapter(w.Ctx, gen.SignModeHandler(), signMode, sd, b.GetTx())
		if err != nil {
			return nil, err
		}
		sig, err := s.Priv.Sign(bz)
		if err != nil {
			return nil, err
		}
		sigs[i].Data.(*signing.SingleSignatureData).Signature = sig
		if err := b.SetSignatures(sigs...); err != nil {
			return nil, err
		}
	}
	return b.GetTx(), nil
}

// what the post handler did, read off the events of the transaction result: the events of the post
// handlers carry no msg_index attribute; each back-run is the pool swaps preceding its protorev_backrun event
type tradeT struct {
	Hops   []hop  `json:"hops"`
	Denom  string `json:"denom"`
	In     int64  `json:"in"`
	Out    int64  `json:"out"`
	Profit int64  `json:"profit"`
	UPool  uint64 `json:"upool"`
	UIn    string `json:"uin"`
	UOut   string `json:"uout"`
}

func (t tradeT) route() []uint64 {
	r := []uint64{}
	for _, h := range t.Hops {
		r = append(r, h.Pool)
	}
	return r
}

type txResult struct {
	OK     bool
	Err    string
	Trades []tradeT
}

func attr(ev abci.Event, k string) (string, bool) {
	for _, a := range ev.Attributes {
		if a.Key == k {
			return a.Value, true
		}
	}
	return "", false
}

func coinDenom(s string) string {
	c, err := sdk.ParseCoinNormalized(s)
	if err != nil {
		panic("event coin " + s + ": " + err.Error())
	}
	return c.Denom
}

func intAttr(ev abci.Event, k string) int64 {
	x, ok := attr(ev, k)
	if !ok {
		panic("event " + ev.Type + " lacks " + k)
	}
	v, ok := osmomath.NewIntFromString(x)
	if !ok {
		panic("event " + ev.Type + "." + k + " = " + x)
	}
	return i32(v)
}

func parseTrades(evs []abci.Event) []tradeT {
	res := []tradeT{}
	cur := []hop{}
	for _, ev := range evs {
		if _, has := attr(ev, "msg_index"); has {
			continue
		}
		switch ev.Type {
		case "token_swapped":
			pid, _ := attr(ev, "pool_id")
			id, _ := strconv.ParseUint(pid, 10, 64)
			in, _ := attr(ev, "tokens_in")
			out, _ := attr(ev, "tokens_out")
			cur = append(cur, hop{Pool: id, In: coinDenom(in), Out: coinDenom(out)})
		case prtypes.TypeEvtBackrun:
			t := tradeT{Hops: cur}
			cur = []hop{}
			t.Denom, _ = attr(ev, prtypes.AttributeKeyProtorevArbDenom)
			t.In = intAttr(ev, prtypes.AttributeKeyProtorevAmountIn)
			t.Out = intAttr(ev, prtypes.AttributeKeyProtorevAmountOut)
			t.Profit = intAttr(ev, prtypes.AttributeKeyProtorevProfit)
			t.UPool = uint64(intAttr(ev, prtypes.AttributeKeyUserPoolId))
			t.UIn, _ = attr(ev, prtypes.AttributeKeyUserDenomIn)
			t.UOut, _ = attr(ev, prtypes.AttributeKeyUserDenomOut)
			res = append(res, t)
		}
	}
	return res
}

// deliver runs the transaction through baseapp.runTx in finalize mode.
func (w *world) deliver(msgs []msgT) txResult {
	tx, err := w.build(msgs)
	if err != nil {
		panic("cannot build transaction: " + err.Error())
	}
	w.txs++
	res := txResult{Trades: []tradeT{}}
	func() {
		defer func() {
			if r := recover(); r != nil {
				res.OK, res.Err = false, fmt.Sprint("panic: ", r)
			}
		}()
		_, r, err := w.App.BaseApp.SimDeliver(w.enc.TxConfig.TxEncoder(), tx)
		res.OK = err == nil
		if err != nil {
			res.Err = err.Error()
		}
		if r != nil {
			res.Trades = parseTrades(r.Events)
		}
	}()
	return res
}

// solo runs the messages of a transaction alone - ValidateBasic and the registered handlers on a
// discarded branch, no ante chain, no post handlers - and reports the verdict of every message and what
// the transaction by itself does to the two users (denominations of the universe).
func (w *world) solo(msgs []msgT) (ok bool, oks []bool, ud map[string]map[string]int64, huge bool) {
	oks = make([]bool, len(msgs))
	ud = map[string]map[string]int64{}
	before := map[string]sdk.Coins{}
	for _, u := range userNames {
		before[u] = w.App.BankKeeper.GetAllBalances(w.Ctx, w.accts[u].Addr)
		ud[u] = map[string]int64{}
		for _, d := range w.denoms {
			ud[u][d] = 0
		}
	}
	out := w.Peek(func(ctx sdk.Context) error {
		for i, m := range msgs {
			msg := w.sdkMsg(m)
			if vb, ok := msg.(interface{ ValidateBasic() error }); ok {
				if err := vb.ValidateBasic(); err != nil {
					return err
				}
			}
			h := w.App.GetBaseApp().MsgServiceRouter().Handler(msg)
			if _, err := h(ctx, msg); err != nil {
				return err
			}
			oks[i] = true
		}
		for _, u := range userNames {
			after := w.App.BankKeeper.GetAllBalances(ctx, w.accts[u].Addr)
			for _, d := range w.denoms {
				x := after.AmountOf(d).Sub(before[u].AmountOf(d))
				if !x.IsInt64() || x.Int64() > 2_000_000_000 || x.Int64() < -2_000_000_000 {
					huge = true // beyond the integers of the trace format: the recorder does not send this transaction
					continue
				}
				ud[u][d] = x.Int64()
			}
		}
		return nil
	})
	return out.OK, oks, ud, huge
}

var userNames = []string{"u1", "u2"}
var devNames = []string{"dev", "dev2"}

// numbers of the trace are TLC integers
func i32(x osmomath.Int) int64 {
	if !x.IsInt64() || x.Int64() > 2147483647 || x.Int64() < -2147483647 {
		panic("amount outside the 32-bit range of the trace format: " + x.String())
	}
	return x.Int64()
}

// ---------------------------------------------------------------------------
// other entry points

// epochEnd: the AfterEpochEnd hook of the module, wrapped as x/epochs wraps every subscriber
// (osmoutils.ApplyFuncIfNoError: state kept only when the hook returns nil, panics contained).
func (w *world) epochEnd(ident string) apphelp.Outcome {
	w.epochN++
	err := osmoutils.ApplyFuncIfNoError(w.Ctx, func(ctx sdk.Context) error {
		return w.App.ProtoRevKeeper.EpochHooks().AfterEpochEnd(ctx, ident, w.epochN)
	})
	if err != nil {
		return apphelp.Outcome{OK: false, Err: err.Error()}
	}
	return apphelp.Outcome{OK: true}
}

// lpAdd: the liquidity provider adds num/den of the pool's current liquidity (no swap, no protorev hook effect).
func (w *world) lpAdd(id uint64, num, den int64) {
	lp := w.accts["lp"].Addr
	p := w.pool(id)
	cs, err := w.App.PoolManagerKeeper.GetTotalPoolLiquidity(w.Ctx, id)
	if err != nil {
		panic(err)
	}
	add := sdk.Coins{}
	for _, c := range cs {
		add = add.Add(sdk.NewCoin(c.Denom, c.Amount.MulRaw(num).QuoRaw(den).AddRaw(10)))
	}
	if p.Kind == "cl" {
		if _, err := w.App.ConcentratedLiquidityKeeper.CreateFullRangePosition(w.Ctx, id, lp, add); err != nil {
			panic(err)
		}
		return
	}
	pl, err := w.App.GAMMKeeper.GetPoolAndPoke(w.Ctx, id)
	if err != nil {
		panic(err)
	}
	shares := pl.GetTotalShares().MulRaw(num).QuoRaw(den)
	if _, _, err := w.App.GAMMKeeper.JoinPoolNoSwap(w.Ctx, lp, id, shares, add); err != nil {
		panic(err)
	}
}

func (w *world) setAdmin(who string) {
	if err := protorevmod.HandleSetProtoRevAdminAccount(w.Ctx, *w.App.ProtoRevKeeper, &prtypes.SetProtoRevAdminAccountProposal{
		Title: "t", Description: "d", Account: w.accts[who].Addr.String()}); err != nil {
		panic(err)
	}
}

func (w *world) setEnabled(on bool) {
	if err := protorevmod.HandleEnabledProposal(w.Ctx, *w.App.ProtoRevKeeper, &prtypes.SetProtoRevEnabledProposal{Title: "t", Description: "d", Enabled: on}); err != nil {
		panic(err)
	}
}

func (w *world) queryClient() prtypes.QueryClient {
	qh := &baseapp.QueryServiceTestHelper{GRPCQueryRouter: w.App.GRPCQueryRouter(), Ctx: w.Ctx}
	return prtypes.NewQueryClient(qh)
}

func sortedU64(m map[uint64]bool) []uint64 {
	r := []uint64{}
	for k := range m {
		r = append(r, k)
	}
	sort.Slice(r, func(i, j int) bool { return r[i] < r[j] })
	return r
}
