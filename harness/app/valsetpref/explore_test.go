package valsetpref

import (
	"fmt"
	"testing"
	"time"

	"cosmossdk.io/log"
	sdk "github.com/cosmos/cosmos-sdk/types"
	stakingtypes "github.com/cosmos/cosmos-sdk/x/staking/types"

	"github.com/osmosis-labs/osmosis/osmomath"
	vtypes "github.com/osmosis-labs/osmosis/v31/x/valset-pref/types"

	"verif/harness/apphelp"
)

func TestExplore(t *testing.T) {
	w := apphelp.New(t)
	w.Ctx = w.Ctx.WithLogger(log.NewNopLogger())
	bd, _ := w.App.StakingKeeper.BondDenom(w.Ctx)
	fmt.Println("bond denom", bd, "default", sdk.DefaultBondDenom)
	vs, _ := w.App.StakingKeeper.GetAllValidators(w.Ctx)
	fmt.Println("validators at start", len(vs))
	for _, v := range vs {
		fmt.Println(v.OperatorAddress, v.Tokens, v.DelegatorShares, v.Status, v.Commission.Rate)
	}
	vals := w.SetupMultipleValidators(3)
	fmt.Println(vals)
	p, _ := w.App.StakingKeeper.GetParams(w.Ctx)
	fmt.Println("unbonding time", p.UnbondingTime, "max entries", p.MaxEntries, "h", w.Ctx.BlockHeight(), w.Ctx.BlockTime())
	a := apphelp.Acct(1)
	w.FundAcc(a, sdk.NewCoins(sdk.NewInt64Coin(bd, 1000)))
	d := func(s string) osmomath.Dec { return osmomath.MustNewDecFromStr(s) }
	prefs := []vtypes.ValidatorPreference{{ValOperAddress: vals[0], Weight: d("0.333333333333333333")}, {ValOperAddress: vals[1], Weight: d("0.333333333333333333")}, {ValOperAddress: vals[2], Weight: d("0.333333333333333333")}}
	_, out := w.Msg(vtypes.NewMsgSetValidatorSetPreference(a, prefs))
	fmt.Println("set thirds", out)
	ps, ok := w.App.ValidatorSetPreferenceKeeper.GetValidatorSetPreference(w.Ctx, a.String())
	fmt.Println(ok, ps)
	_, out = w.Msg(vtypes.NewMsgDelegateToValidatorSet(a, sdk.NewInt64Coin(bd, 1)))
	fmt.Println("delegate 1", out)
	dels, _ := w.App.StakingKeeper.GetDelegatorDelegations(w.Ctx, a, 100)
	for _, x := range dels {
		fmt.Println("  del", x.ValidatorAddress, x.Shares)
	}
	_, out = w.Msg(vtypes.NewMsgUndelegateFromRebalancedValidatorSet(a, sdk.NewInt64Coin(bd, 1)))
	fmt.Println("undelegate 1", out)
	dels, _ = w.App.StakingKeeper.GetDelegatorDelegations(w.Ctx, a, 100)
	for _, x := range dels {
		fmt.Println("  del", x.ValidatorAddress, x.Shares)
	}
	_, out = w.Msg(vtypes.NewMsgDelegateToValidatorSet(a, sdk.NewInt64Coin(bd, 100)))
	fmt.Println("delegate 100", out)
	dels, _ = w.App.StakingKeeper.GetDelegatorDelegations(w.Ctx, a, 100)
	for _, x := range dels {
		fmt.Println("  del", x.ValidatorAddress, x.Shares)
	}
	_, out = w.Msg(vtypes.NewMsgWithdrawDelegationRewards(a))
	fmt.Println("withdraw", out)
	// negative weight through redelegate
	np := []vtypes.ValidatorPreference{{ValOperAddress: vals[0], Weight: d("1.5")}, {ValOperAddress: vals[1], Weight: d("-0.5")}}
	_, out = w.Msg(vtypes.NewMsgRedelegateValidatorSet(a, np))
	fmt.Println("redelegate negative", out.OK, out.Panicked, out.Err[:min(len(out.Err), 200)])
	np = []vtypes.ValidatorPreference{{ValOperAddress: vals[0], Weight: d("1")}, {ValOperAddress: vals[1], Weight: d("0")}}
	_, out = w.Msg(vtypes.NewMsgRedelegateValidatorSet(a, np))
	fmt.Println("redelegate zero weight", out)
	ps, ok = w.App.ValidatorSetPreferenceKeeper.GetValidatorSetPreference(w.Ctx, a.String())
	fmt.Println(ok, ps)
	dels, _ = w.App.StakingKeeper.GetDelegatorDelegations(w.Ctx, a, 100)
	for _, x := range dels {
		fmt.Println("  del", x.ValidatorAddress, x.Shares)
	}
	_, out = w.Msg(vtypes.NewMsgUndelegateFromRebalancedValidatorSet(a, sdk.NewInt64Coin(bd, 10)))
	fmt.Println("undelegate 10", out)
	ubs, _ := w.App.StakingKeeper.GetUnbondingDelegations(w.Ctx, a, 100)
	for _, u := range ubs {
		fmt.Println("  ubd", u.ValidatorAddress, len(u.Entries), u.Entries[0].Balance, u.Entries[0].CompletionTime)
	}
	fmt.Println("bal", w.App.BankKeeper.GetBalance(w.Ctx, a, bd))
	w.Ctx = w.Ctx.WithBlockTime(w.Ctx.BlockTime().Add(p.UnbondingTime + time.Second)).WithBlockHeight(w.Ctx.BlockHeight() + 1)
	out = w.Try(func(ctx sdk.Context) error { _, err := w.App.StakingKeeper.EndBlocker(ctx); return err })
	fmt.Println("endblock", out)
	fmt.Println("bal", w.App.BankKeeper.GetBalance(w.Ctx, a, bd))
	_ = stakingtypes.Bonded
}
