// Recorder and replayer binding the real x/valset-pref message server (on a
// full app, next to the real staking, distribution, bank and lockup keepers)
// to spec/ValsetPref.tla (extra check X04).
package valsetpref

import (
	"bufio"
	"bytes"
	"encoding/json"
	"fmt"
	"math/big"
	"math/rand"
	"os"
	"reflect"
	"sort"
	"testing"
	"time"

	"cosmossdk.io/core/header"
	"cosmossdk.io/log"
	sdk "github.com/cosmos/cosmos-sdk/types"
	distrtypes "github.com/cosmos/cosmos-sdk/x/distribution/types"
	stakingtypes "github.com/cosmos/cosmos-sdk/x/staking/types"

	"github.com/osmosis-labs/osmosis/osmomath"
	appparams "github.com/osmosis-labs/osmosis/v31/app/params"
	lockuptypes "github.com/osmosis-labs/osmosis/v31/x/lockup/types"
	vclient "github.com/osmosis-labs/osmosis/v31/x/valset-pref/client"
	"github.com/osmosis-labs/osmosis/v31/x/valset-pref/client/queryproto"
	vtypes "github.com/osmosis-labs/osmosis/v31/x/valset-pref/types"

	"verif/harness/apphelp"
	"verif/harness/tracelog"
)

// As on the real chain the staking denomination is the base coin unit (the test
// helper of the repository would otherwise stake "stake" while
// DelegateBondedTokens unlocks uosmo).
func init() { sdk.DefaultBondDenom = appparams.BaseCoinUnit }

const (
	den   = appparams.BaseCoinUnit
	other = "uion"
)

type Big = tracelog.Big

type world struct {
	*apphelp.World
	vals       []sdk.ValAddress // sorted by address bytes: index v-1 (the order in which staking lists delegations)
	valStr     []string
	ghost      string // a well-formed operator address without validator: index nv+1
	dels       []sdk.AccAddress
	lockIDs    []uint64
	maxEntries int
	unbonding  time.Duration
}

func newWorld(t *testing.T, nv, nd int) *world {
	w := &world{World: apphelp.New(t)}
	w.Ctx = w.Ctx.WithLogger(log.NewNopLogger())
	bd, err := w.App.StakingKeeper.BondDenom(w.Ctx)
	if err != nil || bd != den {
		t.Fatalf("staking denomination is %q (%v), want %q", bd, err, den)
	}
	for i := 0; i < nv; i++ {
		w.vals = append(w.vals, w.SetupValidator(stakingtypes.Bonded))
	}
	sort.Slice(w.vals, func(i, j int) bool { return bytes.Compare(w.vals[i], w.vals[j]) < 0 })
	for _, v := range w.vals {
		w.valStr = append(w.valStr, v.String())
	}
	w.ghost = sdk.ValAddress(apphelp.Acct(999)).String()
	for i := 1; i <= nd; i++ {
		w.dels = append(w.dels, apphelp.Acct(i))
	}
	p, err := w.App.StakingKeeper.GetParams(w.Ctx)
	if err != nil {
		t.Fatal(err)
	}
	w.maxEntries, w.unbonding = int(p.MaxEntries), p.UnbondingTime
	w.advance(5 * time.Second)
	return w
}

// branch returns a world that runs on a discarded branch of w's state.
func (w *world) branch() *world {
	b := *w
	b.World = &apphelp.World{KeeperTestHelper: w.KeeperTestHelper}
	cc, _ := w.Ctx.CacheContext()
	b.Ctx = cc
	b.lockIDs = append([]uint64{}, w.lockIDs...)
	return &b
}

// advance starts a new block: height + 1, time + d (block header and header info, as baseapp sets both).
func (w *world) advance(d time.Duration) {
	t := w.Ctx.BlockTime().Add(d)
	h := w.Ctx.BlockHeight() + 1
	w.Ctx = w.Ctx.WithBlockTime(t).WithBlockHeight(h).WithHeaderInfo(header.Info{Height: h, Time: t, ChainID: w.Ctx.ChainID()})
}

func (w *world) valIndex(s string) int {
	for i, v := range w.valStr {
		if v == s {
			return i + 1
		}
	}
	return len(w.valStr) + 1
}

func (w *world) valAddr(v int) string {
	if v >= 1 && v <= len(w.valStr) {
		return w.valStr[v-1]
	}
	return w.ghost
}

// ---------------------------------------------------------------------------
// projection onto the variables of ValsetPref.tla

type prefItem struct {
	V int `json:"v"`
	W Big `json:"w"` // raw Dec (scaled by 10^18)
}
type unbSt struct {
	N int `json:"n"`
	T Big `json:"t"`
}
type lockSt struct {
	ID        int64 `json:"id"`
	Owner     int   `json:"owner"`
	Base      bool  `json:"base"`
	Amt       Big   `json:"amt"`
	Long      bool  `json:"long"`
	Unlocking bool  `json:"unlocking"`
	Synth     bool  `json:"synth"`
}
type state struct {
	Pref  [][]prefItem `json:"pref"`
	Bal   []Big        `json:"bal"`
	Del   [][]Big      `json:"del"`
	Rec   [][]bool     `json:"rec"`
	Unb   [][]unbSt    `json:"unb"`
	Rin   [][]int      `json:"rin"`
	Pend  [][]Big      `json:"pend"` // raw Dec (scaled by 10^18)
	Locks []lockSt     `json:"locks"`
}

var zero = tracelog.EncInt64(0)

func (w *world) prefOf(d sdk.AccAddress) []prefItem {
	res := []prefItem{}
	ps, ok := w.App.ValidatorSetPreferenceKeeper.GetValidatorSetPreference(w.Ctx, d.String())
	if !ok {
		return res
	}
	for _, p := range ps.Preferences {
		res = append(res, prefItem{V: w.valIndex(p.ValOperAddress), W: apphelp.BigD(p.Weight)})
	}
	return res
}

func (w *world) state() state {
	nv := len(w.vals)
	st := state{Locks: []lockSt{}}
	sk := w.App.StakingKeeper
	for _, d := range w.dels {
		st.Pref = append(st.Pref, w.prefOf(d))
		st.Bal = append(st.Bal, apphelp.BigI(w.App.BankKeeper.GetBalance(w.Ctx, d, den).Amount))
		del, rec, unb, rin, pend := make([]Big, nv), make([]bool, nv), make([]unbSt, nv), make([]int, nv), make([]Big, nv)
		for i := range del {
			del[i], pend[i], unb[i] = zero, zero, unbSt{T: zero}
		}
		dels, err := sk.GetDelegatorDelegations(w.Ctx, d, 1000)
		if err != nil {
			panic(err)
		}
		last := 0
		for _, dl := range dels {
			v := w.valIndex(dl.ValidatorAddress)
			if v > nv {
				panic("delegation to a validator the harness does not know")
			}
			if v <= last {
				panic("staking does not list the delegations in validator address order")
			}
			last = v
			val, err := sk.GetValidator(w.Ctx, w.vals[v-1])
			if err != nil {
				panic(err)
			}
			tok := val.TokensFromShares(dl.Shares)
			if !tok.IsInteger() || !tok.Equal(dl.Shares) {
				panic("a share is not one token: the projection does not apply")
			}
			del[v-1], rec[v-1] = apphelp.BigI(tok.TruncateInt()), true
			// pending rewards, computed as the distribution module's query does, on a discarded branch
			dlc := dl
			oc := w.Peek(func(ctx sdk.Context) error {
				ep, err := w.App.DistrKeeper.IncrementValidatorPeriod(ctx, val)
				if err != nil {
					return err
				}
				r, err := w.App.DistrKeeper.CalculateDelegationRewards(ctx, val, dlc, ep)
				if err != nil {
					return err
				}
				pend[v-1] = apphelp.BigD(r.AmountOf(den))
				return nil
			})
			if !oc.OK {
				panic("pending rewards: " + oc.Err)
			}
		}
		ubs, err := sk.GetUnbondingDelegations(w.Ctx, d, 1000)
		if err != nil {
			panic(err)
		}
		for _, u := range ubs {
			v := w.valIndex(u.ValidatorAddress)
			t := osmomath.ZeroInt()
			for _, e := range u.Entries {
				t = t.Add(e.Balance)
			}
			unb[v-1] = unbSt{N: len(u.Entries), T: apphelp.BigI(t)}
		}
		reds, err := sk.GetRedelegations(w.Ctx, d, 1000)
		if err != nil {
			panic(err)
		}
		for _, r := range reds {
			rin[w.valIndex(r.ValidatorDstAddress)-1] += len(r.Entries)
		}
		st.Del, st.Rec, st.Unb, st.Rin, st.Pend = append(st.Del, del), append(st.Rec, rec), append(st.Unb, unb), append(st.Rin, rin), append(st.Pend, pend)
	}
	for _, id := range w.lockIDs {
		l, err := w.App.LockupKeeper.GetLockByID(w.Ctx, id)
		if err != nil {
			continue
		}
		owner := 0
		for i, d := range w.dels {
			if d.String() == l.Owner {
				owner = i + 1
			}
		}
		if len(l.Coins) != 1 {
			panic("lock with several coins")
		}
		_, synth, err := w.App.LockupKeeper.GetSyntheticLockupByUnderlyingLockId(w.Ctx, id)
		if err != nil {
			panic(err)
		}
		st.Locks = append(st.Locks, lockSt{ID: int64(id), Owner: owner, Base: l.Coins[0].Denom == den, Amt: apphelp.BigI(l.Coins[0].Amount),
			Long: l.Duration > 14*24*time.Hour, Unlocking: l.IsUnlocking(), Synth: synth})
	}
	return st
}

// query battery: UserValidatorPreferences for every delegator
type qans struct {
	D     int        `json:"d"`
	OK    bool       `json:"ok"`
	Prefs []prefItem `json:"prefs"`
}

func (w *world) queries() []qans {
	q := vclient.NewQuerier(*w.App.ValidatorSetPreferenceKeeper)
	res := []qans{}
	for i, d := range w.dels {
		a := qans{D: i + 1, Prefs: []prefItem{}}
		r, err := q.UserValidatorPreferences(w.Ctx, queryproto.UserValidatorPreferencesRequest{Address: d.String()})
		if err == nil {
			a.OK = true
			for _, p := range r.Preferences {
				a.Prefs = append(a.Prefs, prefItem{V: w.valIndex(p.ValOperAddress), W: apphelp.BigD(p.Weight)})
			}
		}
		res = append(res, a)
	}
	return res
}

// ---------------------------------------------------------------------------
// the calls

type wpref struct {
	V int
	W osmomath.Dec
}

func (w *world) prefsOf(ps []wpref) []vtypes.ValidatorPreference {
	res := []vtypes.ValidatorPreference{}
	for _, p := range ps {
		// a fresh Dec per message: the message server may modify the weights it is given
		res = append(res, vtypes.ValidatorPreference{ValOperAddress: w.valAddr(p.V), Weight: osmomath.NewDecFromBigIntWithPrec(new(big.Int).Set(p.W.BigInt()), 18)})
	}
	return res
}

func prefJSON(ps []wpref) []prefItem {
	res := []prefItem{}
	for _, p := range ps {
		res = append(res, prefItem{V: p.V, W: apphelp.BigD(p.W)})
	}
	return res
}

func coin(x osmomath.Int) sdk.Coin { return sdk.Coin{Denom: den, Amount: x} }

// msg delivers a message like a transaction; a panic in ValidateBasic is a refusal too (baseapp recovers it)
func (w *world) msg(m sdk.Msg) (oc apphelp.Outcome) {
	defer func() {
		if r := recover(); r != nil {
			oc = apphelp.Outcome{Panicked: true, Err: "validate-basic panics: " + fmt.Sprint(r)}
		}
	}()
	_, oc = w.Msg(m)
	return oc
}

func (w *world) set(d int, ps []wpref) apphelp.Outcome {
	return w.msg(vtypes.NewMsgSetValidatorSetPreference(w.dels[d-1], w.prefsOf(ps)))
}
func (w *world) delegate(d int, x osmomath.Int) apphelp.Outcome {
	return w.msg(vtypes.NewMsgDelegateToValidatorSet(w.dels[d-1], coin(x)))
}
func (w *world) undelegateOld(d int, x osmomath.Int) apphelp.Outcome {
	return w.msg(vtypes.NewMsgUndelegateFromValidatorSet(w.dels[d-1], coin(x)))
}
func (w *world) undelegate(d int, x osmomath.Int) apphelp.Outcome {
	return w.msg(vtypes.NewMsgUndelegateFromRebalancedValidatorSet(w.dels[d-1], coin(x)))
}
func (w *world) redelegate(d int, ps []wpref) apphelp.Outcome {
	return w.msg(vtypes.NewMsgRedelegateValidatorSet(w.dels[d-1], w.prefsOf(ps)))
}
func (w *world) withdraw(d int) apphelp.Outcome {
	return w.msg(vtypes.NewMsgWithdrawDelegationRewards(w.dels[d-1]))
}
func (w *world) bonded(d int, lock uint64) apphelp.Outcome {
	return w.msg(vtypes.NewMsgDelegateBondedTokens(w.dels[d-1], lock))
}

// environment
func (w *world) fund(d int, x osmomath.Int) {
	w.FundAcc(w.dels[d-1], sdk.NewCoins(coin(x)))
}
func (w *world) stake(d, v int, x osmomath.Int) apphelp.Outcome {
	return w.msg(stakingtypes.NewMsgDelegate(w.dels[d-1].String(), w.valAddr(v), coin(x)))
}
func (w *world) unstake(d, v int, x osmomath.Int) apphelp.Outcome {
	return w.msg(stakingtypes.NewMsgUndelegate(w.dels[d-1].String(), w.valAddr(v), coin(x)))
}
func (w *world) lock(d int, base bool, x osmomath.Int, long bool) (apphelp.Outcome, uint64) {
	dn, dur := den, time.Hour
	if !base {
		dn = other
		w.FundAcc(w.dels[d-1], sdk.NewCoins(sdk.Coin{Denom: other, Amount: x}))
	}
	if long {
		dur = 15 * 24 * time.Hour
	}
	res, oc := w.Msg(lockuptypes.NewMsgLockTokens(w.dels[d-1], dur, sdk.NewCoins(sdk.Coin{Denom: dn, Amount: x})))
	if !oc.OK {
		return oc, 0
	}
	var r lockuptypes.MsgLockTokensResponse
	if err := r.Unmarshal(res.MsgResponses[0].Value); err != nil {
		panic(err)
	}
	for _, id := range w.lockIDs {
		if id == r.ID {
			return oc, r.ID // added to an existing lock of the same duration: the drivers avoid this
		}
	}
	w.lockIDs = append(w.lockIDs, r.ID)
	return oc, r.ID
}
func (w *world) beginUnlock(id uint64) apphelp.Outcome {
	l, err := w.App.LockupKeeper.GetLockByID(w.Ctx, id)
	if err != nil {
		return apphelp.Outcome{Err: err.Error()}
	}
	return w.msg(&lockuptypes.MsgBeginUnlocking{Owner: l.Owner, ID: id})
}
func (w *world) synth(id uint64) apphelp.Outcome {
	return w.Try(func(ctx sdk.Context) error {
		return w.App.LockupKeeper.CreateSyntheticLockup(ctx, id, fmt.Sprintf("%s/superbonding/%d", den, id), 14*24*time.Hour, false)
	})
}

// accrue: x coins of rewards are allocated to validator v (k > 0: x = k coins per staked token, so that
// every delegator earns exactly k times its stake)
func (w *world) accrue(v int, k int64, x osmomath.Int) {
	val, err := w.App.StakingKeeper.GetValidator(w.Ctx, w.vals[v-1])
	if err != nil {
		panic(err)
	}
	if k > 0 {
		x = val.Tokens.MulRaw(k)
	}
	w.FundModuleAcc(distrtypes.ModuleName, sdk.NewCoins(coin(x)))
	if err := w.App.DistrKeeper.AllocateTokensToValidator(w.Ctx, val, sdk.NewDecCoins(sdk.NewDecCoin(den, x))); err != nil {
		panic(err)
	}
}

// mature: the unbonding period passes and the staking end blocker completes what is due
func (w *world) mature() apphelp.Outcome {
	w.advance(w.unbonding + time.Second)
	return w.Try(func(ctx sdk.Context) error {
		_, err := w.App.StakingKeeper.EndBlocker(ctx)
		return err
	})
}

// ---------------------------------------------------------------------------
// recorder

func dec(s string) osmomath.Dec { return osmomath.MustNewDecFromStr(s) }

func pow10(k int) *big.Int { return new(big.Int).Exp(big.NewInt(10), big.NewInt(int64(k)), nil) }

// logUniform: 10^lo .. 10^hi, uniform in the exponent
func logUniform(rng *rand.Rand, lo, hi int) osmomath.Int {
	k := lo + rng.Intn(hi-lo+1)
	m := new(big.Int).Rand(rng, new(big.Int).Mul(big.NewInt(9), pow10(k)))
	return osmomath.NewIntFromBigInt(m.Add(m, pow10(k)))
}

func randAmount(rng *rand.Rand, regime int) osmomath.Int {
	switch regime {
	case 0:
		return osmomath.NewInt(1 + rng.Int63n(12))
	case 1:
		return logUniform(rng, 2, 9)
	default: // 18-decimal amounts; the validators' totals stay below the consensus-power limit of x/staking (2^63 * 10^6)
		return logUniform(rng, 17, 20)
	}
}

// a preference list of the given shape over the validators 1..nv
func genPrefs(rng *rand.Rand, nv int, stored []prefItem) ([]wpref, string) {
	n := 1 + rng.Intn(nv)
	perm := rng.Perm(nv)
	vs := []int{}
	for i := 0; i < n; i++ {
		vs = append(vs, perm[i]+1)
	}
	hundredths := func(n int) []int64 { // a random partition of 100 into n positive parts
		cuts := map[int]bool{}
		for len(cuts) < n-1 {
			cuts[1+rng.Intn(99)] = true
		}
		cs := []int{0}
		for c := range cuts {
			cs = append(cs, c)
		}
		sort.Ints(cs)
		cs = append(cs, 100)
		res := []int64{}
		for i := 1; i < len(cs); i++ {
			res = append(res, int64(cs[i]-cs[i-1]))
		}
		return res
	}
	mk := func(ws []osmomath.Dec) []wpref {
		res := []wpref{}
		for i, v := range vs {
			res = append(res, wpref{V: v, W: ws[i]})
		}
		return res
	}
	exact := func() []osmomath.Dec {
		ws := []osmomath.Dec{}
		for _, h := range hundredths(n) {
			ws = append(ws, osmomath.NewDecWithPrec(h, 2))
		}
		return ws
	}
	shape := []string{"exact", "exact", "exact", "exact", "equal", "fine", "thousandths", "small", "empty", "duplicate", "unknown", "sum-low", "sum-high",
		"zero-weight", "negative-weight", "same"}[rng.Intn(16)]
	switch shape {
	case "exact":
		return mk(exact()), shape
	case "equal": // 1/n each, to 18 decimals
		ws := []osmomath.Dec{}
		for range vs {
			ws = append(ws, osmomath.OneDec().QuoInt64(int64(n)))
		}
		return mk(ws), shape
	case "fine": // random 18-decimal weights summing to exactly 1
		ws, left := []osmomath.Dec{}, osmomath.OneDec()
		for i := 0; i < n-1; i++ {
			x := osmomath.NewDecFromBigIntWithPrec(new(big.Int).Rand(rng, new(big.Int).Quo(left.BigInt(), big.NewInt(2))), 18).Add(osmomath.NewDecWithPrec(1, 3))
			ws = append(ws, x)
			left = left.Sub(x)
		}
		return mk(append(ws, left)), shape
	case "thousandths": // three decimals, summing to 1 within the rounding of the sum
		ws, left := []osmomath.Dec{}, int64(1000-3+rng.Intn(7))
		for i := 0; i < n-1; i++ {
			x := 1 + rng.Int63n(left/2)
			ws = append(ws, osmomath.NewDecWithPrec(x, 3))
			left -= x
		}
		return mk(append(ws, osmomath.NewDecWithPrec(left, 3))), shape
	case "small": // one weight below 0.1 (rounded to two significant digits, not two decimals)
		if n < 2 {
			return mk(exact()), "exact"
		}
		ws := exact()
		s := osmomath.NewDecWithPrec(1+rng.Int63n(98), 3) // 0.001 .. 0.098
		if ws[1].LTE(s) {
			return mk(ws), "exact"
		}
		ws[0], ws[1] = ws[0].Add(s), ws[1].Sub(s)
		return mk(ws), shape
	case "empty":
		vs = nil
		return []wpref{}, shape
	case "duplicate":
		if n < 2 {
			vs = append(vs, vs[0])
			return mk([]osmomath.Dec{dec("0.5"), dec("0.5")}), shape
		}
		vs[1] = vs[0]
		return mk(exact()), shape
	case "unknown":
		vs[rng.Intn(n)] = nv + 1
		return mk(exact()), shape
	case "sum-low":
		ws := exact()
		ws[0] = ws[0].Sub(osmomath.NewDecWithPrec(6+rng.Int63n(3), 3))
		if !ws[0].IsPositive() {
			ws[0] = osmomath.NewDecWithPrec(1, 3)
		}
		return mk(ws), shape
	case "sum-high":
		ws := exact()
		ws[0] = ws[0].Add(osmomath.NewDecWithPrec(6+rng.Int63n(300), 3))
		return mk(ws), shape
	case "zero-weight":
		if n < 2 {
			return mk([]osmomath.Dec{osmomath.ZeroDec()}), shape
		}
		ws := exact()
		ws[0], ws[1] = ws[0].Add(ws[1]), osmomath.ZeroDec()
		return mk(ws), shape
	case "negative-weight":
		if n < 2 {
			return mk([]osmomath.Dec{dec("-1")}), shape
		}
		ws := exact()
		ws[0], ws[1] = ws[0].Add(ws[1]).Add(dec("0.25")), dec("-0.25")
		return mk(ws), shape
	default: // "same": the stored list, possibly in another order
		if len(stored) == 0 {
			return mk(exact()), "exact"
		}
		res := []wpref{}
		for _, i := range rng.Perm(len(stored)) {
			res = append(res, wpref{V: stored[i].V, W: osmomath.NewDecFromBigIntWithPrec(tracelog.DecBig(stored[i].W), 18)})
		}
		return res, shape
	}
}

func bigOf(b Big) osmomath.Int { return osmomath.NewIntFromBigInt(tracelog.DecBig(b)) }

func sumBig(bs []Big) osmomath.Int {
	s := osmomath.ZeroInt()
	for _, b := range bs {
		s = s.Add(bigOf(b))
	}
	return s
}

func TestRecord(t *testing.T) {
	out := os.Getenv("VERIF_OUT")
	if out == "" {
		t.Skip("VERIF_OUT not set")
	}
	seed := tracelog.EnvInt("VERIF_SEED", 1)
	nh := int(tracelog.EnvInt("VERIF_HISTORIES", 8))
	ns := int(tracelog.EnvInt("VERIF_STEPS", 60))
	tw, err := tracelog.NewWriter(out)
	if err != nil {
		t.Fatal(err)
	}
	defer tw.Close()
	for h := 0; h < nh; h++ {
		rng := rand.New(rand.NewSource(seed*1_000_003 + int64(h)))
		nv, nd := 2+rng.Intn(3), 1+rng.Intn(3)
		w := newWorld(t, nv, nd)
		regime := h % 3 // the amounts of the history: units, 10^2..10^9, 10^17..10^20
		for d := 1; d <= nd; d++ {
			if rng.Intn(5) > 0 {
				w.fund(d, randAmount(rng, regime).MulRaw(20))
			}
		}
		st := w.state()
		tw.Emit(map[string]any{"e": "cfg", "id": h + 1, "nd": nd, "nv": nv, "maxEntries": w.maxEntries, "regime": regime, "st": st, "q": w.queries()})
		for s := 0; s < ns; s++ {
			d := 1 + rng.Intn(nd)
			ev := map[string]any{"d": d, "ok": true}
			w.advance(time.Duration(5+rng.Intn(100)) * time.Second)
			stake := sumBig(st.Del[d-1])
			balance := bigOf(st.Bal[d-1])
			amount := func(of osmomath.Int) osmomath.Int { // an amount related to `of`
				switch k := rng.Intn(12); {
				case of.IsZero() || k == 0:
					return randAmount(rng, regime)
				case k == 1:
					return of
				case k == 2:
					return of.AddRaw(1 + rng.Int63n(3))
				case k == 3:
					return osmomath.ZeroInt()
				case k == 4:
					return osmomath.NewInt(1 + rng.Int63n(4))
				case k == 5 && of.GT(osmomath.NewInt(4)):
					return of.SubRaw(1 + rng.Int63n(3))
				default:
					x := osmomath.NewIntFromBigInt(new(big.Int).Rand(rng, of.BigInt()))
					return x.AddRaw(1)
				}
			}
			var oc apphelp.Outcome
			// every fourth history opens with the situation W2 is about: a preference, stake with a validator outside
			// it, rewards pending there, a withdrawal
			forced := ""
			if h%4 == 1 && s < 4 {
				forced = []string{"set", "stake", "accrue", "withdraw"}[s]
				d = 1
				ev["d"] = 1
				balance = bigOf(st.Bal[0])
			}
			switch k := rng.Intn(100); {
			case forced == "set":
				ps := []wpref{{V: 1, W: osmomath.OneDec()}}
				ev["e"], ev["prefs"], ev["shape"] = "set", prefJSON(ps), "exact"
				oc = w.set(d, ps)
			case forced == "stake":
				x := osmomath.NewIntFromBigInt(new(big.Int).Rand(rng, balance.AddRaw(1).BigInt())).AddRaw(1)
				ev["e"], ev["v"], ev["x"] = "stake", 2, apphelp.BigI(x)
				oc = w.stake(d, 2, x)
			case forced == "accrue":
				ev["e"], ev["v"], ev["d"] = "accrue", 2, 0
				w.accrue(2, 0, randAmount(rng, regime).MulRaw(1000))
			case forced == "withdraw":
				ev["e"] = "withdraw"
				oc = w.withdraw(d)
			case k < 13:
				ps, shape := genPrefs(rng, nv, st.Pref[d-1])
				ev["e"], ev["prefs"], ev["shape"] = "set", prefJSON(ps), shape
				oc = w.set(d, ps)
			case k < 30:
				x := amount(balance)
				ev["e"], ev["x"] = "delegate", apphelp.BigI(x)
				oc = w.delegate(d, x)
			case k < 32:
				x := amount(stake)
				ev["e"], ev["x"] = "undel_old", apphelp.BigI(x)
				oc = w.undelegateOld(d, x)
			case k < 46:
				x := amount(stake)
				ev["e"], ev["x"] = "undelegate", apphelp.BigI(x)
				oc = w.undelegate(d, x)
			case k < 56:
				ps, shape := genPrefs(rng, nv, st.Pref[d-1])
				ev["e"], ev["prefs"], ev["shape"] = "redelegate", prefJSON(ps), shape
				oc = w.redelegate(d, ps)
			case k < 62:
				ev["e"] = "withdraw"
				oc = w.withdraw(d)
			case k < 68:
				id := uint64(1 + rng.Intn(3))
				if len(w.lockIDs) > 0 && rng.Intn(6) > 0 {
					id = w.lockIDs[rng.Intn(len(w.lockIDs))]
				}
				ev["e"], ev["lock"] = "bonded", int64(id)
				oc = w.bonded(d, id)
			case k < 72:
				x := randAmount(rng, regime).MulRaw(int64(1 + rng.Intn(10)))
				ev["e"], ev["x"] = "fund", apphelp.BigI(x)
				w.fund(d, x)
			case k < 78:
				v, x := 1+rng.Intn(nv), amount(balance)
				ev["e"], ev["v"], ev["x"] = "stake", v, apphelp.BigI(x)
				oc = w.stake(d, v, x)
			case k < 82:
				v := 1 + rng.Intn(nv)
				x := amount(bigOf(st.Del[d-1][v-1]))
				ev["e"], ev["v"], ev["x"] = "unstake", v, apphelp.BigI(x)
				oc = w.unstake(d, v, x)
			case k < 87:
				base, long := rng.Intn(5) > 0, rng.Intn(5) == 0
				x := amount(balance)
				if x.IsZero() {
					x = osmomath.OneInt()
				}
				// one lock per (owner, denomination, duration): a second one would be merged into the first
				dup := false
				for _, l := range st.Locks {
					dup = dup || (l.Owner == d && l.Base == base && l.Long == long && !l.Unlocking)
				}
				if dup {
					ev["e"] = "withdraw"
					oc = w.withdraw(d)
					break
				}
				var id uint64
				oc, id = w.lock(d, base, x, long)
				ev["e"], ev["base"], ev["long"], ev["x"], ev["lock"] = "lock", base, long, apphelp.BigI(x), int64(id)
			case k < 89 && len(w.lockIDs) > 0:
				id := w.lockIDs[rng.Intn(len(w.lockIDs))]
				ev["e"], ev["lock"], ev["d"] = "unlock", int64(id), 0
				oc = w.beginUnlock(id)
			case k < 90 && len(w.lockIDs) > 0:
				id := w.lockIDs[rng.Intn(len(w.lockIDs))]
				ev["e"], ev["lock"], ev["d"] = "synth", int64(id), 0
				oc = w.synth(id)
			case k < 97:
				v := 1 + rng.Intn(nv)
				ev["e"], ev["v"], ev["d"] = "accrue", v, 0
				if rng.Intn(3) == 0 {
					w.accrue(v, 1+rng.Int63n(3), osmomath.ZeroInt())
				} else {
					mult := int64(1000)
					if regime == 2 {
						mult = 3
					}
					w.accrue(v, 0, randAmount(rng, regime).MulRaw(mult))
				}
			default:
				ev["e"], ev["d"] = "mature", 0
				oc = w.mature()
				if !oc.OK {
					t.Fatalf("staking end blocker failed: %v", oc)
				}
			}
			if e := ev["e"]; e == "fund" || e == "accrue" {
				oc = apphelp.Outcome{OK: true}
			}
			ev["ok"] = oc.OK
			if !oc.OK {
				ev["err"] = oc.Err
				if len(oc.Err) > 160 {
					ev["err"] = oc.Err[:160]
				}
				if oc.Panicked {
					ev["panicked"] = true
				}
			}
			st = w.state()
			ev["st"], ev["q"] = st, w.queries()
			tw.Emit(ev)
		}
	}
}

// ---------------------------------------------------------------------------
// replayer: behaviours generated by TLC from spec/mc/MCValsetPref.tla, executed on the real chain

type genPref struct {
	V int   `json:"v"`
	W int64 `json:"w"` // thousandths
}
type genUnb struct {
	N int   `json:"n"`
	T int64 `json:"t"`
}
type genLock struct {
	ID        int64 `json:"id"`
	Owner     int   `json:"owner"`
	Base      bool  `json:"base"`
	Amt       int64 `json:"amt"`
	Long      bool  `json:"long"`
	Unlocking bool  `json:"unlocking"`
	Synth     bool  `json:"synth"`
}
type genState struct {
	Pref  [][]genPref `json:"pref"`
	Bal   []int64     `json:"bal"`
	Del   [][]int64   `json:"del"`
	Rec   [][]bool    `json:"rec"`
	Unb   [][]genUnb  `json:"unb"`
	Rin   [][]int     `json:"rin"`
	Pend  [][]int64   `json:"pend"`
	Locks []genLock   `json:"locks"`
}
type genStep struct {
	E     string    `json:"e"`
	D     int       `json:"d"`
	OK    bool      `json:"ok"`
	X     int64     `json:"x"`
	V     int       `json:"v"`
	K     int64     `json:"k"`
	Prefs []genPref `json:"prefs"`
	Lock  int64     `json:"lock"`
	Base  bool      `json:"base"`
	Long  bool      `json:"long"`
	Shape string    `json:"shape"`
	St    genState  `json:"st"`
}
type behaviour struct {
	Conf struct {
		ND int `json:"nd"`
		NV int `json:"nv"`
	} `json:"conf"`
	Bal0  []int64   `json:"bal0"`
	Steps []genStep `json:"steps"`
}
type mismatch struct {
	Behaviour int    `json:"behaviour"`
	Step      int    `json:"step"`
	What      string `json:"what"`
	Want      any    `json:"want"`
	Got       any    `json:"got"`
}

var e15 = pow10(15)
var e18 = pow10(18)

// the real state in the model's units: weights in thousandths, pending rewards in whole coins;
// ok = false when a value is not representable there
func (w *world) genState(lockModel map[uint64]int64) (genState, string) {
	st := w.state()
	g := genState{Locks: []genLock{}}
	small := func(b Big, unit *big.Int, what string, bad *string) int64 {
		x := tracelog.DecBig(b)
		q, r := new(big.Int).QuoRem(x, unit, new(big.Int))
		if r.Sign() != 0 || !q.IsInt64() {
			*bad = what + " " + x.String()
		}
		return q.Int64()
	}
	bad := ""
	one := big.NewInt(1)
	for d := range st.Bal {
		ps := []genPref{}
		for _, p := range st.Pref[d] {
			ps = append(ps, genPref{V: p.V, W: small(p.W, e15, "weight", &bad)})
		}
		g.Pref = append(g.Pref, ps)
		g.Bal = append(g.Bal, small(st.Bal[d], one, "balance", &bad))
		del, unb, pend := []int64{}, []genUnb{}, []int64{}
		for v := range st.Del[d] {
			del = append(del, small(st.Del[d][v], one, "stake", &bad))
			unb = append(unb, genUnb{N: st.Unb[d][v].N, T: small(st.Unb[d][v].T, one, "unbonding", &bad)})
			pend = append(pend, small(st.Pend[d][v], e18, "pending rewards", &bad))
		}
		g.Del, g.Unb, g.Pend = append(g.Del, del), append(g.Unb, unb), append(g.Pend, pend)
		g.Rec, g.Rin = append(g.Rec, st.Rec[d]), append(g.Rin, st.Rin[d])
	}
	for _, l := range st.Locks {
		g.Locks = append(g.Locks, genLock{ID: lockModel[uint64(l.ID)], Owner: l.Owner, Base: l.Base, Amt: small(l.Amt, one, "lock", &bad), Long: l.Long,
			Unlocking: l.Unlocking, Synth: l.Synth})
	}
	sort.Slice(g.Locks, func(i, j int) bool { return g.Locks[i].ID < g.Locks[j].ID })
	return g, bad
}

// the first field in which two projected states differ
func diffState(want, got genState) (string, any, any) {
	// how many entries a redelegation into a validator consists of is left open: compared as "some / none"
	clamp := func(r [][]int) [][]int {
		res := [][]int{}
		for _, row := range r {
			c := []int{}
			for _, n := range row {
				if n > 1 {
					n = 1
				}
				c = append(c, n)
			}
			res = append(res, c)
		}
		return res
	}
	want.Rin, got.Rin = clamp(want.Rin), clamp(got.Rin)
	wv, gv := reflect.ValueOf(want), reflect.ValueOf(got)
	for i := 0; i < wv.NumField(); i++ {
		a, b := wv.Field(i).Interface(), gv.Field(i).Interface()
		ja, _ := json.Marshal(a)
		jb, _ := json.Marshal(b)
		if !bytes.Equal(ja, jb) {
			return wv.Type().Field(i).Tag.Get("json"), a, b
		}
	}
	return "", nil, nil
}

// the same lists up to the order of their entries
func samePrefSets(a, b [][]genPref) bool {
	if len(a) != len(b) {
		return false
	}
	for d := range a {
		x, y := append([]genPref{}, a[d]...), append([]genPref{}, b[d]...)
		sort.Slice(x, func(i, j int) bool { return x[i].V < x[j].V })
		sort.Slice(y, func(i, j int) bool { return y[i].V < y[j].V })
		if !reflect.DeepEqual(x, y) {
			return false
		}
	}
	return true
}

func TestReplay(t *testing.T) {
	in := os.Getenv("VERIF_IN")
	if in == "" {
		t.Skip("VERIF_IN not set")
	}
	outp := tracelog.EnvStr("VERIF_OUT", in+".result")
	shard, nshard := 0, 1
	if s := os.Getenv("VERIF_SHARD"); s != "" {
		fmt.Sscanf(s, "%d/%d", &shard, &nshard)
	}
	f, err := os.Open(in)
	if err != nil {
		t.Fatal(err)
	}
	defer f.Close()
	sc := bufio.NewScanner(f)
	sc.Buffer(make([]byte, 1<<20), 1<<28)
	mm := []mismatch{}
	kinds, refusedKinds, shapes := map[string]int{}, map[string]int{}, map[string]int{}
	steps, done, orderSkips := 0, 0, 0
	var base *world
	baseKey := ""
	for bi := 0; sc.Scan(); bi++ {
		if bi%nshard != shard || len(sc.Bytes()) == 0 {
			continue
		}
		var b behaviour
		if err := json.Unmarshal(sc.Bytes(), &b); err != nil {
			t.Fatalf("%s line %d: %v", in, bi+1, err)
		}
		key := fmt.Sprint(b.Conf.ND, b.Conf.NV, b.Bal0)
		if base == nil || key != baseKey || done%3000 == 0 {
			base, baseKey = newWorld(t, b.Conf.NV, b.Conf.ND), key
			for d, x := range b.Bal0 {
				if x > 0 {
					base.fund(d+1, osmomath.NewInt(x))
				}
			}
		}
		done++
		w := base.branch() // the behaviour runs on a branch of the fresh chain that is discarded afterwards
		lockModel, lockReal := map[uint64]int64{}, map[int64]uint64{}
		bad := func(si int, what string, want, got any) {
			mm = append(mm, mismatch{Behaviour: bi, Step: si, What: what, Want: want, Got: got})
		}
		prefs := func(ps []genPref) []wpref {
			res := []wpref{}
			for _, p := range ps {
				res = append(res, wpref{V: p.V, W: osmomath.NewDecWithPrec(p.W, 3)})
			}
			return res
		}
		for si, s := range b.Steps {
			steps++
			kinds[s.E]++
			if !s.OK {
				refusedKinds[s.E]++
			}
			if s.Shape != "" {
				shapes[s.E+":"+s.Shape]++
			}
			w.advance(5 * time.Second)
			oc := apphelp.Outcome{OK: true}
			x := osmomath.NewInt(s.X)
			switch s.E {
			case "set":
				oc = w.set(s.D, prefs(s.Prefs))
			case "delegate":
				oc = w.delegate(s.D, x)
			case "undel_old":
				oc = w.undelegateOld(s.D, x)
			case "undelegate":
				oc = w.undelegate(s.D, x)
			case "redelegate":
				oc = w.redelegate(s.D, prefs(s.Prefs))
			case "withdraw":
				oc = w.withdraw(s.D)
			case "bonded":
				id, ok := lockReal[s.Lock]
				if !ok {
					id = 1_000_000 + uint64(s.Lock) // the model's unknown lock
				}
				oc = w.bonded(s.D, id)
			case "stake":
				oc = w.stake(s.D, s.V, x)
			case "unstake":
				oc = w.unstake(s.D, s.V, x)
			case "lock":
				var id uint64
				oc, id = w.lock(s.D, s.Base, x, s.Long)
				if oc.OK {
					lockModel[id], lockReal[s.Lock] = s.Lock, id
				}
			case "unlock":
				oc = w.beginUnlock(lockReal[s.Lock])
			case "synth":
				oc = w.synth(lockReal[s.Lock])
			case "accrue":
				w.accrue(s.V, s.K, osmomath.ZeroInt())
			case "mature":
				oc = w.mature()
			default:
				t.Fatalf("unknown step %q", s.E)
			}
			if oc.OK != s.OK {
				bad(si, s.E+" outcome", s.OK, oc)
				break
			}
			got, unrep := w.genState(lockModel)
			if unrep != "" {
				bad(si, "state after "+s.E+" not representable in the model's units", "", unrep)
				break
			}
			if what, a, g := diffState(s.St, got); what != "" {
				// the order in which a list is stored is left open: the generator emits a behaviour for every
				// order, the chain follows one of them
				if what == "pref" && samePrefSets(s.St.Pref, got.Pref) {
					orderSkips++
					break
				}
				bad(si, "state after "+s.E+": "+what, a, g)
				break
			}
			// Q1
			for _, a := range w.queries() {
				want := s.St.Pref[a.D-1]
				if a.OK != (len(want) > 0) {
					bad(si, "UserValidatorPreferences answers", len(want) > 0, a.OK)
				} else if a.OK {
					gq := []genPref{}
					for _, p := range a.Prefs {
						gq = append(gq, genPref{V: p.V, W: new(big.Int).Quo(tracelog.DecBig(p.W), e15).Int64()})
					}
					if !reflect.DeepEqual(gq, want) {
						bad(si, "UserValidatorPreferences answer", want, gq)
					}
				}
			}
			if len(mm) > 0 && mm[len(mm)-1].Behaviour == bi {
				break
			}
		}
		if len(mm) >= 20 {
			break
		}
	}
	if err := sc.Err(); err != nil {
		t.Fatal(err)
	}
	res := map[string]any{"behaviours": done, "steps": steps, "kinds": kinds, "refused": refusedKinds, "shapes": shapes, "order_skips": orderSkips, "mismatches": mm}
	bz, _ := json.Marshal(res)
	if err := os.WriteFile(outp, bz, 0o644); err != nil {
		t.Fatal(err)
	}
}
