// Recorder and replayer binding the real x/lockup msg server and keeper (full
// OsmosisApp, bank, hooks) to spec/Lockup.tla (C06).
//
// TestRecord  impl -> spec: seeded random histories through the real public API;
//
//	after every call (also the refused ones) the lock records, balances, the raw
//	reference index, accumulation-store answers and a battery of queries are
//	logged as ndjson for spec/trace/TraceLockup.tla.
//
// TestReplay  spec -> impl: the behaviours TLC printed for the bounded model
//
//	(spec/mc/MCLockup.tla; prefix closed) are executed as a tree on nested
//	branches of the real state and compared with the state the specification
//	expects after every action; the calls the specification refuses must fail.
package lockup

import (
	"bufio"
	"encoding/hex"
	"encoding/json"
	"fmt"
	"hash/fnv"
	stdbig "math/big"
	"math/rand"
	"os"
	"sort"
	"testing"
	"time"

	storetypes "cosmossdk.io/store/types"
	sdk "github.com/cosmos/cosmos-sdk/types"

	"github.com/osmosis-labs/osmosis/osmomath"
	lockupmodule "github.com/osmosis-labs/osmosis/v31/x/lockup"
	lockuptypes "github.com/osmosis-labs/osmosis/v31/x/lockup/types"

	"verif/harness/apphelp"
	"verif/harness/tracelog"
)

var baseTime = time.Unix(1_700_000_000, 0).UTC()

const offGrid = -999999 // a time / duration that is not a whole number of seconds: cannot be right

// ---------------------------------------------------------------------------
// world: one app, named owners and denominations

type world struct {
	*apphelp.World
	names   []string
	addrs   []sdk.AccAddress
	byAddr  map[string]string // bech32 -> name
	denoms  []string
	allowed []string
	unit    map[string]*stdbig.Int // "scaled" histories: base units per logged unit of a denomination
}

// Scaled histories: the specification's integers are TLC's (32 bit); real locked balances are not.  In a scaled
// history every amount of some denominations is a multiple of a large unit (2^61, 10^18, 2^64+1): the chain works on
// k * unit, the log carries k.  Lockup only adds and subtracts, so every amount it has to answer is a multiple; an
// answer that is not (a wrapped machine word, a truncated conversion) is logged as -1, which no step of the
// specification explains.  nextUnit is read by newWorld (set by TestRecord only, which is sequential).
var nextUnit map[string]*stdbig.Int

func (w *world) toLog(d string, v osmomath.Int) int64 {
	if u := w.unit[d]; u != nil {
		q, r := new(stdbig.Int).QuoRem(v.BigInt(), u, new(stdbig.Int))
		if r.Sign() != 0 || !q.IsInt64() || q.Int64() > 2_000_000_000 {
			return -1
		}
		return q.Int64()
	}
	if !v.IsInt64() {
		return -1
	}
	return v.Int64()
}

func (w *world) fromLog(d string, v int64) osmomath.Int {
	if u := w.unit[d]; u != nil {
		return osmomath.NewIntFromBigInt(new(stdbig.Int).Mul(stdbig.NewInt(v), u))
	}
	return osmomath.NewInt(v)
}

func newWorld(t *testing.T, names, denoms []string, fund map[string]map[string]int64, allowed []string, now int64) *world {
	w := &world{World: apphelp.New(t), names: names, denoms: denoms, byAddr: map[string]string{}, allowed: allowed, unit: nextUnit}
	w.Ctx = w.Ctx.WithBlockTime(baseTime.Add(time.Duration(now) * time.Second)).WithBlockHeight(1000)
	for i, n := range names {
		a := apphelp.Acct(i + 1)
		w.addrs = append(w.addrs, a)
		w.byAddr[a.String()] = n
		cs := sdk.Coins{}
		for _, d := range denoms {
			if v := fund[n][d]; v > 0 {
				cs = cs.Add(sdk.NewCoin(d, w.fromLog(d, v)))
			}
		}
		if !cs.Empty() {
			w.FundAcc(a, cs)
		}
	}
	al := []string{}
	for _, n := range allowed {
		al = append(al, w.addr(n).String())
	}
	p := w.App.LockupKeeper.GetParams(w.Ctx)
	p.ForceUnlockAllowedAddresses = al
	w.App.LockupKeeper.SetParams(w.Ctx, p)
	return w
}

func (w *world) addr(name string) sdk.AccAddress {
	for i, n := range w.names {
		if n == name {
			return w.addrs[i]
		}
	}
	panic("unknown owner " + name)
}

func (w *world) name(bech string) string {
	if n, ok := w.byAddr[bech]; ok {
		return n
	}
	return "?" + bech
}

func secs(t time.Time) int64 {
	d := t.Sub(baseTime)
	if d%time.Second != 0 {
		return offGrid
	}
	return int64(d / time.Second)
}

func durSecs(d time.Duration) int64 {
	if d%time.Second != 0 {
		return offGrid
	}
	return int64(d / time.Second)
}

func (w *world) coinMap(cs sdk.Coins) map[string]int64 {
	m := map[string]int64{}
	for _, d := range w.denoms {
		m[d] = 0
	}
	for _, c := range cs {
		m[c.Denom] = w.toLog(c.Denom, c.Amount) // a denomination outside the history's set shows up as an extra key
	}
	return m
}

// ---------------------------------------------------------------------------
// projection of the real state

type lockSt struct {
	ID  uint64           `json:"id"`
	O   string           `json:"o"`
	Dur int64            `json:"dur"`
	End int64            `json:"end"`
	C   map[string]int64 `json:"c"`
	RR  string           `json:"rr"`
}

type stateDoc struct {
	Locks  []lockSt                    `json:"locks"`
	Bal    map[string]map[string]int64 `json:"bal"`
	Mod    map[string]int64            `json:"mod"`
	Now    int64                       `json:"now"`
	LastID uint64                      `json:"lastId"`
	Refs   [][]any                     `json:"refs"`
}

func (w *world) lockOf(l *lockuptypes.PeriodLock) lockSt {
	s := lockSt{ID: l.ID, O: w.name(l.Owner), Dur: durSecs(l.Duration), C: w.coinMap(l.Coins)}
	if !l.EndTime.Equal(time.Time{}) {
		s.End = secs(l.EndTime)
	}
	if l.RewardReceiverAddress != "" {
		s.RR = w.name(l.RewardReceiverAddress)
	}
	return s
}

// project reads the abstract state back from the primary stores: lock records by id
// (not through any index), bank balances, the raw reference keys.
func (w *world) project(ctx sdk.Context) stateDoc {
	k := w.App.LockupKeeper
	st := stateDoc{Locks: []lockSt{}, Bal: map[string]map[string]int64{}, Now: secs(ctx.BlockTime()), LastID: k.GetLastLockID(ctx)}
	for id := uint64(1); id <= st.LastID; id++ {
		l, err := k.GetLockByID(ctx, id)
		if err != nil {
			continue
		}
		st.Locks = append(st.Locks, w.lockOf(l))
	}
	for i, n := range w.names {
		st.Bal[n] = w.coinMap(w.App.BankKeeper.GetAllBalances(ctx, w.addrs[i]))
	}
	st.Mod = w.coinMap(k.GetModuleBalance(ctx))
	st.Refs = w.rawRefs(ctx)
	return st
}

// rawRefs decodes every key of the two reference queues (prefixes 0x03 / 0x04) of the
// lockup store into [queue, owner, denom, "D"|"T", seconds, id].
func (w *world) rawRefs(ctx sdk.Context) [][]any {
	store := ctx.KVStore(w.App.GetKey(lockuptypes.StoreKey))
	res := [][]any{}
	for _, q := range []struct {
		p []byte
		n string
	}{{lockuptypes.KeyPrefixNotUnlocking, "N"}, {lockuptypes.KeyPrefixUnlocking, "U"}} {
		it := storetypes.KVStorePrefixIterator(store, q.p)
		for ; it.Valid(); it.Next() {
			res = append(res, w.decodeRef(q.n, it.Key(), it.Value()))
		}
		it.Close()
	}
	return res
}

func (w *world) decodeRef(queue string, key, val []byte) []any {
	bad := func(why string) []any { return []any{queue, "?" + why, hex.EncodeToString(key), "D", offGrid, 0} }
	b := key
	if len(b) < 4 || b[1] != 0xFF || b[3] != 0xFF {
		return bad("shape")
	}
	kind := b[2]
	b = b[4:]
	owner, denom := "", ""
	hasOwner := kind == 0x08 || kind == 0x0A || kind == 0x0C || kind == 0x0E
	hasDenom := kind == 0x09 || kind == 0x0A || kind == 0x0D || kind == 0x0E
	isTime := kind >= 0x0B && kind <= 0x0E
	if kind < 0x07 || kind > 0x0E {
		return bad("kind")
	}
	if hasOwner {
		if len(b) < 21 || b[20] != 0xFF {
			return bad("owner")
		}
		owner = w.name(sdk.AccAddress(b[:20]).String())
		b = b[21:]
	}
	if hasDenom {
		i := 0
		for i < len(b) && b[i] != 0xFF {
			i++
		}
		if i == len(b) {
			return bad("denom")
		}
		denom = string(b[:i])
		b = b[i+1:]
	}
	var v int64
	tk := "D"
	if isTime {
		tk = "T"
		if len(b) < 9 || b[0] != 0x05 {
			return bad("time")
		}
		n := int(sdk.BigEndianToUint64(b[1:9]))
		if len(b) < 9+n+1 {
			return bad("timelen")
		}
		t, err := sdk.ParseTimeBytes(b[9 : 9+n])
		if err != nil {
			return bad("timeparse")
		}
		if t.Equal(time.Time{}) {
			v = 0
		} else {
			v = secs(t)
		}
		b = b[9+n:]
	} else {
		if len(b) < 10 || b[0] != 0x06 || b[1] != 0xFF {
			return bad("dur")
		}
		v = durSecs(time.Duration(sdk.BigEndianToUint64(b[2:10])))
		b = b[10:]
	}
	if len(b) != 9 || b[0] != 0xFF {
		return bad("id")
	}
	id := sdk.BigEndianToUint64(b[1:9])
	if sdk.BigEndianToUint64(val) != id {
		return bad("value")
	}
	return []any{queue, owner, denom, tk, v, id}
}

// accumulation-store answers for a ladder of durations
func (w *world) accProbes(ctx sdk.Context, maxDur int64) [][]any {
	res := [][]any{}
	for _, d := range w.denoms {
		for x := int64(0); x <= maxDur; x++ {
			n := int64(-1)
			func() { // a query that panics is an answer too (and cannot be the right one)
				defer func() {
					if r := recover(); r != nil {
						n = -2
					}
				}()
				v := w.App.LockupKeeper.GetPeriodLocksAccumulation(ctx, lockuptypes.QueryCondition{
					LockQueryType: lockuptypes.ByDuration, Denom: d, Duration: time.Duration(x) * time.Second})
				n = w.toLog(d, v)
			}()
			res = append(res, []any{d, x, n})
		}
	}
	return res
}

// ---------------------------------------------------------------------------
// calls

type call struct {
	A   string `json:"a"`
	O   string `json:"o"`
	D   string `json:"d"`
	X   int64  `json:"x"`
	Amt int64  `json:"amt"`
	ID  uint64 `json:"id"`
	R   string `json:"r"`
	Via string `json:"via,omitempty"`
}

type outcome struct {
	OK       bool   `json:"ok"`
	Panicked bool   `json:"panicked,omitempty"`
	Err      string `json:"err,omitempty"`
	RID      uint64 `json:"rid"` // id returned by the code (lock created / added to / lock that starts unlocking)
}

// tryOn runs f on a branch of ctx under recover and writes the branch only on success
// (what baseapp does for a transaction).
func tryOn(ctx sdk.Context, f func(ctx sdk.Context) error) (out outcome) {
	cc, write := ctx.CacheContext()
	func() {
		defer func() {
			if r := recover(); r != nil {
				out = outcome{OK: false, Panicked: true, Err: fmt.Sprint(r)}
			}
		}()
		if err := f(cc); err != nil {
			out = outcome{OK: false, Err: err.Error()}
			return
		}
		out = outcome{OK: true}
	}()
	if out.OK {
		write()
	}
	return out
}

func (w *world) deliver(ctx sdk.Context, msg sdk.Msg) (*sdk.Result, outcome) {
	if vb, ok := msg.(interface{ ValidateBasic() error }); ok {
		if err := vb.ValidateBasic(); err != nil {
			return nil, outcome{OK: false, Err: "validate-basic: " + err.Error()}
		}
	}
	h := w.App.GetBaseApp().MsgServiceRouter().Handler(msg)
	if h == nil {
		panic(fmt.Sprintf("no handler for %T", msg))
	}
	var res *sdk.Result
	out := tryOn(ctx, func(c sdk.Context) error {
		var err error
		res, err = h(c, msg)
		return err
	})
	return res, out
}

func (w *world) coins(d string, amt int64) sdk.Coins {
	if amt == 0 {
		return sdk.Coins{}
	}
	return sdk.Coins{sdk.Coin{Denom: d, Amount: w.fromLog(d, amt)}}
}

// exec performs one call on ctx.  "advance" is handled by the callers (it changes the context).
func (w *world) exec(ctx sdk.Context, c call) outcome {
	k := w.App.LockupKeeper
	switch c.A {
	case "lock":
		res, out := w.deliver(ctx, lockuptypes.NewMsgLockTokens(w.addr(c.O), time.Duration(c.X)*time.Second, w.coins(c.D, c.Amt)))
		if out.OK {
			var r lockuptypes.MsgLockTokensResponse
			if err := unpackResponse(res, &r); err != nil {
				panic(err)
			}
			out.RID = r.ID
		}
		return out
	case "add":
		return tryOn(ctx, func(cc sdk.Context) error {
			_, err := k.AddTokensToLockByID(cc, c.ID, w.addr(c.O), sdk.NewCoin(c.D, w.fromLog(c.D, c.Amt)))
			return err
		})
	case "begin":
		res, out := w.deliver(ctx, lockuptypes.NewMsgBeginUnlocking(w.addr(c.O), c.ID, w.coins(c.D, c.Amt)))
		if out.OK {
			var r lockuptypes.MsgBeginUnlockingResponse
			if err := unpackResponse(res, &r); err != nil {
				panic(err)
			}
			out.RID = r.UnlockingLockID
		}
		return out
	case "beginall":
		_, out := w.deliver(ctx, lockuptypes.NewMsgBeginUnlockingAll(w.addr(c.O)))
		return out
	case "unlock":
		return tryOn(ctx, func(cc sdk.Context) error { return k.UnlockMaturedLock(cc, c.ID) })
	case "withdraw":
		if c.Via == "endblocker" {
			return tryOn(ctx, func(cc sdk.Context) error {
				lockupmodule.EndBlocker(cc.WithBlockHeight(cc.BlockHeight()/120*120), *k)
				return nil
			})
		}
		return tryOn(ctx, func(cc sdk.Context) error { k.WithdrawMaturedLocks(cc, int(c.X)); return nil })
	case "extend":
		_, out := w.deliver(ctx, lockuptypes.NewMsgExtendLockup(w.addr(c.O), c.ID, time.Duration(c.X)*time.Second))
		return out
	case "setrr":
		_, out := w.deliver(ctx, lockuptypes.NewMsgSetRewardReceiverAddress(w.addr(c.O), w.addr(c.R), c.ID))
		return out
	case "force":
		_, out := w.deliver(ctx, lockuptypes.NewMsgForceUnlock(w.addr(c.O), c.ID, w.coins(c.D, c.Amt)))
		return out
	}
	panic("unknown call " + c.A)
}

func unpackResponse(res *sdk.Result, into interface{ Unmarshal([]byte) error }) error {
	if res == nil || len(res.MsgResponses) == 0 {
		// legacy path: response bytes in Data
		if res != nil && len(res.Data) > 0 {
			return into.Unmarshal(res.Data)
		}
		return fmt.Errorf("no message response")
	}
	return into.Unmarshal(res.MsgResponses[0].Value)
}

// ---------------------------------------------------------------------------
// queries

type query struct {
	N   string           `json:"n"`
	O   string           `json:"o"`
	D   string           `json:"d"`
	X   int64            `json:"x"`
	IDs []uint64         `json:"ids"`
	C   map[string]int64 `json:"c"`
	V   int64            `json:"v"`
	Bad int              `json:"bad"`
}

func (w *world) ids(ls []lockuptypes.PeriodLock) []uint64 {
	r := make([]uint64, 0, len(ls))
	for _, l := range ls {
		r = append(r, l.ID)
	}
	return r
}

// ask runs one keeper query; a panic (an index entry pointing at a missing lock, ...) is an answer too.
func (w *world) ask(ctx sdk.Context, q query) (res query) {
	k := w.App.LockupKeeper
	res = q
	res.IDs = []uint64{}
	res.C = w.coinMap(nil)
	defer func() {
		if r := recover(); r != nil {
			res.Bad = 1
			res.IDs = []uint64{}
			res.C = w.coinMap(nil)
		}
	}()
	var a sdk.AccAddress
	if q.O != "" {
		a = w.addr(q.O)
	}
	ts := baseTime.Add(time.Duration(q.X) * time.Second)
	du := time.Duration(q.X) * time.Second
	switch q.N {
	case "PeriodLocks":
		ls, err := k.GetPeriodLocks(ctx)
		if err != nil {
			res.Bad = 1
		}
		res.IDs = w.ids(ls)
	case "AccountPeriodLocks":
		res.IDs = w.ids(k.GetAccountPeriodLocks(ctx, a))
	case "AccountUnlockableCoins":
		res.C = w.coinMap(k.GetAccountUnlockableCoins(ctx, a))
	case "AccountUnlockingCoins":
		res.C = w.coinMap(k.GetAccountUnlockingCoins(ctx, a))
	case "AccountLockedCoins":
		res.C = w.coinMap(k.GetAccountLockedCoins(ctx, a))
	case "AccountLockedPastTime":
		res.IDs = w.ids(k.GetAccountLockedPastTime(ctx, a, ts))
	case "AccountLockedPastTimeNotUnlockingOnly":
		res.IDs = w.ids(k.GetAccountLockedPastTimeNotUnlockingOnly(ctx, a, ts))
	case "AccountUnlockedBeforeTime":
		res.IDs = w.ids(k.GetAccountUnlockedBeforeTime(ctx, a, ts))
	case "AccountLockedPastTimeDenom":
		res.IDs = w.ids(k.GetAccountLockedPastTimeDenom(ctx, a, q.D, ts))
	case "AccountLockedDurationNotUnlockingOnly":
		res.IDs = w.ids(k.GetAccountLockedDurationNotUnlockingOnly(ctx, a, q.D, du))
	case "AccountLockedLongerDuration":
		res.IDs = w.ids(k.GetAccountLockedLongerDuration(ctx, a, du))
	case "AccountLockedDuration":
		res.IDs = w.ids(k.GetAccountLockedDuration(ctx, a, du))
	case "AccountLockedLongerDurationNotUnlockingOnly":
		res.IDs = w.ids(k.GetAccountLockedLongerDurationNotUnlockingOnly(ctx, a, du))
	case "AccountLockedLongerDurationDenom":
		res.IDs = w.ids(k.GetAccountLockedLongerDurationDenom(ctx, a, q.D, du))
	case "AccountLockedLongerDurationDenomNotUnlockingOnly":
		res.IDs = w.ids(k.GetAccountLockedLongerDurationDenomNotUnlockingOnly(ctx, a, q.D, du))
	case "LocksPastTimeDenom":
		res.IDs = w.ids(k.GetLocksPastTimeDenom(ctx, q.D, ts))
	case "LocksDenom":
		res.IDs = w.ids(k.GetLocksDenom(ctx, q.D))
	case "LocksLongerThanDurationDenom":
		res.IDs = w.ids(k.GetLocksLongerThanDurationDenom(ctx, q.D, du))
	case "ModuleLockedCoins":
		res.C = w.coinMap(k.GetModuleLockedCoins(ctx))
	case "ModuleBalance":
		res.C = w.coinMap(k.GetModuleBalance(ctx))
	case "LockedDenom":
		v := k.GetLockedDenom(ctx, q.D, du)
		res.V = w.toLog(q.D, v)
	case "LockByID":
		l, err := k.GetLockByID(ctx, uint64(q.X))
		if err == nil {
			res.V = 1
			res.IDs = []uint64{l.ID}
		}
	case "LockRewardReceiver":
		s, err := k.GetLockRewardReceiver(ctx, uint64(q.X))
		res.O = ""
		if err == nil {
			res.V = 1
			res.O = w.name(s)
		}
	default:
		panic("unknown query " + q.N)
	}
	return res
}

// ---------------------------------------------------------------------------
// impl -> spec: random histories

var defaultDurations = []int64{1, 2, 3, 5, 8}

const defaultMaxProbe = 14

type recorder struct {
	// durs / maxProbe: the duration alphabet of this history.  "wide" histories use 36 distinct
	// durations per denom so that the accumulation sum-tree (fan-out 10) splits into several nodes
	// and whole buckets drain to zero again.
	durs     []int64
	maxProbe int64
	w        *world
	rng      *rand.Rand
	tw       *tracelog.Writer
	st  stateDoc

	maxEmpty int64
}

func (r *recorder) pick(pred func(l lockSt) bool) (lockSt, bool) {
	c := []lockSt{}
	for _, l := range r.st.Locks {
		if pred == nil || pred(l) {
			c = append(c, l)
		}
	}
	if len(c) == 0 {
		return lockSt{}, false
	}
	return c[r.rng.Intn(len(c))], true
}

func lockDenom(l lockSt) string {
	ks := []string{}
	for d, v := range l.C {
		if v > 0 {
			ks = append(ks, d)
		}
	}
	sort.Strings(ks)
	if len(ks) == 0 {
		return ""
	}
	return ks[0]
}

func (r *recorder) randOwner() string { return r.w.names[r.rng.Intn(len(r.w.names))] }
func (r *recorder) randDenom() string { return r.w.denoms[r.rng.Intn(len(r.w.denoms))] }

// someTime: a timestamp around now, biased to the end times of live locks and their neighbours
func (r *recorder) someTime() int64 {
	now := r.st.Now
	switch x := r.rng.Intn(10); {
	case x < 4:
		if l, ok := r.pick(func(l lockSt) bool { return l.End != 0 }); ok {
			return l.End + int64(r.rng.Intn(3)) - 1
		}
	case x < 6:
		if l, ok := r.pick(nil); ok { // now + a live duration: the boundary of the not-unlocking branch
			return now + l.Dur + int64(r.rng.Intn(3)) - 1
		}
	case x < 7:
		return now
	}
	return now - 3 + int64(r.rng.Intn(16))
}

func (r *recorder) someDur() int64 {
	if r.rng.Intn(2) == 0 {
		if l, ok := r.pick(nil); ok {
			return l.Dur + int64(r.rng.Intn(3)) - 1
		}
	}
	return int64(r.rng.Intn(int(r.maxProbe) + 1))
}

func (r *recorder) someID() int64 {
	if l, ok := r.pick(nil); ok && r.rng.Intn(4) != 0 {
		return int64(l.ID)
	}
	return int64(r.rng.Intn(int(r.st.LastID)+2)) + 1
}

func (r *recorder) battery(ctx sdk.Context) []query {
	qs := []query{
		{N: "PeriodLocks"},
		{N: "ModuleLockedCoins"},
		{N: "ModuleBalance"},
		{N: "AccountPeriodLocks", O: r.randOwner()},
		{N: "AccountUnlockableCoins", O: r.randOwner()},
		{N: "AccountUnlockingCoins", O: r.randOwner()},
		{N: "AccountLockedCoins", O: r.randOwner()},
		{N: "AccountLockedPastTime", O: r.randOwner(), X: r.someTime()},
		{N: "AccountLockedPastTimeNotUnlockingOnly", O: r.randOwner(), X: r.someTime()},
		{N: "AccountUnlockedBeforeTime", O: r.randOwner(), X: r.someTime()},
		{N: "AccountLockedPastTimeDenom", O: r.randOwner(), D: r.randDenom(), X: r.someTime()},
		{N: "AccountLockedDurationNotUnlockingOnly", O: r.randOwner(), D: r.randDenom(), X: r.someDur()},
		{N: "AccountLockedLongerDuration", O: r.randOwner(), X: r.someDur()},
		{N: "AccountLockedDuration", O: r.randOwner(), X: r.someDur()},
		{N: "AccountLockedLongerDurationNotUnlockingOnly", O: r.randOwner(), X: r.someDur()},
		{N: "AccountLockedLongerDurationDenom", O: r.randOwner(), D: r.randDenom(), X: r.someDur()},
		{N: "AccountLockedLongerDurationDenomNotUnlockingOnly", O: r.randOwner(), D: r.randDenom(), X: r.someDur()},
		{N: "LocksPastTimeDenom", D: r.randDenom(), X: r.someTime()},
		{N: "LocksDenom", D: r.randDenom()},
		{N: "LocksLongerThanDurationDenom", D: r.randDenom(), X: r.someDur()},
		{N: "LockedDenom", D: r.randDenom(), X: r.someDur()},
		{N: "LockByID", X: r.someID()},
		{N: "LockRewardReceiver", X: r.someID()},
	}
	// the by-owner, by-time shapes once more for the owner / time the last calls were about
	if l, ok := r.pick(func(l lockSt) bool { return l.End != 0 }); ok {
		qs = append(qs, query{N: "AccountUnlockedBeforeTime", O: l.O, X: l.End}, query{N: "AccountLockedPastTime", O: l.O, X: l.End},
			query{N: "LocksPastTimeDenom", D: lockDenom(l), X: l.End - 1})
	}
	for i := range qs {
		qs[i] = r.w.ask(ctx, qs[i])
	}
	return qs
}

func (r *recorder) observe(head map[string]any) {
	ctx := r.w.Ctx
	r.st = r.w.project(ctx)
	head["st"] = r.st
	head["acc"] = r.w.accProbes(ctx, r.maxProbe)
	// informational only (not a denomination, not validated): AddTokensToLockByID also writes to the
	// accumulation store of the synthetic denom of a lock that has no synthetic lock, i.e. ""
	if v := r.w.App.LockupKeeper.GetPeriodLocksAccumulation(ctx, lockuptypes.QueryCondition{Denom: "", Duration: 0}); v.IsInt64() {
		head["accEmptyDenom"] = v.Int64()
		if v.Int64() > r.maxEmpty {
			r.maxEmpty = v.Int64()
		}
	}
	head["q"] = r.battery(ctx)
	r.tw.Emit(head)
}

func (r *recorder) nextCall() call {
	rng := r.rng
	live := len(r.st.Locks)
	unl := func(l lockSt) bool { return l.End != 0 }
	notUnl := func(l lockSt) bool { return l.End == 0 }
	x := rng.Intn(100)
	if live > 28 && x < 30 { // keep the lock table at a size TLC handles quickly
		x = 50 + rng.Intn(45)
	}
	switch {
	case x < 28: // MsgLockTokens (creates, or adds to the owner's lock of the same denom and duration)
		o, d := r.randOwner(), r.randDenom()
		c := call{A: "lock", O: o, D: d, X: r.durs[rng.Intn(len(r.durs))]}
		b := r.st.Bal[o][d]
		switch y := rng.Intn(20); {
		case y == 0:
			c.Amt = b + 1 + int64(rng.Intn(5)) // overdraft
		case y == 1 && b > 0:
			c.Amt = b // everything
		case y == 2:
			c.Amt = 0 // refused by ValidateBasic
		case y == 3:
			c.X = 0 // refused by ValidateBasic
			c.Amt = 1
		default:
			c.Amt = 1 + int64(rng.Intn(40))
		}
		return c
	case x < 35: // keeper AddTokensToLockByID
		l, ok := r.pick(nil)
		if !ok {
			return call{A: "add", O: r.randOwner(), D: r.randDenom(), Amt: 1, ID: r.st.LastID + 1}
		}
		c := call{A: "add", O: l.O, D: lockDenom(l), ID: l.ID, Amt: 1 + int64(rng.Intn(20))}
		switch rng.Intn(10) {
		case 0:
			c.O = r.randOwner()
		case 1:
			c.Amt = r.st.Bal[l.O][c.D] + 1
		}
		return c
	case x < 45: // MsgExtendLockup
		l, ok := r.pick(notUnl)
		if !ok || rng.Intn(8) == 0 {
			l, ok = r.pick(nil)
		}
		if !ok {
			return call{A: "extend", O: r.randOwner(), ID: r.st.LastID + 1, X: 3}
		}
		c := call{A: "extend", O: l.O, ID: l.ID}
		switch y := rng.Intn(10); {
		case y < 5:
			c.X = r.durs[rng.Intn(len(r.durs))] // may be shorter or equal: refused
		case y < 8:
			c.X = l.Dur + 1 + int64(rng.Intn(4))
		case y == 8:
			c.X = l.Dur
		default:
			c.X = l.Dur + 1
			c.O = r.randOwner()
		}
		if c.X > r.maxProbe-1 {
			c.X = r.maxProbe - 1
		}
		return c
	case x < 62: // MsgBeginUnlocking: whole / partial (splits) / too much / wrong denom / wrong owner / already unlocking
		l, ok := r.pick(notUnl)
		if !ok || rng.Intn(10) == 0 {
			l, ok = r.pick(nil)
		}
		if !ok {
			return call{A: "begin", O: r.randOwner(), D: r.randDenom(), ID: r.st.LastID + 1}
		}
		d := lockDenom(l)
		c := call{A: "begin", O: l.O, D: d, ID: l.ID}
		switch y := rng.Intn(20); {
		case y < 6:
			c.Amt = 0
		case y < 14 && l.C[d] > 1:
			c.Amt = 1 + int64(rng.Intn(int(l.C[d]-1)))
		case y < 16:
			c.Amt = l.C[d]
		case y == 16:
			c.Amt = l.C[d] + 1
		case y == 17:
			c.D = r.randDenom()
			c.Amt = 1
		case y == 18:
			c.O = r.randOwner()
		default:
			c.Amt = 1
		}
		return c
	case x < 65:
		return call{A: "beginall", O: r.randOwner()}
	case x < 72: // keeper UnlockMaturedLock
		l, ok := r.pick(unl)
		if !ok || rng.Intn(6) == 0 {
			l, ok = r.pick(nil)
		}
		if !ok {
			return call{A: "unlock", ID: r.st.LastID + 1}
		}
		return call{A: "unlock", ID: l.ID}
	case x < 79: // keeper WithdrawMaturedLocks / the EndBlocker sweep
		switch rng.Intn(4) {
		case 0:
			return call{A: "withdraw", X: 0, Via: "endblocker"}
		case 1:
			return call{A: "withdraw", X: 0}
		default:
			return call{A: "withdraw", X: 1 + int64(rng.Intn(3))}
		}
	case x < 82: // MsgSetRewardReceiverAddress
		l, ok := r.pick(nil)
		if !ok {
			return call{A: "setrr", O: r.randOwner(), R: r.randOwner(), ID: r.st.LastID + 1}
		}
		c := call{A: "setrr", O: l.O, R: r.randOwner(), ID: l.ID}
		if rng.Intn(8) == 0 {
			c.O = r.randOwner()
		}
		return c
	case x < 86: // MsgForceUnlock (only owners on the parameter list may)
		l, ok := r.pick(nil)
		if !ok {
			return call{A: "force", O: r.randOwner(), D: r.randDenom(), ID: r.st.LastID + 1}
		}
		d := lockDenom(l)
		c := call{A: "force", O: l.O, D: d, ID: l.ID}
		switch y := rng.Intn(8); {
		case y < 3 && l.C[d] > 1:
			c.Amt = 1 + int64(rng.Intn(int(l.C[d]-1)))
		case y == 3:
			c.Amt = l.C[d] + 1
		case y == 4:
			c.O = r.randOwner()
		}
		return c
	default: // time passes
		c := call{A: "advance"}
		switch y := rng.Intn(10); {
		case y < 1:
			c.X = 0
		case y < 4:
			c.X = 1
		case y < 7: // land exactly on (or one second before / after) the next end time
			next := int64(-1)
			for _, l := range r.st.Locks {
				if l.End > r.st.Now-1 && (next < 0 || l.End < next) {
					next = l.End
				}
			}
			if next >= 0 {
				c.X = next - r.st.Now + int64(rng.Intn(3)) - 1
			}
			if c.X < 0 {
				c.X = 0
			}
		default:
			c.X = int64(rng.Intn(10))
		}
		return c
	}
}

func TestRecord(t *testing.T) {
	out := os.Getenv("VERIF_OUT")
	if out == "" {
		t.Skip("VERIF_OUT not set")
	}
	seed := tracelog.EnvInt("VERIF_SEED", 1)
	nh := int(tracelog.EnvInt("VERIF_HISTORIES", 8))
	nops := int(tracelog.EnvInt("VERIF_OPS", 200))
	rng := rand.New(rand.NewSource(seed))
	tw, err := tracelog.NewWriter(out)
	if err != nil {
		t.Fatal(err)
	}
	names := []string{"o1", "o2", "o3", "o4"}
	// "aaa" is a prefix of "aaab": index keys of one must never answer for the other; "aaa/zz" and "aaa/a" are path-like
	// denominations under "aaa" (factory/.../token and factory/.../token/staked; the second one also CONTAINS the prefix
	// of concentrated-liquidity share denominations, "cl/pool", without starting with it: an ordinary token all the same): the per-denomination stores of the
	// accumulation trees nest physically ("aaa/" is a prefix of "aaa/zz/"), sorting before and after the trees' own keys
	denoms := []string{"aaa", "aaab", "bbb", "aaa/zz", "aaa/cl/pool/1"}
	counts := map[string]int{}
	recs := []*recorder{}
	for h := 0; h < nh; h++ {
		fund := map[string]map[string]int64{}
		for _, n := range names {
			fund[n] = map[string]int64{}
			for _, d := range denoms {
				fund[n][d] = int64(100 + rng.Intn(900))
			}
		}
		allowed := []string{}
		for _, n := range names {
			if rng.Intn(3) == 0 {
				allowed = append(allowed, n)
			}
		}
		// every third history is scaled: sums of a few locks cross 2^63 and 2^64
		nextUnit = nil
		switch h % 6 {
		case 2:
			nextUnit = map[string]*stdbig.Int{"aaa": new(stdbig.Int).Lsh(stdbig.NewInt(1), 61), "bbb": new(stdbig.Int).Exp(stdbig.NewInt(10), stdbig.NewInt(18), nil)}
			counts["history:scaled"]++
		case 5:
			nextUnit = map[string]*stdbig.Int{"aaab": new(stdbig.Int).Add(new(stdbig.Int).Lsh(stdbig.NewInt(1), 64), stdbig.NewInt(1)), "aaa": new(stdbig.Int).Exp(stdbig.NewInt(10), stdbig.NewInt(16), nil)}
			counts["history:scaled"]++
		}
		w := newWorld(t, names, denoms, fund, allowed, 100)
		nextUnit = nil
		r := &recorder{w: w, rng: rng, tw: tw, durs: defaultDurations, maxProbe: defaultMaxProbe}
		if h%4 == 3 {
			r.durs = []int64{}
			for x := int64(1); x <= 36; x++ {
				r.durs = append(r.durs, x)
			}
			r.maxProbe = 40
		}
		recs = append(recs, r)
		r.observe(map[string]any{"e": "cfg", "a": "init", "owners": names, "denoms": denoms, "allowed": allowed, "seed": seed, "h": h})
		for i := 0; i < nops; i++ {
			c := r.nextCall()
			var o outcome
			if c.A == "advance" {
				w.AdvanceTime(time.Duration(c.X) * time.Second)
				o = outcome{OK: true}
			} else {
				o = w.exec(w.Ctx, c)
			}
			key := c.A
			if !o.OK {
				key += ":refused"
			}
			counts[key]++
			if c.A == "begin" && o.OK && o.RID != c.ID {
				counts["begin:split"]++
			}
			r.observe(map[string]any{"e": "op", "a": c.A, "o": c.O, "d": c.D, "x": c.X, "amt": c.Amt, "id": c.ID, "r": c.R,
				"via": c.Via, "ok": o.OK, "panicked": o.Panicked, "err": o.Err, "rid": o.RID})
		}
	}
	if err := tw.Close(); err != nil {
		t.Fatal(err)
	}
	for _, r := range recs {
		if int(r.maxEmpty) > counts["info:max-accumulation-of-empty-denom"] {
			counts["info:max-accumulation-of-empty-denom"] = int(r.maxEmpty)
		}
	}
	bz, _ := json.Marshal(counts)
	fmt.Printf("RECORDED events=%d histories=%d counts=%s\n", tw.N, nh, bz)
}

// ---------------------------------------------------------------------------
// spec -> impl: the prefix tree of the behaviours TLC printed

type specLock struct {
	ID  uint64           `json:"id"`
	O   string           `json:"o"`
	Dur int64            `json:"dur"`
	End int64            `json:"end"`
	C   map[string]int64 `json:"c"`
	RR  string           `json:"rr"`
}

type specState struct {
	Locks   []specLock                  `json:"locks"`
	Bal     map[string]map[string]int64 `json:"bal"`
	Mod     map[string]int64            `json:"mod"`
	Now     int64                       `json:"now"`
	LastID  uint64                      `json:"lastId"`
	Acc     map[string][]int64          `json:"acc"`
	Allowed []string                    `json:"allowed"`
}

type genDoc struct {
	H       [][]any   `json:"h"`
	St      specState `json:"st"`
	Refused [][]any   `json:"refused"`
}

type node struct {
	act      []any
	doc      *genDoc
	children []*node
	index    map[string]*node
}

func actCall(a []any) call {
	s := func(i int) string { v, _ := a[i].(string); return v }
	n := func(i int) int64 { v, _ := a[i].(float64); return int64(v) }
	return call{A: s(0), O: s(1), D: s(2), X: n(3), Amt: n(4), ID: uint64(n(5)), R: s(6)}
}

type mismatch struct {
	Path []any  `json:"path"`
	What string `json:"what"`
	Want any    `json:"want"`
	Got  any    `json:"got"`
}

type replayer struct {
	w        *world
	mm       []mismatch
	steps    int
	refusals int
	kinds    map[string]int
}

// derivedRefs: the reference index the specification expects for these lock records
// (Lockup.tla DerivedRefs, invariant RefsExact), with spec ids mapped to real ids.
func derivedRefs(ls []specLock, idmap map[uint64]uint64) []string {
	res := []string{}
	for _, l := range ls {
		id := idmap[l.ID]
		ds := []string{}
		for d, v := range l.C {
			if v > 0 {
				ds = append(ds, d)
			}
		}
		q := "N"
		if l.End != 0 {
			q = "U"
		}
		add := func(tk string, v int64) {
			res = append(res, fmt.Sprint([]any{q, "", "", tk, v, id}), fmt.Sprint([]any{q, l.O, "", tk, v, id}))
			for _, d := range ds {
				res = append(res, fmt.Sprint([]any{q, "", d, tk, v, id}), fmt.Sprint([]any{q, l.O, d, tk, v, id}))
			}
		}
		add("D", l.Dur)
		if l.End != 0 {
			add("T", l.End)
		}
	}
	sort.Strings(res)
	return res
}

func (rp *replayer) bad(path [][]any, what string, want, got any) {
	p := make([]any, len(path))
	for i := range path {
		p[i] = path[i]
	}
	rp.mm = append(rp.mm, mismatch{Path: p, What: what, Want: want, Got: got})
}

// compare the real state on ctx with the state the specification expects
func (rp *replayer) compare(ctx sdk.Context, path [][]any, want specState, idmap map[uint64]uint64) bool {
	w := rp.w
	got := w.project(ctx)
	n0 := len(rp.mm)
	wantLocks := map[uint64]lockSt{}
	for _, l := range want.Locks {
		wantLocks[idmap[l.ID]] = lockSt{ID: idmap[l.ID], O: l.O, Dur: l.Dur, End: l.End, C: l.C, RR: l.RR}
	}
	gotLocks := map[uint64]lockSt{}
	for _, l := range got.Locks {
		gotLocks[l.ID] = l
	}
	if !sameJSON(wantLocks, gotLocks) {
		rp.bad(path, "lock records", wantLocks, gotLocks)
	}
	if !sameJSON(want.Bal, got.Bal) {
		rp.bad(path, "owner balances", want.Bal, got.Bal)
	}
	if !sameJSON(want.Mod, got.Mod) {
		rp.bad(path, "module account", want.Mod, got.Mod)
	}
	if want.Now != got.Now {
		rp.bad(path, "time", want.Now, got.Now)
	}
	gotRefs := []string{}
	for _, r := range got.Refs {
		gotRefs = append(gotRefs, fmt.Sprint(r))
	}
	sort.Strings(gotRefs)
	wantRefs := derivedRefs(want.Locks, idmap)
	if !sameJSON(wantRefs, gotRefs) {
		rp.bad(path, "reference index", wantRefs, gotRefs)
	}
	for _, d := range w.denoms {
		for x, v := range want.Acc[d] {
			g := w.App.LockupKeeper.GetPeriodLocksAccumulation(ctx, lockuptypes.QueryCondition{
				LockQueryType: lockuptypes.ByDuration, Denom: d, Duration: time.Duration(x) * time.Second})
			if !g.IsInt64() || g.Int64() != v {
				rp.bad(path, fmt.Sprintf("accumulation %s >= %ds", d, x), v, g.String())
			}
		}
	}
	// two index-backed queries against the expected records
	q := w.ask(ctx, query{N: "PeriodLocks"})
	gotIDs := append([]uint64{}, q.IDs...)
	sort.Slice(gotIDs, func(i, j int) bool { return gotIDs[i] < gotIDs[j] })
	wantIDs := []uint64{}
	for id := range wantLocks {
		wantIDs = append(wantIDs, id)
	}
	sort.Slice(wantIDs, func(i, j int) bool { return wantIDs[i] < wantIDs[j] })
	if q.Bad != 0 || !sameJSON(wantIDs, gotIDs) {
		rp.bad(path, "GetPeriodLocks", wantIDs, q)
	}
	for _, o := range w.names {
		wantC := w.coinMap(nil)
		for _, l := range want.Locks {
			if l.O == o && l.End != 0 && l.End <= want.Now {
				for d, v := range l.C {
					wantC[d] += v
				}
			}
		}
		q := w.ask(ctx, query{N: "AccountUnlockableCoins", O: o})
		if q.Bad != 0 || !sameJSON(wantC, q.C) {
			rp.bad(path, "GetAccountUnlockableCoins "+o, wantC, q)
		}
	}
	return len(rp.mm) == n0
}

func sameJSON(a, b any) bool {
	x, _ := json.Marshal(a)
	y, _ := json.Marshal(b)
	return string(x) == string(y)
}

func (rp *replayer) walk(ctx sdk.Context, n *node, path [][]any, idmap map[uint64]uint64) {
	if len(rp.mm) >= 20 {
		return
	}
	w := rp.w
	if n.doc != nil {
		if !rp.compare(ctx, path, n.doc.St, idmap) {
			return // what follows starts from a different state
		}
		for _, r := range n.doc.Refused {
			c := actCall(r)
			if c.ID != 0 {
				if real, ok := idmap[c.ID]; ok {
					c.ID = real
				} else {
					c.ID = w.App.LockupKeeper.GetLastLockID(ctx) + 1 + (c.ID - n.doc.St.LastID - 1)
				}
			}
			cc, _ := ctx.CacheContext()
			o := w.exec(cc, c)
			rp.refusals++
			if o.OK {
				rp.bad(append(path, r), "the specification refuses this call, the code accepted it", "refused", o)
			}
		}
	}
	for _, ch := range n.children {
		c := actCall(ch.act)
		cc, _ := ctx.CacheContext()
		m2 := idmap
		rp.steps++
		rp.kinds[c.A]++
		p2 := append(append([][]any{}, path...), ch.act)
		if c.A == "advance" {
			cc = cc.WithBlockTime(cc.BlockTime().Add(time.Duration(c.X) * time.Second)).WithBlockHeight(cc.BlockHeight() + 1)
		} else {
			specID := c.ID
			specNew := uint64(c.X) // begin: id of the lock that starts unlocking
			if c.ID != 0 {
				if real, ok := idmap[c.ID]; ok {
					c.ID = real
				}
			}
			x := c.X
			if c.A == "begin" {
				c.X = 0
			}
			before := w.App.LockupKeeper.GetLastLockID(cc)
			o := w.exec(cc, c)
			c.X = x
			if !o.OK {
				rp.bad(p2, "the specification performs this call, the code refused it", "ok", o)
				continue
			}
			after := w.App.LockupKeeper.GetLastLockID(cc)
			switch c.A {
			case "lock":
				if _, known := idmap[specID]; !known {
					m2 = copyMap(idmap)
					m2[specID] = o.RID
				} else if idmap[specID] != o.RID {
					rp.bad(p2, "lock added to", idmap[specID], o.RID)
					continue
				}
			case "begin":
				if specNew != specID {
					m2 = copyMap(idmap)
					m2[specNew] = o.RID
				} else if o.RID != c.ID {
					rp.bad(p2, "lock that starts unlocking", c.ID, o.RID)
					continue
				}
			case "force":
				if after != before { // a partial force unlock consumed an id for the split lock
					m2 = copyMap(idmap)
					m2[ch.doc.St.LastID] = after
				}
			}
		}
		rp.walk(cc, ch, p2, m2)
	}
}

func copyMap(m map[uint64]uint64) map[uint64]uint64 {
	r := make(map[uint64]uint64, len(m)+1)
	for k, v := range m {
		r[k] = v
	}
	return r
}

func TestReplay(t *testing.T) {
	in := os.Getenv("VERIF_IN")
	if in == "" {
		t.Skip("VERIF_IN not set")
	}
	out := tracelog.EnvStr("VERIF_OUT", in+".result")
	// VERIF_SHARD=i/n: this process keeps only the subtrees whose first action hashes to i (mod n)
	var si, sn int
	if _, err := fmt.Sscanf(os.Getenv("VERIF_SHARD"), "%d/%d", &si, &sn); err != nil || sn < 1 {
		si, sn = 0, 1
	}
	f, err := os.Open(in)
	if err != nil {
		t.Fatal(err)
	}
	sc := bufio.NewScanner(f)
	sc.Buffer(make([]byte, 1<<20), 1<<28)
	root := &node{index: map[string]*node{}}
	ndocs := 0
	shared := []*genDoc{} // depth-1 documents owned by another shard
	for sc.Scan() {
		if len(sc.Bytes()) == 0 {
			continue
		}
		d := &genDoc{}
		if err := json.Unmarshal(sc.Bytes(), d); err != nil {
			t.Fatal(err)
		}
		// subtrees below depth 2 are dealt out by the hash of their first two actions; the root and
		// the depth-1 states are walked by every shard that needs them (their refusals by one)
		mine := func(k int) bool {
			hh := fnv.New32a()
			hh.Write([]byte(fmt.Sprint(d.H[:k])))
			return int(hh.Sum32()%uint32(sn)) == si
		}
		switch {
		case len(d.H) >= 2:
			if !mine(2) {
				continue
			}
		case len(d.H) == 1:
			if !mine(1) {
				d.Refused = nil
				shared = append(shared, d)
			}
		default:
			if si != 0 {
				d.Refused = nil
			}
		}
		ndocs++
		n := root
		for _, a := range d.H {
			key := fmt.Sprint(a)
			ch, ok := n.index[key]
			if !ok {
				ch = &node{act: a, index: map[string]*node{}}
				n.index[key] = ch
				n.children = append(n.children, ch)
			}
			n = ch
		}
		n.doc = d
	}
	f.Close()
	if err := sc.Err(); err != nil {
		t.Fatal(err)
	}
	// drop the depth-1 states of other shards that have nothing below them here
	keep := []*node{}
	for _, ch := range root.children {
		foreign := false
		for _, d := range shared {
			if ch.doc == d {
				foreign = true
			}
		}
		if foreign && len(ch.children) == 0 {
			ndocs--
			continue
		}
		keep = append(keep, ch)
	}
	root.children = keep
	if root.doc == nil {
		t.Fatal("no document for the initial state")
	}
	// every prefix must come with its expectation
	var check func(n *node) int
	check = func(n *node) int {
		c := 1
		if n.doc == nil {
			t.Fatalf("behaviours are not prefix closed at %v", n.act)
		}
		for _, ch := range n.children {
			c += check(ch)
		}
		return c
	}
	nodes := check(root)
	st0 := root.doc.St
	names, denoms := []string{}, []string{}
	for n := range st0.Bal {
		names = append(names, n)
	}
	sort.Strings(names)
	for d := range st0.Mod {
		denoms = append(denoms, d)
	}
	sort.Strings(denoms)
	w := newWorld(t, names, denoms, st0.Bal, st0.Allowed, st0.Now)
	rp := &replayer{w: w, kinds: map[string]int{}, mm: []mismatch{}}
	rp.walk(w.Ctx, root, [][]any{}, map[uint64]uint64{})
	res := map[string]any{"behaviours": ndocs, "nodes": nodes, "steps": rp.steps, "refusals": rp.refusals,
		"kinds": rp.kinds, "mismatches": rp.mm}
	bz, _ := json.Marshal(res)
	if err := os.WriteFile(out, bz, 0o644); err != nil {
		t.Fatal(err)
	}
	fmt.Printf("REPLAYED behaviours=%d steps=%d refusals=%d mismatches=%d\n", ndocs, rp.steps, rp.refusals, len(rp.mm))
}

// ---------------------------------------------------------------------------
// observations outside the property (run with VERIF_PROBE=1; not part of the check)

func TestObservations(t *testing.T) {
	if os.Getenv("VERIF_PROBE") == "" {
		t.Skip("VERIF_PROBE not set")
	}
	names, denoms := []string{"o1", "o2"}, []string{"aaa", "aaab"}
	fund := map[string]map[string]int64{"o1": {"aaa": 100, "aaab": 100}, "o2": {"aaa": 100, "aaab": 100}}
	w := newWorld(t, names, denoms, fund, nil, 100)
	k := w.App.LockupKeeper
	must := func(o outcome) {
		if !o.OK {
			t.Fatal(o.Err)
		}
	}
	must(w.exec(w.Ctx, call{A: "lock", O: "o1", D: "aaa", X: 2, Amt: 5}))
	must(w.exec(w.Ctx, call{A: "lock", O: "o1", D: "aaab", X: 2, Amt: 7}))
	must(w.exec(w.Ctx, call{A: "beginall", O: "o1"}))
	far := w.Ctx.BlockTime().Add(time.Hour)
	count := func(it storetypes.Iterator) int {
		n := 0
		for ; it.Valid(); it.Next() {
			n++
		}
		it.Close()
		return n
	}
	fmt.Printf("OBS exported but unused iterators with denom prefix pair aaa/aaab (one unlocking lock each):\n")
	fmt.Printf("OBS   LockIteratorBeforeTimeDenom(aaa) yields %d entries (1 expected)\n", count(k.LockIteratorBeforeTimeDenom(w.Ctx, "aaa", far)))
	fmt.Printf("OBS   AccountLockIteratorBeforeTimeDenom(o1, aaa) yields %d entries (1 expected)\n", count(k.AccountLockIteratorBeforeTimeDenom(w.Ctx, w.addr("o1"), "aaa", far)))
	fmt.Printf("OBS   LockIteratorDenom(unlocking, aaa) yields %d entries (1 expected)\n", count(k.LockIteratorDenom(w.Ctx, true, "aaa")))
	fmt.Printf("OBS   AccountLockIteratorDenom(unlocking, o1, aaa) yields %d entries (1 expected)\n", count(k.AccountLockIteratorDenom(w.Ctx, true, w.addr("o1"), "aaa")))
	must(w.exec(w.Ctx, call{A: "add", O: "o1", D: "aaa", Amt: 3, ID: 1}))
	fmt.Printf("OBS accumulation store of denom \"\" after AddTokensToLockByID(3aaa): %s (no lock holds that denom)\n",
		k.GetPeriodLocksAccumulation(w.Ctx, lockuptypes.QueryCondition{Denom: "", Duration: 0}))
}
