package smartaccount

import (
	"encoding/json"
	"fmt"
	"testing"

	"github.com/osmosis-labs/osmosis/v31/x/smart-account/testutils"
)

func js(v any) string { b, _ := json.Marshal(v); return string(b) }

// TestConfirmAfterFailedExecutionDemo (finding X05-1): the selected authenticator receives
// ConfirmExecution although the only message of the transaction failed, and a successful
// delivery is confirmed with Simulate=true (the flags arrive swapped at the post handler).
func TestConfirmAfterFailedExecutionDemo(t *testing.T) {
	w := newWorld(t)
	w.begin("demo1", 1, map[string]string{"p1": "full", "s1": "last"}, nil)
	a := w.byName["A1"]
	_, i1, _, _ := w.addMsg(a, leaf("probe", "p1", true, true, true, true, true))
	_, i2, _, _ := w.addMsg(a, leaf("spy", "s1", true, true, true, true, true))
	for _, k := range []string{"send", "bad"} {
		r := w.deliver(txSpec{Msgs: []txMsg{{A: "A1", Sel: i1, M: msgBody{K: k, T: nilNode()}}}, Ext: "ok", Fee: 1}, ident)
		fmt.Printf("message %q: accepted=%v (%s)\n  calls seen by the selected authenticator: %s\n", k, r.OK, r.Err, js(r.Calls))
	}
	r := w.deliver(txSpec{Msgs: []txMsg{{A: "A1", Sel: i2, M: msgBody{K: "send", T: nilNode()}}}, Ext: "ok", Fee: 1}, ident)
	c := testutils.SpyAuthenticator{KvStoreKey: w.key, Name: "s1"}.GetLatestCalls(w.Ctx)
	fmt.Printf("successful delivery (accepted=%v, not a simulation): the ConfirmExecution request has Simulate=%v\n", r.OK, c.ConfirmExecution.Simulate)
}

// TestFeeReplayDemo (finding X05-2): a transaction whose first message is authenticated and whose
// second is not leaves the fee charged and the sequence numbers unchanged, so the very same signed
// bytes are charged again on every delivery.
func TestFeeReplayDemo(t *testing.T) {
	w := newWorld(t)
	w.begin("demo2", 2, map[string]string{"p1": "full", "p2": "full"}, nil)
	_, i1, _, _ := w.addMsg(w.byName["A1"], leaf("probe", "p1", true, true, true, true, true))
	_, i2, _, _ := w.addMsg(w.byName["A2"], leaf("probe", "p2", false, true, true, true, true))
	ts := txSpec{Msgs: []txMsg{{A: "A1", Sel: i1, M: msgBody{K: "send", T: nilNode()}}, {A: "A2", Sel: i2, M: msgBody{K: "send", T: nilNode()}}}, Ext: "ok", Fee: 1}
	tx, err := w.build(ts, func(i int) uint64 { return uint64(i) })
	if err != nil {
		t.Fatal(err)
	}
	for k := 0; k < 3; k++ {
		_, _, err := w.App.BaseApp.SimDeliver(w.enc.TxConfig.TxEncoder(), tx)
		s := w.state()
		fmt.Printf("delivery %d of the same bytes: accepted=%v fee units charged to A1=%d sequence of A1=%d\n", k+1, err == nil, s.Fee["A1"], s.Seq["A1"])
	}
}
