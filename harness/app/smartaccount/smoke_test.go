package smartaccount

import (
	"encoding/json"
	"fmt"
	"testing"
	"time"
)

func js(v any) string { b, _ := json.Marshal(v); return string(b) }

func TestSmokeSA(t *testing.T) {
	w := newWorld(t)
	w.begin("smoke", 2, map[string]string{"p1": "full", "p2": "full", "s1": "last"}, []string{"A2"})
	a := w.byName["A1"]
	id := func(i int) uint64 { return uint64(i) }
	ok, i1, calls, err := w.addMsg(a, comp("any", leaf("probe", "p1", false, true, true, true, true), leaf("probe", "p2", true, true, false, true, true)))
	fmt.Println("add", ok, i1, js(calls), err)
	ok, i2, calls, err := w.addMsg(a, comp("all", leaf("spy", "s1", true, true, true, true, true), leaf("gen", "g", true, true, true, true, true)))
	fmt.Println("add", ok, i2, js(calls), err)
	fmt.Println(js(w.state()))
	t0 := time.Now()
	for _, k := range []string{"send", "bad"} {
		ts := txSpec{Msgs: []txMsg{{A: "A1", Sel: i1, M: msgBody{K: k, T: nilNode()}}}, Ext: "ok", Fee: 1}
		r := w.deliver(ts, id)
		fmt.Println(k, r.OK, r.Err, js(r.Calls))
		fmt.Println(js(w.state()))
	}
	ts := txSpec{Msgs: []txMsg{{A: "A1", Sel: i2, M: msgBody{K: "send", T: nilNode()}}}, Ext: "ok", Fee: 1}
	r := w.deliver(ts, id)
	fmt.Println("spy", r.OK, r.Err, js(r.Calls))
	ts = txSpec{Msgs: []txMsg{{A: "A1", Sel: i2, M: msgBody{K: "send", T: nilNode()}}}, Ext: "none", Fee: 1}
	r = w.deliver(ts, id)
	fmt.Println("classic", r.OK, r.Err, js(r.Calls))
	fmt.Println(js(w.state()))
	fmt.Println("4 tx", time.Since(t0))
	fmt.Println(w.reimport())
	w.nextBlock()
	fmt.Println(js(w.state()))
	f, tr, n := w.query(a, uint64(i1))
	fmt.Println(f, js(tr), n)
}

// TestFeeReplayDemo (observation, no stated property violated): a transaction whose first message is
// authenticated and whose second is not leaves the fee charged and the sequence numbers unchanged, so
// the very same signed bytes are accepted for charging again.
func TestFeeReplayDemo(t *testing.T) {
	w := newWorld(t)
	w.begin("feedemo", 2, map[string]string{"p1": "full", "p2": "full"}, nil)
	_, i1, _, _ := w.addMsg(w.byName["A1"], leaf("probe", "p1", true, true, true, true, true))
	_, i2, _, _ := w.addMsg(w.byName["A2"], leaf("probe", "p2", false, true, true, true, true))
	ts := txSpec{Msgs: []txMsg{{A: "A1", Sel: i1, M: msgBody{K: "send", T: nilNode()}}, {A: "A2", Sel: i2, M: msgBody{K: "send", T: nilNode()}}}, Ext: "ok", Fee: 1}
	tx, err := w.build(ts, func(i int) uint64 { return uint64(i) })
	if err != nil {
		t.Fatal(err)
	}
	for k := 0; k < 3; k++ {
		_, _, err := w.App.BaseApp.SimDeliver(w.enc.TxConfig.TxEncoder(), tx)
		s := w.state()
		fmt.Printf("delivery %d of the same bytes: accepted=%v fee units charged to A1=%d sequence of A1=%d\n", k+1, err == nil, s.Fee["A1"], s.Seq["A1"])
	}
}
