package smartaccount

import (
	"encoding/json"
	"fmt"
	"testing"
	"time"
)

func js(v any) string { b, _ := json.Marshal(v); return string(b) }

func TestSmokeSA(t *testing.T) {
	w := newWorld(t)
	w.begin("smoke", 2, map[string]string{"p1": "full", "p2": "full", "s1": "last"}, []string{"A2"})
	a := w.byName["A1"]
	id := func(i int) uint64 { return uint64(i) }
	ok, i1, calls, err := w.addMsg(a, comp("any", leaf("probe", "p1", false, true, true, true, true), leaf("probe", "p2", true, true, false, true, true)))
	fmt.Println("add", ok, i1, js(calls), err)
	ok, i2, calls, err := w.addMsg(a, comp("all", leaf("spy", "s1", true, true, true, true, true), leaf("gen", "g", true, true, true, true, true)))
	fmt.Println("add", ok, i2, js(calls), err)
	fmt.Println(js(w.state()))
	t0 := time.Now()
	for _, k := range []string{"send", "bad"} {
		ts := txSpec{Msgs: []txMsg{{A: "A1", Sel: i1, M: msgBody{K: k, T: nilNode()}}}, Ext: "ok", Fee: 1}
		r := w.deliver(ts, id)
		fmt.Println(k, r.OK, r.Err, js(r.Calls))
		fmt.Println(js(w.state()))
	}
	ts := txSpec{Msgs: []txMsg{{A: "A1", Sel: i2, M: msgBody{K: "send", T: nilNode()}}}, Ext: "ok", Fee: 1}
	r := w.deliver(ts, id)
	fmt.Println("spy", r.OK, r.Err, js(r.Calls))
	ts = txSpec{Msgs: []txMsg{{A: "A1", Sel: i2, M: msgBody{K: "send", T: nilNode()}}}, Ext: "none", Fee: 1}
	r = w.deliver(ts, id)
	fmt.Println("classic", r.OK, r.Err, js(r.Calls))
	fmt.Println(js(w.state()))
	fmt.Println("4 tx", time.Since(t0))
	fmt.Println(w.reimport())
	w.nextBlock()
	fmt.Println(js(w.state()))
	f, tr, n := w.query(a, uint64(i1))
	fmt.Println(f, js(tr), n)
}
