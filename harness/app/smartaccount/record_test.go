package smartaccount

import (
	"fmt"
	"math/rand"
	"os"
	"sort"
	"testing"

	"verif/harness/tracelog"
)

// ---------------------------------------------------------------------------
// TestRecord: seeded random histories through the real public API, one ndjson
// line per call (arguments, result, calls seen by the probe leaves, projected
// state after).

type gen struct {
	r       *rand.Rand
	w       *world
	probes  []string
	spies   []string
	removed []int
	maxId   int
}

func (g *gen) p(x float64) bool { return g.r.Float64() < x }
func (g *gen) pick(xs []string) string {
	return xs[g.r.Intn(len(xs))]
}

func (g *gen) leaf() Node {
	x := g.r.Float64()
	switch {
	case x < 0.60:
		return leaf("probe", g.pick(g.probes), g.p(0.8), g.p(0.93), g.p(0.8), g.p(0.95), g.p(0.9))
	case x < 0.85 && len(g.spies) > 0:
		return leaf("spy", g.pick(g.spies), g.p(0.8), true, g.p(0.8), true, true)
	default:
		return leaf("gen", "g", g.p(0.8), true, g.p(0.8), g.p(0.95), g.p(0.9))
	}
}

func (g *gen) tree(depth int) Node {
	if depth == 0 || g.p(0.38) {
		return g.leaf()
	}
	k := "all"
	if g.p(0.5) {
		k = "any"
	}
	n := 2
	if x := g.r.Float64(); x > 0.9 {
		n = 4
	} else if x > 0.6 {
		n = 3
	}
	c := comp(k)
	for i := 0; i < n; i++ {
		c.Ch = append(c.Ch, g.tree(depth-1))
	}
	return c
}

// spoil makes one node of the tree malformed.
func (g *gen) spoil(t Node) Node {
	if t.K == "leaf" || g.p(0.3) || len(t.Ch) == 0 {
		switch g.r.Intn(8) {
		case 0:
			return comp("all", g.leaf())
		case 1:
			return comp("any")
		case 2:
			return badNode("type")
		case 3:
			return badNode("json-all")
		case 4:
			return badNode("json-any")
		case 5:
			return badNode("object")
		case 6:
			return badNode("leafcfg")
		default:
			return badNode("noname")
		}
	}
	i := g.r.Intn(len(t.Ch))
	t.Ch = append([]Node{}, t.Ch...)
	t.Ch[i] = g.spoil(t.Ch[i])
	return t
}

func (g *gen) anyTree(pbad float64) Node {
	t := g.tree(1 + g.r.Intn(3))
	if g.p(pbad) {
		t = g.spoil(t)
	}
	return t
}

func (g *gen) acct() *acct { return g.w.accts[g.r.Intn(len(g.w.accts))] }

func (g *gen) ownIds(a *acct) []int {
	ids := []int{}
	for i := range g.w.ids(a) {
		ids = append(ids, i)
	}
	sort.Ints(ids)
	return ids
}

// someId: an id of the account's own list, of somebody else's, a removed one, or one never handed out
func (g *gen) someId(a *acct, pOwn float64) int {
	own := g.ownIds(a)
	if len(own) > 0 && g.p(pOwn) {
		return own[g.r.Intn(len(own))]
	}
	switch g.r.Intn(3) {
	case 0:
		var other []int
		for _, b := range g.w.accts {
			if b != a {
				other = append(other, g.ownIds(b)...)
			}
		}
		if len(other) > 0 {
			return other[g.r.Intn(len(other))]
		}
	case 1:
		if len(g.removed) > 0 {
			return g.removed[g.r.Intn(len(g.removed))]
		}
	}
	return g.maxId + 1 + g.r.Intn(5)
}

func (g *gen) note(ids ...int) {
	for _, i := range ids {
		if i > g.maxId {
			g.maxId = i
		}
	}
}

func (g *gen) tx() txSpec {
	n := 1
	if x := g.r.Float64(); x > 0.9 {
		n = 3
	} else if x > 0.6 {
		n = 2
	}
	ts := txSpec{Ext: "ok", Fee: 1 + g.r.Intn(3), Msgs: []txMsg{}}
	first := g.acct()
	pOwn := 0.9
	if n > 1 && g.p(0.5) {
		pOwn = 1
	}
	for i := 0; i < n; i++ {
		a := first
		if i > 0 && g.p(0.5) {
			a = g.acct()
		}
		m := txMsg{A: a.Name, Sel: g.someId(a, pOwn), M: msgBody{K: "send", T: nilNode()}}
		switch x := g.r.Float64(); {
		case x < 0.50:
		case x < 0.62:
			m.M.K = "bad"
		case x < 0.82:
			m.M.K = "add"
			m.M.T = g.anyTree(0.12)
		default:
			m.M.K = "rm"
			m.M.Id = g.someId(a, 0.8)
		}
		ts.Msgs = append(ts.Msgs, m)
	}
	if x := g.r.Float64(); x < 0.08 {
		ts.Ext = "none"
	} else if x < 0.14 {
		ts.Ext = "long"
	}
	if g.p(0.06) {
		ts.Stale = ts.Msgs[g.r.Intn(len(ts.Msgs))].A
	}
	return ts
}

func ident(i int) uint64 { return uint64(i) }

func TestRecord(t *testing.T) {
	out := tracelog.EnvStr("VERIF_OUT", "")
	if out == "" {
		t.Skip("VERIF_OUT not set")
	}
	seed := tracelog.EnvInt("VERIF_SEED", 1)
	nh := int(tracelog.EnvInt("VERIF_HISTORIES", 8))
	nops := int(tracelog.EnvInt("VERIF_OPS", 60))
	lw, err := tracelog.NewWriter(out)
	if err != nil {
		t.Fatal(err)
	}
	defer lw.Close()
	var w *world
	for h := 0; h < nh; h++ {
		r := rand.New(rand.NewSource(seed*1_000_003 + int64(h)))
		if h%6 == 0 {
			w = newWorld(t) // a fresh application (id counter at 1) every few histories, else the same one goes on
		}
		g := &gen{r: r, w: w}
		names := map[string]string{"g": "none"}
		for i := 1; i <= 2+r.Intn(3); i++ {
			n := fmt.Sprintf("p%d", i)
			g.probes = append(g.probes, n)
			names[n] = "full"
		}
		for i := 1; i <= r.Intn(3); i++ {
			n := fmt.Sprintf("s%d", i)
			g.spies = append(g.spies, n)
			names[n] = "last"
		}
		nAccts := 2 + r.Intn(2)
		ctrl := []string{}
		for i := 1; i <= nAccts; i++ {
			if r.Intn(3) == 0 {
				ctrl = append(ctrl, fmt.Sprintf("A%d", i))
			}
		}
		w.begin(fmt.Sprintf("r%d-%d", seed, h), nAccts, names, ctrl)
		accts := []string{}
		for _, a := range w.accts {
			accts = append(accts, a.Name)
		}
		lw.Emit(map[string]any{"e": "cfg", "accts": accts, "names": names, "ctrl": ctrl, "st": w.state()})
		for o := 0; o < nops; o++ {
			switch x := r.Float64(); {
			case x < 0.17 || (o < 2*nAccts && x < 0.85):
				a, tr := g.acct(), g.anyTree(0.2)
				if o < 2*nAccts {
					a = w.accts[o%nAccts] // every account starts with something to select
				}
				ok, id, calls, e := w.addMsg(a, tr)
				g.note(id)
				lw.Emit(map[string]any{"e": "add", "a": a.Name, "t": tr, "ok": ok, "id": id, "calls": calls, "err": e, "st": w.state()})
			case x < 0.25:
				a := g.acct()
				id := g.someId(a, 0.6)
				ok, calls, e := w.rmMsg(a, uint64(id))
				if ok {
					g.removed = append(g.removed, id)
				}
				lw.Emit(map[string]any{"e": "rm", "a": a.Name, "id": id, "ok": ok, "calls": calls, "err": e, "st": w.state()})
			case x < 0.31:
				by := "gov"
				if g.p(0.55) {
					by = g.acct().Name
				}
				on := g.p(0.5)
				if !w.state().Active && by == "gov" {
					on = g.p(0.85)
				}
				ok, e := w.actMsg(by, on)
				lw.Emit(map[string]any{"e": "act", "by": by, "on": on, "ok": ok, "err": e, "st": w.state()})
			case x < 0.39:
				a := g.acct()
				id := g.someId(a, 0.6)
				found, tr, cnt := w.query(a, uint64(id))
				lw.Emit(map[string]any{"e": "q", "a": a.Name, "id": id, "found": found, "t": tr, "cnt": cnt, "st": w.state()})
			case x < 0.42:
				res := w.reimport()
				lw.Emit(map[string]any{"e": "reimport", "ok": res.OK, "err": res.Err, "st": w.state()})
			case x < 0.46:
				w.nextBlock()
				lw.Emit(map[string]any{"e": "block", "st": w.state()})
			default:
				ts := g.tx()
				res := w.deliver(ts, ident)
				ids := newIds(ts, res)
				g.note(ids...)
				if res.OK {
					for _, m := range ts.Msgs {
						if m.M.K == "rm" {
							g.removed = append(g.removed, m.M.Id)
						}
					}
				}
				lw.Emit(map[string]any{"e": "tx", "msgs": ts.Msgs, "ext": ts.Ext, "stale": ts.Stale, "fee": ts.Fee,
					"ids": ids, "ok": res.OK, "calls": res.Calls, "err": res.Err, "st": w.state()})
			}
		}
	}
	fmt.Fprintf(os.Stderr, "recorded %d events of %d histories\n", lw.N, nh)
}
