// Package smartaccount binds the real x/smart-account module (message server,
// keeper, gRPC queries, genesis, and the ante / post handlers as they are wired
// into the application's baseapp) to spec/SmartAccount.tla (extra check X05).
//
// Transactions are real signed transactions delivered through baseapp's runTx in
// finalize mode (BaseApp.SimDeliver): ante handler chain -> message handlers ->
// post handler chain, with baseapp's own branching and commit rules.
package smartaccount

import (
	"encoding/json"
	"fmt"
	"sort"
	"strconv"
	"strings"
	"testing"
	"time"

	"cosmossdk.io/log"
	"cosmossdk.io/store/prefix"
	storetypes "cosmossdk.io/store/types"
	abci "github.com/cometbft/cometbft/abci/types"
	cmtproto "github.com/cometbft/cometbft/proto/tendermint/types"
	"github.com/cosmos/cosmos-sdk/baseapp"
	"github.com/cosmos/cosmos-sdk/codec"
	codectypes "github.com/cosmos/cosmos-sdk/codec/types"
	"github.com/cosmos/cosmos-sdk/crypto/keys/secp256k1"
	sdk "github.com/cosmos/cosmos-sdk/types"
	"github.com/cosmos/cosmos-sdk/types/tx/signing"
	authsigning "github.com/cosmos/cosmos-sdk/x/auth/signing"
	authtx "github.com/cosmos/cosmos-sdk/x/auth/tx"
	authtypes "github.com/cosmos/cosmos-sdk/x/auth/types"
	banktypes "github.com/cosmos/cosmos-sdk/x/bank/types"
	govtypes "github.com/cosmos/cosmos-sdk/x/gov/types"

	"github.com/osmosis-labs/osmosis/osmomath"
	"github.com/osmosis-labs/osmosis/v31/app"
	"github.com/osmosis-labs/osmosis/v31/app/params"
	"github.com/osmosis-labs/osmosis/v31/x/smart-account/authenticator"
	"github.com/osmosis-labs/osmosis/v31/x/smart-account/testutils"
	satypes "github.com/osmosis-labs/osmosis/v31/x/smart-account/types"
	txfeetypes "github.com/osmosis-labs/osmosis/v31/x/txfees/types"

	"verif/harness/apphelp"
)

// ---------------------------------------------------------------------------
// the probe leaf: an authenticator whose five verdicts come from its
// configuration, which writes a counter and the id it was called with into its
// own corner of the module store on every call (before answering, so that a
// refused call that leaks is visible), and which reports every call in memory.

type call struct {
	Ph string `json:"ph"`
	N  string `json:"n"`
	Id []int  `json:"id"`
}

var callLog []call

type probeCfg struct {
	N   string `json:"n"`
	A   bool   `json:"a"`
	T   bool   `json:"t"`
	C   bool   `json:"c"`
	Add bool   `json:"add"`
	Rm  bool   `json:"rm"`
}

type probeCell struct {
	N  int    `json:"n"`
	Id string `json:"id"`
}

const probeType = "VerifProbe"

type Probe struct {
	key storetypes.StoreKey
	cfg probeCfg
}

var _ authenticator.Authenticator = Probe{}

func (p Probe) Type() string      { return probeType }
func (p Probe) StaticGas() uint64 { return 0 }
func (p Probe) Initialize(config []byte) (authenticator.Authenticator, error) {
	var c probeCfg
	if err := json.Unmarshal(config, &c); err != nil {
		return nil, err
	}
	if c.N == "" {
		return nil, fmt.Errorf("probe without a name")
	}
	p.cfg = c
	return p, nil
}

func probeStore(ctx sdk.Context, key storetypes.StoreKey, name string) storetypes.KVStore {
	return prefix.NewStore(ctx.KVStore(key), []byte("verifprobe/"+name+"/"))
}

func readCell(ctx sdk.Context, key storetypes.StoreKey, name, kind string) probeCell {
	var c probeCell
	if bz := probeStore(ctx, key, name).Get([]byte(kind)); bz != nil {
		_ = json.Unmarshal(bz, &c)
	}
	return c
}

func (p Probe) note(ctx sdk.Context, kind, id string) {
	callLog = append(callLog, call{Ph: kind, N: p.cfg.N, Id: parseId(id)})
	c := readCell(ctx, p.key, p.cfg.N, kind)
	c.N++
	c.Id = id
	bz, _ := json.Marshal(c)
	probeStore(ctx, p.key, p.cfg.N).Set([]byte(kind), bz)
}

func verdict(ok bool, what string) error {
	if ok {
		return nil
	}
	return fmt.Errorf("probe says no to %s", what)
}

func (p Probe) Authenticate(ctx sdk.Context, r authenticator.AuthenticationRequest) error {
	p.note(ctx, "auth", r.AuthenticatorId)
	return verdict(p.cfg.A, "authenticate")
}
func (p Probe) Track(ctx sdk.Context, r authenticator.AuthenticationRequest) error {
	p.note(ctx, "track", r.AuthenticatorId)
	return verdict(p.cfg.T, "track")
}
func (p Probe) ConfirmExecution(ctx sdk.Context, r authenticator.AuthenticationRequest) error {
	p.note(ctx, "confirm", r.AuthenticatorId)
	return verdict(p.cfg.C, "confirm")
}
func (p Probe) OnAuthenticatorAdded(ctx sdk.Context, account sdk.AccAddress, config []byte, id string) error {
	q, err := p.Initialize(config)
	if err != nil {
		return err
	}
	q.(Probe).note(ctx, "added", id)
	return verdict(q.(Probe).cfg.Add, "add")
}
func (p Probe) OnAuthenticatorRemoved(ctx sdk.Context, account sdk.AccAddress, config []byte, id string) error {
	q, err := p.Initialize(config)
	if err != nil {
		return err
	}
	q.(Probe).note(ctx, "removed", id)
	return verdict(q.(Probe).cfg.Rm, "remove")
}

func parseId(s string) []int {
	res := []int{}
	if s == "" {
		return res
	}
	for _, p := range strings.Split(s, ".") {
		v, err := strconv.Atoi(p)
		if err != nil {
			return []int{-1}
		}
		res = append(res, v)
	}
	return res
}

// ---------------------------------------------------------------------------
// trees (wire format = the records of SmartAccount.tla)

type Node struct {
	K    string `json:"k"`
	N    string `json:"n"`
	Va   bool   `json:"va"`
	Vt   bool   `json:"vt"`
	Vc   bool   `json:"vc"`
	Oa   bool   `json:"oa"`
	Orm  bool   `json:"orm"`
	Ch   []Node `json:"ch"`
	Impl string `json:"impl"` // leaf: probe | spy | gen; malformed node: what is wrong with it
}

func leaf(impl, n string, va, vt, vc, oa, orm bool) Node {
	return Node{K: "leaf", N: n, Va: va, Vt: vt, Vc: vc, Oa: oa, Orm: orm, Ch: []Node{}, Impl: impl}
}
func comp(k string, ch ...Node) Node {
	if ch == nil {
		ch = []Node{}
	}
	return Node{K: k, Va: true, Vt: true, Vc: true, Oa: true, Orm: true, Ch: ch}
}
func badNode(why string) Node {
	return Node{K: "bad", Va: true, Vt: true, Vc: true, Oa: true, Orm: true, Ch: []Node{}, Impl: why}
}
func nilNode() Node {
	return Node{K: "nil", Va: true, Vt: true, Vc: true, Oa: true, Orm: true, Ch: []Node{}}
}

func (n *Node) fix() {
	if n.Ch == nil {
		n.Ch = []Node{}
	}
	for i := range n.Ch {
		n.Ch[i].fix()
	}
}

func genAuth(n Node) testutils.TestingAuthenticator {
	t := testutils.TestingAuthenticator{Approve: testutils.Always, Confirm: testutils.Always, BlockAddition: !n.Oa, BlockRemoval: !n.Orm}
	if !n.Va {
		t.Approve = testutils.Never
	}
	if !n.Vc {
		t.Confirm = testutils.Never
	}
	return t
}

// encode gives the (type, config) pair the module stores for a tree.
func encode(n Node) (string, []byte) {
	switch n.K {
	case "leaf":
		switch n.Impl {
		case "spy":
			var f testutils.FailureFlag
			if !n.Va {
				f |= testutils.AUTHENTICATE_FAIL
			}
			if !n.Vc {
				f |= testutils.CONFIRM_EXECUTION_FAIL
			}
			bz, _ := json.Marshal(testutils.SpyAuthenticatorData{Name: n.N, Failure: f})
			return "Spy", bz
		case "gen":
			return genAuth(n).Type(), []byte{}
		case "probe-garbage":
			return probeType, []byte("{not json")
		default:
			bz, _ := json.Marshal(probeCfg{N: n.N, A: n.Va, T: n.Vt, C: n.Vc, Add: n.Oa, Rm: n.Orm})
			return probeType, bz
		}
	case "all", "any":
		typ := map[string]string{"all": "AllOf", "any": "AnyOf"}[n.K]
		subs := []authenticator.SubAuthenticatorInitData{}
		for _, c := range n.Ch {
			t, cfg := encode(c)
			subs = append(subs, authenticator.SubAuthenticatorInitData{Type: t, Config: cfg})
		}
		bz, _ := json.Marshal(subs)
		return typ, bz
	default: // malformed
		switch n.Impl {
		case "json-all":
			return "AllOf", []byte("[{\"type\":")
		case "json-any":
			return "AnyOf", []byte("nonsense")
		case "object":
			return "AnyOf", []byte(`{"type":"AllOf","config":""}`)
		case "leafcfg":
			return probeType, []byte("{not json")
		case "noname":
			return probeType, []byte(`{"n":"","a":true,"t":true,"c":true,"add":true,"rm":true}`)
		default:
			return "NoSuchAuthenticator", []byte("{}")
		}
	}
}

var genTypes = map[string]Node{}

func init() {
	for i := 0; i < 16; i++ {
		n := leaf("gen", "g", i&1 == 0, true, i&2 == 0, i&4 == 0, i&8 == 0)
		genTypes[genAuth(n).Type()] = n
	}
}

// decode reads a stored (type, config) pair back into a tree.
func decode(typ string, cfg []byte) Node {
	switch typ {
	case probeType:
		var c probeCfg
		if err := json.Unmarshal(cfg, &c); err != nil {
			return badNode("stored-probe:" + err.Error())
		}
		return leaf("probe", c.N, c.A, c.T, c.C, c.Add, c.Rm)
	case "Spy":
		var d testutils.SpyAuthenticatorData
		if err := json.Unmarshal(cfg, &d); err != nil {
			return badNode("stored-spy:" + err.Error())
		}
		return leaf("spy", d.Name, !testutils.Has(d.Failure, testutils.AUTHENTICATE_FAIL), true,
			!testutils.Has(d.Failure, testutils.CONFIRM_EXECUTION_FAIL), true, true)
	case "AllOf", "AnyOf":
		var subs []authenticator.SubAuthenticatorInitData
		if err := json.Unmarshal(cfg, &subs); err != nil {
			return badNode("stored-composite:" + err.Error())
		}
		n := comp(map[string]string{"AllOf": "all", "AnyOf": "any"}[typ])
		for _, s := range subs {
			n.Ch = append(n.Ch, decode(s.Type, s.Config))
		}
		return n
	}
	if n, ok := genTypes[typ]; ok {
		return n
	}
	return badNode("stored-type:" + typ)
}

// ---------------------------------------------------------------------------
// the world

type acct struct {
	Name string
	Priv *secp256k1.PrivKey
	Addr sdk.AccAddress
	Sink sdk.AccAddress
	Seq0 uint64
}

type appModule interface {
	InitGenesis(ctx sdk.Context, cdc codec.JSONCodec, gs json.RawMessage)
	ExportGenesis(ctx sdk.Context, cdc codec.JSONCodec) json.RawMessage
}

const (
	feeUnit   = 1000
	stake0    = 1_000_000_000_000
	execDenom = "exec"
	gasLimit  = 20_000_000
)

type world struct {
	*apphelp.World
	enc    params.EncodingConfig
	key    storetypes.StoreKey
	mod    appModule
	spy    testutils.SpyAuthenticator
	base   string
	accts  []*acct
	byName map[string]*acct
	names  map[string]string // leaf store name -> "full" (probe) | "last" (spy) | "none"
	gov    sdk.AccAddress
	salt   string
	nAcct  int
	txs    int
}

func newWorld(t *testing.T) *world {
	txfeetypes.ConsensusMinFee = osmomath.ZeroDec()
	w := &world{World: apphelp.New(t), byName: map[string]*acct{}, names: map[string]string{}}
	w.Ctx = w.Ctx.WithLogger(log.NewNopLogger())
	w.enc = app.MakeEncodingConfig()
	w.key = w.App.GetKey(satypes.StoreKey)
	m, ok := w.App.ModuleManager().Modules[satypes.ModuleName].(appModule)
	if !ok {
		t.Fatalf("module %s lacks the genesis entry points", satypes.ModuleName)
	}
	w.mod = m
	w.base, _ = w.App.TxFeesKeeper.GetBaseDenom(w.Ctx)
	w.gov = w.App.AccountKeeper.GetModuleAddress(govtypes.ModuleName)
	am := w.App.AuthenticatorManager
	am.RegisterAuthenticator(Probe{key: w.key})
	w.spy = testutils.NewSpyAuthenticator(w.key)
	am.RegisterAuthenticator(w.spy)
	for _, n := range genTypes {
		am.RegisterAuthenticator(genAuth(n))
	}
	// start block 1 (begin / end blockers run, nothing is committed yet): the
	// transactions are then delivered into this block's state by runTx
	if _, err := w.App.FinalizeBlock(&abci.RequestFinalizeBlock{Height: w.Ctx.BlockHeight(), Time: w.Ctx.BlockTime()}); err != nil {
		t.Fatalf("FinalizeBlock: %v", err)
	}
	w.rectx(w.Ctx.BlockHeight(), w.Ctx.BlockTime())
	return w
}

func (w *world) rectx(h int64, tm time.Time) {
	w.Ctx = w.App.BaseApp.NewContextLegacy(false, cmtproto.Header{Height: h, ChainID: "osmosis-1", Time: tm}).WithLogger(log.NewNopLogger())
}

// nextBlock commits the block in progress and starts the next one.
func (w *world) nextBlock() {
	h, tm := w.Ctx.BlockHeight()+1, w.Ctx.BlockTime().Add(5*time.Second)
	// FinalizeBlock has already flushed the block state once (when it computed the working hash); what was
	// delivered into the block state since then is flushed here, then the block is committed
	w.Ctx.MultiStore().(storetypes.CacheMultiStore).Write()
	if _, err := w.App.Commit(); err != nil {
		panic(err)
	}
	if _, err := w.App.FinalizeBlock(&abci.RequestFinalizeBlock{Height: h, Time: tm}); err != nil {
		panic(err)
	}
	w.rectx(h, tm)
	w.txs = 0
}

// begin starts a history on this app: the module's registry and every leaf
// store are emptied, fresh accounts are created, the parameters are set.
func (w *world) begin(salt string, nAccts int, names map[string]string, ctrl []string) {
	w.salt = salt
	w.accts, w.byName, w.names = nil, map[string]*acct{}, names
	st := w.Ctx.KVStore(w.key)
	var keys [][]byte
	it := st.Iterator(nil, nil)
	for ; it.Valid(); it.Next() {
		k := it.Key()
		if string(k) == string(satypes.KeyNextAccountAuthenticatorId()) {
			continue // the id counter is the code's business: ids are inputs of the specification
		}
		keys = append(keys, append([]byte{}, k...))
	}
	it.Close()
	for _, k := range keys {
		st.Delete(k)
	}
	for i := 1; i <= nAccts; i++ {
		w.nAcct++
		priv := secp256k1.GenPrivKeyFromSecret([]byte(fmt.Sprintf("verif-x05-%s-%d-%d", salt, i, w.nAcct)))
		a := &acct{Name: fmt.Sprintf("A%d", i), Priv: priv, Addr: sdk.AccAddress(priv.PubKey().Address())}
		h := sdk.AccAddress(append([]byte("sink-"), a.Addr[:15]...))
		a.Sink = h
		w.FundAcc(a.Addr, sdk.NewCoins(sdk.NewInt64Coin(w.base, stake0), sdk.NewInt64Coin(execDenom, 1_000_000)))
		a.Seq0, _ = w.App.AccountKeeper.GetSequence(w.Ctx, a.Addr)
		w.accts = append(w.accts, a)
		w.byName[a.Name] = a
	}
	p := w.App.SmartAccountKeeper.GetParams(w.Ctx)
	p.IsSmartAccountActive = true
	p.MaximumUnauthenticatedGas = 1_000_000_000 // gas budgets are out of scope: never the reason of a refusal here
	p.CircuitBreakerControllers = []string{}
	for _, c := range ctrl {
		p.CircuitBreakerControllers = append(p.CircuitBreakerControllers, w.byName[c].Addr.String())
	}
	w.App.SmartAccountKeeper.SetParams(w.Ctx, p)
}

// ---------------------------------------------------------------------------
// projection of the real state onto the variables of the specification

type entry struct {
	Id int  `json:"id"`
	T  Node `json:"t"`
}
type leafSt struct {
	Na  int   `json:"na"`
	Nt  int   `json:"nt"`
	Nc  int   `json:"nc"`
	Nad int   `json:"nad"`
	Nrm int   `json:"nrm"`
	Lt  []int `json:"lt"`
	Lc  []int `json:"lc"`
	Lad []int `json:"lad"`
	Lrm []int `json:"lrm"`
}
type state struct {
	Active bool               `json:"active"`
	Reg    map[string][]entry `json:"reg"`
	Ls     map[string]leafSt  `json:"ls"`
	Seq    map[string]int     `json:"seq"`
	Sent   map[string]int     `json:"sent"`
	Fee    map[string]int     `json:"fee"`
}

func (w *world) entries(ctx sdk.Context, a *acct) []entry {
	res := []entry{}
	data, err := w.App.SmartAccountKeeper.GetAuthenticatorDataForAccount(ctx, a.Addr)
	if err != nil {
		panic("GetAuthenticatorDataForAccount: " + err.Error())
	}
	for _, d := range data {
		res = append(res, entry{Id: int(d.Id), T: decode(d.Type, d.Config)})
	}
	sort.Slice(res, func(i, j int) bool { return res[i].Id < res[j].Id })
	return res
}

func (w *world) state() state {
	s := state{Reg: map[string][]entry{}, Ls: map[string]leafSt{}, Seq: map[string]int{}, Sent: map[string]int{}, Fee: map[string]int{}}
	out := w.Peek(func(ctx sdk.Context) error {
		k := w.App.SmartAccountKeeper
		s.Active = k.GetIsSmartAccountActive(ctx)
		for _, a := range w.accts {
			s.Reg[a.Name] = w.entries(ctx, a)
			sq, _ := w.App.AccountKeeper.GetSequence(ctx, a.Addr)
			s.Seq[a.Name] = int(sq - a.Seq0)
			s.Sent[a.Name] = int(w.App.BankKeeper.GetBalance(ctx, a.Sink, execDenom).Amount.Int64())
			paid := stake0 - w.App.BankKeeper.GetBalance(ctx, a.Addr, w.base).Amount.Int64()
			if paid%feeUnit != 0 {
				s.Fee[a.Name] = -1
			} else {
				s.Fee[a.Name] = int(paid / feeUnit)
			}
		}
		for n, kind := range w.names {
			var l leafSt
			switch kind {
			case "full":
				au, tr, co, ad, rm := readCell(ctx, w.key, n, "auth"), readCell(ctx, w.key, n, "track"), readCell(ctx, w.key, n, "confirm"),
					readCell(ctx, w.key, n, "added"), readCell(ctx, w.key, n, "removed")
				l = leafSt{Na: au.N, Nt: tr.N, Nc: co.N, Nad: ad.N, Nrm: rm.N, Lt: parseId(tr.Id), Lc: parseId(co.Id), Lad: parseId(ad.Id), Lrm: parseId(rm.Id)}
			case "last":
				spy := testutils.SpyAuthenticator{KvStoreKey: w.key, Name: n}
				c := spy.GetLatestCalls(ctx)
				l = leafSt{Lt: parseId(c.Track.AuthenticatorId), Lc: parseId(c.ConfirmExecution.AuthenticatorId),
					Lad: parseId(c.OnAuthenticatorAdded.AuthenticatorId), Lrm: parseId(c.OnAuthenticatorRemoved.AuthenticatorId)}
				if c.Authenticate.AuthenticatorId != "" {
					l.Na = 1
				}
			default:
				l = leafSt{Lt: []int{}, Lc: []int{}, Lad: []int{}, Lrm: []int{}}
			}
			s.Ls[n] = l
		}
		return nil
	})
	if !out.OK {
		panic("projection failed: " + out.Err)
	}
	return s
}

// ---------------------------------------------------------------------------
// entry points

func takeCalls() []call {
	c := callLog
	callLog = nil
	if c == nil {
		c = []call{}
	}
	return c
}

func (w *world) ids(a *acct) map[int]bool {
	m := map[int]bool{}
	for _, e := range w.entries(w.Ctx, a) {
		m[e.Id] = true
	}
	return m
}

// addMsg: MsgAddAuthenticator through the registered message handler.
func (w *world) addMsg(a *acct, t Node) (ok bool, id int, calls []call, err string) {
	before := w.ids(a)
	typ, cfg := encode(t)
	takeCalls()
	_, out := w.Msg(&satypes.MsgAddAuthenticator{Sender: a.Addr.String(), AuthenticatorType: typ, Data: cfg})
	calls = takeCalls()
	if out.OK {
		for i := range w.ids(a) {
			if !before[i] {
				id = i
			}
		}
	}
	return out.OK, id, calls, out.Err
}

func (w *world) rmMsg(a *acct, id uint64) (bool, []call, string) {
	takeCalls()
	_, out := w.Msg(&satypes.MsgRemoveAuthenticator{Sender: a.Addr.String(), Id: id})
	return out.OK, takeCalls(), out.Err
}

func (w *world) actMsg(by string, on bool) (bool, string) {
	sender := w.gov
	if by != "gov" {
		sender = w.byName[by].Addr
	}
	_, out := w.Msg(&satypes.MsgSetActiveState{Sender: sender.String(), Active: on})
	return out.OK, out.Err
}

// reimport: ExportGenesis of the module, registry emptied, InitGenesis of the export.
func (w *world) reimport() apphelp.Outcome {
	out := w.Try(func(ctx sdk.Context) error {
		gs := w.mod.ExportGenesis(ctx, w.App.AppCodec())
		st := ctx.KVStore(w.key)
		var keys [][]byte
		for _, pre := range [][]byte{satypes.KeyAccountAuthenticatorsPrefixId(), satypes.KeyNextAccountAuthenticatorId()} {
			it := storetypes.KVStorePrefixIterator(st, pre)
			for ; it.Valid(); it.Next() {
				keys = append(keys, append([]byte{}, it.Key()...))
			}
			it.Close()
		}
		for _, k := range keys {
			st.Delete(k)
		}
		w.mod.InitGenesis(ctx, w.App.AppCodec(), gs)
		return nil
	})
	takeCalls()
	return out
}

// query: the registered gRPC query service.
func (w *world) query(a *acct, id uint64) (found bool, t Node, count int) {
	qh := &baseapp.QueryServiceTestHelper{GRPCQueryRouter: w.App.GRPCQueryRouter(), Ctx: w.Ctx}
	qc := satypes.NewQueryClient(qh)
	all, err := qc.GetAuthenticators(w.Ctx, &satypes.GetAuthenticatorsRequest{Account: a.Addr.String()})
	if err != nil {
		panic("GetAuthenticators: " + err.Error())
	}
	one, err := qc.GetAuthenticator(w.Ctx, &satypes.GetAuthenticatorRequest{Account: a.Addr.String(), AuthenticatorId: id})
	if err != nil || one.AccountAuthenticator == nil {
		return false, nilNode(), len(all.AccountAuthenticators)
	}
	d := one.AccountAuthenticator
	if d.Id != id {
		return true, badNode(fmt.Sprintf("query returned id %d for %d", d.Id, id)), len(all.AccountAuthenticators)
	}
	return true, decode(d.Type, d.Config), len(all.AccountAuthenticators)
}

// --- transactions

type msgBody struct {
	K  string `json:"k"` // send | bad | add | rm
	T  Node   `json:"t"`
	Id int    `json:"id"`
}
type txMsg struct {
	A   string  `json:"a"`
	Sel int     `json:"sel"`
	M   msgBody `json:"m"`
}
type txSpec struct {
	Msgs  []txMsg `json:"msgs"`
	Ext   string  `json:"ext"`   // ok | none | long
	Stale string  `json:"stale"` // account whose signature carries another sequence number, or ""
	Fee   int     `json:"fee"`
}

func (w *world) sdkMsg(m txMsg, real func(int) uint64) sdk.Msg {
	a := w.byName[m.A]
	switch m.M.K {
	case "send":
		return &banktypes.MsgSend{FromAddress: a.Addr.String(), ToAddress: a.Sink.String(), Amount: sdk.NewCoins(sdk.NewInt64Coin(execDenom, 1))}
	case "bad":
		return &banktypes.MsgSend{FromAddress: a.Addr.String(), ToAddress: a.Sink.String(), Amount: sdk.NewCoins(sdk.NewInt64Coin(execDenom, 1_000_000_000_000))}
	case "add":
		typ, cfg := encode(m.M.T)
		return &satypes.MsgAddAuthenticator{Sender: a.Addr.String(), AuthenticatorType: typ, Data: cfg}
	case "rm":
		return &satypes.MsgRemoveAuthenticator{Sender: a.Addr.String(), Id: real(m.M.Id)}
	}
	panic("unknown message kind " + m.M.K)
}

// build signs the transaction with every signer's own key (so that the classic
// flow accepts it whenever the sequence numbers are right).
func (w *world) build(ts txSpec, real func(int) uint64) (sdk.Tx, error) {
	var msgs []sdk.Msg
	var signers []*acct
	seen := map[string]bool{}
	for _, m := range ts.Msgs {
		msgs = append(msgs, w.sdkMsg(m, real))
		if !seen[m.A] {
			seen[m.A] = true
			signers = append(signers, w.byName[m.A])
		}
	}
	gen := w.enc.TxConfig
	signMode, err := authsigning.APISignModeToInternal(gen.SignModeHandler().DefaultMode())
	if err != nil {
		return nil, err
	}
	b, ok := gen.NewTxBuilder().(authtx.ExtensionOptionsTxBuilder)
	if !ok {
		return nil, fmt.Errorf("tx builder without extension options")
	}
	if ts.Ext != "none" {
		sel := []uint64{}
		for _, m := range ts.Msgs {
			sel = append(sel, real(m.Sel))
		}
		if ts.Ext == "long" {
			sel = append(sel, sel[0])
		}
		v, err := codectypes.NewAnyWithValue(&satypes.TxExtension{SelectedAuthenticators: sel})
		if err != nil {
			return nil, err
		}
		b.SetNonCriticalExtensionOptions(v)
	}
	if err := b.SetMsgs(msgs...); err != nil {
		return nil, err
	}
	b.SetMemo(fmt.Sprintf("x05-%s-%d", w.salt, w.txs))
	b.SetFeeAmount(sdk.NewCoins(sdk.NewInt64Coin(w.base, int64(ts.Fee)*feeUnit)))
	b.SetGasLimit(gasLimit)
	sigs := make([]signing.SignatureV2, len(signers))
	nums := make([]uint64, len(signers))
	for i, s := range signers {
		acc := w.App.AccountKeeper.GetAccount(w.Ctx, s.Addr)
		nums[i] = acc.GetAccountNumber()
		sq := acc.GetSequence()
		if ts.Stale == s.Name {
			sq += 3
		}
		sigs[i] = signing.SignatureV2{PubKey: s.Priv.PubKey(), Data: &signing.SingleSignatureData{SignMode: signMode}, Sequence: sq}
	}
	if err := b.SetSignatures(sigs...); err != nil {
		return nil, err
	}
	for i, s := range signers {
		sd := authsigning.SignerData{Address: s.Addr.String(), ChainID: w.Ctx.ChainID(), AccountNumber: nums[i], Sequence: sigs[i].Sequence, PubKey: s.Priv.PubKey()}
		bz, err := authsigning.GetSignBytesAdapter(w.Ctx, gen.SignModeHandler(), signMode, sd, b.GetTx())
		if err != nil {
			return nil, err
		}
		sig, err := s.Priv.Sign(bz)
		if err != nil {
			return nil, err
		}
		sigs[i].Data.(*signing.SingleSignatureData).Signature = sig
		if err := b.SetSignatures(sigs...); err != nil {
			return nil, err
		}
	}
	return b.GetTx(), nil
}

type txResult struct {
	OK    bool
	Err   string
	Calls []call
	New   map[string][]int // per account: ids that appeared in its list
	Given []int            // ids announced by the events of the add messages, in order
}

// deliver runs the transaction through baseapp.runTx in finalize mode.
func (w *world) deliver(ts txSpec, real func(int) uint64) txResult {
	if w.txs >= 12 {
		w.nextBlock()
	}
	w.txs++
	before := map[string]map[int]bool{}
	for _, a := range w.accts {
		before[a.Name] = w.ids(a)
	}
	tx, err := w.build(ts, real)
	if err != nil {
		panic("cannot build transaction: " + err.Error())
	}
	takeCalls()
	res := txResult{New: map[string][]int{}}
	func() {
		defer func() {
			if r := recover(); r != nil {
				res.OK, res.Err = false, fmt.Sprint("panic: ", r)
			}
		}()
		_, r, err := w.App.BaseApp.SimDeliver(w.enc.TxConfig.TxEncoder(), tx)
		res.OK = err == nil
		if err != nil {
			res.Err = err.Error()
		} else if r != nil {
			for _, ev := range r.Events {
				for _, at := range ev.Attributes {
					if ev.Type == sdk.EventTypeMessage && at.Key == satypes.AttributeKeyAuthenticatorId {
						if v, e := strconv.Atoi(at.Value); e == nil {
							res.Given = append(res.Given, v)
						}
					}
				}
			}
		}
	}()
	res.Calls = takeCalls()
	for _, a := range w.accts {
		for i := range w.ids(a) {
			if !before[a.Name][i] {
				res.New[a.Name] = append(res.New[a.Name], i)
			}
		}
		sort.Ints(res.New[a.Name])
	}
	return res
}

// newIds lists the ids the add messages of a successful transaction received, in message order: as
// announced by the events of the message server (an id can be removed again by a later message of the
// same transaction), else as they appeared in the lists.
func newIds(ts txSpec, r txResult) []int {
	ids := []int{}
	if !r.OK {
		return ids
	}
	nAdd := 0
	for _, m := range ts.Msgs {
		if m.M.K == "add" {
			nAdd++
		}
	}
	if len(r.Given) == nAdd {
		return append(ids, r.Given...)
	}
	next := map[string]int{}
	for _, m := range ts.Msgs {
		if m.M.K == "add" {
			l := r.New[m.A]
			if next[m.A] < len(l) {
				ids = append(ids, l[next[m.A]])
			} else {
				ids = append(ids, -1)
			}
			next[m.A]++
		}
	}
	return ids
}

var _ = authtypes.ModuleName
