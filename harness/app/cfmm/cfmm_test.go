// Recorder binding the real pool-model mathematics of x/gamm/pool-models
// (balancer: amm.go, pool.go; stableswap: amm.go, pool.go; internal/cfmm_common/lp.go;
// osmomath Pow and the binary-search solvers) to spec/Cfmm.tla (C04).
//
// Every history is one in-memory pool object (balancer.Pool or stableswap.Pool built by
// the repository's own constructors) driven through its public methods exactly as the
// gamm keeper drives it: each call runs on a copy of the pool under recover and the copy
// replaces the pool only when the call succeeded (the keeper persists a pool only on
// success).  Every line is what the method answered and the reserves / total shares
// afterwards; nothing is judged here.  Amounts are logged in the BigNum wire form,
// fees as the raw 18-decimal integers of osmomath.Dec.
//
// History kinds (field "tag" of the cfg line): plain random operation sequences, and
// short cycles on one pool (swap there and back, join then exit, single-asset join then
// exit + swap back, shares-out join then tokens-out exit ...).
package cfmm

import (
	"encoding/json"
	"fmt"
	"math/big"
	"math/rand"
	"os"
	"strings"
	"testing"
	"time"

	storetypes "cosmossdk.io/store/types"
	sdk "github.com/cosmos/cosmos-sdk/types"

	"github.com/osmosis-labs/osmosis/osmomath"
	"github.com/osmosis-labs/osmosis/v31/x/gamm/pool-models/balancer"
	"github.com/osmosis-labs/osmosis/v31/x/gamm/pool-models/stableswap"
	gammtypes "github.com/osmosis-labs/osmosis/v31/x/gamm/types"

	"verif/harness/tracelog"
)

type Big = tracelog.Big

func enc(i *big.Int) Big         { return tracelog.EncBig(i) }
func encI(x osmomath.Int) Big    { return tracelog.EncBig(x.BigInt()) }
func encD(x osmomath.Dec) Big    { return tracelog.EncBig(x.BigInt()) }
func newCtx() sdk.Context        { return sdk.Context{}.WithGasMeter(storetypes.NewInfiniteGasMeter()) }
func denom(k int) string         { return fmt.Sprintf("asset%d", k) } // k = 1..8, sorted by k
func coin(k int, a *big.Int) sdk.Coin {
	return sdk.Coin{Denom: denom(k), Amount: osmomath.NewIntFromBigInt(a)}
}

var zeroBig = big.NewInt(0)

// pool is the common face of the two pool models.
type pool interface {
	gammtypes.CFMMPoolI
}

type world struct {
	kind string // "bal" | "stab"
	n    int
	w    []int64  // user weights (balancer), 1s otherwise
	sf   []uint64 // scaling factors (stableswap), 1s otherwise
	f    osmomath.Dec
	x    osmomath.Dec
	bal  *balancer.Pool
	stab *stableswap.Pool
}

func (w *world) cur() pool {
	if w.kind == "bal" {
		return w.bal
	}
	return w.stab
}

func (w *world) reserves() []*big.Int {
	liq := w.cur().GetTotalPoolLiquidity(sdk.Context{})
	res := make([]*big.Int, w.n)
	for k := 1; k <= w.n; k++ {
		res[k-1] = liq.AmountOf(denom(k)).BigInt()
	}
	return res
}

func (w *world) shares() *big.Int { return w.cur().GetTotalShares().BigInt() }

func (w *world) clone() *world {
	c := *w
	if w.kind == "bal" {
		p := *w.bal
		p.PoolAssets = make([]balancer.PoolAsset, len(w.bal.PoolAssets))
		copy(p.PoolAssets, w.bal.PoolAssets)
		c.bal = &p
	} else {
		p := w.stab.Copy()
		c.stab = &p
	}
	return &c
}

// one logged operation
type opEv struct {
	E    string `json:"e"`
	Op   string `json:"op"`
	I    int    `json:"i"`
	O    int    `json:"o"`
	Amt  Big    `json:"amt"`
	Amts []Big  `json:"amts"`
	F    Big    `json:"f"`
	X    Big    `json:"x"`
	OK   bool   `json:"ok"`
	Err  string `json:"err"`
	Res  Big    `json:"res"`
	B    []Big  `json:"B"`
	S    Big    `json:"S"`
}

type recorder struct {
	tw     *tracelog.Writer
	counts map[string]int
}

func (r *recorder) count(k string) { r.counts[k]++ }

// errHarness: a refusal the harness makes in the keeper's place (the pool itself answered)
type errHarness string

func (e errHarness) Error() string { return string(e) }

func encList(xs []*big.Int) []Big {
	res := make([]Big, len(xs))
	for i, x := range xs {
		res[i] = enc(x)
	}
	return res
}

func (r *recorder) cfg(w *world, tag string) {
	ws := make([]int64, w.n)
	sfs := make([]int64, w.n)
	for i := 0; i < w.n; i++ {
		ws[i], sfs[i] = w.w[i], int64(w.sf[i])
	}
	r.tw.Emit(map[string]any{"e": "cfg", "kind": w.kind, "n": w.n, "w": ws, "sf": sfs, "f": encD(w.f), "x": encD(w.x),
		"B": encList(w.reserves()), "S": enc(w.shares()), "tag": tag})
	r.count("hist:" + w.kind + ":" + tag)
	r.count("histories")
}

// do runs one operation on a copy of the pool under recover; the copy replaces the pool
// only on success.  Returns the answer (0 on failure) and whether it succeeded.
func (r *recorder) do(w *world, op string, i, o int, amt *big.Int, amts []*big.Int, f, x osmomath.Dec) (*big.Int, bool) {
	c := w.clone()
	res, err := call(c, op, i, o, amt, amts, f, x)
	ev := opEv{E: "op", Op: op, I: i, O: o, Amt: enc(amt), Amts: encList(amts), F: encD(f), X: encD(x), OK: err == nil, Res: enc(zeroBig)}
	if err == nil {
		ev.Res = enc(res)
		w.bal, w.stab = c.bal, c.stab
	} else {
		ev.Err = err.Error()
		if len(ev.Err) > 160 {
			ev.Err = ev.Err[:160]
		}
		res = new(big.Int)
	}
	ev.B, ev.S = encList(w.reserves()), enc(w.shares())
	if _, own := err.(errHarness); err != nil && !own && !strings.HasPrefix(err.Error(), "panic:") && (op == "swapIn" || op == "swapOut") {
		// a SWAP the pool refused by returning an error: the state of the pool object the call ran on (a refused
		// swap must not leave a partial update behind: later operations on the same object would be priced
		// against it).  Not judged: refusals the harness makes in the keeper's place after the pool answered
		// (zero shares), panics (the object is abandoned, as baseapp abandons the transaction) and refused joins /
		// exits (the current stableswap JoinPool leaves its object touched when it refuses, and the keeper never
		// saves such an object: demanding more there is not part of C04).
		func() {
			defer func() { _ = recover() }()
			ev.B, ev.S = encList(c.reserves()), enc(c.shares())
		}()
	}
	r.tw.Emit(ev)
	key := "op:" + w.kind + ":" + op + ":"
	if err == nil {
		r.count(key + "ok")
	} else {
		r.count(key + "fail")
		if strings.HasPrefix(ev.Err, "panic:") {
			r.count(key + "panic")
		}
	}
	return res, err == nil
}

func call(w *world, op string, i, o int, amt *big.Int, amts []*big.Int, f, x osmomath.Dec) (res *big.Int, err error) {
	defer func() {
		if rec := recover(); rec != nil {
			res, err = nil, fmt.Errorf("panic: %v", rec)
		}
	}()
	ctx := newCtx()
	p := w.cur()
	switch op {
	case "swapIn": // exact amount in
		out, e := p.SwapOutAmtGivenIn(ctx, sdk.Coins{coin(i, amt)}, denom(o), f)
		if e != nil {
			return nil, e
		}
		return out.Amount.BigInt(), nil
	case "swapOut": // exact amount out
		in, e := p.SwapInAmtGivenOut(ctx, sdk.Coins{coin(o, amt)}, denom(i), f)
		if e != nil {
			return nil, e
		}
		return in.Amount.BigInt(), nil
	case "joinOne": // single-asset join, exact tokens in -> shares
		sh, e := p.JoinPool(ctx, sdk.Coins{coin(i, amt)}, f)
		if e != nil {
			return nil, e
		}
		if !sh.IsPositive() { // the keeper refuses non-positive share amounts
			return nil, errHarness("share amount is zero or negative")
		}
		return sh.BigInt(), nil
	case "joinShares": // single-asset join, exact shares out -> tokens in (keeper: Calc + IncreaseLiquidity)
		ext, ok := p.(gammtypes.PoolAmountOutExtension)
		if !ok {
			return nil, errHarness("pool does not support this kind of join")
		}
		shares := osmomath.NewIntFromBigInt(amt)
		tin, e := ext.CalcTokenInShareAmountOut(ctx, denom(i), shares, f)
		if e != nil {
			return nil, e
		}
		ext.IncreaseLiquidity(shares, sdk.NewCoins(sdk.NewCoin(denom(i), tin)))
		return tin.BigInt(), nil
	case "exitOne": // single-asset exit, exact tokens out -> shares in (pool's own fees)
		ext, ok := p.(gammtypes.PoolAmountOutExtension)
		if !ok {
			return nil, errHarness("pool does not support this kind of exit")
		}
		max := osmomath.NewIntFromBigInt(new(big.Int).Lsh(big.NewInt(1), 250))
		sh, e := ext.ExitSwapExactAmountOut(ctx, coin(o, amt), max)
		if e != nil {
			return nil, e
		}
		return sh.BigInt(), nil
	case "joinAll", "joinNoSwap":
		cs := sdk.Coins{}
		for k, a := range amts {
			cs = append(cs, coin(k+1, a))
		}
		var sh osmomath.Int
		var e error
		if op == "joinAll" {
			sh, e = p.JoinPool(ctx, cs, f)
		} else {
			sh, e = p.JoinPoolNoSwap(ctx, cs, f)
		}
		if e != nil {
			return nil, e
		}
		if !sh.IsPositive() {
			return nil, errHarness("share amount is zero or negative")
		}
		return sh.BigInt(), nil
	case "exit":
		_, e := p.ExitPool(ctx, osmomath.NewIntFromBigInt(amt), x)
		if e != nil {
			return nil, e
		}
		return new(big.Int), nil
	}
	return nil, fmt.Errorf("unknown op %s", op)
}

// ---------------------------------------------------------------------------
// random inputs

func pow10(k int) *big.Int { return new(big.Int).Exp(big.NewInt(10), big.NewInt(int64(k)), nil) }

// a random integer with about `digits` decimal digits (>= 1)
func randDigits(rng *rand.Rand, digits int) *big.Int {
	if digits <= 1 {
		return big.NewInt(int64(1 + rng.Intn(9)))
	}
	x := new(big.Int).Rand(rng, pow10(digits))
	lo := pow10(digits - 1)
	if x.Cmp(lo) < 0 {
		x.Add(x, lo)
	}
	return x
}

func mulFrac(b *big.Int, num, den int64) *big.Int {
	x := new(big.Int).Mul(b, big.NewInt(num))
	return x.Quo(x, big.NewInt(den))
}

// an amount relative to a reserve b: from one unit up to and beyond the solver's domain
func relAmt(rng *rand.Rand, b *big.Int, big_ bool) *big.Int {
	var a *big.Int
	switch r := rng.Intn(20); {
	case r < 2:
		a = big.NewInt(1)
	case r < 4:
		a = big.NewInt(int64(2 + rng.Intn(20)))
	case r < 8: // tiny fraction
		a = new(big.Int).Quo(b, pow10(1+rng.Intn(14)))
	case r < 15: // 0.1% .. 100%
		a = mulFrac(b, int64(1+rng.Intn(1000)), 1000)
	case r < 17: // close to the domain limits: about one half / all of the reserve
		a = mulFrac(b, int64(480+rng.Intn(60)), 1000)
		if rng.Intn(3) == 0 {
			a = new(big.Int).Sub(b, big.NewInt(int64(rng.Intn(3))))
		}
	default:
		if big_ { // several multiples of the reserve
			a = mulFrac(b, int64(1000+rng.Intn(100000)), 1000)
			if rng.Intn(4) == 0 {
				a.Mul(a, pow10(1+rng.Intn(5)))
			}
		} else {
			a = mulFrac(b, int64(1+rng.Intn(700)), 1000)
		}
	}
	if a.Sign() <= 0 {
		a = big.NewInt(1)
	}
	return a
}

var feeChoices = []string{"0", "0", "0", "0.000000000000000001", "0.0001", "0.002", "0.003", "0.01", "0.05", "0.1", "0.5", "0.95", "0.003141592653589793"}

func randFee(rng *rand.Rand) osmomath.Dec {
	return osmomath.MustNewDecFromStr(feeChoices[rng.Intn(len(feeChoices))])
}

func randExitFee(rng *rand.Rand) osmomath.Dec {
	switch rng.Intn(10) {
	case 0:
		return osmomath.MustNewDecFromStr("0.01")
	case 1:
		return osmomath.MustNewDecFromStr("0.25")
	}
	return osmomath.ZeroDec()
}

func randWeights(rng *rand.Rand, n int) []int64 {
	w := make([]int64, n)
	switch r := rng.Intn(10); {
	case r < 3: // equal weights
		v := int64(1 + rng.Intn(4))
		for i := range w {
			w[i] = v
		}
	case r < 7: // small weights
		for i := range w {
			w[i] = int64(1 + rng.Intn(4))
		}
	case r < 9:
		for i := range w {
			w[i] = int64(1 + rng.Intn(8))
		}
	default: // anything up to 64
		for i := range w {
			w[i] = int64(1 + rng.Intn(64))
		}
	}
	return w
}

func randN(rng *rand.Rand) int {
	switch r := rng.Intn(10); {
	case r < 5:
		return 2
	case r < 7:
		return 3
	case r < 8:
		return 4
	}
	return 2 + rng.Intn(7)
}

// reserve vector: magnitudes 1 .. 10^30, balanced or strongly unbalanced
func randReserves(rng *rand.Rand, n int, maxDigits int) []*big.Int {
	res := make([]*big.Int, n)
	base := 1 + rng.Intn(maxDigits)
	style := rng.Intn(4)
	for i := range res {
		d := base
		switch style {
		case 0: // same magnitude
		case 1: // within a few orders
			d = base + rng.Intn(7) - 3
		default: // independent magnitudes
			d = 1 + rng.Intn(maxDigits)
		}
		if d < 1 {
			d = 1
		}
		if d > maxDigits {
			d = maxDigits
		}
		res[i] = randDigits(rng, d)
		if rng.Intn(8) == 0 {
			res[i] = pow10(d - 1) // round numbers
		}
	}
	return res
}

func newBalancer(rng *rand.Rand) *world {
	n := randN(rng)
	w := &world{kind: "bal", n: n, w: randWeights(rng, n), sf: make([]uint64, n), f: randFee(rng), x: randExitFee(rng)}
	b := randReserves(rng, n, 31)
	assets := make([]balancer.PoolAsset, n)
	for i := 0; i < n; i++ {
		w.sf[i] = 1
		assets[i] = balancer.PoolAsset{Weight: osmomath.NewInt(w.w[i]), Token: coin(i+1, b[i])}
	}
	p, err := balancer.NewBalancerPool(1, balancer.PoolParams{SwapFee: w.f, ExitFee: w.x}, assets, "", time.Unix(1, 0))
	if err != nil {
		panic(err)
	}
	w.bal = &p
	return w
}

func randScaling(rng *rand.Rand, n int) []uint64 {
	sf := make([]uint64, n)
	style := rng.Intn(4)
	for i := range sf {
		switch style {
		case 0:
			sf[i] = 1
		case 1:
			sf[i] = uint64(1 + rng.Intn(10))
		case 2:
			sf[i] = uint64(pow10(rng.Intn(7)).Int64())
		default:
			sf[i] = uint64(1 + rng.Intn(1000000))
		}
	}
	return sf
}

func newStableswap(rng *rand.Rand) *world {
	n := randN(rng)
	if n > 4 && rng.Intn(2) == 0 {
		n = 2 + rng.Intn(3)
	}
	w := &world{kind: "stab", n: n, w: make([]int64, n), sf: randScaling(rng, n), f: randFee(rng), x: randExitFee(rng)}
	// scaled reserves 1 .. 10^30 (the model bounds them by 10^34), mostly of comparable size
	maxd := 31
	if rng.Intn(3) > 0 {
		maxd = 1 + rng.Intn(24)
	}
	sc := randReserves(rng, n, maxd)
	liq := sdk.Coins{}
	for i := 0; i < n; i++ {
		w.w[i] = 1
		b := new(big.Int).Mul(sc[i], new(big.Int).SetUint64(w.sf[i]))
		if rng.Intn(2) == 0 { // not a multiple of the scaling factor
			b.Add(b, new(big.Int).Rand(rng, new(big.Int).SetUint64(w.sf[i])))
		}
		liq = append(liq, coin(i+1, b))
	}
	p, err := stableswap.NewStableswapPool(1, stableswap.PoolParams{SwapFee: w.f, ExitFee: w.x}, liq, w.sf, "", "")
	if err != nil {
		panic(err)
	}
	w.stab = &p
	return w
}

func two(rng *rand.Rand, n int) (int, int) {
	i := 1 + rng.Intn(n)
	o := 1 + rng.Intn(n-1)
	if o >= i {
		o++
	}
	return i, o
}

// the spread factor handed to a call: the pool's own, now and then another one (routes may discount it)
func (w *world) callFee(rng *rand.Rand) osmomath.Dec {
	if rng.Intn(8) == 0 {
		return randFee(rng)
	}
	return w.f
}

func joinAmounts(rng *rand.Rand, b []*big.Int) []*big.Int {
	amts := make([]*big.Int, len(b))
	style := rng.Intn(3)
	num := int64(1 + rng.Intn(2000))
	for k := range b {
		switch style {
		case 0: // proportional (up to rounding)
			amts[k] = mulFrac(b[k], num, 1000)
		case 1: // nearly proportional
			amts[k] = mulFrac(b[k], num+int64(rng.Intn(20)), 1000)
		default:
			amts[k] = relAmt(rng, b[k], false)
		}
		if amts[k].Sign() <= 0 {
			amts[k] = big.NewInt(1)
		}
	}
	return amts
}

// one random operation
func (r *recorder) randomOp(rng *rand.Rand, w *world, minted *big.Int) {
	b, s := w.reserves(), w.shares()
	i, o := two(rng, w.n)
	zero := osmomath.ZeroDec()
	kinds := []string{"swapIn", "swapIn", "swapOut", "swapOut", "joinOne", "joinAll", "joinNoSwap", "exit"}
	if w.kind == "bal" {
		kinds = append(kinds, "joinShares", "exitOne", "joinOne")
	}
	switch op := kinds[rng.Intn(len(kinds))]; op {
	case "swapIn":
		r.do(w, op, i, o, relAmt(rng, b[i-1], true), nil, w.callFee(rng), zero)
	case "swapOut":
		r.do(w, op, i, o, relAmt(rng, b[o-1], false), nil, w.callFee(rng), zero)
	case "joinOne":
		sh, ok := r.do(w, op, i, 0, relAmt(rng, b[i-1], rng.Intn(3) == 0), nil, w.callFee(rng), zero)
		if ok {
			minted.Add(minted, sh)
		}
	case "joinShares":
		_, ok := r.do(w, op, i, 0, relAmt(rng, s, false), nil, w.callFee(rng), zero)
		_ = ok
	case "exitOne":
		r.do(w, op, 0, o, relAmt(rng, b[o-1], false), nil, w.f, w.x)
	case "joinAll", "joinNoSwap":
		r.do(w, op, 0, 0, zeroBig, joinAmounts(rng, b), w.callFee(rng), zero)
	case "exit":
		x := w.x
		if rng.Intn(6) == 0 {
			x = randExitFee(rng)
		}
		var a *big.Int
		switch rng.Intn(6) {
		case 0: // all but a few shares: leaves a pool with very few shares
			a = new(big.Int).Sub(s, big.NewInt(int64(1+rng.Intn(40))))
		case 1:
			a = new(big.Int).Sub(s, big.NewInt(int64(rng.Intn(2)))) // everything / one less
		default:
			a = relAmt(rng, s, false)
		}
		if a.Sign() <= 0 {
			a = big.NewInt(1)
		}
		r.do(w, op, 0, 0, a, nil, zero, x)
	}
}

// cycles: an actor goes round on one pool
func (r *recorder) cycle(rng *rand.Rand, w *world, kind string) {
	b, s := w.reserves(), w.shares()
	i, o := two(rng, w.n)
	zero := osmomath.ZeroDec()
	f := w.f
	if rng.Intn(3) == 0 {
		f = zero
	}
	switch kind {
	case "swap-there-and-back":
		got, ok := r.do(w, "swapIn", i, o, relAmt(rng, b[i-1], rng.Intn(4) == 0), nil, f, zero)
		if ok {
			r.do(w, "swapIn", o, i, got, nil, f, zero)
		}
	case "swapout-there-and-back": // buy an exact amount, sell it again
		want := relAmt(rng, b[o-1], false)
		_, ok := r.do(w, "swapOut", i, o, want, nil, f, zero)
		if ok {
			r.do(w, "swapIn", o, i, want, nil, f, zero)
		}
	case "swap-split": // the same amount in two halves
		a := relAmt(rng, b[i-1], false)
		h := new(big.Int).Quo(a, big.NewInt(2))
		if h.Sign() > 0 {
			r.do(w, "swapIn", i, o, h, nil, f, zero)
			r.do(w, "swapIn", i, o, new(big.Int).Sub(a, h), nil, f, zero)
		}
	case "join-exit": // all-asset join, then exit the minted shares
		op := "joinAll"
		if rng.Intn(2) == 0 {
			op = "joinNoSwap"
		}
		sh, ok := r.do(w, op, 0, 0, zeroBig, joinAmounts(rng, b), f, zero)
		if ok {
			r.do(w, "exit", 0, 0, sh, nil, zero, zero)
		}
	case "joinone-exit-swapback": // single-asset join, exit, swap everything back (the keeper's ExitSwapShareAmountIn)
		sh, ok := r.do(w, "joinOne", i, 0, relAmt(rng, b[i-1], false), nil, f, zero)
		if ok {
			before := w.reserves()
			_, ok = r.do(w, "exit", 0, 0, sh, nil, zero, zero)
			if ok {
				after := w.reserves()
				for k := 1; k <= w.n; k++ {
					got := new(big.Int).Sub(before[k-1], after[k-1])
					if k != i && got.Sign() > 0 {
						r.do(w, "swapIn", k, i, got, nil, f, zero)
					}
				}
			}
		}
	case "joinone-twice-exit-swapback": // two single-asset joins, one exit of both, swap everything back
		total := new(big.Int)
		okAll := true
		for k := 0; k < 2 && okAll; k++ {
			sh, ok := r.do(w, "joinOne", i, 0, relAmt(rng, w.reserves()[i-1], false), nil, f, zero)
			okAll = ok
			total.Add(total, sh)
		}
		if okAll {
			before := w.reserves()
			if _, ok := r.do(w, "exit", 0, 0, total, nil, zero, zero); ok {
				after := w.reserves()
				for k := 1; k <= w.n; k++ {
					got := new(big.Int).Sub(before[k-1], after[k-1])
					if k != i && got.Sign() > 0 {
						r.do(w, "swapIn", k, i, got, nil, f, zero)
					}
				}
			}
		}
	case "joinone-exitone": // balancer: single-asset join, then take the same tokens out again
		a := relAmt(rng, b[i-1], false)
		_, ok := r.do(w, "joinOne", i, 0, a, nil, w.f, zero)
		if ok {
			r.do(w, "exitOne", 0, i, mulFrac(a, int64(900+rng.Intn(101)), 1000), nil, w.f, w.x)
		}
	case "joinshares-exit": // balancer: exact shares out, then exit them
		sh := relAmt(rng, s, false)
		_, ok := r.do(w, "joinShares", i, 0, sh, nil, w.f, zero)
		if ok {
			r.do(w, "exit", 0, 0, sh, nil, zero, zero)
		}
	case "exitone-joinone": // balancer: an LP takes tokens out of one asset and puts them straight back
		a := relAmt(rng, b[o-1], false)
		_, ok := r.do(w, "exitOne", 0, o, a, nil, w.f, w.x)
		if ok {
			r.do(w, "joinOne", o, 0, a, nil, w.f, zero)
		}
	}
}

var cyclesBal = []string{"swap-there-and-back", "swapout-there-and-back", "swap-split", "join-exit", "joinone-exit-swapback",
	"joinone-twice-exit-swapback", "joinone-exitone", "joinshares-exit", "exitone-joinone"}
var cyclesStab = []string{"swap-there-and-back", "swapout-there-and-back", "swap-split", "join-exit", "joinone-exit-swapback",
	"joinone-exit-swapback", "joinone-twice-exit-swapback"}

func TestRecord(t *testing.T) {
	out := os.Getenv("VERIF_OUT")
	if out == "" {
		t.Skip("VERIF_OUT not set")
	}
	seed := tracelog.EnvInt("VERIF_SEED", 1)
	nh := int(tracelog.EnvInt("VERIF_HISTORIES", 40))
	nops := int(tracelog.EnvInt("VERIF_OPS", 8))
	rng := rand.New(rand.NewSource(seed*7919 + 17))
	tw, err := tracelog.NewWriter(out)
	if err != nil {
		t.Fatal(err)
	}
	r := &recorder{tw: tw, counts: map[string]int{}}
	for h := 0; h < nh; h++ {
		var w *world
		if h%5 < 3 {
			w = newBalancer(rng)
		} else {
			w = newStableswap(rng)
		}
		if h%2 == 0 {
			r.cfg(w, "plain")
			minted := new(big.Int)
			for k := 0; k < nops; k++ {
				r.randomOp(rng, w, minted)
			}
			continue
		}
		// cycles: an optional warm-up operation, then the cycle, each cycle is its own history on the same pool object
		if rng.Intn(3) == 0 {
			r.cfg(w, "warmup")
			r.randomOp(rng, w, new(big.Int))
		}
		cs := cyclesBal
		if w.kind == "stab" {
			cs = cyclesStab
		}
		for k := 0; k < 3; k++ {
			kind := cs[rng.Intn(len(cs))]
			c := w.clone()
			r.cfg(c, kind)
			r.cycle(rng, c, kind)
		}
	}
	if err := tw.Close(); err != nil {
		t.Fatal(err)
	}
	r.counts["lines"] = tw.N
	bz, _ := json.Marshal(r.counts)
	if err := os.WriteFile(out+".stats.json", bz, 0o644); err != nil {
		t.Fatal(err)
	}
}
