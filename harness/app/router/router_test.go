// Recorder / replayer for C05 (router: multi-hop = composition, estimates =
// execution, limits hold).
//
// A history builds 4-6 pools (balancer with 2-4 assets, stableswap,
// concentrated) over 5 denoms so that routes of 1-4 hops exist, then mixes
// arbitrary activity (joins, exits, CL position changes, taker-fee and
// whitelist changes, time) with routed swaps: MsgSwapExactAmountIn/Out and
// MsgSplitRouteSwapExactAmountIn/Out.
//
// Pool swap functions are OBSERVED, never re-implemented: before a routed
// message is delivered the same hops are executed one at a time on discarded
// branches through the single-pool entry points (poolmanager
// SwapExactAmountIn with minimum 1; a one-hop RouteExactAmountOut), and every
// such execution is logged as an observation
//
//	(pool, tok, kind, din, dout, x) -> (ok, y; sender debit, taker fee, sender credit)
//
// where tok is the list of pool-level swaps already applied to that pool on
// that branch (the pool's "state token" relative to the pre-state of the
// event), x the exact amount handed to the pool (input after taker fee /
// output) and y what the pool answered.  TLC (spec/trace/TraceRouter.tla)
// instantiates the uninterpreted pool functions of spec/Router.tla by lookup
// in that table and recomputes the routed result, the split sum, the
// estimates and the limit verdict from it.
package router

import (
	"crypto/sha256"
	"encoding/binary"
	"encoding/hex"
	"encoding/json"
	"fmt"
	stdbig "math/big"
	"math/rand"
	"os"
	"sort"
	"testing"
	"time"

	sdk "github.com/cosmos/cosmos-sdk/types"
	banktestutil "github.com/cosmos/cosmos-sdk/x/bank/testutil"

	"github.com/osmosis-labs/osmosis/osmomath"
	cltypes "github.com/osmosis-labs/osmosis/v31/x/concentrated-liquidity/types"
	"github.com/osmosis-labs/osmosis/v31/x/gamm/pool-models/balancer"
	"github.com/osmosis-labs/osmosis/v31/x/gamm/pool-models/stableswap"
	gammtypes "github.com/osmosis-labs/osmosis/v31/x/gamm/types"
	"github.com/osmosis-labs/osmosis/v31/x/poolmanager"
	pmclient "github.com/osmosis-labs/osmosis/v31/x/poolmanager/client"
	"github.com/osmosis-labs/osmosis/v31/x/poolmanager/client/queryproto"
	pmtypes "github.com/osmosis-labs/osmosis/v31/x/poolmanager/types"
	txfeestypes "github.com/osmosis-labs/osmosis/v31/x/txfees/types"

	"verif/harness/apphelp"
	"verif/harness/tracelog"
)

type big = tracelog.Big

var allDenoms = []string{"atom", "dai", "eth", "uosmo", "usdc"}

// stores whose whole content makes up the state digest
var digestStores = []string{"bank", "gamm", "poolmanager", "concentratedliquidity", "params"}

type hopT struct {
	Pool uint64 `json:"pool"`
	Din  string `json:"din"`
	Dout string `json:"dout"`
}

type legT struct {
	Route []hopT `json:"route"`
	Amt   big    `json:"amt"`
	amt   osmomath.Int
}

type opKey struct {
	K    string `json:"k"`
	Din  string `json:"din"`
	Dout string `json:"dout"`
	X    big    `json:"x"`
}

// one execution of a single-pool entry point on a branch
type obsT struct {
	Pool uint64  `json:"pool"`
	Tok  []opKey `json:"tok"`
	K    string  `json:"k"` // "in": exact amount in, "out": exact amount out
	Din  string  `json:"din"`
	Dout string  `json:"dout"`
	X    big     `json:"x"`    // the question: input handed to the pool (after taker fee) / requested output
	OK   bool    `json:"ok"`   // the single-pool entry point succeeded
	Y    big     `json:"y"`    // the pool's answer: output / input taken (before taker fee)
	Gin  big     `json:"gin"`  // debited from the sender (bank)
	Fee  big     `json:"fee"`  // credited to the taker fee collector (bank)
	Gout big     `json:"gout"` // credited to the sender (bank)
	Free bool    `json:"free"` // the executing account is on the reduced-fee whitelist
	Ret  big     `json:"ret"`  // amount returned by the entry point
	Err  string  `json:"err"`
}

type overT struct {
	Din  string `json:"din"`
	Dout string `json:"dout"`
	F    big    `json:"f"`
}

type stT struct {
	Dg   string  `json:"dg"`
	Bal  [][]big `json:"bal"`  // per user per allDenoms
	Coll []big   `json:"coll"` // taker fee collector per allDenoms
	Def  big     `json:"def"`  // default taker fee (raw 10^18)
	Over []overT `json:"over"` // per-pair overrides as stored
	Wl   []bool  `json:"wl"`   // per user: on the reduced-fee whitelist
}

type poolInfo struct {
	ID     uint64   `json:"id"`
	Type   string   `json:"type"`
	Denoms []string `json:"denoms"`
}

type world struct {
	*apphelp.World
	rng   *rand.Rand
	users []sdk.AccAddress // 0,1 traders; 2 liquidity provider; 3 nominal twin (never whitelisted, acts on discarded branches only)
	pools []poolInfo
	q     pmclient.Querier
	pm    *poolmanager.Keeper
	coll  sdk.AccAddress
	nObs  int
}

const (
	uLP   = 2
	uTwin = 3
)

func trunc(s string) string {
	if len(s) > 160 {
		return s[:160]
	}
	return s
}

func pow10(k int) osmomath.Int {
	return osmomath.NewIntFromBigInt(new(stdbig.Int).Exp(stdbig.NewInt(10), stdbig.NewInt(int64(k)), nil))
}

var hugeMax = pow10(70)

func bigI(x osmomath.Int) big {
	if x.IsNil() {
		return tracelog.EncInt64(0)
	}
	return apphelp.BigI(x)
}

// ---------------------------------------------------------------------------
// projection

func (w *world) digest(ctx sdk.Context) string {
	h := sha256.New()
	var n [8]byte
	for _, name := range digestStores {
		st := ctx.KVStore(w.App.GetKey(name))
		it := st.Iterator(nil, nil)
		h.Write([]byte(name))
		for ; it.Valid(); it.Next() {
			binary.BigEndian.PutUint64(n[:], uint64(len(it.Key())))
			h.Write(n[:])
			h.Write(it.Key())
			binary.BigEndian.PutUint64(n[:], uint64(len(it.Value())))
			h.Write(n[:])
			h.Write(it.Value())
		}
		it.Close()
	}
	return hex.EncodeToString(h.Sum(nil)[:12])
}

func (w *world) whitelist(ctx sdk.Context) []string {
	return w.pm.GetParams(ctx).TakerFeeParams.ReducedFeeWhitelist
}

func (w *world) isFree(ctx sdk.Context, a sdk.AccAddress) bool {
	for _, s := range w.whitelist(ctx) {
		if s == a.String() {
			return true
		}
	}
	return false
}

func (w *world) snapshot(ctx sdk.Context) stT {
	st := stT{Dg: w.digest(ctx), Bal: [][]big{}, Coll: []big{}, Over: []overT{}, Wl: []bool{}}
	for _, u := range w.users {
		row := []big{}
		for _, d := range allDenoms {
			row = append(row, bigI(w.App.BankKeeper.GetBalance(ctx, u, d).Amount))
		}
		st.Bal = append(st.Bal, row)
		st.Wl = append(st.Wl, w.isFree(ctx, u))
	}
	for _, d := range allDenoms {
		st.Coll = append(st.Coll, bigI(w.App.BankKeeper.GetBalance(ctx, w.coll, d).Amount))
	}
	st.Def = apphelp.BigD(w.pm.GetDefaultTakerFee(ctx))
	all, err := w.pm.GetAllTradingPairTakerFees(ctx)
	if err != nil {
		panic(err)
	}
	for _, o := range all {
		st.Over = append(st.Over, overT{Din: o.TokenInDenom, Dout: o.TokenOutDenom, F: apphelp.BigD(o.TakerFee)})
	}
	sort.Slice(st.Over, func(i, j int) bool {
		if st.Over[i].Din != st.Over[j].Din {
			return st.Over[i].Din < st.Over[j].Din
		}
		return st.Over[i].Dout < st.Over[j].Dout
	})
	return st
}

// ---------------------------------------------------------------------------
// branches and single-pool observations

type branch struct {
	ctx  sdk.Context
	toks map[uint64][]opKey
}

func (w *world) root() *branch {
	cc, _ := w.Ctx.CacheContext()
	return &branch{ctx: cc, toks: map[uint64][]opKey{}}
}

func (b *branch) fork() *branch {
	cc, _ := b.ctx.CacheContext()
	t := map[uint64][]opKey{}
	for k, v := range b.toks {
		t[k] = append([]opKey{}, v...)
	}
	return &branch{ctx: cc, toks: t}
}

func (b *branch) tok(p uint64) []opKey { return append([]opKey{}, b.toks[p]...) }

type recorder struct {
	obs []obsT
}

func (w *world) bal(ctx sdk.Context, a sdk.AccAddress, d string) osmomath.Int {
	return w.App.BankKeeper.GetBalance(ctx, a, d).Amount
}

// observe executes one single-pool swap on branch b (kept on success, dropped on failure).
func (w *world) observe(rec *recorder, b *branch, who sdk.AccAddress, h hopT, kind string, amt, lim osmomath.Int) obsT {
	o := obsT{Pool: h.Pool, Tok: b.tok(h.Pool), K: kind, Din: h.Din, Dout: h.Dout, Free: w.isFree(b.ctx, who)}
	zero := tracelog.EncInt64(0)
	o.X, o.Y, o.Gin, o.Fee, o.Gout, o.Ret = zero, zero, zero, zero, zero, zero
	cc, write := b.ctx.CacheContext()
	in0, out0, c0 := w.bal(cc, who, h.Din), w.bal(cc, who, h.Dout), w.bal(cc, w.coll, h.Din)
	var ret osmomath.Int
	var err error
	func() {
		defer func() {
			if r := recover(); r != nil {
				err = fmt.Errorf("panic: %v", r)
			}
		}()
		if kind == "in" {
			ret, _, err = w.pm.SwapExactAmountIn(cc, who, h.Pool, sdk.NewCoin(h.Din, amt), h.Dout, lim)
		} else {
			ret, err = w.pm.RouteExactAmountOut(cc, who, []pmtypes.SwapAmountOutRoute{{PoolId: h.Pool, TokenInDenom: h.Din}}, lim, sdk.NewCoin(h.Dout, amt))
		}
	}()
	if err != nil {
		o.OK, o.Err = false, trunc(err.Error())
		if kind == "in" {
			// the key the composition will ask for: input after the sender's taker fee
			x := amt
			if !o.Free {
				f, ferr := w.pm.GetTradingPairTakerFee(b.ctx, h.Din, h.Dout)
				if ferr == nil {
					c, _ := poolmanager.CalcTakerFeeExactIn(sdk.NewCoin(h.Din, amt), f)
					x = c.Amount
				}
			}
			o.X = bigI(x)
		} else {
			o.X = bigI(amt)
		}
	} else {
		gin := in0.Sub(w.bal(cc, who, h.Din))
		gout := w.bal(cc, who, h.Dout).Sub(out0)
		fee := w.bal(cc, w.coll, h.Din).Sub(c0)
		o.OK, o.Gin, o.Fee, o.Gout, o.Ret = true, bigI(gin), bigI(fee), bigI(gout), bigI(ret)
		if kind == "in" {
			// question: what the pool was handed (a concentrated pool may consume less); answer: what came out
			o.X, o.Y = bigI(amt.Sub(fee)), bigI(gout)
		} else {
			// question: the requested output (a concentrated pool may deliver less); answer: what the pool took
			o.X, o.Y = bigI(amt), bigI(gin.Sub(fee))
		}
		write()
		b.toks[h.Pool] = append(b.toks[h.Pool], opKey{K: kind, Din: h.Din, Dout: h.Dout, X: o.X})
	}
	rec.obs = append(rec.obs, o)
	w.nObs++
	return o
}

// chainIn: the hops of one exact-in leg, one after another on b.
func (w *world) chainIn(rec *recorder, b *branch, who sdk.AccAddress, leg legT, lastMin osmomath.Int) (bool, osmomath.Int) {
	a := leg.amt
	for i, h := range leg.Route {
		min := osmomath.OneInt()
		if i == len(leg.Route)-1 {
			min = lastMin
		}
		o := w.observe(rec, b, who, h, "in", a, min)
		if !o.OK {
			return false, osmomath.ZeroInt()
		}
		a = osmomath.NewIntFromBigInt(tracelog.DecBig(o.Gout))
	}
	return true, a
}

// chainOut: one exact-out leg.  Required inputs are pre-computed backwards on the state of b
// (every hop on its own discarded sub-branch), then the hops are executed forwards on b.
// nominalPre: pre-compute with the sender-agnostic single-pool estimate query (what the
// router does) instead of with the sender's own single-pool swaps.
func (w *world) chainOut(rec *recorder, b *branch, who sdk.AccAddress, leg legT, nominalPre bool) (ok bool, first osmomath.Int, poolFirst osmomath.Int) {
	n := len(leg.Route)
	req := make([]osmomath.Int, n) // req[i]: what hop i must be given (incl. taker fee) = what hop i-1 must deliver
	want := leg.amt
	for i := n - 1; i >= 0; i-- {
		h := leg.Route[i]
		// a question put to the pool: the asking account is topped up on the discarded sub-branch so that
		// its balance cannot be the reason for a refusal (in the forward execution below the sender
		// holds what the previous hop delivered, exactly as in the routed message)
		fb := b.fork()
		if err := banktestutil.FundAccount(fb.ctx, w.App.BankKeeper, who, sdk.NewCoins(sdk.NewCoin(h.Din, pow10(72)))); err != nil {
			panic(err)
		}
		o := w.observe(rec, fb, who, h, "out", want, hugeMax)
		if !o.OK {
			return false, osmomath.ZeroInt(), osmomath.ZeroInt()
		}
		req[i] = osmomath.NewIntFromBigInt(tracelog.DecBig(o.Gin))
		if nominalPre {
			fb := b.fork()
			res, err := w.estimate(func() (osmomath.Int, error) {
				r, err := w.q.EstimateSinglePoolSwapExactAmountOut(fb.ctx, queryproto.EstimateSinglePoolSwapExactAmountOutRequest{
					PoolId: h.Pool, TokenInDenom: h.Din, TokenOut: sdk.NewCoin(h.Dout, want).String()})
				if err != nil {
					return osmomath.Int{}, err
				}
				return r.TokenInAmount, nil
			})
			if err != nil {
				return false, osmomath.ZeroInt(), osmomath.ZeroInt()
			}
			req[i] = res
		}
		want = req[i]
	}
	for i, h := range leg.Route {
		out := leg.amt
		if i < n-1 {
			out = req[i+1]
		}
		o := w.observe(rec, b, who, h, "out", out, hugeMax)
		if !o.OK {
			return false, osmomath.ZeroInt(), osmomath.ZeroInt()
		}
		y := osmomath.NewIntFromBigInt(tracelog.DecBig(o.Y))
		if i > 0 && y.GT(req[i]) { // per-hop maximum of the router
			return false, osmomath.ZeroInt(), osmomath.ZeroInt()
		}
		if i == 0 {
			first = osmomath.NewIntFromBigInt(tracelog.DecBig(o.Gin))
			poolFirst = y
		}
	}
	return true, first, poolFirst
}

func (w *world) estimate(f func() (osmomath.Int, error)) (res osmomath.Int, err error) {
	defer func() {
		if r := recover(); r != nil {
			err = fmt.Errorf("panic: %v", r)
		}
	}()
	return f()
}

type compT struct {
	OK    bool   `json:"ok"`
	Dg    string `json:"dg"`
	Amt   big    `json:"amt"`
	total osmomath.Int
	pool1 osmomath.Int
}

// compose executes the whole routed operation hop by hop on one discarded branch.
func (w *world) compose(rec *recorder, kind string, who sdk.AccAddress, legs []legT, nominalPre bool) compT {
	b := w.root()
	total := osmomath.ZeroInt()
	pool1 := osmomath.ZeroInt()
	split := kind == "splitIn" || kind == "splitOut"
	for _, leg := range legs {
		var ok bool
		var r osmomath.Int
		if kind == "swapIn" || kind == "splitIn" {
			lastMin := osmomath.OneInt()
			if split {
				lastMin = osmomath.ZeroInt()
			}
			ok, r = w.chainIn(rec, b, who, leg, lastMin)
		} else {
			ok, r, pool1 = w.chainOut(rec, b, who, leg, nominalPre)
		}
		if !ok {
			return compT{OK: false, Dg: "", Amt: tracelog.EncInt64(0), total: osmomath.ZeroInt(), pool1: osmomath.ZeroInt()}
		}
		total = total.Add(r)
	}
	return compT{OK: true, Dg: w.digest(b.ctx), Amt: bigI(total), total: total, pool1: pool1}
}

// ---------------------------------------------------------------------------
// routed operations

type estT struct {
	Q   string `json:"q"`
	OK  bool   `json:"ok"`
	Amt big    `json:"amt"`
	Err string `json:"err"`
}

type event struct {
	E        string `json:"e"`
	Op       string `json:"op"`
	Name     string `json:"name"`
	Who      int    `json:"who"` // 1-based
	Legs     []legT `json:"legs"`
	Lim      big    `json:"lim"`
	Distinct bool   `json:"distinct"`
	Obs      []obsT `json:"obs"`
	Comp     compT  `json:"comp"`
	Comp2    compT  `json:"comp2"` // exact-out with the router's sender-agnostic pre-computation (only when it differs)
	Has2     bool   `json:"has2"`
	Est      []estT `json:"est"`
	EstDg    string `json:"estDg"`
	PreDg    string `json:"preDg"`
	OK       bool   `json:"ok"`
	Err      string `json:"err"`
	Amt      big    `json:"amt"`
	St       stT    `json:"st"`
	Off      int    `json:"off"`
	limit    osmomath.Int
}

func distinctPools(legs []legT) bool {
	seen := map[uint64]bool{}
	for _, l := range legs {
		for _, h := range l.Route {
			if seen[h.Pool] {
				return false
			}
			seen[h.Pool] = true
		}
	}
	return true
}

func inRoutes(r []hopT) []pmtypes.SwapAmountInRoute {
	res := []pmtypes.SwapAmountInRoute{}
	for _, h := range r {
		res = append(res, pmtypes.SwapAmountInRoute{PoolId: h.Pool, TokenOutDenom: h.Dout})
	}
	return res
}

func outRoutes(r []hopT) []pmtypes.SwapAmountOutRoute {
	res := []pmtypes.SwapAmountOutRoute{}
	for _, h := range r {
		res = append(res, pmtypes.SwapAmountOutRoute{PoolId: h.Pool, TokenInDenom: h.Din})
	}
	return res
}

func (w *world) estimates(kind string, leg legT) ([]estT, string) {
	b := w.root()
	res := []estT{}
	add := func(q string, f func() (osmomath.Int, error)) {
		v, err := w.estimate(f)
		e := estT{Q: q, OK: err == nil, Amt: tracelog.EncInt64(0)}
		if err != nil {
			e.Err = trunc(err.Error())
		} else {
			e.Amt = bigI(v)
		}
		res = append(res, e)
	}
	r := leg.Route
	n := len(r)
	ids := []uint64{}
	douts, dins := []string{}, []string{}
	for _, h := range r {
		ids = append(ids, h.Pool)
		douts = append(douts, h.Dout)
		dins = append(dins, h.Din)
	}
	if kind == "swapIn" {
		tin := sdk.NewCoin(r[0].Din, leg.amt).String()
		add("in", func() (osmomath.Int, error) {
			x, err := w.q.EstimateSwapExactAmountIn(b.ctx, queryproto.EstimateSwapExactAmountInRequest{TokenIn: tin, Routes: inRoutes(r)})
			if err != nil {
				return osmomath.Int{}, err
			}
			return x.TokenOutAmount, nil
		})
		add("inPrim", func() (osmomath.Int, error) {
			x, err := w.q.EstimateSwapExactAmountInWithPrimitiveTypes(b.ctx, queryproto.EstimateSwapExactAmountInWithPrimitiveTypesRequest{
				TokenIn: tin, RoutesPoolId: ids, RoutesTokenOutDenom: douts})
			if err != nil {
				return osmomath.Int{}, err
			}
			return x.TokenOutAmount, nil
		})
		if n == 1 {
			add("inSingle", func() (osmomath.Int, error) {
				x, err := w.q.EstimateSinglePoolSwapExactAmountIn(b.ctx, queryproto.EstimateSinglePoolSwapExactAmountInRequest{
					PoolId: r[0].Pool, TokenIn: tin, TokenOutDenom: r[0].Dout})
				if err != nil {
					return osmomath.Int{}, err
				}
				return x.TokenOutAmount, nil
			})
		}
	} else {
		tout := sdk.NewCoin(r[n-1].Dout, leg.amt).String()
		add("out", func() (osmomath.Int, error) {
			x, err := w.q.EstimateSwapExactAmountOut(b.ctx, queryproto.EstimateSwapExactAmountOutRequest{TokenOut: tout, Routes: outRoutes(r)})
			if err != nil {
				return osmomath.Int{}, err
			}
			return x.TokenInAmount, nil
		})
		add("outPrim", func() (osmomath.Int, error) {
			x, err := w.q.EstimateSwapExactAmountOutWithPrimitiveTypes(b.ctx, queryproto.EstimateSwapExactAmountOutWithPrimitiveTypesRequest{
				TokenOut: tout, RoutesPoolId: ids, RoutesTokenInDenom: dins})
			if err != nil {
				return osmomath.Int{}, err
			}
			return x.TokenInAmount, nil
		})
		if n == 1 {
			add("outSingle", func() (osmomath.Int, error) {
				x, err := w.q.EstimateSinglePoolSwapExactAmountOut(b.ctx, queryproto.EstimateSinglePoolSwapExactAmountOutRequest{
					PoolId: r[0].Pool, TokenInDenom: r[0].Din, TokenOut: tout})
				if err != nil {
					return osmomath.Int{}, err
				}
				return x.TokenInAmount, nil
			})
		}
	}
	return res, w.digest(b.ctx)
}

// routed prepares the observations of a routed operation, chooses the limit with pick, delivers
// the message and returns the complete event.
func (w *world) routed(kind string, who int, legs []legT, pick func(c compT, ev *event) osmomath.Int) *event {
	sender := w.users[who]
	rec := &recorder{obs: []obsT{}}
	ev := &event{E: "op", Op: kind, Who: who + 1, Legs: legs, Distinct: distinctPools(legs), Est: []estT{}}
	ev.PreDg = w.digest(w.Ctx)
	out := kind == "swapOut" || kind == "splitOut"
	free := w.isFree(w.Ctx, sender)
	ev.Comp = w.compose(rec, kind, sender, legs, false)
	ev.Comp2 = compT{Amt: tracelog.EncInt64(0)}
	if free {
		if out {
			// what the router does for a whitelisted sender: required inputs from the sender-agnostic quote
			ev.Comp2 = w.compose(rec, kind, sender, legs, true)
			ev.Has2 = true
		}
		// pool answers at the amounts a non-whitelisted account would hand over (for the estimates)
		w.compose(rec, kind, w.users[uTwin], legs, false)
	}
	ev.EstDg = ev.PreDg
	if kind == "swapIn" || kind == "swapOut" {
		ev.Est, ev.EstDg = w.estimates(kind, legs[0])
	}
	lim := pick(ev.Comp, ev)
	if !lim.IsPositive() {
		lim = osmomath.OneInt()
	}
	ev.Lim, ev.limit = bigI(lim), lim
	ev.Obs = rec.obs
	var msg sdk.Msg
	switch kind {
	case "swapIn":
		msg = &pmtypes.MsgSwapExactAmountIn{Sender: sender.String(), Routes: inRoutes(legs[0].Route),
			TokenIn: sdk.NewCoin(legs[0].Route[0].Din, legs[0].amt), TokenOutMinAmount: lim}
	case "swapOut":
		r := legs[0].Route
		msg = &pmtypes.MsgSwapExactAmountOut{Sender: sender.String(), Routes: outRoutes(r),
			TokenOut: sdk.NewCoin(r[len(r)-1].Dout, legs[0].amt), TokenInMaxAmount: lim}
	case "splitIn":
		rs := []pmtypes.SwapAmountInSplitRoute{}
		for _, l := range legs {
			rs = append(rs, pmtypes.SwapAmountInSplitRoute{Pools: inRoutes(l.Route), TokenInAmount: l.amt})
		}
		msg = &pmtypes.MsgSplitRouteSwapExactAmountIn{Sender: sender.String(), Routes: rs, TokenInDenom: legs[0].Route[0].Din, TokenOutMinAmount: lim}
	case "splitOut":
		rs := []pmtypes.SwapAmountOutSplitRoute{}
		for _, l := range legs {
			rs = append(rs, pmtypes.SwapAmountOutSplitRoute{Pools: outRoutes(l.Route), TokenOutAmount: l.amt})
		}
		r := legs[0].Route
		msg = &pmtypes.MsgSplitRouteSwapExactAmountOut{Sender: sender.String(), Routes: rs, TokenOutDenom: r[len(r)-1].Dout, TokenInMaxAmount: lim}
	}
	res, o := w.Msg(msg)
	ev.OK, ev.Err, ev.Amt = o.OK, trunc(o.Err), tracelog.EncInt64(0)
	if o.OK {
		var amt osmomath.Int
		switch kind {
		case "swapIn":
			var r pmtypes.MsgSwapExactAmountInResponse
			mustUnmarshal(res, &r)
			amt = r.TokenOutAmount
		case "swapOut":
			var r pmtypes.MsgSwapExactAmountOutResponse
			mustUnmarshal(res, &r)
			amt = r.TokenInAmount
		case "splitIn":
			var r pmtypes.MsgSplitRouteSwapExactAmountInResponse
			mustUnmarshal(res, &r)
			amt = r.TokenOutAmount
		case "splitOut":
			var r pmtypes.MsgSplitRouteSwapExactAmountOutResponse
			mustUnmarshal(res, &r)
			amt = r.TokenInAmount
		}
		ev.Amt = bigI(amt)
	}
	ev.St = w.snapshot(w.Ctx)
	return ev
}

type unmarshaler interface{ Unmarshal([]byte) error }

func mustUnmarshal(res *sdk.Result, m unmarshaler) {
	if res == nil {
		panic("no result")
	}
	if len(res.MsgResponses) > 0 {
		if err := m.Unmarshal(res.MsgResponses[0].Value); err != nil {
			panic(err)
		}
		return
	}
	if err := m.Unmarshal(res.Data); err != nil {
		panic(err)
	}
}

// ---------------------------------------------------------------------------
// world construction

func (w *world) coin(d string, a osmomath.Int) sdk.Coin { return sdk.NewCoin(d, a) }

func (w *world) randBetween(loExp, hiExp int) osmomath.Int {
	e := loExp + w.rng.Intn(hiExp-loExp+1)
	m := int64(10 + w.rng.Intn(90))
	return osmomath.NewInt(m).Mul(pow10(e)).QuoRaw(10)
}

func (w *world) pick(xs []string) string { return xs[w.rng.Intn(len(xs))] }

var balancerFees = []string{"0", "0.001", "0.003", "0.01"}
var stableFees = []string{"0", "0.0004", "0.003"}
var takerFees = []string{"0", "0.0005", "0.001", "0.0015", "0.01", "0.05", "0.1", "0.003333"}

func (w *world) mkBalancer(ds []string) poolInfo {
	assets := []balancer.PoolAsset{}
	for _, d := range ds {
		assets = append(assets, balancer.PoolAsset{Weight: osmomath.NewInt(int64(1 + w.rng.Intn(5))), Token: w.coin(d, w.randBetween(8, 12))})
	}
	id := w.PrepareCustomBalancerPool(assets, balancer.PoolParams{SwapFee: osmomath.MustNewDecFromStr(w.pick(balancerFees)), ExitFee: osmomath.ZeroDec()})
	return poolInfo{ID: id, Type: "balancer", Denoms: ds}
}

func (w *world) mkStable(ds []string) poolInfo {
	base := w.randBetween(9, 11)
	coins := sdk.NewCoins()
	for _, d := range ds {
		coins = coins.Add(w.coin(d, base.MulRaw(int64(80+w.rng.Intn(40))).QuoRaw(100)))
	}
	sf := []uint64{}
	for range coins {
		if w.rng.Intn(3) == 0 {
			sf = append(sf, uint64(1+w.rng.Intn(3)))
		} else {
			sf = append(sf, 1)
		}
	}
	w.FundAcc(w.TestAccs[0], coins.Add(w.coin("uosmo", pow10(10))))
	msg := stableswap.NewMsgCreateStableswapPool(w.TestAccs[0], stableswap.PoolParams{SwapFee: osmomath.MustNewDecFromStr(w.pick(stableFees)), ExitFee: osmomath.ZeroDec()}, coins, sf, "")
	id, err := w.pm.CreatePool(w.Ctx, msg)
	if err != nil {
		panic(err)
	}
	return poolInfo{ID: id, Type: "stableswap", Denoms: ds}
}

func (w *world) mkCL(ds []string) poolInfo {
	sp := cltypes.AuthorizedTickSpacing[w.rng.Intn(len(cltypes.AuthorizedTickSpacing))]
	f := cltypes.AuthorizedSpreadFactors[w.rng.Intn(len(cltypes.AuthorizedSpreadFactors))]
	p := w.PrepareCustomConcentratedPool(w.TestAccs[0], ds[0], ds[1], sp, f)
	w.CreateFullRangePosition(p, sdk.NewCoins(w.coin(ds[0], w.randBetween(9, 11)), w.coin(ds[1], w.randBetween(9, 11))))
	info := poolInfo{ID: p.GetId(), Type: "concentrated", Denoms: []string{ds[0], ds[1]}}
	for i := w.rng.Intn(3); i > 0; i-- {
		w.clCreate(info, uLP)
	}
	return info
}

func (w *world) clPool(ctx sdk.Context, id uint64) cltypes.ConcentratedPoolExtension {
	p, err := w.App.ConcentratedLiquidityKeeper.GetConcentratedPoolById(ctx, id)
	if err != nil {
		panic(err)
	}
	return p
}

func (w *world) clCreate(pi poolInfo, user int) apphelp.Outcome {
	p := w.clPool(w.Ctx, pi.ID)
	sp := int64(p.GetTickSpacing())
	cur := p.GetCurrentTick() / sp * sp
	width := int64(1+w.rng.Intn(200)) * sp
	if w.rng.Intn(3) == 0 {
		width = int64(1+w.rng.Intn(20000)) * sp
	}
	lo := cur - int64(w.rng.Intn(int(width/sp)+1))*sp
	if w.rng.Intn(5) == 0 {
		lo = cur + int64(1+w.rng.Intn(50))*sp // out of range above
	}
	hi := lo + width
	if lo < cltypes.MinInitializedTick {
		lo = cltypes.MinInitializedTick / sp * sp
	}
	if hi > cltypes.MaxTick {
		hi = cltypes.MaxTick / sp * sp
	}
	coins := sdk.NewCoins(w.coin(pi.Denoms[0], w.randBetween(6, 11)), w.coin(pi.Denoms[1], w.randBetween(6, 11)))
	_, out := w.Msg(&cltypes.MsgCreatePosition{PoolId: pi.ID, Sender: w.users[user].String(), LowerTick: lo, UpperTick: hi,
		TokensProvided: coins, TokenMinAmount0: osmomath.ZeroInt(), TokenMinAmount1: osmomath.ZeroInt()})
	return out
}

func shuffled(rng *rand.Rand, xs []string) []string {
	r := append([]string{}, xs...)
	rng.Shuffle(len(r), func(i, j int) { r[i], r[j] = r[j], r[i] })
	return r
}

func (w *world) build() {
	w.pm = w.App.PoolManagerKeeper
	w.q = pmclient.NewQuerier(w.pm)
	w.coll = w.App.AccountKeeper.GetModuleAddress(txfeestypes.TakerFeeCollectorName)
	for i := 0; i < 4; i++ {
		u := apphelp.Acct(500 + i)
		w.users = append(w.users, u)
		coins := sdk.NewCoins()
		for _, d := range allDenoms {
			coins = coins.Add(w.coin(d, pow10(60))) // far beyond anything a route can ask for
		}
		w.FundAcc(u, coins)
	}
	params := w.pm.GetParams(w.Ctx)
	params.AuthorizedQuoteDenoms = allDenoms
	w.pm.SetParams(w.Ctx, params)
}

func sorted2(a, b string) []string {
	if a < b {
		return []string{a, b}
	}
	return []string{b, a}
}

// randomPools: a chain of 4 pools over a permutation of the 5 denoms (routes of up to 4 hops
// without revisiting a pool exist) with every pool type present, plus 0-2 extra pools.
func (w *world) randomPools() {
	ds := shuffled(w.rng, allDenoms)
	types := shuffled(w.rng, []string{"balancer", "stableswap", "concentrated", []string{"balancer", "stableswap", "concentrated"}[w.rng.Intn(3)]})
	mk := func(t string, a, b string) {
		switch t {
		case "balancer":
			set := []string{a, b}
			for _, d := range shuffled(w.rng, allDenoms) {
				if len(set) >= 2+w.rng.Intn(3) {
					break
				}
				if d != a && d != b && !contains(set, d) {
					set = append(set, d)
				}
			}
			sort.Strings(set)
			w.pools = append(w.pools, w.mkBalancer(set))
		case "stableswap":
			set := []string{a, b}
			if w.rng.Intn(2) == 0 {
				for _, d := range shuffled(w.rng, allDenoms) {
					if d != a && d != b {
						set = append(set, d)
						break
					}
				}
			}
			sort.Strings(set)
			w.pools = append(w.pools, w.mkStable(set))
		default:
			pair := []string{a, b}
			if w.rng.Intn(2) == 0 {
				pair = []string{b, a}
			}
			w.pools = append(w.pools, w.mkCL(pair))
		}
	}
	for i := 0; i < 4; i++ {
		mk(types[i], ds[i], ds[i+1])
	}
	for i := w.rng.Intn(3); i > 0; i-- {
		a := w.pick(allDenoms)
		b := w.pick(allDenoms)
		if a == b {
			continue
		}
		mk([]string{"balancer", "stableswap", "concentrated"}[w.rng.Intn(3)], a, b)
	}
}

func contains(xs []string, x string) bool {
	for _, y := range xs {
		if x == y {
			return true
		}
	}
	return false
}

// ---------------------------------------------------------------------------
// random routes and amounts

func (w *world) walk(start string, n int, revisit bool, target string) []hopT {
	cur := start
	used := map[uint64]bool{}
	r := []hopT{}
	for len(r) < n {
		type cand struct {
			p uint64
			d string
		}
		cs := []cand{}
		for _, p := range w.pools {
			if !contains(p.Denoms, cur) || (!revisit && used[p.ID]) {
				continue
			}
			for _, d := range p.Denoms {
				if d != cur {
					cs = append(cs, cand{p.ID, d})
				}
			}
		}
		if len(cs) == 0 {
			break
		}
		c := cs[w.rng.Intn(len(cs))]
		if target != "" && len(r) == n-1 { // prefer reaching the target on the last hop
			for _, c2 := range cs {
				if c2.d == target {
					c = c2
					break
				}
			}
		}
		r = append(r, hopT{Pool: c.p, Din: cur, Dout: c.d})
		used[c.p] = true
		cur = c.d
		if target != "" && cur == target && w.rng.Intn(2) == 0 {
			break
		}
	}
	return r
}

func (w *world) randRoute() []hopT {
	for {
		n := 1 + w.rng.Intn(4)
		r := w.walk(w.pick(allDenoms), n, w.rng.Intn(4) == 0, "")
		if len(r) > 0 {
			return r
		}
	}
}

func (w *world) liquidity(pool uint64, d string) osmomath.Int {
	cs, err := w.pm.GetTotalPoolLiquidity(w.Ctx, pool)
	if err != nil {
		return osmomath.OneInt()
	}
	return cs.AmountOf(d)
}

func (w *world) randAmount(liq osmomath.Int, maxFrac float64) osmomath.Int {
	switch r := w.rng.Intn(20); {
	case r == 0:
		return osmomath.NewInt(int64(1 + w.rng.Intn(20)))
	case r == 1:
		return liq.MulRaw(int64(1 + w.rng.Intn(3)))
	}
	// log-uniform fraction of the pool's liquidity in [1e-7, maxFrac]
	lo, hi := -7.0, 0.0
	f := lo + w.rng.Float64()*(hi-lo)
	frac := maxFrac
	for i := 0.0; i > f; i-- {
		frac /= 10
	}
	m := int64(frac * 1e12)
	if m < 1 {
		m = 1
	}
	a := liq.MulRaw(m).QuoRaw(1e12)
	if !a.IsPositive() {
		a = osmomath.OneInt()
	}
	return a
}

func (w *world) randLegs(kind string) []legT {
	split := kind == "splitIn" || kind == "splitOut"
	first := w.randRoute()
	legs := [][]hopT{first}
	if split {
		if len(first) > 3 {
			first = first[:3]
			legs[0] = first
		}
		start, end := first[0].Din, first[len(first)-1].Dout
		want := w.rng.Intn(3) // up to 2 more legs
		for try := 0; try < 60 && len(legs) <= want; try++ {
			r := w.walk(start, 1+w.rng.Intn(3), w.rng.Intn(5) == 0, end)
			if len(r) == 0 || r[len(r)-1].Dout != end {
				continue
			}
			dup := false
			for _, l := range legs {
				if fmt.Sprint(l) == fmt.Sprint(r) {
					dup = true
				}
			}
			if !dup {
				legs = append(legs, r)
			}
		}
	}
	res := []legT{}
	for _, r := range legs {
		var a osmomath.Int
		if kind == "swapIn" || kind == "splitIn" {
			a = w.randAmount(w.liquidity(r[0].Pool, r[0].Din), 0.3)
		} else {
			l := r[len(r)-1]
			a = w.randAmount(w.liquidity(l.Pool, l.Dout), 0.1)
		}
		res = append(res, legT{Route: r, Amt: bigI(a), amt: a})
	}
	return res
}

// limit around the result of the composition: result-1, result, result+1, and a few others
func (w *world) randLimit(kind string) func(c compT, ev *event) osmomath.Int {
	return func(c compT, ev *event) osmomath.Int {
		out := kind == "swapOut" || kind == "splitOut"
		if !c.OK {
			if out {
				return hugeMax
			}
			return osmomath.OneInt()
		}
		r := c.total
		switch k := w.rng.Intn(20); {
		case k < 4:
			ev.Off = -1
			return r.SubRaw(1)
		case k < 9:
			ev.Off = 0
			return r
		case k < 13:
			ev.Off = 1
			return r.AddRaw(1)
		case k < 15:
			if out {
				return hugeMax
			}
			return osmomath.OneInt()
		case k < 16:
			return r.QuoRaw(2)
		case k < 17:
			return r.MulRaw(2)
		default:
			if kind == "swapOut" && c.pool1.IsPositive() && c.pool1.LT(r) {
				// between what the first pool takes and what the sender is charged (taker fee on top)
				switch w.rng.Intn(3) {
				case 0:
					return c.pool1
				case 1:
					return c.pool1.SubRaw(1)
				default:
					return c.pool1.Add(r).QuoRaw(2)
				}
			}
			return r
		}
	}
}

// ---------------------------------------------------------------------------
// other activity

func (w *world) other() (string, apphelp.Outcome) {
	lp := w.users[uLP]
	gammPools := []poolInfo{}
	clPools := []poolInfo{}
	for _, p := range w.pools {
		if p.Type == "concentrated" {
			clPools = append(clPools, p)
		} else {
			gammPools = append(gammPools, p)
		}
	}
	switch k := w.rng.Intn(20); {
	case k < 3 && len(gammPools) > 0: // join
		p := gammPools[w.rng.Intn(len(gammPools))]
		pool, err := w.App.GAMMKeeper.GetPoolAndPoke(w.Ctx, p.ID)
		if err != nil {
			panic(err)
		}
		shares := pool.GetTotalShares().MulRaw(int64(1 + w.rng.Intn(200))).QuoRaw(1000)
		_, out := w.Msg(&gammtypes.MsgJoinPool{Sender: lp.String(), PoolId: p.ID, ShareOutAmount: shares, TokenInMaxs: sdk.Coins{}})
		return "join", out
	case k < 5 && len(gammPools) > 0: // exit
		p := gammPools[w.rng.Intn(len(gammPools))]
		have := w.bal(w.Ctx, lp, gammtypes.GetPoolShareDenom(p.ID))
		if !have.IsPositive() {
			return "exit", apphelp.Outcome{OK: false, Err: "no shares"}
		}
		sh := have.MulRaw(int64(1 + w.rng.Intn(1000))).QuoRaw(1000)
		if !sh.IsPositive() {
			sh = have
		}
		_, out := w.Msg(&gammtypes.MsgExitPool{Sender: lp.String(), PoolId: p.ID, ShareInAmount: sh, TokenOutMins: sdk.Coins{}})
		return "exit", out
	case k < 6 && len(gammPools) > 0: // single-asset join
		p := gammPools[w.rng.Intn(len(gammPools))]
		d := w.pick(p.Denoms)
		a := w.randAmount(w.liquidity(p.ID, d), 0.1)
		_, out := w.Msg(&gammtypes.MsgJoinSwapExternAmountIn{Sender: lp.String(), PoolId: p.ID, TokenIn: w.coin(d, a), ShareOutMinAmount: osmomath.OneInt()})
		return "joinSwap", out
	case k < 9 && len(clPools) > 0:
		return "clCreate", w.clCreate(clPools[w.rng.Intn(len(clPools))], uLP)
	case k < 11 && len(clPools) > 0:
		p := clPools[w.rng.Intn(len(clPools))]
		ps, err := w.App.ConcentratedLiquidityKeeper.GetUserPositions(w.Ctx, lp, p.ID)
		if err != nil || len(ps) == 0 {
			return "clWithdraw", apphelp.Outcome{OK: false, Err: "no position"}
		}
		pos := ps[w.rng.Intn(len(ps))]
		liq := pos.Liquidity
		if w.rng.Intn(2) == 0 {
			liq = liq.MulInt64(int64(1 + w.rng.Intn(99))).QuoInt64(100)
		}
		_, out := w.Msg(&cltypes.MsgWithdrawPosition{PositionId: pos.PositionId, Sender: lp.String(), LiquidityAmount: liq})
		return "clWithdraw", out
	case k < 14: // per-pair taker fee (the order of the pair matters)
		a, b := w.pick(allDenoms), w.pick(allDenoms)
		f := osmomath.MustNewDecFromStr(w.pick(takerFees))
		return "setPairFee", w.Try(func(ctx sdk.Context) error {
			w.pm.SetDenomPairTakerFee(ctx, a, b, f)
			return nil
		})
	case k < 15:
		f := osmomath.MustNewDecFromStr(w.pick(takerFees))
		return "setDefaultFee", w.Try(func(ctx sdk.Context) error {
			p := w.pm.GetParams(ctx)
			p.TakerFeeParams.DefaultTakerFee = f
			w.pm.SetParams(ctx, p)
			return nil
		})
	case k < 18:
		u := w.users[w.rng.Intn(2)].String()
		return "toggleWhitelist", w.Try(func(ctx sdk.Context) error {
			p := w.pm.GetParams(ctx)
			wl := []string{}
			found := false
			for _, s := range p.TakerFeeParams.ReducedFeeWhitelist {
				if s == u {
					found = true
				} else {
					wl = append(wl, s)
				}
			}
			if !found {
				wl = append(wl, u)
			}
			p.TakerFeeParams.ReducedFeeWhitelist = wl
			w.pm.SetParams(ctx, p)
			return nil
		})
	default:
		w.AdvanceTime(time.Duration(1+w.rng.Intn(3600)) * time.Second)
		return "time", apphelp.Outcome{OK: true}
	}
}

func (w *world) emitOther(tw *tracelog.Writer, name string, out apphelp.Outcome) {
	tw.Emit(&event{E: "op", Op: "other", Name: name, OK: out.OK, Err: trunc(out.Err), Legs: []legT{}, Obs: []obsT{}, Est: []estT{},
		Lim: tracelog.EncInt64(0), Amt: tracelog.EncInt64(0), Comp: compT{Amt: tracelog.EncInt64(0)}, Comp2: compT{Amt: tracelog.EncInt64(0)},
		St: w.snapshot(w.Ctx)})
}

func (w *world) emitCfg(tw *tracelog.Writer, seed int64, mode string) {
	tw.Emit(map[string]any{"e": "cfg", "seed": seed, "mode": mode, "pools": w.pools, "denoms": allDenoms, "users": len(w.users),
		"st": w.snapshot(w.Ctx)})
}

// ---------------------------------------------------------------------------
// TestRecord

func TestRecord(t *testing.T) {
	out := os.Getenv("VERIF_OUT")
	if out == "" {
		t.Skip("VERIF_OUT not set")
	}
	seed := tracelog.EnvInt("VERIF_SEED", 1)
	nh := int(tracelog.EnvInt("VERIF_HISTORIES", 4))
	nops := int(tracelog.EnvInt("VERIF_OPS", 60))
	tw, err := tracelog.NewWriter(out)
	if err != nil {
		t.Fatal(err)
	}
	nobs := 0
	for h := 0; h < nh; h++ {
		nobs += recordHistory(t, tw, seed*1000+int64(h), nops)
	}
	if err := tw.Close(); err != nil {
		t.Fatal(err)
	}
	fmt.Printf("RECORDED events=%d histories=%d observations=%d\n", tw.N, nh, nobs)
}

func recordHistory(t *testing.T, tw *tracelog.Writer, seed int64, nops int) int {
	w := &world{World: apphelp.New(t), rng: rand.New(rand.NewSource(seed))}
	w.build()
	w.randomPools()
	// initial taker-fee configuration
	if w.rng.Intn(5) > 0 {
		p := w.pm.GetParams(w.Ctx)
		p.TakerFeeParams.DefaultTakerFee = osmomath.MustNewDecFromStr(w.pick(takerFees))
		w.pm.SetParams(w.Ctx, p)
	}
	for i := w.rng.Intn(6); i > 0; i-- {
		w.pm.SetDenomPairTakerFee(w.Ctx, w.pick(allDenoms), w.pick(allDenoms), osmomath.MustNewDecFromStr(w.pick(takerFees)))
	}
	w.emitCfg(tw, seed, "record")
	kinds := []string{"swapIn", "swapIn", "swapOut", "swapOut", "splitIn", "splitOut"}
	for i := 0; i < nops; i++ {
		if w.rng.Intn(5) < 2 {
			name, out := w.other()
			w.emitOther(tw, name, out)
			continue
		}
		kind := kinds[w.rng.Intn(len(kinds))]
		ev := w.routed(kind, w.rng.Intn(2), w.randLegs(kind), w.randLimit(kind))
		tw.Emit(ev)
	}
	return w.nObs
}

// ---------------------------------------------------------------------------
// TestReplay: behaviours generated by TLC from spec/mc/MCRouter.tla (every route shape of up to
// 3 hops over 3 pools x kind x limit offset x fee/whitelist configuration) are executed on three
// real pools of the three types.  The model predicts the verdict from the limit offset
// (limit = result + off); the execution is also written as a trace that TraceRouter validates.

type genHop struct {
	Pool int    `json:"pool"`
	Din  string `json:"din"`
	Dout string `json:"dout"`
}
type genLeg struct {
	Route []genHop `json:"route"`
	Amt   int      `json:"amt"`
}
type genStep struct {
	Kind string   `json:"kind"`
	Legs []genLeg `json:"legs"`
	Off  int      `json:"off"`
	OK   bool     `json:"ok"` // the model's verdict (its composition succeeded; the limit decides)
}
type genBehaviour struct {
	Fee   int       `json:"fee"`  // default taker fee in tenths (model scale 10)
	Free  bool      `json:"free"` // sender on the whitelist
	Ovab  int       `json:"ovab"` // taker fee of the ordered pair (a, b) in tenths, -1: no override
	Steps []genStep `json:"steps"`
}

type mismatch struct {
	Behaviour int    `json:"behaviour"`
	Step      int    `json:"step"`
	What      string `json:"what"`
	Want      any    `json:"want"`
	Got       any    `json:"got"`
}

var modelDenoms = map[string]string{"a": "atom", "b": "dai", "c": "eth"}

func TestReplay(t *testing.T) {
	in, out := os.Getenv("VERIF_IN"), os.Getenv("VERIF_OUT")
	if in == "" || out == "" {
		t.Skip("VERIF_IN / VERIF_OUT not set")
	}
	seed := tracelog.EnvInt("VERIF_SEED", 1)
	perWorld := int(tracelog.EnvInt("VERIF_PER_WORLD", 150))
	bs, err := tracelog.ReadLines[genBehaviour](in)
	if err != nil {
		t.Fatal(err)
	}
	tw, err := tracelog.NewWriter(out)
	if err != nil {
		t.Fatal(err)
	}
	mm := []mismatch{}
	steps, skipped, known := 0, 0, 0
	var w *world
	var ids []uint64
	for bi, b := range bs {
		if bi%perWorld == 0 {
			w = &world{World: apphelp.New(t), rng: rand.New(rand.NewSource(seed*7919 + int64(bi)))}
			w.build()
			// model pool 1: a-b balancer, 2: b-c concentrated, 3: a-b-c stableswap
			w.pools = append(w.pools, w.mkBalancer([]string{"atom", "dai"}))
			w.pools = append(w.pools, w.mkCL([]string{"dai", "eth"}))
			w.pools = append(w.pools, w.mkStable([]string{"atom", "dai", "eth"}))
			ids = []uint64{w.pools[0].ID, w.pools[1].ID, w.pools[2].ID}
			w.emitCfg(tw, seed, "replay")
		}
		// configuration of this behaviour
		fee := osmomath.NewDecWithPrec(int64(b.Fee), 1)
		o := w.Try(func(ctx sdk.Context) error {
			p := w.pm.GetParams(ctx)
			p.TakerFeeParams.DefaultTakerFee = fee
			p.TakerFeeParams.ReducedFeeWhitelist = []string{}
			if b.Free {
				p.TakerFeeParams.ReducedFeeWhitelist = []string{w.users[0].String()}
			}
			w.pm.SetParams(ctx, p)
			// the ordered pair a -> b may carry its own fee (setting the default value removes an override)
			pf := fee
			if b.Ovab >= 0 {
				pf = osmomath.NewDecWithPrec(int64(b.Ovab), 1)
			}
			w.pm.SetDenomPairTakerFee(ctx, modelDenoms["a"], modelDenoms["b"], pf)
			return nil
		})
		w.emitOther(tw, "configure", o)
		for si, s := range b.Steps {
			legs := []legT{}
			for _, gl := range s.Legs {
				r := []hopT{}
				for _, gh := range gl.Route {
					r = append(r, hopT{Pool: ids[gh.Pool-1], Din: modelDenoms[gh.Din], Dout: modelDenoms[gh.Dout]})
				}
				// model amounts 1..9 are scaled to 10^-6 .. 10^-2 of the liquidity touched first
				var liq osmomath.Int
				if s.Kind == "swapIn" || s.Kind == "splitIn" {
					liq = w.liquidity(r[0].Pool, r[0].Din)
				} else {
					liq = w.liquidity(r[len(r)-1].Pool, r[len(r)-1].Dout)
				}
				a := liq.MulRaw(int64(gl.Amt)).QuoRaw(int64(100 * (1 + w.rng.Intn(1000))))
				if !a.IsPositive() {
					a = osmomath.OneInt()
				}
				legs = append(legs, legT{Route: r, Amt: bigI(a), amt: a})
			}
			off := s.Off
			ev := w.routed(s.Kind, 0, legs, func(c compT, ev *event) osmomath.Int {
				ev.Off = off
				if !c.OK {
					return osmomath.OneInt()
				}
				return c.total.AddRaw(int64(off))
			})
			tw.Emit(ev)
			steps++
			if !ev.Comp.OK || !ev.limit.Equal(ev.Comp.total.AddRaw(int64(off))) {
				skipped++ // the real pools refuse the amounts: nothing predicted
				continue
			}
			if ev.Has2 && (ev.Comp2.OK != ev.Comp.OK || !ev.Comp2.total.Equal(ev.Comp.total)) {
				known++ // whitelisted sender, exact-out: the router pre-computes with the nominal fee (left to TraceRouter)
				continue
			}
			if s.Kind == "swapOut" && ev.OK && !s.OK && ev.Comp.pool1.LTE(ev.limit) {
				known++ // maximum compared before the taker fee (left to TraceRouter)
				continue
			}
			if ev.OK != s.OK {
				mm = append(mm, mismatch{Behaviour: bi, Step: si, What: "verdict of " + s.Kind + " with limit = result" + fmt.Sprintf("%+d", off),
					Want: s.OK, Got: map[string]any{"ok": ev.OK, "err": ev.Err, "lim": ev.limit.String(), "result": ev.Comp.total.String(), "amt": ev.Amt}})
			}
		}
	}
	if err := tw.Close(); err != nil {
		t.Fatal(err)
	}
	bz, _ := json.Marshal(map[string]any{"behaviours": len(bs), "steps": steps, "skipped": skipped, "known_shape": known, "mismatches": mm, "events": tw.N})
	if err := os.WriteFile(out+".result", bz, 0o644); err != nil {
		t.Fatal(err)
	}
	fmt.Printf("REPLAYED behaviours=%d steps=%d skipped=%d mismatches=%d\n", len(bs), steps, skipped, len(mm))
}

// ---------------------------------------------------------------------------
// TestReproFindings: deterministic minimal reproductions of the deviations the check reports
// (VERIF_REPRO=1 ./router.test -test.run TestReproFindings -test.v).
func TestReproFindings(t *testing.T) {
	if os.Getenv("VERIF_REPRO") == "" {
		t.Skip("VERIF_REPRO not set")
	}
	w := &world{World: apphelp.New(t), rng: rand.New(rand.NewSource(1))}
	w.build()
	mk := func(a, b string) uint64 {
		return w.PrepareCustomBalancerPool([]balancer.PoolAsset{
			{Weight: osmomath.NewInt(1), Token: w.coin(a, osmomath.NewInt(1_000_000_000))},
			{Weight: osmomath.NewInt(1), Token: w.coin(b, osmomath.NewInt(1_000_000_000))}},
			balancer.PoolParams{SwapFee: osmomath.ZeroDec(), ExitFee: osmomath.ZeroDec()})
	}
	p1, p2 := mk("atom", "dai"), mk("dai", "eth")
	p := w.pm.GetParams(w.Ctx)
	p.TakerFeeParams.DefaultTakerFee = osmomath.MustNewDecFromStr("0.01")
	w.pm.SetParams(w.Ctx, p)
	sender := w.users[0]
	// 1. the maximum is compared before the taker fee
	est, err := w.pm.MultihopEstimateInGivenExactAmountOut(w.Ctx, []pmtypes.SwapAmountOutRoute{{PoolId: p1, TokenInDenom: "atom"}}, w.coin("dai", osmomath.NewInt(1_000_000)))
	if err != nil {
		t.Fatal(err)
	}
	max := est.SubRaw(5000)
	res, out := w.Msg(&pmtypes.MsgSwapExactAmountOut{Sender: sender.String(), Routes: []pmtypes.SwapAmountOutRoute{{PoolId: p1, TokenInDenom: "atom"}},
		TokenOut: w.coin("dai", osmomath.NewInt(1_000_000)), TokenInMaxAmount: max})
	if out.OK {
		var r pmtypes.MsgSwapExactAmountOutResponse
		mustUnmarshal(res, &r)
		t.Logf("1. MsgSwapExactAmountOut 1000000dai, token_in_max_amount %s: SUCCESS, token_in_amount %s (exceeds the maximum: %v)", max, r.TokenInAmount, r.TokenInAmount.GT(max))
	} else {
		t.Logf("1. refused: %s", out.Err)
	}
	// 2. EstimateSwapExactAmountOutWithPrimitiveTypes
	_, err = w.q.EstimateSwapExactAmountOutWithPrimitiveTypes(w.Ctx, queryproto.EstimateSwapExactAmountOutWithPrimitiveTypesRequest{
		RoutesPoolId: []uint64{p1}, RoutesTokenInDenom: []string{"atom"}, TokenOut: "1000dai"})
	t.Logf("2. EstimateSwapExactAmountOutWithPrimitiveTypes([%d],[atom],1000dai): err = %v", p1, err)
	// 3. whitelisted sender, two-hop exact-out
	p = w.pm.GetParams(w.Ctx)
	p.TakerFeeParams.ReducedFeeWhitelist = []string{sender.String()}
	w.pm.SetParams(w.Ctx, p)
	route := []pmtypes.SwapAmountOutRoute{{PoolId: p1, TokenInDenom: "atom"}, {PoolId: p2, TokenInDenom: "dai"}}
	rec := &recorder{}
	leg := legT{Route: []hopT{{p1, "atom", "dai"}, {p2, "dai", "eth"}}, amt: osmomath.NewInt(1_000_000)}
	ok, byHops, _ := w.chainOut(rec, w.root(), sender, leg, false)
	before := w.Balances(sender)
	res, out = w.Msg(&pmtypes.MsgSwapExactAmountOut{Sender: sender.String(), Routes: route, TokenOut: w.coin("eth", osmomath.NewInt(1_000_000)), TokenInMaxAmount: hugeMax})
	after := w.Balances(sender)
	var r pmtypes.MsgSwapExactAmountOutResponse
	if out.OK {
		mustUnmarshal(res, &r)
	}
	t.Logf("3. whitelisted sender, atom->dai->eth for 1000000eth: the two single-pool exact-out swaps cost %s atom (ok=%v); the routed message: ok=%v token_in_amount %s; balance change atom %s dai %s eth %s",
		byHops, ok, out.OK, r.TokenInAmount, after.AmountOf("atom").Sub(before.AmountOf("atom")), after.AmountOf("dai").Sub(before.AmountOf("dai")), after.AmountOf("eth").Sub(before.AmountOf("eth")))
	// 4. estimates ignore the whitelist
	e2, _ := w.pm.MultihopEstimateInGivenExactAmountOut(w.Ctx, route[:1], w.coin("dai", osmomath.NewInt(1_000_000)))
	res, out = w.Msg(&pmtypes.MsgSwapExactAmountOut{Sender: sender.String(), Routes: route[:1], TokenOut: w.coin("dai", osmomath.NewInt(1_000_000)), TokenInMaxAmount: hugeMax})
	if out.OK {
		mustUnmarshal(res, &r)
	}
	t.Logf("4. whitelisted sender, single hop: estimate %s, executed %s", e2, r.TokenInAmount)
}
