// Recorder and replayer binding the real x/pool-incentives keeper on a full
// OsmosisApp to spec/PoolIncentives.tla (extra check X03).
//
// TestRecord  impl -> spec: seeded random histories of pool creation (real
//
//	MsgCreateBalancerPool / MsgCreateStableswapPool / MsgCreateConcentratedPool,
//	whose hooks create the pool gauges), user-created gauges (x/incentives
//	CreateGauge), replace / update proposals through the real governance
//	handler (ValidateBasic + NewPoolIncentivesProposalHandler), coins arriving in
//	the module account, AllocateAsset through the AfterDistributeMintedCoin hook
//	and through the real mint epoch hook (MintKeeper.AfterEpochEnd with the whole
//	provision going to pool incentives).  After every call the registry (DistrInfo
//	query), every pool, every gauge, the raw link tables of the module's store,
//	the ledgers and a battery of query answers are logged as ndjson for
//	spec/trace/TracePoolIncentives.tla.
//
// TestReplay  spec -> impl: the behaviours TLC printed for the bounded model
//
//	(spec/mc/MCPoolIncentives.tla) are executed through the same entry points on
//	a discarded branch of a fresh chain each and the projected state is compared
//	with the state the specification expects after every action.
package poolincentives

import (
	"bufio"
	"encoding/json"
	"fmt"
	"math/big"
	"math/rand"
	"os"
	"sort"
	"strconv"
	"strings"
	"testing"
	"time"

	"cosmossdk.io/log"
	storetypes "cosmossdk.io/store/types"
	sdk "github.com/cosmos/cosmos-sdk/types"

	"github.com/osmosis-labs/osmosis/osmomath"
	appparams "github.com/osmosis-labs/osmosis/v31/app/params"
	clmodel "github.com/osmosis-labs/osmosis/v31/x/concentrated-liquidity/model"
	"github.com/osmosis-labs/osmosis/v31/x/gamm/pool-models/balancer"
	"github.com/osmosis-labs/osmosis/v31/x/gamm/pool-models/stableswap"
	incentivestypes "github.com/osmosis-labs/osmosis/v31/x/incentives/types"
	lockuptypes "github.com/osmosis-labs/osmosis/v31/x/lockup/types"
	minttypes "github.com/osmosis-labs/osmosis/v31/x/mint/types"
	poolincentives "github.com/osmosis-labs/osmosis/v31/x/pool-incentives"
	pikeeper "github.com/osmosis-labs/osmosis/v31/x/pool-incentives/keeper"
	pitypes "github.com/osmosis-labs/osmosis/v31/x/pool-incentives/types"
	poolmanagertypes "github.com/osmosis-labs/osmosis/v31/x/poolmanager/types"

	"verif/harness/apphelp"
	"verif/harness/tracelog"
)

const (
	minted = appparams.BaseCoinUnit // gauges accept the base coin unit without a route
	other  = "foo"                  // gets a route (pool foo/uosmo) so that gauges accept it
	third  = "bar"
)

// ---------------------------------------------------------------------------
// world

type world struct {
	*apphelp.World
	creator   sdk.AccAddress
	durs      []time.Duration // lockable durations of x/pool-incentives
	epochDur  time.Duration
	mintIdent string
	mintEpoch int64
	routed    bool // the route other/minted is registered
	nonPerp   []uint64
}

func pow10(k int) *big.Int { return new(big.Int).Exp(big.NewInt(10), big.NewInt(int64(k)), nil) }

func newWorld(t *testing.T, durs []time.Duration, distrIdent string) *world {
	w := &world{World: apphelp.New(t), durs: durs}
	w.Ctx = w.Ctx.WithLogger(log.NewNopLogger())
	pk, ik := w.App.PoolIncentivesKeeper, w.App.IncentivesKeeper
	pk.SetParams(w.Ctx, pitypes.Params{MintedDenom: minted})
	pk.SetLockableDurations(w.Ctx, durs)
	// x/incentives accepts a by-duration gauge only for its own lockable durations
	all := append([]time.Duration{time.Second}, durs...)
	ik.SetLockableDurations(w.Ctx, all)
	ip := ik.GetParams(w.Ctx)
	ip.DistrEpochIdentifier = distrIdent
	ik.SetParams(w.Ctx, ip)
	w.epochDur = ik.GetEpochInfo(w.Ctx).Duration
	if w.epochDur == 0 {
		panic("no epoch info for " + distrIdent)
	}
	w.creator = apphelp.Acct(1)
	huge := osmomath.NewIntFromBigInt(pow10(60))
	w.FundAcc(w.creator, sdk.NewCoins(sdk.NewCoin(minted, huge), sdk.NewCoin(other, huge), sdk.NewCoin(third, huge), sdk.NewCoin("baz", huge)))
	// the whole epoch provision goes to pool incentives; no reduction ever
	mp := w.App.MintKeeper.GetParams(w.Ctx)
	mp.MintDenom = minted
	mp.DistributionProportions = minttypes.DistributionProportions{Staking: osmomath.ZeroDec(), PoolIncentives: osmomath.OneDec(),
		DeveloperRewards: osmomath.ZeroDec(), CommunityPool: osmomath.ZeroDec()}
	mp.WeightedDeveloperRewardsReceivers = []minttypes.WeightedAddress{}
	mp.ReductionFactor = osmomath.OneDec()
	mp.ReductionPeriodInEpochs = 1 << 40
	mp.MintingRewardsDistributionStartEpoch = 0
	mp.GenesisEpochProvisions = osmomath.OneDec()
	if err := mp.Validate(); err != nil {
		panic(err)
	}
	w.App.MintKeeper.InitGenesis(w.Ctx, &minttypes.GenesisState{Minter: minttypes.Minter{EpochProvisions: mp.GenesisEpochProvisions}, Params: mp})
	w.mintIdent = mp.EpochIdentifier
	return w
}

func (w *world) modAddr() sdk.AccAddress { return w.App.AccountKeeper.GetModuleAddress(pitypes.ModuleName) }

// ---------------------------------------------------------------------------
// projection of the real state onto the variables of PoolIncentives.tla

type poolSt struct {
	ID   uint64 `json:"id"`
	Kind string `json:"kind"`
}

type gaugeSt struct {
	ID   uint64       `json:"id"`
	Perp bool         `json:"perp"`
	Kind string       `json:"kind"`
	Pool uint64       `json:"pool"`
	D    string       `json:"d"`
	C    tracelog.Big `json:"c"`
	O    tracelog.Big `json:"o"`
}

type linkPG struct {
	P uint64 `json:"p"`
	D string `json:"d"`
	G uint64 `json:"g"`
}

type linkNL struct {
	P uint64 `json:"p"`
	G uint64 `json:"g"`
}

type recSt struct {
	G uint64       `json:"g"`
	W tracelog.Big `json:"w"`
}

type ledSt struct {
	Mod  tracelog.Big `json:"mod"`
	Modo tracelog.Big `json:"modo"`
	Comm tracelog.Big `json:"comm"`
	Inc  tracelog.Big `json:"inc"`
}

type state struct {
	Pools  []poolSt  `json:"pools"`
	Gauges []gaugeSt `json:"gauges"`
	P2G    []linkPG  `json:"p2g"`
	G2P    []linkPG  `json:"g2p"`
	NoLock []linkNL  `json:"nolock"`
	Recs   []recSt   `json:"recs"`
	TW     tracelog.Big `json:"tw"`
	Led    ledSt     `json:"led"`
}

func sumOthers(cs sdk.Coins) osmomath.Int {
	s := osmomath.ZeroInt()
	for _, c := range cs {
		if c.Denom != minted {
			s = s.Add(c.Amount)
		}
	}
	return s
}

func poolOfDenom(d string) uint64 {
	for _, pre := range []string{"gamm/pool/", incentivestypes.NoLockInternalPrefix, incentivestypes.NoLockExternalPrefix} {
		if strings.HasPrefix(d, pre) {
			if n, err := strconv.ParseUint(d[len(pre):], 10, 64); err == nil {
				return n
			}
		}
	}
	return 0
}

func (w *world) poolKind(id uint64) string {
	p, err := w.App.PoolManagerKeeper.GetPool(w.Ctx, id)
	if err != nil {
		return "missing"
	}
	switch p.GetType() {
	case poolmanagertypes.Balancer, poolmanagertypes.Stableswap:
		return "cfmm"
	case poolmanagertypes.Concentrated:
		return "cl"
	}
	return "other"
}

// links reads the three link tables of the module's store raw (every entry, not only the probed ones)
func (w *world) links() (p2g, g2p []linkPG, nl []linkNL) {
	p2g, g2p, nl = []linkPG{}, []linkPG{}, []linkNL{}
	store := w.Ctx.KVStore(w.App.GetKey(pitypes.StoreKey))
	scan := func(prefix string, f func(parts []string, val uint64)) {
		it := storetypes.KVStorePrefixIterator(store, []byte(prefix))
		defer it.Close()
		for ; it.Valid(); it.Next() {
			rest := strings.TrimPrefix(string(it.Key()), prefix)
			parts := strings.SplitN(rest, "/", 2)
			if len(parts) != 2 {
				panic("unparsable link key " + string(it.Key()))
			}
			f(parts, sdk.BigEndianToUint64(it.Value()))
		}
	}
	num := func(s string) uint64 {
		n, err := strconv.ParseUint(s, 10, 64)
		if err != nil {
			panic("unparsable id in link key: " + s)
		}
		return n
	}
	scan("pool-incentives/", func(parts []string, v uint64) { p2g = append(p2g, linkPG{P: num(parts[0]), D: parts[1], G: v}) })
	scan("pool-incentives-pool-id/", func(parts []string, v uint64) { g2p = append(g2p, linkPG{G: num(parts[0]), D: parts[1], P: v}) })
	scan("no-lock-pool-incentives/", func(parts []string, v uint64) {
		if num(parts[1]) != v {
			panic("no-lock link key and value disagree")
		}
		nl = append(nl, linkNL{P: num(parts[0]), G: v})
	})
	return
}

func (w *world) state() state {
	s := state{Pools: []poolSt{}, Gauges: []gaugeSt{}, Recs: []recSt{}}
	for id := uint64(1); id < w.App.PoolManagerKeeper.GetNextPoolId(w.Ctx); id++ {
		s.Pools = append(s.Pools, poolSt{ID: id, Kind: w.poolKind(id)})
	}
	gs := w.App.IncentivesKeeper.GetGauges(w.Ctx)
	sort.Slice(gs, func(i, j int) bool { return gs[i].Id < gs[j].Id })
	for _, g := range gs {
		kind := "other"
		switch g.DistributeTo.LockQueryType {
		case lockuptypes.ByDuration:
			kind = "dur"
		case lockuptypes.NoLock:
			kind = "nolock"
		}
		s.Gauges = append(s.Gauges, gaugeSt{ID: g.Id, Perp: g.IsPerpetual, Kind: kind, Pool: poolOfDenom(g.DistributeTo.Denom),
			D: g.DistributeTo.Duration.String(), C: apphelp.BigI(g.Coins.AmountOf(minted)), O: apphelp.BigI(sumOthers(g.Coins))})
	}
	s.P2G, s.G2P, s.NoLock = w.links()
	q := pikeeper.NewQuerier(*w.App.PoolIncentivesKeeper)
	di, err := q.DistrInfo(w.Ctx, &pitypes.QueryDistrInfoRequest{})
	if err != nil {
		panic(err)
	}
	for _, r := range di.DistrInfo.Records {
		s.Recs = append(s.Recs, recSt{G: r.GaugeId, W: apphelp.BigI(r.Weight)})
	}
	s.TW = apphelp.BigI(di.DistrInfo.TotalWeight)
	fp, err := w.App.DistrKeeper.FeePool.Get(w.Ctx)
	if err != nil {
		panic(err)
	}
	cd := fp.CommunityPool.AmountOf(minted)
	if !cd.Equal(cd.TruncateDec()) {
		panic("community pool holds a fractional amount of the minted denomination: projection does not apply")
	}
	bal := w.App.BankKeeper.GetAllBalances(w.Ctx, w.modAddr())
	s.Led = ledSt{Mod: apphelp.BigI(bal.AmountOf(minted)), Modo: apphelp.BigI(sumOthers(bal)), Comm: apphelp.BigI(cd.TruncateInt()),
		Inc: apphelp.BigI(w.App.BankKeeper.GetBalance(w.Ctx, w.App.AccountKeeper.GetModuleAddress(incentivestypes.ModuleName), minted).Amount)}
	return s
}

// ---------------------------------------------------------------------------
// query battery

type gidAns struct {
	Pool uint64         `json:"pool"`
	OK   bool           `json:"ok"`
	Err  string         `json:"err,omitempty"`
	Ids  []gidEntry     `json:"ids"`
	Pcts []tracelog.Big `json:"pcts"` // gauge_incentive_percentage of each entry, raw Dec (scaled by 10^18)
}
type gidEntry struct {
	G uint64 `json:"g"`
	D string `json:"d"`
}
type intAns struct {
	Pool uint64 `json:"pool"`
	G    uint64 `json:"g"`
}
type nlAns struct {
	Pool uint64   `json:"pool"`
	Gs   []uint64 `json:"gs"`
}
type incAns struct {
	OK   bool     `json:"ok"`
	Err  string   `json:"err,omitempty"`
	List []linkPG `json:"list"`
}
type queries struct {
	Lockable []string `json:"lockable"`
	Longest  string   `json:"longest"`
	GaugeIds []gidAns `json:"gaugeIds"`
	Internal []intAns `json:"internal"`
	NoLock   []nlAns  `json:"nolock"`
	GetG     []linkPG `json:"getg"`
	GetP     []linkPG `json:"getp"`
	Inc      incAns   `json:"inc"`
}

func (w *world) probeDurs() []time.Duration {
	return append(append([]time.Duration{}, w.durs...), w.epochDur, time.Nanosecond, 5*time.Minute)
}

func (w *world) queries(rng *rand.Rand, st state) queries {
	pk := w.App.PoolIncentivesKeeper
	q := pikeeper.NewQuerier(*pk)
	res := queries{Lockable: []string{}, GaugeIds: []gidAns{}, Internal: []intAns{}, NoLock: []nlAns{}, GetG: []linkPG{}, GetP: []linkPG{}}
	ld, err := q.LockableDurations(w.Ctx, &pitypes.QueryLockableDurationsRequest{})
	if err != nil {
		panic(err)
	}
	for _, d := range ld.LockableDurations {
		res.Lockable = append(res.Lockable, d.String())
	}
	lg, err := pk.GetLongestLockableDuration(w.Ctx)
	if err != nil {
		panic(err)
	}
	res.Longest = lg.String()
	for _, p := range st.Pools {
		a := gidAns{Pool: p.ID, Ids: []gidEntry{}, Pcts: []tracelog.Big{}}
		var r *pitypes.QueryGaugeIdsResponse
		oc := w.Peek(func(ctx sdk.Context) error { // a gRPC query that panics is answered with an error
			var err error
			r, err = q.GaugeIds(ctx, &pitypes.QueryGaugeIdsRequest{PoolId: p.ID})
			return err
		})
		a.OK, a.Err = oc.OK, oc.Err
		if oc.OK {
			for _, e := range r.GaugeIdsWithDuration {
				a.Ids = append(a.Ids, gidEntry{G: e.GaugeId, D: e.Duration.String()})
				a.Pcts = append(a.Pcts, apphelp.BigD(osmomath.MustNewDecFromStr(e.GaugeIncentivePercentage)))
			}
		}
		res.GaugeIds = append(res.GaugeIds, a)
		g, err := pk.GetInternalGaugeIDForPool(w.Ctx, p.ID)
		if err != nil {
			g = 0
		}
		res.Internal = append(res.Internal, intAns{Pool: p.ID, G: g})
		ids, err := pk.GetNoLockGaugeIdsFromPool(w.Ctx, p.ID)
		if err != nil {
			panic(err)
		}
		if ids == nil {
			ids = []uint64{}
		}
		res.NoLock = append(res.NoLock, nlAns{Pool: p.ID, Gs: ids})
	}
	pd := w.probeDurs()
	for k := 0; k < 6; k++ { // sampled point queries, hits and misses
		d := pd[rng.Intn(len(pd))]
		if len(st.Pools) > 0 {
			p := st.Pools[rng.Intn(len(st.Pools))].ID + uint64(rng.Intn(8)/7) // sometimes a pool that does not exist
			g, err := pk.GetPoolGaugeId(w.Ctx, p, d)
			if err != nil {
				g = 0
			}
			res.GetG = append(res.GetG, linkPG{P: p, D: d.String(), G: g})
		}
		if len(st.Gauges) > 0 {
			g := st.Gauges[rng.Intn(len(st.Gauges))].ID + uint64(rng.Intn(8)/7)
			p, err := pk.GetPoolIdFromGaugeId(w.Ctx, g, d)
			if err != nil {
				p = 0
			}
			res.GetP = append(res.GetP, linkPG{G: g, D: d.String(), P: p})
		}
	}
	res.Inc = incAns{List: []linkPG{}}
	var ip *pitypes.QueryIncentivizedPoolsResponse
	oc := w.Peek(func(ctx sdk.Context) error {
		var err error
		ip, err = q.IncentivizedPools(ctx, &pitypes.QueryIncentivizedPoolsRequest{})
		return err
	})
	if !oc.OK {
		res.Inc.Err = oc.Err
	} else {
		res.Inc.OK = true
		for _, e := range ip.IncentivizedPools {
			res.Inc.List = append(res.Inc.List, linkPG{P: e.PoolId, D: e.LockableDuration.String(), G: e.GaugeId})
		}
	}
	return res
}

// ---------------------------------------------------------------------------
// the entry points driven

type propRec struct {
	G uint64
	W osmomath.Int
}

func (w *world) gaugeIDs() map[uint64]bool {
	m := map[uint64]bool{}
	for _, g := range w.App.IncentivesKeeper.GetGauges(w.Ctx) {
		m[g.Id] = true
	}
	return m
}

// createPool delivers the real pool creation message; returns the pool id and the new gauges: for a
// classic pool the gauge of every lockable duration in that order (as x/incentives describes them),
// followed by any other new gauge
func (w *world) createPool(sub string, a, b string) (apphelp.Outcome, uint64, []uint64) {
	before := w.gaugeIDs()
	next := w.App.PoolManagerKeeper.GetNextPoolId(w.Ctx)
	var msg sdk.Msg
	amt := func(n int64) osmomath.Int { return osmomath.NewInt(n) }
	switch sub {
	case "balancer":
		m := balancer.NewMsgCreateBalancerPool(w.creator, balancer.PoolParams{SwapFee: osmomath.ZeroDec(), ExitFee: osmomath.ZeroDec()},
			[]balancer.PoolAsset{{Weight: amt(1), Token: sdk.NewCoin(a, amt(1_000_000))}, {Weight: amt(2), Token: sdk.NewCoin(b, amt(2_000_000))}}, "")
		msg = &m
	case "stableswap":
		m := stableswap.NewMsgCreateStableswapPool(w.creator, stableswap.PoolParams{SwapFee: osmomath.ZeroDec(), ExitFee: osmomath.ZeroDec()},
			sdk.NewCoins(sdk.NewCoin(a, amt(1_000_000)), sdk.NewCoin(b, amt(1_000_000))), []uint64{1, 1}, "")
		msg = &m
	case "cl":
		m := clmodel.NewMsgCreateConcentratedPool(w.creator, a, b, 100, osmomath.ZeroDec())
		msg = &m
	default:
		panic(sub)
	}
	_, oc := w.Msg(msg)
	if !oc.OK {
		return oc, 0, []uint64{}
	}
	if w.App.PoolManagerKeeper.GetNextPoolId(w.Ctx) != next+1 {
		panic("pool creation did not allocate exactly one pool id")
	}
	gs := w.App.IncentivesKeeper.GetGauges(w.Ctx)
	sort.Slice(gs, func(i, j int) bool { return gs[i].Id < gs[j].Id })
	used := map[uint64]bool{}
	res := []uint64{}
	if sub != "cl" {
		for _, d := range w.durs {
			for _, g := range gs {
				if !before[g.Id] && !used[g.Id] && g.DistributeTo.Duration == d {
					res = append(res, g.Id)
					used[g.Id] = true
					break
				}
			}
		}
	}
	for _, g := range gs {
		if !before[g.Id] && !used[g.Id] {
			res = append(res, g.Id)
		}
	}
	return oc, next, res
}

func (w *world) createExt(perp bool, kind string, pool uint64, d time.Duration, c, o osmomath.Int) (apphelp.Outcome, uint64) {
	coins := sdk.NewCoins()
	if c.IsPositive() {
		coins = coins.Add(sdk.NewCoin(minted, c))
	}
	if o.IsPositive() {
		coins = coins.Add(sdk.NewCoin(other, o))
	}
	cond := lockuptypes.QueryCondition{LockQueryType: lockuptypes.ByDuration, Denom: fmt.Sprintf("gamm/pool/%d", pool), Duration: d}
	pid := uint64(0)
	if kind == "nolock" {
		cond = lockuptypes.QueryCondition{LockQueryType: lockuptypes.NoLock, Denom: "", Duration: d}
		pid = pool
	}
	n := uint64(1)
	if !perp {
		n = 3
	}
	var id uint64
	oc := w.Try(func(ctx sdk.Context) error {
		var err error
		id, err = w.App.IncentivesKeeper.CreateGauge(ctx, perp, w.creator, coins, cond, ctx.BlockTime(), n, pid)
		return err
	})
	return oc, id
}

// propose runs a proposal the way governance does: ValidateBasic at submission, the module's handler on execution
func (w *world) propose(kind string, recs []propRec) apphelp.Outcome {
	rs := make([]pitypes.DistrRecord, 0, len(recs))
	for _, r := range recs {
		rs = append(rs, pitypes.DistrRecord{GaugeId: r.G, Weight: r.W})
	}
	h := poolincentives.NewPoolIncentivesProposalHandler(*w.App.PoolIncentivesKeeper)
	return w.Try(func(ctx sdk.Context) error {
		if kind == "replace" {
			c := pitypes.NewReplacePoolIncentivesProposal("title", "description", rs)
			if err := c.ValidateBasic(); err != nil {
				return fmt.Errorf("validate-basic: %w", err)
			}
			return h(ctx, c)
		}
		c := pitypes.NewUpdatePoolIncentivesProposal("title", "description", rs)
		if err := c.ValidateBasic(); err != nil {
			return fmt.Errorf("validate-basic: %w", err)
		}
		return h(ctx, c)
	})
}

func (w *world) fund(x, y osmomath.Int, yDenom string) {
	cs := sdk.NewCoins()
	if x.IsPositive() {
		cs = cs.Add(sdk.NewCoin(minted, x))
	}
	if y.IsPositive() {
		cs = cs.Add(sdk.NewCoin(yDenom, y))
	}
	w.FundModuleAcc(pitypes.ModuleName, cs)
}

// alloc: the hook the mint module calls (panics on error) or AllocateAsset itself
func (w *world) alloc(viaHook bool) apphelp.Outcome {
	return w.Try(func(ctx sdk.Context) error {
		if viaHook {
			w.App.PoolIncentivesKeeper.Hooks().AfterDistributeMintedCoin(ctx)
			return nil
		}
		return w.App.PoolIncentivesKeeper.AllocateAsset(ctx)
	})
}

// mint: the real epoch hook of x/mint with the provision set to prov (a Dec); returns the growth of the bank supply
func (w *world) mint(prov osmomath.Dec) (apphelp.Outcome, osmomath.Int) {
	w.App.MintKeeper.SetMinter(w.Ctx, minttypes.Minter{EpochProvisions: prov})
	w.mintEpoch++
	before := w.App.BankKeeper.GetSupply(w.Ctx, minted).Amount
	oc := w.Try(func(ctx sdk.Context) error { return w.App.MintKeeper.AfterEpochEnd(ctx, w.mintIdent, w.mintEpoch) })
	return oc, w.App.BankKeeper.GetSupply(w.Ctx, minted).Amount.Sub(before)
}

// ---------------------------------------------------------------------------
// random values

func randBelow(rng *rand.Rand, n *big.Int) *big.Int { return new(big.Int).Rand(rng, n) }

// logUniform: 1 <= v < 10^hi, uniform in the number of digits between lo and hi
func logUniform(rng *rand.Rand, lo, hi int) *big.Int {
	d := lo + rng.Intn(hi-lo+1)
	if d == 0 {
		return big.NewInt(int64(1 + rng.Intn(9)))
	}
	v := new(big.Int).Add(pow10(d-1), randBelow(rng, new(big.Int).Mul(pow10(d-1), big.NewInt(9))))
	return v
}

// amounts: tiny (where rounding decides), realistic (micro-units of a real supply), huge (18-decimal tokens)
func randAmount(rng *rand.Rand, regime int) osmomath.Int {
	switch regime {
	case 0:
		return osmomath.NewInt(int64(1 + rng.Intn(60)))
	case 1:
		return osmomath.NewIntFromBigInt(logUniform(rng, 3, 15))
	default:
		return osmomath.NewIntFromBigInt(logUniform(rng, 18, 28))
	}
}

func randWeight(rng *rand.Rand, regime int) osmomath.Int {
	switch regime {
	case 0:
		return osmomath.NewInt(int64(1 + rng.Intn(10)))
	case 1:
		return osmomath.NewInt(int64(1 + rng.Intn(2_000_000)))
	default:
		return osmomath.NewIntFromBigInt(logUniform(rng, 8, 24))
	}
}

func recsJSON(rs []propRec) []recSt {
	out := []recSt{}
	for _, r := range rs {
		out = append(out, recSt{G: r.G, W: apphelp.BigI(r.W)})
	}
	return out
}

// genProposal: a proposal over gauge 0 and the gauges of st; shape "" = well formed
func genProposal(rng *rand.Rand, st state, kind string, wRegime int) ([]propRec, string) {
	cands := []uint64{0}
	nonperp := []uint64{}
	last := uint64(0)
	for _, g := range st.Gauges {
		if g.Perp {
			cands = append(cands, g.ID)
		} else {
			nonperp = append(nonperp, g.ID)
		}
		last = g.ID
	}
	n := 1 + rng.Intn(6)
	if n > len(cands) {
		n = len(cands)
	}
	if rng.Intn(12) == 0 && len(cands) > n {
		n = len(cands)
		if n > 12 {
			n = 12
		}
	}
	rng.Shuffle(len(cands), func(i, j int) { cands[i], cands[j] = cands[j], cands[i] })
	pick := append([]uint64{}, cands[:n]...)
	if kind == "update" && len(st.Recs) > 0 && rng.Intn(2) == 0 { // mention a registered gauge
		g := st.Recs[rng.Intn(len(st.Recs))].G
		found := false
		for _, x := range pick {
			found = found || x == g
		}
		if !found {
			pick[0] = g
		}
	}
	sort.Slice(pick, func(i, j int) bool { return pick[i] < pick[j] })
	rs := []propRec{}
	zeroP := 10
	if kind == "update" {
		zeroP = 3
	}
	for _, g := range pick {
		wt := randWeight(rng, wRegime)
		if rng.Intn(zeroP) == 0 {
			wt = osmomath.ZeroInt()
		}
		rs = append(rs, propRec{G: g, W: wt})
	}
	if rng.Intn(25) == 0 { // equal weights: exact thirds, sevenths ...
		for i := range rs {
			rs[i].W = osmomath.NewInt(1)
		}
	}
	shape := ""
	if rng.Intn(100) < 28 {
		switch rng.Intn(7) {
		case 0:
			if len(rs) >= 2 {
				i := rng.Intn(len(rs) - 1)
				rs[i], rs[i+1] = rs[i+1], rs[i]
				shape = "descending"
			}
		case 1:
			i := rng.Intn(len(rs))
			rs = append(rs[:i+1], rs[i:]...)
			shape = "duplicate"
		case 2:
			rs = append(rs, propRec{G: last + 1 + uint64(rng.Intn(4)), W: randWeight(rng, wRegime)})
			shape = "unknown-gauge"
		case 3:
			if len(nonperp) > 0 {
				rs = append(rs, propRec{G: nonperp[rng.Intn(len(nonperp))], W: randWeight(rng, wRegime)})
				sort.Slice(rs, func(i, j int) bool { return rs[i].G < rs[j].G })
				shape = "non-perpetual"
			}
		case 4:
			rs[rng.Intn(len(rs))].W = osmomath.NewInt(int64(-1 - rng.Intn(5)))
			shape = "negative"
		case 5:
			rs = []propRec{}
			shape = "empty"
		case 6:
			if len(rs) >= 2 { // a duplicate that is not adjacent
				rs = append(rs, rs[0])
				shape = "duplicate-last"
			}
		}
	}
	return rs, shape
}

// ---------------------------------------------------------------------------
// impl -> spec

var durPool = []time.Duration{time.Hour, 3 * time.Hour, 7 * time.Hour, 24 * time.Hour, 168 * time.Hour, 336 * time.Hour}

func TestRecord(t *testing.T) {
	out := os.Getenv("VERIF_OUT")
	if out == "" {
		t.Skip("VERIF_OUT not set")
	}
	seed := tracelog.EnvInt("VERIF_SEED", 1)
	nh := int(tracelog.EnvInt("VERIF_HISTORIES", 8))
	ns := int(tracelog.EnvInt("VERIF_STEPS", 50))
	maxRegime := int(tracelog.EnvInt("VERIF_MAX_REGIME", 2)) // 1: leave the 18-decimal amounts out
	rng := rand.New(rand.NewSource(seed*104729 + 3))
	tw, err := tracelog.NewWriter(out)
	if err != nil {
		t.Fatal(err)
	}
	for hi := 0; hi < nh; hi++ {
		// configuration: 1-4 lockable durations (in any order), the distribution epoch
		nd := 1 + rng.Intn(4)
		perm := rng.Perm(len(durPool))
		durs := []time.Duration{}
		for _, i := range perm[:nd] {
			durs = append(durs, durPool[i])
		}
		if hi%3 != 0 {
			sort.Slice(durs, func(i, j int) bool { return durs[i] < durs[j] })
		}
		ident := []string{"week", "day"}[hi%2]
		w := newWorld(t, durs, ident)
		ds := []string{}
		for _, d := range durs {
			ds = append(ds, d.String())
		}
		// the amounts of this history: hi%4 == 3 histories reach 18-decimal amounts
		regime := func() int {
			if hi%4 == 3 && maxRegime >= 2 {
				return []int{0, 1, 2, 2}[rng.Intn(4)]
			}
			return rng.Intn(2)
		}
		wRegime := []int{0, 0, 1, 1, 2}[rng.Intn(5)]
		st := w.state()
		tw.Emit(map[string]any{"e": "cfg", "id": hi + 1, "durs": ds, "epoch": w.epochDur.String(), "st": st, "seedinfo": fmt.Sprintf("seed %d history %d", seed, hi)})
		emit := func(ev map[string]any) {
			st = w.state()
			ev["st"] = st
			ev["q"] = w.queries(rng, st)
			tw.Emit(ev)
		}
		denoms := []string{other, third, "baz", minted}
		for si := 0; si < ns; si++ {
			if rng.Intn(3) == 0 {
				w.AdvanceTime(time.Duration(1+rng.Intn(100000)) * time.Second)
			}
			k := rng.Intn(100)
			switch {
			case si == 0 || k < 9: // create a pool
				sub := []string{"balancer", "stableswap", "cl", "cl"}[rng.Intn(4)]
				a, b := denoms[rng.Intn(3)], minted
				if si == 0 {
					sub, a = "balancer", other
				} else if rng.Intn(2) == 0 && sub != "cl" {
					b = denoms[rng.Intn(3)]
					for b == a {
						b = denoms[rng.Intn(3)]
					}
				}
				if si > 0 && sub != "cl" && rng.Intn(8) == 0 {
					a = "nofunds" // refused: the creator holds none of it
				}
				oc, pid, gs := w.createPool(sub, a, b)
				kind := "cfmm"
				if sub == "cl" {
					kind = "cl"
				}
				if oc.OK && si == 0 {
					w.App.ProtoRevKeeper.SetPoolForDenomPair(w.Ctx, other, minted, pid)
					w.routed = true
				}
				emit(map[string]any{"e": "pool", "kind": kind, "sub": sub, "ok": oc.OK, "err": oc.Err, "pool": pid, "gs": gs})
			case k < 17 && len(st.Pools) > 0: // a user creates a gauge
				p := st.Pools[rng.Intn(len(st.Pools))]
				perp := rng.Intn(2) == 0
				c, o := osmomath.ZeroInt(), osmomath.ZeroInt()
				if rng.Intn(4) != 0 {
					c = randAmount(rng, rng.Intn(2))
				}
				if w.routed && rng.Intn(3) == 0 {
					o = randAmount(rng, rng.Intn(2))
				}
				kind, d := "dur", append([]time.Duration{time.Second}, w.durs...)[rng.Intn(len(w.durs)+1)]
				if p.Kind == "cl" {
					kind, d = "nolock", time.Nanosecond
				}
				oc, g := w.createExt(perp, kind, p.ID, d, c, o)
				emit(map[string]any{"e": "ext", "perp": perp, "kind": kind, "pool": p.ID, "d": d.String(), "c": apphelp.BigI(c), "o": apphelp.BigI(o),
					"ok": oc.OK, "err": oc.Err, "g": g})
			case k < 45: // governance
				kind := []string{"replace", "update", "update"}[rng.Intn(3)]
				wr := wRegime
				if rng.Intn(6) == 0 {
					wr = rng.Intn(3)
				}
				rs, shape := genProposal(rng, st, kind, wr)
				oc := w.propose(kind, rs)
				emit(map[string]any{"e": kind, "recs": recsJSON(rs), "shape": shape, "ok": oc.OK, "err": oc.Err})
			case k < 60: // coins arrive in the module account
				x, y := osmomath.ZeroInt(), osmomath.ZeroInt()
				if rng.Intn(4) != 0 {
					x = randAmount(rng, regime())
				} else {
					y = randAmount(rng, rng.Intn(2))
				}
				w.fund(x, y, []string{other, third}[rng.Intn(2)])
				emit(map[string]any{"e": "fund", "x": apphelp.BigI(x), "y": apphelp.BigI(y)})
			case k < 78: // AllocateAsset
				hook := rng.Intn(3) != 0
				oc := w.alloc(hook)
				emit(map[string]any{"e": "alloc", "hook": hook, "ok": oc.OK, "panicked": oc.Panicked, "err": oc.Err})
			default: // a mint epoch
				amt := randAmount(rng, regime())
				if rng.Intn(12) == 0 {
					amt = osmomath.ZeroInt()
				}
				prov := amt.ToLegacyDec()
				if rng.Intn(2) == 0 {
					prov = prov.Add(osmomath.NewDecWithPrec(int64(rng.Intn(1000)), 3))
				}
				oc, x := w.mint(prov)
				emit(map[string]any{"e": "mint", "prov": prov.String(), "x": apphelp.BigI(x), "ok": oc.OK, "panicked": oc.Panicked, "err": oc.Err})
			}
		}
	}
	if err := tw.Close(); err != nil {
		t.Fatal(err)
	}
	fmt.Printf("RECORDED events=%d histories=%d\n", tw.N, nh)
}

// ---------------------------------------------------------------------------
// spec -> impl

type genRec struct {
	G int64 `json:"g"`
	W int64 `json:"w"`
}

type genLink struct {
	P int64  `json:"p"`
	D string `json:"d"`
	G int64  `json:"g"`
}

type genState struct {
	Pools []struct {
		ID   int64  `json:"id"`
		Kind string `json:"kind"`
	} `json:"pools"`
	Gauges []struct {
		ID   int64  `json:"id"`
		Perp bool   `json:"perp"`
		Kind string `json:"kind"`
		C    int64  `json:"c"`
		O    int64  `json:"o"`
	} `json:"gauges"`
	P2G    []genLink `json:"p2g"`
	G2P    []genLink `json:"g2p"`
	NoLock []genLink `json:"nolock"`
	Recs   []genRec  `json:"recs"`
	TW     int64     `json:"tw"`
	Led    struct {
		Mod, Modo, Comm, Inc int64
	} `json:"led"`
}

type genStep struct {
	A    string   `json:"a"`
	Kind string   `json:"kind"`
	Pool int64    `json:"pool"`
	Gs   []int64  `json:"gs"`
	G    int64    `json:"g"`
	Perp bool     `json:"perp"`
	D    string   `json:"d"`
	C    int64    `json:"c"`
	O    int64    `json:"o"`
	Recs []genRec `json:"recs"`
	OK   bool     `json:"ok"`
	Shape string  `json:"shape"`
	X    int64    `json:"x"`
	Y    int64    `json:"y"`
	St   genState `json:"st"`
}

type behaviour struct {
	Steps []genStep `json:"steps"`
}

type mismatch struct {
	Behaviour int    `json:"behaviour"`
	Step      int    `json:"step"`
	What      string `json:"what"`
	Want      any    `json:"want"`
	Got       any    `json:"got"`
}

var modelDur = map[string]time.Duration{"d1": time.Hour, "d2": 3 * time.Hour, "ep": 168 * time.Hour, "up": time.Nanosecond}

func modelName(d string) string {
	for k, v := range modelDur {
		if v.String() == d {
			return k
		}
	}
	return d
}

func bigToI64(b tracelog.Big) int64 { return tracelog.DecBig(b).Int64() }

func linkKey(l genLink) string { return fmt.Sprintf("%d/%s/%d", l.P, l.D, l.G) }

func sameLinks(want []genLink, got []genLink) bool {
	a, b := []string{}, []string{}
	for _, l := range want {
		a = append(a, linkKey(l))
	}
	for _, l := range got {
		b = append(b, linkKey(l))
	}
	sort.Strings(a)
	sort.Strings(b)
	return strings.Join(a, ",") == strings.Join(b, ",")
}

func TestReplay(t *testing.T) {
	in := os.Getenv("VERIF_IN")
	if in == "" {
		t.Skip("VERIF_IN not set")
	}
	outp := tracelog.EnvStr("VERIF_OUT", in+".result")
	shard, nshard := 0, 1
	if s := os.Getenv("VERIF_SHARD"); s != "" {
		fmt.Sscanf(s, "%d/%d", &shard, &nshard)
	}
	// stream the behaviours: only the lines of this shard are decoded
	f, err := os.Open(in)
	if err != nil {
		t.Fatal(err)
	}
	defer f.Close()
	sc := bufio.NewScanner(f)
	sc.Buffer(make([]byte, 1<<20), 1<<28)
	mm := []mismatch{}
	kinds := map[string]int{}
	steps, done, accepted, rejected := 0, 0, 0, 0
	shapes := map[string]int{}
	var base *world
	for bi := 0; sc.Scan(); bi++ {
		if bi%nshard != shard || len(sc.Bytes()) == 0 {
			continue
		}
		var b behaviour
		if err := json.Unmarshal(sc.Bytes(), &b); err != nil {
			t.Fatalf("%s line %d: %v", in, bi+1, err)
		}
		if base == nil || done%2000 == 0 {
			base = newWorld(t, []time.Duration{modelDur["d1"], modelDur["d2"]}, "week")
		}
		done++
		// the behaviour runs on a branch of the fresh chain that is discarded afterwards
		w := &world{World: &apphelp.World{KeeperTestHelper: base.KeeperTestHelper}, creator: base.creator, durs: base.durs,
			epochDur: base.epochDur, mintIdent: base.mintIdent}
		cc, _ := base.Ctx.CacheContext()
		w.Ctx = cc
		st0 := w.state()
		comm0, fees := bigToI64(st0.Led.Comm), int64(0)
		pmap, gmap := map[uint64]int64{}, map[uint64]int64{0: 0} // code id -> model id
		rpm, rgm := map[int64]uint64{}, map[int64]uint64{0: 0}    // model id -> code id
		bad := func(si int, what string, want, got any) {
			mm = append(mm, mismatch{Behaviour: bi, Step: si, What: what, Want: want, Got: got})
		}
		for si, s := range b.Steps {
			steps++
			kinds[s.A]++
			switch s.A {
			case "pool":
				sub := "balancer"
				if s.Kind == "cl" {
					sub = "cl"
				} else if (bi+si)%2 == 1 {
					sub = "stableswap"
				}
				pre := w.state()
				oc, pid, gs := w.createPool(sub, []string{other, third, "baz"}[si%3], minted)
				if !oc.OK {
					bad(si, "pool creation failed", "ok", oc)
					break
				}
				if len(gs) != len(s.Gs) {
					bad(si, "number of gauges created for the pool", len(s.Gs), len(gs))
					break
				}
				pmap[pid], rpm[s.Pool] = s.Pool, pid
				for i, g := range gs {
					gmap[g], rgm[s.Gs[i]] = s.Gs[i], g
				}
				fees += bigToI64(w.state().Led.Comm) - bigToI64(pre.Led.Comm)
			case "ext":
				oc, g := w.createExt(s.Perp, s.Kind, rpm[s.Pool], modelDur[s.D], osmomath.NewInt(s.C), osmomath.NewInt(s.O))
				if !oc.OK {
					bad(si, "gauge creation failed", "ok", oc)
					break
				}
				gmap[g], rgm[s.G] = s.G, g
			case "replace", "update":
				rs := []propRec{}
				for _, r := range s.Recs {
					g, ok := rgm[r.G]
					if !ok {
						g = 1_000_000 + uint64(r.G) // the model's unknown gauge
					}
					rs = append(rs, propRec{G: g, W: osmomath.NewInt(r.W)})
				}
				oc := w.propose(s.A, rs)
				if s.OK {
					accepted++
				} else {
					rejected++
					shapes[s.Shape]++
				}
				if oc.OK != s.OK {
					bad(si, s.A+" outcome", s.OK, oc)
				}
			case "fund":
				w.fund(osmomath.NewInt(s.X), osmomath.NewInt(s.Y), third)
			case "alloc":
				oc := w.alloc(si%2 == 0)
				if oc.OK != s.OK {
					bad(si, "allocation outcome", s.OK, oc)
				}
			case "mint":
				oc, x := w.mint(osmomath.NewInt(s.X).ToLegacyDec())
				if oc.OK != s.OK {
					bad(si, "mint epoch outcome", s.OK, oc)
				} else if x.Int64() != s.X {
					bad(si, "minted amount", s.X, x.Int64())
				}
			default:
				t.Fatalf("unknown action %q", s.A)
			}
			if len(mm) > 0 && mm[len(mm)-1].Behaviour == bi {
				break
			}
			// compare the projected state, in the model's ids
			got, want := w.state(), s.St
			if len(got.Pools) != len(want.Pools) {
				bad(si, "number of pools", len(want.Pools), len(got.Pools))
				break
			}
			for _, p := range got.Pools {
				id, ok := pmap[p.ID]
				if !ok || int(id) > len(want.Pools) || want.Pools[id-1].Kind != p.Kind {
					bad(si, "pool", want.Pools, p)
				}
			}
			if len(got.Gauges) != len(want.Gauges) {
				bad(si, "number of gauges", len(want.Gauges), len(got.Gauges))
				break
			}
			for _, g := range got.Gauges {
				id, ok := gmap[g.ID]
				if !ok || int(id) > len(want.Gauges) {
					bad(si, "gauge nobody asked for", nil, g)
					continue
				}
				x := want.Gauges[id-1]
				if x.Perp != g.Perp || x.Kind != g.Kind || x.C != bigToI64(g.C) || x.O != bigToI64(g.O) {
					bad(si, fmt.Sprintf("gauge %d (model id %d)", g.ID, id), x, g)
				}
			}
			tr := func(ls []linkPG) []genLink {
				r := []genLink{}
				for _, l := range ls {
					r = append(r, genLink{P: pmap[l.P], D: modelName(l.D), G: gmap[l.G]})
				}
				return r
			}
			if !sameLinks(want.P2G, tr(got.P2G)) {
				bad(si, "pool -> gauge links", want.P2G, tr(got.P2G))
			}
			if !sameLinks(want.G2P, tr(got.G2P)) {
				bad(si, "gauge -> pool links", want.G2P, tr(got.G2P))
			}
			nl := []genLink{}
			for _, l := range got.NoLock {
				nl = append(nl, genLink{P: pmap[l.P], G: gmap[l.G]})
			}
			if !sameLinks(want.NoLock, nl) {
				bad(si, "no-lock links", want.NoLock, nl)
			}
			// registry: exact after a replace; after an update a record of weight zero nobody mentioned may stay or go
			gr := []genRec{}
			for _, r := range got.Recs {
				gr = append(gr, genRec{G: gmap[r.G], W: bigToI64(r.W)})
			}
			wr := want.Recs
			if s.A == "update" && s.OK {
				mentioned := map[int64]bool{}
				for _, r := range s.Recs {
					mentioned[r.G] = true
				}
				f := func(rs []genRec) []genRec {
					o := []genRec{}
					for _, r := range rs {
						if r.W != 0 || mentioned[r.G] {
							o = append(o, r)
						}
					}
					return o
				}
				gr, wr = f(gr), f(wr)
			}
			if fmt.Sprint(gr) != fmt.Sprint(wr) {
				bad(si, "registry records", wr, gr)
			}
			if bigToI64(got.TW) != want.TW {
				bad(si, "total weight", want.TW, bigToI64(got.TW))
			}
			led := map[string][2]int64{"module account": {want.Led.Mod, bigToI64(got.Led.Mod)}, "module account, other coins": {want.Led.Modo, bigToI64(got.Led.Modo)},
				"community pool": {want.Led.Comm, bigToI64(got.Led.Comm) - comm0 - fees}, "incentives module account": {want.Led.Inc, bigToI64(got.Led.Inc)}}
			for _, k := range apphelp.SortedKeys(led) {
				if led[k][0] != led[k][1] {
					bad(si, k, led[k][0], led[k][1])
				}
			}
			if len(mm) > 0 && mm[len(mm)-1].Behaviour == bi {
				break
			}
		}
		if len(mm) >= 20 {
			break
		}
	}
	if err := sc.Err(); err != nil {
		t.Fatal(err)
	}
	res := map[string]any{"behaviours": done, "steps": steps, "mismatches": mm, "kinds": kinds,
		"proposals_accepted": accepted, "proposals_rejected": rejected, "rejected_shapes": shapes}
	bz, _ := json.Marshal(res)
	if err := os.WriteFile(outp, bz, 0o644); err != nil {
		t.Fatal(err)
	}
	fmt.Printf("REPLAYED behaviours=%d steps=%d mismatches=%d\n", done, steps, len(mm))
}
