module verif/harness

go 1.23.4
