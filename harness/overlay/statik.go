package statik
