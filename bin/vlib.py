"""Shared machinery of /verif/bin/check: building the Go harness against /repo's
working tree, running TLC (model checking, trace validation, behaviour
generation), verdicts, evidence and known findings.

Exit-code discipline (DESIGN 3.4): 0 = everything explored held; 1 = a property
statement is false on a real execution of the current tree (VIOLATION line);
2 = the machinery could not decide (build failure, timeout, tool error)."""
import json, os, re, shutil, subprocess, sys, time, glob, concurrent.futures

ROOT = os.path.dirname(os.path.dirname(os.path.abspath(__file__)))
BUILD = os.path.join(ROOT, "build")
SPEC = os.path.join(ROOT, "spec")
HARNESS = os.path.join(ROOT, "harness")
TLAJAR = "/opt/veriftools/tla/tla2tools.jar"
CMJAR = "/opt/veriftools/tla/CommunityModules-deps.jar"
JAVACLS = os.path.join(BUILD, "java")
NCPU = os.cpu_count() or 4


class Infra(Exception):
    """The machinery failed; never a verdict about the code."""


class Violation(Exception):
    def __init__(self, prop, what, detail=None, signature=None):
        super().__init__(what)
        self.prop, self.what, self.detail, self.signature = prop, what, detail or {}, signature


def log(*a):
    print("[check]", *a, flush=True)


# ---------------------------------------------------------------------------
# Go side

def go_env(extra=None):
    env = dict(os.environ)
    env.update({"GOFLAGS": "", "GOPROXY": "off", "GOSUMDB": "off", "GOTOOLCHAIN": "local",
                "GOWORK": os.path.join(HARNESS, "go.work")})
    if extra:
        env.update({k: str(v) for k, v in extra.items()})
    return env


def overlay_file():
    """harness/overlay.json merged with VERIF_EXTRA_OVERLAY (used by bin/selftest to
    run the checks against source mutants without editing /repo)."""
    base = json.load(open(os.path.join(HARNESS, "overlay.json")))
    extra = os.environ.get("VERIF_EXTRA_OVERLAY")
    if not extra:
        return os.path.join(HARNESS, "overlay.json")
    base["Replace"].update(json.load(open(extra))["Replace"])
    os.makedirs(BUILD, exist_ok=True)
    p = os.path.join(BUILD, "overlay.%d.json" % os.getpid())
    json.dump(base, open(p, "w"))
    return p


def disk_hygiene(min_free_gb=30):
    """The go build cache grows by gigabytes per mutated low-level package and crashed runs leave scratch
    directories behind; when space is short drop what has not been used for an hour."""
    try:
        st = os.statvfs(BUILD if os.path.isdir(BUILD) else ROOT)
        free_gb = st.f_bavail * st.f_frsize / 1e9
        if free_gb >= min_free_gb:
            return
        cache = subprocess.run(["go", "env", "GOCACHE"], capture_output=True, text=True, env=go_env()).stdout.strip()
        for d, pat in ((cache, None), (os.path.join(BUILD, "run"), None), (os.path.join(BUILD, "bin"), "*.[0-9]*.test")):
            if d and os.path.isdir(d):
                cmd = ["find", d, "-mindepth", "1", "-mmin", "+150"]
                if d == cache:
                    cmd += ["-type", "f"]
                elif pat:
                    cmd += ["-name", pat]
                else:
                    cmd += ["-maxdepth", "1"]
                subprocess.run(cmd + ["-exec", "rm", "-rf", "{}", "+"], capture_output=True)
        log("disk hygiene: %.0f GB were free; trimmed caches and stale scratch" % free_gb)
    except Exception as e:   # never let housekeeping decide anything
        log("disk hygiene skipped: %s" % e)


def ensure_harness():
    """go.work.sum must follow /repo; the java override classes must exist."""
    disk_hygiene()
    src = "/repo/go.work.sum"
    dst = os.path.join(HARNESS, "go.work.sum")
    if os.path.exists(src) and (not os.path.exists(dst) or open(src, "rb").read() != open(dst, "rb").read()):
        shutil.copy(src, dst)
    if not os.path.exists(os.path.join(JAVACLS, "BigNumOv.class")):
        build_java()


def build_java():
    os.makedirs(JAVACLS, exist_ok=True)
    srcs = glob.glob(os.path.join(SPEC, "lib", "java", "*.java"))
    r = subprocess.run(["javac", "-cp", TLAJAR, "-d", JAVACLS] + srcs, capture_output=True, text=True)
    if r.returncode != 0:
        raise Infra("javac failed:\n" + r.stdout + r.stderr)


def build_test(pkg, name, tags="verif", timeout=1500):
    """Compile the harness test binary for pkg from /repo's current working tree."""
    ensure_harness()
    os.makedirs(os.path.join(BUILD, "bin"), exist_ok=True)
    suffix = ".%d" % os.getpid() if os.environ.get("VERIF_EXTRA_OVERLAY") else ""
    out = os.path.join(BUILD, "bin", name + suffix + ".test")
    cmd = ["go", "test", "-c", "-vet=off", "-tags", tags, "-overlay", overlay_file(), "-o", out, pkg]
    t0 = time.time()
    try:
        r = subprocess.run(cmd, cwd=HARNESS, env=go_env(), capture_output=True, text=True, timeout=timeout)
    except subprocess.TimeoutExpired:
        raise Infra("go build timed out: " + pkg)
    if r.returncode != 0:
        raise Infra("go build failed for %s:\n%s" % (pkg, (r.stdout + r.stderr)[-4000:]))
    log("built %s in %.0fs" % (name, time.time() - t0))
    return out


def run_test(binary, test, env, timeout=1200, cwd=None):
    """Run one Test function of a harness binary; returns its stdout."""
    cmd = [binary, "-test.run", "^" + test + "$", "-test.timeout", "%ds" % (timeout + 60), "-test.count", "1"]
    try:
        r = subprocess.run(cmd, env=go_env(env), capture_output=True, text=True, timeout=timeout, cwd=cwd or BUILD)
    except subprocess.TimeoutExpired:
        raise Infra("harness %s %s timed out after %ds" % (os.path.basename(binary), test, timeout))
    if r.returncode != 0:
        raise Infra("harness %s %s failed (exit %d):\n%s" % (os.path.basename(binary), test, r.returncode,
                                                            (r.stdout + r.stderr)[-6000:]))
    return r.stdout


# ---------------------------------------------------------------------------
# TLC

class TLCResult:
    def __init__(self):
        self.generated = 0
        self.distinct = 0
        self.depth = 0
        self.ok = False
        self.violated = None      # name of the invariant / property violated
        self.rejected_line = None  # trace validation: first unexplained line
        self.error = None         # tool error text
        self.out = ""
        self.wall = 0.0
        self.prints = []          # PrintT lines
        self.last_l = None
        self.failed_checks = []


_scratch_n = [0]
_scratch_lock = __import__("threading").Lock()


def scratch(tag):
    with _scratch_lock:
        _scratch_n[0] += 1
        n = _scratch_n[0]
    d = os.path.join(BUILD, "run", "%s-%d-%d" % (tag, os.getpid(), n))
    os.makedirs(d, exist_ok=True)
    for pat in ("*.tla", "lib/*.tla", "mc/*.tla", "mc/*.cfg", "trace/*.tla", "trace/*.cfg", "gen/*.tla", "gen/*.cfg"):
        for f in glob.glob(os.path.join(SPEC, pat)):
            shutil.copy(f, d)
    # BigNumPure: the pure-TLA+ reference copy (never overridden)
    src = open(os.path.join(SPEC, "lib", "BigNum.tla")).read()
    open(os.path.join(d, "BigNumPure.tla"), "w").write(src.replace("MODULE BigNum ", "MODULE BigNumPure ", 1))
    return d


def tlc(main, cfg, workers=1, timeout=600, env=None, heap="4g", extra=None, tag="tlc", keep=False,
        simulate=None, depth=None, seed=None, dfs=False, outfile=None, cfg_text=None):
    """Run TLC on spec `main`.tla with config `cfg` in a fresh scratch copy of /verif/spec.
    cfg_text, if given, is written as `cfg` (tier-dependent constants)."""
    ensure_harness()
    d = scratch(tag)
    if cfg_text is not None:
        open(os.path.join(d, cfg), "w").write(cfg_text)
    out_path = outfile or os.path.join(d, "tlc.out")
    props = ["-Dtlc2.overrides.TLCOverrides=tlc2.overrides.TLCOverrides:VerifOverrides"]
    if dfs:
        props.append("-Dtlc2.tool.queue.IStateQueue=StateDeque")
    cmd = ["java", "-Xss512m", "-Xmx" + heap, "-XX:+UseParallelGC"] + props + \
          ["-cp", ":".join([TLAJAR, CMJAR, JAVACLS]), "tlc2.TLC", "-metadir", os.path.join(d, "md"),
           "-workers", str(workers), "-noTE", "-config", cfg]
    if simulate:
        cmd += ["-simulate", simulate]
    if depth:
        cmd += ["-depth", str(depth)]
    if seed is not None:
        cmd += ["-seed", str(seed)]
    cmd += (extra or []) + [main]
    e = dict(os.environ)
    e.pop("JAVA_TOOL_OPTIONS", None)
    if env:
        e.update({k: str(v) for k, v in env.items()})
    res = TLCResult()
    t0 = time.time()
    try:
        with open(out_path, "w") as fo:
            rc = subprocess.run(cmd, cwd=d, env=e, stdout=fo, stderr=subprocess.STDOUT, timeout=timeout).returncode
    except subprocess.TimeoutExpired:
        res.error = "TLC timed out after %ds (%s %s)" % (timeout, main, cfg)
        rc = -1
    res.wall = time.time() - t0
    res.out = out_path
    parse_tlc(out_path, res, rc)
    if not keep and not outfile:
        # keep only the (possibly large) output if something went wrong
        if res.ok:
            shutil.rmtree(d, ignore_errors=True)
        else:
            shutil.rmtree(os.path.join(d, "md"), ignore_errors=True)
    return res


RE_STATES = re.compile(r"^(\d+) states generated, (\d+) distinct states found")
RE_DEPTH = re.compile(r"The depth of the complete state graph search is (\d+)")
RE_INV = re.compile(r"Error: Invariant (\S+) is violated")
RE_ACT = re.compile(r"Error: Action property (\S+) is violated")
RE_TEMP = re.compile(r"Error: Temporal properties were violated")
RE_REJ = re.compile(r'"TRACE-REJECTED-AT-LINE",\s*(\d+)')
RE_L = re.compile(r"^/\\ l = (\d+)|^l = (\d+)")


def parse_tlc(path, res, rc):
    errs = []
    completed = False
    with open(path, errors="replace") as f:
        pending_rej = False
        for line in f:
            m = RE_STATES.match(line)
            if m:
                res.generated, res.distinct = int(m.group(1)), int(m.group(2))
                continue
            m = RE_DEPTH.search(line)
            if m:
                res.depth = int(m.group(1))
            if "Model checking completed. No error has been found." in line or \
               line.startswith("Finished computing") and False:
                completed = True
            m = RE_INV.search(line) or RE_ACT.search(line)
            if m and not res.violated:
                res.violated = m.group(1)
            if RE_TEMP.search(line) and not res.violated:
                res.violated = "temporal"
            m = RE_REJ.search(line)
            if m:
                res.rejected_line = int(m.group(1))
            elif '"TRACE-REJECTED-AT-LINE"' in line:
                pending_rej = True
            elif pending_rej:
                mm = re.match(r"\s*(\d+),", line)
                if mm:
                    res.rejected_line = int(mm.group(1))
                pending_rej = False
            m = RE_L.match(line)
            if m:
                res.last_l = int(m.group(1) or m.group(2))
            if line.startswith('<<"CHECK-FAILED"'):
                res.failed_checks.append(line.strip())
            if line.startswith("<<") and '"' in line[:6]:
                res.prints.append(line.rstrip("\n"))
            if line.startswith("Error:") or "Exception" in line:
                errs.append(line.strip())
    if res.error:
        return
    res.ok = completed and not res.violated and res.rejected_line is None and rc == 0
    if not res.ok and not res.violated and res.rejected_line is None:
        real = [e for e in errs if "Postcondition" not in e]
        res.error = "TLC failed (rc=%s): %s" % (rc, "; ".join(real[:4]) or "see " + path)


def tlc_must_pass(res, what):
    """For design-level model checking: a counterexample on the model alone is never a
    verdict about the code (DESIGN 3.4) - it is a spec/model problem => exit 2."""
    if res.error:
        raise Infra("%s: %s" % (what, res.error))
    if not res.ok:
        raise Infra("%s: model-level counterexample (%s) - the specification or its bounds need attention; see %s"
                    % (what, res.violated or "rejected", res.out))


# ---------------------------------------------------------------------------
# trace validation helpers

def split_histories(path, k, start_key="cfg"):
    """Split an ndjson trace into <= k chunks at history boundaries (lines with e == start_key).
    Returns [(chunk_path, first_line_number_in_original)]."""
    starts = []
    lines = open(path).read().split("\n")
    if lines and lines[-1] == "":
        lines.pop()
    for i, ln in enumerate(lines):
        if ln.startswith("{") and ('"e":"%s"' % start_key) in ln:
            starts.append(i)
    if not starts or starts[0] != 0:
        raise Infra("trace %s does not start with a %s line" % (path, start_key))
    k = max(1, min(k, len(starts)))
    per = (len(starts) + k - 1) // k
    chunks = []
    for c in range(0, len(starts), per):
        a = starts[c]
        b = starts[c + per] if c + per < len(starts) else len(lines)
        p = "%s.part%d" % (path, len(chunks))
        open(p, "w").write("\n".join(lines[a:b]) + "\n")
        chunks.append((p, a + 1, b - a))
    return chunks


def validate_trace(prop, main, cfg, trace_path, parallel=None, timeout=900, heap="3g", start_key="cfg",
                   describe=None):
    """Validate an ndjson trace of the real code against a trace spec, in parallel
    chunks.  Raises Violation on the first rejected line / violated invariant.
    Returns summed (generated, distinct, lines)."""
    parallel = parallel or min(NCPU, 16)
    chunks = split_histories(trace_path, parallel, start_key)
    gen = dist = nlines = 0

    def one(ch):
        p, first, n = ch
        return ch, tlc(main, cfg, workers=1, timeout=timeout, env={"TRACE_FILE": p}, heap=heap, tag=prop + "-trace")

    with concurrent.futures.ThreadPoolExecutor(max_workers=parallel) as ex:
        results = list(ex.map(one, chunks))
    for (p, first, n), r in results:
        if r.error:
            raise Infra("trace validation %s: %s" % (main, r.error))
        gen += r.generated
        dist += r.distinct
        nlines += n
        if not r.ok:
            if r.rejected_line is not None and not r.violated:
                ln = r.rejected_line
                what = "recorded step is not a step of the specification"
            else:
                ln = r.last_l if r.last_l else r.depth
                what = "property %s is false in a recorded state" % r.violated
            lines = open(p).read().split("\n")
            # context: from the start of the offending history to the offending line
            hstart = ln - 1
            while hstart > 0 and ('"e":"%s"' % start_key) not in lines[hstart]:
                hstart -= 1
            ctx = lines[hstart:ln]
            detail = {"spec": main, "cfg": cfg, "chunk_line": ln, "trace_line": first + ln - 1, "reason": what,
                      "violated": r.violated, "failed_checks": r.failed_checks[-3:], "offending_event": lines[ln - 1] if 0 < ln <= len(lines) else None,
                      "history_prefix": ctx[-400:], "tlc_output": r.out}
            if r.failed_checks and not r.violated:
                what += ": " + r.failed_checks[-1]
            raise Violation(prop, what + (" (%s)" % r.violated if r.violated else ""), detail)
    for p, _, _ in chunks:
        try:
            os.remove(p)
        except OSError:
            pass
    return gen, dist, nlines


def extract_gen(tlc_out, dest, tagname="GEN"):
    """Collect the JSON documents TLC printed as <<"GEN", "<json>">> into a jsonl file."""
    n = 0
    pref = '<<"%s", "' % tagname
    with open(tlc_out, errors="replace") as f, open(dest, "w") as g:
        for line in f:
            if line.startswith(pref):
                s = line.rstrip("\n")
                s = s[len(pref):]
                if s.endswith('">>'):
                    s = s[:-3]
                g.write(json.loads('"' + s + '"') + "\n")
                n += 1
    return n


# ---------------------------------------------------------------------------
# evidence, findings, verdicts

def known_findings():
    """/verif/known_findings.json (committed, read-only at run time).  For development only,
    VERIF_EXTRA_FINDINGS=<file>[:<file>] adds proposal files (docs/findings_cNN.json)."""
    res = []
    paths = [os.path.join(ROOT, "known_findings.json")] + [x for x in os.environ.get("VERIF_EXTRA_FINDINGS", "").split(":") if x]
    # the extra checks X01.. (specs beyond the listed properties, DESIGN section 10) keep their findings next to their docs
    paths += sorted(glob.glob(os.path.join(ROOT, "docs", "findings_x[0-9]*.json")))
    for p in paths:
        if os.path.exists(p):
            res += json.load(open(p)).get("findings", [])
    return res


def write_evidence(prop, tier, seed, level, coverage, wall, assumptions, violations=0):
    # VERIF_EVIDENCE_DIR: development aid (bin/selftest, bin/seedcheck run the checks against mutated trees
    # and must not overwrite the evidence of the unchanged tree)
    edir = os.environ.get("VERIF_EVIDENCE_DIR") or os.path.join(ROOT, "evidence")
    if prop.startswith("X") and not os.environ.get("VERIF_EVIDENCE_DIR"):
        edir = os.path.join(edir, "extra")      # specs beyond the listed properties (DESIGN section 10)
    os.makedirs(edir, exist_ok=True)
    ev = {"property_id": prop, "tier": tier, "seed": int(seed), "level": level, "coverage": coverage,
          "assumptions": assumptions, "wall_s": round(wall, 1), "violations": violations}
    json.dump(ev, open(os.path.join(edir, prop + ".json"), "w"), indent=1)


def write_replay(prop, seed, tier, leg, params, detail):
    d = os.path.join(ROOT, "replays", prop)
    os.makedirs(d, exist_ok=True)
    n = len(glob.glob(os.path.join(d, "%s-*.json" % seed)))
    p = os.path.join(d, "%s-%d.json" % (seed, n))
    json.dump({"property": prop, "tier": tier, "seed": int(seed), "leg": leg, "params": params, "detail": detail},
              open(p, "w"), indent=1)
    return p


def cleanup_scratch():
    for d in glob.glob(os.path.join(BUILD, "run", "*-%d-*" % os.getpid())):
        shutil.rmtree(d, ignore_errors=True)
    p = os.path.join(BUILD, "overlay.%d.json" % os.getpid())
    if os.path.exists(p):
        os.remove(p)
    if os.environ.get("VERIF_EXTRA_OVERLAY"):
        for f in glob.glob(os.path.join(BUILD, "bin", "*.%d.test" % os.getpid())):
            os.remove(f)
