HOOKS = {
    "guard": "verif",
    "enable": "go test -tags verif -overlay /verif/harness/overlay.json (harness module /verif/harness with a go.work that uses /repo)",
    "baseline_off_cmd": "for m in . osmomath osmoutils x/epochs x/ibc-hooks; do (cd /repo/$m && go test -json -vet=off -count=1 -timeout 25m ./...); done",
    "source_commits": [],
    "add_only": True,
}
NOTES = ("Every check is `bin/check <id>`: TLC model-checks the TLA+ spec of the module, TLC-generated behaviours are "
         "replayed into the real code, and executions recorded from the real code are validated by TLC against the "
         "trace spec. Exit 2 means the machinery could not decide (never a verdict). No instrumentation hooks were "
         "needed so far: the state machine is sequential and the abstract state is observable through exported APIs.")
ENGINES = [
    {"name": "tlc", "path": "/verif/bin/vlib.py", "serves_properties": [], "kind_free_text":
     "TLC 1.8 explicit-state model checker on /verif/spec (exhaustive MC configs, trace validation with IOEnv trace files, behaviour generation); BigNum java override differential-tested in setup"},
    {"name": "go-harness", "path": "/verif/harness", "serves_properties": [], "kind_free_text":
     "Go test binaries built from /repo's working tree through a go.work + -overlay; recorders emit ndjson traces, replayers execute TLC-generated behaviours"},
]
TRUST = "Trusted: TLC evaluator, Json/IOUtils community modules, harness projection functions (shared by both binding directions), go -overlay."
# checks that are finished, reviewed and registered (others are work in progress)
ENABLED = ["C01", "C02", "C03", "C04", "C05", "C06", "C07", "C08", "C09", "C10", "C11", "C12", "C13", "C14", "C15", "C16", "C17", "C18", "C19", "C20"]
CHECKS = {}   # filled from the MANIFEST dict of each bin/checks/cNN.py
NOT_APPLICABLE = {}
