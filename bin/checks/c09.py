"""C09 - incentive gauges pay pro-rata, on schedule, and never more than they hold.
Spec: spec/Incentives.tla (EXTENDS Lockup: gauges, incentives module account, configuration, ghost `paid`).
Legs: exhaustive TLC on bounded models of the property's own reading (no deviation); spec->impl replay of the
prefix tree of one behaviour per distinct (state, last action) of the code-following bounded model on the real
msg servers / epoch hook of the full app; impl->spec validation of recorded random histories (gauges with 1-3
reward denominations, receivers != owner, locks added / unlocking / unlocked between epochs, 10-40 epoch ends).
Rules the code has and the property does not are NAMED deviations of the epoch-end action; every step where one of
them changes the outcome on the real code is reported as a finding (ctx.finding).
Design level, unbounded: Apalache inductive invariant + TLAPS proof of the gauge budget arithmetic (spec/apa/IncentivesInd.tla,
IncentivesProof.tla; apalache_leg)."""
import concurrent.futures, json, os, re, time
import vlib
import checks.apalache as apalache
from vlib import Infra, Violation, log

TRUST = ("Trusted: TLC evaluator, Json/IOUtils community modules, harness projection functions "
         "(shared by both binding directions), go -overlay.")
MANIFEST = {
    "engine": "tlc+go-harness", "design_ref": "DESIGN.md section 4 (C09), section 7 item 6",
    "technique": "TLA+ spec Incentives.tla (extends Lockup.tla) with the epoch end as one deterministic action; TLC exhaustive MC of "
                 "the property's reading; TLC-generated behaviours of the code-following model replayed as a prefix tree on the real "
                 "msg servers and AfterEpochEnd hook of the full app; recorded random histories trace-validated by TLC; Apalache inductive "
                 "invariant + TLAPS proof of the gauge budget arithmetic over unbounded integers (design level)",
    "text": "Incentives.tla models MsgCreateGauge / MsgAddToGauge (fees, deposits, upcoming list), the lockup actions and the incentives "
            "AfterEpochEnd hook: activation of upcoming gauges with start <= block time, per active gauge the payment "
            "floor(remaining * lockAmt / (totalQualifying * remainingEpochs)) per coin to each qualifying lock's reward receiver unless worth "
            "less than the configured minimum (per-denomination threshold through the registered pool; no route = never), bookkeeping "
            "of distributed coins / filled epochs, finishing. Invariants: distributed <= coins, ghost paid = distributed <= deposit, "
            "module account >= sum of undistributed remainders of unfinished gauges, lifecycle (finished <=> all epochs filled); step "
            "properties: activation exactly at the first epoch end at or after the start time, finished gauges are final, one epoch at a "
            "time and only at epoch ends, the module account pays only at epoch ends and exactly what the gauges record. TLC checks them "
            "exhaustively on bounded models (2 gauges, one perpetual, <= 3 locks, <= 4 epochs, amounts <= 12). The code-following model "
            "(named deviations: 100-unit 'spam' skip, finish without qualifying locks in the last epoch, per-owner batching of receivers) "
            "is replayed on the real app state by state; random histories are validated line by line and every line where a deviation "
            "changes the outcome is reported as a finding. One recorded history in six is a 'big' history: one reward denomination is logged "
            "in units of 10^12 base units and enters gauges in multiples of lcm(1..12)*lcm(1..6) units (6..11 multiples = 2^63..2^64 base units, "
            "12 and more above 2^64), gauges run over <= 6 epochs and the locks of a denomination hold <= 12 tokens, so that every share the code "
            "has to compute is a whole number of units and amounts beyond the native word are decided by the same specification. Design level, unbounded parameters: for any deposit, top-ups, number of epochs, "
            "perpetual or not, any other gauges sharing the module account and ANY per-epoch payout with payout * remainingEpochs <= remaining "
            "(what the sum of floor shares guarantees), distributed <= deposited, paid = recorded, module account >= undistributed remainders of "
            "unfinished gauges, finished exactly when numEpochs paying epochs are filled and final afterwards are an inductive invariant (plus "
            "action invariants) of the typed sub-model spec/apa/IncentivesInd.tla, checked by Apalache (initiation, consecution, implication, "
            "three broken variants that must fail) and, for the state invariant, proved by TLAPS (IncentivesProof.tla); lock sets, receivers "
            "and the named deviations are outside that sub-model and the binding to "
            "the Go code remains the TLC trace/replay legs.",
    "note": TRUST + " Transactions and the epoch hook are emulated as baseapp / x/epochs do (ValidateBasic, cache context written only on "
            "success, panics recovered). The per-denomination minimum amount is read from the pool registered for the pair (swap of the "
            "minimum value without fee), the same source the module uses. NoLock (CL), ByGroup and synthetic-denomination gauges and gauges "
            "created without coins are out of scope of this version.",
}
BUILD = [("./app/incentives/", "incentives")]

SIG = {
    "spam": "epoch:spam-skip:single-remaining-coin<=100-units:share-worth>=minimum-not-paid",
    "idlefinish": "epoch:finish:last-epoch-without-qualifying-locks:finished-with-filled<numEpochs",
    "ownerbatch": "epoch:payout:owner-with-locks-of-different-receivers:all-paid-to-one-receiver",
    "zero": "epoch:hook-fails:minimum-value-buys-less-than-one-unit-of-a-reward-denom",
    "blocked": "epoch:hook-fails:reward-receiver-of-one-lock-is-a-blocked-module-account",
}
WHAT = {
    "spam": "an active gauge whose only remaining coin is <= 100 units (denom != 'stake') pays nothing although the shares are worth at "
            "least the configured minimum; the epoch is still counted (skipSpamGaugeDistribute), so the amount is never paid",
    "idlefinish": "a non-perpetual gauge with one epoch left and no qualifying lock at the epoch end is moved to the finished list with "
                  "FilledEpochs < NumEpochsPaidOver (checkFinishDistribution uses the copy read before the distribution); its remaining coins "
                  "stay in the module account for ever and MsgAddToGauge still accepts top-ups for it",
    "ownerbatch": "when one owner has two paid locks with different reward receivers, all payments go to the receiver of the lock met first "
                  "(distributionInfo is keyed by lock owner), not to each lock's reward receiver",
    "zero": "when the configured minimum value buys less than one unit of a reward denomination held by an active gauge with qualifying "
            "locks, CalcOutAmtGivenIn fails and the whole epoch-end distribution of every gauge fails, at every epoch",
    "blocked": "MsgSetRewardReceiverAddress accepts an address that may not receive funds (a blocked module account); from then on the batched "
               "payout (SendCoinsFromModuleToManyAccounts) fails and with it the whole epoch-end distribution: no lock of any owner is paid by "
               "any gauge, at every epoch, as long as that lock qualifies for a paying gauge",
}
ERRTEXT = {"zero": "token amount must be positive", "blocked": "is not allowed to receive funds"}

MC_CFG = """SPECIFICATION MCSpec
CONSTANTS
  Devs = {%(devs)s}
  GDurs = {%(gdurs)s}
  LDurs = {%(ldurs)s}
  LAmts = {%(lamts)s}
  Nums = {%(nums)s}
  StartOffs = {%(offs)s}
  CoinKinds = {%(kinds)s}
  SetupLen = %(setup)d
  MaxGauges = 2
  MaxLocks = 3
  MaxEpochs = 4
  MaxT = %(maxt)d
  MaxSteps = %(steps)d
  Unambiguous = %(unamb)s
VIEW %(view)s
%(inv)s
CHECK_DEADLOCK FALSE
"""
STATE_INV = "TypeOK TypeOKI WithinDeposit PaidIsRecorded Backed Lifecycle ModuleHoldsLocked"
STEP_PROPS = "PROPERTIES FinishedIsFinal OnSchedule Progress PaysOnlyAtEpochs"
STRICT = "INVARIANTS " + STATE_INV + " NothingExcused RefusalsAreRefused\n" + STEP_PROPS
FOLLOW = "INVARIANTS Emit " + STATE_INV + "\n" + STEP_PROPS
ALLDEVS = '"spam", "idlefinish"'
ACTIONS = ("create", "addg", "lock", "begin", "unlock", "setrr", "advance", "epoch")


def mc_cfg(devs="", gdurs="1, 2", ldurs="1, 2", lamts="3, 5", nums="1, 2, 3", offs="0, 1", kinds="1, 2, 3", setup=0, maxt=4,
           steps=4, unamb="FALSE", view="View", inv=STRICT):
    return MC_CFG % locals()


WIDE = dict()                                                                     # everything from the empty state
NARROW = dict(gdurs="1, 2", kinds="2, 3", nums="1, 2", lamts="5")                 # a thinner alphabet from the empty state
DEEP = dict(setup=4, gdurs="2", lamts="5", nums="3", offs="0, 1", kinds="3", maxt=2)   # 2 gauges + 2 locks first, then free
DEEP2 = dict(setup=4, gdurs="1, 2", lamts="3, 5", nums="2", offs="1", kinds="2", maxt=3)


def summarise(ev):
    """one recorded line without the bulky observation fields"""
    try:
        e = json.loads(ev)
    except Exception:
        return str(ev)[:400]
    keep = ("e", "a", "o", "d", "x", "amt", "id", "r", "perp", "c", "start", "num", "ident", "ok", "panicked", "err", "rid", "kind", "h", "seed")
    r = {k: e[k] for k in keep if k in e}
    if "c" in r:
        r["c"] = {k: v for k, v in r["c"].items() if v}
    if "par" in e:
        r["par"] = e["par"]
    return r


def brief_state(ev):
    """gauges and locks of a recorded state, compactly (context of a finding)"""
    try:
        st = json.loads(ev)["st"]
    except Exception:
        return {}
    nz = lambda m: {k: v for k, v in m.items() if v}
    return {"now": st["now"],
            "gauges": [dict(id=g["id"], perp=g["perp"], d=g["d"], dur=g["dur"], coins=nz(g["c"]), dist=nz(g["dist"]), filled=g["filled"],
                            num=g["num"], start=g["start"], status=g["status"]) for g in st["gauges"]],
            "locks": [dict(id=k["id"], o=k["o"], dur=k["dur"], end=k["end"], c=nz(k["c"]), rr=k["rr"]) for k in st["locks"]]}


def mismatches_of(tlc_out, limit=4):
    res = []
    try:
        txt = open(tlc_out, errors="replace").read()
    except OSError:
        return res
    for m in re.finditer(r'<<"MISMATCH",.*?>>\n(?=\S)', txt, re.S):
        res.append(re.sub(r"\s+", " ", m.group(0))[:1500])
        if len(res) >= limit:
            break
    return res


RE_DEV = re.compile(r'<<"DEVIATION", (\d+), "(\w+)">>')
RE_COV = re.compile(r'<<"COVER", "([\w-]+)">>')


def validate(trace_path, parallel=None, timeout=2400, heap="3g"):
    """vlib.validate_trace plus the DEVIATION / COVER lines TLC printed: returns (generated, distinct, lines,
    deviations {name: [(trace line, call, state before)]}, cover {tag: count})."""
    parallel = parallel or min(vlib.NCPU, 16)
    chunks = vlib.split_histories(trace_path, parallel)
    gen = dist = nlines = 0

    def one(ch):
        p, first, n = ch
        return ch, vlib.tlc("TraceIncentives.tla", "TraceIncentives.cfg", workers=1, timeout=timeout, env={"TRACE_FILE": p}, heap=heap,
                            tag="C09-trace")
    with concurrent.futures.ThreadPoolExecutor(max_workers=parallel) as ex:
        results = list(ex.map(one, chunks))
    devs, cover = {}, {}
    for (p, first, n), r in results:
        if r.error:
            raise Infra("trace validation TraceIncentives: %s" % r.error)
        gen += r.generated
        dist += r.distinct
        nlines += n
        lines = open(p).read().split("\n")
        for pr in r.prints:
            m = RE_DEV.match(pr)
            if m:
                ln = int(m.group(1))
                lst = devs.setdefault(m.group(2), [])
                if len(lst) < 3:
                    lst.append({"trace_line": first + ln - 1, "call": summarise(lines[ln - 1]), "state_before": brief_state(lines[ln - 2])})
                else:
                    lst.append(None)
            m = RE_COV.match(pr)
            if m:
                cover[m.group(1)] = cover.get(m.group(1), 0) + 1
        if not r.ok:
            if r.rejected_line is not None and not r.violated:
                ln = r.rejected_line
                what = "recorded step is not a step of the specification"
            else:
                ln = r.last_l if r.last_l else r.depth
                what = "property %s is false in a recorded state" % r.violated
            hstart = ln - 1
            while hstart > 0 and '"e":"cfg"' not in lines[hstart]:
                hstart -= 1
            ev = summarise(lines[ln - 1]) if 0 < ln <= len(lines) else None
            ms = mismatches_of(r.out)
            detail = {"spec": "TraceIncentives.tla", "chunk_line": ln, "trace_line": first + ln - 1, "reason": what, "violated": r.violated,
                      "failed_checks": r.failed_checks[-3:], "call": ev, "offending_event": json.dumps(ev), "mismatch": ms,
                      "state_before": brief_state(lines[ln - 2]) if ln >= 2 else {},
                      "history_prefix": [json.dumps(summarise(x)) for x in lines[hstart:ln][-400:]], "tlc_output": r.out}
            if r.failed_checks and not r.violated:
                what += ": " + r.failed_checks[-1]
            if r.violated:
                what += " (%s)" % r.violated
            what += " after " + json.dumps(ev) + ((": " + ms[0][:600]) if ms else "")
            sig = "trace:%s:%s" % (r.violated or (r.failed_checks[-1] if r.failed_checks else "step"), ev.get("a") if isinstance(ev, dict) else "?")
            v = Violation("C09", what, detail, sig)
            v.devs, v.cover = devs, cover
            raise v
    for p, _, _ in chunks:
        try:
            os.remove(p)
        except OSError:
            pass
    return gen, dist, nlines, devs, cover


def apalache_leg(ctx, cov):
    """Design level, UNBOUNDED (any deposit, top-ups, number of epochs, perpetual or not, any payout within the floor rule's
    bound): IndInv of spec/apa/IncentivesInd.tla is inductive and implies the budget / lifecycle part of C09.  Never a verdict
    about the code: unexpected outcomes are Infra."""
    if apalache.skipped():
        log("VERIF_NO_APALACHE: unbounded design-level leg skipped")
        cov["apalache"] = {"skipped": "VERIF_NO_APALACHE"}
        return
    ctx.leg = "apalache"
    legs = apalache.standard_legs(broken=[
        ("NextBrokenNoBound", "IndInv", "payout bound dropped (any payout >= 0): WithinDeposit must break"),
        ("NextBrokenEpochs", "IndInv,StepProperty", "per-epoch amount computed over one epoch too few: PaysWithinEpochBudget must break"),
        ("NextBrokenTopUp", "IndInv,StepProperty", "top-up accepted by a finished gauge: FinishedIsFinal must break")])
    cov.update(apalache.run("C09", "IncentivesInd.tla", legs, tlaps="IncentivesProof.tla",
                            theorems=["Init => IndInv", "IndInv /\\ [Next]_vars => IndInv'", "Spec => []Property"]))


def run(ctx):
    q = ctx.quick
    cov = {"samples": []}
    # 0. design, unbounded parameters: inductive invariant of the gauge budget arithmetic (Apalache)
    apalache_leg(ctx, cov)
    # VERIF_C09_LEGS=mc,replay,trace,zero (development / selftest convenience; default: all)
    legs = set((os.environ.get("VERIF_C09_LEGS") or "mc,replay,trace,zero").split(","))
    heap = "6g"
    # ------------------------------------------------------------------ 1. design: exhaustive model checking (no deviation)
    ctx.leg = "mc"
    if q:
        runs = [("from the empty state, full alphabet, depth 4", mc_cfg(steps=4, **WIDE)),
                ("2 gauges (one perpetual) + 2 locks, then 4 free steps (epochs, lock changes, top-ups)", mc_cfg(steps=8, **DEEP))]
    else:
        runs = [("from the empty state, full alphabet, depth 5", mc_cfg(steps=5, **WIDE)),
                ("2 gauges (one perpetual) + 2 locks, then 6 free steps", mc_cfg(steps=10, **DEEP)),
                ("2 gauges + 2 locks (durations 1-2, amounts 3/5, 2 epochs, start +1), then 4 free steps", mc_cfg(steps=8, **DEEP2))]
    if "mc" not in legs:
        runs = []
    states = trans = 0
    cov["mc_runs"] = []
    for name, cfg in runs:
        r = vlib.tlc("MCIncentives.tla", "mc.cfg", workers=vlib.NCPU, timeout=3000, heap=heap, tag="C09-mc", cfg_text=cfg)
        vlib.tlc_must_pass(r, "MCIncentives " + name)
        states += r.distinct
        trans += r.generated
        cov["mc_runs"].append({"run": name, "distinct": r.distinct, "generated": r.generated, "depth": r.depth, "wall_s": round(r.wall, 1)})
        log("MC %s: %d distinct / %d generated, %.0fs" % (name, r.distinct, r.generated, r.wall))
    cov["mc_states"], cov["mc_transitions"] = states, trans

    binary = vlib.build_test("./app/incentives/", "incentives")

    # ------------------------------------------------------------------ 2. spec -> impl: prefix tree of behaviours on the real app
    ctx.leg = "replay"
    follow = dict(devs=ALLDEVS, unamb="TRUE", view="GenView", inv=FOLLOW)
    if q:
        gens = [("from the empty state, thinner alphabet, depth 4", dict(steps=4, **NARROW)),
                ("2 gauges + 2 locks, then 3 free steps", dict(steps=7, **DEEP))]
    else:
        gens = [("from the empty state, full alphabet, depth 4", dict(steps=4, **WIDE)),
                ("2 gauges + 2 locks, then 4 free steps", dict(steps=8, **DEEP)),
                ("2 gauges + 2 locks (second family), then 3 free steps", dict(steps=7, **DEEP2))]
    replayed = steps = refusals = 0
    kinds, rdevs, rdev_ex = {}, {}, {}
    nshards = min(vlib.NCPU, 12)
    if "replay" not in legs:
        gens = []
    for name, kw in gens:
        r = vlib.tlc("MCIncentives.tla", "gen.cfg", workers=min(vlib.NCPU, 8), timeout=3000, heap=heap, tag="C09-gen", keep=True,
                     cfg_text=mc_cfg(**dict(follow, **kw)))
        vlib.tlc_must_pass(r, "MCIncentives generator " + name)
        d = os.path.dirname(r.out)
        gen = os.path.join(d, "gen.jsonl")
        n = vlib.extract_gen(r.out, gen)
        os.remove(r.out)
        if n == 0:
            raise Infra("generator produced no behaviours")
        log("generated %d behaviours (%s) in %.0fs" % (n, name, r.wall))
        cut = 5 if kw.get("setup") else 2

        def shard(i):
            outp = "%s.result%d" % (gen, i)
            vlib.run_test(binary, "TestReplay", {"VERIF_IN": gen, "VERIF_OUT": outp, "VERIF_SHARD": "%d/%d" % (i, nshards),
                                                 "VERIF_SHARD_DEPTH": cut}, timeout=2400)
            return json.load(open(outp))
        t1 = time.time()
        with concurrent.futures.ThreadPoolExecutor(max_workers=nshards) as ex:
            results = list(ex.map(shard, range(nshards)))
        mm = []
        got = 0
        for res in results:
            steps += res["steps"]
            refusals += res["refusals"]
            got += res["behaviours"]
            for k, v in res["kinds"].items():
                kinds[k] = kinds.get(k, 0) + v
            for k, v in (res.get("deviations") or {}).items():
                rdevs[k] = rdevs.get(k, 0) + v
                rdev_ex.setdefault(k, (res.get("deviation_examples") or {}).get(k))
            mm += res.get("mismatches") or []
        if not mm and got != n:
            raise Infra("replay shards covered %d of %d behaviours" % (got, n))
        replayed += n
        if len(cov["samples"]) < 2:
            with open(gen) as f:
                for i, ln in enumerate(f):
                    if i == min(3000, n - 1):
                        doc = json.loads(ln)
                        doc.pop("refused", None)
                        cov["samples"].append({"spec_behaviour": doc})
                        break
        log("replayed %d spec behaviours of '%s' on the real app in %.0fs: %d mismatches" % (n, name, time.time() - t1, len(mm)))
        if mm:
            m = mm[0]
            path = [{k: v for k, v in c.items() if v not in ("", 0, False, None) and k != "c" or (k == "c" and any(v.values()))} for c in m["path"]]
            raise Violation("C09", "real incentives module deviates from the specification on a generated behaviour: %s (want %s, got %s) after %s"
                            % (m["what"], json.dumps(m["want"])[:400], json.dumps(m["got"])[:400], json.dumps(path)[:700]),
                            {"mismatch": m, "more": mm[1:4], "generator": name}, "replay:" + m["what"].split(" ")[0])
        states += r.distinct
        trans += r.generated
    for need in ACTIONS if gens else ():
        if kinds.get(need, 0) == 0:
            raise Infra("no generated behaviour ends with a %s action: the replay does not exercise it" % need)
    if gens and refusals == 0:
        raise Infra("no refused call was tried")
    # the real code followed the code-following model also where a named deviation changed the outcome
    for k in sorted(rdevs):
        ex = rdev_ex.get(k) or []
        ctx.finding(SIG[k], WHAT[k] + " (replayed behaviour: %s)" % json.dumps([{kk: vv for kk, vv in c.items() if vv not in ("", 0, False, None)}
                                                                                   for c in ex])[:900],
                    {"leg": "replay", "deviation": k, "steps_affected": rdevs[k], "example_behaviour": ex})
    cov["replay_deviation_steps"] = rdevs

    # ------------------------------------------------------------------ 3. impl -> spec: recorded random histories
    nh = 0
    nlines = gen_ = dist_ = 0
    counts, cover, tdevs = {}, {}, {}
    if "trace" in legs:
        ctx.leg = "trace"
        nh, emin, emax, nrec = (24, 10, 40, 4) if q else (240, 10, 40, 8)
        ctx.params = {"histories": nh, "min_epochs": emin, "max_epochs": emax}
        d = vlib.scratch("C09-rec")
        trace = os.path.join(d, "incentives.ndjson")

        def record(i):
            p = "%s.%d" % (trace, i)
            out = vlib.run_test(binary, "TestRecord", {"VERIF_OUT": p, "VERIF_SEED": int(ctx.seed) * 1000 + i, "VERIF_HISTORIES": nh // nrec,
                                                       "VERIF_MIN_EPOCHS": emin, "VERIF_MAX_EPOCHS": emax, "VERIF_KIND": ""}, timeout=2400)
            m = re.search(r"counts=(\{.*\})", out)
            return p, json.loads(m.group(1)) if m else {}
        t1 = time.time()
        with concurrent.futures.ThreadPoolExecutor(max_workers=nrec) as ex:
            recs = list(ex.map(record, range(nrec)))
        with open(trace, "w") as f:
            for p, c in recs:
                with open(p) as g:
                    for ln in g:
                        f.write(ln)
                os.remove(p)
                for k, v in c.items():
                    counts[k] = counts.get(k, 0) + v
        log("recorded %d histories from the real app in %.0fs" % (nh, time.time() - t1))
        for need in ("create", "addg", "lock", "add", "begin", "unlock", "setrr", "extend", "advance", "epoch", "create:refused", "addg:refused",
                     "history:below", "history:above", "history:nomin", "history:foo-not-valuable", "history:min-denom-not-base",
                     "history:big", "big:epoch-with-single-denom-gauge-remaining-in-2^63..2^64"):
            if counts.get(need, 0) == 0:
                raise Infra("recorder produced no %s events: driver is not exercising the property" % need)
        if counts.get("epoch:refused", 0):
            log("%d epoch hooks failed" % counts["epoch:refused"])  # rejected by the trace spec itself
        with open(trace) as f:
            for i, ln in enumerate(f):
                if i in (1, 2):
                    cov["samples"].append({"trace_event": json.loads(ln)})
                if i > 2:
                    break
        try:
            gen_, dist_, nlines, tdevs, cover = validate(trace, heap="3g")
        except Violation as v:
            # findings of named deviations seen before the rejected line are still findings; the rejection decides
            raise
        log("validated %d recorded events of %d histories against TraceIncentives; epoch ends covered: %s" % (nlines, nh, json.dumps(cover)))
        for need in ("paid", "belowmin", "novalue", "receiver", "unlocking", "multidenom", "perpetual", "nonperpetual", "activated",
                     "activated-at-start", "not-yet", "not-yet-by-one", "finished", "no-qualifying-locks", "spam-rule", "nothing-left"):
            if cover.get(need, 0) == 0:
                raise Infra("no recorded epoch end exercises '%s': driver is not exercising the property" % need)
        for k in sorted(tdevs):
            exs = [x for x in tdevs[k] if x]
            ctx.finding(SIG[k], WHAT[k] + " (recorded: %s)" % json.dumps({"call": exs[0]["call"], "trace_line": exs[0]["trace_line"]})[:400],
                        {"leg": "trace", "deviation": k, "lines_affected": len(tdevs[k]), "examples": exs})
        for k in ("spam", "ownerbatch"):
            if k not in tdevs:
                log("note: no recorded epoch end where deviation '%s' changes the outcome" % k)

    # ------------------------------------------------------------------ 4. impl -> spec: situations in which the epoch hook cannot pay
    # ("zero": a reward denomination the minimum value buys less than one unit of; "blocked": a lock whose
    # reward receiver is a module account that may not receive funds)
    special_lines = 0
    for kind in ("zero", "blocked"):
        if kind not in legs and "zero" not in legs:
            continue
        ctx.leg = kind
        d = vlib.scratch("C09-" + kind)
        ztrace = os.path.join(d, kind + ".ndjson")
        zh = 2 if q else 6
        out = vlib.run_test(binary, "TestRecord", {"VERIF_OUT": ztrace, "VERIF_SEED": int(ctx.seed) * 1000 + 777, "VERIF_HISTORIES": zh,
                                                   "VERIF_MIN_EPOCHS": 8, "VERIF_MAX_EPOCHS": 16, "VERIF_KIND": kind}, timeout=1200)
        m = re.search(r"counts=(\{.*\})", out)
        zc = json.loads(m.group(1)) if m else {}
        if kind == "zero" and zc.get("history:zero-threshold", 0) == 0:
            raise Infra("no history with a reward denomination the minimum value buys less than one unit of")
        try:
            g2, d2, n2, zdevs, _ = validate(ztrace, heap="2g", parallel=zh)
            gen_, dist_, special_lines = gen_ + g2, dist_ + d2, special_lines + n2
            log("validated %d recorded events of %d '%s' histories" % (n2, zh, kind))
        except Violation as v:
            fc = " ".join(v.detail.get("failed_checks") or [])
            call = v.detail.get("call") or {}
            if "the epoch hook succeeds" in fc and ERRTEXT[kind] in str(call.get("err", "")):
                ctx.finding(SIG[kind], WHAT[kind] + " (recorded: %s)" % json.dumps(call)[:400], dict(v.detail, leg=kind))
            else:
                raise
        counts.update({kind + ":" + k: v for k, v in zc.items()})

    if not {"mc", "replay", "trace"} <= legs:
        log("legs %s only: no evidence written" % sorted(legs))
        return
    cov.update({"states": states + dist_, "transitions": trans + gen_,
                "traces_validated_against_impl": nh + replayed,
                "recorded_histories": nh, "recorded_events": nlines, "event_kinds": counts, "epoch_end_coverage": cover,
                "trace_deviation_lines": {k: len(v) for k, v in tdevs.items()},
                "spec_behaviours_replayed": replayed, "actions_replayed": steps, "refused_calls_tried": refusals,
                "replayed_last_action_kinds": kinds, "known_finding_hits": dict(ctx.known_hit),
                "checker_cmd": "bin/check C09 --tier " + ctx.tier})
    vlib.write_evidence("C09", ctx.tier, ctx.seed, "model_checking", cov, time.time() - ctx.t0,
                        ["TLC evaluator; Json/IOUtils community modules",
                         "Apalache + Z3 / tlapm + its backends for the unbounded design-level leg (a statement about the typed sub-model spec/apa/IncentivesInd.tla: one gauge, "
                         "one denomination, the other gauges as one aggregate, the per-epoch payout any value within the floor rule's bound; it never "
                         "replaces a TLC leg)",
                         "harness projection: gauges read by id plus their membership in the upcoming / active / finished lists, bank balances of the "
                         "incentives and lockup module accounts and of every account, lock records by id (shared by both binding directions)",
                         "transactions and the epoch hook emulated as baseapp / x/epochs do: ValidateBasic, cache context written only on success, panics recovered",
                         "the smallest amount of a denomination worth the configured minimum is read from the pool registered for the pair (the module's own source)",
                         "gauges the test app creates for the valuation pools (empty, other denominations) are outside the histories",
                         "ByDuration lock gauges only; NoLock / ByGroup / synthetic gauges and gauges created without coins are not driven"])


def evidence_on_violation(ctx, v):
    vlib.write_evidence("C09", ctx.tier, ctx.seed, "model_checking",
                        {"evaluations": 1, "distinct_nontrivial": 2, "samples": [v.what[:2000]],
                         "explanation": "violation found in leg " + str(ctx.leg)}, time.time() - ctx.t0, [], 1)
