"""X04 (extra) - x/valset-pref: validator-set preferences, weighted delegation / undelegation / redelegation,
reward withdrawal and DelegateBondedTokens.
Spec: spec/ValsetPref.tla (properties S1-S4, Q1, D1-D3, U1-U2, R1-R2, W1-W2, B1-B2, C1-C3 in its header).
Legs: exhaustive TLC on bounded models with a reference design (MCValsetPref), spec->impl replay of the shortest
behaviour to every distinct state whose outcomes the stated properties determine uniquely, impl->spec validation of
recorded random histories on a full app (TraceValsetPref, BigNum) with the deviations of the current tree monitored
and classified."""
import concurrent.futures, json, os, re, time
import vlib
from vlib import Infra, Violation, log

TRUST = ("Trusted: TLC evaluator, Json/IOUtils community modules, BigNum java override (differentially tested by "
         "bin/check setup), harness projection functions (shared by both binding directions), go -overlay.")
MANIFEST = {
    "engine": "tlc+go-harness", "design_ref": "docs/extra_x04.md; DESIGN.md section 3 (common method)",
    "technique": "TLA+ spec ValsetPref.tla; TLC exhaustive MC of a reference design on bounded models; TLC-generated behaviours "
                 "replayed on the real message server; recorded histories trace-validated by TLC with BigNum",
    "text": "ValsetPref.tla models SetValidatorSetPreference, DelegateToValidatorSet, the disabled UndelegateFromValidatorSet, "
            "UndelegateFromRebalancedValidatorSet, RedelegateValidatorSet, WithdrawDelegationRewards and DelegateBondedTokens over "
            "preferences, balances, stake, delegation records, unbondings, unfinished redelegations, pending rewards and locks, with "
            "funding, direct staking, locking, reward accrual and the end of the unbonding period as environment. Invariants: stored "
            "lists well formed with positive weights summing to exactly one, no empty delegation record, funds conserved per delegator; "
            "action properties: only the signer's objects change, a refused message changes nothing, only set / redelegate change a "
            "preference, every message is accepted when its stated conditions hold, undelegation moves exactly the amount, a "
            "redelegation ends on target. Splits are checked against floor(weight * amount) / the exact pro-rata part with the stated "
            "tolerance in BigNum arithmetic.",
    "note": TRUST + " Messages run as ValidateBasic + the registered handler on a branch written only on success (as DeliverTx does); "
            "the staking denomination is the base coin unit as on the real chain; validators are bonded with zero commission and "
            "never slashed (a share is one token).",
}
BUILD = [("./app/valsetpref/", "valsetpref")]

MC_CFG = """SPECIFICATION MCSpec
CONSTANTS
  NAdd <- IAdd
  NSub <- ISub
  NMul <- IMul
  NLe <- ILe
  NDiv <- IDiv
  NOfInt <- IOfInt
  WUnit = 1000
  RUnit = 1
  NPrec = 1000000
  Req <- MCReq
  Bal0 <- %(bal)s
  NVal = %(nv)d
  Amounts = {%(amounts)s}
  EnvAmounts = {%(env)s}
  Lists <- %(lists)s
  Lim <- %(lim)s
VIEW View
INVARIANTS PrefShape WeightsPositive WeightsSumToOne NoEmptyRecord RecordsCoverStake Conservation NothingNegative Emit
PROPERTIES PreferenceStable OthersUntouched RefusedChangesNothing StakeStable SetPossible DelegatePossible UndelegatePossible RedelegatePossible WithdrawPossible BondedPossible UndelegateExact RedelegateOnTarget
CHECK_DEADLOCK FALSE
"""
MC_ACTIONS = ("MCSet", "MCDelegate", "MCUndelOld", "MCUndelegate", "MCRedelegate", "MCWithdraw", "MCBonded", "MCStake", "MCUnstake",
              "MCLock", "MCUnlock", "MCSynth", "MCAccrue", "MCMature")
MSGS = ("set", "delegate", "undel_old", "undelegate", "redelegate", "withdraw", "bonded")

# the deviations of the current tree from the stated properties, by signature (docs/findings_x04.json)
TEXTS = {
    "S1sum": "a stored preference whose weights do not sum to exactly one (S1)",
    "S1pos": "a stored preference with a weight that is not positive (S1)",
    "D3": "a delegation record without stake is left behind (D3)",
    "S2": "SetValidatorSetPreference refused although its stated conditions hold (S2)",
    "D1": "DelegateToValidatorSet refused although its stated conditions hold (D1)",
    "U1": "UndelegateFromRebalancedValidatorSet refused although 0 < amount <= total stake (U1)",
    "R1": "RedelegateValidatorSet refused although its stated conditions hold (R1)",
    "W1": "WithdrawDelegationRewards refused although the delegator is delegated (W1)",
    "B1": "DelegateBondedTokens refused although its stated conditions hold (B1)",
    "U2": "UndelegateFromRebalancedValidatorSet succeeds but undelegates less than the amount (U2)",
    "R2": "RedelegateValidatorSet succeeds but a validator ends off its target (R2)",
}


def big(b):
    x = 0
    for limb in reversed(b["m"]):
        x = x * 10000 + limb
    return -x if b["s"] < 0 else x


E18 = 10 ** 18


def pref_of(st, d):
    return [(p["v"], big(p["w"])) for p in st["pref"][d - 1]]


def classify(tag, e, prev):
    """The signature of a deviation TLC reported at event e (prev = the projected state before the call): the
    statement that fails + the shape of the situation, specific enough that another way of failing the same
    statement is a new signature."""
    d = e.get("d", 0)
    k = e["e"]
    st = e["st"]
    if tag == "S1sum":
        stored = sum(w for _, w in pref_of(st, d))
        n = len(e.get("prefs", []))
        # the hard requirements already guarantee that the submitted sum rounds to 1.00 and that every weight is stored
        # rounded to two digits; what is left is a sum within that rounding of one
        return "S1sum:%s:%s" % (k, "sum-within-rounding-of-one" if 0 < abs(stored - E18) <= (n + 1) * E18 // 200 else "other")
    if tag == "S1pos":
        zero = any(big(p["w"]) == 0 for p in e.get("prefs", []))
        return "S1pos:%s:%s" % (k, "zero-weight-submitted" if zero else "other")
    if tag == "D3":
        new_empty = [v for v in range(len(st["rec"][d - 1])) if st["rec"][d - 1][v] and big(st["del"][d - 1][v]) == 0
                     and not (prev["rec"][d - 1][v] and big(prev["del"][d - 1][v]) == 0)]
        grew = [v for v in new_empty if not prev["rec"][d - 1][v]]
        if k in ("delegate", "bonded") and new_empty and grew == new_empty:
            shape = "part-of-zero-coins-delegated"
        elif k == "redelegate" and new_empty and grew == new_empty:
            shape = "part-of-zero-coins-delegated"
        else:
            shape = "other"
        return "D3:%s:%s" % (k, shape)
    if tag == "U1":
        empty = any(prev["rec"][d - 1][v] and big(prev["del"][d - 1][v]) == 0 for v in range(len(prev["rec"][d - 1])))
        x = big(e["x"])
        stake = sum(big(t) for t in prev["del"][d - 1])
        dels = [big(t) for t in prev["del"][d - 1]]
        if empty:
            shape = "empty-delegation-record"
        elif any(t > 0 and ((t * E18) // stake + 1) * x // E18 > t for t in dels):
            # stake/total rounded UP at the 18th decimal, times the amount, exceeds the validator's stake
            shape = "part-exceeds-stake-by-weight-rounding"
        else:
            shape = "other"
        return "U1:undelegate-refused:%s" % shape
    if tag == "R1":
        ex = {v for v, _ in pref_of(prev, d)} or {v + 1 for v, r in enumerate(prev["rec"][d - 1]) if r}
        new = {p["v"] for p in e["prefs"]}
        return "R1:redelegate-refused:%s" % ("overlapping-sets" if ex & new else "other")
    if tag == "U2":
        x = big(e["x"])
        got = sum(big(t) for t in prev["del"][d - 1]) - sum(big(t) for t in st["del"][d - 1])
        n = sum(1 for r in prev["rec"][d - 1] if r)
        short = x - got
        return "U2:undelegate:%s" % ("short-by-less-than-one-unit-per-validator" if 0 < short < n + x * n // E18 + 1 else "other")
    return "%s:%s:other" % (tag, k)


def scan(trace):
    """What the recorder exercised (non-vacuity)."""
    c = {k: 0 for k in ("histories", "events", "delegate_with_preference", "delegate_from_position", "delegate_remainder_to_last",
                        "delegate_rewards_cover", "undelegate_all", "undelegate_part", "undelegate_several_validators",
                        "redelegate_disjoint", "redelegate_overlapping", "redelegate_from_position", "rewards_paid_by_withdraw",
                        "rewards_paid_by_staking", "withdraw_outside_preference", "bonded_ok", "unbonding_matured", "amounts_18_decimals",
                        "stored_order_differs", "weights_rounded", "max_validators", "max_delegators", "two_delegators_active")}
    kinds, shapes = {}, {}
    prev = None
    for ln in open(trace):
        e = json.loads(ln)
        c["events"] += 1
        k, st = e["e"], e["st"]
        if k == "cfg":
            c["histories"] += 1
            c["max_validators"] = max(c["max_validators"], e["nv"])
            c["max_delegators"] = max(c["max_delegators"], e["nd"])
            prev = st
            continue
        ok = e["ok"]
        kinds["%s:%s" % (k, "ok" if ok else "refused")] = kinds.get("%s:%s" % (k, "ok" if ok else "refused"), 0) + 1
        if e.get("shape"):
            shapes["%s:%s" % (k, e["shape"])] = shapes.get("%s:%s" % (k, e["shape"]), 0) + 1
        d = e.get("d", 0)
        if d:
            pd, nd = [big(t) for t in prev["del"][d - 1]], [big(t) for t in st["del"][d - 1]]
            paid = sum(big(p) // E18 for p, q in zip(prev["pend"][d - 1], st["pend"][d - 1]) if big(q) == 0)
        if k == "delegate" and ok:
            x = big(e["x"])
            pf = pref_of(prev, d)
            if pf:
                c["delegate_with_preference"] += 1
                if len(pf) > 1 and any((w * x) % E18 for _, w in pf):
                    c["delegate_remainder_to_last"] += 1
            else:
                c["delegate_from_position"] += 1
            c["delegate_rewards_cover"] += x > big(prev["bal"][d - 1])
            c["amounts_18_decimals"] += x >= 10 ** 17
        if k == "undelegate" and ok and big(e["x"]) > 0:
            c["undelegate_all" if sum(nd) == 0 else "undelegate_part"] += 1
            c["undelegate_several_validators"] += sum(1 for a, b in zip(pd, nd) if a != b) > 1
        if k == "redelegate" and ok:
            ex = {v for v, _ in pref_of(prev, d)}
            if not ex:
                c["redelegate_from_position"] += 1
                ex = {v + 1 for v, r in enumerate(prev["rec"][d - 1]) if r}
            c["redelegate_overlapping" if ex & {p["v"] for p in e["prefs"]} else "redelegate_disjoint"] += 1
        if k == "withdraw" and ok:
            c["rewards_paid_by_withdraw"] += paid > 0
            inpref = {v for v, _ in pref_of(prev, d)}
            c["withdraw_outside_preference"] += any(r and (v + 1) not in inpref and big(prev["pend"][d - 1][v]) >= E18
                                                    for v, r in enumerate(prev["rec"][d - 1]))
        if k in ("delegate", "undelegate", "redelegate", "bonded", "stake", "unstake") and ok:
            c["rewards_paid_by_staking"] += paid > 0
        if k == "bonded" and ok:
            c["bonded_ok"] += 1
        if k == "mature":
            c["unbonding_matured"] += any(big(u["t"]) > 0 for row in prev["unb"] for u in row)
        if k in ("set", "redelegate") and ok:
            sub, got = [(p["v"], big(p["w"])) for p in e["prefs"]], pref_of(st, d)
            c["stored_order_differs"] += [v for v, _ in sub] != [v for v, _ in got]
            c["weights_rounded"] += sorted(sub) != sorted(got)
        c["two_delegators_active"] += sum(1 for row in st["del"] if any(big(t) > 0 for t in row)) > 1
        prev = st
    return c, kinds, shapes


def validate(ctx, trace, parallel):
    """Trace validation in chunks under the monitor configuration; returns the deviations TLC reported as
    [(tag, line number in the whole trace)]."""
    chunks = vlib.split_histories(trace, parallel)
    gen = dist = nlines = 0
    devs = []

    def one(ch):
        return ch, vlib.tlc("TraceValsetPref.tla", "TraceValsetPrefMon.cfg", workers=1, timeout=1500, env={"TRACE_FILE": ch[0]},
                            heap="3g", tag="X04-trace")

    with concurrent.futures.ThreadPoolExecutor(max_workers=parallel) as ex:
        results = list(ex.map(one, chunks))
    for (p, first, n), r in results:
        if r.error:
            raise Infra("trace validation: %s" % r.error)
        gen += r.generated
        dist += r.distinct
        nlines += n
        if not r.ok:
            if r.rejected_line is not None and not r.violated:
                ln, what = r.rejected_line, "recorded step is not a step of the specification"
            else:
                ln, what = (r.last_l if r.last_l else r.depth), "property %s is false in a recorded state" % r.violated
            lines = open(p).read().split("\n")
            hstart = ln - 1
            while hstart > 0 and '"e":"cfg"' not in lines[hstart]:
                hstart -= 1
            detail = {"spec": "TraceValsetPref.tla", "cfg": "TraceValsetPrefMon.cfg", "chunk_line": ln, "trace_line": first + ln - 1,
                      "reason": what, "violated": r.violated, "failed_checks": r.failed_checks[-3:],
                      "offending_event": lines[ln - 1] if 0 < ln <= len(lines) else None,
                      "history_prefix": lines[hstart:ln][-80:], "tlc_output": r.out}
            if r.failed_checks and not r.violated:
                what += ": " + r.failed_checks[-1]
            sig = "trace:" + (r.violated or (r.failed_checks[-1] if r.failed_checks else "rejected"))
            raise Violation("X04", what + (" (%s)" % r.violated if r.violated else ""), detail, sig)
        for x in r.prints:
            m = re.search(r'"DEV", "(\w+)", (\d+)', x)
            if m:
                devs.append((m.group(1), first + int(m.group(2)) - 1))
    for p, _, _ in chunks:
        try:
            os.remove(p)
        except OSError:
            pass
    return gen, dist, nlines, sorted(devs, key=lambda t: t[1])


RE_COV = re.compile(r"^<(MC\w+) line .*>: (\d+):(\d+)")


def action_coverage(out):
    cov = {}
    for line in open(out, errors="replace"):
        m = RE_COV.match(line)
        if m:
            cov[m.group(1)] = cov.get(m.group(1), 0) + int(m.group(3))
    return cov


def nth_line(path, n):
    with open(path) as f:
        for i, ln in enumerate(f):
            if i == n:
                return ln
    return "null"


def models(q):
    if q:
        return [("A: one delegator, three validators: preferences, delegation, undelegation, redelegation, rewards",
                 dict(bal="B1", nv=3, amounts="2, 4", env="2", lists="ListsA", lim="LimA")),
                ("B: shapes and rounding of preference lists",
                 dict(bal="B1", nv=3, amounts="3, 4", env="2", lists="ListsB", lim="LimB")),
                ("C: locks and DelegateBondedTokens, two validators",
                 dict(bal="B1", nv=2, amounts="2, 4", env="2", lists="ListsC", lim="LimC"))]
    return [("A: one delegator, three validators, seven steps, two undelegations",
             dict(bal="B1", nv=3, amounts="2, 4", env="2", lists="ListsA", lim="LimA7")),
            ("A': the same with odd amounts, six steps",
             dict(bal="B1", nv=3, amounts="1, 3", env="1", lists="ListsA", lim="LimA")),
            ("B: shapes and rounding of preference lists, two delegations",
             dict(bal="B3", nv=3, amounts="3, 4", env="2", lists="ListsB", lim="LimB2")),
            ("C: locks and DelegateBondedTokens, two validators, six steps",
             dict(bal="B1", nv=2, amounts="2, 4", env="1, 2", lists="ListsC", lim="LimC6")),
            ("D: two delegators, two validators",
             dict(bal="B2", nv=2, amounts="2", env="2", lists="ListsC", lim="LimD"))]


def run(ctx):
    q = ctx.quick
    cov = {"samples": []}
    # development aid: VERIF_X04_LEGS=trace runs only the named legs (no evidence is written then)
    legs = [x for x in os.environ.get("VERIF_X04_LEGS", "mc,trace").split(",") if x]
    workers = min(vlib.NCPU, 4 if q else 8)
    pool = concurrent.futures.ThreadPoolExecutor(max_workers=1)
    building = pool.submit(vlib.build_test, "./app/valsetpref/", "valsetpref")   # compiled while TLC model-checks

    # 1. design: the reference design satisfies every requirement and property on the bounded models; the same runs
    #    print the behaviours to replay
    ctx.leg = "mc"
    states = trans = 0
    mc_detail, taken, gens = [], {}, []
    try:
        for name, kw in (models(q) if "mc" in legs else []):
            r = vlib.tlc("MCValsetPref.tla", "mc.cfg", workers=workers, timeout=3000, heap="12g", tag="X04-mc", keep=True,
                         cfg_text=MC_CFG % kw, extra=None if q else ["-coverage", "1"])
            vlib.tlc_must_pass(r, "MCValsetPref (%s)" % name)
            ac = action_coverage(r.out)
            for a in MC_ACTIONS:
                taken[a] = taken.get(a, 0) + ac.get(a, 0)
            states += r.distinct
            trans += r.generated
            gen = os.path.join(os.path.dirname(r.out), "gen.jsonl")
            n = vlib.extract_gen(r.out, gen)
            if n == 0:
                raise Infra("generator produced no behaviours (%s)" % name)
            gens.append((name, gen, n))
            mc_detail.append({"model": name, "distinct": r.distinct, "generated": r.generated, "depth": r.depth, "wall_s": round(r.wall),
                              "behaviours_emitted": n, "actions": ac})
            log("MC %s: %d distinct / %d generated, depth %d, %d behaviours, %.0fs" % (name, r.distinct, r.generated, r.depth, n, r.wall))
    finally:
        binary = building.result()
    # thorough: TLC's own per-action coverage; quick: the step kinds of the printed behaviours (checked below)
    for a in MC_ACTIONS:
        if taken.get(a, 0) == 0 and "mc" in legs and not q:
            raise Infra("MCValsetPref: action %s was never taken in any bounded model" % a)
    cov["mc_states"], cov["mc_transitions"], cov["mc_models"], cov["mc_action_coverage"] = states, trans, mc_detail, taken

    # 2. spec -> impl: the behaviours executed on the real message server, compared after every call
    ctx.leg = "replay"
    replayed = rsteps = skips = 0
    kinds, refused, rshapes = {}, {}, {}
    for name, gen, n in gens:
        nsh = 4 if q else 8

        def shard(i):
            vlib.run_test(binary, "TestReplay", {"VERIF_IN": gen, "VERIF_OUT": gen + ".result%d" % i, "VERIF_SHARD": "%d/%d" % (i, nsh)}, timeout=3000)
            return json.load(open(gen + ".result%d" % i))
        with concurrent.futures.ThreadPoolExecutor(max_workers=nsh) as ex:
            parts = list(ex.map(shard, range(nsh)))
        mm = [m for p in parts for m in (p.get("mismatches") or [])]
        nb = sum(p["behaviours"] for p in parts)
        replayed += nb
        rsteps += sum(p["steps"] for p in parts)
        skips += sum(p["order_skips"] for p in parts)
        for p in parts:
            for dst, src in ((kinds, p["kinds"]), (refused, p["refused"]), (rshapes, p["shapes"])):
                for k, v in src.items():
                    dst[k] = dst.get(k, 0) + v
        if len(cov["samples"]) < 2:
            cov["samples"].append({"spec_behaviour": json.loads(nth_line(gen, min(n - 1, 500)))})
        log("replayed %d spec behaviours (%s) on the real chain: %d mismatches" % (nb, name.split(":")[0], len(mm)))
        if mm:
            m = sorted(mm, key=lambda t: t["behaviour"])[0]
            beh = json.loads(nth_line(gen, m["behaviour"]))
            calls = [{k: v for k, v in s.items() if k != "st"} for s in beh["steps"]]
            raise Violation("X04", "the real chain deviates from the specification on a generated behaviour at step %d: %s (want %s, got %s)"
                            % (m["step"], m["what"], json.dumps(m["want"])[:300], json.dumps(m["got"])[:300]),
                            {"mismatch": m, "calls": calls, "behaviour": beh}, "replay:" + m["what"])
    if "mc" in legs:
        for need in ("set", "delegate", "undel_old", "undelegate", "redelegate", "withdraw", "bonded", "stake", "unstake", "lock", "unlock",
                     "synth", "accrue", "mature"):
            if kinds.get(need, 0) == 0:
                raise Infra("generated behaviours contain no %s step" % need)
        for need in ("set", "delegate", "undel_old", "undelegate", "redelegate", "withdraw", "bonded"):
            if refused.get(need, 0) == 0 or kinds.get(need, 0) == refused.get(need, 0) and need != "undel_old":
                raise Infra("generated behaviours contain no refused / no accepted %s" % need)
        for need in ("set:empty", "set:duplicate", "set:unknown", "set:sum", "set:zero-weight", "set:negative-weight", "redelegate:sum"):
            if rshapes.get(need, 0) == 0:
                raise Infra("generated behaviours contain no %s list" % need)

    # 3. impl -> spec: recorded random histories validated line by line
    ctx.leg = "trace"
    if "trace" not in legs:
        return
    nh, ns = (60, 70) if q else (900, 90)
    ctx.params = {"histories": nh, "steps": ns}
    d = vlib.scratch("X04-rec")
    trace = os.path.join(d, "valsetpref.ndjson")
    vlib.run_test(binary, "TestRecord", {"VERIF_OUT": trace, "VERIF_SEED": ctx.seed, "VERIF_HISTORIES": nh, "VERIF_STEPS": ns}, timeout=2400)
    events = [json.loads(ln) for ln in open(trace)]
    for i in (1, 2, 9):
        e = dict(events[i])
        e.pop("q", None)
        cov["samples"].append({"trace_event": e})
    c, ekinds, shapes = scan(trace)
    for need in ("delegate_with_preference", "delegate_from_position", "delegate_remainder_to_last", "undelegate_all", "undelegate_part",
                 "undelegate_several_validators", "redelegate_disjoint", "redelegate_from_position", "rewards_paid_by_withdraw",
                 "rewards_paid_by_staking", "withdraw_outside_preference", "bonded_ok", "unbonding_matured", "amounts_18_decimals",
                 "weights_rounded", "two_delegators_active"):
        if c[need] == 0:
            raise Infra("recorder produced no %s: driver is not exercising the property" % need)
    for m in MSGS:
        if ekinds.get(m + ":refused", 0) == 0 or (m != "undel_old" and ekinds.get(m + ":ok", 0) == 0):
            raise Infra("recorder produced no accepted / no refused %s" % m)
    for need in ("set:exact", "set:equal", "set:fine", "set:thousandths", "set:small", "set:empty", "set:duplicate", "set:unknown", "set:sum-low",
                 "set:sum-high", "set:zero-weight", "set:negative-weight", "set:same", "redelegate:exact", "redelegate:zero-weight",
                 "redelegate:negative-weight", "redelegate:unknown"):
        if shapes.get(need, 0) == 0:
            raise Infra("recorder submitted no %s list" % need)
    gen_, dist_, nlines, devs = validate(ctx, trace, 4 if q else 12)
    log("validated %d recorded events of %d histories against TraceValsetPref: %d deviations from the monitored statements"
        % (nlines, nh, len(devs)))
    # every deviation TLC reports is classified; the signature decides between known finding and violation
    sigs = {}
    for tag, line in devs:
        e = events[line - 1]
        prev = events[line - 2]["st"]
        s = classify(tag, e, prev)
        ex = sigs.setdefault(s, {"count": 0, "tag": tag, "first_line": line, "event": {k: v for k, v in e.items() if k not in ("st", "q")},
                                 "state_before": {k: prev[k][e["d"] - 1] if k != "locks" and e.get("d") else prev[k] for k in prev},
                                 "state_after": {k: e["st"][k][e["d"] - 1] if k != "locks" and e.get("d") else e["st"][k] for k in e["st"]}})
        ex["count"] += 1
    for s, ex in sorted(sigs.items(), key=lambda t: t[1]["first_line"]):
        ctx.finding(s, "%s: %s at trace line %d (%s)" % (TEXTS.get(ex["tag"], ex["tag"]), s, ex["first_line"], json.dumps(ex["event"])[:400]),
                    {"leg": "trace", "first_trace_line": ex["first_line"], "example": ex, "trace": trace})
    cov.update({"states": states + dist_, "transitions": trans + gen_,
                "traces_validated_against_impl": nh + replayed,
                "recorded_histories": nh, "recorded_events": nlines, "recorder_counts": c, "event_kinds": ekinds, "submitted_list_shapes": shapes,
                "spec_behaviours_replayed": replayed, "steps_replayed": rsteps, "replay_stored_order_skips": skips, "replayed_step_kinds": kinds,
                "replayed_refusals": refused, "replayed_list_shapes": rshapes,
                "deviations_reported_by_tlc": {s: ex["count"] for s, ex in sigs.items()}, "known_finding_hits": dict(ctx.known_hit),
                "checker_cmd": "bin/check X04 --tier " + ctx.tier})
    if len(legs) < 2:
        return
    vlib.write_evidence("X04", ctx.tier, ctx.seed, "model_checking", cov, time.time() - ctx.t0,
                        ["TLC evaluator; Json/IOUtils community modules; BigNum java override",
                         "harness projection: stored preferences, bank balances, delegations / unbonding delegations / redelegations of x/staking, "
                         "pending rewards as the distribution query computes them (on a discarded branch), locks of x/lockup (shared by both binding directions)",
                         "messages run as ValidateBasic + the registered handler on a branch written only on success (DeliverTx); a panic is a refusal",
                         "staking denomination = base coin unit; validators bonded, zero commission, never slashed (a share is one token: the projection panics otherwise)",
                         "reward accrual (AllocateTokensToValidator), funding, direct staking, locking and the staking end blocker after the unbonding period are driven as environment",
                         "the order in which a list is stored, the number of entries of a redelegation and which pending rewards staking pays out are inputs from the log"])


def evidence_on_violation(ctx, v):
    vlib.write_evidence("X04", ctx.tier, ctx.seed, "model_checking",
                        {"evaluations": 1, "distinct_nontrivial": 2, "samples": [v.what],
                         "explanation": "violation found in leg " + str(ctx.leg)}, time.time() - ctx.t0, [], 1)
