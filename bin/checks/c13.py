"""C13 - the approximate math functions of osmomath meet their stated error bounds, the monotone
square roots are least upper roots and monotone, SigFigRound moves a value by at most half a unit of
the last kept digit, the binary searches answer within the requested tolerance on the requested side
or report non-convergence, and outside their domain the functions fail loudly.

Spec: spec/MathFns.tla over spec/Exp2Cert.tla (self-certifying table of enclosures of 2^(2^-i); the
only transcendental reference).  Legs: (1) TLC on MCMathFns: the table / constant certificates, the
enclosures at exact points, the contracts at the real scales on independently computed references
(all ASSUMEs), and an exhaustive model at a tiny scale whose answers come from native models of the
documented algorithms; (2) impl->spec: calls recorded from the REAL functions (domain edges and their
neighbours, dyadic / few-digit / random interiors, sorted square-root sweeps, ties, searches over a
recomputable monotone family) validated call by call by TLC (TraceMathFns, BigNum arithmetic at
10^36 / 10^18); every deviating call is classified into a signature.  Events are independent calls:
there is no spec->impl replay leg (nothing to replay)."""
import collections, concurrent.futures, json, os, re, time
import vlib
from vlib import Infra, Violation, log

PROP = "C13"
TRUST = ("Trusted: TLC evaluator, Json/IOUtils community modules, BigNum.tla with its java.math.BigInteger override "
         "(differential-tested by `bin/check setup`), the recorder's logging of arguments and results, go -overlay. "
         "NOT trusted: the digits of the 2^(2^-i) table and of log2 e / log2 1.0001 (re-established by TLC's ASSUMEs at "
         "every start), the log2 witnesses of the recorder (verified by TLC through the enclosures before use).")
MANIFEST = {
    "engine": "tlc+go-harness", "design_ref": "DESIGN.md section 4 (C13), 3.3",
    "technique": "TLA+ spec MathFns.tla over Exp2Cert.tla (self-certifying enclosures of 2^z, 160 fractional bits, 72 digits); "
                 "TLC: certificates + reference values as ASSUMEs and an exhaustive tiny-scale model; calls recorded from the "
                 "real osmomath functions validated by TLC with BigNum arithmetic at scale 10^36/10^18",
    "text": "MathFns.tla states, per public entry point, the clause of C13 as inequalities on certified enclosures of the ideal: "
            "Exp2 (relative 1e-18 on [0, 2^9]), LogBase2 (absolute 1e-32), Ln/TickLog/CustomBaseLog (the same through the base "
            "change: |y c - log2 x| <= 1e-32 + |y| eps_c + |c| 1e-36 with c enclosed by TLC: log2 e from a series enclosure of e, "
            "log2 1.0001 from the rational, log2 base from an untrusted 60-digit witness verified to 1e-45), Pow/PowApprox "
            "(|y - b^e| <= b^floor(e) (P max(1,(1-b)/b) + 1e-12) + 1e-16, by integer powers alone when e = p/q with q <= 16, "
            "else through the verified witness), PowerInteger (n roundings), MonotonicSqrt* (least root on the grid, and the "
            "action property: never decreases when the input increases, checked on consecutive calls of sorted sweeps), "
            "SigFigRound (half a unit of the last kept digit), BinarySearch/BinarySearchBigDec (returned input in range, its "
            "image - recomputed by TLC for the family c0 + c1 x + c2 floor(x^2) - on the requested side and within the "
            "additive / multiplicative tolerance, or non-convergence after exactly the iteration cap), ErrTolerance.Compare*; "
            "domain violations must fail loudly. MC: certificates, exact-point sanity, 63 reference checks at the real scales, "
            "5.4e4 states at the tiny scale (quick). Traces: 1.6e4 calls quick / 3e5 thorough, every deviating call classified "
            "by signature (open findings in known_findings.json are reported as KNOWN-FINDING).",
    "note": TRUST + " Accuracy is sampled, not proved over the continuum; the enclosure slack (< 5e-49 relative) is far below "
            "every tolerance. OrderOfMagnitude's value and the aliasing of SigFigRound's argument are outside the statement: "
            "they are evaluated and reported as observations, never as verdicts.",
}
BUILD = [("./lite/mathfns/", "mathfns")]

MC_CFG = """SPECIFICATION MCSpec
CONSTANTS
  PBD = 4
  PDEC = 2
  XMax = %(xmax)d
  DMax = %(dmax)d
  TMax = %(tmax)d
INVARIANTS Contract Discriminates
PROPERTIES SqrtMonotone
CHECK_DEADLOCK FALSE
"""

S18, S36 = 10 ** 18, 10 ** 36
LOGS = ("LogBase2", "Ln", "TickLog")
SQRTS = ("MonotonicSqrt", "MonotonicSqrtMut", "MustMonotonicSqrt",
         "MonotonicSqrtBigDec", "MonotonicSqrtBigDecMut", "MustMonotonicSqrtBigDec")
FUNCS = ("Exp2",) + LOGS + ("CustomBaseLog", "Pow", "PowApprox", "PowerInteger", "PowerIntegerMut") + SQRTS + \
        ("SigFigRound", "BinarySearch", "BinarySearchBigDec", "Compare", "CompareDec", "CompareBigDec", "OrderOfMagnitude")
# clauses that say the harness / witness / model is at fault, never the code
INFRA_CLAUSES = {"witness", "harness", "unknown-op", "unsupported"}
DIRS = {0: "unconstrained", 1: "round-up", 2: "round-down"}


def val(b):
    x = 0
    for limb in reversed(b["m"]):
        x = x * 10000 + limb
    return x * b["s"]


def shape(ev):
    """argument shape of a call (what a known finding is keyed by, besides function and clauses)"""
    f = ev["f"]
    x = [val(v) for v in ev["x"]]
    if f == "Exp2":
        return "x<0" if x[0] < 0 else "x>2^9" if x[0] > 512 * S36 else "in-domain"
    if f in LOGS:
        return "x<=0" if x[0] <= 0 else "in-domain"
    if f == "CustomBaseLog":
        if x[1] <= 0 or x[1] == S36:
            return "base<=0-or-1"
        return "x<=0" if x[0] <= 0 else "in-domain"
    if f in ("Pow", "PowApprox"):
        b, e = x[0], x[1]
        bs = "base<=0" if b <= 0 else "base<1" if b < S18 else "base=1" if b == S18 else "base<2" if b < 2 * S18 else \
             "base=2" if b == 2 * S18 else "base>2"
        es = "exp<=-1" if e <= -S18 else "-1<exp<0" if e < 0 else "exp<1" if e < S18 else "exp>=1"
        return bs + ":" + es
    if f.startswith("PowerInteger"):
        return "|d|<=1" if abs(x[0]) <= S36 else "|d|>1"
    if f in SQRTS:
        return "x<0" if x[0] < 0 else "x>=0"
    if f == "SigFigRound":
        return "tenToSigFig<=0" if x[1] <= 0 else "d<0" if x[0] < 0 else "d=0" if x[0] == 0 else "d>0"
    if f.startswith("BinarySearch") or f.startswith("Compare"):
        n = ev["n"]
        add, mul = (x[3], x[4]) if f.startswith("BinarySearch") else (x[2], x[3])
        return "%s:add=%s:mul=%s" % (DIRS.get(n[2], n[2]), "none" if not n[0] else "0" if add == 0 else "yes",
                                      "none" if not n[1] else "0" if mul == 0 else "yes")
    if f == "OrderOfMagnitude":
        return "d<0" if x[0] < 0 else "d>=0"
    return "?"


def signature(ev, reasons):
    return "%s:%s:%s" % (ev["f"], "+".join(reasons), shape(ev))


def fmt_event(ev):
    d = {k: ev[k] for k in ("f", "n", "ok", "err", "tag")}
    d["x"] = [str(val(v)) for v in ev["x"]]
    d["r"] = str(val(ev["r"]))
    d["w"] = [str(val(v)) for v in ev["w"]]
    return d


def describe(ev):
    f = ev["f"]
    x = [val(v) for v in ev["x"]]
    sc = {"Exp2": 36, "CustomBaseLog": 36, "PowerInteger": 36, "PowerIntegerMut": 36, "MonotonicSqrtBigDec": 36,
          "MonotonicSqrtBigDecMut": 36, "MustMonotonicSqrtBigDec": 36, "BinarySearchBigDec": 36, "CompareBigDec": 36,
          "LogBase2": 36, "Ln": 36, "TickLog": 36, "BinarySearch": 0, "Compare": 0}.get(f, 18)
    args = ["%de-%d" % (v, sc) for v in x[:3]]
    if f == "SigFigRound":
        args[1] = "tenToSigFig=%d" % x[1]
    return "%s(%s%s) -> %s" % (f, ", ".join(args), (", n=%s" % ev["n"]) if ev["n"] else "",
                               ("%de-%d" % (val(ev["r"]), sc)) if ev["ok"] else "failed: " + ev["err"][:60])


RE_BAD = re.compile(r'<<"C13(BAD|OBS)", (\d+), \{(.*)\}>>')


def monitor(trace, parallel):
    """TLC (TraceMathFns, monitor configuration) over the whole trace in chunks; returns
    (generated, distinct, lines, [(trace_line, [violated clauses])], [(trace_line, [observations])])."""
    chunks = vlib.split_histories(trace, parallel)

    def one(ch):
        return ch, vlib.tlc("TraceMathFns.tla", "TraceMathFnsMonitor.cfg", workers=1, timeout=3000,
                            env={"TRACE_FILE": ch[0]}, heap="2g", tag="C13-trace")

    with concurrent.futures.ThreadPoolExecutor(max_workers=parallel) as ex:
        results = list(ex.map(one, chunks))
    gen = dist = lines = 0
    bad, obs = [], []
    for (p, first, n), r in results:
        if r.error or not r.ok:
            raise Infra("trace validation TraceMathFns: %s (see %s)" % (r.error or "trace not consumed", r.out))
        gen, dist, lines = gen + r.generated, dist + r.distinct, lines + n
        for pr in r.prints:
            m = RE_BAD.match(pr)
            if m:
                (bad if m.group(1) == "BAD" else obs).append((first + int(m.group(2)) - 1,
                                                              sorted(re.findall(r'"([^"]+)"', m.group(3)))))
    for p, _, _ in chunks:
        try:
            os.remove(p)
        except OSError:
            pass
    return gen, dist, lines, bad, obs


NEED = ["%s:ok" % f for f in FUNCS] + \
       ["%s:failed" % f for f in FUNCS if not f.startswith("Compare")] + \
       ["BinarySearch:ok:dir1", "BinarySearch:ok:dir2", "BinarySearchBigDec:ok:dir1", "BinarySearchBigDec:ok:dir2",
        "BinarySearch:ok:inexact-within-tolerance", "BinarySearchBigDec:ok:inexact-within-tolerance",
        "tag:Exp2:edge", "tag:Exp2:dyadic", "tag:Exp2:near-integer", "tag:Exp2:random",
        "tag:LogBase2:near-one", "tag:LogBase2:random", "tag:Ln:random", "tag:TickLog:random", "tag:CustomBaseLog:near-one",
        "tag:Pow:base-small", "tag:Pow:base-near-one", "tag:Pow:base-near-two", "tag:Pow:base-extreme", "tag:Pow:random/rational",
        "tag:Pow:random", "tag:PowApprox:base-small", "tag:PowApprox:random",
        "tag:SigFigRound:tie", "tag:SigFigRound:decade-edge", "tag:SigFigRound:random",
        "tag:BinarySearch:hit", "tag:BinarySearch:above-range", "tag:BinarySearchBigDec:hit", "tag:BinarySearchBigDec:near",
        "tag:Compare:at-mul-tolerance", "tag:CompareBigDec:equal"] + \
       ["sqrt:%s:%s" % (fam, t) for fam in ("dec", "bd")
        for t in ("sweep-dense", "sweep-steps", "sweep-squares", "sweep-random", "descending", "edge-negative")]


def run(ctx):
    q = ctx.quick
    cov = {"samples": []}

    # 1. design level: certificates, reference values, exhaustive tiny-scale model
    ctx.leg = "mc"
    sizes = dict(xmax=300, dmax=1500, tmax=45) if q else dict(xmax=1200, dmax=9999, tmax=150)
    res = vlib.tlc("MCMathFns.tla", "mc.cfg", workers=vlib.NCPU, timeout=3000, heap="8g", tag="C13-mc",
                   cfg_text=MC_CFG % sizes)
    vlib.tlc_must_pass(res, "MCMathFns")
    # every model call must have been reached: sqrt inputs of two families, SigFigRound (d, s), searches, comparisons
    expect = 1 + 2 * (sizes["xmax"] + 3) + 4 * (sizes["dmax"] + 1) + 2 * (sizes["tmax"] + 1) * 3 * 3 * 48 + 13 * 13 * 48
    if res.distinct != expect:
        raise Infra("MCMathFns: %d distinct states but %d model calls (+ initial state): model error" % (res.distinct, expect))
    states, trans = res.distinct, res.generated
    cov["mc_states"], cov["mc_transitions"] = states, trans
    cov["mc_bounds"] = sizes
    log("MC: table + constants certified, exact-point sanity and real-scale reference checks hold (ASSUMEs); "
        "%d distinct states / %d transitions at the tiny scale, %.0fs" % (res.distinct, res.generated, res.wall))

    # 2. impl -> spec: calls recorded from the real functions, validated call by call
    ctx.leg = "trace"
    binary = vlib.build_test("./lite/mathfns/", "mathfns")
    rounds = [16000] if q else [100000] * 3
    chunk = 1000
    ctx.params = {"events": rounds}
    d = vlib.scratch("C13-rec")
    counts = collections.Counter()
    extra = collections.Counter()
    notes = []
    gen_ = dist_ = nlines = 0
    groups = collections.OrderedDict()
    obsgroups = collections.OrderedDict()
    infra = []
    for i, nev in enumerate(rounds):
        trace = os.path.join(d, "mathfns-%d.ndjson" % i)
        t1 = time.time()
        vlib.run_test(binary, "TestRecord", {"VERIF_OUT": trace, "VERIF_SEED": int(ctx.seed) * 1000 + i, "VERIF_EVENTS": nev,
                                             "VERIF_CHUNK": chunk, "VERIF_EDGES": 1 if i == 0 else 0}, timeout=3000)
        st = json.load(open(trace + ".stats.json"))
        counts.update(st["counts"])
        extra.update(st.get("extra") or {})
        notes += st.get("notes") or []
        t2 = time.time()
        g, di, n, bad, obs = monitor(trace, parallel=min(vlib.NCPU, 16))
        gen_, dist_, nlines = gen_ + g, dist_ + di, nlines + n
        log("round %d: %d calls recorded in %.0fs; TLC validated %d lines against TraceMathFns in %.0fs: %d calls deviate, "
            "%d observations" % (i, st["counts"]["lines"] - st["counts"]["chunks"], t2 - t1, n, time.time() - t2, len(bad), len(obs)))
        lines = open(trace).read().split("\n") if (bad or obs or i == 0) else None
        if i == 0:
            for k in (1, 400, 5000):
                if k < len(lines) and lines[k].startswith('{"e":"op"'):
                    cov["samples"].append({"trace_event": fmt_event(json.loads(lines[k]))})
        for ln, reasons in sorted(bad):
            ev = json.loads(lines[ln - 1])
            if set(reasons) & INFRA_CLAUSES:
                infra.append((ln, reasons, lines[ln - 1][:400]))
                continue
            sig = signature(ev, reasons)
            g_ = groups.setdefault(sig, {"count": 0, "line": ln, "event": ev, "reasons": reasons, "size": 10 ** 9, "round": i})
            g_["count"] += 1
            if len(lines[ln - 1]) < g_["size"]:      # keep the smallest example of each signature
                g_.update(line=ln, event=ev, size=len(lines[ln - 1]), raw=lines[ln - 1], round=i)
        for ln, what in sorted(obs):
            ev = json.loads(lines[ln - 1])
            key = "%s:%s" % (ev["f"], "+".join(what))
            o = obsgroups.setdefault(key, {"count": 0, "example": describe(ev) + (" a2=%de-18" % val(ev["a2"]) if ev["f"] == "SigFigRound" else "")})
            o["count"] += 1
        os.remove(trace)
    if infra:
        raise Infra("the specification could not judge %d recorded calls (witness / harness / unsupported), e.g. line %d %s: %s"
                    % (len(infra), infra[0][0], infra[0][1], infra[0][2]))
    for name in SQRTS:       # input classes of the square roots per family (the name within a family is drawn per call)
        fam = "bd" if "BigDec" in name else "dec"
        for k, v in list(counts.items()):
            if k.startswith("tag:%s:" % name):
                t = k.split(":", 2)[2]
                counts["sqrt:%s:%s" % (fam, t[:-5] if t.endswith("-desc") else t)] += v
                if t.endswith("-desc"):
                    counts["sqrt:%s:descending" % fam] += v
    for need in NEED:
        if counts.get(need, 0) == 0:
            raise Infra("recorder produced no '%s' events: driver is not exercising the property" % need)

    # 3. observations (outside the statement: reported, never a verdict)
    for key, o in obsgroups.items():
        log("observation (outside the statement of C13) %-42s x%-5d e.g. %s" % (key, o["count"], o["example"][:300]))
    cov["observations_outside_statement"] = {k: o for k, o in obsgroups.items()}

    # 4. classify every deviation by signature; anything not a listed open finding is a violation
    for sig, g_ in groups.items():
        log("deviation %-58s x%-5d e.g. %s" % (sig, g_["count"], describe(g_["event"])[:300]))
    cov["deviations"] = {sig: g_["count"] for sig, g_ in groups.items()}
    unknown = [s for s in groups if s not in {f.get("signature") for f in ctx.known}]
    cov.update({"states": states + dist_, "transitions": trans + gen_,
                "traces_validated_against_impl": nlines, "recorded_calls": counts["lines"] - counts["chunks"],
                "calls_per_function": {f: {"ok": counts.get(f + ":ok", 0), "failed": counts.get(f + ":failed", 0)} for f in FUNCS},
                "input_classes": {k[4:]: v for k, v in sorted(counts.items()) if k.startswith("tag:")},
                "search_outcomes": {k: v for k, v in sorted(counts.items()) if k.startswith("BinarySearch") and k.count(":") == 2},
                "checker_cmd": "bin/check C13 --tier " + ctx.tier})
    for sig, g_ in groups.items():
        ev = g_["event"]
        ctx.finding(sig, "%s violates C13 (%s) on a recorded call: %s" % (sig, ", ".join(g_["reasons"]), describe(ev)),
                    {"spec": "TraceMathFns.tla", "cfg": "TraceMathFnsMonitor.cfg", "round": g_["round"], "trace_line": g_["line"],
                     "violated_clauses": g_["reasons"], "occurrences": g_["count"],
                     "offending_event": json.dumps(fmt_event(ev)), "raw_event": g_.get("raw"),
                     "all_unlisted_signatures": unknown,
                     "all_deviations": {s: x["count"] for s, x in groups.items()}})
    cov["known_findings_hit"] = dict(ctx.known_hit)
    vlib.write_evidence(PROP, ctx.tier, ctx.seed, "model_checking", cov, time.time() - ctx.t0,
                        ["TLC evaluator; Json/IOUtils community modules; BigNum java override (differential-tested in setup)",
                         "the recorder logs raw arguments and results of the exported functions faithfully (it judges nothing); "
                         "arguments are built fresh for every call",
                         "table of 2^(2^-i), log2 e, log2 1.0001: re-certified by TLC ASSUMEs at the start of every TLC process; "
                         "log2 witnesses of the recorder: verified by TLC to 1e-45 before use (a bad witness is exit 2, never a verdict)",
                         "tolerances: documented contracts of the code (exp2.go, decimal.go, math.go), first-order error of the "
                         "documented base-change formula, tail bound of the monotone power series; calibrated on the unchanged "
                         "tree against python decimal (120 digits): worst observed error/tolerance Exp2 4e-5, LogBase2 4e-3, Ln 3e-2, "
                         "TickLog 0.30, CustomBaseLog 0.05, Pow 0.91, PowApprox 0.90, PowerInteger 0.16",
                         "accuracy is sampled (domain edges and neighbours, dyadic / few-digit / random interiors), not proved over the continuum"])


def evidence_on_violation(ctx, v):
    vlib.write_evidence(PROP, ctx.tier, ctx.seed, "model_checking",
                        {"evaluations": 1, "distinct_nontrivial": 2, "samples": [v.what],
                         "explanation": "violation found in leg " + str(ctx.leg)}, time.time() - ctx.t0, [], 1)
